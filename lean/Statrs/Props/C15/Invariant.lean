/-
  C15 — Empirical distribution (hand model `Statrs/Model/Empirical.lean` of
  src/distribution/empirical.rs): the representation invariant that ties the state reached by
  ANY history of `add`/`remove` calls to the multiset of values currently held
  (`Spec.EmpiricalSpec.surviving`), in exact arithmetic (carrier ℝ).

  In particular the Welford update in `add` and the downdate in `remove` are algebraically
  correct for every history (no counterexample exists: `inv_run`).
-/
import Statrs.Lemmas.Empirical
import Statrs.Lemmas.EmpiricalMoments
namespace Statrs.Props.C15
open Statrs Statrs.Model Statrs.Spec
open Statrs.Spec.EmpiricalSpec (Op surviving)
open Statrs.Lemmas.Empirical Statrs.Lemmas.EmpiricalMoments

section
variable {α : Type} [Add α] [Sub α] [Mul α] [Div α] [Neg α] [LT α] [LE α] [BEq α]
  [DecidableLT α] [DecidableLE α] [OfScientific α] [Inhabited α] [RFun α]

/-- one call, on the model -/
def apply (e : Empirical α) : Op α → Empirical α
  | Op.add v => e.add v
  | Op.remove v => e.remove v

/-- the state reached from `Empirical::new().unwrap()` by the history `ops` (oldest call first) -/
def run (ops : List (Op α)) : Empirical α := ops.foldl apply (unwrapE Empirical.new)

omit [Neg α] [LT α] [BEq α] [DecidableLT α] [Inhabited α] in
theorem run_nil : run ([] : List (Op α)) = unwrapE Empirical.new := rfl

omit [Neg α] [LT α] [BEq α] [DecidableLT α] [Inhabited α] in
theorem run_append (ops : List (Op α)) (op : Op α) : run (ops ++ [op]) = apply (run ops) op := by
  simp [run, List.foldl_append]

end

/-- The representation invariant: state `e` holds exactly the multiset `m`.
    * `wf`   — `e.f_data` (the `BTreeMap`) has strictly increasing keys and multiplicities ≥ 1
               (`Lemmas.Empirical.WF`);
    * `data` — the multiset it stands for (`key` repeated `multiplicity` times, `expand`) is `m`;
    * `sum`  — the `sum` field is the number of values held;
    * `reset`— when nothing is held, the moments are in the hard-reset state `0.0`;
    * `moments` — otherwise the running `mean` is the sample mean of `m` and the running `var`
               is its sum of squared deviations `Σ (x - x̄)²`. -/
structure Inv (e : Empirical ℝ) (m : Multiset ℝ) : Prop where
  wf : WF e.f_data
  data : expand e.f_data = m
  sum : e.f_sum = (Multiset.card m : Int)
  reset : m = 0 → e.f_mean = 0 ∧ e.f_var = 0
  moments : m ≠ 0 → e.f_mean = EmpiricalSpec.mean m ∧ e.f_var = EmpiricalSpec.ssd m

theorem new_eq : (unwrapE Empirical.new : Empirical ℝ) = ⟨[], 0, 0, 0⟩ := by
  simp only [Empirical.new, unwrapE]
  congr 1 <;> norm_num

theorem inv_new : Inv (unwrapE Empirical.new) 0 := by
  rw [new_eq]
  exact ⟨WF_nil, rfl, by simp, fun _ => ⟨rfl, rfl⟩, fun h => absurd rfl h⟩

/-- an invariant state holding nothing IS `Empirical::new()` (field for field) -/
theorem Inv.eq_new {e : Empirical ℝ} (h : Inv e 0) : e = unwrapE Empirical.new := by
  rw [new_eq]
  obtain ⟨d, s, mu, va⟩ := e
  have hd : d = [] := (expand_eq_zero_iff h.wf).1 h.data
  have hs : s = 0 := by simpa using h.sum
  obtain ⟨h1, h2⟩ := h.reset rfl
  simp only at hd hs h1 h2
  subst hd hs h1 h2
  rfl

/-- `add` inserts one copy of `v` (Welford update is exact) -/
theorem inv_add {e : Empirical ℝ} {m : Multiset ℝ} (h : Inv e m) (v : ℝ) :
    Inv (e.add v) (v ::ₘ m) := by
  unfold Empirical.add
  simp only [rfun_isNaN, Bool.false_eq_true, if_false, rfun_ofInt]
  have one : (1.0 : ℝ) = 1 := by norm_num
  rw [one]
  refine ⟨WF_mapIncr h.wf v, ?_, ?_, fun h0 => absurd h0 Multiset.cons_ne_zero, fun _ => ?_⟩
  · simp only; rw [expand_mapIncr h.wf, h.data]
  · simp only; rw [h.sum, Multiset.card_cons]; push_cast; ring
  · simp only
    by_cases hm : m = 0
    · obtain ⟨h1, h2⟩ := h.reset hm
      have hs := h.sum
      subst hm
      simp only [Multiset.card_zero, Nat.cast_zero] at hs
      rw [h1, h2, hs]
      have e1 : (v ::ₘ (0 : Multiset ℝ)) = {v} := rfl
      rw [e1, mean_singleton, ssd_singleton]
      constructor <;> norm_num
    · obtain ⟨h1, h2⟩ := h.moments hm
      have hn := count_pos hm
      have hs : ((e.f_sum + 1 : Int) : ℝ) = EmpiricalSpec.count m + 1 := by
        rw [h.sum]; unfold EmpiricalSpec.count; push_cast; ring
      rw [hs, h1, h2, mean_cons hm, ssd_cons hm]
      constructor
      · ring
      · ring

/-- the arithmetic tail of `remove` (Welford downdate is exact): from a state holding `m ∋ v`,
    with the map already updated to hold `m.erase v ≠ 0` -/
theorem inv_downdate {e : Empirical ℝ} {m : Multiset ℝ} (h : Inv e m) {v : ℝ} (hv : v ∈ m)
    (hne : m.erase v ≠ 0) {d' : List (ℝ × Int)} (hwf : WF d') (hd' : expand d' = m.erase v) :
    Inv { f_data := d'
          f_sum := usub e.f_sum 1
          f_mean := ((e.f_sum : ℝ) * e.f_mean - v) / ((e.f_sum : ℝ) - 1)
          f_var := e.f_var -
            ((((e.f_sum : ℝ) - 1) * (v - ((e.f_sum : ℝ) * e.f_mean - v) / ((e.f_sum : ℝ) - 1)))
              * (v - ((e.f_sum : ℝ) * e.f_mean - v) / ((e.f_sum : ℝ) - 1))) / (e.f_sum : ℝ) }
      (m.erase v) := by
  have hm : m = v ::ₘ m.erase v := (Multiset.cons_erase hv).symm
  have hm0 : m ≠ 0 := by rw [hm]; exact Multiset.cons_ne_zero
  obtain ⟨h1, h2⟩ := h.moments hm0
  have hcard : Multiset.card m = Multiset.card (m.erase v) + 1 := by
    conv_lhs => rw [hm]
    rw [Multiset.card_cons]
  have hs : (e.f_sum : ℝ) = EmpiricalSpec.count (m.erase v) + 1 := by
    rw [h.sum, hcard]; unfold EmpiricalSpec.count; push_cast; ring
  have hn := count_pos hne
  have hn' : EmpiricalSpec.count (m.erase v) ≠ 0 := hn.ne'
  rw [hm, mean_cons hne] at h1
  rw [hm, ssd_cons hne] at h2
  have hmean : ((e.f_sum : ℝ) * e.f_mean - v) / ((e.f_sum : ℝ) - 1)
      = EmpiricalSpec.mean (m.erase v) := by
    rw [hs, h1, add_sub_cancel_right]; field_simp; ring
  refine ⟨hwf, hd', ?_, fun h0 => absurd h0 hne, fun _ => ⟨hmean, ?_⟩⟩
  · simp only [usub]
    rw [h.sum, hcard]
    split_ifs with hlt
    · push_cast at hlt; omega
    · push_cast; ring
  · simp only
    rw [hmean, hs, h2, add_sub_cancel_right]; field_simp; ring

/-- `remove` erases one copy of `v` if there is one, and does nothing otherwise -/
theorem inv_remove {e : Empirical ℝ} {m : Multiset ℝ} (h : Inv e m) (v : ℝ) :
    Inv (e.remove v) (m.erase v) := by
  unfold Empirical.remove
  simp only [rfun_isNaN, Bool.false_eq_true, if_false, rfun_ofInt]
  have one : (1.0 : ℝ) = 1 := by norm_num
  have zero : (0.0 : ℝ) = 0 := by norm_num
  rw [one, zero]
  cases hget : mapGet e.f_data v with
  | none =>
    have hv : v ∉ m := by rw [← h.data]; exact mapGet_none h.wf hget
    simp only
    rw [Multiset.erase_of_notMem hv]
    exact h
  | some c =>
    have hmem := mapGet_some hget
    have hc1 : 1 ≤ c := h.wf.2 _ hmem
    have hv : v ∈ m := by
      rw [← h.data]
      exact mem_keys_expand h.wf.2 (List.mem_map_of_mem (f := Prod.fst) hmem)
    simp only
    by_cases hc : c = 1
    · subst hc
      simp only [if_true, true_and, List.isEmpty_iff]
      have hwf := WF_mapRemove h.wf v
      have hd' : expand (mapRemove e.f_data v) = m.erase v := by
        rw [expand_mapRemove h.wf hget, h.data]
      split_ifs with hnil
      · have h0 : m.erase v = 0 := by rw [← hd', hnil]; rfl
        rw [h0]
        exact ⟨by rw [hnil]; exact WF_nil, by rw [hnil]; rfl, by simp,
          fun _ => ⟨rfl, rfl⟩, fun hh => absurd rfl hh⟩
      · have hne : m.erase v ≠ 0 := by
          rw [← hd']; exact fun h0 => hnil ((expand_eq_zero_iff hwf).1 h0)
        exact inv_downdate h hv hne hwf hd'
    · have hc2 : 2 ≤ c := by omega
      simp only [hc, if_false, false_and]
      have hwf := WF_mapDecr h.wf hget hc2
      have hd' : expand (mapDecr e.f_data v) = m.erase v := by
        rw [expand_mapDecr h.wf hget hc2, h.data]
      have hne : m.erase v ≠ 0 := by
        rw [← hd']; exact fun h0 => mapDecr_ne_nil hget ((expand_eq_zero_iff hwf).1 h0)
      exact inv_downdate h hv hne hwf hd'

/-- one call preserves the invariant, in step with the multiset semantics -/
theorem inv_apply {e : Empirical ℝ} {m : Multiset ℝ} (h : Inv e m) (op : Op ℝ) :
    Inv (apply e op) (EmpiricalSpec.step m op) := by
  cases op with
  | add v => exact inv_add h v
  | remove v => exact inv_remove h v

/-- **Main invariant (C15).**  After ANY sequence of `add`/`remove` calls the state holds exactly
    the surviving multiset: the map is well formed and stands for it, `sum` counts it, and the
    running moments are its sample mean and sum of squared deviations (hard-reset to `0.0`
    when it is empty). -/
theorem inv_run (ops : List (Op ℝ)) : Inv (run ops) (surviving ops) := by
  induction ops using List.reverseRecOn with
  | nil => exact inv_new
  | append_singleton ops op ih =>
    rw [run_append]
    have : surviving (ops ++ [op]) = EmpiricalSpec.step (surviving ops) op := by
      simp [surviving, List.foldl_append]
    rw [this]
    exact inv_apply ih op

/-- non-vacuity: the invariant is satisfiable by a non-trivial state -/
example : Inv (⟨[(2, 2), (5, 1)], 3, 3, 6⟩ : Empirical ℝ) (2 ::ₘ 2 ::ₘ 5 ::ₘ 0) := by
  have h := inv_add (inv_add (inv_add inv_new 5) 2) 2
  have e : ((((unwrapE Empirical.new : Empirical ℝ).add 5).add 2).add 2)
      = ⟨[(2, 2), (5, 1)], 3, 3, 6⟩ := by
    rw [new_eq]
    simp only [Empirical.add, rfun_isNaN, Bool.false_eq_true, if_false, rfun_ofInt, mapIncr,
      keyCmp_self, keyCmp_lt (show (2 : ℝ) < 5 by norm_num)]
    congr 1 <;> norm_num
  rwa [e] at h

end Statrs.Props.C15
