/-
  C15 — branch-logic facts that hold for EVERY carrier `α` (hence for IEEE `Float`):
  a NaN `add`, a NaN `remove` and a `remove` whose key is vacant return the state unchanged
  (field for field, moments included), so NaN calls can be deleted from any history.
-/
import Statrs.Props.C15.Invariant
import Statrs.Inst.Float
namespace Statrs.Props.C15
open Statrs Statrs.Model Statrs.Spec
open Statrs.Spec.EmpiricalSpec (Op)

section
variable {α : Type} [Add α] [Sub α] [Mul α] [Div α] [Neg α] [LT α] [LE α] [BEq α]
  [DecidableLT α] [DecidableLE α] [OfScientific α] [Inhabited α] [RFun α]

omit [Neg α] [LT α] [BEq α] [DecidableLT α] [Inhabited α] in
/-- `add(NaN)` changes nothing -/
theorem add_nan (e : Empirical α) (v : α) (h : RFun.isNaN v = true) : e.add v = e := by
  unfold Empirical.add; rw [if_pos h]

omit [Add α] [Neg α] [LT α] [BEq α] [DecidableLT α] [Inhabited α] in
/-- `remove(NaN)` changes nothing -/
theorem remove_nan (e : Empirical α) (v : α) (h : RFun.isNaN v = true) : e.remove v = e := by
  unfold Empirical.remove; rw [if_pos h]

omit [Add α] [Neg α] [LT α] [BEq α] [DecidableLT α] [Inhabited α] in
/-- `remove(v)` with no entry for `v` in the map (`Entry::Vacant`) changes nothing -/
theorem remove_vacant (e : Empirical α) (v : α) (h : mapGet e.f_data v = none) :
    e.remove v = e := by
  unfold Empirical.remove
  split_ifs
  · rfl
  · rw [h]

/-- the call carries a NaN argument -/
def Op.isNaN : Op α → Bool
  | Op.add v => RFun.isNaN v
  | Op.remove v => RFun.isNaN v

omit [Neg α] [LT α] [BEq α] [DecidableLT α] [Inhabited α] in
theorem apply_nan (e : Empirical α) (op : Op α) (h : Op.isNaN op = true) : apply e op = e := by
  cases op with
  | add v => exact add_nan e v h
  | remove v => exact remove_nan e v h

omit [Neg α] [LT α] [BEq α] [DecidableLT α] [Inhabited α] in
/-- deleting every NaN call from a history does not change the state reached -/
theorem run_filter_nan (ops : List (Op α)) :
    run (ops.filter (fun op => !Op.isNaN op)) = run ops := by
  unfold run
  generalize (unwrapE Empirical.new : Empirical α) = e
  induction ops generalizing e with
  | nil => rfl
  | cons op t ih =>
    cases h : Op.isNaN op with
    | true =>
      rw [List.filter_cons_of_neg (by simp [h]), List.foldl_cons, apply_nan e op h]
      exact ih e
    | false =>
      rw [List.filter_cons_of_pos (by simp [h]), List.foldl_cons, List.foldl_cons]
      exact ih _

end

/-- non-vacuity over the executable carrier: `Float` has a NaN, and a NaN `add`/`remove` on a
    non-trivial `Float` state is the identity -/
example : RFun.isNaN (RFun.nan : Float) = true ∧
    ((Empirical.from_iter [(1.5 : Float), 1.5, 3.0]).add RFun.nan
        = Empirical.from_iter [(1.5 : Float), 1.5, 3.0]) ∧
    ((Empirical.from_iter [(1.5 : Float), 1.5, 3.0]).remove RFun.nan
        = Empirical.from_iter [(1.5 : Float), 1.5, 3.0]) := by
  have h : RFun.isNaN (RFun.nan : Float) = true := by decide
  exact ⟨h, add_nan _ _ h, remove_nan _ _ h⟩

end Statrs.Props.C15
