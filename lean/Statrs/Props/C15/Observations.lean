/-
  C15 — what a user can observe of an `Empirical` after any history of `add`/`remove` calls
  is exactly what the textbook definitions give for the multiset of values currently held
  (carrier ℝ, i.e. exact arithmetic), and consequently does not depend on the history.

  Conventions inherited from ℝ-as-a-field (`x / 0 = 0`), flagged where they matter:
  * `cdf`/`sf` of the EMPTY distribution: both sides are `0 / 0` (Rust: NaN);
  * `variance` with exactly ONE value held: both sides are `0 / (1 - 1)` (Rust: `Some(NaN)`,
    see `variance_single_run`).
-/
import Statrs.Props.C15.Invariant
namespace Statrs.Props.C15
open Statrs Statrs.Model Statrs.Spec
open Statrs.Spec.EmpiricalSpec (Op surviving)
open Statrs.Lemmas.Empirical Statrs.Lemmas.EmpiricalMoments

/-! ### observations of an invariant state -/

theorem Inv.data_ne_nil {e : Empirical ℝ} {m : Multiset ℝ} (h : Inv e m) (hm : m ≠ 0) :
    e.f_data ≠ [] := by
  intro hn; apply hm; rw [← h.data, hn]; rfl

theorem Inv.isEmpty_iff {e : Empirical ℝ} {m : Multiset ℝ} (h : Inv e m) :
    e.f_data.isEmpty = true ↔ m = 0 := by
  rw [List.isEmpty_iff, ← expand_eq_zero_iff h.wf, h.data]

theorem Inv.sum_eq_count {e : Empirical ℝ} {m : Multiset ℝ} (h : Inv e m) :
    (RFun.ofInt e.f_sum : ℝ) = EmpiricalSpec.count m := by
  rw [rfun_ofInt, h.sum]; unfold EmpiricalSpec.count; push_cast; rfl

theorem Inv.cdf_eq {e : Empirical ℝ} {m : Multiset ℝ} (h : Inv e m) (x : ℝ) :
    e.cdf x = EmpiricalSpec.cdf m x := by
  unfold Empirical.cdf EmpiricalSpec.cdf
  simp only [rfun_isNaN, Bool.false_eq_true, if_false]
  rw [h.sum_eq_count, mapSumTo_eq h.wf.2, h.data, rfun_ofInt]
  push_cast; rfl

theorem Inv.sf_eq {e : Empirical ℝ} {m : Multiset ℝ} (h : Inv e m) (x : ℝ) :
    e.sf x = EmpiricalSpec.sf m x := by
  unfold Empirical.sf EmpiricalSpec.sf
  simp only [rfun_isNaN, Bool.false_eq_true, if_false]
  rw [h.sum_eq_count, mapSumFrom_eq h.wf.2, h.data, rfun_ofInt]
  push_cast; rfl

theorem Inv.min_isMin {e : Empirical ℝ} {m : Multiset ℝ} (h : Inv e m) (hm : m ≠ 0) :
    EmpiricalSpec.IsMin m e.min := by
  unfold Empirical.min EmpiricalSpec.IsMin
  have hne := h.data_ne_nil hm
  obtain ⟨a, ha⟩ : ∃ a, (keys e.f_data).head? = some a := by
    cases hd : e.f_data with
    | nil => exact absurd hd hne
    | cons p t => exact ⟨p.1, rfl⟩
  have := head_isLeast h.wf ha
  rw [h.data] at this
  unfold keys at ha
  rw [ha]; exact this

theorem Inv.max_isMax {e : Empirical ℝ} {m : Multiset ℝ} (h : Inv e m) (hm : m ≠ 0) :
    EmpiricalSpec.IsMax m e.max := by
  unfold Empirical.max EmpiricalSpec.IsMax
  have hne := h.data_ne_nil hm
  obtain ⟨a, ha⟩ : ∃ a, (keys e.f_data).reverse.head? = some a := by
    cases hr : (keys e.f_data).reverse with
    | nil =>
      exfalso; apply hne
      have : keys e.f_data = [] := List.reverse_eq_nil_iff.1 hr
      unfold keys at this
      exact List.map_eq_nil_iff.1 this
    | cons b t => exact ⟨b, rfl⟩
  have := last_isGreatest h.wf ha
  rw [h.data] at this
  unfold keys at ha
  rw [ha]; exact this

theorem Inv.min_panics_iff {e : Empirical ℝ} {m : Multiset ℝ} (h : Inv e m) :
    e.min_panics = true ↔ m = 0 := h.isEmpty_iff

theorem Inv.mean_eq {e : Empirical ℝ} {m : Multiset ℝ} (h : Inv e m) :
    e.mean = if m = 0 then none else some (EmpiricalSpec.mean m) := by
  unfold Empirical.mean
  by_cases hm : m = 0
  · rw [if_pos (h.isEmpty_iff.2 hm), if_pos hm]
  · rw [if_neg (fun hh => hm (h.isEmpty_iff.1 hh)), if_neg hm, (h.moments hm).1]

theorem Inv.variance_eq {e : Empirical ℝ} {m : Multiset ℝ} (h : Inv e m) :
    e.variance = if m = 0 then none else some (EmpiricalSpec.variance m) := by
  unfold Empirical.variance
  by_cases hm : m = 0
  · rw [if_pos (h.isEmpty_iff.2 hm), if_pos hm]
  · rw [if_neg (fun hh => hm (h.isEmpty_iff.1 hh)), if_neg hm, (h.moments hm).2, h.sum_eq_count]
    unfold EmpiricalSpec.variance
    norm_num

/-- an invariant state is DETERMINED by the multiset it holds -/
theorem Inv.unique {e₁ e₂ : Empirical ℝ} {m : Multiset ℝ} (h₁ : Inv e₁ m) (h₂ : Inv e₂ m) :
    e₁ = e₂ := by
  have hd : e₁.f_data = e₂.f_data := WF_expand_inj h₁.wf h₂.wf (by rw [h₁.data, h₂.data])
  have hs : e₁.f_sum = e₂.f_sum := by rw [h₁.sum, h₂.sum]
  have hmv : e₁.f_mean = e₂.f_mean ∧ e₁.f_var = e₂.f_var := by
    by_cases hm : m = 0
    · obtain ⟨a, b⟩ := h₁.reset hm; obtain ⟨c, d⟩ := h₂.reset hm
      exact ⟨by rw [a, c], by rw [b, d]⟩
    · obtain ⟨a, b⟩ := h₁.moments hm; obtain ⟨c, d⟩ := h₂.moments hm
      exact ⟨by rw [a, c], by rw [b, d]⟩
  obtain ⟨d1, s1, m1, v1⟩ := e₁
  obtain ⟨d2, s2, m2, v2⟩ := e₂
  simp only at hd hs hmv
  obtain ⟨hm', hv'⟩ := hmv
  subst hd hs hm' hv'
  rfl

/-! ### after any history -/

/-- `cdf(x) = #{held values ≤ x} / n` after any history -/
theorem cdf_run (ops : List (Op ℝ)) (x : ℝ) :
    (run ops).cdf x = EmpiricalSpec.cdf (surviving ops) x := (inv_run ops).cdf_eq x

/-- `sf(x) = #{held values > x} / n` after any history -/
theorem sf_run (ops : List (Op ℝ)) (x : ℝ) :
    (run ops).sf x = EmpiricalSpec.sf (surviving ops) x := (inv_run ops).sf_eq x

/-- `min()` is the least held value, whenever something is held (otherwise Rust panics:
    `min_panics_run`) -/
theorem min_run (ops : List (Op ℝ)) (h : surviving ops ≠ 0) :
    EmpiricalSpec.IsMin (surviving ops) (run ops).min := (inv_run ops).min_isMin h

/-- `max()` is the greatest held value, whenever something is held -/
theorem max_run (ops : List (Op ℝ)) (h : surviving ops ≠ 0) :
    EmpiricalSpec.IsMax (surviving ops) (run ops).max := (inv_run ops).max_isMax h

/-- `min()`/`max()` panic exactly when nothing is held -/
theorem min_panics_run (ops : List (Op ℝ)) :
    (run ops).min_panics = true ↔ surviving ops = 0 := (inv_run ops).min_panics_iff

/-- `mean()` is `None` when nothing is held, else the sample mean of the held values -/
theorem mean_run (ops : List (Op ℝ)) :
    (run ops).mean
      = if surviving ops = 0 then none else some (EmpiricalSpec.mean (surviving ops)) :=
  (inv_run ops).mean_eq

/-- `variance()` is `None` when nothing is held, else `Σ (x - x̄)² / (n - 1)` of the held values
    (for `n = 1` both sides are the ℝ-convention `0 / 0`; see `variance_single_run`) -/
theorem variance_run (ops : List (Op ℝ)) :
    (run ops).variance
      = if surviving ops = 0 then none else some (EmpiricalSpec.variance (surviving ops)) :=
  (inv_run ops).variance_eq

/-- the running second moment is `M2 = Σ (x - x̄)²` and `variance() = M2 / (n - 1)` -/
theorem variance_run_M2 (ops : List (Op ℝ)) (h : surviving ops ≠ 0) :
    (run ops).f_var = EmpiricalSpec.ssd (surviving ops) ∧
    (run ops).variance
      = some (EmpiricalSpec.ssd (surviving ops) / (EmpiricalSpec.count (surviving ops) - 1)) := by
  refine ⟨((inv_run ops).moments h).2, ?_⟩
  rw [variance_run, if_neg h]; rfl

/-- with exactly one value held, `variance()` evaluates `0 / (1 - 1)`: numerator `var = 0`,
    denominator `sum as f64 - 1. = 0`.  (In `f64` this is `Some(NaN)`, not `None`.) -/
theorem variance_single_run (ops : List (Op ℝ)) (h : Multiset.card (surviving ops) = 1) :
    (run ops).f_var = 0 ∧ (RFun.ofInt (run ops).f_sum : ℝ) - (1.0 : ℝ) = 0 := by
  obtain ⟨v, hv⟩ := Multiset.card_eq_one.1 h
  have hne : surviving ops ≠ 0 := by rw [hv]; exact Multiset.singleton_ne_zero v
  refine ⟨?_, ?_⟩
  · rw [((inv_run ops).moments hne).2, hv, ssd_singleton]
  · rw [(inv_run ops).sum_eq_count]; unfold EmpiricalSpec.count; rw [h]; norm_num

/-! ### history independence -/

/-- **History independence (state level).**  Two histories that end in the same multiset end in
    the SAME state, field for field (in exact arithmetic). -/
theorem history_independent (ops₁ ops₂ : List (Op ℝ)) (h : surviving ops₁ = surviving ops₂) :
    run ops₁ = run ops₂ :=
  (inv_run ops₁).unique (h ▸ inv_run ops₂)

/-- **History independence (observations).**  Two histories that end in the same multiset are
    observationally equal: same `cdf`, `sf`, `min`, `max`, `mean`, `variance`. -/
theorem observationally_equal (ops₁ ops₂ : List (Op ℝ)) (h : surviving ops₁ = surviving ops₂) :
    (∀ x, (run ops₁).cdf x = (run ops₂).cdf x) ∧ (∀ x, (run ops₁).sf x = (run ops₂).sf x) ∧
    (run ops₁).min = (run ops₂).min ∧ (run ops₁).max = (run ops₂).max ∧
    (run ops₁).mean = (run ops₂).mean ∧ (run ops₁).variance = (run ops₂).variance := by
  rw [history_independent ops₁ ops₂ h]
  exact ⟨fun _ => rfl, fun _ => rfl, rfl, rfl, rfl, rfl⟩

/-! ### removals -/

/-- removing a value that is not held changes nothing -/
theorem remove_absent_run (ops : List (Op ℝ)) (v : ℝ) (h : v ∉ surviving ops) :
    (run ops).remove v = run ops := by
  have h' := inv_remove (inv_run ops) v
  rw [Multiset.erase_of_notMem h] at h'
  exact h'.unique (inv_run ops)

/-- a state that holds nothing IS `Empirical::new()` — whatever was inserted and removed before -/
theorem run_eq_new_of_empty (ops : List (Op ℝ)) (h : surviving ops = 0) :
    run ops = unwrapE Empirical.new :=
  (h ▸ inv_run ops).eq_new

/-- removing the last held value returns the distribution to exactly the empty state -/
theorem remove_last_run (ops : List (Op ℝ)) (v : ℝ) (h : surviving ops = {v}) :
    (run ops).remove v = unwrapE Empirical.new := by
  have h' := inv_remove (inv_run ops) v
  rw [h] at h'
  have e : ({v} : Multiset ℝ).erase v = 0 := by
    rw [← Multiset.cons_zero, Multiset.erase_cons_head]
  rw [e] at h'
  exact h'.eq_new

/-! ### `from_iter` -/

section
variable {α : Type} [Add α] [Sub α] [Mul α] [Div α] [Neg α] [LT α] [LE α] [BEq α]
  [DecidableLT α] [DecidableLE α] [OfScientific α] [Inhabited α] [RFun α]

omit [Neg α] [LT α] [BEq α] [DecidableLT α] [Inhabited α] in
/-- `from_iter` is the left fold of `add` from `new()`, for every carrier -/
theorem from_iter_eq_foldl (l : List α) :
    Empirical.from_iter l = l.foldl Empirical.add (unwrapE Empirical.new) := rfl

omit [Neg α] [LT α] [BEq α] [DecidableLT α] [Inhabited α] in
/-- `from_iter l` is the history "add every element of `l` in order", for every carrier -/
theorem from_iter_eq_run (l : List α) : Empirical.from_iter l = run (l.map Op.add) := by
  unfold Empirical.from_iter run
  rw [List.foldl_map]
  rfl
end

theorem surviving_adds (l : List ℝ) : surviving (l.map Op.add) = (l : Multiset ℝ) := by
  have key : ∀ acc : Multiset ℝ,
      (l.map Op.add).foldl EmpiricalSpec.step acc = (l : Multiset ℝ) + acc := by
    induction l with
    | nil => intro acc; simp
    | cons x t ih =>
      intro acc
      simp only [List.map_cons, List.foldl_cons, EmpiricalSpec.step, ih]
      rw [← Multiset.cons_coe, Multiset.add_cons, Multiset.cons_add]
  unfold surviving
  rw [key, add_zero]

/-- `from_iter l` holds exactly the elements of `l` (with multiplicity) -/
theorem inv_from_iter (l : List ℝ) : Inv (Empirical.from_iter l) (l : Multiset ℝ) := by
  rw [from_iter_eq_run, ← surviving_adds]
  exact inv_run _

/-- `from_iter` does not depend on the order of the data -/
theorem from_iter_perm {l₁ l₂ : List ℝ} (h : l₁.Perm l₂) :
    Empirical.from_iter l₁ = Empirical.from_iter l₂ :=
  (inv_from_iter l₁).unique ((Multiset.coe_eq_coe.2 h) ▸ inv_from_iter l₂)

end Statrs.Props.C15
