/-
  C16 — `fishers_exact` with the one-sided alternatives equals the exact hypergeometric tail of the
  2×2 table `[[a, b], [c, d]]` (`X` = top-left cell, `X ~ Hypergeometric(N = a+b+c+d, K = a+b,
  n = a+c)`, Spec/Tests.lean):

      Less    ↦ P(X ≤ a) = Σ_{i ≤ a} C(K,i) C(N−K, n−i) / C(N,n)
      Greater ↦ P(X ≥ a),   computed by the code as `Less` on the column-swapped table
                            (`fisher_greater_reflection`, every carrier)

  relative to `LnBinomialSpec` (`exp (ln C(n,k)) = C(n,k)` for `0 ≤ k ≤ n`).

  `…_partial`: over ℝ the statements are restricted to tables whose summation range `0..a`
  (resp. `0..b`) does not start below the support of the distribution, i.e. `a ≤ d` (resp.
  `b ≤ c`), or which take the `cdf = 1` early return (`b = 0 ∨ c = 0`, resp. `a = 0 ∨ d = 0`).
  For the remaining tables the Rust code sums terms `exp(ln C(m, j))` with `j > m`, relying on
  `ln_binomial = −∞` and `exp(−∞) = 0`; infinities are junk in the ℝ model (brief, "model
  limits"), so nothing can be stated there over ℝ.
  The zero-row/zero-column early exits return 1 (every carrier).
-/
import Statrs.Lemmas.TestsHyper
namespace Statrs.Props.C16
open Statrs Statrs.Gen Statrs.Lemmas.TestsHyper
open Spec.Tests Statrs.Spec.TestsSF

section
variable {α : Type} [Add α] [Sub α] [Mul α] [Div α] [Neg α] [LT α] [LE α] [BEq α]
  [DecidableLT α] [DecidableLE α] [OfScientific α] [Inhabited α] [RFun α] [SF α]

/-- early exits: a zero row or a zero column gives p-value 1, whatever the alternative -/
theorem fisher_zero_margin (a b c d : ℤ) (alt : Alternative)
    (h : (a = 0 ∧ c = 0) ∨ (b = 0 ∧ d = 0) ∨ (a = 0 ∧ b = 0) ∨ (c = 0 ∧ d = 0)) :
    T.fisher.fishers_exact (α := α) [a, b, c, d] alt = .ok (1.0 : α) :=
  fishers_exact_early a b c d alt h

/-- the reflection the code uses for `Greater`: it is `Less` on the table with the two columns
    exchanged (every carrier, every table of non-negative counts) -/
theorem fisher_greater_reflection (a b c d : ℤ) (ha : 0 ≤ a) (hb : 0 ≤ b) (hc : 0 ≤ c)
    (hd : 0 ≤ d) :
    T.fisher.fishers_exact (α := α) [a, b, c, d] Alternative.Greater
      = T.fisher.fishers_exact (α := α) [b, a, d, c] Alternative.Less :=
  fisher_greater_eq_less_swapped a b c d ha hb hc hd

end

/-- `Less` = exact lower hypergeometric tail `P(X ≤ a)` -/
theorem fisher_less_exact_rel_partial [SF ℝ] (L : LnBinomialSpec) (a b c d : ℕ) (h : a ≤ d ∨ b = 0 ∨ c = 0) :
    T.fisher.fishers_exact (α := ℝ) [(a : ℤ), (b : ℤ), (c : ℤ), (d : ℤ)] Alternative.Less
      = .ok (hyperLower (a + b + c + d) (a + b) (a + c) a) := by
  by_cases hz : zeroMargin (a : ℤ) b c d
  · rw [fishers_exact_early _ _ _ _ _ hz, hyperLower_eq_one _ _ _ _ (by omega) (by omega)]
    · norm_num
    · unfold zeroMargin at hz
      rcases hz with ⟨h1, h2⟩ | ⟨h1, h2⟩ | ⟨h1, h2⟩ | ⟨h1, h2⟩ <;>
        (apply min_le_iff.mpr; first | (left; omega) | (right; omega))
  · have hnew := hyper_new_ok (α := ℝ) (((a:ℤ) + b) + (c + d)) ((a:ℤ) + b) ((a:ℤ) + c) (by omega) (by omega)
    rw [fishers_exact_less_main _ _ _ _ hz _ hnew]
    have e1 : ((a:ℤ) + b) + (c + d) = ((a + b + c + d : ℕ) : ℤ) := by push_cast; ring
    have e2 : ((a:ℤ) + b) = ((a + b : ℕ) : ℤ) := by push_cast; ring
    have e3 : ((a:ℤ) + c) = ((a + c : ℕ) : ℤ) := by push_cast; ring
    rw [e1, e2, e3, hyper_cdf_rel L _ _ _ a (by omega) (by omega)]
    · rw [rfun_fmin, min_eq_left]
      have := hyperLower_le_one (a + b + c + d) (a + b) (a + c) a (by omega) (by omega)
      norm_num; exact this
    · rcases h with h | h | h
      · left; omega
      · right; apply min_le_iff.mpr; left; omega
      · right; apply min_le_iff.mpr; right; omega

/-- `Greater` = exact upper hypergeometric tail `P(X ≥ a)` -/
theorem fisher_greater_exact_rel_partial [SF ℝ] (L : LnBinomialSpec) (a b c d : ℕ)
    (h : b ≤ c ∨ a = 0 ∨ d = 0) :
    T.fisher.fishers_exact (α := ℝ) [(a : ℤ), (b : ℤ), (c : ℤ), (d : ℤ)] Alternative.Greater
      = .ok (hyperUpper (a + b + c + d) (a + b) (a + c) a) := by
  rw [fisher_greater_eq_less_swapped _ _ _ _ (by omega) (by omega) (by omega) (by omega),
    fisher_less_exact_rel_partial L b a d c h, ← hyperLower_reflect a b c d]
  rw [show b + a + d + c = a + b + c + d by ring, show b + a = a + b by ring]

/-- the spec tails are genuine probabilities -/
theorem hyperLower_range (N K n x : ℕ) (hK : K ≤ N) (hn : n ≤ N) :
    0 ≤ hyperLower N K n x ∧ hyperLower N K n x ≤ 1 :=
  ⟨Finset.sum_nonneg (fun i _ => hyperPmf_nonneg N K n i), hyperLower_le_one N K n x hK hn⟩

/-- non-vacuity: the premise has a model (`Spec.TestsSF.lnBinomialSpec_witness`), and the table
    `[[1,2],[3,4]]` satisfies both side conditions -/
example [SF ℝ] (L : LnBinomialSpec) :
    T.fisher.fishers_exact (α := ℝ) [1, 2, 3, 4] Alternative.Less = .ok (hyperLower 10 3 4 1)
    ∧ T.fisher.fishers_exact (α := ℝ) [1, 2, 3, 4] Alternative.Greater = .ok (hyperUpper 10 3 4 1) :=
  ⟨by simpa using fisher_less_exact_rel_partial L 1 2 3 4 (by norm_num),
   by simpa using fisher_greater_exact_rel_partial L 1 2 3 4 (by norm_num)⟩

end Statrs.Props.C16
