/-
  C16 — `fishers_exact(.., Alternative::TwoSided)`: what the two-sided branch computes, for every
  strictly unimodal pmf (premise `UnimodalPmfSpec`, FisherTwoSidedSpec.lean) and every slack
  `0 < e < 1` (the code uses `e = EPSILON = 1 − 1e-4`).  Notation: `p = f a` the probability of the
  observed table, `massLE f lo hi t = Σ_{lo ≤ k ≤ hi, f k ≤ t} f k`; the textbook p-value is
  `massLE f lo hi p`.

  Result, branch by branch (all proved below on `twoSidedM`, which IS the generated code by
  `fishers_exact_twosided_eq`):
    1. `|p − f mode| / max p (f mode) ≤ 1 − e`  ⇔  `f mode ≤ p / e`: returns 1 = `massLE (p/e)`.
    2. `a < mode`, shortcut `f n > p / e`: far tail empty (`shortcut_upper_sound`), returns
       `F a = massLE p` (NO slack on the near side: tables `a < k < mode` with `p < f k ≤ p/e` are
       not counted although they are within the slack).
    3. `a < mode`, search: returns `Σ_{k ≤ a ∨ r ≤ k} f k`, `r = binary_search(upper)`, with
       `massLE p ≤ result ≤ massLE (p/e)`.
    4. `a > mode`, shortcut `f 0 > p / e`: returns `1 − F (a−1) = massLE p` (`a = mode` is always
       branch 1 under the premise, `twoSidedM_at_mode`; for `a = 0` the code takes the upper tail
       to be the constant 1 and never forms `a − 1`: `twoSidedM_zero_cell`, and for the generated
       code on every carrier `fisher_twosided_zero_cell_no_underflow`).
    5. `a > mode`, search: returns `Σ_{k ≤ r ∨ a ≤ k} f k`, `r = binary_search(lower)`, with
       `massLT (p·e) ≤ result ≤ massLE (p/e)`; `massLE p ≤ result` holds only under an additional
       gap hypothesis and is FALSE in general (`twoSided_underinclusion_counterexample`: the
       mis-directed halving loop leaves the first linear scan to stop at the first far-side table
       with `f k ≥ p·e`, so a second far-side table with `p·e ≤ f k ≤ p` is dropped).
  So the implemented set is not `{f k ≤ p / e'}` for any single `e'`; it coincides with the textbook
  set whenever no table lies in the slack zones (`twoSidedM_eq_textbook`).
-/
import Statrs.Props.C16.FisherTwoSidedSpec
set_option linter.unusedVariables false
set_option linter.unusedSectionVars false
namespace Statrs.Props.C16
open Statrs Statrs.Gen Statrs.Lemmas.Unimodal Statrs.Lemmas.UnimodalSums Statrs.Lemmas.TestsHyper
open Finset

theorem fts_lit_one : (1.0 : ℝ) = 1 := by norm_num

/-- total mass of the support points with `f k < t` -/
noncomputable def massLT (f : ℤ → ℝ) (lo hi : ℤ) (t : ℝ) : ℝ :=
  ∑ k ∈ (Icc lo hi).filter (fun k => f k < t), f k

/-! ### (c) soundness of the two shortcuts — premise-minimal form -/

/-- **Shortcut soundness (observed table below the mode).**  If `f` is non-increasing from `mode`
    on and `f n > t` (the code's test `dist.pmf(n) > p_exact / EPSILON`, `t = p_exact / EPSILON`),
    then NO index of `[mode, n]` has `f k ≤ t`: the far tail is empty.  (With `p_exact * EPSILON` in
    place of `p_exact / EPSILON` the conclusion about `t = p_exact / EPSILON` no longer follows:
    `shortcut_mul_unsound`.) -/
theorem shortcut_upper_sound (f : ℤ → ℝ) (mode n : ℤ) (t : ℝ)
    (hanti : ∀ i j, mode ≤ i → i ≤ j → f j ≤ f i) (hsc : t < f n) :
    ∀ k, mode ≤ k → k ≤ n → ¬ f k ≤ t :=
  fun k h1 h2 h => absurd (lt_of_lt_of_le hsc (hanti k n h1 h2)) (not_lt.mpr h)

/-- **Shortcut soundness (observed table above the mode)**: `f 0 > t` and `f` non-decreasing up to
    `mode` leave no index of `[0, mode]` with `f k ≤ t` -/
theorem shortcut_lower_sound (f : ℤ → ℝ) (mode : ℤ) (t : ℝ)
    (hmono : ∀ i j, 0 ≤ i → i ≤ j → j ≤ mode → f i ≤ f j) (hsc : t < f 0) :
    ∀ k, 0 ≤ k → k ≤ mode → ¬ f k ≤ t :=
  fun k h1 h2 h => absurd (lt_of_lt_of_le hsc (hmono 0 k (le_refl _) h1 h2)) (not_lt.mpr h)

section main
variable {f F : ℤ → ℝ} {lo hi mode : ℤ}

/-- the near-mode test of the source, in closed form -/
theorem near_mode_iff (S : UnimodalPmfSpec f F lo hi mode) (a : ℤ) (ha : 0 ≤ a) (e : ℝ) :
    |f a - f mode| / max (f a) (f mode) ≤ (1.0 : ℝ) - e ↔ e * f mode ≤ f a := by
  have hle : f a ≤ f mode := S.le_at_mode a ha
  have hpos : 0 < f mode := S.mode_pos
  rw [max_eq_right hle, abs_sub_comm, abs_of_nonneg (by linarith), div_le_iff₀ hpos, fts_lit_one]
  constructor <;> intro h <;> nlinarith

/-- the far tail on the upper side is empty under the shortcut (structure form) -/
theorem far_tail_empty_upper (S : UnimodalPmfSpec f F lo hi mode) (n : ℤ) (t : ℝ)
    (hsc : t < f n) : ∀ k, mode ≤ k → k ≤ n → ¬ f k ≤ t :=
  shortcut_upper_sound f mode n t S.anti hsc

theorem far_tail_empty_lower (S : UnimodalPmfSpec f F lo hi mode) (t : ℝ)
    (hsc : t < f 0) : ∀ k, 0 ≤ k → k ≤ mode → ¬ f k ≤ t :=
  shortcut_lower_sound f mode t S.mono hsc

/-- **Branch 1** (`|p − p_mode| / max ≤ 1 − e`): the code returns 1, which is the mass of the
    slack set `{f k ≤ p / e}` (every table is in it).  The textbook value `massLE p` can be smaller. -/
theorem twoSided_near_mode (S : UnimodalPmfSpec f F lo hi mode) (n a : ℤ) (ha : 0 ≤ a) (e : ℝ)
    (he0 : 0 < e) (hclose : e * f mode ≤ f a) :
    twoSidedM f F n mode a e = 1 ∧ massLE f lo hi (f a / e) = 1 := by
  constructor
  · unfold twoSidedM
    rw [if_pos ((near_mode_iff S a ha e).mpr hclose), fts_lit_one]
  · unfold massLE
    rw [Finset.filter_true_of_mem, S.total]
    intro k hk
    have hk0 : 0 ≤ k := le_trans S.lo_nonneg (mem_Icc.mp hk).1
    rw [le_div_iff₀ he0]
    have := S.le_at_mode k hk0
    nlinarith

/-- facts shared by the four remaining branches -/
theorem not_near_mode_facts (S : UnimodalPmfSpec f F lo hi mode) (a : ℤ) (ha : lo ≤ a)
    (hah : a ≤ hi) (e : ℝ) (he0 : 0 < e) (he1 : e < 1) (hfar : ¬ e * f mode ≤ f a) :
    0 < f a ∧ f a ≤ f a / e ∧ f a / e < f mode ∧ a ≠ mode := by
  have hp : 0 < f a := S.pos a ha hah
  refine ⟨hp, le_div_self_of _ _ hp.le he0 he1.le, ?_, ?_⟩
  · rw [div_lt_iff₀ he0]; push Not at hfar; linarith
  · intro h; rw [h] at hfar
    exact hfar (by have := S.mode_pos; nlinarith)

/-- **Branch 2** (`a < mode`, shortcut `f n > p / e`): the far tail is empty, the code returns
    `F a`, and this is exactly the textbook p-value `massLE p`. -/
theorem twoSided_lower_shortcut (S : UnimodalPmfSpec f F lo hi mode) (n a : ℤ) (ha : lo ≤ a)
    (ham : a < mode) (hn : hi ≤ n) (e : ℝ) (he0 : 0 < e) (he1 : e < 1)
    (hfar : ¬ e * f mode ≤ f a) (hsc : f a / e < f n) :
    twoSidedM f F n mode a e = F a ∧ F a = massLE f lo hi (f a) ∧
      (∀ k, mode ≤ k → k ≤ n → ¬ f k ≤ f a / e) := by
  have ha0 : 0 ≤ a := le_trans S.lo_nonneg ha
  obtain ⟨hp, hpe, hpm, -⟩ := not_near_mode_facts S a ha (by have := S.mode_le_hi; omega) e he0 he1 hfar
  refine ⟨?_, ?_, far_tail_empty_upper S n _ hsc⟩
  · unfold twoSidedM
    rw [if_neg (fun h => hfar ((near_mode_iff S a ha0 e).mp h)), if_pos ham, if_pos hsc]
  · rw [S.cdf_filter]
    unfold massLE
    apply Finset.sum_congr _ (fun _ _ => rfl)
    apply Finset.filter_congr
    intro k hk
    have hk' := mem_Icc.mp hk
    have hk0 : 0 ≤ k := le_trans S.lo_nonneg hk'.1
    constructor
    · intro h; exact S.mono k a hk0 h ham.le
    · intro h
      by_contra hka
      push Not at hka
      by_cases hkm : k ≤ mode - 1
      · have := S.lt_below a k ha hka hkm; linarith
      · have := far_tail_empty_upper S n _ hsc k (by omega) (by omega)
        exact this (le_trans h hpe)

/-- **Branch 3** (`a < mode`, no shortcut): with `r = binary_search(.., upper = true)` the code
    returns `F a + 1 − F (r−1) = Σ_{k ≤ a ∨ r ≤ k} f k`; `r` lies between the boundary of the slack
    set and the boundary of the exact set, hence `massLE p ≤ result ≤ massLE (p/e)`.  Termination
    inside the model's fuel for every `u64` table (`n − mode ≤ 2^64`). -/
theorem twoSided_lower_search (S : UnimodalPmfSpec f F lo hi mode) (n a : ℤ) (ha : lo ≤ a)
    (ham : a < mode) (hn : hi ≤ n) (hn64 : n - mode ≤ 2 ^ 64) (e : ℝ) (he0 : 0 < e) (he1 : e < 1)
    (hfar : ¬ e * f mode ≤ f a) (hsc : ¬ f a / e < f n) :
    ∃ r, bsearchM f n mode (f a) e true = r ∧ mode < r ∧ r ≤ n ∧ f r ≤ f a / e ∧
      (∀ k, mode ≤ k → k < r → f a < f k) ∧
      twoSidedM f F n mode a e = ∑ k ∈ (Icc lo hi).filter (fun k => k ≤ a ∨ r ≤ k), f k ∧
      massLE f lo hi (f a) ≤ twoSidedM f F n mode a e ∧
      twoSidedM f F n mode a e ≤ massLE f lo hi (f a / e) := by
  have ha0 : 0 ≤ a := le_trans S.lo_nonneg ha
  obtain ⟨hp, hpe, hpm, -⟩ := not_near_mode_facts S a ha (by have := S.mode_le_hi; omega) e he0 he1 hfar
  obtain ⟨r, hr, hr1, hr2, hr3, hr4⟩ :=
    bsearchM_upper_spec f n mode (f a) e S.mode_nonneg hp.le he0 he1.le S.anti hpm (not_lt.mp hsc)
      (le_trans S.mode_le_hi hn) (S.no_plateau_upper (f a) hp) hn64
  have hval : twoSidedM f F n mode a e = ∑ k ∈ (Icc lo hi).filter (fun k => k ≤ a ∨ r ≤ k), f k := by
    unfold twoSidedM
    rw [if_neg (fun h => hfar ((near_mode_iff S a ha0 e).mp h)), if_pos ham, if_neg hsc, hr]
    have hu : usub r 1 = r - 1 := by
      unfold usub; rw [if_neg (by have := S.mode_nonneg; omega)]
    rw [hu, fts_lit_one, add_sub_assoc, S.cdf_filter a, S.one_sub_cdf (r - 1),
      ← filter_le_add_filter_ge f (Icc lo hi) a r (by omega)]
    congr 1
    apply Finset.sum_congr _ (fun _ _ => rfl)
    apply Finset.filter_congr
    intro k _; omega
  refine ⟨r, hr, hr1, hr2, hr3, hr4, hval, ?_, ?_⟩
  · rw [hval]; unfold massLE
    apply Finset.sum_le_sum_of_subset_of_nonneg
    · intro k hk
      simp only [mem_filter] at hk ⊢
      refine ⟨hk.1, ?_⟩
      by_contra hcon
      push Not at hcon
      by_cases hkm : k ≤ mode - 1
      · have := S.lt_below a k ha hcon.1 hkm; linarith [hk.2]
      · have := hr4 k (by omega) hcon.2; linarith [hk.2]
    · intro k hk _
      exact S.nonneg k (le_trans S.lo_nonneg (mem_Icc.mp (mem_filter.mp hk).1).1)
  · rw [hval]; unfold massLE
    apply Finset.sum_le_sum_of_subset_of_nonneg
    · intro k hk
      simp only [mem_filter] at hk ⊢
      refine ⟨hk.1, ?_⟩
      have hk0 : 0 ≤ k := le_trans S.lo_nonneg (mem_Icc.mp hk.1).1
      rcases hk.2 with h | h
      · exact le_trans (S.mono k a hk0 h ham.le) hpe
      · exact le_trans (S.anti r k hr1.le h) hr3
    · intro k hk _
      exact S.nonneg k (le_trans S.lo_nonneg (mem_Icc.mp (mem_filter.mp hk).1).1)

/-- **Branch 4** (`a ≥ mode`, shortcut `f 0 > p / e`): the far tail is empty, the code returns
    `1 − F (a − 1)`, and this is exactly the textbook p-value. -/
theorem twoSided_upper_shortcut (S : UnimodalPmfSpec f F lo hi mode) (n a : ℤ) (ham : mode ≤ a)
    (hah : a ≤ hi) (e : ℝ) (he0 : 0 < e) (he1 : e < 1)
    (hfar : ¬ e * f mode ≤ f a) (hsc : f a / e < f 0) :
    twoSidedM f F n mode a e = 1 - F (a - 1) ∧ 1 - F (a - 1) = massLE f lo hi (f a) ∧
      (∀ k, 0 ≤ k → k ≤ mode → ¬ f k ≤ f a / e) := by
  have ha : lo ≤ a := le_trans S.lo_le_mode ham
  have ha0 : 0 ≤ a := le_trans S.lo_nonneg ha
  obtain ⟨hp, hpe, hpm, hne⟩ := not_near_mode_facts S a ha hah e he0 he1 hfar
  refine ⟨?_, ?_, far_tail_empty_lower S _ hsc⟩
  · unfold twoSidedM
    have hu : usub a 1 = a - 1 := by
      unfold usub; rw [if_neg (by have := S.mode_nonneg; omega)]
    have ha1 : ¬ a = 0 := by have := S.mode_nonneg; omega
    rw [if_neg (fun h => hfar ((near_mode_iff S a ha0 e).mp h)), if_neg (by omega), if_pos hsc,
      if_neg ha1, hu, fts_lit_one]
  · rw [S.one_sub_cdf]
    unfold massLE
    apply Finset.sum_congr _ (fun _ _ => rfl)
    apply Finset.filter_congr
    intro k hk
    have hk' := mem_Icc.mp hk
    have hk0 : 0 ≤ k := le_trans S.lo_nonneg hk'.1
    constructor
    · intro h; exact S.anti a k ham (by omega)
    · intro h
      by_contra hka
      push Not at hka
      by_cases hkm : mode ≤ k
      · have := S.lt_above k a hkm (by omega) hah; linarith
      · exact far_tail_empty_lower S _ hsc k hk0 (by omega) (le_trans h hpe)

/-- **Branch 5** (`a ≥ mode`, no shortcut): with `r = binary_search(.., upper = false)` the code
    returns `min (1 − F (a−1) + F r) 1 = Σ_{k ≤ r ∨ a ≤ k} f k`.  Only
    `massLT (p·e) ≤ result ≤ massLE (p/e)` holds in general; the textbook lower bound
    `massLE p ≤ result` needs the gap hypothesis `hgap` (no far-side table with `p·e ≤ f k < p`)
    and fails without it (`twoSided_underinclusion_counterexample`).  Termination inside the
    model's fuel only for `mode < loopFuel`: the halving loop is mis-directed on this side and the
    result is found by linear scans. -/
theorem twoSided_upper_search (S : UnimodalPmfSpec f F lo hi mode) (n a : ℤ) (ham : mode ≤ a)
    (hah : a ≤ hi) (hfuel : mode < loopFuel) (e : ℝ) (he0 : 0 < e) (he1 : e < 1)
    (hfar : ¬ e * f mode ≤ f a) (hsc : ¬ f a / e < f 0) :
    ∃ r, bsearchM f n mode (f a) e false = r ∧ 0 ≤ r ∧ r < mode ∧ f r ≤ f a / e ∧
      (∀ k, r < k → k ≤ mode → f a * e ≤ f k) ∧
      twoSidedM f F n mode a e = ∑ k ∈ (Icc lo hi).filter (fun k => k ≤ r ∨ a ≤ k), f k ∧
      massLT f lo hi (f a * e) ≤ twoSidedM f F n mode a e ∧
      twoSidedM f F n mode a e ≤ massLE f lo hi (f a / e) ∧
      ((∀ k, lo ≤ k → k < mode → f a * e ≤ f k → f a ≤ f k) →
        massLE f lo hi (f a) ≤ twoSidedM f F n mode a e) := by
  have ha : lo ≤ a := le_trans S.lo_le_mode ham
  have ha0 : 0 ≤ a := le_trans S.lo_nonneg ha
  obtain ⟨hp, hpe, hpm, hne⟩ := not_near_mode_facts S a ha hah e he0 he1 hfar
  obtain ⟨r, g1, hr, hr0, hrg, hgm, hrm, hfr, hfg1, hbig, hall⟩ :=
    bsearchM_lower_spec f n mode (f a) e S.mode_nonneg hp.le he0 he1.le S.mono hpm (not_lt.mp hsc)
      hfuel
  have hnn : ∀ k ∈ Icc lo hi, 0 ≤ f k := fun k hk =>
    S.nonneg k (le_trans S.lo_nonneg (mem_Icc.mp hk).1)
  have hval : twoSidedM f F n mode a e = ∑ k ∈ (Icc lo hi).filter (fun k => k ≤ r ∨ a ≤ k), f k := by
    unfold twoSidedM
    have hu : usub a 1 = a - 1 := by
      unfold usub; rw [if_neg (by have := S.mode_nonneg; omega)]
    have ha1 : ¬ a = 0 := by have := S.mode_nonneg; omega
    rw [if_neg (fun h => hfar ((near_mode_iff S a ha0 e).mp h)), if_neg (by omega), if_neg hsc,
      if_neg ha1, hu, hr, fts_lit_one]
    have hsum : 1 - F (a - 1) + F r = ∑ k ∈ (Icc lo hi).filter (fun k => k ≤ r ∨ a ≤ k), f k := by
      rw [S.cdf_filter r, S.one_sub_cdf (a - 1), add_comm,
        ← filter_le_add_filter_ge f (Icc lo hi) r a (by omega)]
      congr 1
      apply Finset.sum_congr _ (fun _ _ => rfl)
      apply Finset.filter_congr
      intro k _; omega
    rw [hsum, min_eq_left]
    rw [← S.total]
    exact Finset.sum_le_sum_of_subset_of_nonneg (Finset.filter_subset _ _) (fun k hk _ => hnn k hk)
  refine ⟨r, hr, hr0, hrm, hfr, hall, hval, ?_, ?_, ?_⟩
  · rw [hval]; unfold massLT
    apply Finset.sum_le_sum_of_subset_of_nonneg
    · intro k hk
      simp only [mem_filter] at hk ⊢
      refine ⟨hk.1, ?_⟩
      by_contra hcon
      push Not at hcon
      by_cases hkm : k ≤ mode
      · have := hall k hcon.1 hkm; linarith [hk.2]
      · have := S.lt_above k a (by omega) hcon.2 hah
        have h2 : f a * e ≤ f a := mul_le_of_le_one_right hp.le he1.le
        linarith [hk.2]
    · intro k hk _; exact hnn k (mem_filter.mp hk).1
  · rw [hval]; unfold massLE
    apply Finset.sum_le_sum_of_subset_of_nonneg
    · intro k hk
      simp only [mem_filter] at hk ⊢
      refine ⟨hk.1, ?_⟩
      have hk0 : 0 ≤ k := le_trans S.lo_nonneg (mem_Icc.mp hk.1).1
      rcases hk.2 with h | h
      · exact le_trans (S.mono k r hk0 h hrm.le) hfr
      · exact le_trans (S.anti a k ham h) hpe
    · intro k hk _; exact hnn k (mem_filter.mp hk).1
  · intro hgap
    rw [hval]; unfold massLE
    apply Finset.sum_le_sum_of_subset_of_nonneg
    · intro k hk
      simp only [mem_filter] at hk ⊢
      refine ⟨hk.1, ?_⟩
      by_contra hcon
      push Not at hcon
      have hklo := (mem_Icc.mp hk.1).1
      by_cases hkm : mode ≤ k
      · have := S.lt_above k a hkm hcon.2 hah; linarith [hk.2]
      · by_cases hkg : k ≤ g1
        · have := hbig k hcon.1 hkg; linarith [hk.2]
        · -- `g1 < k < mode`: `f g1 ≥ p·e`, so `g1` is in the support and `f g1 ≥ p` by the gap
          have hg1lo : lo ≤ g1 := by
            by_contra h
            rw [S.zero_below g1 (by omega) (by omega)] at hfg1
            have : 0 < f a * e := mul_pos hp he0
            linarith
          have h1 := hgap g1 hg1lo (by omega) hfg1
          have h2 := S.lt_below g1 k hg1lo (by omega) (by omega)
          linarith [hk.2]
    · intro k hk _; exact hnn k (mem_filter.mp hk).1

/-! ### all branches together -/

theorem massLT_le_massLE (S : UnimodalPmfSpec f F lo hi mode) {s t : ℝ} (h : s ≤ t) :
    massLT f lo hi s ≤ massLE f lo hi t := by
  unfold massLT massLE
  apply Finset.sum_le_sum_of_subset_of_nonneg
  · intro k hk
    simp only [mem_filter] at hk ⊢
    exact ⟨hk.1, le_trans hk.2.le h⟩
  · exact fun k hk _ => S.nonneg k (le_trans S.lo_nonneg (mem_Icc.mp (mem_filter.mp hk).1).1)

/-- **Two-sided result, every branch.**  For every strictly unimodal pmf, every observed `a` in
    the support, `hi ≤ n ≤ mode + 2^64`, and (for `a ≥ mode` only) `mode < loopFuel`:
    `massLT (p·e) ≤ result ≤ massLE (p/e) ≤ 1`, and the textbook value is a lower bound,
    `massLE p ≤ result`, when the observed table is below the mode or no far-side table has
    `p·e ≤ f k < p`. -/
theorem twoSidedM_bounds (S : UnimodalPmfSpec f F lo hi mode) (n a : ℤ) (ha : lo ≤ a)
    (hah : a ≤ hi) (hn : hi ≤ n) (hn64 : n - mode ≤ 2 ^ 64)
    (hfuel : a < mode ∨ mode < loopFuel) (e : ℝ) (he0 : 0 < e) (he1 : e < 1) :
    massLT f lo hi (f a * e) ≤ twoSidedM f F n mode a e ∧
    twoSidedM f F n mode a e ≤ massLE f lo hi (f a / e) ∧
    ((a < mode ∨ ∀ k, lo ≤ k → k < mode → f a * e ≤ f k → f a ≤ f k) →
      massLE f lo hi (f a) ≤ twoSidedM f F n mode a e) := by
  have ha0 : 0 ≤ a := le_trans S.lo_nonneg ha
  have hp : 0 < f a := S.pos a ha hah
  have hpe1 : f a * e ≤ f a := mul_le_of_le_one_right hp.le he1.le
  have hpe2 : f a ≤ f a / e := le_div_self_of _ _ hp.le he0 he1.le
  by_cases hclose : e * f mode ≤ f a
  · obtain ⟨h1, h2⟩ := twoSided_near_mode S n a ha0 e he0 hclose
    rw [h1, h2]
    exact ⟨le_trans (massLT_le_massLE S hpe1) (S.massLE_le_one _), le_refl _,
      fun _ => S.massLE_le_one _⟩
  · by_cases ham : a < mode
    · by_cases hsc : f a / e < f n
      · obtain ⟨h1, h2, -⟩ := twoSided_lower_shortcut S n a ha ham hn e he0 he1 hclose hsc
        rw [h1, h2]
        exact ⟨massLT_le_massLE S hpe1, S.massLE_mono hpe2, fun _ => le_refl _⟩
      · obtain ⟨r, -, -, -, -, -, -, h1, h2⟩ :=
          twoSided_lower_search S n a ha ham hn hn64 e he0 he1 hclose hsc
        exact ⟨le_trans (massLT_le_massLE S hpe1) h1, h2, fun _ => h1⟩
    · have ham' : mode ≤ a := not_lt.mp ham
      by_cases hsc : f a / e < f 0
      · obtain ⟨h1, h2, -⟩ := twoSided_upper_shortcut S n a ham' hah e he0 he1 hclose hsc
        rw [h1, h2]
        exact ⟨massLT_le_massLE S hpe1, S.massLE_mono hpe2, fun _ => le_refl _⟩
      · have hf : mode < loopFuel := by
          rcases hfuel with h | h
          · exact absurd h ham
          · exact h
        obtain ⟨r, -, -, -, -, -, -, h1, h2, h3⟩ :=
          twoSided_upper_search S n a ham' hah hf e he0 he1 hclose hsc
        refine ⟨h1, h2, fun hg => h3 ?_⟩
        rcases hg with h | h
        · exact absurd h ham
        · exact h

/-- **Exactness away from the slack zones**: if no table of the support has
    `p < f k ≤ p/e`, and (for `a ≥ mode`) no far-side table has `p·e ≤ f k < p`, the code returns
    exactly the textbook two-sided p-value `min 1 (Σ_{f k ≤ f a} f k)`. -/
theorem twoSidedM_eq_textbook (S : UnimodalPmfSpec f F lo hi mode) (n a : ℤ) (ha : lo ≤ a)
    (hah : a ≤ hi) (hn : hi ≤ n) (hn64 : n - mode ≤ 2 ^ 64)
    (hfuel : a < mode ∨ mode < loopFuel) (e : ℝ) (he0 : 0 < e) (he1 : e < 1)
    (hslack : ∀ k, lo ≤ k → k ≤ hi → f k ≤ f a / e → f k ≤ f a)
    (hgap : a < mode ∨ ∀ k, lo ≤ k → k < mode → f a * e ≤ f k → f a ≤ f k) :
    twoSidedM f F n mode a e = min 1 (massLE f lo hi (f a)) := by
  obtain ⟨-, h2, h3⟩ := twoSidedM_bounds S n a ha hah hn hn64 hfuel e he0 he1
  have hp : 0 < f a := S.pos a ha hah
  have heq : massLE f lo hi (f a / e) = massLE f lo hi (f a) := by
    unfold massLE
    apply Finset.sum_congr _ (fun _ _ => rfl)
    apply Finset.filter_congr
    intro k hk
    have hk' := mem_Icc.mp hk
    exact ⟨hslack k hk'.1 hk'.2, fun h => le_trans h (le_div_self_of _ _ hp.le he0 he1.le)⟩
  rw [min_eq_right (S.massLE_le_one _)]
  exact le_antisymm (heq ▸ h2) (h3 hgap)

end main

/-! ### the zero observed cell (`table[0] = 0`) and the observed cell at the mode -/

/-- **Zero observed cell, premise-free**: for EVERY `f`, `F`, `n`, `e` and every `mode ≥ 0` the
    two-sided arm at `a = 0` is the expression on the right, in which `usub 0 1` (Rust's
    `table[0] - 1` on a zero `u64`) does not occur: on the `a ≥ mode` side the upper tail `P(X ≥ 0)`
    is the constant `1`.  No unimodality is assumed, so this also covers a failing near-mode test at
    `a = 0 = mode` (which the premise `UnimodalPmfSpec` excludes, but IEEE NaN does not). -/
theorem twoSidedM_zero_cell (f F : ℤ → ℝ) (n mode : ℤ) (e : ℝ) :
    twoSidedM f F n mode 0 e =
      if |f 0 - f mode| / max (f 0) (f mode) ≤ 1 - e then 1
      else if 0 < mode then
        (if f 0 / e < f n then F 0 else F 0 + 1 - F (usub (bsearchM f n mode (f 0) e true) 1))
      else if f 0 / e < f 0 then 1
      else min (1 + F (bsearchM f n mode (f 0) e false)) 1 := by
  unfold twoSidedM
  simp only [fts_lit_one, if_true]

/-- **Observed cell at the mode** (in particular `a = 0 = mode`, the case in which the source
    used to evaluate `table[0] - 1` when the near-mode test failed): the code returns 1 and this IS
    the textbook two-sided p-value — every table is at most as probable as the observed one — so
    `massLE p = result = massLE (p/e)`. -/
theorem twoSidedM_at_mode {f F : ℤ → ℝ} {lo hi mode : ℤ} (S : UnimodalPmfSpec f F lo hi mode)
    (n : ℤ) (e : ℝ) (he0 : 0 < e) (he1 : e ≤ 1) :
    twoSidedM f F n mode mode e = 1 ∧ massLE f lo hi (f mode) = 1 ∧
      massLE f lo hi (f mode / e) = 1 := by
  have hpos := S.mode_pos
  obtain ⟨h1, h2⟩ := twoSided_near_mode S n mode S.mode_nonneg e he0 (by nlinarith)
  refine ⟨h1, ?_, h2⟩
  unfold massLE
  rw [Finset.filter_true_of_mem, S.total]
  intro k hk
  exact S.le_at_mode k (le_trans S.lo_nonneg (mem_Icc.mp hk).1)

/-! ### the generated code, relative to the premise -/

section rel
variable [SF ℝ]

/-- `EPSILON` over ℝ -/
theorem fisher_epsilon_val : T.fisher.EPSILON (α := ℝ) = 9999 / 10000 := by
  unfold T.fisher.EPSILON; norm_num

/-- **`fishers_exact(table, TwoSided)`, all branches** — relative to the premise that the
    generated `Hypergeometric.pmf`/`cdf` of the table's margins form a strictly unimodal pmf on
    `[max 0 (a−d), min (a+b) (a+c)]` with mode `⌊(n+1)(n1+1)/(n1+n2+2)⌋`: the returned value `v`
    satisfies `Σ_{f k < p·E} f k ≤ v ≤ Σ_{f k ≤ p/E} f k` (`p = pmf a`, `E = EPSILON`), and
    `Σ_{f k ≤ p} f k ≤ v` when `a < mode` or no far-side table has `p·E ≤ f k < p`. -/
theorem fisher_twosided_bounds_rel (a b c d : ℕ)
    (hz : ¬ zeroMargin (a : ℤ) b c d)
    (S : UnimodalPmfSpec (hpmf (tableDist a b c d)) (hcdf (tableDist a b c d))
      (max 0 ((a : ℤ) - d)) (min ((a : ℤ) + b) ((a : ℤ) + c)) (tableMode a b c d))
    (hsize : (a : ℤ) + c ≤ 2 ^ 64)
    (hfuel : (a : ℤ) < tableMode a b c d ∨ tableMode a b c d < loopFuel) :
    ∃ v, T.fisher.fishers_exact (α := ℝ) [(a : ℤ), b, c, d] Alternative.TwoSided = .ok v ∧
      massLT (hpmf (tableDist a b c d)) (max 0 ((a : ℤ) - d)) (min ((a : ℤ) + b) ((a : ℤ) + c))
          (hpmf (tableDist a b c d) a * T.fisher.EPSILON (α := ℝ)) ≤ v ∧
      v ≤ massLE (hpmf (tableDist a b c d)) (max 0 ((a : ℤ) - d)) (min ((a : ℤ) + b) ((a : ℤ) + c))
          (hpmf (tableDist a b c d) a / T.fisher.EPSILON (α := ℝ)) ∧
      (((a : ℤ) < tableMode a b c d ∨ ∀ k, max 0 ((a : ℤ) - d) ≤ k → k < tableMode a b c d →
          hpmf (tableDist a b c d) a * T.fisher.EPSILON (α := ℝ) ≤ hpmf (tableDist a b c d) k →
          hpmf (tableDist a b c d) a ≤ hpmf (tableDist a b c d) k) →
        massLE (hpmf (tableDist a b c d)) (max 0 ((a : ℤ) - d)) (min ((a : ℤ) + b) ((a : ℤ) + c))
          (hpmf (tableDist a b c d) a) ≤ v) := by
  refine ⟨_, fishers_exact_twosided_eq a b c d (by omega) (by omega) (by omega) (by omega) hz, ?_⟩
  have hm := S.mode_nonneg
  exact twoSidedM_bounds S ((a : ℤ) + c) a (max_le (by omega) (by omega))
    (le_min (by omega) (by omega)) (min_le_right _ _) (by omega) hfuel _
    (by rw [fisher_epsilon_val]; norm_num) (by rw [fisher_epsilon_val]; norm_num)

/-- **exact textbook value away from the slack zones**, for the generated code -/
theorem fisher_twosided_exact_rel (a b c d : ℕ)
    (hz : ¬ zeroMargin (a : ℤ) b c d)
    (S : UnimodalPmfSpec (hpmf (tableDist a b c d)) (hcdf (tableDist a b c d))
      (max 0 ((a : ℤ) - d)) (min ((a : ℤ) + b) ((a : ℤ) + c)) (tableMode a b c d))
    (hsize : (a : ℤ) + c ≤ 2 ^ 64)
    (hfuel : (a : ℤ) < tableMode a b c d ∨ tableMode a b c d < loopFuel)
    (hslack : ∀ k, max 0 ((a : ℤ) - d) ≤ k → k ≤ min ((a : ℤ) + b) ((a : ℤ) + c) →
      hpmf (tableDist a b c d) k ≤ hpmf (tableDist a b c d) a / T.fisher.EPSILON (α := ℝ) →
      hpmf (tableDist a b c d) k ≤ hpmf (tableDist a b c d) a)
    (hgap : (a : ℤ) < tableMode a b c d ∨ ∀ k, max 0 ((a : ℤ) - d) ≤ k → k < tableMode a b c d →
      hpmf (tableDist a b c d) a * T.fisher.EPSILON (α := ℝ) ≤ hpmf (tableDist a b c d) k →
      hpmf (tableDist a b c d) a ≤ hpmf (tableDist a b c d) k) :
    T.fisher.fishers_exact (α := ℝ) [(a : ℤ), b, c, d] Alternative.TwoSided
      = .ok (min 1 (massLE (hpmf (tableDist a b c d)) (max 0 ((a : ℤ) - d))
          (min ((a : ℤ) + b) ((a : ℤ) + c)) (hpmf (tableDist a b c d) a))) := by
  rw [fishers_exact_twosided_eq a b c d (by omega) (by omega) (by omega) (by omega) hz]
  have hm := S.mode_nonneg
  rw [twoSidedM_eq_textbook S ((a : ℤ) + c) a (max_le (by omega) (by omega))
    (le_min (by omega) (by omega)) (min_le_right _ _) (by omega) hfuel _
    (by rw [fisher_epsilon_val]; norm_num) (by rw [fisher_epsilon_val]; norm_num) hslack hgap]

/-- **shortcut branch, observed table below the mode**, for the generated code: when
    `dist.pmf(n) > p_exact / EPSILON` the value returned is `cdf a`, it equals the textbook sum,
    and no table `k ≥ mode` has `pmf k ≤ p_exact / EPSILON` -/
theorem fisher_twosided_shortcut_below_rel (a b c d : ℕ)
    (hz : ¬ zeroMargin (a : ℤ) b c d)
    (S : UnimodalPmfSpec (hpmf (tableDist a b c d)) (hcdf (tableDist a b c d))
      (max 0 ((a : ℤ) - d)) (min ((a : ℤ) + b) ((a : ℤ) + c)) (tableMode a b c d))
    (ham : (a : ℤ) < tableMode a b c d)
    (hfar : ¬ T.fisher.EPSILON (α := ℝ) * hpmf (tableDist a b c d) (tableMode a b c d)
      ≤ hpmf (tableDist a b c d) a)
    (hsc : hpmf (tableDist a b c d) a / T.fisher.EPSILON (α := ℝ)
      < hpmf (tableDist a b c d) ((a : ℤ) + c)) :
    T.fisher.fishers_exact (α := ℝ) [(a : ℤ), b, c, d] Alternative.TwoSided
      = .ok (massLE (hpmf (tableDist a b c d)) (max 0 ((a : ℤ) - d))
          (min ((a : ℤ) + b) ((a : ℤ) + c)) (hpmf (tableDist a b c d) a)) ∧
    ∀ k, tableMode a b c d ≤ k → k ≤ (a : ℤ) + c →
      ¬ hpmf (tableDist a b c d) k ≤ hpmf (tableDist a b c d) a / T.fisher.EPSILON (α := ℝ) := by
  rw [fishers_exact_twosided_eq a b c d (by omega) (by omega) (by omega) (by omega) hz]
  obtain ⟨h1, h2, h3⟩ := twoSided_lower_shortcut S ((a : ℤ) + c) a (max_le (by omega) (by omega)) ham
    (min_le_right _ _) _ (by rw [fisher_epsilon_val]; norm_num) (by rw [fisher_epsilon_val]; norm_num) hfar hsc
  exact ⟨by rw [h1, h2], h3⟩

/-- **shortcut branch, observed table above the mode**, for the generated code -/
theorem fisher_twosided_shortcut_above_rel (a b c d : ℕ)
    (hz : ¬ zeroMargin (a : ℤ) b c d)
    (S : UnimodalPmfSpec (hpmf (tableDist a b c d)) (hcdf (tableDist a b c d))
      (max 0 ((a : ℤ) - d)) (min ((a : ℤ) + b) ((a : ℤ) + c)) (tableMode a b c d))
    (ham : tableMode a b c d ≤ (a : ℤ))
    (hfar : ¬ T.fisher.EPSILON (α := ℝ) * hpmf (tableDist a b c d) (tableMode a b c d)
      ≤ hpmf (tableDist a b c d) a)
    (hsc : hpmf (tableDist a b c d) a / T.fisher.EPSILON (α := ℝ) < hpmf (tableDist a b c d) 0) :
    T.fisher.fishers_exact (α := ℝ) [(a : ℤ), b, c, d] Alternative.TwoSided
      = .ok (massLE (hpmf (tableDist a b c d)) (max 0 ((a : ℤ) - d))
          (min ((a : ℤ) + b) ((a : ℤ) + c)) (hpmf (tableDist a b c d) a)) ∧
    ∀ k, 0 ≤ k → k ≤ tableMode a b c d →
      ¬ hpmf (tableDist a b c d) k ≤ hpmf (tableDist a b c d) a / T.fisher.EPSILON (α := ℝ) := by
  rw [fishers_exact_twosided_eq a b c d (by omega) (by omega) (by omega) (by omega) hz]
  obtain ⟨h1, h2, h3⟩ := twoSided_upper_shortcut S ((a : ℤ) + c) a ham
    (le_min (by omega) (by omega)) _ (by rw [fisher_epsilon_val]; norm_num) (by rw [fisher_epsilon_val]; norm_num)
    hfar hsc
  exact ⟨by rw [h1, h2], h3⟩

/-- **observed cell at the mode** (covers `a = 0 = mode`, e.g. every table `[0, b, c, d]` with
    `(c+1)(b+1) < b+c+d+2`), for the generated code: the value returned is 1 and it is the
    textbook two-sided p-value `Σ_{f k ≤ f a} f k` -/
theorem fisher_twosided_at_mode_rel (a b c d : ℕ)
    (hz : ¬ zeroMargin (a : ℤ) b c d)
    (S : UnimodalPmfSpec (hpmf (tableDist a b c d)) (hcdf (tableDist a b c d))
      (max 0 ((a : ℤ) - d)) (min ((a : ℤ) + b) ((a : ℤ) + c)) (tableMode a b c d))
    (ham : (a : ℤ) = tableMode a b c d) :
    T.fisher.fishers_exact (α := ℝ) [(a : ℤ), b, c, d] Alternative.TwoSided
      = .ok (massLE (hpmf (tableDist a b c d)) (max 0 ((a : ℤ) - d))
          (min ((a : ℤ) + b) ((a : ℤ) + c)) (hpmf (tableDist a b c d) a)) ∧
    massLE (hpmf (tableDist a b c d)) (max 0 ((a : ℤ) - d))
          (min ((a : ℤ) + b) ((a : ℤ) + c)) (hpmf (tableDist a b c d) a) = 1 := by
  rw [fishers_exact_twosided_eq a b c d (by omega) (by omega) (by omega) (by omega) hz]
  obtain ⟨h1, h2, -⟩ := twoSidedM_at_mode S ((a : ℤ) + c) (T.fisher.EPSILON (α := ℝ))
    (by rw [fisher_epsilon_val]; norm_num) (by rw [fisher_epsilon_val]; norm_num)
  rw [← ham] at h1 h2
  have h1' : twoSidedM (hpmf (tableDist a b c d)) (hcdf (tableDist a b c d)) ((a : ℤ) + c)
      (tableMode a b c d) a (T.fisher.EPSILON (α := ℝ)) = 1 := by
    rw [← ham]; exact h1
  exact ⟨by rw [h1', h2], h2⟩

/-! ### (a) the generated `binary_search`, relative to the shape of the pmf -/

/-- **`binary_search(n, n1, n2, mode, p, e, upper = true)`** (generated code over ℝ): if the
    hypergeometric pmf of the margins is non-increasing from `mode` on, `pmf mode > p/e ≥ pmf n`,
    and it has no plateau at the level `p`, the call terminates inside the model's fuel for every
    `u64` interval and returns `r` with `mode < r ≤ n`, `pmf r ≤ p/e` and `p < pmf k` for all
    `mode ≤ k < r`. -/
theorem fisher_binary_search_upper_rel (n n1 n2 mode : ℤ) (p e : ℝ) (h1 : 0 ≤ n2)
    (h2 : n ≤ n1 + n2) (h0 : 0 ≤ mode) (hp : 0 ≤ p) (he0 : 0 < e) (he1 : e ≤ 1)
    (hanti : ∀ i j, mode ≤ i → i ≤ j → hpmf ⟨n1 + n2, n1, n⟩ j ≤ hpmf ⟨n1 + n2, n1, n⟩ i)
    (hmode : p / e < hpmf ⟨n1 + n2, n1, n⟩ mode) (hn : hpmf ⟨n1 + n2, n1, n⟩ n ≤ p / e)
    (hmn : mode ≤ n)
    (hnp : ∀ k, mode < k → hpmf ⟨n1 + n2, n1, n⟩ k = p → p < hpmf ⟨n1 + n2, n1, n⟩ (k - 1))
    (hfuel : n - mode ≤ 2 ^ 64) :
    ∃ r, T.fisher.binary_search (α := ℝ) n n1 n2 mode p e true = r ∧ mode < r ∧ r ≤ n ∧
      hpmf ⟨n1 + n2, n1, n⟩ r ≤ p / e ∧ ∀ k, mode ≤ k → k < r → p < hpmf ⟨n1 + n2, n1, n⟩ k := by
  rw [binary_search_eq n n1 n2 mode p e true h1 h2]
  exact bsearchM_upper_spec _ n mode p e h0 hp he0 he1 hanti hmode hn hmn hnp hfuel

/-- **`binary_search(.., upper = false)`** (generated code over ℝ): if the pmf is non-decreasing
    up to `mode` and `pmf mode > p/e ≥ pmf 0`, then for `mode < loopFuel` the call returns `r`
    with `0 ≤ r < mode`, `pmf r ≤ p/e` and `p·e ≤ pmf k` for all `r < k ≤ mode`.  (Weaker than the
    upper side: `pmf k ≤ p` for some `k > r` is not excluded, and does happen —
    `twoSided_underinclusion_counterexample`.) -/
theorem fisher_binary_search_lower_rel (n n1 n2 mode : ℤ) (p e : ℝ) (h1 : 0 ≤ n2)
    (h2 : n ≤ n1 + n2) (h0 : 0 ≤ mode) (hp : 0 ≤ p) (he0 : 0 < e) (he1 : e ≤ 1)
    (hmono : ∀ i j, 0 ≤ i → i ≤ j → j ≤ mode →
      hpmf ⟨n1 + n2, n1, n⟩ i ≤ hpmf ⟨n1 + n2, n1, n⟩ j)
    (hmode : p / e < hpmf ⟨n1 + n2, n1, n⟩ mode) (hz : hpmf ⟨n1 + n2, n1, n⟩ 0 ≤ p / e)
    (hfuel : mode < loopFuel) :
    ∃ r, T.fisher.binary_search (α := ℝ) n n1 n2 mode p e false = r ∧ 0 ≤ r ∧ r < mode ∧
      hpmf ⟨n1 + n2, n1, n⟩ r ≤ p / e ∧
      ∀ k, r < k → k ≤ mode → p * e ≤ hpmf ⟨n1 + n2, n1, n⟩ k := by
  rw [binary_search_eq n n1 n2 mode p e false h1 h2]
  obtain ⟨r, g1, a1, a2, a3, a4, a5, a6, a7, a8, a9⟩ :=
    bsearchM_lower_spec _ n mode p e h0 hp he0 he1 hmono hmode hz hfuel
  exact ⟨r, a1, a2, a5, a6, a9⟩

end rel

end Statrs.Props.C16
