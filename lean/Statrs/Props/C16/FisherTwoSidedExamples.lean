/-
  C16 — concrete strictly unimodal pmfs for the two-sided Fisher branch: non-vacuity of the
  premise structure and of every branch theorem of `FisherTwoSided.lean`, and the counterexamples

    * `twoSided_slack_counterexample`          code > textbook (a far-side table with
                                               `p < f k ≤ p/EPSILON` is counted — the intended slack);
    * `twoSided_underinclusion_counterexample` code < textbook (observed table above the mode:
                                               the mis-directed search drops a far-side table with
                                               `f k = p` exactly);
    * `shortcut_mul_unsound`                   with `p_exact * EPSILON` in place of
                                               `p_exact / EPSILON` the shortcut test no longer
                                               implies that the far tail is empty.
  All with `e = EPSILON = 9999/10000`.
-/
import Statrs.Props.C16.FisherTwoSided
set_option linter.unusedVariables false
namespace Statrs.Props.C16
open Statrs Statrs.Gen Statrs.Lemmas.Unimodal Statrs.Lemmas.UnimodalSums
open Finset

theorem fts_sum_Icc_0_2 (g : ℤ → ℝ) : ∑ k ∈ Icc (0 : ℤ) 2, g k = g 0 + g 1 + g 2 := by
  have : Icc (0 : ℤ) 2 = {0, 1, 2} := by
    ext k; simp only [mem_Icc, mem_insert, mem_singleton]; omega
  rw [this]; simp [Finset.sum_insert]; ring

theorem fts_sum_Icc_0_6 (g : ℤ → ℝ) :
    ∑ k ∈ Icc (0 : ℤ) 6, g k = g 0 + g 1 + g 2 + g 3 + g 4 + g 5 + g 6 := by
  have : Icc (0 : ℤ) 6 = {0, 1, 2, 3, 4, 5, 6} := by
    ext k; simp only [mem_Icc, mem_insert, mem_singleton]; omega
  rw [this]; simp [Finset.sum_insert]; ring

/-! ### pmf 1: `[0.2, 0.59999, 0.20001]` on `0..2`, mode 1 -/

noncomputable def ftsPmf1 : ℤ → ℝ := fun k =>
  if k = 0 then 20000 / 100000 else if k = 1 then 59999 / 100000
  else if k = 2 then 20001 / 100000 else 0

noncomputable def ftsCdf1 : ℤ → ℝ := fun k => ∑ j ∈ Icc 0 k, ftsPmf1 j

theorem ftsSpec1 : UnimodalPmfSpec ftsPmf1 ftsCdf1 0 2 1 where
  lo_nonneg := le_refl _
  lo_le_mode := by norm_num
  mode_le_hi := by norm_num
  pos := by intro k h1 h2; interval_cases k <;> norm_num [ftsPmf1]
  zero_below := by intro k h1 h2; omega
  zero_above := by
    intro k hk; unfold ftsPmf1; rw [if_neg (by omega), if_neg (by omega), if_neg (by omega)]
  incr := by intro k h1 h2; omega
  le_mode := by norm_num [ftsPmf1]
  decr := by intro k h1 h2; interval_cases k; norm_num [ftsPmf1]
  cdf_eq := fun _ => rfl
  total := by rw [fts_sum_Icc_0_2]; norm_num [ftsPmf1]

/-- **The code counts tables inside the slack (intended, but not the textbook value).**
    For the strictly unimodal pmf `[0.2, 0.59999, 0.20001]`, `n = 2`, mode 1 and observed `a = 0`,
    the code returns `0.40001` whereas `Σ_{f k ≤ f a} f k = 0.2`. -/
theorem twoSided_slack_counterexample :
    UnimodalPmfSpec ftsPmf1 ftsCdf1 0 2 1 ∧
    twoSidedM ftsPmf1 ftsCdf1 2 1 0 (9999 / 10000) = 40001 / 100000 ∧
    massLE ftsPmf1 0 2 (ftsPmf1 0) = 20000 / 100000 := by
  refine ⟨ftsSpec1, ?_, ?_⟩
  · obtain ⟨r, -, hr1, hr2, -, -, hval, -, -⟩ :=
      twoSided_lower_search ftsSpec1 2 0 (le_refl _) (by norm_num) (le_refl _) (by norm_num)
        (9999 / 10000) (by norm_num) (by norm_num) (by norm_num [ftsPmf1]) (by norm_num [ftsPmf1])
    have : r = 2 := by omega
    rw [hval, this, Finset.sum_filter, fts_sum_Icc_0_2]
    norm_num [ftsPmf1]
  · unfold massLE
    rw [Finset.sum_filter, fts_sum_Icc_0_2]
    norm_num [ftsPmf1]

/-! ### pmf 2: `[0.05, 0.1, 0.19999, 0.2, 0.24001, 0.2, 0.01]` on `0..6`, mode 4 -/

noncomputable def ftsPmf2 : ℤ → ℝ := fun k =>
  if k = 0 then 5000 / 100000 else if k = 1 then 10000 / 100000
  else if k = 2 then 19999 / 100000 else if k = 3 then 20000 / 100000
  else if k = 4 then 24001 / 100000 else if k = 5 then 20000 / 100000
  else if k = 6 then 1000 / 100000 else 0

noncomputable def ftsCdf2 : ℤ → ℝ := fun k => ∑ j ∈ Icc 0 k, ftsPmf2 j

theorem ftsSpec2 : UnimodalPmfSpec ftsPmf2 ftsCdf2 0 6 4 where
  lo_nonneg := le_refl _
  lo_le_mode := by norm_num
  mode_le_hi := by norm_num
  pos := by intro k h1 h2; interval_cases k <;> norm_num [ftsPmf2]
  zero_below := by intro k h1 h2; omega
  zero_above := by
    intro k hk; unfold ftsPmf2
    rw [if_neg (by omega), if_neg (by omega), if_neg (by omega), if_neg (by omega),
      if_neg (by omega), if_neg (by omega), if_neg (by omega)]
  incr := by
    intro k h1 h2
    have h3 : k < 3 := by omega
    interval_cases k <;> norm_num [ftsPmf2]
  le_mode := by norm_num [ftsPmf2]
  decr := by intro k h1 h2; interval_cases k <;> norm_num [ftsPmf2]
  cdf_eq := fun _ => rfl
  total := by rw [fts_sum_Icc_0_6]; norm_num [ftsPmf2]

theorem fts_loopFuel_eq : loopFuel = 19997 + 1 + 1 + 1 := by norm_num [loopFuel]

/-- the lower-side search on pmf 2 with `p = ftsPmf2 5 = 0.2`: the halving loop walks to `guess = 1`
    (away from the boundary `k = 3`), the first scan stops at `k = 2` (`ftsPmf2 2 = 0.19999 ≥ p·e`) -/
theorem fts_bsearch_pmf2 : bsearchM ftsPmf2 6 4 (ftsPmf2 5) (9999 / 10000) false = 2 := by
  have h1 : ∀ k, bsLoop1 ftsPmf2 (ftsPmf2 5) false (k + 1 + 1 + 1) 0 4 0 = LoopR.done (1, 1, 0) := by
    intro k
    rw [bsLoop1]
    norm_num [usub, udiv, ftsPmf2]
    rw [bsLoop1]
    norm_num [usub, udiv, ftsPmf2]
    rw [bsLoop1]
    norm_num [usub, udiv, ftsPmf2]
  have h2 : ∀ k, scanUp (fun g => ftsPmf2 g < ftsPmf2 5 * (9999 / 10000)) (k + 1 + 1) 1 = LoopR.done 2 := by
    intro k
    rw [scanUp, if_pos (by norm_num [ftsPmf2]), scanUp, if_neg (by norm_num [ftsPmf2])]
    norm_num
  have h3 : ∀ k, scanDown (fun g => 0 < g ∧ ftsPmf2 5 / (9999 / 10000) < ftsPmf2 g) (k + 1) 2
      = LoopR.done 2 := by
    intro k
    rw [scanDown, if_neg (by norm_num [ftsPmf2])]
  unfold bsearchM
  simp only [Bool.false_eq_true, if_false]
  rw [fts_loopFuel_eq, h1]
  simp only []
  norm_num
  rw [h2]
  simp only []
  rw [h3]

/-- **The code can return LESS than the textbook value (observed table above the mode).**
    For the strictly unimodal pmf `[0.05, 0.1, 0.19999, 0.2, 0.24001, 0.2, 0.01]`, `n = 6`, mode 4
    and observed `a = 5` (`p = 0.2`), the far-side table `k = 3` has `f 3 = p` exactly, yet the code
    returns `0.55999 = f 5 + f 6 + f 0 + f 1 + f 2`, whereas `Σ_{f k ≤ f a} f k = 0.75999`.
    (The same happens for the exact hypergeometric law of large balanced tables, e.g.
    `[160003, 159997, 159997, 160003]`, where adjacent far-side probabilities differ by less than
    `1e-4` relatively; in `f64` those tables are out of reach because `pmf` overflows to NaN.) -/
theorem twoSided_underinclusion_counterexample :
    UnimodalPmfSpec ftsPmf2 ftsCdf2 0 6 4 ∧
    twoSidedM ftsPmf2 ftsCdf2 6 4 5 (9999 / 10000) = 55999 / 100000 ∧
    massLE ftsPmf2 0 6 (ftsPmf2 5) = 75999 / 100000 ∧
    twoSidedM ftsPmf2 ftsCdf2 6 4 5 (9999 / 10000) < massLE ftsPmf2 0 6 (ftsPmf2 5) := by
  have hv : twoSidedM ftsPmf2 ftsCdf2 6 4 5 (9999 / 10000) = 55999 / 100000 := by
    obtain ⟨r, hr, -, -, -, -, hval, -, -, -⟩ :=
      twoSided_upper_search ftsSpec2 6 5 (by norm_num) (by norm_num) (by norm_num [loopFuel])
        (9999 / 10000) (by norm_num) (by norm_num) (by norm_num [ftsPmf2]) (by norm_num [ftsPmf2])
    rw [fts_bsearch_pmf2] at hr
    rw [hval, ← hr, Finset.sum_filter, fts_sum_Icc_0_6]
    norm_num [ftsPmf2]
  have hm : massLE ftsPmf2 0 6 (ftsPmf2 5) = 75999 / 100000 := by
    unfold massLE
    rw [Finset.sum_filter, fts_sum_Icc_0_6]
    norm_num [ftsPmf2]
  exact ⟨ftsSpec2, hv, hm, by rw [hv, hm]; norm_num⟩

/-! ### pmf 3: `[0.2, 0.6, 0.2]` on `0..2`, mode 1 — the shortcut test with `*` -/

noncomputable def ftsPmf3 : ℤ → ℝ := fun k =>
  if k = 0 then 2 / 10 else if k = 1 then 6 / 10 else if k = 2 then 2 / 10 else 0

noncomputable def ftsCdf3 : ℤ → ℝ := fun k => ∑ j ∈ Icc 0 k, ftsPmf3 j

theorem ftsSpec3 : UnimodalPmfSpec ftsPmf3 ftsCdf3 0 2 1 where
  lo_nonneg := le_refl _
  lo_le_mode := by norm_num
  mode_le_hi := by norm_num
  pos := by intro k h1 h2; interval_cases k <;> norm_num [ftsPmf3]
  zero_below := by intro k h1 h2; omega
  zero_above := by
    intro k hk; unfold ftsPmf3; rw [if_neg (by omega), if_neg (by omega), if_neg (by omega)]
  incr := by intro k h1 h2; omega
  le_mode := by norm_num [ftsPmf3]
  decr := by intro k h1 h2; interval_cases k; norm_num [ftsPmf3]
  cdf_eq := fun _ => rfl
  total := by rw [fts_sum_Icc_0_2]; norm_num [ftsPmf3]

/-- **`/` cannot be replaced by `*` in the shortcut test.**  For the symmetric pmf `[0.2, 0.6, 0.2]`
    and observed `a = 0`: `f n > p · EPSILON` holds, but the far-side table `k = 2 = n` has
    `f k = p ≤ p / EPSILON` (even `f k ≤ p`), so returning `cdf a = 0.2` would miss it; the code as
    written (`f n > p / EPSILON` is false) returns `0.4 = Σ_{f k ≤ f a} f k`. -/
theorem shortcut_mul_unsound :
    UnimodalPmfSpec ftsPmf3 ftsCdf3 0 2 1 ∧ ftsPmf3 0 * (9999 / 10000) < ftsPmf3 2 ∧
    ¬ (∀ k, (1 : ℤ) ≤ k → k ≤ 2 → ¬ ftsPmf3 k ≤ ftsPmf3 0 / (9999 / 10000)) ∧
    ftsCdf3 0 = 2 / 10 ∧ massLE ftsPmf3 0 2 (ftsPmf3 0) = 4 / 10 ∧
    twoSidedM ftsPmf3 ftsCdf3 2 1 0 (9999 / 10000) = 4 / 10 := by
  refine ⟨ftsSpec3, by norm_num [ftsPmf3], ?_, ?_, ?_, ?_⟩
  · intro h
    exact h 2 (by norm_num) (le_refl _) (by norm_num [ftsPmf3])
  · unfold ftsCdf3
    have : Icc (0 : ℤ) 0 = {0} := by ext k; simp only [mem_Icc, mem_singleton]; omega
    rw [this]; norm_num [ftsPmf3]
  · unfold massLE
    rw [Finset.sum_filter, fts_sum_Icc_0_2]
    norm_num [ftsPmf3]
  · obtain ⟨r, -, hr1, hr2, -, -, hval, -, -⟩ :=
      twoSided_lower_search ftsSpec3 2 0 (le_refl _) (by norm_num) (le_refl _) (by norm_num)
        (9999 / 10000) (by norm_num) (by norm_num) (by norm_num [ftsPmf3]) (by norm_num [ftsPmf3])
    have : r = 2 := by omega
    rw [hval, this, Finset.sum_filter, fts_sum_Icc_0_2]
    norm_num [ftsPmf3]

/-! ### non-vacuity of the remaining branch theorems -/

/-- branch 1 (near the mode) is reachable: pmf 3 observed at its mode -/
example : twoSidedM ftsPmf3 ftsCdf3 2 1 1 (9999 / 10000) = 1 :=
  (twoSided_near_mode ftsSpec3 2 1 (by norm_num) _ (by norm_num) (by norm_num [ftsPmf3])).1

/-- pmf 4: `[0.1, 0.6, 0.3]` on `0..2`, mode 1 (the shortcut `f n > p/e` fires for `a = 0`) -/
noncomputable def ftsPmf4 : ℤ → ℝ := fun k =>
  if k = 0 then 1 / 10 else if k = 1 then 6 / 10 else if k = 2 then 3 / 10 else 0

noncomputable def ftsCdf4 : ℤ → ℝ := fun k => ∑ j ∈ Icc 0 k, ftsPmf4 j

theorem ftsSpec4 : UnimodalPmfSpec ftsPmf4 ftsCdf4 0 2 1 where
  lo_nonneg := le_refl _
  lo_le_mode := by norm_num
  mode_le_hi := by norm_num
  pos := by intro k h1 h2; interval_cases k <;> norm_num [ftsPmf4]
  zero_below := by intro k h1 h2; omega
  zero_above := by
    intro k hk; unfold ftsPmf4; rw [if_neg (by omega), if_neg (by omega), if_neg (by omega)]
  incr := by intro k h1 h2; omega
  le_mode := by norm_num [ftsPmf4]
  decr := by intro k h1 h2; interval_cases k; norm_num [ftsPmf4]
  cdf_eq := fun _ => rfl
  total := by rw [fts_sum_Icc_0_2]; norm_num [ftsPmf4]

/-- branch 2: observed `a = 0` (`p = 0.1`), `f n = 0.3 > p/e`: lower tail only -/
example : twoSidedM ftsPmf4 ftsCdf4 2 1 0 (9999 / 10000) = ftsCdf4 0 ∧ ftsCdf4 0 = massLE ftsPmf4 0 2 (ftsPmf4 0) :=
  let h := twoSided_lower_shortcut ftsSpec4 2 0 (le_refl _) (by norm_num) (le_refl _) (9999 / 10000)
    (by norm_num) (by norm_num) (by norm_num [ftsPmf4]) (by norm_num [ftsPmf4])
  ⟨h.1, h.2.1⟩

/-- branch 4: pmf 2 observed at `a = 6` (`p = 0.01`), `f 0 = 0.05 > p/e`: upper tail only -/
example : twoSidedM ftsPmf2 ftsCdf2 6 4 6 (9999 / 10000) = 1 - ftsCdf2 5 ∧ 1 - ftsCdf2 5 = massLE ftsPmf2 0 6 (ftsPmf2 6) :=
  let h := twoSided_upper_shortcut ftsSpec2 6 6 (by norm_num) (le_refl _) (9999 / 10000)
    (by norm_num) (by norm_num) (by norm_num [ftsPmf2]) (by norm_num [ftsPmf2])
  ⟨by simpa using h.1, by simpa using h.2.1⟩

/-- branch 5 and the exactness theorem: pmf 4 observed at `a = 2` (`p = 0.3`, `f 0 = 0.1 ≤ p/e`,
    no table in a slack zone) -/
example : twoSidedM ftsPmf4 ftsCdf4 2 1 2 (9999 / 10000) = min 1 (massLE ftsPmf4 0 2 (ftsPmf4 2)) :=
  twoSidedM_eq_textbook ftsSpec4 2 2 (by norm_num) (le_refl _) (le_refl _) (by norm_num)
    (Or.inr (by norm_num [loopFuel])) _ (by norm_num) (by norm_num)
    (by intro k h1 h2; interval_cases k <;> norm_num [ftsPmf4])
    (Or.inr (by intro k h1 h2; interval_cases k; norm_num [ftsPmf4]))

/-! ### pmf 5: `[0.6, 0.3, 0.1]` on `0..2`, mode 0 (the mode of a table with a zero top-left cell) -/

noncomputable def ftsPmf5 : ℤ → ℝ := fun k =>
  if k = 0 then 6 / 10 else if k = 1 then 3 / 10 else if k = 2 then 1 / 10 else 0

noncomputable def ftsCdf5 : ℤ → ℝ := fun k => ∑ j ∈ Icc 0 k, ftsPmf5 j

theorem ftsSpec5 : UnimodalPmfSpec ftsPmf5 ftsCdf5 0 2 0 where
  lo_nonneg := le_refl _
  lo_le_mode := le_refl _
  mode_le_hi := by norm_num
  pos := by intro k h1 h2; interval_cases k <;> norm_num [ftsPmf5]
  zero_below := by intro k h1 h2; omega
  zero_above := by
    intro k hk; unfold ftsPmf5; rw [if_neg (by omega), if_neg (by omega), if_neg (by omega)]
  incr := by intro k h1 h2; omega
  le_mode := by norm_num [ftsPmf5]
  decr := by intro k h1 h2; interval_cases k <;> norm_num [ftsPmf5]
  cdf_eq := fun _ => rfl
  total := by rw [fts_sum_Icc_0_2]; norm_num [ftsPmf5]

/-- `a = 0 = mode`: the code returns 1, the textbook value, and both bounds of
    `twoSidedM_bounds` hold with equality (the upper tail `P(X ≥ 0)` is never computed as
    `1 − F (0 − 1)`) -/
example : twoSidedM ftsPmf5 ftsCdf5 2 0 0 (9999 / 10000) = 1 ∧
    massLE ftsPmf5 0 2 (ftsPmf5 0) = 1 ∧ massLE ftsPmf5 0 2 (ftsPmf5 0 / (9999 / 10000)) = 1 :=
  twoSidedM_at_mode ftsSpec5 2 (9999 / 10000) (by norm_num) (by norm_num)

example : massLE ftsPmf5 0 2 (ftsPmf5 0) ≤ twoSidedM ftsPmf5 ftsCdf5 2 0 0 (9999 / 10000) ∧
    twoSidedM ftsPmf5 ftsCdf5 2 0 0 (9999 / 10000) ≤ massLE ftsPmf5 0 2 (ftsPmf5 0 / (9999 / 10000)) :=
  let h := twoSidedM_bounds ftsSpec5 2 0 (le_refl _) (by norm_num) (le_refl _) (by norm_num)
    (Or.inr (by norm_num [loopFuel])) (9999 / 10000) (by norm_num) (by norm_num)
  ⟨h.2.2 (Or.inr (by intro k h1 h2; omega)), h.2.1⟩

/-- branch 4 at `mode = 0`: observed `a = 2` (`p = 0.1`), `f 0 = 0.6 > p/e`: upper tail only -/
example : twoSidedM ftsPmf5 ftsCdf5 2 0 2 (9999 / 10000) = 1 - ftsCdf5 1 ∧
    1 - ftsCdf5 1 = massLE ftsPmf5 0 2 (ftsPmf5 2) :=
  let h := twoSided_upper_shortcut ftsSpec5 2 2 (by norm_num) (le_refl _) (9999 / 10000)
    (by norm_num) (by norm_num) (by norm_num [ftsPmf5]) (by norm_num [ftsPmf5])
  ⟨by simpa using h.1, by simpa using h.2.1⟩

/-- `twoSidedM_zero_cell` on a NON-unimodal `f` (constant 0, so `0/0`-style junk in the near-mode
    test is possible for other carriers): at `a = 0 = mode` no `usub 0 1` is formed and the value
    is 1 -/
example : twoSidedM (fun _ => 0) (fun _ => 0) 2 0 0 (9999 / 10000) = 1 := by
  rw [twoSidedM_zero_cell]; norm_num

end Statrs.Props.C16
