/-
  C16 (two-sided Fisher test) — the premise structure and the two-sided branch with the pmf/cdf
  kept abstract.

  * `UnimodalPmfSpec f F lo hi mode`: `f` is a strictly unimodal pmf with support `[lo, hi]`
    (positive inside, zero outside, strictly increasing on `[lo, mode−1]`, `f (mode−1) ≤ f mode`,
    strictly decreasing on `[mode, hi]`, total mass 1) and `F k = Σ_{lo ≤ j ≤ k} f j`.
    The hypergeometric pmf has exactly this shape with `mode = ⌊(n+1)(K+1)/(N+2)⌋`
    (`f (k+1) / f k > 1 ⇔ k + 1 < (n+1)(K+1)/(N+2)`); over ℝ the generated `Hypergeometric.pmf` goes
    through the abstract `SF.binomial`, so the structure is the explicit premise of the `…_rel`
    theorems in `FisherTwoSided.lean`.
  * `twoSidedM`: the `Alternative::TwoSided` arm of `fishers_exact` (fisher.rs:206–240) over abstract
    `f`, `F`; `fishers_exact_twosided_eq` proves that the generated `fishers_exact` IS this function
    at `f = Hypergeometric.pmf dist`, `F = Hypergeometric.cdf dist`.  The upper tail `P(X ≥ a)` is
    `if a = 0 then 1 else 1 − F (a − 1)` as in the source (fisher.rs:229): for `a = 0` no unsigned
    `a − 1` is formed (`fisher_twosided_zero_cell_no_underflow`, every carrier).
  * `massLE f lo hi t = Σ_{lo ≤ k ≤ hi, f k ≤ t} f k`: the textbook two-sided p-value is
    `massLE f lo hi (f a)`.
-/
import Statrs.Lemmas.Unimodal
import Statrs.Lemmas.UnimodalSums
import Statrs.Lemmas.TestsHyper
set_option linter.unusedVariables false
set_option linter.unusedSectionVars false
namespace Statrs.Props.C16
open Statrs Statrs.Gen Statrs.Lemmas.Unimodal Statrs.Lemmas.UnimodalSums Statrs.Lemmas.TestsHyper
open Finset

/-- premise: `f` is a strictly unimodal probability mass function on `[lo, hi]` with mode `mode`
    and `F` is its distribution function -/
structure UnimodalPmfSpec (f F : ℤ → ℝ) (lo hi mode : ℤ) : Prop where
  lo_nonneg : 0 ≤ lo
  lo_le_mode : lo ≤ mode
  mode_le_hi : mode ≤ hi
  pos : ∀ k, lo ≤ k → k ≤ hi → 0 < f k
  zero_below : ∀ k, 0 ≤ k → k < lo → f k = 0
  zero_above : ∀ k, hi < k → f k = 0
  incr : ∀ k, lo ≤ k → k + 1 < mode → f k < f (k + 1)
  le_mode : f (mode - 1) ≤ f mode
  decr : ∀ k, mode ≤ k → k < hi → f (k + 1) < f k
  cdf_eq : ∀ k, F k = ∑ j ∈ Icc lo k, f j
  total : ∑ j ∈ Icc lo hi, f j = 1

/-- total mass of the support points with `f k ≤ t`; the textbook two-sided p-value of an
    observation `a` is `massLE f lo hi (f a)` -/
noncomputable def massLE (f : ℤ → ℝ) (lo hi : ℤ) (t : ℝ) : ℝ :=
  ∑ k ∈ (Icc lo hi).filter (fun k => f k ≤ t), f k

namespace UnimodalPmfSpec
variable {f F : ℤ → ℝ} {lo hi mode : ℤ} (S : UnimodalPmfSpec f F lo hi mode)
include S

theorem nonneg (k : ℤ) (hk : 0 ≤ k) : 0 ≤ f k := by
  by_cases h1 : k < lo
  · rw [S.zero_below k hk h1]
  · by_cases h2 : hi < k
    · rw [S.zero_above k h2]
    · exact (S.pos k (by omega) (by omega)).le

theorem mono : ∀ i j, 0 ≤ i → i ≤ j → j ≤ mode → f i ≤ f j := by
  apply monoFrom_of_step
  intro k hk0 hk
  by_cases h1 : k < lo
  · rw [S.zero_below k hk0 h1]; exact S.nonneg _ (by omega)
  · by_cases h2 : k + 1 < mode
    · exact (S.incr k (by omega) h2).le
    · have : k = mode - 1 := by omega
      rw [this]; simpa using S.le_mode

theorem anti : ∀ i j, mode ≤ i → i ≤ j → f j ≤ f i := by
  apply anti_of_step
  intro k hk
  by_cases h2 : k < hi
  · exact (S.decr k hk h2).le
  · rw [S.zero_above (k + 1) (by omega)]; exact S.nonneg _ (by have := S.lo_nonneg; have := S.lo_le_mode; omega)

theorem mode_nonneg : 0 ≤ mode := le_trans S.lo_nonneg S.lo_le_mode

theorem le_at_mode (k : ℤ) (hk : 0 ≤ k) : f k ≤ f mode := by
  rcases le_total k mode with h | h
  · exact S.mono k mode hk h (le_refl _)
  · exact S.anti mode k (le_refl _) h

theorem mode_pos : 0 < f mode := S.pos mode S.lo_le_mode S.mode_le_hi

theorem lt_below : ∀ i j, lo ≤ i → i < j → j ≤ mode - 1 → f i < f j :=
  strictMono_of_step f lo (mode - 1) (fun k h1 h2 => S.incr k h1 (by omega))

theorem lt_above : ∀ i j, mode ≤ i → i < j → j ≤ hi → f j < f i :=
  strictAnti_of_step f mode hi (fun k h1 h2 => S.decr k h1 (by omega))

/-- no plateau at a positive level on the upper side -/
theorem no_plateau_upper (p : ℝ) (hp : 0 < p) : ∀ k, mode < k → f k = p → p < f (k - 1) := by
  intro k hk hfk
  have hkhi : k ≤ hi := by
    by_contra h
    rw [S.zero_above k (by omega)] at hfk
    linarith
  have := S.decr (k - 1) (by omega) (by omega)
  rw [sub_add_cancel] at this
  linarith

/-- no plateau at a positive level on the lower side -/
theorem no_plateau_lower (p : ℝ) (hp : 0 < p) :
    ∀ k, 0 ≤ k → k < mode → f k = p → p < f (k + 1) ∨ k + 1 = mode := by
  intro k hk0 hk hfk
  have hklo : lo ≤ k := by
    by_contra h
    rw [S.zero_below k hk0 (by omega)] at hfk
    linarith
  by_cases h : k + 1 < mode
  · left; have := S.incr k hklo h; linarith
  · right; omega

theorem cdf_filter (x : ℤ) : F x = ∑ j ∈ (Icc lo hi).filter (fun j => j ≤ x), f j := by
  rw [S.cdf_eq, sum_Icc_eq_filter_le f lo hi x S.zero_above]

theorem one_sub_cdf (y : ℤ) : 1 - F y = ∑ j ∈ (Icc lo hi).filter (fun j => y < j), f j := by
  rw [S.cdf_filter, ← S.total, total_sub_filter_le]

theorem massLE_le_one (t : ℝ) : massLE f lo hi t ≤ 1 := by
  unfold massLE
  rw [← S.total]
  exact Finset.sum_le_sum_of_subset_of_nonneg (Finset.filter_subset _ _)
    (fun k hk _ => S.nonneg k (by have := S.lo_nonneg; have := (mem_Icc.mp hk).1; omega))

theorem massLE_mono {s t : ℝ} (h : s ≤ t) : massLE f lo hi s ≤ massLE f lo hi t := by
  unfold massLE
  apply Finset.sum_le_sum_of_subset_of_nonneg
  · intro k hk
    simp only [mem_filter] at hk ⊢
    exact ⟨hk.1, le_trans hk.2 h⟩
  · exact fun k hk _ => S.nonneg k
      (by have := S.lo_nonneg; have := (mem_Icc.mp (mem_filter.mp hk).1).1; omega)

end UnimodalPmfSpec

/-! ### the two-sided arm over abstract `f`, `F` -/

/-- `Alternative::TwoSided` arm of `fishers_exact` (fisher.rs:206–240 and the final `.min(1.0)`)
    with `dist.pmf = f`, `dist.cdf = F`, `n` the number of draws, `a` the observed cell and `e`
    the constant `EPSILON` -/
noncomputable def twoSidedM (f F : ℤ → ℝ) (n mode a : ℤ) (e : ℝ) : ℝ :=
  if |f a - f mode| / max (f a) (f mode) ≤ (1.0 : ℝ) - e then (1.0 : ℝ)
  else if a < mode then
    if f a / e < f n then F a
    else F a + (1.0 : ℝ) - F (usub (bsearchM f n mode (f a) e true) 1)
  else
    if f a / e < f 0 then (if a = 0 then (1.0 : ℝ) else (1.0 : ℝ) - F (usub a 1))
    else min ((if a = 0 then (1.0 : ℝ) else (1.0 : ℝ) - F (usub a 1))
      + F (bsearchM f n mode (f a) e false)) (1.0 : ℝ)

theorem fts_ite_ok5 {ε : Type} {c1 c2 c3 c4 : Prop} [Decidable c1] [Decidable c2] [Decidable c3]
    [Decidable c4] (x1 x2 x3 x4 x5 : ℝ) :
    (if c1 then (Except.ok x1 : Except ε ℝ) else
      if c2 then (if c3 then Except.ok x2 else Except.ok x3)
      else (if c4 then Except.ok x4 else Except.ok x5))
    = Except.ok (if c1 then x1 else if c2 then (if c3 then x2 else x3) else (if c4 then x4 else x5)) := by
  split_ifs <;> rfl

section bridge
variable [SF ℝ]

/-- the cdf the generated code evaluates -/
noncomputable abbrev hcdf (dist : Hypergeometric) : ℤ → ℝ :=
  fun k => Hypergeometric.cdf (α := ℝ) dist k

/-- the mode the source computes for the table -/
def tableMode (a b c d : ℤ) : ℤ := udiv (((a + c) + 1) * ((a + b) + 1)) (((a + b) + (c + d)) + 2)

/-- the distribution the source builds for the table -/
def tableDist (a b c d : ℤ) : Hypergeometric := ⟨(a + b) + (c + d), a + b, a + c⟩

/-- the generated two-sided `fishers_exact` over ℝ is `twoSidedM` at the hypergeometric pmf/cdf of
    the table (all tables of non-negative counts without a zero row or column) -/
theorem fishers_exact_twosided_eq (a b c d : ℤ) (ha : 0 ≤ a) (hb : 0 ≤ b) (hc : 0 ≤ c) (hd : 0 ≤ d)
    (h : ¬ zeroMargin a b c d) :
    T.fisher.fishers_exact (α := ℝ) [a, b, c, d] Alternative.TwoSided
      = .ok (twoSidedM (hpmf (tableDist a b c d)) (hcdf (tableDist a b c d)) (a + c)
          (tableMode a b c d) a (T.fisher.EPSILON (α := ℝ))) := by
  have hnew := hyper_new_ok (α := ℝ) ((a + b) + (c + d)) (a + b) (a + c) (by omega) (by omega)
  have hbs := fun p e u =>
    binary_search_eq (a + c) (a + b) (c + d) (tableMode a b c d) p e u (by omega) (by omega)
  unfold T.fisher.fishers_exact
  unfold zeroMargin at h
  split
  · rename_i h0; simp at h0; exact absurd (Or.inl ⟨h0.1, h0.2.2.1⟩) h
  · rename_i h0; simp at h0; exact absurd (Or.inr (Or.inl ⟨h0.2.1, h0.2.2.2⟩)) h
  · rename_i h0; simp at h0; exact absurd (Or.inr (Or.inr (Or.inl ⟨h0.1, h0.2.1⟩))) h
  · rename_i h0; simp at h0; exact absurd (Or.inr (Or.inr (Or.inr ⟨h0.2.2.1, h0.2.2.2⟩))) h
  · simp only [listGet]
    simp only [show ¬ ((0:ℤ) < 0) by omega, show ¬ ((1:ℤ) < 0) by omega, show ¬ ((2:ℤ) < 0) by omega,
      show ¬ ((3:ℤ) < 0) by omega, if_false, Int.toNat_zero, Int.toNat_one,
      List.getD_cons_zero, List.getD_cons_succ]
    have e2 : ∀ z : ℤ, [a, b, c, d].getD (Int.toNat 2) z = c := fun _ => rfl
    have e3 : ∀ z : ℤ, [a, b, c, d].getD (Int.toNat 3) z = d := fun _ => rfl
    simp only [e2, e3, hnew]
    have hm : udiv (((a + c) + 1) * ((a + b) + 1)) (((a + b) + (c + d)) + 2) = tableMode a b c d := rfl
    simp only [hm, hbs]
    exact fts_ite_ok5 _ _ _ _ _

end bridge

/-! ### a zero top-left cell never reaches `table[0] - 1` (fix of fisher.rs:227, every carrier) -/

section zeroCell
variable {α : Type} [Add α] [Sub α] [Mul α] [Div α] [Neg α] [LT α] [LE α] [BEq α]
  [DecidableLT α] [DecidableLE α] [OfScientific α] [Inhabited α] [RFun α] [SF α]

/-- **No unsigned underflow for `table[0] = 0`** (every carrier, so also IEEE `Float`, where the
    near-mode test can fail at `a = 0 = mode` because `pmf 0` is NaN): for every table `[0, b, c, d]`
    of non-negative counts without a zero row or column the generated two-sided arm is the
    expression on the right, in which `usub (table[0]) 1 = usub 0 1` (the panic sentinel `panicInt`
    of Rust's `attempt to subtract with overflow`) does not occur: the upper tail `P(X ≥ 0)` is the
    literal `1.0`.  The only remaining `usub` is `guess − 1` on the `0 < mode` side, where
    `guess` is the result of `binary_search(.., upper = true)`. -/
theorem fisher_twosided_zero_cell_no_underflow (b c d : ℤ) (hb : 0 ≤ b) (hc : 0 ≤ c) (hd : 0 ≤ d)
    (h : ¬ zeroMargin 0 b c d) :
    T.fisher.fishers_exact (α := α) [0, b, c, d] Alternative.TwoSided
      = (if RFun.abs (Hypergeometric.pmf (α := α) (tableDist 0 b c d) 0
              - Hypergeometric.pmf (α := α) (tableDist 0 b c d) (tableMode 0 b c d))
            / RFun.fmax (Hypergeometric.pmf (α := α) (tableDist 0 b c d) 0)
                (Hypergeometric.pmf (α := α) (tableDist 0 b c d) (tableMode 0 b c d))
            ≤ (1.0 : α) - T.fisher.EPSILON (α := α) then .ok (1.0 : α)
        else if 0 < tableMode 0 b c d then
          (if Hypergeometric.pmf (α := α) (tableDist 0 b c d) 0 / T.fisher.EPSILON (α := α)
              < Hypergeometric.pmf (α := α) (tableDist 0 b c d) (0 + c) then
            .ok (Hypergeometric.cdf (α := α) (tableDist 0 b c d) 0)
          else .ok ((Hypergeometric.cdf (α := α) (tableDist 0 b c d) 0 + (1.0 : α))
            - Hypergeometric.cdf (α := α) (tableDist 0 b c d)
                (usub (T.fisher.binary_search (α := α) (0 + c) (0 + b) (c + d) (tableMode 0 b c d)
                  (Hypergeometric.pmf (α := α) (tableDist 0 b c d) 0) (T.fisher.EPSILON (α := α)) true) 1)))
        else if Hypergeometric.pmf (α := α) (tableDist 0 b c d) 0 / T.fisher.EPSILON (α := α)
              < Hypergeometric.pmf (α := α) (tableDist 0 b c d) 0 then .ok (1.0 : α)
        else .ok (RFun.fmin ((1.0 : α) + Hypergeometric.cdf (α := α) (tableDist 0 b c d)
            (T.fisher.binary_search (α := α) (0 + c) (0 + b) (c + d) (tableMode 0 b c d)
              (Hypergeometric.pmf (α := α) (tableDist 0 b c d) 0) (T.fisher.EPSILON (α := α)) false))
            (1.0 : α))) := by
  have hnew := hyper_new_ok (α := α) ((0 + b) + (c + d)) (0 + b) (0 + c) (by omega) (by omega)
  unfold T.fisher.fishers_exact
  unfold zeroMargin at h
  split
  · rename_i h0; simp at h0; exact absurd (Or.inl ⟨rfl, h0.2.1⟩) h
  · rename_i h0; simp at h0; exact absurd (Or.inr (Or.inl ⟨h0.2.1, h0.2.2.2⟩)) h
  · rename_i h0; simp at h0; exact absurd (Or.inr (Or.inr (Or.inl ⟨rfl, h0.1⟩))) h
  · rename_i h0; simp at h0; exact absurd (Or.inr (Or.inr (Or.inr ⟨h0.2.2.1, h0.2.2.2⟩))) h
  · simp only [listGet]
    simp only [show ¬ ((0:ℤ) < 0) by omega, show ¬ ((1:ℤ) < 0) by omega, show ¬ ((2:ℤ) < 0) by omega,
      show ¬ ((3:ℤ) < 0) by omega, if_false, Int.toNat_zero, Int.toNat_one,
      List.getD_cons_zero, List.getD_cons_succ]
    have e2 : ∀ z : ℤ, [0, b, c, d].getD (Int.toNat 2) z = c := fun _ => rfl
    have e3 : ∀ z : ℤ, [0, b, c, d].getD (Int.toNat 3) z = d := fun _ => rfl
    simp only [e2, e3, hnew]
    have hm : udiv (((0 + c) + 1) * ((0 + b) + 1)) (((0 + b) + (c + d)) + 2) = tableMode 0 b c d := rfl
    have hd' : (⟨(0 + b) + (c + d), 0 + b, 0 + c⟩ : Hypergeometric) = tableDist 0 b c d := rfl
    simp only [hm, hd', if_true]

/-- the same at `mode = 0` (`(c+1)(b+1) < b+c+d+2`) when the near-mode test fails — the path on
    which the unfixed source panicked: the value is `1.0` or `min (1.0 + cdf guess) 1.0` -/
theorem fisher_twosided_zero_cell_mode_zero (b c d : ℤ) (hb : 0 ≤ b) (hc : 0 ≤ c) (hd : 0 ≤ d)
    (h : ¬ zeroMargin 0 b c d) (hm : tableMode 0 b c d = 0)
    (hfar : ¬ RFun.abs (Hypergeometric.pmf (α := α) (tableDist 0 b c d) 0
              - Hypergeometric.pmf (α := α) (tableDist 0 b c d) 0)
            / RFun.fmax (Hypergeometric.pmf (α := α) (tableDist 0 b c d) 0)
                (Hypergeometric.pmf (α := α) (tableDist 0 b c d) 0)
            ≤ (1.0 : α) - T.fisher.EPSILON (α := α)) :
    T.fisher.fishers_exact (α := α) [0, b, c, d] Alternative.TwoSided
      = (if Hypergeometric.pmf (α := α) (tableDist 0 b c d) 0 / T.fisher.EPSILON (α := α)
              < Hypergeometric.pmf (α := α) (tableDist 0 b c d) 0 then .ok (1.0 : α)
        else .ok (RFun.fmin ((1.0 : α) + Hypergeometric.cdf (α := α) (tableDist 0 b c d)
            (T.fisher.binary_search (α := α) (0 + c) (0 + b) (c + d) 0
              (Hypergeometric.pmf (α := α) (tableDist 0 b c d) 0) (T.fisher.EPSILON (α := α)) false))
            (1.0 : α))) := by
  rw [fisher_twosided_zero_cell_no_underflow b c d hb hc hd h, hm, if_neg hfar,
    if_neg (by omega : ¬ (0 : ℤ) < 0)]

/-- concrete instance, the table `[0, 1, 1000, 1000]` (`mode = ⌊1001·2/2003⌋ = 0`; in `f64` the
    pmf is `inf/inf = NaN`, every comparison is false, and before the fix `table[0] - 1` panicked):
    on every carrier, whenever the near-mode test fails the call returns `Ok` of `1.0` or of
    `min (1.0 + cdf guess) 1.0` -/
example (hfar : ¬ RFun.abs (Hypergeometric.pmf (α := α) (tableDist 0 1 1000 1000) 0
              - Hypergeometric.pmf (α := α) (tableDist 0 1 1000 1000) 0)
            / RFun.fmax (Hypergeometric.pmf (α := α) (tableDist 0 1 1000 1000) 0)
                (Hypergeometric.pmf (α := α) (tableDist 0 1 1000 1000) 0)
            ≤ (1.0 : α) - T.fisher.EPSILON (α := α)) :
    T.fisher.fishers_exact (α := α) [0, 1, 1000, 1000] Alternative.TwoSided
      = (if Hypergeometric.pmf (α := α) (tableDist 0 1 1000 1000) 0 / T.fisher.EPSILON (α := α)
              < Hypergeometric.pmf (α := α) (tableDist 0 1 1000 1000) 0 then .ok (1.0 : α)
        else .ok (RFun.fmin ((1.0 : α) + Hypergeometric.cdf (α := α) (tableDist 0 1 1000 1000)
            (T.fisher.binary_search (α := α) (0 + 1000) (0 + 1) (1000 + 1000) 0
              (Hypergeometric.pmf (α := α) (tableDist 0 1 1000 1000) 0) (T.fisher.EPSILON (α := α)) false))
            (1.0 : α))) :=
  fisher_twosided_zero_cell_mode_zero 1 1000 1000 (by decide) (by decide) (by decide)
    (by unfold zeroMargin; decide) (by decide) hfar

end zeroCell

end Statrs.Props.C16
