/-
  C16 — non-vacuity of the premise of the `…_rel` theorems of `FisherTwoSided.lean`: for the
  witness instance `Spec.sfWitness` (`binomial = Nat.choose`, `ln_binomial = log ∘ Nat.choose`) the
  generated `Hypergeometric.pmf` / `cdf` of the table `[[1, 2], [3, 4]]` (`N = 10, K = 3, n = 4`:
  pmf `35/210, 105/210, 63/210, 7/210` on `0..3`, mode 1) satisfy `UnimodalPmfSpec`, and the
  `…_rel` theorems apply to that table.
-/
import Statrs.Props.C16.FisherTwoSidedExamples
set_option linter.unusedVariables false
namespace Statrs.Props.C16
open Statrs Statrs.Gen Statrs.Lemmas.Unimodal Statrs.Lemmas.UnimodalSums Statrs.Lemmas.TestsHyper
open Finset Spec.Tests Statrs.Spec.TestsSF

attribute [local instance] Statrs.Spec.sfWitness

theorem witness_dist : tableDist 1 2 3 4 = ⟨10, 3, 4⟩ := by rfl
theorem witness_mode : tableMode 1 2 3 4 = 1 := by rfl

theorem witness_pmf_val (k : ℤ) : hpmf (tableDist 1 2 3 4) k =
    if 4 < k then 0 else ((Nat.choose 3 k.toNat : ℝ) * (Nat.choose 7 (4 - k).toNat : ℝ)) / 210 := by
  rw [witness_dist]
  unfold hpmf Hypergeometric.pmf
  simp only [SF.binomial, usub]
  have t3 : Int.toNat 3 = 3 := rfl
  have t7 : Int.toNat 7 = 7 := rfl
  have t10 : Int.toNat 10 = 10 := rfl
  have t4 : Int.toNat 4 = 4 := rfl
  have c : Nat.choose 10 4 = 210 := by decide
  have u1 : (if (10:ℤ) < 3 then panicInt else 10 - 3) = 7 := by norm_num
  have u2 : (if (4:ℤ) < k then panicInt else 4 - k).toNat = (4 - k).toNat := by
    split_ifs with h
    · unfold panicInt; omega
    · rfl
  rw [u1, u2, t3, t7, t10, t4, c]
  norm_num

theorem witness_p0 : hpmf (tableDist 1 2 3 4) 0 = 35 / 210 := by
  rw [witness_pmf_val]; norm_num [show Int.toNat 4 = 4 from rfl, show Nat.choose 7 4 = 35 from by decide]
theorem witness_p1 : hpmf (tableDist 1 2 3 4) 1 = 105 / 210 := by
  rw [witness_pmf_val]; norm_num [show Int.toNat 3 = 3 from rfl, show Nat.choose 7 3 = 35 from by decide]
theorem witness_p2 : hpmf (tableDist 1 2 3 4) 2 = 63 / 210 := by
  rw [witness_pmf_val]; norm_num [show Int.toNat 2 = 2 from rfl, show Nat.choose 7 2 = 21 from by decide, show Nat.choose 3 2 = 3 from by decide]
theorem witness_p3 : hpmf (tableDist 1 2 3 4) 3 = 7 / 210 := by
  rw [witness_pmf_val]; norm_num [show Int.toNat 3 = 3 from rfl]
theorem witness_pz (k : ℤ) (hk : 3 < k) : hpmf (tableDist 1 2 3 4) k = 0 := by
  rw [witness_pmf_val]
  split_ifs with h
  · rfl
  · have : k = 4 := by omega
    subst this
    norm_num [show Int.toNat 4 = 4 from rfl, show Nat.choose 3 4 = 0 from by decide]

theorem fts_sum_Icc_0_3 (g : ℤ → ℝ) : ∑ k ∈ Icc (0 : ℤ) 3, g k = g 0 + g 1 + g 2 + g 3 := by
  have : Icc (0 : ℤ) 3 = {0, 1, 2, 3} := by
    ext k; simp only [mem_Icc, mem_insert, mem_singleton]; omega
  rw [this]; simp [Finset.sum_insert]; ring

theorem witness_cdf_small (x : ℕ) (hx : x ≤ 2) :
    hcdf (tableDist 1 2 3 4) (x : ℤ) = ∑ j ∈ Icc (0 : ℤ) x, hpmf (tableDist 1 2 3 4) j := by
  have h := hyper_cdf_rel lnBinomialSpec_witness 10 3 4 x (by norm_num) (by norm_num)
    (Or.inl (by norm_num))
  have c1 : Nat.choose 10 4 = 210 := by decide
  have c2 : Nat.choose 7 4 = 35 := by decide
  have c3 : Nat.choose 7 3 = 35 := by decide
  have c4 : Nat.choose 7 2 = 21 := by decide
  rw [witness_dist]
  unfold hcdf
  simp only [Nat.cast_ofNat] at h
  rw [h]
  unfold hyperLower
  interval_cases x
  · have : Icc (0 : ℤ) ((0 : ℕ) : ℤ) = {0} := by
      ext k; simp only [mem_Icc, mem_singleton, Nat.cast_zero]; omega
    rw [this, ← witness_dist]
    simp [witness_p0, hyperPmf, c1, c2]
  · have : Icc (0 : ℤ) ((1 : ℕ) : ℤ) = {0, 1} := by
      ext k; simp only [mem_Icc, mem_insert, mem_singleton, Nat.cast_one]; omega
    rw [this, ← witness_dist]
    simp [witness_p0, witness_p1, hyperPmf, c1, c2, c3, Finset.sum_range_succ]
    norm_num
  · rw [show ((2 : ℕ) : ℤ) = 2 from rfl, fts_sum_Icc_0_2, ← witness_dist, witness_p0, witness_p1, witness_p2]
    simp [hyperPmf, c1, c2, c3, c4, Finset.sum_range_succ]
    norm_num

theorem unimodalPmfSpec_witness : UnimodalPmfSpec (hpmf (tableDist 1 2 3 4)) (hcdf (tableDist 1 2 3 4))
    (max 0 (((1 : ℕ) : ℤ) - (4 : ℕ))) (min (((1 : ℕ) : ℤ) + (2 : ℕ)) (((1 : ℕ) : ℤ) + (3 : ℕ)))
    (tableMode 1 2 3 4) := by
  have e1 : max 0 (((1 : ℕ) : ℤ) - (4 : ℕ)) = 0 := by norm_num
  have e2 : min (((1 : ℕ) : ℤ) + (2 : ℕ)) (((1 : ℕ) : ℤ) + (3 : ℕ)) = 3 := by norm_num
  rw [e1, e2, witness_mode]
  exact {
    lo_nonneg := le_refl _
    lo_le_mode := by norm_num
    mode_le_hi := by norm_num
    pos := by intro k h1 h2; interval_cases k <;> simp only [witness_p0, witness_p1, witness_p2, witness_p3] <;> norm_num
    zero_below := by intro k h1 h2; omega
    zero_above := witness_pz
    incr := by intro k h1 h2; omega
    le_mode := by norm_num [witness_p0, witness_p1]
    decr := by
      intro k h1 h2
      interval_cases k
      · norm_num [witness_p1, witness_p2]
      · norm_num [witness_p2, witness_p3]
    cdf_eq := by
      intro k
      by_cases hk0 : k < 0
      · rw [Finset.Icc_eq_empty (by omega), Finset.sum_empty, witness_dist]
        unfold hcdf Hypergeometric.cdf Hypergeometric.min usatSub
        rw [if_pos (by norm_num; omega)]
        norm_num
      · by_cases hk2 : k ≤ 2
        · have := witness_cdf_small k.toNat (by omega)
          rwa [Int.toNat_of_nonneg (by omega)] at this
        · have hs : ∑ j ∈ Icc (0 : ℤ) k, hpmf (tableDist 1 2 3 4) j
              = ∑ j ∈ Icc (0 : ℤ) 3, hpmf (tableDist 1 2 3 4) j := by
            symm
            apply Finset.sum_subset
            · intro j hj; simp only [mem_Icc] at hj ⊢; omega
            · intro j hj hnj
              simp only [mem_Icc] at hj hnj
              exact witness_pz j (by omega)
          rw [hs, fts_sum_Icc_0_3, witness_p0, witness_p1, witness_p2, witness_p3, witness_dist]
          unfold hcdf Hypergeometric.cdf Hypergeometric.min Hypergeometric.max usatSub
          rw [if_neg (by norm_num; omega), if_pos (by norm_num; omega)]
          norm_num
    total := by rw [fts_sum_Icc_0_3, witness_p0, witness_p1, witness_p2, witness_p3]; norm_num }

/-- the `…_rel` theorems apply to a concrete table under a concrete model of the premise -/
example : ∃ v, T.fisher.fishers_exact (α := ℝ) [((1 : ℕ) : ℤ), (2 : ℕ), (3 : ℕ), (4 : ℕ)]
      Alternative.TwoSided = .ok v ∧
    v ≤ massLE (hpmf (tableDist 1 2 3 4)) (max 0 (((1 : ℕ) : ℤ) - (4 : ℕ)))
      (min (((1 : ℕ) : ℤ) + (2 : ℕ)) (((1 : ℕ) : ℤ) + (3 : ℕ)))
      (hpmf (tableDist 1 2 3 4) 1 / T.fisher.EPSILON (α := ℝ)) := by
  obtain ⟨v, h1, -, h2, -⟩ := fisher_twosided_bounds_rel 1 2 3 4
    (by unfold zeroMargin; norm_num) unimodalPmfSpec_witness (by norm_num)
    (Or.inr (by rw [show tableMode ((1 : ℕ) : ℤ) (2 : ℕ) (3 : ℕ) (4 : ℕ) = 1 from rfl]; norm_num [loopFuel]))
  exact ⟨v, h1, h2⟩

end Statrs.Props.C16
