/-
  C16 — the premise `UnimodalPmfSpec` of the two-sided Fisher theorems (`FisherTwoSided.lean`),
  discharged for the generated `Hypergeometric.pmf` / `Hypergeometric.cdf` from premises about the
  abstract special functions only.

  What the generated code needs.  `Hypergeometric.pmf` calls `SF.binomial`, but
  `Hypergeometric.cdf` does NOT: it sums `exp (ln_binomial K i + ln_binomial (N−K) (n−i) −
  ln_binomial N n)` over `i = 0 .. k` (hypergeometric.rs:214).  So `BinomialChooseSpec`
  (`SF.binomial n k = C(n,k)`, C08) alone cannot determine the `cdf_eq` / `total` fields; the second
  premise is `LnBinomialSpec` (`exp (SF.ln_binomial n k) = C(n,k)` on the triangle `0 ≤ k ≤ n`,
  C16's own premise for the one-sided tests).  Every theorem below is relative to BOTH.

  Findings about the premise structure `UnimodalPmfSpec f F lo hi mode` itself:
  1. Ties.  The structure asks strictness only off the mode (`incr` for `k + 1 < mode`, `decr` for
     `mode ≤ k < hi`) and `f (mode−1) ≤ f mode` non-strictly.  A hypergeometric pmf has
     `f (k+1) = f k` exactly when `(k+1)(N+2) = (K+1)(n+1)`, and then `k + 1 = mode`: the only tie the
     family has is the one the structure allows.  No no-tie hypothesis is needed
     (`hypergeometric_tie_at_mode_example` shows that the tie does occur).
  2. Lower end of the support.  The `cdf` loop starts at `i = 0`, not at `lo = max 0 (n+K−N)`, and
     relies on `ln_binomial (N−K) (n−i) = −∞`, `exp (−∞) = 0` for `i < lo`.  Over ℝ there is no `−∞`:
     every term of the loop is `> 0`, so for `lo > 0` (tables with `a > d`) the field `cdf_eq` is
     FALSE for every `SF ℝ` instance satisfying the two premises
     (`unimodalPmfSpec_lower_support_counterexample`, table `[[2,1],[1,0]]`).  This is a limit of
     the ℝ model, not a defect of the Rust code.  Consequently the `…_rel` theorems of
     `FisherTwoSided.lean` have an unsatisfiable premise for `a > d`, and the assembly below is
     `…_partial`: it needs `draws + successes ≤ population` (`a ≤ d`).
  3. `le_mode` at `mode = 0`.  The field reads `f (−1) ≤ f 0`; `−1` is not a `u64` argument, the
     code never evaluates it, and `BinomialChooseSpec` says nothing about `SF.binomial K (−1)`.
     For the witness instance `sfWitness` (`binomial n k = C(n.toNat, k.toNat)`) the field is false
     on the table `[[0,1],[1,5]]` (`unimodalPmfSpec_le_mode_counterexample`).  So for `mode = 0`
     (`(n+1)(K+1) < N+2`) the structure cannot be derived for `Hypergeometric.pmf` itself; it is
     derived for `truncNeg pmf` (`pmf` on `k ≥ 0`, `0` on `k < 0`), and `twoSidedM` is shown not to
     depend on the difference (at `mode = 0` the search is never entered).  The final theorems
     (`fisher_twosided_…_choose_rel_partial`) therefore cover `mode = 0` as well.
-/
import Statrs.Props.C16.FisherTwoSided
import Statrs.Props.C08.ModeSF_E
set_option linter.unusedVariables false
set_option linter.unusedSectionVars false
namespace Statrs.Props.C16
open Statrs Statrs.Gen Statrs.Lemmas.Unimodal Statrs.Lemmas.UnimodalSums Statrs.Lemmas.TestsHyper
open Finset Spec.Tests Statrs.Spec.TestsSF Statrs.Spec.ModeE Statrs.Props.C08

/-! ### helpers -/

theorem sum_Icc_zero_natCast (g : ℤ → ℝ) (x : ℕ) :
    ∑ j ∈ Icc (0 : ℤ) (x : ℤ), g j = ∑ i ∈ range (x + 1), g (i : ℤ) := by
  induction x with
  | zero => simp
  | succ m ih =>
    rw [Finset.sum_range_succ, ← ih]
    have h : Icc (0 : ℤ) ((m + 1 : ℕ) : ℤ) = insert ((m + 1 : ℕ) : ℤ) (Icc (0 : ℤ) (m : ℤ)) := by
      ext k; simp only [mem_Icc, mem_insert]; push_cast; omega
    rw [h, Finset.sum_insert (by simp only [mem_Icc]; push_cast; omega)]
    ring

/-- `f` on the `u64` arguments, `0` on the negative integers (which the code never evaluates) -/
noncomputable def truncNeg (f : ℤ → ℝ) : ℤ → ℝ := fun k => if k < 0 then 0 else f k

theorem truncNeg_of_nonneg (f : ℤ → ℝ) (k : ℤ) (hk : 0 ≤ k) : truncNeg f k = f k :=
  if_neg (by omega)

theorem massLE_truncNeg (f : ℤ → ℝ) (lo hi : ℤ) (hlo : 0 ≤ lo) (t : ℝ) :
    massLE (truncNeg f) lo hi t = massLE f lo hi t := by
  unfold massLE
  have h : ∀ k ∈ Icc lo hi, truncNeg f k = f k := fun k hk =>
    truncNeg_of_nonneg f k (by have := (mem_Icc.mp hk).1; omega)
  rw [Finset.filter_congr (fun k hk => by rw [h k hk])]
  exact Finset.sum_congr rfl (fun k hk => h k (mem_filter.mp hk).1)

theorem massLT_truncNeg (f : ℤ → ℝ) (lo hi : ℤ) (hlo : 0 ≤ lo) (t : ℝ) :
    massLT (truncNeg f) lo hi t = massLT f lo hi t := by
  unfold massLT
  have h : ∀ k ∈ Icc lo hi, truncNeg f k = f k := fun k hk =>
    truncNeg_of_nonneg f k (by have := (mem_Icc.mp hk).1; omega)
  rw [Finset.filter_congr (fun k hk => by rw [h k hk])]
  exact Finset.sum_congr rfl (fun k hk => h k (mem_filter.mp hk).1)

/-! ### the abstract two-sided arm does not see the negative arguments -/

section trunc
variable {f F : ℤ → ℝ} {lo hi mode : ℤ}

/-- for `mode ≥ 1` the structure for `truncNeg f` is the structure for `f` -/
theorem UnimodalPmfSpec.of_truncNeg (S : UnimodalPmfSpec (truncNeg f) F lo hi mode)
    (hm : 1 ≤ mode) : UnimodalPmfSpec f F lo hi mode := by
  have hlo := S.lo_nonneg
  have hmh := S.mode_le_hi
  have e : ∀ k, 0 ≤ k → truncNeg f k = f k := truncNeg_of_nonneg f
  exact {
    lo_nonneg := S.lo_nonneg
    lo_le_mode := S.lo_le_mode
    mode_le_hi := S.mode_le_hi
    pos := fun k h1 h2 => by rw [← e k (by omega)]; exact S.pos k h1 h2
    zero_below := fun k h1 h2 => by rw [← e k h1]; exact S.zero_below k h1 h2
    zero_above := fun k h1 => by rw [← e k (by omega)]; exact S.zero_above k h1
    incr := fun k h1 h2 => by rw [← e k (by omega), ← e (k + 1) (by omega)]; exact S.incr k h1 h2
    le_mode := by rw [← e (mode - 1) (by omega), ← e mode (by omega)]; exact S.le_mode
    decr := fun k h1 h2 => by rw [← e k (by omega), ← e (k + 1) (by omega)]; exact S.decr k h1 h2
    cdf_eq := fun k => by
      rw [S.cdf_eq k]
      exact Finset.sum_congr rfl (fun j hj => e j (by have := (mem_Icc.mp hj).1; omega))
    total := by
      rw [← S.total]
      exact Finset.sum_congr rfl (fun j hj => (e j (by have := (mem_Icc.mp hj).1; omega)).symm) }

/-- at `mode = 0` the two-sided arm never enters the search (`f a / e < f 0 = f mode` whenever the
    near-mode test fails), so it only evaluates `f` at `a` and `0` -/
theorem twoSidedM_truncNeg_mode_zero (S : UnimodalPmfSpec (truncNeg f) F lo hi mode)
    (hm : mode = 0) (n a : ℤ) (ha : lo ≤ a) (hah : a ≤ hi) (e : ℝ) (he0 : 0 < e) (he1 : e < 1) :
    twoSidedM f F n mode a e = twoSidedM (truncNeg f) F n mode a e := by
  subst hm
  have ha0 : 0 ≤ a := le_trans S.lo_nonneg ha
  have e1 : truncNeg f a = f a := truncNeg_of_nonneg f a ha0
  have e2 : truncNeg f 0 = f 0 := truncNeg_of_nonneg f 0 (le_refl _)
  unfold twoSidedM
  rw [e1, e2]
  by_cases hc : |f a - f 0| / max (f a) (f 0) ≤ (1.0 : ℝ) - e
  · rw [if_pos hc, if_pos hc]
  · have hfar : ¬ e * truncNeg f 0 ≤ truncNeg f a := fun h => hc (by
      have := (near_mode_iff S a ha0 e).mpr h
      rwa [e1, e2] at this)
    obtain ⟨-, -, hpm, -⟩ := not_near_mode_facts S a ha hah e he0 he1 hfar
    rw [e1, e2] at hpm
    rw [if_neg hc, if_neg hc, if_neg (by omega : ¬ a < 0), if_neg (by omega : ¬ a < 0),
      if_pos hpm, if_pos hpm]

/-- `twoSidedM_bounds` with the structure assumed for `truncNeg f` only (every `mode ≥ 0`) -/
theorem twoSidedM_bounds_trunc (S : UnimodalPmfSpec (truncNeg f) F lo hi mode) (n a : ℤ)
    (ha : lo ≤ a) (hah : a ≤ hi) (hn : hi ≤ n) (hn64 : n - mode ≤ 2 ^ 64)
    (hfuel : a < mode ∨ mode < loopFuel) (e : ℝ) (he0 : 0 < e) (he1 : e < 1) :
    massLT f lo hi (f a * e) ≤ twoSidedM f F n mode a e ∧
    twoSidedM f F n mode a e ≤ massLE f lo hi (f a / e) ∧
    ((a < mode ∨ ∀ k, lo ≤ k → k < mode → f a * e ≤ f k → f a ≤ f k) →
      massLE f lo hi (f a) ≤ twoSidedM f F n mode a e) := by
  by_cases hm : 1 ≤ mode
  · exact twoSidedM_bounds (S.of_truncNeg hm) n a ha hah hn hn64 hfuel e he0 he1
  · have hm0 : mode = 0 := by have := S.mode_nonneg; omega
    have hlo := S.lo_nonneg
    have ea : truncNeg f a = f a := truncNeg_of_nonneg f a (by omega)
    obtain ⟨h1, h2, h3⟩ := twoSidedM_bounds S n a ha hah hn hn64 hfuel e he0 he1
    rw [← twoSidedM_truncNeg_mode_zero S hm0 n a ha hah e he0 he1, ea] at h1 h2 h3
    rw [massLT_truncNeg f lo hi hlo] at h1
    rw [massLE_truncNeg f lo hi hlo] at h2 h3
    exact ⟨h1, h2, fun _ => h3 (Or.inr (fun k hk1 hk2 => by omega))⟩

/-- `twoSidedM_eq_textbook` with the structure assumed for `truncNeg f` only -/
theorem twoSidedM_eq_textbook_trunc (S : UnimodalPmfSpec (truncNeg f) F lo hi mode) (n a : ℤ)
    (ha : lo ≤ a) (hah : a ≤ hi) (hn : hi ≤ n) (hn64 : n - mode ≤ 2 ^ 64)
    (hfuel : a < mode ∨ mode < loopFuel) (e : ℝ) (he0 : 0 < e) (he1 : e < 1)
    (hslack : ∀ k, lo ≤ k → k ≤ hi → f k ≤ f a / e → f k ≤ f a)
    (hgap : a < mode ∨ ∀ k, lo ≤ k → k < mode → f a * e ≤ f k → f a ≤ f k) :
    twoSidedM f F n mode a e = min 1 (massLE f lo hi (f a)) := by
  by_cases hm : 1 ≤ mode
  · exact twoSidedM_eq_textbook (S.of_truncNeg hm) n a ha hah hn hn64 hfuel e he0 he1 hslack hgap
  · have hm0 : mode = 0 := by have := S.mode_nonneg; omega
    have hlo := S.lo_nonneg
    have ea : truncNeg f a = f a := truncNeg_of_nonneg f a (by omega)
    have h := twoSidedM_eq_textbook S n a ha hah hn hn64 hfuel e he0 he1
      (fun k h1 h2 => by rw [truncNeg_of_nonneg f k (by omega), ea]; exact hslack k h1 h2)
      (Or.inr (fun k hk1 hk2 => by omega))
    rw [← twoSidedM_truncNeg_mode_zero S hm0 n a ha hah e he0 he1, ea,
      massLE_truncNeg f lo hi hlo] at h
    exact h

/-- `twoSided_lower_shortcut` with the structure assumed for `truncNeg f` only (`a < mode` forces
    `mode ≥ 1`) -/
theorem twoSided_lower_shortcut_trunc (S : UnimodalPmfSpec (truncNeg f) F lo hi mode) (n a : ℤ)
    (ha : lo ≤ a) (ham : a < mode) (hn : hi ≤ n) (e : ℝ) (he0 : 0 < e) (he1 : e < 1)
    (hfar : ¬ e * f mode ≤ f a) (hsc : f a / e < f n) :
    twoSidedM f F n mode a e = F a ∧ F a = massLE f lo hi (f a) ∧
      (∀ k, mode ≤ k → k ≤ n → ¬ f k ≤ f a / e) :=
  twoSided_lower_shortcut (S.of_truncNeg (by have := S.lo_nonneg; omega)) n a ha ham hn e he0 he1
    hfar hsc

/-- `twoSided_upper_shortcut` with the structure assumed for `truncNeg f` only -/
theorem twoSided_upper_shortcut_trunc (S : UnimodalPmfSpec (truncNeg f) F lo hi mode) (n a : ℤ)
    (ham : mode ≤ a) (hah : a ≤ hi) (e : ℝ) (he0 : 0 < e) (he1 : e < 1)
    (hfar : ¬ e * f mode ≤ f a) (hsc : f a / e < f 0) :
    twoSidedM f F n mode a e = 1 - F (a - 1) ∧ 1 - F (a - 1) = massLE f lo hi (f a) ∧
      (∀ k, 0 ≤ k → k ≤ mode → ¬ f k ≤ f a / e) := by
  by_cases hm : 1 ≤ mode
  · exact twoSided_upper_shortcut (S.of_truncNeg hm) n a ham hah e he0 he1 hfar hsc
  · have hm0 : mode = 0 := by have := S.mode_nonneg; omega
    have hlo := S.lo_nonneg
    have hlm := S.lo_le_mode
    have ea : truncNeg f a = f a := truncNeg_of_nonneg f a (by omega)
    have e0 : truncNeg f 0 = f 0 := truncNeg_of_nonneg f 0 (le_refl _)
    have em : truncNeg f mode = f mode := truncNeg_of_nonneg f mode (by omega)
    obtain ⟨h1, h2, h3⟩ := twoSided_upper_shortcut S n a ham hah e he0 he1
      (by rw [ea, em]; exact hfar) (by rw [ea, e0]; exact hsc)
    rw [← twoSidedM_truncNeg_mode_zero S hm0 n a (by omega) hah e he0 he1] at h1
    rw [ea, massLE_truncNeg f lo hi hlo] at h2
    refine ⟨h1, h2, fun k hk0 hkm => ?_⟩
    have := h3 k hk0 hkm
    rwa [truncNeg_of_nonneg f k hk0, ea] at this

end trunc

/-! ### the generated `cdf` is the running sum of the generated `pmf` -/

section assembly
variable [SF ℝ]

/-- the generated pmf at a natural argument is the textbook `hyperPmf` -/
theorem hypergeometric_pmf_eq_hyperPmf_rel (B : BinomialChooseSpec) (N K n i : ℕ) (hK : K ≤ N) :
    Hypergeometric.pmf (α := ℝ) ⟨(N : ℤ), (K : ℤ), (n : ℤ)⟩ (i : ℤ) = hyperPmf N K n i := by
  by_cases hi : i ≤ n
  · rw [hypergeometric_pmf_eq_rel B N K n i hK hi]
    unfold hyperPmf hyperNum
    rw [if_pos hi]
    push_cast
    rfl
  · unfold Hypergeometric.pmf hyperPmf
    simp only []
    rw [if_pos (by omega), if_neg hi]
    norm_num

/-- **`cdf k = Σ_{0 ≤ j ≤ k} pmf j`** for the generated `Hypergeometric.cdf` / `pmf`, every integer
    `k`, relative to the two premises.  PARTIAL: needs `draws + successes ≤ population` (the lower
    end of the support is `0`); without it the statement is false over ℝ (file header, 2). -/
theorem hypergeometric_cdf_eq_sum_partial (B : BinomialChooseSpec) (L : LnBinomialSpec)
    (d : Hypergeometric) (h0K : 0 ≤ d.f_successes) (h0n : 0 ≤ d.f_draws)
    (hK : d.f_successes ≤ d.f_population) (hn : d.f_draws ≤ d.f_population)
    (hs : d.f_draws + d.f_successes ≤ d.f_population) (k : ℤ) :
    Hypergeometric.cdf (α := ℝ) d k = ∑ j ∈ Icc (0 : ℤ) k, Hypergeometric.pmf (α := ℝ) d j := by
  obtain ⟨N, K, n, rfl, hKN, hnN⟩ := hyper_lift d h0K h0n hK hn
  simp only [] at hs
  by_cases hk0 : k < 0
  · rw [Finset.Icc_eq_empty (by omega), Finset.sum_empty]
    unfold Hypergeometric.cdf Hypergeometric.min usatSub
    simp only []
    rw [if_pos (by split_ifs <;> omega)]
    norm_num
  · lift k to ℕ using (by omega)
    rw [hyper_cdf_rel L N K n k hKN hnN (Or.inl (by omega)), sum_Icc_zero_natCast]
    unfold hyperLower
    exact Finset.sum_congr rfl (fun i _ => (hypergeometric_pmf_eq_hyperPmf_rel B N K n i hKN).symm)

/-- at and beyond the upper end of the support the generated `cdf` returns `1` (branch logic only) -/
theorem hypergeometric_cdf_hi (d : Hypergeometric) (h0K : 0 ≤ d.f_successes) (h0n : 0 ≤ d.f_draws)
    (hK : d.f_successes ≤ d.f_population) (hn : d.f_draws ≤ d.f_population) (k : ℤ)
    (hk : min d.f_draws d.f_successes ≤ k) :
    Hypergeometric.cdf (α := ℝ) d k = 1 := by
  have hk1 : Min.min d.f_successes d.f_draws ≤ k := by rw [min_comm]; exact hk
  have hk2 : 0 ≤ k := le_trans (le_min h0n h0K) hk
  have hk3 : d.f_draws + d.f_successes - d.f_population ≤ k := by
    rcases min_le_iff.mp (le_refl (min d.f_draws d.f_successes)) with h | h <;> omega
  unfold Hypergeometric.cdf Hypergeometric.min Hypergeometric.max usatSub
  simp only []
  rw [if_neg (by split_ifs <;> omega), if_pos hk1]
  norm_num

/-- non-negativity at every `u64` argument, struct form -/
theorem hypergeometric_pmf_nonneg_of_support (B : BinomialChooseSpec) (d : Hypergeometric)
    (h0K : 0 ≤ d.f_successes) (h0n : 0 ≤ d.f_draws) (hK : d.f_successes ≤ d.f_population)
    (hn : d.f_draws ≤ d.f_population) (k : ℤ) (hk : 0 ≤ k) :
    0 ≤ Hypergeometric.pmf (α := ℝ) d k := by
  obtain ⟨N, K, n, rfl, hKN, hnN⟩ := hyper_lift d h0K h0n hK hn
  exact hypergeometric_pmf_nonneg_rel B N K n hKN k hk

/-- **Assembly, `truncNeg` form** — for EVERY parameter triple accepted by `Hypergeometric::new`
    with `draws + successes ≤ population`, the generated pmf (restricted to the `u64` arguments) and
    the generated cdf form a `UnimodalPmfSpec` on `[max 0 (n+K−N), min n K]` (`= [0, min n K]`) with
    mode `mode()`, relative to `BinomialChooseSpec` and `LnBinomialSpec`.  No no-tie hypothesis.
    PARTIAL: `draws + successes ≤ population` (file header, 2). -/
theorem hypergeometric_unimodalPmfSpec_trunc_partial (B : BinomialChooseSpec) (L : LnBinomialSpec)
    (d : Hypergeometric) (h0K : 0 ≤ d.f_successes) (h0n : 0 ≤ d.f_draws)
    (hK : d.f_successes ≤ d.f_population) (hn : d.f_draws ≤ d.f_population)
    (hs : d.f_draws + d.f_successes ≤ d.f_population) :
    UnimodalPmfSpec (truncNeg (hpmf d)) (hcdf d)
      (max 0 (d.f_draws + d.f_successes - d.f_population)) (min d.f_draws d.f_successes)
      (unwrapO (Hypergeometric.mode (α := ℝ) d)) := by
  have hsup := hypergeometric_mode_in_support d h0K h0n hK hn
  have hlo0 : max 0 (d.f_draws + d.f_successes - d.f_population) = 0 := max_eq_left (by omega)
  have hm0 : 0 ≤ unwrapO (Hypergeometric.mode (α := ℝ) d) := le_trans (le_max_left _ _) hsup.1
  have hhi0 : 0 ≤ min d.f_draws d.f_successes := le_min h0n h0K
  have e : ∀ k, 0 ≤ k → truncNeg (hpmf d) k = Hypergeometric.pmf (α := ℝ) d k :=
    truncNeg_of_nonneg (hpmf d)
  have hcdf : ∀ k, hcdf d k = ∑ j ∈ Icc (max 0 (d.f_draws + d.f_successes - d.f_population)) k,
      truncNeg (hpmf d) j := by
    intro k
    rw [hlo0]
    show Hypergeometric.cdf (α := ℝ) d k = _
    rw [hypergeometric_cdf_eq_sum_partial B L d h0K h0n hK hn hs k]
    exact Finset.sum_congr rfl (fun j hj => (e j (mem_Icc.mp hj).1).symm)
  exact {
    lo_nonneg := le_max_left _ _
    lo_le_mode := hsup.1
    mode_le_hi := hsup.2
    pos := fun k h1 h2 => by
      have hk0 : 0 ≤ k := le_trans (le_max_left _ _) h1
      rw [e k hk0]
      exact (hypergeometric_pmf_support_rel B d h0K h0n hK hn k hk0).1 h1 h2
    zero_below := fun k h1 h2 => by
      rw [e k h1]
      exact (hypergeometric_pmf_support_rel B d h0K h0n hK hn k h1).2.1 h2
    zero_above := fun k h1 => by
      have hk0 : 0 ≤ k := by omega
      rw [e k hk0]
      exact (hypergeometric_pmf_support_rel B d h0K h0n hK hn k hk0).2.2 h1
    incr := fun k h1 h2 => by
      have hk0 : 0 ≤ k := le_trans (le_max_left _ _) h1
      rw [e k hk0, e (k + 1) (by omega)]
      exact hypergeometric_pmf_incr_rel B d h0K h0n hK hn k h1 h2
    le_mode := by
      by_cases h1 : 1 ≤ unwrapO (Hypergeometric.mode (α := ℝ) d)
      · rw [e _ (by omega), e _ hm0]
        exact hypergeometric_pmf_le_mode_rel B d h0K h0n hK hn h1
      · have hneg : unwrapO (Hypergeometric.mode (α := ℝ) d) - 1 < 0 := by omega
        rw [show truncNeg (hpmf d) (unwrapO (Hypergeometric.mode (α := ℝ) d) - 1) = 0 from
          if_pos hneg, e _ hm0]
        exact hypergeometric_pmf_nonneg_of_support B d h0K h0n hK hn _ hm0
    decr := fun k h1 h2 => by
      have hk0 : 0 ≤ k := le_trans hm0 h1
      rw [e k hk0, e (k + 1) (by omega)]
      exact hypergeometric_pmf_decr_rel B d h0K h0n hK hn k h1 h2
    cdf_eq := hcdf
    total := by
      rw [← hcdf (min d.f_draws d.f_successes)]
      exact hypergeometric_cdf_hi d h0K h0n hK hn _ (le_refl _) }

/-- **Assembly for the generated pmf itself** (the exact premise of the `…_rel` theorems of
    `FisherTwoSided.lean`), every accepted parameter triple with `draws + successes ≤ population`
    and `mode() ≥ 1`.  PARTIAL: (a) `draws + successes ≤ population` (file header, 2);
    (b) `mode() ≥ 1`: at `mode() = 0` the field `le_mode` speaks about `pmf (−1)`, which is not
    determined by the premises and is false for `sfWitness`
    (`unimodalPmfSpec_le_mode_counterexample`). -/
theorem hypergeometric_unimodalPmfSpec_partial (B : BinomialChooseSpec) (L : LnBinomialSpec)
    (d : Hypergeometric) (h0K : 0 ≤ d.f_successes) (h0n : 0 ≤ d.f_draws)
    (hK : d.f_successes ≤ d.f_population) (hn : d.f_draws ≤ d.f_population)
    (hs : d.f_draws + d.f_successes ≤ d.f_population)
    (hm : 1 ≤ unwrapO (Hypergeometric.mode (α := ℝ) d)) :
    UnimodalPmfSpec (hpmf d) (hcdf d)
      (max 0 (d.f_draws + d.f_successes - d.f_population)) (min d.f_draws d.f_successes)
      (unwrapO (Hypergeometric.mode (α := ℝ) d)) :=
  (hypergeometric_unimodalPmfSpec_trunc_partial B L d h0K h0n hK hn hs).of_truncNeg hm

/-- the structure for the distribution `fishers_exact` builds from a table with `a ≤ d` -/
theorem table_unimodal_trunc (B : BinomialChooseSpec) (L : LnBinomialSpec) (a b c d : ℕ)
    (had : a ≤ d) :
    UnimodalPmfSpec (truncNeg (hpmf (tableDist a b c d))) (hcdf (tableDist a b c d))
      (max 0 ((a : ℤ) - d)) (min ((a : ℤ) + b) ((a : ℤ) + c)) (tableMode a b c d) := by
  have h := hypergeometric_unimodalPmfSpec_trunc_partial B L (tableDist a b c d)
    (by simp only [tableDist]; omega) (by simp only [tableDist]; omega)
    (by simp only [tableDist]; omega) (by simp only [tableDist]; omega)
    (by simp only [tableDist]; omega)
  have e1 : (tableDist a b c d).f_draws + (tableDist a b c d).f_successes
      - (tableDist a b c d).f_population = (a : ℤ) - d := by simp only [tableDist]; ring
  have e2 : min (tableDist a b c d).f_draws (tableDist a b c d).f_successes
      = min ((a : ℤ) + b) ((a : ℤ) + c) := by simp only [tableDist]; exact min_comm _ _
  have e3 : unwrapO (Hypergeometric.mode (α := ℝ) (tableDist a b c d)) = tableMode a b c d := rfl
  rw [e1, e2, e3] at h
  exact h

/-! ### the two-sided Fisher theorems relative to the special-function premises only -/

/-- **`fishers_exact(table, TwoSided)`, all branches**, relative to `BinomialChooseSpec` and
    `LnBinomialSpec` only (conclusion identical to `fisher_twosided_bounds_rel`): the returned value
    `v` satisfies `Σ_{f k < p·E} f k ≤ v ≤ Σ_{f k ≤ p/E} f k`, and `Σ_{f k ≤ p} f k ≤ v` when
    `a < mode` or no far-side table has `p·E ≤ f k < p`.  Every table of `u64` counts without a zero
    row/column and with `a ≤ d`, including `mode = 0`.
    PARTIAL: `a ≤ d` (for `a > d` the ℝ model of `cdf` has no meaning: file header, 2). -/
theorem fisher_twosided_bounds_choose_rel_partial (B : BinomialChooseSpec) (L : LnBinomialSpec)
    (a b c d : ℕ) (hz : ¬ zeroMargin (a : ℤ) b c d) (had : a ≤ d)
    (hsize : (a : ℤ) + c ≤ 2 ^ 64)
    (hfuel : (a : ℤ) < tableMode a b c d ∨ tableMode a b c d < loopFuel) :
    ∃ v, T.fisher.fishers_exact (α := ℝ) [(a : ℤ), b, c, d] Alternative.TwoSided = .ok v ∧
      massLT (hpmf (tableDist a b c d)) (max 0 ((a : ℤ) - d)) (min ((a : ℤ) + b) ((a : ℤ) + c))
          (hpmf (tableDist a b c d) a * T.fisher.EPSILON (α := ℝ)) ≤ v ∧
      v ≤ massLE (hpmf (tableDist a b c d)) (max 0 ((a : ℤ) - d)) (min ((a : ℤ) + b) ((a : ℤ) + c))
          (hpmf (tableDist a b c d) a / T.fisher.EPSILON (α := ℝ)) ∧
      (((a : ℤ) < tableMode a b c d ∨ ∀ k, max 0 ((a : ℤ) - d) ≤ k → k < tableMode a b c d →
          hpmf (tableDist a b c d) a * T.fisher.EPSILON (α := ℝ) ≤ hpmf (tableDist a b c d) k →
          hpmf (tableDist a b c d) a ≤ hpmf (tableDist a b c d) k) →
        massLE (hpmf (tableDist a b c d)) (max 0 ((a : ℤ) - d)) (min ((a : ℤ) + b) ((a : ℤ) + c))
          (hpmf (tableDist a b c d) a) ≤ v) := by
  have S := table_unimodal_trunc B L a b c d had
  refine ⟨_, fishers_exact_twosided_eq a b c d (by omega) (by omega) (by omega) (by omega) hz, ?_⟩
  have hm := S.mode_nonneg
  exact twoSidedM_bounds_trunc S ((a : ℤ) + c) a (max_le (by omega) (by omega))
    (le_min (by omega) (by omega)) (min_le_right _ _) (by omega) hfuel _
    (by rw [fisher_epsilon_val]; norm_num) (by rw [fisher_epsilon_val]; norm_num)

/-- **exact textbook value away from the slack zones**, relative to the special-function premises
    only (conclusion identical to `fisher_twosided_exact_rel`).  PARTIAL: `a ≤ d`. -/
theorem fisher_twosided_exact_choose_rel_partial (B : BinomialChooseSpec) (L : LnBinomialSpec)
    (a b c d : ℕ) (hz : ¬ zeroMargin (a : ℤ) b c d) (had : a ≤ d)
    (hsize : (a : ℤ) + c ≤ 2 ^ 64)
    (hfuel : (a : ℤ) < tableMode a b c d ∨ tableMode a b c d < loopFuel)
    (hslack : ∀ k, max 0 ((a : ℤ) - d) ≤ k → k ≤ min ((a : ℤ) + b) ((a : ℤ) + c) →
      hpmf (tableDist a b c d) k ≤ hpmf (tableDist a b c d) a / T.fisher.EPSILON (α := ℝ) →
      hpmf (tableDist a b c d) k ≤ hpmf (tableDist a b c d) a)
    (hgap : (a : ℤ) < tableMode a b c d ∨ ∀ k, max 0 ((a : ℤ) - d) ≤ k → k < tableMode a b c d →
      hpmf (tableDist a b c d) a * T.fisher.EPSILON (α := ℝ) ≤ hpmf (tableDist a b c d) k →
      hpmf (tableDist a b c d) a ≤ hpmf (tableDist a b c d) k) :
    T.fisher.fishers_exact (α := ℝ) [(a : ℤ), b, c, d] Alternative.TwoSided
      = .ok (min 1 (massLE (hpmf (tableDist a b c d)) (max 0 ((a : ℤ) - d))
          (min ((a : ℤ) + b) ((a : ℤ) + c)) (hpmf (tableDist a b c d) a))) := by
  have S := table_unimodal_trunc B L a b c d had
  rw [fishers_exact_twosided_eq a b c d (by omega) (by omega) (by omega) (by omega) hz]
  have hm := S.mode_nonneg
  rw [twoSidedM_eq_textbook_trunc S ((a : ℤ) + c) a (max_le (by omega) (by omega))
    (le_min (by omega) (by omega)) (min_le_right _ _) (by omega) hfuel _
    (by rw [fisher_epsilon_val]; norm_num) (by rw [fisher_epsilon_val]; norm_num) hslack hgap]

/-- **shortcut branch, observed table below the mode**, relative to the special-function premises
    only (conclusion identical to `fisher_twosided_shortcut_below_rel`).  PARTIAL: `a ≤ d`. -/
theorem fisher_twosided_shortcut_below_choose_rel_partial (B : BinomialChooseSpec)
    (L : LnBinomialSpec) (a b c d : ℕ) (hz : ¬ zeroMargin (a : ℤ) b c d) (had : a ≤ d)
    (ham : (a : ℤ) < tableMode a b c d)
    (hfar : ¬ T.fisher.EPSILON (α := ℝ) * hpmf (tableDist a b c d) (tableMode a b c d)
      ≤ hpmf (tableDist a b c d) a)
    (hsc : hpmf (tableDist a b c d) a / T.fisher.EPSILON (α := ℝ)
      < hpmf (tableDist a b c d) ((a : ℤ) + c)) :
    T.fisher.fishers_exact (α := ℝ) [(a : ℤ), b, c, d] Alternative.TwoSided
      = .ok (massLE (hpmf (tableDist a b c d)) (max 0 ((a : ℤ) - d))
          (min ((a : ℤ) + b) ((a : ℤ) + c)) (hpmf (tableDist a b c d) a)) ∧
    ∀ k, tableMode a b c d ≤ k → k ≤ (a : ℤ) + c →
      ¬ hpmf (tableDist a b c d) k ≤ hpmf (tableDist a b c d) a / T.fisher.EPSILON (α := ℝ) := by
  have S := table_unimodal_trunc B L a b c d had
  rw [fishers_exact_twosided_eq a b c d (by omega) (by omega) (by omega) (by omega) hz]
  obtain ⟨h1, h2, h3⟩ := twoSided_lower_shortcut_trunc S ((a : ℤ) + c) a
    (max_le (by omega) (by omega)) ham (min_le_right _ _) _
    (by rw [fisher_epsilon_val]; norm_num) (by rw [fisher_epsilon_val]; norm_num) hfar hsc
  exact ⟨by rw [h1, h2], h3⟩

/-- **shortcut branch, observed table at or above the mode**, relative to the special-function
    premises only (conclusion identical to `fisher_twosided_shortcut_above_rel`).
    PARTIAL: `a ≤ d`. -/
theorem fisher_twosided_shortcut_above_choose_rel_partial (B : BinomialChooseSpec)
    (L : LnBinomialSpec) (a b c d : ℕ) (hz : ¬ zeroMargin (a : ℤ) b c d) (had : a ≤ d)
    (ham : tableMode a b c d ≤ (a : ℤ))
    (hfar : ¬ T.fisher.EPSILON (α := ℝ) * hpmf (tableDist a b c d) (tableMode a b c d)
      ≤ hpmf (tableDist a b c d) a)
    (hsc : hpmf (tableDist a b c d) a / T.fisher.EPSILON (α := ℝ) < hpmf (tableDist a b c d) 0) :
    T.fisher.fishers_exact (α := ℝ) [(a : ℤ), b, c, d] Alternative.TwoSided
      = .ok (massLE (hpmf (tableDist a b c d)) (max 0 ((a : ℤ) - d))
          (min ((a : ℤ) + b) ((a : ℤ) + c)) (hpmf (tableDist a b c d) a)) ∧
    ∀ k, 0 ≤ k → k ≤ tableMode a b c d →
      ¬ hpmf (tableDist a b c d) k ≤ hpmf (tableDist a b c d) a / T.fisher.EPSILON (α := ℝ) := by
  have S := table_unimodal_trunc B L a b c d had
  rw [fishers_exact_twosided_eq a b c d (by omega) (by omega) (by omega) (by omega) hz]
  obtain ⟨h1, h2, h3⟩ := twoSided_upper_shortcut_trunc S ((a : ℤ) + c) a ham
    (le_min (by omega) (by omega)) _ (by rw [fisher_epsilon_val]; norm_num)
    (by rw [fisher_epsilon_val]; norm_num) hfar hsc
  exact ⟨by rw [h1, h2], h3⟩

/-- the one tie the family has: `N = 4, K = 2, n = 1` (`(n+1)(K+1) = N+2`, `mode = 1`),
    `pmf 0 = pmf 1 = 1/2` — at `(mode − 1, mode)`, where `UnimodalPmfSpec.le_mode` is non-strict -/
theorem hypergeometric_tie_at_mode_example (B : BinomialChooseSpec) :
    unwrapO (Hypergeometric.mode (α := ℝ) ⟨4, 2, 1⟩) = 1 ∧
    Hypergeometric.pmf (α := ℝ) ⟨4, 2, 1⟩ 0 = 1 / 2 ∧
    Hypergeometric.pmf (α := ℝ) ⟨4, 2, 1⟩ 1 = 1 / 2 := by
  refine ⟨by decide, ?_, ?_⟩
  · have := hypergeometric_pmf_eq_rel B 4 2 1 0 (by norm_num) (by norm_num)
    simp only [Nat.cast_ofNat, Nat.cast_one, Nat.cast_zero] at this
    rw [this]; unfold hyperNum; norm_num [Nat.choose]
  · have := hypergeometric_pmf_eq_rel B 4 2 1 1 (by norm_num) (by norm_num)
    simp only [Nat.cast_ofNat, Nat.cast_one] at this
    rw [this]; unfold hyperNum; norm_num [Nat.choose]

/-- **`UnimodalPmfSpec` is false over ℝ for a table with `a > d`** (`[[2,1],[1,0]]`: `N = 4`,
    `K = 3`, `n = 3`, support `[2, 3]`), for EVERY special-function instance satisfying the two
    premises: the generated `cdf 2` sums `exp(…)` over `i = 0, 1, 2`, the first two terms (below
    the support, where the Rust code has `exp(−∞) = 0`) are positive reals, so
    `cdf 2 > pmf 2 = Σ_{2 ≤ j ≤ 2} pmf j`.  A limit of the ℝ model, not a code defect; it makes the
    premise of the `…_rel` theorems of `FisherTwoSided.lean` unsatisfiable for such tables. -/
theorem unimodalPmfSpec_lower_support_counterexample (B : BinomialChooseSpec) (L : LnBinomialSpec) :
    ¬ UnimodalPmfSpec (hpmf (tableDist 2 1 1 0)) (hcdf (tableDist 2 1 1 0))
      (max 0 (((2 : ℕ) : ℤ) - (0 : ℕ))) (min (((2 : ℕ) : ℤ) + (1 : ℕ)) (((2 : ℕ) : ℤ) + (1 : ℕ)))
      (tableMode 2 1 1 0) := by
  intro S
  have h := S.cdf_eq 2
  have elo : max 0 (((2 : ℕ) : ℤ) - (0 : ℕ)) = 2 := by norm_num
  have eI : Icc (2 : ℤ) 2 = {2} := by ext k; simp only [mem_Icc, mem_singleton]; omega
  rw [elo, eI, Finset.sum_singleton] at h
  have hp : hpmf (tableDist 2 1 1 0) 2 = 3 / 4 := by
    have := hypergeometric_pmf_eq_rel B 4 3 3 2 (by norm_num) (by norm_num)
    simp only [Nat.cast_ofNat] at this
    show Hypergeometric.pmf (α := ℝ) ⟨(2 + 1) + (1 + 0), 2 + 1, 2 + 1⟩ 2 = 3 / 4
    norm_num
    rw [this]; unfold hyperNum; norm_num [Nat.choose]
  have hc : hcdf (tableDist 2 1 1 0) 2 > 3 / 4 := by
    show Hypergeometric.cdf (α := ℝ) ⟨(2 + 1) + (1 + 0), 2 + 1, 2 + 1⟩ 2 > 3 / 4
    unfold Hypergeometric.cdf Hypergeometric.min Hypergeometric.max usatSub
    simp only []
    norm_num [rangeList, usub]
    have l1 := L.exp_ln_binomial 3 2 (by norm_num) (by norm_num)
    have l2 := L.exp_ln_binomial 1 1 (by norm_num) (by norm_num)
    have l3 := L.exp_ln_binomial 4 3 (by norm_num) (by norm_num)
    have c1 : Nat.choose 3 2 = 3 := by decide
    have c3 : Nat.choose 4 3 = 4 := by decide
    simp only [show Int.toNat 3 = 3 from rfl, show Int.toNat 2 = 2 from rfl,
      show Int.toNat 1 = 1 from rfl, show Int.toNat 4 = 4 from rfl, c1, c3, Nat.choose_self,
      Nat.cast_ofNat, Nat.cast_one] at l1 l2 l3
    have key : Real.exp (SF.ln_binomial 3 2 + SF.ln_binomial 1 1 - SF.ln_binomial 4 3 : ℝ) = 3 / 4 := by
      rw [Real.exp_sub, Real.exp_add, l1, l2, l3]; norm_num
    rw [show Int.toNat 3 = 3 from rfl]
    simp only [List.range_succ, List.range_zero, List.nil_append, List.cons_append, List.map_cons,
      List.map_nil, List.foldl_cons, List.foldl_nil]
    norm_num
    rw [key]
    linarith [Real.exp_pos (SF.ln_binomial 3 0 + SF.ln_binomial 1 3 - SF.ln_binomial 4 3 : ℝ),
      Real.exp_pos (SF.ln_binomial 3 1 + SF.ln_binomial 1 2 - SF.ln_binomial 4 3 : ℝ)]
  rw [h, hp] at hc
  exact lt_irrefl _ hc

end assembly

/-- **`UnimodalPmfSpec.le_mode` is not implied by `BinomialChooseSpec` at `mode = 0`**: for the
    witness instance `sfWitness` (`binomial n k = C(n.toNat, k.toNat)`, which satisfies both
    premises) and the table `[[0,1],[1,5]]` (`N = 7`, `K = 1`, `n = 1`, `mode = 0`) the generated
    `pmf (−1) = C(1,0)·C(6,2)/C(7,1) = 15/7 > pmf 0 = 6/7`.  `−1` is not a `u64`: the Rust code
    never evaluates it; the structure's field is stronger than what the Fisher proofs use. -/
theorem unimodalPmfSpec_le_mode_counterexample :
    ¬ @UnimodalPmfSpec (@hpmf Statrs.Spec.sfWitness (tableDist 0 1 1 5))
      (@hcdf Statrs.Spec.sfWitness (tableDist 0 1 1 5))
      (max 0 (((0 : ℕ) : ℤ) - (5 : ℕ))) (min (((0 : ℕ) : ℤ) + (1 : ℕ)) (((0 : ℕ) : ℤ) + (1 : ℕ)))
      (tableMode 0 1 1 5) := by
  intro S
  have h := S.le_mode
  have em : tableMode 0 1 1 5 = 0 := by decide
  rw [em] at h
  norm_num [hpmf, tableDist, Hypergeometric.pmf, SF.binomial, usub, Nat.choose] at h
  rw [show Int.toNat (-1) = 0 from rfl, show Int.toNat 6 = 6 from rfl,
    show Int.toNat 2 = 2 from rfl, show Int.toNat 7 = 7 from rfl,
    show Nat.choose 6 2 = 15 from by decide, show Nat.choose 1 0 = 1 from rfl] at h
  norm_num at h

/-- non-vacuity: both premises hold for `sfWitness`, and the theorems apply to a `mode = 0` table
    and to a `mode ≥ 1` table -/
example : @BinomialChooseSpec Statrs.Spec.sfWitness ∧ @LnBinomialSpec Statrs.Spec.sfWitness :=
  ⟨binomialChooseSpec_witness, lnBinomialSpec_witness⟩

example : ∃ v, @T.fisher.fishers_exact ℝ _ _ _ _ _ _ _ _ _ _ _ _ _ Statrs.Spec.sfWitness
    [((0 : ℕ) : ℤ), (1 : ℕ), (1 : ℕ), (5 : ℕ)] Alternative.TwoSided = .ok v := by
  obtain ⟨v, h, -⟩ := @fisher_twosided_bounds_choose_rel_partial Statrs.Spec.sfWitness
    binomialChooseSpec_witness lnBinomialSpec_witness 0 1 1 5
    (by unfold zeroMargin; norm_num) (by norm_num) (by norm_num)
    (Or.inr (by rw [show tableMode ((0 : ℕ) : ℤ) (1 : ℕ) (1 : ℕ) (5 : ℕ) = 0 from by decide]; norm_num [loopFuel]))
  exact ⟨v, h⟩

end Statrs.Props.C16
