/-
  C16 (exact two-sample Kolmogorov–Smirnov p-value) — the lattice-path dynamic programme of
  `twosample_schroer_and_trenkler_twosided_pvalue` (src/stats_tests/ks_test.rs:325), as modelled
  statement for statement in `Statrs.Model.RankTests` (hand model tied to the Rust code by the
  correspondence check), carrier ℝ.

  What the code does: orders the sizes so that `m ≤ n`, sets
      d_scaled = (0.5 + ⌊d·m·n − 1e-7⌋) / (m·n),
  fills `a[x][y]`, `0 ≤ x ≤ m`, `0 ≤ y ≤ n`, with `a[0][0] = 1` (not tested against the band) and
      a[x][y] = 0                       if |x/m − y/n| > d_scaled          (“outside”)
              = a[x−1][y] + a[x][y−1]   otherwise (missing neighbours count 0),
  and returns `1 − a[m][n] / binomial(m+n, m)`.  There is NO incremental normalisation: the table
  holds raw path counts (as floats) and is divided once at the end.

  Results (`F := ⌊d·M·N − 1e-7⌋ : ℤ`):
  * `band_test_iff`  the float test `d_scaled < |x/m − y/n|` is exactly the INTEGER test
    `F < |x·n − y·m|` — the `0.5` makes the comparison of the integers `|x·n − y·m|` and `F` robust.
  * `insidePaths m n F i j` — the spec, defined by the obvious recursion on `(i,j)`
    (`insidePaths_zero_zero/zero_succ/succ_zero/succ_succ`); `row_eq`, `rows_fold`: every row the
    model computes equals the spec row (induction on cells inside a row, then on rows).
  * `insidePaths_eq_ncard` — the spec really counts monotone lattice paths `(0,0) → (i,j)` all of
    whose non-origin points are in the band.
  * `allPaths_eq_choose` — the unconstrained recursion gives `C(i+j, i)`;
    `insidePaths_le_allPaths`, `insidePaths_wide`, `insidePaths_neg_band`, `insidePaths_swap`.
  * `ks_exact_pvalue_eq` (no premise), `…_eq_rel`, `…_paths_rel`, `…_range_rel`,
    `…_near_integer_rel`, `…_large_d_rel`, `…_small_d` — the value of the model's function.
    `_rel`: relative to `BinomialSpec` (`SF.binomial n k = C(n,k)`; `SF` is abstract over ℝ).
  * `band_floor_of_near_integer`, `inBand_pred_iff_strict`: for `d·m·n` in the window
    `[L − 1 + 1e-7, L + 1e-7)` around an integer `L` (the observed statistic is `L/(m·n)`; the window
    absorbs rounding of `d·m·n`) the band is the STRICT condition `|x/m − y/n| < L/(m·n)`, so the
    result is `1 − P(D < L/(mn)) = P(D ≥ L/(mn))`.
  * `ks_exact_band_tolerance_counterexample`: the price of the `1e-7` fudge — for `d` in
    `(L, L + 1e-7)/(m·n)` the answer is the one for `L/(m·n)`, not for `d`.
-/
import Statrs.Real.Simp
import Statrs.Model.RankTests
import Statrs.Spec.SFSpec_Density
import Mathlib.Tactic
set_option linter.unusedVariables false
namespace Statrs.Props.C16
open Statrs Statrs.Gen Statrs.Model

/-! ## the spec -/

/-- the band condition on a lattice point `(i,j)`, on integers: `|i·n − j·m| ≤ F` -/
def inBand (m n : ℕ) (F : ℤ) (i j : ℕ) : Prop := |(i : ℤ) * n - (j : ℤ) * m| ≤ F

instance (m n : ℕ) (F : ℤ) (i j : ℕ) : Decidable (inBand m n F i j) := by unfold inBand; infer_instance

def rowStep (inb : ℕ → Bool) (prev : ℕ → ℕ) (first : ℕ) : ℕ → ℕ
  | 0 => first
  | j + 1 => if inb (j + 1) then prev (j + 1) + rowStep inb prev first j else 0

def insidePaths (m n : ℕ) (F : ℤ) : ℕ → ℕ → ℕ
  | 0 => rowStep (fun j => decide (inBand m n F 0 j)) (fun _ => 0) 1
  | i + 1 => rowStep (fun j => decide (inBand m n F (i + 1) j)) (insidePaths m n F i)
      (if inBand m n F (i + 1) 0 then insidePaths m n F i 0 else 0)

theorem insidePaths_zero_zero (m n : ℕ) (F : ℤ) : insidePaths m n F 0 0 = 1 := rfl
theorem insidePaths_zero_succ (m n : ℕ) (F : ℤ) (j : ℕ) :
    insidePaths m n F 0 (j + 1) = if inBand m n F 0 (j + 1) then insidePaths m n F 0 j else 0 := by
  show rowStep _ _ _ (j+1) = _
  rw [rowStep]; simp; rfl
theorem insidePaths_succ_zero (m n : ℕ) (F : ℤ) (i : ℕ) :
    insidePaths m n F (i + 1) 0 = if inBand m n F (i + 1) 0 then insidePaths m n F i 0 else 0 := rfl
theorem insidePaths_succ_succ (m n : ℕ) (F : ℤ) (i j : ℕ) :
    insidePaths m n F (i + 1) (j + 1) =
      if inBand m n F (i + 1) (j + 1) then insidePaths m n F i (j + 1) + insidePaths m n F (i + 1) j else 0 := by
  show rowStep _ _ _ (j+1) = _
  rw [rowStep]; simp; rfl

/-- the band test of the code, on integers -/
theorem band_test_iff (M N : ℕ) (hM : 0 < M) (hN : 0 < N) (F : ℤ) (X k : ℕ) :
    ((0.5 : ℝ) + (F : ℝ)) / ((M : ℝ) * (N : ℝ)) < |((X : ℤ) : ℝ) / (M : ℝ) - ((k : ℤ) : ℝ) / (N : ℝ)| ↔
      ¬ inBand M N F X k := by
  have hMp : (0:ℝ) < M := by exact_mod_cast hM
  have hNp : (0:ℝ) < N := by exact_mod_cast hN
  have hMN : (0:ℝ) < (M:ℝ) * N := by positivity
  have e : |((X : ℤ) : ℝ) / (M : ℝ) - ((k : ℤ) : ℝ) / (N : ℝ)|
      = ((|(X : ℤ) * N - (k : ℤ) * M| : ℤ) : ℝ) / ((M:ℝ) * N) := by
    rw [div_sub_div _ _ hMp.ne' hNp.ne', abs_div, abs_of_pos hMN]
    push_cast
    rw [mul_comm (M:ℝ) (k:ℝ)]
  rw [e, div_lt_div_iff_of_pos_right hMN]
  unfold inBand
  rw [not_le]
  constructor
  · intro h
    by_contra hc
    have : ((|(X : ℤ) * N - (k : ℤ) * M| : ℤ) : ℝ) ≤ (F : ℝ) := by exact_mod_cast not_lt.mp hc
    push_cast at this
    norm_num at h
    linarith
  · intro h
    have : ((F + 1 : ℤ) : ℝ) ≤ ((|(X : ℤ) * N - (k : ℤ) * M| : ℤ) : ℝ) := by exact_mod_cast h
    push_cast at this
    norm_num
    linarith

/-- the DP cell as in the code -/
noncomputable def cellR (ds md nd : ℝ) (X : ℤ) (prev : Option (List ℝ)) (y : ℤ) (left : ℝ) : ℝ :=
  if X = 0 ∧ y = 0 then (1.0 : ℝ)
  else if ds < |((X : ℤ) : ℝ) / md - ((y : ℤ) : ℝ) / nd| then (0.0 : ℝ)
  else (match prev with
        | some p => listGet p y
        | none => (0.0 : ℝ)) + (if 0 < y then left else (0.0 : ℝ))

def cellSeq (c : ℤ → ℝ → ℝ) (z : ℝ) : ℕ → ℝ
  | 0 => c ((0 : ℕ) : ℤ) z
  | k + 1 => c ((k + 1 : ℕ) : ℤ) (cellSeq c z k)

theorem fold_cellSeq (c : ℤ → ℝ → ℝ) (z : ℝ) : ∀ k : ℕ,
    List.foldl (fun (acc : List ℝ × ℝ) (y : ℤ) => (acc.1 ++ [c y acc.2], c y acc.2)) (([] : List ℝ), z)
      ((List.range k).map (fun i : ℕ => (0 : ℤ) + (i : ℤ)))
    = ((List.range k).map (cellSeq c z), match k with | 0 => z | k + 1 => cellSeq c z k) := by
  intro k
  induction k with
  | zero => rfl
  | succ k ih =>
    rw [List.range_succ, List.map_append, List.foldl_append, ih, List.map_append]
    cases k with
    | zero => simp [cellSeq]
    | succ k => simp [cellSeq]

theorem row_unfold (ds md nd : ℝ) (N : ℕ) (prev : Option (List ℝ)) (X : ℕ) :
    schroer_trenkler.row md nd ds (N : ℤ) prev (X : ℤ)
      = (List.range (N + 1)).map (cellSeq (cellR ds md nd (X : ℤ) prev) (0.0 : ℝ)) := by
  unfold schroer_trenkler.row rangeList
  simp only [rfun_ofInt, rfun_abs]
  have : ((N : ℤ) + 1 - 0).toNat = N + 1 := by omega
  rw [this]
  cases prev with
  | none =>
    change (List.foldl (fun (acc : List ℝ × ℝ) (y : ℤ) =>
      (acc.1 ++ [cellR ds md nd (X : ℤ) none y acc.2], cellR ds md nd (X : ℤ) none y acc.2)) _ _).1 = _
    rw [fold_cellSeq]
  | some p =>
    change (List.foldl (fun (acc : List ℝ × ℝ) (y : ℤ) =>
      (acc.1 ++ [cellR ds md nd (X : ℤ) (some p) y acc.2], cellR ds md nd (X : ℤ) (some p) y acc.2)) _ _).1 = _
    rw [fold_cellSeq]

/-- row `X` of the spec table, `y = 0..N`, as reals -/
noncomputable def specRow (M N : ℕ) (F : ℤ) (X : ℕ) : List ℝ :=
  (List.range (N + 1)).map (fun y => (insidePaths M N F X y : ℝ))

/-- the `prev` argument the code passes when it computes row `X` -/
noncomputable def prevOf (M N : ℕ) (F : ℤ) : ℕ → Option (List ℝ)
  | 0 => none
  | X + 1 => some (specRow M N F X)

theorem listGet_specRow (M N : ℕ) (F : ℤ) (X y : ℕ) (hy : y ≤ N) :
    listGet (specRow M N F X) (y : ℤ) = (insidePaths M N F X y : ℝ) := by
  unfold listGet specRow
  rw [if_neg (by omega)]
  simp [List.getD, Nat.lt_succ_of_le hy]

theorem cellSeq_eq (M N : ℕ) (hM : 0 < M) (hN : 0 < N) (F : ℤ) (X : ℕ) : ∀ k : ℕ, k ≤ N →
    cellSeq (cellR (((0.5 : ℝ) + (F : ℝ)) / ((M : ℝ) * (N : ℝ))) (M : ℝ) (N : ℝ) (X : ℤ) (prevOf M N F X)) (0.0 : ℝ) k
      = (insidePaths M N F X k : ℝ) := by
  intro k
  induction k with
  | zero =>
    intro _
    unfold cellSeq cellR
    cases X with
    | zero => simp [insidePaths_zero_zero]; norm_num
    | succ X' =>
      rw [if_neg (by omega), insidePaths_succ_zero]
      have hb := band_test_iff M N hM hN F (X' + 1) 0
      by_cases hin : inBand M N F (X' + 1) 0
      · rw [if_neg (by rw [hb]; exact not_not.mpr hin), if_pos hin]
        simp only [prevOf]
        rw [listGet_specRow M N F X' 0 (Nat.zero_le _)]
        norm_num
      · rw [if_pos (hb.mpr hin), if_neg hin]; norm_num
  | succ k ih =>
    intro hk
    have ih' := ih (by omega)
    unfold cellSeq
    rw [ih']
    unfold cellR
    rw [if_neg (by omega)]
    have hb := band_test_iff M N hM hN F X (k + 1)
    cases X with
    | zero =>
      rw [insidePaths_zero_succ]
      by_cases hin : inBand M N F 0 (k + 1)
      · rw [if_neg (by rw [hb]; exact not_not.mpr hin), if_pos hin, if_pos (by omega)]
        simp only [prevOf]; norm_num
      · rw [if_pos (hb.mpr hin), if_neg hin]; norm_num
    | succ X' =>
      rw [insidePaths_succ_succ]
      by_cases hin : inBand M N F (X' + 1) (k + 1)
      · rw [if_neg (by rw [hb]; exact not_not.mpr hin), if_pos hin, if_pos (by omega)]
        simp only [prevOf]
        rw [listGet_specRow M N F X' (k + 1) hk]
        push_cast; ring
      · rw [if_pos (hb.mpr hin), if_neg hin]; norm_num

theorem row_eq (M N : ℕ) (hM : 0 < M) (hN : 0 < N) (F : ℤ) (X : ℕ) :
    schroer_trenkler.row (M : ℝ) (N : ℝ) (((0.5 : ℝ) + (F : ℝ)) / ((M : ℝ) * (N : ℝ))) (N : ℤ) (prevOf M N F X) (X : ℤ)
      = specRow M N F X := by
  rw [row_unfold]
  unfold specRow
  apply List.map_congr_left
  intro y hy
  exact cellSeq_eq M N hM hN F X y (by have := List.mem_range.mp hy; omega)

theorem rows_fold (M N : ℕ) (hM : 0 < M) (hN : 0 < N) (F : ℤ) : ∀ k : ℕ,
    List.foldl (fun (prev : Option (List ℝ)) (x : ℤ) =>
        some (schroer_trenkler.row (M : ℝ) (N : ℝ) (((0.5 : ℝ) + (F : ℝ)) / ((M : ℝ) * (N : ℝ))) (N : ℤ) prev x))
      none ((List.range k).map (fun i : ℕ => (0 : ℤ) + (i : ℤ)))
    = prevOf M N F k := by
  intro k
  induction k with
  | zero => rfl
  | succ k ih =>
    rw [List.range_succ, List.map_append, List.foldl_append, ih]
    simp only [List.map_cons, List.map_nil, List.foldl_cons, List.foldl_nil, zero_add]
    rw [row_eq M N hM hN F k]
    rfl


/-! ## the spec counts real paths -/

/-- all band-respecting monotone paths from (0,0) to (i,j), each stored with its LAST step first
    (`true` = a step in the first coordinate) -/
def pathsTo (m n : ℕ) (F : ℤ) : ℕ → ℕ → List (List Bool)
  | 0, 0 => [[]]
  | 0, j + 1 => if inBand m n F 0 (j + 1) then (pathsTo m n F 0 j).map (false :: ·) else []
  | i + 1, 0 => if inBand m n F (i + 1) 0 then (pathsTo m n F i 0).map (true :: ·) else []
  | i + 1, j + 1 => if inBand m n F (i + 1) (j + 1)
      then (pathsTo m n F i (j + 1)).map (true :: ·) ++ (pathsTo m n F (i + 1) j).map (false :: ·) else []

def validPath (m n : ℕ) (F : ℤ) : List Bool → Prop
  | [] => True
  | b :: l => inBand m n F ((b :: l).count true) ((b :: l).count false) ∧ validPath m n F l

theorem mem_pathsTo (m n : ℕ) (F : ℤ) : ∀ (s i j : ℕ), i + j = s → ∀ l : List Bool,
    l ∈ pathsTo m n F i j ↔ l.count true = i ∧ l.count false = j ∧ validPath m n F l := by
  intro s
  induction s with
  | zero =>
    intro i j h l
    obtain ⟨rfl, rfl⟩ : i = 0 ∧ j = 0 := by omega
    rw [pathsTo]
    constructor
    · intro h; simp at h; subst h; simp [validPath]
    · rintro ⟨h1, h2, _⟩
      cases l with
      | nil => simp
      | cons b l => cases b <;> simp at h1 h2
  | succ s ih =>
    intro i j h l
    have hout : ∀ i j : ℕ, ¬ inBand m n F i j →
        ¬ (l.count true = i ∧ l.count false = j ∧ validPath m n F l) ∨ l = [] := by
      intro i j hin
      cases l with
      | nil => exact Or.inr rfl
      | cons b l' =>
        left
        rintro ⟨c1, c2, v⟩
        rw [validPath, c1, c2] at v
        exact hin v.1
    rcases i with _ | i' <;> rcases j with _ | j'
    · omega
    · rw [pathsTo]
      by_cases hin : inBand m n F 0 (j' + 1)
      · rw [if_pos hin]
        simp only [List.mem_map]
        constructor
        · rintro ⟨l', hl', rfl⟩
          obtain ⟨c1, c2, v⟩ := (ih 0 j' (by omega) l').mp hl'
          refine ⟨by simp [c1], by simp [c2], ?_⟩
          rw [validPath]; simp only [List.count_cons_self, List.count_cons_of_ne (by decide : false ≠ true), c1, c2]
          exact ⟨hin, v⟩
        · rintro ⟨c1, c2, v⟩
          cases l with
          | nil => simp at c2
          | cons b l' =>
            cases b
            · exact ⟨l', (ih 0 j' (by omega) l').mpr ⟨by simpa using c1, by simpa using c2, v.2⟩, rfl⟩
            · simp at c1
      · rw [if_neg hin]
        rcases hout 0 (j' + 1) hin with h' | h'
        · simp [h']
        · subst h'; simp
    · rw [pathsTo]
      by_cases hin : inBand m n F (i' + 1) 0
      · rw [if_pos hin]
        simp only [List.mem_map]
        constructor
        · rintro ⟨l', hl', rfl⟩
          obtain ⟨c1, c2, v⟩ := (ih i' 0 (by omega) l').mp hl'
          refine ⟨by simp [c1], by simp [c2], ?_⟩
          rw [validPath]; simp only [List.count_cons_self, List.count_cons_of_ne (by decide : true ≠ false), c1, c2]
          exact ⟨hin, v⟩
        · rintro ⟨c1, c2, v⟩
          cases l with
          | nil => simp at c1
          | cons b l' =>
            cases b
            · simp at c2
            · exact ⟨l', (ih i' 0 (by omega) l').mpr ⟨by simpa using c1, by simpa using c2, v.2⟩, rfl⟩
      · rw [if_neg hin]
        rcases hout (i' + 1) 0 hin with h' | h'
        · simp [h']
        · subst h'; simp
    · rw [pathsTo]
      by_cases hin : inBand m n F (i' + 1) (j' + 1)
      · rw [if_pos hin]
        simp only [List.mem_append, List.mem_map]
        constructor
        · rintro (⟨l', hl', rfl⟩ | ⟨l', hl', rfl⟩)
          · obtain ⟨c1, c2, v⟩ := (ih i' (j' + 1) (by omega) l').mp hl'
            refine ⟨by simp [c1], by simp [c2], ?_⟩
            rw [validPath]; simp only [List.count_cons_self, List.count_cons_of_ne (by decide : true ≠ false), c1, c2]
            exact ⟨hin, v⟩
          · obtain ⟨c1, c2, v⟩ := (ih (i' + 1) j' (by omega) l').mp hl'
            refine ⟨by simp [c1], by simp [c2], ?_⟩
            rw [validPath]; simp only [List.count_cons_self, List.count_cons_of_ne (by decide : false ≠ true), c1, c2]
            exact ⟨hin, v⟩
        · rintro ⟨c1, c2, v⟩
          cases l with
          | nil => simp at c1
          | cons b l' =>
            cases b
            · exact Or.inr ⟨l', (ih (i' + 1) j' (by omega) l').mpr ⟨by simpa using c1, by simpa using c2, v.2⟩, rfl⟩
            · exact Or.inl ⟨l', (ih i' (j' + 1) (by omega) l').mpr ⟨by simpa using c1, by simpa using c2, v.2⟩, rfl⟩
      · rw [if_neg hin]
        rcases hout (i' + 1) (j' + 1) hin with h' | h'
        · simp [h']
        · subst h'; simp


theorem pathsTo_nodup (m n : ℕ) (F : ℤ) : ∀ (s i j : ℕ), i + j = s → (pathsTo m n F i j).Nodup := by
  intro s
  induction s with
  | zero =>
    intro i j h
    obtain ⟨rfl, rfl⟩ : i = 0 ∧ j = 0 := by omega
    rw [pathsTo]; simp
  | succ s ih =>
    intro i j h
    have hinjT : Function.Injective (fun l : List Bool => true :: l) := fun a b h => by simpa using h
    have hinjF : Function.Injective (fun l : List Bool => false :: l) := fun a b h => by simpa using h
    rcases i with _ | i' <;> rcases j with _ | j'
    · omega
    · rw [pathsTo]; split_ifs
      · exact (ih 0 j' (by omega)).map hinjF
      · exact List.nodup_nil
    · rw [pathsTo]; split_ifs
      · exact (ih i' 0 (by omega)).map hinjT
      · exact List.nodup_nil
    · rw [pathsTo]; split_ifs
      · refine List.Nodup.append ((ih i' (j' + 1) (by omega)).map hinjT) ((ih (i' + 1) j' (by omega)).map hinjF) ?_
        intro l h1 h2
        obtain ⟨a, _, rfl⟩ := List.mem_map.mp h1
        obtain ⟨b, _, hb⟩ := List.mem_map.mp h2
        simp at hb
      · exact List.nodup_nil

theorem length_pathsTo (m n : ℕ) (F : ℤ) : ∀ i j : ℕ, (pathsTo m n F i j).length = insidePaths m n F i j := by
  intro i
  induction i with
  | zero =>
    intro j
    induction j with
    | zero => rw [pathsTo, insidePaths_zero_zero]; rfl
    | succ j ihj => rw [pathsTo, insidePaths_zero_succ]; split_ifs <;> simp [ihj]
  | succ i ihi =>
    intro j
    induction j with
    | zero => rw [pathsTo, insidePaths_succ_zero]; split_ifs <;> simp [ihi]
    | succ j ihj => rw [pathsTo, insidePaths_succ_succ]; split_ifs <;> simp [ihi, ihj]

/-- `insidePaths m n F i j` IS the number of monotone lattice paths from `(0,0)` to `(i,j)` all of
    whose points other than the origin satisfy the band condition `|x·n − y·m| ≤ F`. -/
theorem insidePaths_eq_ncard (m n : ℕ) (F : ℤ) (i j : ℕ) :
    Set.ncard {l : List Bool | l.count true = i ∧ l.count false = j ∧ validPath m n F l} = insidePaths m n F i j := by
  have : {l : List Bool | l.count true = i ∧ l.count false = j ∧ validPath m n F l}
      = ((pathsTo m n F i j).toFinset : Set (List Bool)) := by
    ext l
    rw [List.coe_toFinset]
    exact (mem_pathsTo m n F (i + j) i j rfl l).symm
  rw [this, Set.ncard_coe_finset, List.toFinset_card_of_nodup (pathsTo_nodup m n F (i + j) i j rfl),
    length_pathsTo]

/-! ## the unconstrained recursion counts all paths: `C(i+j, i)` -/

/-- the same recursion without the band test -/
def allPaths : ℕ → ℕ → ℕ
  | 0 => rowStep (fun _ => true) (fun _ => 0) 1
  | i + 1 => rowStep (fun _ => true) (allPaths i) (allPaths i 0)

theorem allPaths_zero_zero : allPaths 0 0 = 1 := rfl
theorem allPaths_zero_succ (j : ℕ) : allPaths 0 (j + 1) = allPaths 0 j := by
  show rowStep _ _ _ (j + 1) = _
  rw [rowStep]; simp; rfl
theorem allPaths_succ_zero (i : ℕ) : allPaths (i + 1) 0 = allPaths i 0 := rfl
theorem allPaths_succ_succ (i j : ℕ) : allPaths (i + 1) (j + 1) = allPaths i (j + 1) + allPaths (i + 1) j := by
  show rowStep _ _ _ (j + 1) = _
  rw [rowStep]; simp; rfl

/-- `#all monotone paths (0,0) → (i,j) = C(i+j, i)` -/
theorem allPaths_eq_choose : ∀ i j : ℕ, allPaths i j = (i + j).choose i := by
  intro i
  induction i with
  | zero =>
    intro j
    induction j with
    | zero => rfl
    | succ j ihj => rw [allPaths_zero_succ, ihj]; simp
  | succ i ihi =>
    intro j
    induction j with
    | zero => rw [allPaths_succ_zero, ihi]; simp
    | succ j ihj =>
      rw [allPaths_succ_succ, ihi, ihj]
      rw [show i + 1 + (j + 1) = (i + j + 1) + 1 by ring, Nat.choose_succ_succ,
        show i + (j + 1) = i + j + 1 by ring, show i + 1 + j = i + j + 1 by ring]

theorem insidePaths_le_allPaths (m n : ℕ) (F : ℤ) : ∀ i j : ℕ, insidePaths m n F i j ≤ allPaths i j := by
  intro i
  induction i with
  | zero =>
    intro j
    induction j with
    | zero => exact le_rfl
    | succ j ihj => rw [insidePaths_zero_succ, allPaths_zero_succ]; split_ifs <;> omega
  | succ i ihi =>
    intro j
    induction j with
    | zero => rw [insidePaths_succ_zero, allPaths_succ_zero]; split_ifs <;> [exact ihi 0; omega]
    | succ j ihj =>
      rw [insidePaths_succ_succ, allPaths_succ_succ]
      have := ihi (j + 1)
      split_ifs <;> omega

/-- if every lattice point of the rectangle `[0,i]×[0,j]` is in the band, nothing is cut -/
theorem insidePaths_eq_allPaths_of_wide (m n : ℕ) (F : ℤ) : ∀ i j : ℕ,
    (∀ i' j' : ℕ, i' ≤ i → j' ≤ j → inBand m n F i' j') → insidePaths m n F i j = allPaths i j := by
  intro i
  induction i with
  | zero =>
    intro j
    induction j with
    | zero => intro _; rfl
    | succ j ihj =>
      intro h
      rw [insidePaths_zero_succ, allPaths_zero_succ, if_pos (h 0 (j + 1) le_rfl le_rfl),
        ihj (fun i' j' hi hj => h i' j' hi (by omega))]
  | succ i ihi =>
    intro j
    induction j with
    | zero =>
      intro h
      rw [insidePaths_succ_zero, allPaths_succ_zero, if_pos (h (i + 1) 0 le_rfl le_rfl),
        ihi 0 (fun i' j' hi hj => h i' j' (by omega) hj)]
    | succ j ihj =>
      intro h
      rw [insidePaths_succ_succ, allPaths_succ_succ, if_pos (h (i + 1) (j + 1) le_rfl le_rfl),
        ihi (j + 1) (fun i' j' hi hj => h i' j' (by omega) hj),
        ihj (fun i' j' hi hj => h i' j' hi (by omega))]

/-- band at least `m·n` wide: all `C(m+n, m)` paths to `(m,n)` are inside -/
theorem insidePaths_wide (m n : ℕ) (F : ℤ) (hF : (m : ℤ) * n ≤ F) : insidePaths m n F m n = (m + n).choose m := by
  rw [insidePaths_eq_allPaths_of_wide m n F m n, allPaths_eq_choose]
  intro i' j' hi hj
  unfold inBand
  have h1 : (i' : ℤ) * n ≤ (m : ℤ) * n := mul_le_mul_of_nonneg_right (by exact_mod_cast hi) (by positivity)
  have h2 : (j' : ℤ) * m ≤ (n : ℤ) * m := mul_le_mul_of_nonneg_right (by exact_mod_cast hj) (by positivity)
  have h3 : (0 : ℤ) ≤ (i' : ℤ) * n := by positivity
  have h4 : (0 : ℤ) ≤ (j' : ℤ) * m := by positivity
  rw [abs_le]
  constructor <;> nlinarith

/-- negative band (what `d ≤ 0` produces): no path reaches any point other than the origin -/
theorem insidePaths_neg_band (m n : ℕ) (F : ℤ) (hF : F < 0) (i j : ℕ) (hij : 0 < i + j) :
    insidePaths m n F i j = 0 := by
  have hout : ∀ i j : ℕ, ¬ inBand m n F i j := fun i j h => by
    unfold inBand at h
    have := abs_nonneg ((i : ℤ) * n - (j : ℤ) * m)
    omega
  rcases i with _ | i <;> rcases j with _ | j
  · omega
  · rw [insidePaths_zero_succ, if_neg (hout _ _)]
  · rw [insidePaths_succ_zero, if_neg (hout _ _)]
  · rw [insidePaths_succ_succ, if_neg (hout _ _)]

/-! ## exchanging the roles of the two samples -/

theorem inBand_swap (m n : ℕ) (F : ℤ) (i j : ℕ) : inBand m n F i j ↔ inBand n m F j i := by
  unfold inBand; rw [abs_sub_comm]

theorem insidePaths_swap (m n : ℕ) (F : ℤ) : ∀ i j : ℕ, insidePaths m n F i j = insidePaths n m F j i := by
  intro i
  induction i with
  | zero =>
    intro j
    induction j with
    | zero => rfl
    | succ j ihj =>
      rw [insidePaths_zero_succ, insidePaths_succ_zero, ihj]
      by_cases h : inBand m n F 0 (j + 1)
      · rw [if_pos h, if_pos ((inBand_swap m n F 0 (j + 1)).mp h)]
      · rw [if_neg h, if_neg (fun h' => h ((inBand_swap m n F 0 (j + 1)).mpr h'))]
  | succ i ihi =>
    intro j
    induction j with
    | zero =>
      rw [insidePaths_succ_zero, insidePaths_zero_succ, ihi 0]
      by_cases h : inBand m n F (i + 1) 0
      · rw [if_pos h, if_pos ((inBand_swap m n F (i + 1) 0).mp h)]
      · rw [if_neg h, if_neg (fun h' => h ((inBand_swap m n F (i + 1) 0).mpr h'))]
    | succ j ihj =>
      rw [insidePaths_succ_succ, insidePaths_succ_succ, ihi (j + 1), ihj, add_comm (insidePaths n m F (j + 1) i)]
      by_cases h : inBand m n F (i + 1) (j + 1)
      · rw [if_pos h, if_pos ((inBand_swap m n F (i + 1) (j + 1)).mp h)]
      · rw [if_neg h, if_neg (fun h' => h ((inBand_swap m n F (i + 1) (j + 1)).mpr h'))]

/-! ## what the integer band means in terms of `d` -/

/-- the rounding fudge: for `d·m·n` in the window `[L − 1 + 1e-7, L + 1e-7)` around an integer `L`
    the code uses the band `|x·n − y·m| ≤ L − 1` -/
theorem band_floor_of_near_integer (x : ℝ) (L : ℤ) (h1 : (L : ℝ) - 1 + (1e-7 : ℝ) ≤ x) (h2 : x < (L : ℝ) + (1e-7 : ℝ)) :
    ⌊x - (1e-7 : ℝ)⌋ = L - 1 := by
  rw [Int.floor_eq_iff]
  push_cast
  constructor <;> linarith

/-- …and `|x·n − y·m| ≤ L − 1` is the STRICT condition `|x/m − y/n| < L/(m·n)` -/
theorem inBand_pred_iff_strict (M N : ℕ) (hM : 0 < M) (hN : 0 < N) (L : ℤ) (X k : ℕ) :
    inBand M N (L - 1) X k ↔ |(X : ℝ) / (M : ℝ) - (k : ℝ) / (N : ℝ)| < (L : ℝ) / ((M : ℝ) * (N : ℝ)) := by
  have hMp : (0:ℝ) < M := by exact_mod_cast hM
  have hNp : (0:ℝ) < N := by exact_mod_cast hN
  have hMN : (0:ℝ) < (M:ℝ) * N := by positivity
  have e : |(X : ℝ) / (M : ℝ) - (k : ℝ) / (N : ℝ)|
      = ((|(X : ℤ) * N - (k : ℤ) * M| : ℤ) : ℝ) / ((M:ℝ) * N) := by
    rw [div_sub_div _ _ hMp.ne' hNp.ne', abs_div, abs_of_pos hMN]
    push_cast
    rw [mul_comm (M:ℝ) (k:ℝ)]
  rw [e, div_lt_div_iff_of_pos_right hMN]
  unfold inBand
  constructor
  · intro h
    have : |(X : ℤ) * N - (k : ℤ) * M| < L := by omega
    exact_mod_cast this
  · intro h
    have : |(X : ℤ) * N - (k : ℤ) * M| < L := by exact_mod_cast h
    omega

variable [SF ℝ]

theorem ks_core (M N : ℕ) (hM : 0 < M) (hN : 0 < N) (d : ℝ) (hMN : M ≤ N) :
    twosample_schroer_and_trenkler_twosided_pvalue (α := ℝ) d (M : ℤ) (N : ℤ) =
      1 - (insidePaths M N ⌊d * (M : ℝ) * (N : ℝ) - (1e-7 : ℝ)⌋ M N : ℝ) / SF.binomial ((M : ℤ) + (N : ℤ)) (M : ℤ) := by
  unfold twosample_schroer_and_trenkler_twosided_pvalue
  rw [if_neg (by omega)]
  simp only [rfun_ofInt, rfun_floor, Int.cast_natCast]
  have hr : rangeList 0 ((M : ℤ) + 1) = (List.range (M + 1)).map (fun i : ℕ => (0 : ℤ) + (i : ℤ)) := by
    unfold rangeList
    rw [show ((M : ℤ) + 1 - 0).toNat = M + 1 by omega]
  rw [hr, rows_fold M N hM hN]
  simp only [prevOf]
  rw [listGet_specRow M N _ M N le_rfl]
  norm_num

/-- the model first orders the sizes (`if m > n { (n, m) }`): it is symmetric in `(m, n)` -/
theorem ks_model_symm (d : ℝ) (m n : ℤ) :
    twosample_schroer_and_trenkler_twosided_pvalue (α := ℝ) d m n =
      twosample_schroer_and_trenkler_twosided_pvalue (α := ℝ) d n m := by
  unfold twosample_schroer_and_trenkler_twosided_pvalue
  rcases lt_trichotomy m n with h | h | h
  · rw [if_neg (not_lt.mpr h.le), if_pos h]
  · subst h; rfl
  · rw [if_pos h, if_neg (not_lt.mpr h.le)]

/-- MAIN (no premise): for sample sizes `M, N ≥ 1` and every real `d` the model's p-value is
    `1 − insidePaths / binomial(min+max, min)` with the band `|x·N − y·M| ≤ ⌊d·M·N − 1e-7⌋`;
    `binomial` is the crate's (abstract over ℝ) `factorial::binomial`. -/
theorem ks_exact_pvalue_eq (M N : ℕ) (hM : 0 < M) (hN : 0 < N) (d : ℝ) :
    twosample_schroer_and_trenkler_twosided_pvalue (α := ℝ) d (M : ℤ) (N : ℤ) =
      1 - (insidePaths M N ⌊d * (M : ℝ) * (N : ℝ) - (1e-7 : ℝ)⌋ M N : ℝ) /
        SF.binomial (((min M N : ℕ) : ℤ) + ((max M N : ℕ) : ℤ)) ((min M N : ℕ) : ℤ) := by
  rcases le_or_gt M N with h | h
  · rw [ks_core M N hM hN d h, min_eq_left h, max_eq_right h]
  · rw [ks_model_symm, ks_core N M hN hM d h.le, min_eq_right h.le, max_eq_left h.le,
      insidePaths_swap N M _ N M, show d * (N : ℝ) * (M : ℝ) = d * (M : ℝ) * (N : ℝ) by ring]

/-- premise on the abstract `SF.binomial`: it is the binomial coefficient on the triangle -/
structure BinomialSpec : Prop where
  binomial_eq : ∀ n k : ℕ, k ≤ n → (SF.binomial (n : ℤ) (k : ℤ) : ℝ) = (n.choose k : ℝ)

omit [SF ℝ] in
/-- the premise is satisfiable: the witness instance of `SFSpec_Density` has `binomial = choose` -/
theorem binomialSpec_witness : @BinomialSpec Statrs.Spec.sfWitness := by
  refine @BinomialSpec.mk Statrs.Spec.sfWitness ?_
  intro n k _
  show ((Nat.choose (n : ℤ).toNat (k : ℤ).toNat : ℕ) : ℝ) = _
  simp

/-- relative to `BinomialSpec`: `p = 1 − #inside-paths / C(M+N, M)` -/
theorem ks_exact_pvalue_eq_rel (B : BinomialSpec) (M N : ℕ) (hM : 0 < M) (hN : 0 < N) (d : ℝ) :
    twosample_schroer_and_trenkler_twosided_pvalue (α := ℝ) d (M : ℤ) (N : ℤ) =
      1 - (insidePaths M N ⌊d * (M : ℝ) * (N : ℝ) - (1e-7 : ℝ)⌋ M N : ℝ) / ((M + N).choose M : ℝ) := by
  rw [ks_exact_pvalue_eq M N hM hN d]
  have : SF.binomial (((min M N : ℕ) : ℤ) + ((max M N : ℕ) : ℤ)) ((min M N : ℕ) : ℤ) = ((M + N).choose M : ℝ) := by
    have e : ((min M N : ℕ) : ℤ) + ((max M N : ℕ) : ℤ) = ((min M N + max M N : ℕ) : ℤ) := by push_cast; rfl
    rw [e, B.binomial_eq _ _ (Nat.le_add_right _ _), min_add_max]
    rcases le_total M N with h | h
    · rw [min_eq_left h]
    · rw [min_eq_right h, add_comm M N, Nat.choose_symm_add]
  rw [this]

/-- …in terms of actual lattice paths: the number of monotone paths `(0,0) → (M,N)` (lists of
    `M` x-steps `true` and `N` y-steps `false`, last step first) every non-origin point `(x,y)` of
    which satisfies `|x·N − y·M| ≤ ⌊d·M·N − 1e-7⌋` -/
theorem ks_exact_pvalue_paths_rel (B : BinomialSpec) (M N : ℕ) (hM : 0 < M) (hN : 0 < N) (d : ℝ) :
    twosample_schroer_and_trenkler_twosided_pvalue (α := ℝ) d (M : ℤ) (N : ℤ) =
      1 - (Set.ncard {l : List Bool | l.count true = M ∧ l.count false = N ∧
              validPath M N ⌊d * (M : ℝ) * (N : ℝ) - (1e-7 : ℝ)⌋ l} : ℝ) / ((M + N).choose M : ℝ) := by
  rw [ks_exact_pvalue_eq_rel B M N hM hN d, insidePaths_eq_ncard]

/-- the p-value is a probability -/
theorem ks_exact_pvalue_range_rel (B : BinomialSpec) (M N : ℕ) (hM : 0 < M) (hN : 0 < N) (d : ℝ) :
    0 ≤ twosample_schroer_and_trenkler_twosided_pvalue (α := ℝ) d (M : ℤ) (N : ℤ) ∧
      twosample_schroer_and_trenkler_twosided_pvalue (α := ℝ) d (M : ℤ) (N : ℤ) ≤ 1 := by
  rw [ks_exact_pvalue_eq_rel B M N hM hN d]
  have hc : (0 : ℝ) < ((M + N).choose M : ℝ) := by exact_mod_cast Nat.choose_pos (Nat.le_add_right _ _)
  have hle : (insidePaths M N ⌊d * (M : ℝ) * (N : ℝ) - (1e-7 : ℝ)⌋ M N : ℝ) ≤ ((M + N).choose M : ℝ) := by
    have := insidePaths_le_allPaths M N ⌊d * (M : ℝ) * (N : ℝ) - (1e-7 : ℝ)⌋ M N
    rw [allPaths_eq_choose] at this
    exact_mod_cast this
  have h0 : (0 : ℝ) ≤ (insidePaths M N ⌊d * (M : ℝ) * (N : ℝ) - (1e-7 : ℝ)⌋ M N : ℝ) := by positivity
  constructor
  · rw [sub_nonneg, div_le_one hc]; exact hle
  · have := div_nonneg h0 hc.le; linarith

/-- window around an attainable statistic `L/(M·N)`: band `L − 1`, i.e. STRICTLY inside
    `|x/M − y/N| < L/(M·N)` (see `inBand_pred_iff_strict`) -/
theorem ks_exact_pvalue_near_integer_rel (B : BinomialSpec) (M N : ℕ) (hM : 0 < M) (hN : 0 < N) (d : ℝ) (L : ℤ)
    (h1 : (L : ℝ) - 1 + (1e-7 : ℝ) ≤ d * (M : ℝ) * (N : ℝ)) (h2 : d * (M : ℝ) * (N : ℝ) < (L : ℝ) + (1e-7 : ℝ)) :
    twosample_schroer_and_trenkler_twosided_pvalue (α := ℝ) d (M : ℤ) (N : ℤ) =
      1 - (insidePaths M N (L - 1) M N : ℝ) / ((M + N).choose M : ℝ) := by
  rw [ks_exact_pvalue_eq_rel B M N hM hN d, band_floor_of_near_integer _ L h1 h2]

/-- `d·M·N ≥ M·N + 1e-7` (`d` beyond the largest possible distance 1): nothing is cut, `p = 0` -/
theorem ks_exact_pvalue_large_d_rel (B : BinomialSpec) (M N : ℕ) (hM : 0 < M) (hN : 0 < N) (d : ℝ)
    (hd : (M : ℝ) * (N : ℝ) + (1e-7 : ℝ) ≤ d * (M : ℝ) * (N : ℝ)) :
    twosample_schroer_and_trenkler_twosided_pvalue (α := ℝ) d (M : ℤ) (N : ℤ) = 0 := by
  rw [ks_exact_pvalue_eq_rel B M N hM hN d, insidePaths_wide]
  · have hc : (0 : ℝ) < ((M + N).choose M : ℝ) := by exact_mod_cast Nat.choose_pos (Nat.le_add_right _ _)
    rw [div_self hc.ne']; norm_num
  · rw [Int.le_floor]; push_cast; linarith

/-- `d·M·N < 1e-7` (in particular `d ≤ 0`): the band is negative, no path survives, `p = 1`
    — whatever `binomial` returns -/
theorem ks_exact_pvalue_small_d (M N : ℕ) (hM : 0 < M) (hN : 0 < N) (d : ℝ)
    (hd : d * (M : ℝ) * (N : ℝ) < (1e-7 : ℝ)) :
    twosample_schroer_and_trenkler_twosided_pvalue (α := ℝ) d (M : ℤ) (N : ℤ) = 1 := by
  rw [ks_exact_pvalue_eq M N hM hN d, insidePaths_neg_band _ _ _ _ M N (by omega)]
  · simp
  · rw [Int.floor_lt]; push_cast; linarith

/-- TOLERANCE WITNESS.  "`p = 1 − #{paths with |x/M − y/N| < d at every point} / C(M+N,M)`" is false
    just above an attainable value: `M = N = 1`, `d = 1 + 5e-8`.  Every point of both paths has
    `|x − y| ≤ 1 < d`, so that formula gives `0`, but `⌊d − 1e-7⌋ = 0` cuts `(1,0)` and `(0,1)` and
    the code returns `1` (it answers for the attainable value `d = 1` below). -/
theorem ks_exact_band_tolerance_counterexample :
    twosample_schroer_and_trenkler_twosided_pvalue (α := ℝ) (1 + 5e-8) ((1 : ℕ) : ℤ) ((1 : ℕ) : ℤ) = 1 ∧
      ∀ x y : ℕ, x ≤ 1 → y ≤ 1 → |(x : ℝ) / ((1 : ℕ) : ℝ) - (y : ℝ) / ((1 : ℕ) : ℝ)| < 1 + 5e-8 := by
  constructor
  · rw [ks_exact_pvalue_eq 1 1 (by norm_num) (by norm_num)]
    have : ⌊(1 + 5e-8 : ℝ) * ((1 : ℕ) : ℝ) * ((1 : ℕ) : ℝ) - (1e-7 : ℝ)⌋ = 0 := by
      rw [Int.floor_eq_iff]; norm_num
    rw [this]
    have : insidePaths 1 1 0 1 1 = 0 := by decide
    rw [this]; simp
  · intro x y hx hy
    interval_cases x <;> interval_cases y <;> norm_num

/-! ## non-vacuity / small instances -/

example : insidePaths 2 2 3 2 2 = 4 := by decide
example : insidePaths 2 3 3 2 3 = 4 := by decide
example : insidePaths 3 4 12 3 4 = 35 ∧ (3 + 4).choose 3 = 35 := by decide
example : allPaths 3 4 = 35 := by decide

/-- `m = n = 2`, observed `d = 1`: band `|2x − 2y| ≤ 3`, 4 of the 6 paths stay inside, `p = 1/3` -/
example (B : BinomialSpec) :
    twosample_schroer_and_trenkler_twosided_pvalue (α := ℝ) 1 ((2 : ℕ) : ℤ) ((2 : ℕ) : ℤ) = 1 / 3 := by
  rw [ks_exact_pvalue_near_integer_rel B 2 2 (by norm_num) (by norm_num) 1 4 (by norm_num) (by norm_num)]
  have h1 : insidePaths 2 2 (4 - 1) 2 2 = 4 := by decide
  have h2 : (2 + 2).choose 2 = 6 := by decide
  rw [h1, h2]; norm_num

end Statrs.Props.C16
