/-
  C16 — Mann–Whitney, exact method: `calc_mwu_exact_pvalue(u, n1, n2)`.

  Structure (every carrier `α`, every input): with `k = min n1 n2`, the loop enumerates
  combinations of `k` positions out of `n1 + n2`, counts in `numerator` those whose
  `u_generic = Σ ranks − k(k+1)/2` satisfies `u ≤ u_generic`, counts all of them in `total`, and
  returns `numerator/total` if `k ≠ n1` but `1 − numerator/total` if `k = n1`
  (`calc_mwu_exact_structure`, `mCount_eq_visited`).  That every `k`-subset is visited exactly once
  is checked exhaustively for all sample sizes with `n1 + n2 ≤ 9` in `MannWhitneyEnum.lean`.

  FINDING (`…_counterexample`): the `k = n1` branch (i.e. `len(x) ≤ len(y)`) returns ONE MINUS the
  exact permutation tail `P(U ≥ u)`.  Pinned by the crate's own unit test
  `test_calc_mwu_exact_pvalue` (`calc(4.0, 2, 3) = 0.6`, `calc(4.0, 3, 2) = 0.4`): the null law of
  `U` is the same for (2,3) and (3,2) and `P(U ≥ 4) = 4/10` in both.  Smallest witness:
  `calc(0, 1, 1) = 0` although `P(U ≥ 0) = 1`.  Consequently the value is NOT symmetric in the
  roles of the two samples where the null distribution is.
-/
import Statrs.Lemmas.TestsMWU
namespace Statrs.Props.C16
open Statrs Statrs.Gen Statrs.Lemmas.TestsMWU
open Spec.Tests

section
variable {α : Type} [Add α] [Sub α] [Mul α] [Div α] [Neg α] [LT α] [LE α] [BEq α]
  [DecidableLT α] [DecidableLE α] [OfScientific α] [Inhabited α] [RFun α]

/-- branch structure: `numerator/total` is computed by the carrier-free enumeration `mCount` with the
    test `u ≤ (U as f64)`; the value returned is `1 − numerator/total` exactly when `min n1 n2 = n1`
    (and the `panic` value if the enumeration runs out of the 20000-iteration fuel) -/
theorem mwu_exact_structure (u : α) (n1 n2 : ℤ) :
    T.mannwhitneyu.calc_mwu_exact_pvalue (α := α) u n1 n2
      = match mCount (fun U => decide (u ≤ (RFun.ofInt U : α))) n1 n2 with
        | none => panicV
        | some (num, tot) =>
          if Min.min n1 n2 = n1 then (1.0 : α) - (RFun.ofInt num : α) / (RFun.ofInt tot : α)
          else (RFun.ofInt num : α) / (RFun.ofInt tot : α) :=
  calc_mwu_exact_structure u n1 n2

end

/-- `numerator` = number of visited combinations passing the test, `total` = number visited -/
theorem mCount_eq_visited (P : ℤ → Bool) (n1 n2 : ℤ) :
    mCount P n1 n2
      = (mVisited (Min.min n1 n2) (n1 + n2) loopFuel (rangeList 0 (n1 + n2))).map
          (fun us => ((us.countP P : ℤ), (us.length : ℤ))) := by
  unfold mCount
  rw [mLoop_visited]
  congr 1; funext us; simp

/-! ### the defect of the `len(x) ≤ len(y)` branch -/

/-- exact permutation tails (brute force over all subsets of ranks) -/
theorem mwuUpperTail_4_2_3 : mwuUpperTail 4 2 3 = 4 / 10 := by
  have := mwuUpperTail_int 4 2 3
  rw [show ((4:ℤ):ℝ) = 4 by norm_num] at this
  rw [this, show (((Finset.Icc 1 (2 + 3)).powersetCard 2).filter
    (fun S => (4:ℤ) ≤ uOfRanks S)).card = 4 by decide]
  norm_num [Nat.choose]

theorem mwuUpperTail_4_3_2 : mwuUpperTail 4 3 2 = 4 / 10 := by
  have := mwuUpperTail_int 4 3 2
  rw [show ((4:ℤ):ℝ) = 4 by norm_num] at this
  rw [this, show (((Finset.Icc 1 (3 + 2)).powersetCard 3).filter
    (fun S => (4:ℤ) ≤ uOfRanks S)).card = 4 by decide]
  norm_num [Nat.choose]

theorem mwuUpperTail_0_1_1 : mwuUpperTail 0 1 1 = 1 := by
  have := mwuUpperTail_int 0 1 1
  rw [show ((0:ℤ):ℝ) = 0 by norm_num] at this
  rw [this, show (((Finset.Icc 1 (1 + 1)).powersetCard 1).filter
    (fun S => (0:ℤ) ≤ uOfRanks S)).card = 2 by decide]
  norm_num [Nat.choose]

/-- the model's values on the unit test's inputs (the unit test asserts exactly these) -/
theorem mwu_exact_4_2_3 : T.mannwhitneyu.calc_mwu_exact_pvalue (α := ℝ) 4 2 3 = 6 / 10 := by
  rw [calc_mwu_exact_structure]
  have := real_pred 4
  rw [show ((4:ℤ):ℝ) = 4 by norm_num] at this
  rw [this, show mCount (fun U => decide (4 ≤ U)) 2 3 = some (4, 10) by decide]
  norm_num

theorem mwu_exact_4_3_2 : T.mannwhitneyu.calc_mwu_exact_pvalue (α := ℝ) 4 3 2 = 4 / 10 := by
  rw [calc_mwu_exact_structure]
  have := real_pred 4
  rw [show ((4:ℤ):ℝ) = 4 by norm_num] at this
  rw [this, show mCount (fun U => decide (4 ≤ U)) 3 2 = some (4, 10) by decide]
  norm_num

theorem mwu_exact_0_1_1 : T.mannwhitneyu.calc_mwu_exact_pvalue (α := ℝ) 0 1 1 = 0 := by
  rw [calc_mwu_exact_structure]
  have := real_pred 0
  rw [show ((0:ℤ):ℝ) = 0 by norm_num] at this
  rw [this, show mCount (fun U => decide (0 ≤ U)) 1 1 = some (2, 2) by decide]
  norm_num

/-- `len(x) > len(y)`: the value IS the exact tail on this input -/
theorem mwu_exact_4_3_2_correct :
    T.mannwhitneyu.calc_mwu_exact_pvalue (α := ℝ) 4 3 2 = mwuUpperTail 4 3 2 := by
  rw [mwu_exact_4_3_2, mwuUpperTail_4_3_2]

/-- `len(x) ≤ len(y)`: the value is NOT the exact permutation tail (it is one minus it) -/
theorem mwu_exact_counterexample :
    T.mannwhitneyu.calc_mwu_exact_pvalue (α := ℝ) 4 2 3 ≠ mwuUpperTail 4 2 3
    ∧ T.mannwhitneyu.calc_mwu_exact_pvalue (α := ℝ) 4 2 3 = 1 - mwuUpperTail 4 2 3 := by
  rw [mwu_exact_4_2_3, mwuUpperTail_4_2_3]; constructor <;> norm_num

/-- smallest witness: one observation each, `u = 0`: every arrangement has `U ≥ 0`, the exact tail
    is 1, the function returns 0 -/
theorem mwu_exact_one_one_counterexample :
    T.mannwhitneyu.calc_mwu_exact_pvalue (α := ℝ) 0 1 1 = 0 ∧ mwuUpperTail 0 1 1 = 1 :=
  ⟨mwu_exact_0_1_1, mwuUpperTail_0_1_1⟩

/-- not symmetric in the roles of the two samples although the null law of `U` is -/
theorem mwu_exact_symmetry_counterexample :
    mwuUpperTail 4 2 3 = mwuUpperTail 4 3 2
    ∧ T.mannwhitneyu.calc_mwu_exact_pvalue (α := ℝ) 4 2 3
        ≠ T.mannwhitneyu.calc_mwu_exact_pvalue (α := ℝ) 4 3 2 := by
  rw [mwu_exact_4_2_3, mwu_exact_4_3_2, mwuUpperTail_4_2_3, mwuUpperTail_4_3_2]
  constructor <;> norm_num

end Statrs.Props.C16
