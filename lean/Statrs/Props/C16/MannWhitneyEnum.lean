/-
  C16 — Mann–Whitney exact method: the non-recursive "next combination" loop of
  `calc_mwu_exact_pvalue` visits every `k`-subset (`k = min n1 n2`) of the `n1 + n2` positions
  exactly once — checked EXHAUSTIVELY (kernel evaluation of the carrier-free mirror, which is proved
  equal to the generated loop for every carrier) for all sample sizes `n1, n2 ≥ 1`, `n1 + n2 ≤ 9`.
  `partial`: no proof for larger sizes (and for `C(n1+n2, k) > 20000` the model's loop fuel runs out).

  Consequence for those sizes, every carrier `α` and every `u`:
    `calc_mwu_exact_pvalue u n1 n2 = 1 − #{S : u ≤ U(S)} / C(n, k)`   if `n1 ≤ n2`,
                                  `=     #{S : u ≤ U(S)} / C(n, k)`   if `n1 > n2`,
  `S` ranging over the `k`-subsets — the `n1 ≤ n2` branch is one minus the exact tail.
-/
import Statrs.Lemmas.TestsMWU
namespace Statrs.Props.C16
open Statrs Statrs.Gen Statrs.Lemmas.TestsMWU

set_option maxRecDepth 1000000 in
/-- the visited `u_generic` values are, up to order, the `U` values of all `k`-subsets of the
    positions `0 .. n1+n2−1` (each subset once) -/
theorem mwu_enumeration_small_partial :
    ∀ n1 ∈ List.range 9, ∀ n2 ∈ List.range 9, 1 ≤ n1 → 1 ≤ n2 → n1 + n2 ≤ 9 →
      ∃ us, mVisited (Min.min (n1:ℤ) n2) ((n1:ℤ) + n2) loopFuel (rangeList 0 ((n1:ℤ) + n2)) = some us
        ∧ us.Perm (((List.range (n1 + n2)).sublistsLen (min n1 n2)).map uOfPositions) := by
  decide

/-- numerator and total for those sizes, for every test predicate -/
theorem mwu_count_small_partial (P : ℤ → Bool) (n1 n2 : ℕ) (h1 : 1 ≤ n1) (h2 : 1 ≤ n2)
    (h : n1 + n2 ≤ 9) :
    mCount P n1 n2
      = some ((((((List.range (n1 + n2)).sublistsLen (min n1 n2)).map uOfPositions).countP P : ℕ) : ℤ),
              (((n1 + n2).choose (min n1 n2) : ℕ) : ℤ)) := by
  obtain ⟨us, hv, hp⟩ := mwu_enumeration_small_partial n1 (List.mem_range.mpr (by omega)) n2
    (List.mem_range.mpr (by omega)) h1 h2 h
  unfold mCount
  rw [mLoop_visited, hv]
  simp only [Option.map_some, zero_add, hp.countP_eq, hp.length_eq, List.length_map,
    List.length_sublistsLen, List.length_range]

section
variable {α : Type} [Add α] [Sub α] [Mul α] [Div α] [Neg α] [LT α] [LE α] [BEq α]
  [DecidableLT α] [DecidableLE α] [OfScientific α] [Inhabited α] [RFun α]

/-- value of the exact p-value helper for all small sizes, every carrier, every `u` -/
theorem mwu_exact_small_partial (u : α) (n1 n2 : ℕ) (h1 : 1 ≤ n1) (h2 : 1 ≤ n2) (h : n1 + n2 ≤ 9) :
    T.mannwhitneyu.calc_mwu_exact_pvalue (α := α) u (n1 : ℤ) (n2 : ℤ)
      = if n1 ≤ n2 then
          (1.0 : α) - (RFun.ofInt ((((List.range (n1 + n2)).sublistsLen (min n1 n2)).map uOfPositions).countP
              (fun U => decide (u ≤ (RFun.ofInt U : α))) : ℕ) : α)
            / (RFun.ofInt (((n1 + n2).choose (min n1 n2) : ℕ) : ℤ) : α)
        else
          (RFun.ofInt ((((List.range (n1 + n2)).sublistsLen (min n1 n2)).map uOfPositions).countP
              (fun U => decide (u ≤ (RFun.ofInt U : α))) : ℕ) : α)
            / (RFun.ofInt (((n1 + n2).choose (min n1 n2) : ℕ) : ℤ) : α) := by
  rw [calc_mwu_exact_structure, mwu_count_small_partial _ n1 n2 h1 h2 h]
  have : (Min.min (n1 : ℤ) (n2 : ℤ) = (n1 : ℤ)) ↔ n1 ≤ n2 := by
    rw [min_eq_left_iff]; exact_mod_cast Iff.rfl
  simp only [this]
end

end Statrs.Props.C16
