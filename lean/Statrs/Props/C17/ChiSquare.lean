/-
  C17 — `chisquare` over ℝ: the statistic is Pearson's `Σ (Oᵢ − Eᵢ)² / Eᵢ` (default expectation
  `Eᵢ = N / n`), the degrees of freedom are `n − 1 − ddof`, and the p-value is exactly
  `1 − ChiSquared(dof).cdf(stat)` on the generated `ChiSquared.cdf` (closed form:
  `1 − P(dof/2, stat/2)` through the abstract regularised lower incomplete gamma), for every
  admissible input: `n ≥ 2` categories; a supplied `f_exp` of the same length whose total,
  truncated by `as usize`, equals the observed total; `ddof < n − 1`.
-/
import Statrs.Lemmas.Tests
namespace Statrs.Props.C17
open Statrs Statrs.Gen Statrs.Lemmas.Tests

/-- the reference law with `dof` degrees of freedom, as `ChiSquared::new(dof)` builds it -/
noncomputable def chiRef (dof : ℝ) : ChiSquared ℝ := ⟨dof, ⟨dof / 2, 1 / 2⟩⟩

private theorem chisq_tail [SF ℝ] (obsR E : List ℝ) (dof : ℤ) (h : 0 < dof) :
    (Except.ok (fsum (RFun.sumZero : ℝ) (List.map (fun p : ℝ × ℝ => match p with | (o, e) => (RFun.powi (o - e) (2 : Int)) / e) (List.zip obsR E)),
      (1.0 : ℝ) - ChiSquared.cdf (unwrapE (ChiSquared.new (α := ℝ) (RFun.ofInt dof : ℝ)))
        (fsum (RFun.sumZero : ℝ) (List.map (fun p : ℝ × ℝ => match p with | (o, e) => (RFun.powi (o - e) (2 : Int)) / e) (List.zip obsR E)))) : Except ChiSquareTestError (ℝ × ℝ))
    = .ok (Spec.Tests.chiSqStat obsR E,
        1 - ChiSquared.cdf (⟨(dof : ℝ), ⟨(dof : ℝ) / 2, 1 / 2⟩⟩ : ChiSquared ℝ) (Spec.Tests.chiSqStat obsR E)) := by
  have hpos : (0:ℝ) < (dof : ℝ) := by exact_mod_cast h
  rw [fsum_real, chisq_stat, rfun_ofInt, chisq_new _ hpos, lit_one]


/-- statistic = Pearson's χ², p-value = upper tail of `ChiSquared(n − 1 − ddof)` -/
theorem chisquare_eq [SF ℝ] (obs : List ℤ) (fexp : Option (List ℝ)) (ddof : Option ℤ)
    (hn : 2 ≤ obs.length)
    (hexp : ∀ e, fexp = some e → e.length = obs.length ∧ max 0 ⌊e.sum⌋ = obs.sum)
    (hd : ∀ d, ddof = some d → d < (obs.length : ℤ) - 1) :
    T.chisquare.chisquare obs fexp ddof =
      .ok (Spec.Tests.chiSqStat (List.map (Int.cast : ℤ → ℝ) obs)
              (fexp.getD (List.replicate obs.length (((obs.sum : ℤ) : ℝ) / obs.length))),
           1 - ChiSquared.cdf (chiRef (((obs.length : ℤ) - 1 - ddof.getD 0 : ℤ) : ℝ))
             (Spec.Tests.chiSqStat (List.map (Int.cast : ℤ → ℝ) obs)
              (fexp.getD (List.replicate obs.length (((obs.sum : ℤ) : ℝ) / obs.length))))) := by
  unfold T.chisquare.chisquare chiRef
  have h1 : ¬ listLen obs ≤ (1 : Int) := by unfold listLen; omega
  have hu : usub (listLen obs) 1 = (obs.length : ℤ) - 1 := by
    unfold usub listLen; rw [if_neg (by omega)]
  have hmap : List.map (fun x : ℤ => (RFun.ofInt x : ℝ)) obs = List.map (Int.cast : ℤ → ℝ) obs := rfl
  have hrep : List.replicate (Int.toNat (listLen obs)) ((RFun.ofInt (obs.sum) : ℝ) / (RFun.ofInt (listLen obs) : ℝ))
      = List.replicate obs.length (((obs.sum : ℤ) : ℝ) / obs.length) := by
    simp only [listLen, Int.toNat_natCast, rfun_ofInt, Int.cast_natCast]
  simp only [h1, if_false, hu, foldl_int_sum, hmap, hrep]
  rcases fexp with _ | e <;> rcases ddof with _ | d
  · have hu2 : usub ((obs.length : ℤ) - 1) 0 = (obs.length : ℤ) - 1 - 0 := by
      unfold usub; rw [if_neg (by omega)]
    simp only [Option.getD_none, hu2]
    exact chisq_tail _ _ _ (by omega)
  · have hd' := hd d rfl
    have hu2 : usub ((obs.length : ℤ) - 1) d = (obs.length : ℤ) - 1 - d := by
      unfold usub; rw [if_neg (by omega)]
    simp only [Option.getD_none, Option.getD_some, hu2, not_le.mpr hd', if_false]
    exact chisq_tail _ _ _ (by omega)
  · obtain ⟨hl, hs⟩ := hexp e rfl
    have hu2 : usub ((obs.length : ℤ) - 1) 0 = (obs.length : ℤ) - 1 - 0 := by
      unfold usub; rw [if_neg (by omega)]
    have hl' : ¬ listLen e ≠ listLen obs := by simp [listLen, hl]
    have hs' : ¬ (RFun.toU64 (fsum (RFun.sumZero : ℝ) e) ≠ obs.sum) := by
      rw [fsum_real]; exact not_not.mpr hs
    simp only [Option.getD_none, Option.getD_some, hu2, hl', hs', if_false]
    exact chisq_tail _ _ _ (by omega)
  · obtain ⟨hl, hs⟩ := hexp e rfl
    have hd' := hd d rfl
    have hu2 : usub ((obs.length : ℤ) - 1) d = (obs.length : ℤ) - 1 - d := by
      unfold usub; rw [if_neg (by omega)]
    have hl' : ¬ listLen e ≠ listLen obs := by simp [listLen, hl]
    have hs' : ¬ (RFun.toU64 (fsum (RFun.sumZero : ℝ) e) ≠ obs.sum) := by
      rw [fsum_real]; exact not_not.mpr hs
    simp only [Option.getD_some, hu2, hl', hs', not_le.mpr hd', if_false]
    exact chisq_tail _ _ _ (by omega)

/-- fewer than two categories are rejected -/
theorem chisquare_too_few [SF ℝ] (obs : List ℤ) (fexp : Option (List ℝ)) (ddof : Option ℤ)
    (hn : obs.length ≤ 1) :
    T.chisquare.chisquare obs fexp ddof = .error ChiSquareTestError.FObsInvalid := by
  unfold T.chisquare.chisquare
  have h1 : listLen obs ≤ (1 : Int) := by unfold listLen; omega
  simp only [h1, if_true]

/-- against the default expectation the statistic is `Σ (Oᵢ − N/n)² / (N/n)` -/
theorem chiSqStat_uniform (obs : List ℝ) :
    Spec.Tests.chiSqStat obs (List.replicate obs.length (obs.sum / obs.length))
      = Spec.Tests.chiSqStatUniform obs := by
  unfold Spec.Tests.chiSqStat Spec.Tests.chiSqStatUniform
  generalize obs.sum / (obs.length : ℝ) = c
  induction obs with
  | nil => simp
  | cons a t ih => simp only [List.length_cons, List.replicate_succ, List.zip_cons_cons,
      List.map_cons, List.sum_cons, ih]

/-- default call `chisquare(f_obs, None, None)`: uniform expectation, `n − 1` degrees of freedom -/
theorem chisquare_default [SF ℝ] (obs : List ℤ) (hn : 2 ≤ obs.length) :
    T.chisquare.chisquare (α := ℝ) obs none none
      = .ok (Spec.Tests.chiSqStatUniform (List.map (Int.cast : ℤ → ℝ) obs),
          1 - ChiSquared.cdf (chiRef ((obs.length : ℝ) - 1))
            (Spec.Tests.chiSqStatUniform (List.map (Int.cast : ℤ → ℝ) obs))) := by
  rw [chisquare_eq obs none none hn (by simp) (by simp)]
  have hs : ((obs.sum : ℤ) : ℝ) = (List.map (Int.cast : ℤ → ℝ) obs).sum := by
    induction obs with
    | nil => simp
    | cons a t ih => simp
  have hl : obs.length = (List.map (Int.cast : ℤ → ℝ) obs).length := by simp
  simp only [Option.getD_none]
  rw [hs]
  conv_lhs => rw [hl]
  rw [chiSqStat_uniform]
  simp

/-- closed form of the reference cdf: `P(dof/2, x/2)` for `x > 0`, `0` otherwise -/
theorem chiRef_cdf [SF ℝ] (dof x : ℝ) :
    ChiSquared.cdf (chiRef dof) x = if x ≤ 0 then 0 else SF.gamma_lr (dof / 2) (x * (1 / 2)) :=
  chisq_cdf_std _ _

/-- the reference object is what `ChiSquared::new(dof)` returns for `dof > 0` -/
theorem chiRef_valid (dof : ℝ) (h : 0 < dof) :
    unwrapE (ChiSquared.new (α := ℝ) dof) = chiRef dof := chisq_new dof h

/-- non-vacuity -/
example [SF ℝ] : T.chisquare.chisquare (α := ℝ) [3, 5, 4] none none
    = .ok (Spec.Tests.chiSqStatUniform [3, 5, 4],
        1 - ChiSquared.cdf (chiRef 2) (Spec.Tests.chiSqStatUniform [3, 5, 4])) := by
  have := chisquare_default [3, 5, 4] (by simp)
  norm_num at this
  exact this

end Statrs.Props.C17
