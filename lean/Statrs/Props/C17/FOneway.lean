/-
  C17 — `f_oneway` over ℝ: the computational forms `tsq − g²/n` and `ysq − tsq` used by the code
  equal the textbook treatment and error sums of squares `Σ nᵢ(ȳᵢ − ȳ)²`, `ΣΣ (yᵢⱼ − ȳᵢ)²`; the
  statistic is `F = (SST/(k−1)) / (SSE/(n−k))`; the p-value is exactly
  `1 − FisherSnedecor(k−1, n−k).cdf(F)` on the generated cdf — for every admissible input:
  `k ≥ 2` groups, none empty, at least one with two observations, no group of ≥ 2 observations
  consisting of one repeated constant.
-/
import Statrs.Lemmas.Tests
namespace Statrs.Props.C17
open Statrs Statrs.Gen Statrs.Lemmas.Tests
open Spec.Stats Spec.Tests

/-- the reference law `F(k − 1, n − k)` -/
noncomputable def fRef (k n : ℕ) : FisherSnedecor ℝ := ⟨(k : ℝ) - 1, (n : ℝ) - (k : ℝ)⟩

/-- treatment sum of squares: the code's `tsq − g²/n` is `Σ nᵢ (ȳᵢ − ȳ)²` (any grouping) -/
theorem sst_computational (s : List (List ℝ)) :
    (s.map (fun g => g.sum ^ 2 / (g.length : ℝ))).sum - s.flatten.sum ^ 2 / (s.flatten.length : ℝ)
      = ssBetween s := sst_eq s

/-- error sum of squares: the code's `ysq − tsq` is `Σᵢ Σⱼ (yᵢⱼ − ȳᵢ)²` (any grouping) -/
theorem sse_computational (s : List (List ℝ)) :
    (s.flatten.map (fun x => x ^ 2)).sum - (s.map (fun g => g.sum ^ 2 / (g.length : ℝ))).sum
      = ssWithin s := sse_eq s

/-- statistic = textbook F, p-value = upper tail of `F(k−1, n−k)` -/
theorem f_oneway_eq [SF ℝ] (s : List (List ℝ)) (pol : NaNPolicy) (hk : 2 ≤ s.length)
    (h1 : ∀ g ∈ s, 1 ≤ g.length) (h2 : ∃ g ∈ s, 2 ≤ g.length)
    (hc : ∀ g ∈ s, 2 ≤ g.length → ¬ ∃ c, ∀ x ∈ g, x = c) :
    T.f_oneway.f_oneway s pol
      = .ok (fStat s,
          1 - FisherSnedecor.cdf (fRef s.length s.flatten.length)
            (fStat s)) := by
  unfold T.f_oneway.f_oneway fRef
  have hk' : ¬ listLen s < (2 : Int) := by unfold listLen; omega
  have hall : (List.all (List.map (fun v : List ℝ => listLen v) s) (fun x => decide ((1 : Int) ≤ x))) = true := by
    simp only [List.all_map, List.all_eq_true, Function.comp, decide_eq_true_eq, listLen]
    intro g hg; exact_mod_cast h1 g hg
  have hany : (List.any (List.map (fun v : List ℝ => listLen v) s) (fun x => decide ((2 : Int) ≤ x))) = true := by
    simp only [List.any_map, List.any_eq_true, Function.comp, decide_eq_true_eq, listLen]
    obtain ⟨g, hg, h⟩ := h2
    exact ⟨g, hg, by exact_mod_cast h⟩
  have hconst : (List.any s (fun v => (decide (if ((1 : Int) < (listLen v)) then (let it := v
                      let (nx_2, it) := (listNext it)
                      let first := (unwrapO nx_2)
                      (List.all it (fun x => (decide ((x == first) = true)))) = true) else (false = true))))) = false := by
    rw [List.any_eq_false]
    intro g hg
    rw [decide_eq_true_eq, const_check]
    rintro ⟨h, hcc⟩
    exact hc g hg h hcc
  have hn : List.foldl (· + ·) (0:ℤ) (List.map (fun v : List ℝ => listLen v) s) = (s.flatten.length : ℤ) := by
    rw [foldl_int_sum, List.length_flatten]
    simp only [listLen]
    push_cast
    rw [List.map_map]; rfl
  have hlen_le : s.length < s.flatten.length := len_lt_flatten s h1 h2
  have hu1 : usub (listLen s) 1 = (s.length : ℤ) - 1 := by
    unfold usub listLen; rw [if_neg (by omega)]
  have hu2 : usub (s.flatten.length : ℤ) (listLen s) = (s.flatten.length : ℤ) - (s.length : ℤ) := by
    unfold usub listLen; rw [if_neg (by omega)]
  have hd1 : (0:ℝ) < (s.length : ℝ) - 1 := by
    have : (2:ℝ) ≤ s.length := by exact_mod_cast hk
    linarith
  have hd2 : (0:ℝ) < (s.flatten.length : ℝ) - (s.length : ℝ) := by
    have : (s.length : ℝ) < s.flatten.length := by exact_mod_cast hlen_le
    linarith
  simp only [Bool.false_eq_true] at hconst
  simp only [hk', if_false, any_isNaN_real, Bool.false_eq_true, hall, hany, hconst, not_true_eq_false, or_self,
    hn, hu1, hu2, fsum_real, rfun_ofInt, rfun_powi, cast_listLen]
  push_cast
  rw [fs_new _ _ hd1 hd2, lit_one]
  have e1 : (List.map (fun v : List ℝ => v.sum ^ (2:ℤ) / (v.length : ℝ)) s).sum - s.flatten.sum ^ (2:ℤ) / (s.flatten.length : ℝ)
      = ssBetween s := by
    rw [← sst_eq]; norm_cast
  have e2 : (List.map (fun x : ℝ => x ^ (2:ℤ)) s.flatten).sum - (List.map (fun v : List ℝ => v.sum ^ (2:ℤ) / (v.length : ℝ)) s).sum
      = ssWithin s := by
    rw [← sse_eq]; norm_cast
  rw [e1, e2]
  rfl

/-- closed form of the reference cdf through the abstract regularised incomplete beta -/
theorem fRef_cdf [SF ℝ] (k n : ℕ) (x : ℝ) :
    FisherSnedecor.cdf (fRef k n) x
      = if x < 0 then 0 else
          SF.beta_reg (((k : ℝ) - 1) / 2) (((n : ℝ) - (k : ℝ)) / 2)
            (((k : ℝ) - 1) * x / (((k : ℝ) - 1) * x + ((n : ℝ) - (k : ℝ)))) :=
  fs_cdf_std _ _ _

/-- the reference object is what `FisherSnedecor::new(k−1, n−k)` returns when `2 ≤ k < n` -/
theorem fRef_valid (k n : ℕ) (hk : 2 ≤ k) (hn : k < n) :
    unwrapE (FisherSnedecor.new (α := ℝ) ((k : ℝ) - 1) ((n : ℝ) - (k : ℝ))) = fRef k n := by
  have h1 : (0:ℝ) < (k : ℝ) - 1 := by
    have : (2:ℝ) ≤ k := by exact_mod_cast hk
    linarith
  have h2 : (0:ℝ) < (n : ℝ) - (k : ℝ) := by
    have : (k:ℝ) < n := by exact_mod_cast hn
    linarith
  exact fs_new _ _ h1 h2

/-- the documented error returns (over ℝ no entry is NaN, so the policy plays no role) -/
theorem f_oneway_same_constants [SF ℝ] (s : List (List ℝ)) (pol : NaNPolicy) (hk : 2 ≤ s.length)
    (h1 : ∀ g ∈ s, 1 ≤ g.length) (h2 : ∃ g ∈ s, 2 ≤ g.length)
    (hc : ∃ g ∈ s, 2 ≤ g.length ∧ ∃ c, ∀ x ∈ g, x = c) :
    T.f_oneway.f_oneway s pol = .error FOneWayTestError.SampleContainsSameConstants := by
  unfold T.f_oneway.f_oneway
  have hk' : ¬ listLen s < (2 : Int) := by unfold listLen; omega
  have hall : (List.all (List.map (fun v : List ℝ => listLen v) s) (fun x => decide ((1 : Int) ≤ x))) = true := by
    simp only [List.all_map, List.all_eq_true, Function.comp, decide_eq_true_eq, listLen]
    intro g hg; exact_mod_cast h1 g hg
  have hany : (List.any (List.map (fun v : List ℝ => listLen v) s) (fun x => decide ((2 : Int) ≤ x))) = true := by
    simp only [List.any_map, List.any_eq_true, Function.comp, decide_eq_true_eq, listLen]
    obtain ⟨g, hg, h⟩ := h2
    exact ⟨g, hg, by exact_mod_cast h⟩
  have hconst : (List.any s (fun v => (decide (if ((1 : Int) < (listLen v)) then (let it := v
                      let (nx_2, it) := (listNext it)
                      let first := (unwrapO nx_2)
                      (List.all it (fun x => (decide ((x == first) = true)))) = true) else (false = true))))) = true := by
    rw [List.any_eq_true]
    obtain ⟨g, hg, h, hcc⟩ := hc
    refine ⟨g, hg, ?_⟩
    rw [decide_eq_true_eq, const_check]
    exact ⟨h, hcc⟩
  simp only [Bool.false_eq_true] at hconst
  simp only [hk', if_false, any_isNaN_real, Bool.false_eq_true, hall, hany, hconst,
    not_true_eq_false, or_self, if_true]

/-- non-vacuity: two groups `[1,2]`, `[4]` -/
example [SF ℝ] : T.f_oneway.f_oneway [[1, 2], [4]] NaNPolicy.Error
    = .ok (fStat [[1, 2], [4]], 1 - FisherSnedecor.cdf (fRef 2 3) (fStat [[1, 2], [4]])) := by
  have := f_oneway_eq [[1, 2], [4]] NaNPolicy.Error (by simp) (by simp) ⟨[1, 2], by simp, by simp⟩
    (by
      intro g hg h2 ⟨c, hc⟩
      simp only [List.mem_cons, List.not_mem_nil, or_false] at hg
      rcases hg with rfl | rfl
      · have a := hc 1 (by simp); have b := hc 2 (by simp); linarith
      · simp at h2)
  simpa using this

end Statrs.Props.C17
