/-
  C17 — the odds ratio returned by `fishers_exact_with_odds_ratio` is the sample cross-product
  ratio `a·d / (b·c)` of the table `[[a, b], [c, d]]` whenever `b, c > 0` (then no early exit is
  taken), and the p-value component is `fishers_exact`'s, unchanged.  Branch logic: stated for
  EVERY carrier `α`; over ℝ the ratio is `Spec.Tests.oddsRatio`.
-/
import Statrs.Real.Simp
import Statrs.Gen.T_fisher
import Statrs.Spec.Tests
import Mathlib.Tactic
set_option linter.unusedSectionVars false
namespace Statrs.Props.C17
open Statrs Statrs.Gen

section
variable {α : Type} [Add α] [Sub α] [Mul α] [Div α] [Neg α] [LT α] [LE α] [BEq α]
  [DecidableLT α] [DecidableLE α] [OfScientific α] [Inhabited α] [RFun α] [SF α]

/-- `b, c > 0`: odds ratio `= (a·d as f64) / (b·c as f64)`, p-value `= fishers_exact` -/
theorem fisher_odds_ratio (a b c d : ℤ) (alt : Alternative) (hb : 0 < b) (hc : 0 < c) :
    T.fisher.fishers_exact_with_odds_ratio (α := α) [a, b, c, d] alt
      = exceptMap (fun p => ((RFun.ofInt (a * d) : α) / (RFun.ofInt (b * c) : α), p))
          (T.fisher.fishers_exact (α := α) [a, b, c, d] alt) := by
  unfold T.fisher.fishers_exact_with_odds_ratio
  split
  · simp_all
  · simp_all
  · simp_all
  · simp_all
  · have hbc : (0 < b ∧ 0 < c) := ⟨hb, hc⟩
    simp only [listGet]
    simp only [show ¬ ((0:ℤ) < 0) by omega, if_false, Int.toNat_zero, Int.toNat_one,
      List.getD_cons_zero, List.getD_cons_succ]
    cases T.fisher.fishers_exact (α := α) [a, b, c, d] alt <;> simp [exceptMap, hbc]

/-- a zero row or column: `(NaN, 1)` -/
theorem fisher_odds_zero_col_left (b d : ℤ) (alt : Alternative) :
    T.fisher.fishers_exact_with_odds_ratio (α := α) [0, b, 0, d] alt
      = .ok ((RFun.nan : α), (1.0 : α)) := by
  unfold T.fisher.fishers_exact_with_odds_ratio; rfl

theorem fisher_odds_zero_col_right (a c : ℤ) (alt : Alternative) :
    T.fisher.fishers_exact_with_odds_ratio (α := α) [a, 0, c, 0] alt
      = .ok ((RFun.nan : α), (1.0 : α)) := by
  unfold T.fisher.fishers_exact_with_odds_ratio
  split <;> first | rfl | simp_all

theorem fisher_odds_zero_row_top (c d : ℤ) (alt : Alternative) :
    T.fisher.fishers_exact_with_odds_ratio (α := α) [0, 0, c, d] alt
      = .ok ((RFun.nan : α), (1.0 : α)) := by
  unfold T.fisher.fishers_exact_with_odds_ratio
  split <;> first | rfl | simp_all

theorem fisher_odds_zero_row_bottom (a b : ℤ) (alt : Alternative) :
    T.fisher.fishers_exact_with_odds_ratio (α := α) [a, b, 0, 0] alt
      = .ok ((RFun.nan : α), (1.0 : α)) := by
  unfold T.fisher.fishers_exact_with_odds_ratio
  split <;> first | rfl | simp_all

end

/-- over ℝ: the textbook cross-product ratio -/
theorem fisher_odds_ratio_real [SF ℝ] (a b c d : ℤ) (alt : Alternative) (hb : 0 < b) (hc : 0 < c) :
    T.fisher.fishers_exact_with_odds_ratio (α := ℝ) [a, b, c, d] alt
      = exceptMap (fun p => (Spec.Tests.oddsRatio a b c d, p))
          (T.fisher.fishers_exact (α := ℝ) [a, b, c, d] alt) := by
  rw [fisher_odds_ratio a b c d alt hb hc]
  unfold Spec.Tests.oddsRatio
  simp only [rfun_ofInt, Int.cast_mul]

/-- non-vacuity -/
example [SF ℝ] : T.fisher.fishers_exact_with_odds_ratio (α := ℝ) [3, 1, 2, 5] Alternative.Less
    = exceptMap (fun p => (Spec.Tests.oddsRatio 3 1 2 5, p))
        (T.fisher.fishers_exact (α := ℝ) [3, 1, 2, 5] Alternative.Less) :=
  fisher_odds_ratio_real 3 1 2 5 _ (by norm_num) (by norm_num)

end Statrs.Props.C17
