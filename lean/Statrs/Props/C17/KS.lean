/-
  C17 — the translated Kolmogorov–Smirnov p-value helpers over ℝ, pinned to the textbook
  closed forms (the top-level generic `ks_onesample` / `ks_twosample`, with the NaN-policy
  prologues and the statistic `D`, are not translated; see Gen/manifest.json):

  * `twosample_hodge_equation_53_onesided_pvalue d m n
        = exp(−2z² − 2z(m+2n) / (3√(mn(m+n))))`, `z = d√(mn/(m+n))`        (Hodges 1958, eq. 5.3)
  * `onesample_birnbaum_tingey_onesided_pvalue d n
        = d Σ_{j=0}^{⌊n(1−d)⌋} C(n,j) (j/n + d)^{j−1} (1 − d − j/n)^{n−j}`   (Birnbaum–Tingey 1951)
    for `d ≠ 0`, `C(n,j)` being the abstract `SF.binomial`; at `d = 0` the code returns exactly `1`
    (the limit of the formula: its `j = 0` term is `d · d⁻¹ · (1 − d)^n`, which is `0 · ∞` = NaN in
    `f64` and `0 · 0⁻¹ = 0` over ℝ) — `ks_birnbaum_tingey_zero`, on every carrier.
  `onesample_kolmogorov_twosided_pvalue` (series truncated at `|term| < 1e-10` inside a fuelled
  loop) is left out.
-/
import Statrs.Lemmas.Tests
import Statrs.Gen.T_ks_test
import Statrs.Inst.Float
import Statrs.Gen.SFFloat
namespace Statrs.Props.C17
open Statrs Statrs.Gen Statrs.Lemmas.Tests
open Finset

theorem ks_hodge_eq (d m n : ℝ) :
    T.ks_test.twosample_hodge_equation_53_onesided_pvalue (α := ℝ) d m n
      = Real.exp (-2 * (d * Real.sqrt (m * n / (m + n))) ^ 2
          - 2 * (d * Real.sqrt (m * n / (m + n))) / 3 * (m + 2 * n) / Real.sqrt (m * n * (m + n))) := by
  unfold T.ks_test.twosample_hodge_equation_53_onesided_pvalue
  simp only [rfun_exp, rfun_sqrt, rfun_powi, lit_two]
  have : (3.0 : ℝ) = 3 := by norm_num
  rw [this]
  norm_cast

theorem bt_loop [SF ℝ] (l : List ℤ) (d n s : ℝ) :
    T.ks_test.onesample_birnbaum_tingey_onesided_pvalue.loop1 (α := ℝ) l d n s
      = LoopR.done (s + (l.map (fun j : ℤ => (SF.binomial (RFun.toU64 n) j : ℝ)
          * (RFun.powi (((j : ℝ) / n) + d) (wrapI32 j - 1))
          * (RFun.powi ((1 - d) - ((j : ℝ) / n)) ((RFun.toI32 n) - wrapI32 j)))).sum) := by
  induction l generalizing s with
  | nil => simp [T.ks_test.onesample_birnbaum_tingey_onesided_pvalue.loop1]
  | cons j l ih =>
    unfold T.ks_test.onesample_birnbaum_tingey_onesided_pvalue.loop1
    simp only [ih, List.map_cons, List.sum_cons, rfun_ofInt, lit_one, add_assoc]

theorem list_range_map_sum (f : ℕ → ℝ) (m : ℕ) : ((List.range m).map f).sum = ∑ i ∈ range m, f i := by
  induction m with
  | zero => simp
  | succ m ih => rw [List.range_succ, List.map_append, List.sum_append, ih, Finset.sum_range_succ]; simp

theorem wrapI32_small (j : ℤ) (h0 : 0 ≤ j) (h1 : j < 2147483648) : wrapI32 j = j := by
  unfold wrapI32; omega

section zero
variable {α : Type} [Add α] [Sub α] [Mul α] [Div α] [Neg α] [LT α] [LE α] [BEq α]
  [DecidableLT α] [DecidableLE α] [OfScientific α] [Inhabited α] [RFun α] [SF α]

/-- no deviation at all: the one-sided p-value at `d = 0` is exactly `1.0`, whatever `n` — on
    every carrier (`d` only has to compare equal to `0.0`: for IEEE `Float`, `d = ±0.0`).  The
    series is not evaluated there (its `j = 0` term would be `0 · 0⁻¹ · 1`: `0 · ∞ = NaN` in `f64`). -/
theorem ks_birnbaum_tingey_zero (d n : α) (hd : (d == (0.0 : α)) = true) :
    T.ks_test.onesample_birnbaum_tingey_onesided_pvalue (α := α) d n = (1.0 : α) := by
  unfold T.ks_test.onesample_birnbaum_tingey_onesided_pvalue
  rw [if_pos hd]

end zero

/-- non-vacuity over IEEE `Float`: both zeros compare equal to `0.0`, so the p-value is `1.0`
    (not NaN) at `d = 0.0` and at `d = -0.0` -/
example (n : Float) : T.ks_test.onesample_birnbaum_tingey_onesided_pvalue (α := Float) 0.0 n = 1.0 ∧
    T.ks_test.onesample_birnbaum_tingey_onesided_pvalue (α := Float) (-0.0) n = 1.0 :=
  ⟨ks_birnbaum_tingey_zero _ n (by decide), ks_birnbaum_tingey_zero _ n (by decide)⟩

/-- carrier ℝ: the p-value at `d = 0` is `1` for every `n` -/
theorem ks_birnbaum_tingey_zero_real [SF ℝ] (n : ℝ) :
    T.ks_test.onesample_birnbaum_tingey_onesided_pvalue (α := ℝ) 0 n = 1 := by
  rw [ks_birnbaum_tingey_zero (0 : ℝ) n (by rw [real_beq]; norm_num)]; norm_num

/-- Birnbaum–Tingey: `1` at `d = 0`, else
    `d · Σ_{j=0}^{⌊n(1−d)⌋} C(n,j) (j/n + d)^{j−1} (1 − d − j/n)^{n−j}` -/
theorem ks_birnbaum_tingey_eq [SF ℝ] (d : ℝ) (N : ℕ) (hN : N < 2147483648) (hd0 : 0 ≤ d) (hd1 : d ≤ 1) :
    T.ks_test.onesample_birnbaum_tingey_onesided_pvalue (α := ℝ) d (N : ℝ)
      = if d = 0 then 1 else d * ∑ j ∈ range (⌊(N : ℝ) * (1 - d)⌋₊ + 1),
          (SF.binomial (N : ℤ) (j : ℤ) : ℝ) * ((j : ℝ) / N + d) ^ ((j : ℤ) - 1)
            * (1 - d - (j : ℝ) / N) ^ ((N : ℤ) - (j : ℤ)) := by
  by_cases hdz : d = 0
  · rw [if_pos hdz, hdz]; exact ks_birnbaum_tingey_zero_real _
  rw [if_neg hdz]
  unfold T.ks_test.onesample_birnbaum_tingey_onesided_pvalue
  rw [if_neg (by rw [real_beq]; norm_num; exact hdz)]
  simp only [bt_loop]
  congr 1
  have hfl : (0:ℝ) ≤ (N : ℝ) * (1 - d) := mul_nonneg (Nat.cast_nonneg _) (by linarith)
  have hle : (N : ℝ) * (1 - d) ≤ N := by nlinarith [(Nat.cast_nonneg N : (0:ℝ) ≤ N)]
  have hU : (RFun.toU64 (RFun.floor ((N : ℝ) * ((1.0 : ℝ) - d))) : ℤ) = ((⌊(N : ℝ) * (1 - d)⌋₊ : ℕ) : ℤ) := by
    show max 0 ⌊(RFun.floor ((N : ℝ) * ((1.0 : ℝ) - d)) : ℝ)⌋ = _
    rw [rfun_floor, lit_one, Int.floor_intCast, max_eq_right (Int.floor_nonneg.mpr hfl)]
    exact (Int.natCast_floor_eq_floor hfl).symm
  have hN64 : (RFun.toU64 (N : ℝ) : ℤ) = (N : ℤ) := by
    show max 0 ⌊(N : ℝ)⌋ = _
    rw [Int.floor_natCast]; omega
  have hN32 : (RFun.toI32 (N : ℝ) : ℤ) = (N : ℤ) := by
    show (if (0:ℝ) ≤ (N:ℝ) then ⌊(N : ℝ)⌋ else ⌈(N:ℝ)⌉) = _
    rw [if_pos (Nat.cast_nonneg _), Int.floor_natCast]
  rw [hU, hN64, hN32]
  have hm : ⌊(N : ℝ) * (1 - d)⌋₊ ≤ N := by
    apply Nat.floor_le_of_le; exact hle
  have e : ((⌊(N : ℝ) * (1 - d)⌋₊ : ℕ) : ℤ) + 1 = ((⌊(N : ℝ) * (1 - d)⌋₊ + 1 : ℕ) : ℤ) := by push_cast; ring
  rw [e]
  unfold rangeList
  simp only [sub_zero, Int.toNat_natCast, zero_add, lit_zero, List.map_map]
  rw [list_range_map_sum]
  apply Finset.sum_congr rfl
  intro j hj
  have hj' : j ≤ N := by have := mem_range.mp hj; omega
  simp only [Function.comp, rfun_powi]
  rw [wrapI32_small (j : ℤ) (by omega) (by omega)]
  push_cast
  ring

/-- non-vacuity -/
example [SF ℝ] : T.ks_test.onesample_birnbaum_tingey_onesided_pvalue (α := ℝ) (1 / 2) ((4 : ℕ) : ℝ)
    = (1 / 2) * ∑ j ∈ range (⌊((4 : ℕ) : ℝ) * (1 - 1 / 2)⌋₊ + 1),
        (SF.binomial ((4 : ℕ) : ℤ) (j : ℤ) : ℝ) * ((j : ℝ) / (4 : ℕ) + 1 / 2) ^ ((j : ℤ) - 1)
          * (1 - 1 / 2 - (j : ℝ) / (4 : ℕ)) ^ (((4 : ℕ) : ℤ) - (j : ℤ)) := by
  rw [ks_birnbaum_tingey_eq (1 / 2) 4 (by norm_num) (by norm_num) (by norm_num), if_neg (by norm_num)]

end Statrs.Props.C17
