/-
  C17 — Mann–Whitney, asymptotic method: `calc_mwu_asymptotic_pvalue(u, n1, n2, t, continuity)` is
  exactly the upper standard-normal tail `1 − Φ(z)` at
  `z = (u − n₁n₂/2 − [½ if continuity]) / √( n₁n₂/12 · ((n+1) − Σ(tᵢ³ − tᵢ) / (n(n−1))) )`, `n = n₁+n₂`
  (tie-corrected variance), pinned to the generated `Normal.cdf`.
  (The top-level generic `mannwhitneyu` — ranking, `U₁ = R₁ − n₁(n₁+1)/2`, method dispatch, final
  clamp — is not translated; see Gen/manifest.json.  The exact helper is in Props/C16.)
-/
import Statrs.Lemmas.Tests
import Statrs.Gen.T_mannwhitneyu
import Statrs.Props.C17.SkewTest
namespace Statrs.Props.C17
open Statrs Statrs.Gen Statrs.Lemmas.Tests

/-- the tie term `Σ (t³ − t)` is computed without underflow for tie counts `t ≥ 0` -/
theorem tie_term_eq (t : List ℤ) (ht : ∀ x ∈ t, 0 ≤ x) :
    List.foldl (· + ·) (0:ℤ) (List.map (fun x => usub (x ^ (Int.toNat (3 : Int))) x) t)
      = (t.map (fun x => x ^ 3 - x)).sum := by
  rw [foldl_int_sum]
  congr 1
  apply List.map_congr_left
  intro x hx
  have h0 := ht x hx
  have : ¬ x ^ 3 < x := by
    rw [not_lt]
    rcases eq_or_lt_of_le h0 with h | h
    · rw [← h]; norm_num
    · have : 1 ≤ x := h
      nlinarith [mul_nonneg h0 h0, mul_nonneg (mul_nonneg h0 h0) h0]
  show usub (x ^ 3) x = _
  unfold usub; rw [if_neg this]

/-- normal approximation: `p = 1 − Φ(z)`, `z = (u − n₁n₂/2 − [½]) / σ`,
    `σ² = n₁n₂/12 · ((n+1) − Σ(t³−t)/(n(n−1)))` -/
theorem mwu_asymptotic_eq [SF ℝ] (u : ℝ) (n1 n2 : ℤ) (t : List ℤ) (ht : ∀ x ∈ t, 0 ≤ x) (cont : Bool) :
    T.mannwhitneyu.calc_mwu_asymptotic_pvalue (α := ℝ) u n1 n2 t cont
      = 1 - Normal.cdf zRef
          ((u - (n1 * n2 : ℝ) / 2 - (if cont = true then 1 / 2 else 0))
            / Real.sqrt ((n1 * n2 : ℝ) / 12
                * (((n1 : ℝ) + n2 + 1) - (((t.map (fun x => x ^ 3 - x)).sum : ℤ) : ℝ) / (((n1 : ℝ) + n2) * ((n1 : ℝ) + n2 - 1))))) := by
  unfold T.mannwhitneyu.calc_mwu_asymptotic_pvalue
  rw [tie_term_eq t ht]
  unfold Normal.default Normal.standard zRef
  simp only [rfun_ofInt, rfun_sqrt, lit_one, lit_zero, lit_two, lit_half, Int.cast_mul]
  have h12 : (12.0 : ℝ) = 12 := by norm_num
  rw [h12]
  cases cont <;> simp

/-- non-vacuity -/
example [SF ℝ] : T.mannwhitneyu.calc_mwu_asymptotic_pvalue (α := ℝ) 7 3 4 [1, 1, 2, 0, 1, 1, 1] true
    = 1 - Normal.cdf zRef ((7 - ((3:ℤ) * (4:ℤ) : ℝ) / 2 - 1 / 2)
        / Real.sqrt (((3:ℤ) * (4:ℤ) : ℝ) / 12 * ((((3:ℤ):ℝ) + (4:ℤ) + 1)
          - ((([1, 1, 2, 0, 1, 1, 1].map (fun x : ℤ => x ^ 3 - x)).sum : ℤ) : ℝ) / ((((3:ℤ):ℝ) + (4:ℤ)) * (((3:ℤ):ℝ) + (4:ℤ) - 1))))) := by
  have := mwu_asymptotic_eq (7:ℝ) 3 4 [1, 1, 2, 0, 1, 1, 1] (by decide) true
  simpa using this

end Statrs.Props.C17
