/-
  C17 — the hand model (`Statrs.Model.RankTests`) of the top-level Kolmogorov–Smirnov tests
  `ks_onesample` / `ks_twosample` (src/stats_tests/ks_test.rs:202, :382).

  §1 (every carrier α, so also IEEE `Float`): the branch logic — NaN policies, `SampleTooSmall`,
     `ExactAndTooLarge`, `ExactAndTies`, which of `d_plus`/`d_minus`/`max` is returned and with
     which p-value helper, clamping of the one-sample p-value.
  §2 (ℝ) symmetry of the two-sample statistics under exchanging the samples.
  §3 (ℝ) meaning and range of the two-sample statistics: with `F_i = ecdf data_i`
     (`Statrs.Lemmas.RankKS.ecdf l x = #{a ∈ l | a ≤ x} / len l`),
       `d_plus  = max (0, max_{x ∈ data1 ∪ data2} (F1 x − F2 x))`,
       `d_minus = max (0, max_{x ∈ data1 ∪ data2} (F2 x − F1 x))`,
       `max d_plus d_minus = max_{x ∈ data1 ∪ data2} |F1 x − F2 x| = sup_{x ∈ ℝ} |F1 x − F2 x|`.
       `max d_plus d_minus = 0 ⇔ F1 = F2` (`ks2_twosided_eq_zero_iff`, `ks2_stats_zero_of_ecdf_eq`).
  §4 (ℝ) range of the one-sample statistics, invariance of the statistics under permutations.
  §5 (IEEE `Float`, evaluated in the kernel) since commit 5af6953 the empirical cdfs are the quotients
     `i / n1`, `j / n2` of the counts (no running sums of `1/n`): samples with identical empirical cdfs
     and different sizes — `[0.0]` vs `[0.0; 6]` and the other replayed pairs — have statistic exactly
     `0.0`, and `TwoSidedAsymptotic` returns `Ok((0.0, 1.0))`.
-/
import Statrs.Lemmas.RankKS
import Statrs.Props.C18.NaNPolicyFloat
set_option linter.unusedSectionVars false
set_option linter.unusedVariables false
namespace Statrs.Props.C17
open Statrs Statrs.Gen Statrs.Model Statrs.Lemmas.RankSort Statrs.Lemmas.RankKS

/-! # §1 branch logic, every carrier -/

section generic
variable {α : Type} [Add α] [Sub α] [Mul α] [Div α] [Neg α] [LT α] [LE α] [BEq α]
  [DecidableLT α] [DecidableLE α] [OfScientific α] [Inhabited α] [RFun α] [SF α]

/-- the filter both prologues use for `NaNPolicy::Emit` -/
def ksStrip (l : List α) : List α := l.filter (fun x => !(RFun.isNaN x))

/-- "the sample contains a NaN" as the prologues test it -/
abbrev hasNaN (l : List α) : Bool := l.any (fun x => RFun.isNaN x)

theorem ksStrip_clean (l : List α) : hasNaN (ksStrip l) = false := by
  unfold hasNaN ksStrip
  rw [List.any_eq_false]
  intro x hx
  have := (List.mem_filter.mp hx).2
  simpa using this

theorem ksStrip_of_clean (l : List α) (h : hasNaN l = false) : ksStrip l = l := by
  unfold ksStrip
  rw [List.filter_eq_self]
  intro x hx
  have := (List.any_eq_false.mp h) x hx
  simpa using this

theorem max_mul_min_int (a b : Int) : Max.max a b * Min.min a b = a * b := by
  rcases le_total a b with h | h
  · rw [max_eq_right h, min_eq_left h, mul_comm]
  · rw [max_eq_left h, min_eq_right h]

/-! ## `ks_twosample` -/

/-- a NaN in either sample with `NaNPolicy::Error` ⇒ `Err(SampleContainsNaN)` -/
theorem ks2_nan_error (d1 d2 : List α) (m : KSTwoSampleAlternativeMethod)
    (h : hasNaN d1 = true ∨ hasNaN d2 = true) :
    ks_twosample d1 d2 m NaNPolicy.Error = .error KSTestError.SampleContainsNaN := by
  unfold ks_twosample
  by_cases h1 : hasNaN d1 = true
  · simp only [hasNaN] at h1
    simp only [h1, if_true]
  · have h2 : hasNaN d2 = true := h.resolve_left h1
    rw [Bool.not_eq_true] at h1
    simp only [hasNaN] at h1 h2
    simp only [h1, h2, Bool.false_eq_true, if_false, if_true]

/-- a NaN in either sample with `NaNPolicy::Propogate` ⇒ `Ok((NaN, NaN))` -/
theorem ks2_nan_propagate (d1 d2 : List α) (m : KSTwoSampleAlternativeMethod)
    (h : hasNaN d1 = true ∨ hasNaN d2 = true) :
    ks_twosample d1 d2 m NaNPolicy.Propogate = .ok ((RFun.nan : α), (RFun.nan : α)) := by
  unfold ks_twosample
  by_cases h1 : hasNaN d1 = true
  · simp only [hasNaN] at h1
    simp only [h1, if_true]
  · have h2 : hasNaN d2 = true := h.resolve_left h1
    rw [Bool.not_eq_true] at h1
    simp only [hasNaN] at h1 h2
    simp only [h1, h2, Bool.false_eq_true, if_false, if_true]

/-- without NaNs the policy is irrelevant -/
theorem ks2_policy_irrelevant (d1 d2 : List α) (m : KSTwoSampleAlternativeMethod) (p q : NaNPolicy)
    (h1 : hasNaN d1 = false) (h2 : hasNaN d2 = false) :
    ks_twosample d1 d2 m p = ks_twosample d1 d2 m q := by
  unfold ks_twosample
  simp only [hasNaN] at h1 h2
  simp only [h1, h2, Bool.false_eq_true, if_false]

/-- `NaNPolicy::Emit` = the test on the NaN-stripped samples (under any policy) -/
theorem ks2_emit (d1 d2 : List α) (m : KSTwoSampleAlternativeMethod) (q : NaNPolicy) :
    ks_twosample d1 d2 m NaNPolicy.Emit = ks_twosample (ksStrip d1) (ksStrip d2) m q := by
  have c1 := ksStrip_clean d1
  have c2 := ksStrip_clean d2
  simp only [hasNaN] at c1 c2
  conv_rhs => unfold ks_twosample; simp only [c1, c2, Bool.false_eq_true, if_false]
  by_cases h1 : hasNaN d1 = true <;> by_cases h2 : hasNaN d2 = true
  · simp only [hasNaN] at h1 h2
    unfold ks_twosample
    simp only [h1, h2, if_true]
    rfl
  · rw [Bool.not_eq_true] at h2
    have e2 : ksStrip d2 = d2 := ksStrip_of_clean d2 h2
    simp only [hasNaN] at h1 h2
    unfold ks_twosample
    simp only [h1, h2, Bool.false_eq_true, if_true, if_false, e2]
    rfl
  · rw [Bool.not_eq_true] at h1
    have e1 : ksStrip d1 = d1 := ksStrip_of_clean d1 h1
    simp only [hasNaN] at h1 h2
    unfold ks_twosample
    simp only [h1, h2, Bool.false_eq_true, if_true, if_false, e1]
    rfl
  · rw [Bool.not_eq_true] at h1 h2
    have e1 : ksStrip d1 = d1 := ksStrip_of_clean d1 h1
    have e2 : ksStrip d2 = d2 := ksStrip_of_clean d2 h2
    simp only [hasNaN] at h1 h2
    unfold ks_twosample
    simp only [h1, h2, Bool.false_eq_true, if_false, e1, e2]

/-- an empty (NaN-free) sample ⇒ `Err(SampleTooSmall)`, whatever the method and policy -/
theorem ks2_too_small (d1 d2 : List α) (m : KSTwoSampleAlternativeMethod) (p : NaNPolicy)
    (h1 : hasNaN d1 = false) (h2 : hasNaN d2 = false) (he : d1 = [] ∨ d2 = []) :
    ks_twosample d1 d2 m p = .error KSTestError.SampleTooSmall := by
  unfold ks_twosample
  simp only [hasNaN] at h1 h2
  simp only [h1, h2, Bool.false_eq_true, if_false]
  have hs : listLen d1 < (1 : Int) ∨ listLen d2 < (1 : Int) := by
    rcases he with rfl | rfl
    · left; simp [listLen]
    · right; simp [listLen]
  rw [if_pos hs]

/-- under `Emit`, a sample that is empty after the NaNs are stripped ⇒ `Err(SampleTooSmall)` -/
theorem ks2_emit_too_small (d1 d2 : List α) (m : KSTwoSampleAlternativeMethod)
    (he : ksStrip d1 = [] ∨ ksStrip d2 = []) :
    ks_twosample d1 d2 m NaNPolicy.Emit = .error KSTestError.SampleTooSmall := by
  rw [ks2_emit d1 d2 m NaNPolicy.Emit]
  exact ks2_too_small _ _ m _ (ksStrip_clean d1) (ksStrip_clean d2) he

theorem not_small {β : Type} (d1 d2 : List β) (hn1 : d1 ≠ []) (hn2 : d2 ≠ []) :
    ¬ (listLen d1 < (1 : Int) ∨ listLen d2 < (1 : Int)) := by
  have := List.length_pos_iff.2 hn1
  have := List.length_pos_iff.2 hn2
  unfold listLen
  omega

/-- `TwoSidedExact` with `m·n > 10000` ⇒ `Err(ExactAndTooLarge)` -/
theorem ks2_exact_too_large (d1 d2 : List α) (p : NaNPolicy)
    (h1 : hasNaN d1 = false) (h2 : hasNaN d2 = false) (hn1 : d1 ≠ []) (hn2 : d2 ≠ [])
    (hbig : (10000 : Int) < (d1.length : Int) * (d2.length : Int)) :
    ks_twosample d1 d2 KSTwoSampleAlternativeMethod.TwoSidedExact p
      = .error KSTestError.ExactAndTooLarge := by
  unfold ks_twosample
  simp only [hasNaN] at h1 h2
  simp only [h1, h2, Bool.false_eq_true, if_false]
  rw [if_neg (not_small d1 d2 hn1 hn2)]
  have : (10000 : Int) < Max.max (listLen d1) (listLen d2) * Min.min (listLen d1) (listLen d2) := by
    rw [max_mul_min_int]; exact hbig
  simp only [this, if_true]

/-- `TwoSidedExact` with `m·n ≤ 10000`: statistic `max(d_plus, d_minus)`, Schröer–Trenkler p-value -/
theorem ks2_exact (d1 d2 : List α) (p : NaNPolicy)
    (h1 : hasNaN d1 = false) (h2 : hasNaN d2 = false) (hn1 : d1 ≠ []) (hn2 : d2 ≠ [])
    (hsmall : (d1.length : Int) * (d2.length : Int) ≤ 10000) :
    ks_twosample d1 d2 KSTwoSampleAlternativeMethod.TwoSidedExact p
      = .ok (RFun.fmax (ks_twosample.stats d1 d2).1 (ks_twosample.stats d1 d2).2,
          twosample_schroer_and_trenkler_twosided_pvalue
            (RFun.fmax (ks_twosample.stats d1 d2).1 (ks_twosample.stats d1 d2).2)
            (Max.max (listLen d1) (listLen d2)) (Min.min (listLen d1) (listLen d2))) := by
  unfold ks_twosample
  simp only [hasNaN] at h1 h2
  simp only [h1, h2, Bool.false_eq_true, if_false]
  rw [if_neg (not_small d1 d2 hn1 hn2)]
  have : ¬ (10000 : Int) < Max.max (listLen d1) (listLen d2) * Min.min (listLen d1) (listLen d2) := by
    rw [max_mul_min_int]; exact not_lt.2 hsmall
  simp only [this, if_false]

/-- `TwoSidedAsymptotic`: statistic `max(d_plus, d_minus)`, Kolmogorov p-value at `mn/(m+n)` -/
theorem ks2_asymptotic (d1 d2 : List α) (p : NaNPolicy)
    (h1 : hasNaN d1 = false) (h2 : hasNaN d2 = false) (hn1 : d1 ≠ []) (hn2 : d2 ≠ []) :
    ks_twosample d1 d2 KSTwoSampleAlternativeMethod.TwoSidedAsymptotic p
      = .ok (RFun.fmax (ks_twosample.stats d1 d2).1 (ks_twosample.stats d1 d2).2,
          T.ks_test.onesample_kolmogorov_twosided_pvalue
            (RFun.fmax (ks_twosample.stats d1 d2).1 (ks_twosample.stats d1 d2).2)
            (((RFun.ofInt (Max.max (listLen d1) (listLen d2)) : α)
                * (RFun.ofInt (Min.min (listLen d1) (listLen d2)) : α))
              / ((RFun.ofInt (Max.max (listLen d1) (listLen d2)) : α)
                + (RFun.ofInt (Min.min (listLen d1) (listLen d2)) : α)))) := by
  unfold ks_twosample
  simp only [hasNaN] at h1 h2
  simp only [h1, h2, Bool.false_eq_true, if_false]
  rw [if_neg (not_small d1 d2 hn1 hn2)]

/-- `LessAsymptotic`: statistic `d_minus`, Hodges (5.3) p-value -/
theorem ks2_less (d1 d2 : List α) (p : NaNPolicy)
    (h1 : hasNaN d1 = false) (h2 : hasNaN d2 = false) (hn1 : d1 ≠ []) (hn2 : d2 ≠ []) :
    ks_twosample d1 d2 KSTwoSampleAlternativeMethod.LessAsymptotic p
      = .ok ((ks_twosample.stats d1 d2).2,
          T.ks_test.twosample_hodge_equation_53_onesided_pvalue (ks_twosample.stats d1 d2).2
            (RFun.ofInt (Max.max (listLen d1) (listLen d2)) : α)
            (RFun.ofInt (Min.min (listLen d1) (listLen d2)) : α)) := by
  unfold ks_twosample
  simp only [hasNaN] at h1 h2
  simp only [h1, h2, Bool.false_eq_true, if_false]
  rw [if_neg (not_small d1 d2 hn1 hn2)]

/-- `GreaterAsymptotic`: statistic `d_plus`, Hodges (5.3) p-value -/
theorem ks2_greater (d1 d2 : List α) (p : NaNPolicy)
    (h1 : hasNaN d1 = false) (h2 : hasNaN d2 = false) (hn1 : d1 ≠ []) (hn2 : d2 ≠ []) :
    ks_twosample d1 d2 KSTwoSampleAlternativeMethod.GreaterAsymptotic p
      = .ok ((ks_twosample.stats d1 d2).1,
          T.ks_test.twosample_hodge_equation_53_onesided_pvalue (ks_twosample.stats d1 d2).1
            (RFun.ofInt (Max.max (listLen d1) (listLen d2)) : α)
            (RFun.ofInt (Min.min (listLen d1) (listLen d2)) : α)) := by
  unfold ks_twosample
  simp only [hasNaN] at h1 h2
  simp only [h1, h2, Bool.false_eq_true, if_false]
  rw [if_neg (not_small d1 d2 hn1 hn2)]

/-! ## `ks_onesample` -/

theorem ks1_nan_error (madd : α → α → α → α) (data : List α) (cdf : α → α)
    (m : KSOneSampleAlternativeMethod) (h : hasNaN data = true) :
    ks_onesample madd data cdf m NaNPolicy.Error = .error KSTestError.SampleContainsNaN := by
  unfold ks_onesample
  simp only [hasNaN] at h
  simp only [h, if_true]

theorem ks1_nan_propagate (madd : α → α → α → α) (data : List α) (cdf : α → α)
    (m : KSOneSampleAlternativeMethod) (h : hasNaN data = true) :
    ks_onesample madd data cdf m NaNPolicy.Propogate = .ok ((RFun.nan : α), (RFun.nan : α)) := by
  unfold ks_onesample
  simp only [hasNaN] at h
  simp only [h, if_true]

theorem ks1_policy_irrelevant (madd : α → α → α → α) (data : List α) (cdf : α → α)
    (m : KSOneSampleAlternativeMethod) (p q : NaNPolicy) (h : hasNaN data = false) :
    ks_onesample madd data cdf m p = ks_onesample madd data cdf m q := by
  unfold ks_onesample
  simp only [hasNaN] at h
  simp only [h, Bool.false_eq_true, if_false]

/-- `NaNPolicy::Emit` = the test on the NaN-stripped data (under any policy) -/
theorem ks1_emit (madd : α → α → α → α) (data : List α) (cdf : α → α)
    (m : KSOneSampleAlternativeMethod) (q : NaNPolicy) :
    ks_onesample madd data cdf m NaNPolicy.Emit = ks_onesample madd (ksStrip data) cdf m q := by
  have c := ksStrip_clean data
  simp only [hasNaN] at c
  conv_rhs => unfold ks_onesample; simp only [c, Bool.false_eq_true, if_false]
  by_cases h : hasNaN data = true
  · simp only [hasNaN] at h
    unfold ks_onesample
    simp only [h, if_true]
    rfl
  · rw [Bool.not_eq_true] at h
    have e : ksStrip data = data := ksStrip_of_clean data h
    simp only [hasNaN] at h
    unfold ks_onesample
    simp only [h, Bool.false_eq_true, if_false, e]

/-- empty (NaN-free) data ⇒ `Err(SampleTooSmall)` -/
theorem ks1_too_small (madd : α → α → α → α) (cdf : α → α)
    (m : KSOneSampleAlternativeMethod) (p : NaNPolicy) :
    ks_onesample madd ([] : List α) cdf m p = .error KSTestError.SampleTooSmall := by
  unfold ks_onesample
  simp [listLen]

/-- under `Emit`, data that is empty after the NaNs are stripped ⇒ `Err(SampleTooSmall)` -/
theorem ks1_emit_too_small (madd : α → α → α → α) (data : List α) (cdf : α → α)
    (m : KSOneSampleAlternativeMethod) (he : ksStrip data = []) :
    ks_onesample madd data cdf m NaNPolicy.Emit = .error KSTestError.SampleTooSmall := by
  rw [ks1_emit madd data cdf m NaNPolicy.Emit, he]
  exact ks1_too_small madd cdf m _

theorem not_small1 {β : Type} (d : List β) (hn : d ≠ []) : ¬ (listLen d < (1 : Int)) := by
  have := List.length_pos_iff.2 hn
  unfold listLen
  omega

/-- `Less`: statistic `d_plus`, clamped Birnbaum–Tingey p-value -/
theorem ks1_less (madd : α → α → α → α) (data : List α) (cdf : α → α) (p : NaNPolicy)
    (h : hasNaN data = false) (hn : data ≠ []) :
    ks_onesample madd data cdf KSOneSampleAlternativeMethod.Less p
      = .ok ((ks_onesample.stats data cdf).1,
          ntClamp (T.ks_test.onesample_birnbaum_tingey_onesided_pvalue
            (ks_onesample.stats data cdf).1 (RFun.ofInt (listLen data) : α)) (0.0 : α) (1.0 : α)) := by
  unfold ks_onesample
  simp only [hasNaN] at h
  simp only [h, Bool.false_eq_true, if_false]
  rw [if_neg (not_small1 data hn)]

/-- `Greater`: statistic `d_minus`, clamped Birnbaum–Tingey p-value -/
theorem ks1_greater (madd : α → α → α → α) (data : List α) (cdf : α → α) (p : NaNPolicy)
    (h : hasNaN data = false) (hn : data ≠ []) :
    ks_onesample madd data cdf KSOneSampleAlternativeMethod.Greater p
      = .ok ((ks_onesample.stats data cdf).2,
          ntClamp (T.ks_test.onesample_birnbaum_tingey_onesided_pvalue
            (ks_onesample.stats data cdf).2 (RFun.ofInt (listLen data) : α)) (0.0 : α) (1.0 : α)) := by
  unfold ks_onesample
  simp only [hasNaN] at h
  simp only [h, Bool.false_eq_true, if_false]
  rw [if_neg (not_small1 data hn)]

/-- `TwoSidedApproximate`: statistic `max(d_plus, d_minus)`, clamped `2 ×` Birnbaum–Tingey -/
theorem ks1_approximate (madd : α → α → α → α) (data : List α) (cdf : α → α) (p : NaNPolicy)
    (h : hasNaN data = false) (hn : data ≠ []) :
    ks_onesample madd data cdf KSOneSampleAlternativeMethod.TwoSidedApproximate p
      = .ok (RFun.fmax (ks_onesample.stats data cdf).1 (ks_onesample.stats data cdf).2,
          ntClamp ((T.ks_test.onesample_birnbaum_tingey_onesided_pvalue
            (RFun.fmax (ks_onesample.stats data cdf).1 (ks_onesample.stats data cdf).2)
            (RFun.ofInt (listLen data) : α)) * (2.0 : α)) (0.0 : α) (1.0 : α)) := by
  unfold ks_onesample
  simp only [hasNaN] at h
  simp only [h, Bool.false_eq_true, if_false]
  rw [if_neg (not_small1 data hn)]

/-- `TwoSidedAsymptotic`: statistic `max(d_plus, d_minus)`, clamped Kolmogorov p-value -/
theorem ks1_asymptotic (madd : α → α → α → α) (data : List α) (cdf : α → α) (p : NaNPolicy)
    (h : hasNaN data = false) (hn : data ≠ []) :
    ks_onesample madd data cdf KSOneSampleAlternativeMethod.TwoSidedAsymptotic p
      = .ok (RFun.fmax (ks_onesample.stats data cdf).1 (ks_onesample.stats data cdf).2,
          ntClamp (T.ks_test.onesample_kolmogorov_twosided_pvalue
            (RFun.fmax (ks_onesample.stats data cdf).1 (ks_onesample.stats data cdf).2)
            (RFun.ofInt (listLen data) : α)) (0.0 : α) (1.0 : α)) := by
  unfold ks_onesample
  simp only [hasNaN] at h
  simp only [h, Bool.false_eq_true, if_false]
  rw [if_neg (not_small1 data hn)]

/-- `TwoSidedExact` on data with ties (`dedup` of the sorted data is shorter) ⇒ `Err(ExactAndTies)` -/
theorem ks1_exact_ties (madd : α → α → α → α) (data : List α) (cdf : α → α) (p : NaNPolicy)
    (h : hasNaN data = false) (hn : data ≠ [])
    (hties : (dedup (sortBy (fun a b => decide (a ≤ b)) data)).length < data.length) :
    ks_onesample madd data cdf KSOneSampleAlternativeMethod.TwoSidedExact p
      = .error KSTestError.ExactAndTies := by
  unfold ks_onesample
  simp only [hasNaN] at h
  simp only [h, Bool.false_eq_true, if_false]
  rw [if_neg (not_small1 data hn)]
  have : listLen (dedup (sortBy (fun a b => decide (a ≤ b)) data)) < listLen data := by
    unfold listLen; exact_mod_cast hties
  simp only [this, if_true]

/-- `TwoSidedExact` without ties, Marsaglia–Tsang–Wang succeeds with `q`: statistic
    `max(d_plus, d_minus)`, p-value `clamp(1 − q, 0, 1)` -/
theorem ks1_exact_ok (madd : α → α → α → α) (data : List α) (cdf : α → α) (p : NaNPolicy) (q : α)
    (h : hasNaN data = false) (hn : data ≠ [])
    (hties : ¬ (dedup (sortBy (fun a b => decide (a ≤ b)) data)).length < data.length)
    (hq : onesample_marsaglia_et_al_twosided_pvalue madd
        (RFun.fmax (ks_onesample.stats data cdf).1 (ks_onesample.stats data cdf).2)
        (RFun.ofInt (listLen data) : α) = .ok q) :
    ks_onesample madd data cdf KSOneSampleAlternativeMethod.TwoSidedExact p
      = .ok (RFun.fmax (ks_onesample.stats data cdf).1 (ks_onesample.stats data cdf).2,
          ntClamp ((1.0 : α) - q) (0.0 : α) (1.0 : α)) := by
  unfold ks_onesample
  simp only [hasNaN] at h
  simp only [h, Bool.false_eq_true, if_false]
  rw [if_neg (not_small1 data hn)]
  have : ¬ listLen (dedup (sortBy (fun a b => decide (a ≤ b)) data)) < listLen data := by
    unfold listLen; exact_mod_cast hties
  simp only [this, if_false, hq]

/-- `TwoSidedExact` without ties, Marsaglia–Tsang–Wang fails (`n ≥ 170`): the error is passed on -/
theorem ks1_exact_err (madd : α → α → α → α) (data : List α) (cdf : α → α) (p : NaNPolicy)
    (e : KSTestError) (h : hasNaN data = false) (hn : data ≠ [])
    (hties : ¬ (dedup (sortBy (fun a b => decide (a ≤ b)) data)).length < data.length)
    (hq : onesample_marsaglia_et_al_twosided_pvalue madd
        (RFun.fmax (ks_onesample.stats data cdf).1 (ks_onesample.stats data cdf).2)
        (RFun.ofInt (listLen data) : α) = .error e) :
    ks_onesample madd data cdf KSOneSampleAlternativeMethod.TwoSidedExact p = .error e := by
  unfold ks_onesample
  simp only [hasNaN] at h
  simp only [h, Bool.false_eq_true, if_false]
  rw [if_neg (not_small1 data hn)]
  have : ¬ listLen (dedup (sortBy (fun a b => decide (a ≤ b)) data)) < listLen data := by
    unfold listLen; exact_mod_cast hties
  simp only [this, if_false, hq]

/-- on NaN-free data every `Ok((statistic, pvalue))` has `pvalue = clamp(_, 0.0, 1.0)` -/
theorem ks1_pvalue_clamped (madd : α → α → α → α) (data : List α) (cdf : α → α)
    (m : KSOneSampleAlternativeMethod) (p : NaNPolicy) (s pv : α) (h : hasNaN data = false)
    (hr : ks_onesample madd data cdf m p = .ok (s, pv)) :
    ∃ raw : α, pv = ntClamp raw (0.0 : α) (1.0 : α) := by
  by_cases hn : data = []
  · subst hn; rw [ks1_too_small] at hr; cases hr
  · cases m with
    | Less => rw [ks1_less madd data cdf p h hn] at hr; cases hr; exact ⟨_, rfl⟩
    | Greater => rw [ks1_greater madd data cdf p h hn] at hr; cases hr; exact ⟨_, rfl⟩
    | TwoSidedApproximate => rw [ks1_approximate madd data cdf p h hn] at hr; cases hr; exact ⟨_, rfl⟩
    | TwoSidedAsymptotic => rw [ks1_asymptotic madd data cdf p h hn] at hr; cases hr; exact ⟨_, rfl⟩
    | TwoSidedExact =>
      by_cases hties : (dedup (sortBy (fun a b => decide (a ≤ b)) data)).length < data.length
      · rw [ks1_exact_ties madd data cdf p h hn hties] at hr; cases hr
      · cases hq : onesample_marsaglia_et_al_twosided_pvalue madd
            (RFun.fmax (ks_onesample.stats data cdf).1 (ks_onesample.stats data cdf).2)
            (RFun.ofInt (listLen data) : α) with
        | error e => rw [ks1_exact_err madd data cdf p e h hn hties hq] at hr; cases hr
        | ok q => rw [ks1_exact_ok madd data cdf p q h hn hties hq] at hr; cases hr; exact ⟨_, rfl⟩

/-- on NaN-free data the statistic of every `Ok` result is `d_plus`, `d_minus` or their `max` -/
theorem ks1_statistic_cases (madd : α → α → α → α) (data : List α) (cdf : α → α)
    (m : KSOneSampleAlternativeMethod) (p : NaNPolicy) (s pv : α) (h : hasNaN data = false)
    (hr : ks_onesample madd data cdf m p = .ok (s, pv)) :
    s = (ks_onesample.stats data cdf).1 ∨ s = (ks_onesample.stats data cdf).2 ∨
      s = RFun.fmax (ks_onesample.stats data cdf).1 (ks_onesample.stats data cdf).2 := by
  by_cases hn : data = []
  · subst hn; rw [ks1_too_small] at hr; cases hr
  · cases m with
    | Less => rw [ks1_less madd data cdf p h hn] at hr; cases hr; exact Or.inl rfl
    | Greater => rw [ks1_greater madd data cdf p h hn] at hr; cases hr; exact Or.inr (Or.inl rfl)
    | TwoSidedApproximate =>
      rw [ks1_approximate madd data cdf p h hn] at hr; cases hr; exact Or.inr (Or.inr rfl)
    | TwoSidedAsymptotic =>
      rw [ks1_asymptotic madd data cdf p h hn] at hr; cases hr; exact Or.inr (Or.inr rfl)
    | TwoSidedExact =>
      by_cases hties : (dedup (sortBy (fun a b => decide (a ≤ b)) data)).length < data.length
      · rw [ks1_exact_ties madd data cdf p h hn hties] at hr; cases hr
      · cases hq : onesample_marsaglia_et_al_twosided_pvalue madd
            (RFun.fmax (ks_onesample.stats data cdf).1 (ks_onesample.stats data cdf).2)
            (RFun.ofInt (listLen data) : α) with
        | error e => rw [ks1_exact_err madd data cdf p e h hn hties hq] at hr; cases hr
        | ok q =>
          rw [ks1_exact_ok madd data cdf p q h hn hties hq] at hr; cases hr; exact Or.inr (Or.inr rfl)

/-- on NaN-free samples the statistic of every `Ok` result is `d_plus`, `d_minus` or their `max` -/
theorem ks2_statistic_cases (d1 d2 : List α) (m : KSTwoSampleAlternativeMethod) (p : NaNPolicy)
    (s pv : α) (h1 : hasNaN d1 = false) (h2 : hasNaN d2 = false)
    (hr : ks_twosample d1 d2 m p = .ok (s, pv)) :
    s = (ks_twosample.stats d1 d2).1 ∨ s = (ks_twosample.stats d1 d2).2 ∨
      s = RFun.fmax (ks_twosample.stats d1 d2).1 (ks_twosample.stats d1 d2).2 := by
  by_cases he : d1 = [] ∨ d2 = []
  · rw [ks2_too_small d1 d2 m p h1 h2 he] at hr; cases hr
  · rw [not_or] at he
    cases m with
    | LessAsymptotic => rw [ks2_less d1 d2 p h1 h2 he.1 he.2] at hr; cases hr; exact Or.inr (Or.inl rfl)
    | GreaterAsymptotic => rw [ks2_greater d1 d2 p h1 h2 he.1 he.2] at hr; cases hr; exact Or.inl rfl
    | TwoSidedAsymptotic =>
      rw [ks2_asymptotic d1 d2 p h1 h2 he.1 he.2] at hr; cases hr; exact Or.inr (Or.inr rfl)
    | TwoSidedExact =>
      by_cases hbig : (10000 : Int) < (d1.length : Int) * (d2.length : Int)
      · rw [ks2_exact_too_large d1 d2 p h1 h2 he.1 he.2 hbig] at hr; cases hr
      · rw [ks2_exact d1 d2 p h1 h2 he.1 he.2 (not_lt.1 hbig)] at hr; cases hr
        exact Or.inr (Or.inr rfl)

end generic

/-! ### non-vacuity of §1
  The NaN hypotheses are satisfiable over IEEE `Float` (`Statrs.Props.C18.nan_sample`); the
  NaN-free ones over ℝ, where `isNaN` is constantly `false` (`real_clean` below). -/

example (m : KSTwoSampleAlternativeMethod) :
    ks_twosample [1.0, (RFun.nan : Float), 2.0] [3.0] m NaNPolicy.Error
      = .error KSTestError.SampleContainsNaN :=
  ks2_nan_error _ _ m (Or.inl Statrs.Props.C18.nan_sample)

example (m : KSTwoSampleAlternativeMethod) :
    ks_twosample [3.0] [1.0, (RFun.nan : Float), 2.0] m NaNPolicy.Propogate
      = .ok ((RFun.nan : Float), (RFun.nan : Float)) :=
  ks2_nan_propagate _ _ m (Or.inr Statrs.Props.C18.nan_sample)

example (madd : Float → Float → Float → Float) (cdf : Float → Float)
    (m : KSOneSampleAlternativeMethod) :
    ks_onesample madd [1.0, (RFun.nan : Float), 2.0] cdf m NaNPolicy.Error
      = .error KSTestError.SampleContainsNaN :=
  ks1_nan_error madd _ cdf m Statrs.Props.C18.nan_sample

/-! # §2–§4 over ℝ -/

section real
variable [SF ℝ]

/-- over ℝ every sample is NaN-free -/
theorem real_clean (l : List ℝ) : hasNaN l = false := by
  unfold hasNaN
  rw [List.any_eq_false]
  intro x _
  simp

theorem ntClamp_unit (x : ℝ) : 0 ≤ ntClamp x (0.0 : ℝ) (1.0 : ℝ) ∧ ntClamp x (0.0 : ℝ) (1.0 : ℝ) ≤ 1 := by
  unfold ntClamp
  have h0 : (0.0 : ℝ) = 0 := by norm_num
  have h1 : (1.0 : ℝ) = 1 := by norm_num
  rw [h0, h1]
  split_ifs with ha hb
  · exact ⟨le_refl _, zero_le_one⟩
  · exact ⟨zero_le_one, le_refl _⟩
  · exact ⟨not_lt.1 ha, not_lt.1 hb⟩

/-- over ℝ every p-value returned by `ks_onesample` lies in `[0, 1]` -/
theorem ks1_pvalue_range (madd : ℝ → ℝ → ℝ → ℝ) (data : List ℝ) (cdf : ℝ → ℝ)
    (m : KSOneSampleAlternativeMethod) (p : NaNPolicy) (s pv : ℝ)
    (hr : ks_onesample madd data cdf m p = .ok (s, pv)) : 0 ≤ pv ∧ pv ≤ 1 := by
  obtain ⟨raw, rfl⟩ := ks1_pvalue_clamped madd data cdf m p s pv (real_clean data) hr
  exact ntClamp_unit raw

/-- non-vacuity: a one-point sample under `Less` does return `Ok` -/
example (madd : ℝ → ℝ → ℝ → ℝ) (cdf : ℝ → ℝ) : ∃ s pv : ℝ,
    ks_onesample madd [(2 : ℝ)] cdf KSOneSampleAlternativeMethod.Less NaNPolicy.Error = .ok (s, pv) :=
  ⟨_, _, ks1_less madd [(2 : ℝ)] cdf _ (real_clean _) (by simp)⟩

example (m : KSTwoSampleAlternativeMethod) (p : NaNPolicy) :
    ks_twosample ([] : List ℝ) [1, 2] m p = .error KSTestError.SampleTooSmall :=
  ks2_too_small _ _ m p (real_clean _) (real_clean _) (Or.inl rfl)

example (p : NaNPolicy) : ∃ pv : ℝ,
    ks_twosample [(1 : ℝ), 3] [2] KSTwoSampleAlternativeMethod.TwoSidedExact p
      = .ok (RFun.fmax (ks_twosample.stats [(1 : ℝ), 3] [2]).1 (ks_twosample.stats [(1 : ℝ), 3] [2]).2, pv) :=
  ⟨_, ks2_exact _ _ p (real_clean _) (real_clean _) (by simp) (by simp) (by norm_num)⟩

example (p : NaNPolicy) :
    ks_twosample (List.replicate 101 (0 : ℝ)) (List.replicate 100 (1 : ℝ))
      KSTwoSampleAlternativeMethod.TwoSidedExact p = .error KSTestError.ExactAndTooLarge :=
  ks2_exact_too_large _ _ p (real_clean _) (real_clean _) (by simp) (by simp) (by simp)

/-- ties: `[1, 1]` is rejected by the exact one-sample method -/
example (madd : ℝ → ℝ → ℝ → ℝ) (cdf : ℝ → ℝ) (p : NaNPolicy) :
    ks_onesample madd [(1 : ℝ), 1] cdf KSOneSampleAlternativeMethod.TwoSidedExact p
      = .error KSTestError.ExactAndTies :=
  ks1_exact_ties madd _ cdf p (real_clean _) (by simp) (by
    simp [sortBy, insertBy, dedup, dedupAux])

/-! ## §2 symmetry of the two-sample test -/

/-- SYMMETRY: exchanging the samples exchanges `d_plus` and `d_minus` -/
theorem ks2_stats_swap (d1 d2 : List ℝ) :
    ks_twosample.stats d2 d1 = ((ks_twosample.stats d1 d2).2, (ks_twosample.stats d1 d2).1) := by
  rw [stats_eq, stats_eq, pooled_comm]

/-- the two-sided statistic `max(d_plus, d_minus)` is symmetric in the samples -/
theorem ks2_twosided_statistic_symm (d1 d2 : List ℝ) :
    RFun.fmax (ks_twosample.stats d2 d1).1 (ks_twosample.stats d2 d1).2
      = RFun.fmax (ks_twosample.stats d1 d2).1 (ks_twosample.stats d1 d2).2 := by
  rw [ks2_stats_swap d1 d2]
  simp only [rfun_fmax]
  exact max_comm _ _

/-- `TwoSidedAsymptotic`: the whole result (statistic and p-value) is symmetric in the samples -/
theorem ks2_asymptotic_symm (d1 d2 : List ℝ) (p q : NaNPolicy) :
    ks_twosample d2 d1 KSTwoSampleAlternativeMethod.TwoSidedAsymptotic p
      = ks_twosample d1 d2 KSTwoSampleAlternativeMethod.TwoSidedAsymptotic q := by
  by_cases he : d1 = [] ∨ d2 = []
  · rw [ks2_too_small d2 d1 _ p (real_clean _) (real_clean _) he.symm,
      ks2_too_small d1 d2 _ q (real_clean _) (real_clean _) he]
  · rw [not_or] at he
    rw [ks2_asymptotic d2 d1 p (real_clean _) (real_clean _) he.2 he.1,
      ks2_asymptotic d1 d2 q (real_clean _) (real_clean _) he.1 he.2,
      ks2_twosided_statistic_symm d1 d2, max_comm (listLen d2), min_comm (listLen d2)]

/-- `TwoSidedExact`: the whole result (statistic, p-value or error) is symmetric in the samples -/
theorem ks2_exact_symm (d1 d2 : List ℝ) (p q : NaNPolicy) :
    ks_twosample d2 d1 KSTwoSampleAlternativeMethod.TwoSidedExact p
      = ks_twosample d1 d2 KSTwoSampleAlternativeMethod.TwoSidedExact q := by
  by_cases he : d1 = [] ∨ d2 = []
  · rw [ks2_too_small d2 d1 _ p (real_clean _) (real_clean _) he.symm,
      ks2_too_small d1 d2 _ q (real_clean _) (real_clean _) he]
  · rw [not_or] at he
    by_cases hbig : (10000 : Int) < (d1.length : Int) * (d2.length : Int)
    · rw [ks2_exact_too_large d2 d1 p (real_clean _) (real_clean _) he.2 he.1
          (by rw [mul_comm]; exact hbig),
        ks2_exact_too_large d1 d2 q (real_clean _) (real_clean _) he.1 he.2 hbig]
    · rw [ks2_exact d2 d1 p (real_clean _) (real_clean _) he.2 he.1
          (by rw [mul_comm]; exact not_lt.1 hbig),
        ks2_exact d1 d2 q (real_clean _) (real_clean _) he.1 he.2 (not_lt.1 hbig),
        ks2_twosided_statistic_symm d1 d2, max_comm (listLen d2), min_comm (listLen d2)]

/-- exchanging the samples turns `LessAsymptotic` into `GreaterAsymptotic` (whole result) -/
theorem ks2_less_swap (d1 d2 : List ℝ) (p q : NaNPolicy) :
    ks_twosample d2 d1 KSTwoSampleAlternativeMethod.LessAsymptotic p
      = ks_twosample d1 d2 KSTwoSampleAlternativeMethod.GreaterAsymptotic q := by
  by_cases he : d1 = [] ∨ d2 = []
  · rw [ks2_too_small d2 d1 _ p (real_clean _) (real_clean _) he.symm,
      ks2_too_small d1 d2 _ q (real_clean _) (real_clean _) he]
  · rw [not_or] at he
    rw [ks2_less d2 d1 p (real_clean _) (real_clean _) he.2 he.1,
      ks2_greater d1 d2 q (real_clean _) (real_clean _) he.1 he.2,
      ks2_stats_swap d1 d2, max_comm (listLen d2), min_comm (listLen d2)]

/-- exchanging the samples turns `GreaterAsymptotic` into `LessAsymptotic` (whole result) -/
theorem ks2_greater_swap (d1 d2 : List ℝ) (p q : NaNPolicy) :
    ks_twosample d2 d1 KSTwoSampleAlternativeMethod.GreaterAsymptotic p
      = ks_twosample d1 d2 KSTwoSampleAlternativeMethod.LessAsymptotic q :=
  (ks2_less_swap d2 d1 q p).symm

/-! ## §3 meaning and range of the two-sample statistics -/

/-- MEANING of `d_plus`: the greatest element of `{0} ∪ {F1 x − F2 x | x ∈ data1 ∪ data2}` -/
theorem ks2_dplus_isGreatest (d1 d2 : List ℝ) :
    IsGreatest (insert 0 ((fun x => ecdf d1 x - ecdf d2 x) '' {x | x ∈ d1 ∨ x ∈ d2}))
      (ks_twosample.stats d1 d2).1 := by
  rw [stats_eq]
  have h := foldl_max_isGreatest (fun x => ecdf d1 x - ecdf d2 x) (pooled d1 d2) 0
  have hs : {x | x ∈ pooled d1 d2} = {x | x ∈ d1 ∨ x ∈ d2} := by
    ext x; exact mem_pooled d1 d2 x
  rw [hs] at h
  exact h

/-- MEANING of `d_minus`: the greatest element of `{0} ∪ {F2 x − F1 x | x ∈ data1 ∪ data2}` -/
theorem ks2_dminus_isGreatest (d1 d2 : List ℝ) :
    IsGreatest (insert 0 ((fun x => ecdf d2 x - ecdf d1 x) '' {x | x ∈ d1 ∨ x ∈ d2}))
      (ks_twosample.stats d1 d2).2 := by
  rw [stats_eq]
  have h := foldl_max_isGreatest (fun x => ecdf d2 x - ecdf d1 x) (pooled d1 d2) 0
  have hs : {x | x ∈ pooled d1 d2} = {x | x ∈ d1 ∨ x ∈ d2} := by
    ext x; exact mem_pooled d1 d2 x
  rw [hs] at h
  exact h

/-- RANGE: `0 ≤ d_plus ≤ 1` and `0 ≤ d_minus ≤ 1`, for all samples (empty ones included) -/
theorem ks2_stats_range (d1 d2 : List ℝ) :
    (0 ≤ (ks_twosample.stats d1 d2).1 ∧ (ks_twosample.stats d1 d2).1 ≤ 1) ∧
    (0 ≤ (ks_twosample.stats d1 d2).2 ∧ (ks_twosample.stats d1 d2).2 ≤ 1) := by
  have key : ∀ (a b : List ℝ) (S : Set ℝ) (v : ℝ),
      IsGreatest (insert 0 ((fun x => ecdf a x - ecdf b x) '' S)) v → 0 ≤ v ∧ v ≤ 1 := by
    intro a b S v hv
    refine ⟨hv.2 (Set.mem_insert _ _), ?_⟩
    rcases hv.1 with h | ⟨x, _, h⟩
    · rw [h]; exact zero_le_one
    · rw [← h]
      have := ecdf_le_one a x
      have := ecdf_nonneg b x
      simp only; linarith
  exact ⟨key _ _ _ _ (ks2_dplus_isGreatest d1 d2), key _ _ _ _ (ks2_dminus_isGreatest d1 d2)⟩

/-- MEANING of the two-sided statistic: `max(d_plus, d_minus) = max_x |F1 x − F2 x|` over the
    pooled sample points (at least one sample nonempty) -/
theorem ks2_twosided_isGreatest (d1 d2 : List ℝ) (hne : d1 ≠ [] ∨ d2 ≠ []) :
    IsGreatest ((fun x => |ecdf d1 x - ecdf d2 x|) '' {x | x ∈ d1 ∨ x ∈ d2})
      (RFun.fmax (ks_twosample.stats d1 d2).1 (ks_twosample.stats d1 d2).2) := by
  obtain ⟨hp1, hp2⟩ := ks2_dplus_isGreatest d1 d2
  obtain ⟨hm1, hm2⟩ := ks2_dminus_isGreatest d1 d2
  simp only [rfun_fmax]
  set dp := (ks_twosample.stats d1 d2).1
  set dm := (ks_twosample.stats d1 d2).2
  have hup : ∀ x, (x ∈ d1 ∨ x ∈ d2) → |ecdf d1 x - ecdf d2 x| ≤ max dp dm := by
    intro x hx
    have h1 : ecdf d1 x - ecdf d2 x ≤ dp := hp2 (Set.mem_insert_of_mem _ ⟨x, hx, rfl⟩)
    have h2 : ecdf d2 x - ecdf d1 x ≤ dm := hm2 (Set.mem_insert_of_mem _ ⟨x, hx, rfl⟩)
    rw [abs_le]
    constructor
    · have := le_max_right dp dm; linarith
    · have := le_max_left dp dm; linarith
  have h0p : 0 ≤ dp := hp2 (Set.mem_insert _ _)
  have h0m : 0 ≤ dm := hm2 (Set.mem_insert _ _)
  constructor
  · -- attained
    obtain ⟨z, hz⟩ : ∃ z, z ∈ d1 ∨ z ∈ d2 := by
      rcases hne with h | h
      · obtain ⟨z, hz⟩ := List.exists_mem_of_ne_nil _ h; exact ⟨z, Or.inl hz⟩
      · obtain ⟨z, hz⟩ := List.exists_mem_of_ne_nil _ h; exact ⟨z, Or.inr hz⟩
    rcases le_total dm dp with hle | hle
    · rw [max_eq_left hle]
      rcases hp1 with hp | ⟨x, hx, hp⟩
      · have hdm : dm = 0 := le_antisymm (hp ▸ hle) h0m
        refine ⟨z, hz, ?_⟩
        have h := hup z hz
        rw [hp, hdm, max_self] at h
        show |ecdf d1 z - ecdf d2 z| = dp
        rw [hp]; exact le_antisymm h (abs_nonneg _)
      · refine ⟨x, hx, ?_⟩
        have hp' : ecdf d1 x - ecdf d2 x = dp := hp
        show |ecdf d1 x - ecdf d2 x| = dp
        rw [hp']; exact abs_of_nonneg h0p
    · rw [max_eq_right hle]
      rcases hm1 with hm | ⟨y, hy, hm⟩
      · have hdp : dp = 0 := le_antisymm (hm ▸ hle) h0p
        refine ⟨z, hz, ?_⟩
        have h := hup z hz
        rw [hm, hdp, max_self] at h
        show |ecdf d1 z - ecdf d2 z| = dm
        rw [hm]; exact le_antisymm h (abs_nonneg _)
      · refine ⟨y, hy, ?_⟩
        have hm' : ecdf d2 y - ecdf d1 y = dm := hm
        show |ecdf d1 y - ecdf d2 y| = dm
        rw [abs_sub_comm, hm']; exact abs_of_nonneg h0m
  · rintro _ ⟨x, hx, rfl⟩
    exact hup x hx

/-- `ecdf` is a step function: at any real `x` with a pooled point below it, both ecdfs take the
    values they have at the largest pooled point `≤ x` -/
theorem ecdf_eq_at_pooled (d1 d2 : List ℝ) (x : ℝ) (hx : ∃ a, (a ∈ d1 ∨ a ∈ d2) ∧ a ≤ x) :
    ∃ y, (y ∈ d1 ∨ y ∈ d2) ∧ ecdf d1 y = ecdf d1 x ∧ ecdf d2 y = ecdf d2 x := by
  have hP : ((d1 ++ d2).filter (fun a => decide (a ≤ x))).toFinset.Nonempty := by
    obtain ⟨a, ha, hax⟩ := hx
    exact ⟨a, by simp [ha, hax]⟩
  obtain ⟨y, hy, hmax⟩ := Finset.exists_max_image _ id hP
  have hy' : (y ∈ d1 ∨ y ∈ d2) ∧ y ≤ x := by
    have h := List.mem_filter.1 (List.mem_toFinset.1 hy)
    exact ⟨List.mem_append.1 h.1, by simpa using h.2⟩
  have hmax' : ∀ a, (a ∈ d1 ∨ a ∈ d2) → a ≤ x → a ≤ y := by
    intro a ha hax
    exact hmax a (by simp [ha, hax])
  have hc : ∀ d : List ℝ, (∀ a ∈ d, a ∈ d1 ∨ a ∈ d2) →
      d.countP (fun a => decide (a ≤ y)) = d.countP (fun a => decide (a ≤ x)) := by
    intro d hd
    apply List.countP_congr
    intro a ha
    simp only [decide_eq_true_eq]
    exact ⟨fun h => le_trans h hy'.2, fun h => hmax' a (hd a ha) h⟩
  refine ⟨y, hy'.1, ?_, ?_⟩
  · unfold ecdf; rw [hc d1 (fun a ha => Or.inl ha)]
  · unfold ecdf; rw [hc d2 (fun a ha => Or.inr ha)]

/-- the two-sided statistic bounds `|F1 x − F2 x|` at EVERY real `x` (not only at sample points) -/
theorem ks2_twosided_bound_real (d1 d2 : List ℝ) (x : ℝ) :
    |ecdf d1 x - ecdf d2 x|
      ≤ RFun.fmax (ks_twosample.stats d1 d2).1 (ks_twosample.stats d1 d2).2 := by
  by_cases hx : ∃ a, (a ∈ d1 ∨ a ∈ d2) ∧ a ≤ x
  · obtain ⟨y, hy, e1, e2⟩ := ecdf_eq_at_pooled d1 d2 x hx
    rw [← e1, ← e2]
    have hne : d1 ≠ [] ∨ d2 ≠ [] := by
      rcases hy with h | h
      · exact Or.inl (List.ne_nil_of_mem h)
      · exact Or.inr (List.ne_nil_of_mem h)
    exact (ks2_twosided_isGreatest d1 d2 hne).2 ⟨y, hy, rfl⟩
  · have hz : ∀ d : List ℝ, (∀ a ∈ d, a ∈ d1 ∨ a ∈ d2) → ecdf d x = 0 := by
      intro d hd
      unfold ecdf
      have : d.countP (fun a => decide (a ≤ x)) = 0 :=
        List.countP_eq_zero.2 (fun a ha => by
          simp only [decide_eq_true_eq]
          exact fun h => hx ⟨a, hd a ha, h⟩)
      rw [this]; simp
    rw [hz d1 (fun a ha => Or.inl ha), hz d2 (fun a ha => Or.inr ha), sub_zero, abs_zero]
    simp only [rfun_fmax]
    exact le_trans (ks2_stats_range d1 d2).1.1 (le_max_left _ _)

/-- MEANING (Kolmogorov–Smirnov): the two-sided statistic is `max_{x ∈ ℝ} |F1 x − F2 x|`, the
    supremum distance between the two empirical distribution functions (all samples) -/
theorem ks2_twosided_isGreatest_real (d1 d2 : List ℝ) :
    IsGreatest (Set.range (fun x : ℝ => |ecdf d1 x - ecdf d2 x|))
      (RFun.fmax (ks_twosample.stats d1 d2).1 (ks_twosample.stats d1 d2).2) := by
  constructor
  · by_cases hne : d1 ≠ [] ∨ d2 ≠ []
    · obtain ⟨x, _, hx⟩ := (ks2_twosided_isGreatest d1 d2 hne).1
      exact ⟨x, hx⟩
    · rw [not_or, not_not, not_not] at hne
      obtain ⟨rfl, rfl⟩ := hne
      refine ⟨0, ?_⟩
      have hp : (ks_twosample.stats ([] : List ℝ) []).1 = 0 := by
        rcases (ks2_dplus_isGreatest [] []).1 with h | ⟨x, hx, _⟩
        · exact h
        · simp at hx
      have hm : (ks_twosample.stats ([] : List ℝ) []).2 = 0 := by
        rcases (ks2_dminus_isGreatest [] []).1 with h | ⟨x, hx, _⟩
        · exact h
        · simp at hx
      simp only [rfun_fmax, hp, hm, max_self, sub_self, abs_zero]
  · rintro _ ⟨x, rfl⟩
    exact ks2_twosided_bound_real d1 d2 x

/-- over ℝ every statistic returned by `ks_twosample` lies in `[0, 1]` -/
theorem ks2_statistic_range (d1 d2 : List ℝ) (m : KSTwoSampleAlternativeMethod) (p : NaNPolicy)
    (s pv : ℝ) (hr : ks_twosample d1 d2 m p = .ok (s, pv)) : 0 ≤ s ∧ s ≤ 1 := by
  obtain ⟨⟨a1, a2⟩, ⟨b1, b2⟩⟩ := ks2_stats_range d1 d2
  rcases ks2_statistic_cases d1 d2 m p s pv (real_clean _) (real_clean _) hr with h | h | h
  · rw [h]; exact ⟨a1, a2⟩
  · rw [h]; exact ⟨b1, b2⟩
  · rw [h]; simp only [rfun_fmax]; exact ⟨le_trans a1 (le_max_left _ _), max_le a2 b2⟩

omit [SF ℝ] in
/-- IDENTICAL EMPIRICAL CDFS (the case commit 5af6953 is about): if `F1 = F2` at every pooled sample
    point then `d_plus = d_minus = 0` EXACTLY, whatever the two sample sizes are -/
theorem ks2_stats_zero_of_ecdf_eq (d1 d2 : List ℝ)
    (h : ∀ x, (x ∈ d1 ∨ x ∈ d2) → ecdf d1 x = ecdf d2 x) :
    ks_twosample.stats d1 d2 = (0, 0) := by
  rw [stats_eq]
  have key : ∀ g : ℝ → ℝ, (∀ x ∈ pooled d1 d2, g x = 0) →
      (pooled d1 d2).foldl (fun acc x => max acc (g x)) 0 = 0 := by
    intro g hg
    rcases (foldl_max_spec g (pooled d1 d2) 0).2.2 with h0 | ⟨x, hx, hx'⟩
    · exact h0
    · rw [hx', hg x hx]
  rw [key (fun x => ecdf d1 x - ecdf d2 x)
      (fun x hx => by simp only [h x ((mem_pooled d1 d2 x).1 hx), sub_self]),
    key (fun x => ecdf d2 x - ecdf d1 x)
      (fun x hx => by simp only [h x ((mem_pooled d1 d2 x).1 hx), sub_self])]

/-- the two-sided statistic vanishes EXACTLY when the two empirical distribution functions coincide
    (on all of ℝ; equivalently at the pooled sample points) — all samples, all sizes -/
theorem ks2_twosided_eq_zero_iff (d1 d2 : List ℝ) :
    RFun.fmax (ks_twosample.stats d1 d2).1 (ks_twosample.stats d1 d2).2 = 0
      ↔ ∀ x : ℝ, ecdf d1 x = ecdf d2 x := by
  constructor
  · intro h x
    have hb := ks2_twosided_bound_real d1 d2 x
    rw [h] at hb
    exact sub_eq_zero.1 (abs_eq_zero.1 (le_antisymm hb (abs_nonneg _)))
  · intro h
    rw [ks2_stats_zero_of_ecdf_eq d1 d2 (fun x _ => h x)]
    simp only [rfun_fmax, max_self]

/-- non-vacuity: the samples `[0]` and `[0; 6]` (the f64 witness of 5af6953) have the same empirical cdf,
    so over ℝ the statistics are `(0, 0)` -/
example : ks_twosample.stats [(0 : ℝ)] [0, 0, 0, 0, 0, 0] = (0, 0) :=
  ks2_stats_zero_of_ecdf_eq _ _ (fun x _ => by
    simp only [ecdf, List.countP_cons, List.countP_nil, List.length_cons, List.length_nil]
    split_ifs <;> norm_num)

/-! ## §4 one-sample statistics; permutation invariance -/

/-- RANGE of the one-sample statistics for a `cdf` with values in `[0, 1]` (all data; on empty data
    both are the fold's start value, which is the junk `RFun.negInf = 0` over ℝ — on nonempty data
    the terms `cdf(x₍₁₎) − 0/n ≥ 0` and `n/n − cdf(x₍ₙ₎) ≥ 0` make `0 ≤ d` genuine) -/
theorem ks1_stats_range (data : List ℝ) (cdf : ℝ → ℝ) (hc : ∀ x, 0 ≤ cdf x ∧ cdf x ≤ 1) :
    (0 ≤ (ks_onesample.stats data cdf).1 ∧ (ks_onesample.stats data cdf).1 ≤ 1) ∧
    (0 ≤ (ks_onesample.stats data cdf).2 ∧ (ks_onesample.stats data cdf).2 ≤ 1) := by
  unfold ks_onesample.stats
  simp only
  have hn0 : (0 : ℝ) ≤ (RFun.ofInt (listLen data) : ℝ) := by
    simp only [rfun_ofInt, listLen]; positivity
  constructor
  · apply foldl_max_list_bounds _ (RFun.negInf : ℝ) 1 (by show (0:ℝ) ≤ 1; exact zero_le_one)
    intro b hb
    obtain ⟨p, hp, rfl⟩ := List.mem_map.1 hb
    obtain ⟨hp1, hp2⟩ := List.of_mem_zip hp
    obtain ⟨y, _, hy⟩ := List.mem_map.1 hp1
    obtain ⟨hlo, hhi⟩ := mem_rangeList' hp2
    have h1 : p.1 ≤ 1 := hy ▸ (hc y).2
    have h2 : (0 : ℝ) ≤ (RFun.ofInt p.2 : ℝ) / (RFun.ofInt (listLen data) : ℝ) := by
      apply div_nonneg _ hn0
      simp only [rfun_ofInt]; exact_mod_cast hlo
    show p.1 - (RFun.ofInt p.2 : ℝ) / (RFun.ofInt (listLen data) : ℝ) ≤ 1
    linarith
  · apply foldl_max_list_bounds _ (RFun.negInf : ℝ) 1 (by show (0:ℝ) ≤ 1; exact zero_le_one)
    intro b hb
    obtain ⟨p, hp, rfl⟩ := List.mem_map.1 hb
    obtain ⟨hp1, hp2⟩ := List.of_mem_zip hp
    obtain ⟨y, _, hy⟩ := List.mem_map.1 hp1
    obtain ⟨hlo, hhi⟩ := mem_rangeList' hp2
    have h1 : 0 ≤ p.1 := hy ▸ (hc y).1
    have h2 : (RFun.ofInt p.2 : ℝ) / (RFun.ofInt (listLen data) : ℝ) ≤ 1 := by
      apply div_le_one_of_le₀ _ hn0
      simp only [rfun_ofInt]
      have : p.2 ≤ listLen data := by omega
      exact_mod_cast this
    show (RFun.ofInt p.2 : ℝ) / (RFun.ofInt (listLen data) : ℝ) - p.1 ≤ 1
    linarith

theorem foldl_max_start (l : List ℝ) : ∀ s : ℝ, s ≤ 0 → (∃ b ∈ l, 0 ≤ b) →
    l.foldl (fun a b => max a b) s = l.foldl (fun a b => max a b) 0 := by
  induction l with
  | nil => intro s _ h; obtain ⟨b, hb, _⟩ := h; simp at hb
  | cons a t ih =>
    intro s hs h
    obtain ⟨b, hb, hb0⟩ := h
    simp only [List.foldl_cons]
    by_cases ha : 0 ≤ a
    · rw [max_eq_right (hs.trans ha), max_eq_right ha]
    · have ha' : a < 0 := not_le.1 ha
      have hbt : b ∈ t := by
        rcases List.mem_cons.1 hb with rfl | h
        · exact absurd hb0 ha
        · exact h
      rw [max_eq_left ha'.le]
      exact ih (max s a) (max_le hs ha'.le) ⟨b, hbt, hb0⟩

theorem zip_range_mem (T : List ℝ) (lo hi : Int) (i : ℕ) (hi' : i < T.length)
    (hhi : hi = lo + (T.length : Int)) :
    (T[i], lo + (i : Int)) ∈ List.zip T (rangeList lo hi) := by
  subst hhi
  have hlen : (rangeList lo (lo + T.length)).length = T.length := by simp [rangeList]
  have hi2 : i < (List.zip T (rangeList lo (lo + T.length))).length := by
    simp only [List.length_zip, hlen, min_self]; exact hi'
  have h := List.getElem_mem hi2
  rw [List.getElem_zip] at h
  simpa [rangeList] using h


/-- the `0 ≤ d` of `ks1_stats_range` does not come from the junk start value `RFun.negInf = 0`:
    on nonempty data (cdf in `[0,1]`) the model's statistics equal the same two running maxima
    started from ANY `s ≤ 0` (in IEEE arithmetic: from `−∞`) -/
theorem ks1_stats_start_irrelevant (data : List ℝ) (cdf : ℝ → ℝ) (hc : ∀ x, 0 ≤ cdf x ∧ cdf x ≤ 1)
    (hn : data ≠ []) (s : ℝ) (hs : s ≤ 0) :
    ks_onesample.stats data cdf =
      (((List.zip ((sortBy leR data).map cdf) (rangeList 0 (listLen data))).map
          (fun p => p.1 - ((p.2 : ℝ) / ((listLen data : Int) : ℝ)))).foldl (fun a b => max a b) s,
       ((List.zip ((sortBy leR data).map cdf) (rangeList 1 (listLen data + 1))).map
          (fun p => ((p.2 : ℝ) / ((listLen data : Int) : ℝ)) - p.1)).foldl (fun a b => max a b) s) := by
  unfold ks_onesample.stats
  simp only [rfun_ofInt, rfun_fmax]
  have h0 : (RFun.negInf : ℝ) = 0 := rfl
  rw [h0]
  have hlen : ((sortBy leR data).map cdf).length = data.length := by
    rw [List.length_map, sortBy_length]
  have hpos : 0 < ((sortBy leR data).map cdf).length := by
    rw [hlen]; exact List.length_pos_iff.2 hn
  have hT01 : ∀ t ∈ (sortBy leR data).map cdf, 0 ≤ t ∧ t ≤ 1 := by
    intro t ht; obtain ⟨y, _, rfl⟩ := List.mem_map.1 ht; exact hc y
  have hnpos : (0 : ℝ) < ((listLen data : Int) : ℝ) := by
    unfold listLen; exact_mod_cast (List.length_pos_iff.2 hn)
  congr 1
  · symm
    apply foldl_max_start _ s hs
    have hm := zip_range_mem ((sortBy leR data).map cdf) 0 (listLen data) 0 hpos
      (by rw [hlen]; simp [listLen])
    exact ⟨_, List.mem_map.2 ⟨_, hm, rfl⟩, by
      have := (hT01 _ (List.getElem_mem hpos)).1
      simpa using this⟩
  · symm
    apply foldl_max_start _ s hs
    have hlt : data.length - 1 < ((sortBy leR data).map cdf).length := by rw [hlen]; omega
    have hm := zip_range_mem ((sortBy leR data).map cdf) 1 (listLen data + 1) (data.length - 1) hlt
      (by rw [hlen]; simp [listLen, add_comm])
    refine ⟨_, List.mem_map.2 ⟨_, hm, rfl⟩, ?_⟩
    have h1 := (hT01 _ (List.getElem_mem hlt)).2
    have hcast : (((1 : Int) + ((data.length - 1 : ℕ) : Int) : Int) : ℝ) = ((listLen data : Int) : ℝ) := by
      have : 0 < data.length := List.length_pos_iff.2 hn
      unfold listLen; congr 1; omega
    show 0 ≤ (((1 : Int) + ((data.length - 1 : ℕ) : Int) : Int) : ℝ) / ((listLen data : Int) : ℝ) - _
    rw [hcast, div_self (ne_of_gt hnpos)]
    linarith

/-- over ℝ, for a `cdf` with values in `[0, 1]`, every statistic returned by `ks_onesample`
    lies in `[0, 1]` -/
theorem ks1_statistic_range (madd : ℝ → ℝ → ℝ → ℝ) (data : List ℝ) (cdf : ℝ → ℝ)
    (hc : ∀ x, 0 ≤ cdf x ∧ cdf x ≤ 1) (m : KSOneSampleAlternativeMethod) (p : NaNPolicy)
    (s pv : ℝ) (hr : ks_onesample madd data cdf m p = .ok (s, pv)) : 0 ≤ s ∧ s ≤ 1 := by
  obtain ⟨⟨a1, a2⟩, ⟨b1, b2⟩⟩ := ks1_stats_range data cdf hc
  rcases ks1_statistic_cases madd data cdf m p s pv (real_clean _) hr with h | h | h
  · rw [h]; exact ⟨a1, a2⟩
  · rw [h]; exact ⟨b1, b2⟩
  · rw [h]; simp only [rfun_fmax]; exact ⟨le_trans a1 (le_max_left _ _), max_le a2 b2⟩

/-- over ℝ the duplicate check of the exact one-sample method fires exactly on data with a repeated
    value -/
theorem ks1_ties_iff (data : List ℝ) :
    (dedup (sortBy (fun a b : ℝ => decide (a ≤ b)) data)).length < data.length ↔ ¬ data.Nodup := by
  have hD : (dedup (sortBy leR data)).Nodup := (dedup_sorted _ (sortR_sorted data)).nodup
  have hset : (dedup (sortBy leR data)).toFinset = data.toFinset := by
    ext x; simp only [List.mem_toFinset]; rw [mem_dedup, mem_sortBy]
  have hlen : (dedup (sortBy leR data)).length = data.toFinset.card := by
    rw [← hset, List.toFinset_card_of_nodup hD]
  show (dedup (sortBy leR data)).length < data.length ↔ _
  rw [hlen]
  constructor
  · intro h hnd; rw [List.toFinset_card_of_nodup hnd] at h; exact lt_irrefl _ h
  · intro h
    refine lt_of_le_of_ne (List.toFinset_card_le data) (fun he => h ?_)
    rw [List.card_toFinset] at he
    exact List.dedup_eq_self.1 ((List.dedup_sublist data).eq_of_length he)

/-- over ℝ: `TwoSidedExact` on data with a repeated value ⇒ `Err(ExactAndTies)` -/
theorem ks1_exact_ties_of_dup (madd : ℝ → ℝ → ℝ → ℝ) (data : List ℝ) (cdf : ℝ → ℝ) (p : NaNPolicy)
    (hdup : ¬ data.Nodup) :
    ks_onesample madd data cdf KSOneSampleAlternativeMethod.TwoSidedExact p
      = .error KSTestError.ExactAndTies :=
  ks1_exact_ties madd data cdf p (real_clean _) (by rintro rfl; exact hdup List.nodup_nil)
    ((ks1_ties_iff data).2 hdup)

/-- the one-sample statistics do not depend on the order of the data -/
theorem ks1_stats_perm (data data' : List ℝ) (cdf : ℝ → ℝ) (h : data.Perm data') :
    ks_onesample.stats data cdf = ks_onesample.stats data' cdf := by
  unfold ks_onesample.stats
  simp only [listLen, h.length_eq, sortR_eq_of_perm h]

/-- the two-sample statistics do not depend on the order of either sample -/
theorem ks2_stats_perm (d1 d1' d2 d2' : List ℝ) (h1 : d1.Perm d1') (h2 : d2.Perm d2') :
    ks_twosample.stats d1 d2 = ks_twosample.stats d1' d2' := by
  unfold ks_twosample.stats
  simp only [listLen, h1.length_eq, h2.length_eq, sortR_eq_of_perm h1, sortR_eq_of_perm h2]

/-- non-vacuity of §3/§4: a cdf with values in `[0,1]`, and two permuted samples -/
example : 0 ≤ (ks_onesample.stats [(3 : ℝ), 1, 2] (fun x => max 0 (min 1 x))).1 ∧
    (ks_onesample.stats [(3 : ℝ), 1, 2] (fun x => max 0 (min 1 x))).1 ≤ 1 :=
  (ks1_stats_range _ _ (fun x => ⟨le_max_left _ _, max_le zero_le_one (min_le_left _ _)⟩)).1

example (cdf : ℝ → ℝ) : ks_onesample.stats [(2 : ℝ), 1] cdf = ks_onesample.stats [1, 2] cdf :=
  ks1_stats_perm _ _ cdf (List.Perm.swap 1 2 [])

/-- a concrete evaluation of the model: `F1 − F2` is `1/2, −1/2, 0` at `1, 2, 3` -/
example : ks_twosample.stats [(1:ℝ),3] [2] = (1/2, 1/2) := by
  have hp : pooled [(1:ℝ),3] [2] = [1,2,3] := by
    unfold pooled
    have hperm : ([(1:ℝ),3] ++ [2]).Perm [1,2,3] := List.Perm.cons 1 (List.Perm.swap 2 3 [])
    rw [sortR_eq_of_perm hperm, sortBy_of_pairwise leR (by simp [leR]; norm_num),
      dedup_of_strict _ (by simp; norm_num)]
  rw [stats_eq, hp]
  simp [ecdf, List.countP_cons]
  norm_num

example : IsGreatest ((fun x => |ecdf [(1 : ℝ), 3] x - ecdf [2] x|) '' {x | x ∈ [(1 : ℝ), 3] ∨ x ∈ [(2 : ℝ)]})
    (RFun.fmax (ks_twosample.stats [(1 : ℝ), 3] [2]).1 (ks_twosample.stats [(1 : ℝ), 3] [2]).2) :=
  ks2_twosided_isGreatest _ _ (Or.inl (by simp))

end real

/-! # §5 IEEE `Float`: the empirical cdfs as quotients `i / n1`, `j / n2` (commit 5af6953)

  Before 5af6953 the merge loop accumulated `f1 += 1.0 / n1`, `f2 += 1.0 / n2`; six additions of
  `1.0 / 6.0` give `0.9999999999999999`, so samples with IDENTICAL empirical cdfs but different
  sizes had the statistic `1.1e-16` instead of `0`, and `TwoSidedAsymptotic` then ran the
  Kolmogorov series at `x ≈ 1e-16` (see `Props/C12/TerminationKS.lean`).  Now `f1 = i as f64 / n1`:
  equal fractions round to the same double.  Evaluated in the kernel on Lean's `Float.Model`
  (bit-compatible with `f64`). -/

section float

/-- full(Float): what the fix removed — the running sum of six `1.0 / 6.0` is not `1.0`, the quotient of the
    count is -/
theorem float_running_sum_residue :
    (((((((0.0 : Float) + 1.0 / 6.0) + 1.0 / 6.0) + 1.0 / 6.0) + 1.0 / 6.0) + 1.0 / 6.0) + 1.0 / 6.0 ≠ 1.0) ∧
    (RFun.ofInt 6 : Float) / (RFun.ofInt 6 : Float) = 1.0 ∧
    (RFun.ofInt 1 : Float) / (RFun.ofInt 1 : Float) = 1.0 := by
  decide +kernel

/-- full(Float): the witness of 5af6953 — `[0.0]` against `[0.0; 6]` in IEEE double arithmetic: both statistics are
    exactly `0.0` (they were `(1.1e-16, 0.0)`) -/
theorem ks2_identical_ecdf_float :
    ks_twosample.stats ([0.0] : List Float) [0.0, 0.0, 0.0, 0.0, 0.0, 0.0] = ((0.0 : Float), (0.0 : Float)) := by
  set_option maxRecDepth 100000 in decide

/-- full(Float): the other replayed pairs with identical empirical cdfs and different sizes — `[1,2,3]` / `[1,1,2,2,3,3]`,
    `[1,2]` / `[1,1,1,2,2,2]`, `[0.5; 10]` / `[0.5; 3]`: statistics exactly `(0.0, 0.0)` -/
theorem ks2_identical_ecdf_float_more :
    ks_twosample.stats ([1.0, 2.0, 3.0] : List Float) [1.0, 1.0, 2.0, 2.0, 3.0, 3.0] = ((0.0 : Float), (0.0 : Float)) ∧
    ks_twosample.stats ([1.0, 2.0] : List Float) [1.0, 1.0, 1.0, 2.0, 2.0, 2.0] = ((0.0 : Float), (0.0 : Float)) ∧
    ks_twosample.stats (List.replicate 10 (0.5 : Float)) (List.replicate 3 (0.5 : Float))
      = ((0.0 : Float), (0.0 : Float)) := by
  set_option maxRecDepth 100000 in decide

/-- full(Float): hence `ks_twosample([0.0], [0.0; 6], TwoSidedAsymptotic, policy)` returns `Ok((0.0, 1.0))` in IEEE double
    arithmetic: the statistic is `0.0`, the `x == 0.0` guard of the Kolmogorov function fires and the series loop is
    never entered (before the fix this call did not return) -/
theorem ks2_identical_ecdf_asymptotic_float (pol : NaNPolicy) :
    ks_twosample ([0.0] : List Float) [0.0, 0.0, 0.0, 0.0, 0.0, 0.0]
        KSTwoSampleAlternativeMethod.TwoSidedAsymptotic pol = .ok ((0.0 : Float), (1.0 : Float)) := by
  rw [ks2_asymptotic _ _ pol (by decide) (by decide) (by simp) (by simp), ks2_identical_ecdf_float]
  have hs : RFun.fmax (0.0 : Float) (0.0 : Float) = (0.0 : Float) := by decide
  simp only [hs]
  have hp : T.ks_test.onesample_kolmogorov_twosided_pvalue (0.0 : Float)
      (((RFun.ofInt (Max.max (listLen ([0.0] : List Float)) (listLen ([0.0, 0.0, 0.0, 0.0, 0.0, 0.0] : List Float))) : Float)
          * (RFun.ofInt (Min.min (listLen ([0.0] : List Float)) (listLen ([0.0, 0.0, 0.0, 0.0, 0.0, 0.0] : List Float))) : Float))
        / ((RFun.ofInt (Max.max (listLen ([0.0] : List Float)) (listLen ([0.0, 0.0, 0.0, 0.0, 0.0, 0.0] : List Float))) : Float)
          + (RFun.ofInt (Min.min (listLen ([0.0] : List Float)) (listLen ([0.0, 0.0, 0.0, 0.0, 0.0, 0.0] : List Float))) : Float)))
      = (1.0 : Float) := by
    -- `+kernel`: the guard multiplies by `sqrt(6/7)`; the model's `sqrt` is only unfolded by the kernel
    decide +kernel
  rw [hp]

end float

end Statrs.Props.C17
