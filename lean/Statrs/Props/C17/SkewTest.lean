/-
  C17 — `skewtest` over ℝ: `√b₁ = m₃ / m₂^{3/2}` (population moments), D'Agostino's transform
  `Y, β₂, W², δ, α, Z = δ·ln(Y/α + √((Y/α)²+1))` exactly as in Spec/Tests.lean, and the p-value is the
  standard-normal tail chosen by `Alternative` on the generated `Normal.cdf` — for every sample of at
  least 8 observations.

  FINDING (`skewtest_zero_skewness_counterexample`): the source replaces `Y = 0` by `Y = 1`
  ("correction from scipy version"), so for a sample whose skewness is exactly 0 (e.g. any sample
  symmetric about its mean) the returned z-score is `Z(1) > 0` instead of the textbook `Z(0) = 0`.
  `skewtest_eq` therefore pins the statistic WITH that substitution, `skewtest_eq_textbook` is the
  textbook statement under `√b₁ ≠ 0`.
-/
import Statrs.Lemmas.Tests
namespace Statrs.Props.C17
open Statrs Statrs.Gen Statrs.Lemmas.Tests
open Spec.Stats Spec.Tests

/-- the standard normal reference law (`Normal::default()`) -/
noncomputable def zRef : Normal ℝ := ⟨0, 1⟩

/-- `calc_root_b1` is the sample skewness `m₃ / m₂^{3/2}` (any data) -/
theorem calc_root_b1_eq (a : List ℝ) : T.skewtest.calc_root_b1 a = rootB1 a := root_b1_real a

/-- samples with fewer than 8 observations are rejected -/
theorem skewtest_too_small [SF ℝ] (a : List ℝ) (alt : Alternative) (pol : NaNPolicy)
    (h : a.length < 8) :
    T.skewtest.skewtest a alt pol = .error SkewTestError.SampleTooSmall := by
  unfold T.skewtest.skewtest
  have hn : listLen a < (8 : Int) := by unfold listLen; omega
  simp only [any_isNaN_real, Bool.false_eq_true, if_false, hn, if_true]

/-- the `Y` the code feeds into the transform: D'Agostino's `Y`, except that `0` is replaced by `1` -/
noncomputable def codeY (a : List ℝ) : ℝ :=
  if dagY a.length (rootB1 a) = 0 then 1 else dagY a.length (rootB1 a)

/-- statistic = D'Agostino's `Z` at `codeY`, p-value = standard normal tail per alternative -/
theorem skewtest_eq [SF ℝ] (a : List ℝ) (alt : Alternative) (pol : NaNPolicy) (h : 8 ≤ a.length) :
    T.skewtest.skewtest a alt pol =
      .ok (dagZ a.length (codeY a),
        match alt with
        | .TwoSided => 2 * (1 - Normal.cdf zRef
            |dagZ a.length (codeY a)|)
        | .Less => Normal.cdf zRef
            (dagZ a.length (codeY a))
        | .Greater => 1 - Normal.cdf zRef
            (dagZ a.length (codeY a))) := by
  unfold T.skewtest.skewtest codeY zRef
  have hn : ¬ listLen a < (8 : Int) := by unfold listLen; omega
  have h8 : (8:ℝ) ≤ a.length := by exact_mod_cast h
  simp only [any_isNaN_real, Bool.false_eq_true, if_false, hn, root_b1_real, rfun_ofInt, cast_listLen]
  have hb : (3.0 : ℝ) * ((RFun.powi (a.length : ℝ) 2 + (27.0:ℝ) * a.length) - (70.0:ℝ)) * ((a.length:ℝ) + (1.0:ℝ)) * ((a.length:ℝ) + (3.0:ℝ))
      / (((((a.length:ℝ) - (2.0:ℝ)) * ((a.length:ℝ) + (5.0:ℝ))) * ((a.length:ℝ) + (7.0:ℝ))) * ((a.length:ℝ) + (9.0:ℝ))) = dagBeta2 a.length := by
    unfold dagBeta2; rw [rfun_powi]; norm_num
  rw [hb]
  have hw : -(1.0:ℝ) + RFun.sqrt ((2.0:ℝ) * (dagBeta2 a.length - (1.0:ℝ))) = dagW2 a.length := by
    unfold dagW2; rw [rfun_sqrt]; norm_num
  rw [hw]
  have hdel : (1.0:ℝ) / RFun.sqrt ((0.5:ℝ) * RFun.ln (dagW2 a.length)) = dagDelta a.length := by
    unfold dagDelta
    rw [rfun_sqrt, rfun_ln, Real.log_sqrt (by linarith [dagW2_gt _ h8])]
    norm_num
    ring_nf
  have hal : RFun.sqrt ((2.0:ℝ) / (dagW2 a.length - (1.0:ℝ))) = dagAlpha a.length := by
    unfold dagAlpha; rw [rfun_sqrt]; norm_num
  have hy : T.skewtest.calc_root_b1 a = rootB1 a := root_b1_real a
  rw [hdel, hal]
  have hY : rootB1 a * RFun.sqrt ((((a.length:ℝ) + (1.0:ℝ)) * ((a.length:ℝ) + (3.0:ℝ))) / ((6.0:ℝ) * ((a.length:ℝ) - (2.0:ℝ)))) = dagY a.length (rootB1 a) := by
    unfold dagY; rw [rfun_sqrt]; norm_num
  rw [hY]
  simp only [real_beq, lit_zero, lit_one, lit_two, rfun_ln, rfun_sqrt, rfun_powi, rfun_abs]
  unfold Normal.default Normal.standard
  simp only [lit_zero, lit_one]
  have hz : ∀ y : ℝ, dagDelta a.length * Real.log (y / dagAlpha a.length + Real.sqrt ((y / dagAlpha a.length) ^ (2:ℤ) + 1)) = dagZ a.length y := by
    intro y; unfold dagZ; norm_cast
  rw [hz]
  cases alt <;> rfl

/-- textbook statement: whenever the sample skewness is not exactly zero, the statistic is the
    textbook D'Agostino z-score -/
theorem skewtest_eq_textbook [SF ℝ] (a : List ℝ) (alt : Alternative) (pol : NaNPolicy)
    (h : 8 ≤ a.length) (hb : rootB1 a ≠ 0) :
    ∃ p, T.skewtest.skewtest a alt pol = .ok (skewZ a, p) := by
  rw [skewtest_eq a alt pol h]
  have h8 : (8:ℝ) ≤ a.length := by exact_mod_cast h
  have hy : dagY a.length (rootB1 a) ≠ 0 := by
    unfold dagY
    apply mul_ne_zero hb
    apply ne_of_gt
    apply Real.sqrt_pos.mpr
    have : (0:ℝ) < (a.length : ℝ) - 2 := by linarith
    positivity
  have hc : codeY a = dagY a.length (rootB1 a) := by unfold codeY; rw [if_neg hy]
  rw [hc]
  exact ⟨_, rfl⟩

/-- closed form of the reference cdf: `Φ(z) = ½ erfc(−z/√2)` through the abstract `erfc` -/
theorem zRef_cdf [SF ℝ] (z : ℝ) : Normal.cdf zRef z = (1 / 2) * SF.erfc (-z / Real.sqrt 2) :=
  normal_cdf_std z

/-! ### the zero-skewness defect -/

theorem dagDelta_pos (n : ℝ) (h : 8 ≤ n) : 0 < dagDelta n := by
  unfold dagDelta
  have hw := dagW2_gt n h
  have h1 : 1 < Real.sqrt (dagW2 n) := by
    rw [show (1:ℝ) = Real.sqrt 1 by simp]
    exact Real.sqrt_lt_sqrt (by norm_num) hw
  have := Real.log_pos h1
  have := Real.sqrt_pos.mpr this
  positivity

theorem dagAlpha_pos (n : ℝ) (h : 8 ≤ n) : 0 < dagAlpha n := by
  unfold dagAlpha
  have hw := dagW2_gt n h
  apply Real.sqrt_pos.mpr
  have : 0 < dagW2 n - 1 := by linarith
  positivity

/-- textbook: zero skewness gives `Z = 0` -/
theorem dagZ_zero (n : ℝ) : dagZ n 0 = 0 := by
  unfold dagZ; simp

/-- `Z` is strictly positive at every positive `Y` (n ≥ 8) -/
theorem dagZ_pos (n y : ℝ) (h : 8 ≤ n) (hy : 0 < y) : 0 < dagZ n y := by
  unfold dagZ
  have hd := dagDelta_pos n h
  have ha := dagAlpha_pos n h
  have hu : 0 < y / dagAlpha n := by positivity
  have hs : 1 ≤ Real.sqrt ((y / dagAlpha n) ^ 2 + 1) := by
    rw [show (1:ℝ) = Real.sqrt 1 by simp]
    apply Real.sqrt_le_sqrt
    have := sq_nonneg (y / dagAlpha n)
    simp only [Real.sqrt_one]; linarith
  have : 0 < Real.log (y / dagAlpha n + Real.sqrt ((y / dagAlpha n) ^ 2 + 1)) :=
    Real.log_pos (by linarith)
  positivity

/-- For EVERY sample of ≥ 8 observations with zero sample skewness the code returns a strictly
    positive z-score, whereas the textbook statistic `skewZ` is `0`. -/
theorem skewtest_zero_skewness_defect [SF ℝ] (a : List ℝ) (alt : Alternative) (pol : NaNPolicy)
    (h : 8 ≤ a.length) (hb : rootB1 a = 0) :
    ∃ z p, T.skewtest.skewtest a alt pol = .ok (z, p) ∧ 0 < z ∧ skewZ a = 0 := by
  have h8 : (8:ℝ) ≤ a.length := by exact_mod_cast h
  refine ⟨_, _, skewtest_eq a alt pol h, ?_, ?_⟩
  · have : codeY a = 1 := by unfold codeY dagY; simp [hb]
    rw [this]; exact dagZ_pos _ _ h8 one_pos
  · unfold skewZ dagY; rw [hb, zero_mul]; exact dagZ_zero _

/-- the symmetric sample `−4, −3, −2, −1, 1, 2, 3, 4` -/
def sym8 : List ℝ := [-4, -3, -2, -1, 1, 2, 3, 4]

theorem sym8_rootB1 : rootB1 sym8 = 0 := by
  unfold rootB1 centralMoment mean sym8
  norm_num

/-- concrete witness: on the symmetric sample `sym8` the returned statistic is NOT the textbook
    z-score (which is 0) -/
theorem skewtest_zero_skewness_counterexample [SF ℝ] (alt : Alternative) (pol : NaNPolicy) :
    ¬ ∃ p, T.skewtest.skewtest sym8 alt pol = .ok (skewZ sym8, p) := by
  obtain ⟨z, p, e, hz, h0⟩ := skewtest_zero_skewness_defect sym8 alt pol (by simp [sym8]) sym8_rootB1
  rintro ⟨p', e'⟩
  rw [e] at e'
  injection e' with e'
  have := congrArg Prod.fst e'
  simp only at this
  rw [h0] at this
  linarith

/-- non-vacuity of `skewtest_eq_textbook`: a skewed sample -/
example [SF ℝ] : ∃ p, T.skewtest.skewtest [0, 0, 0, 0, 0, 0, 0, 8] Alternative.Greater NaNPolicy.Error
    = .ok (skewZ [0, 0, 0, 0, 0, 0, 0, 8], p) := by
  apply skewtest_eq_textbook _ _ _ (by simp)
  unfold rootB1 centralMoment mean
  norm_num

end Statrs.Props.C17
