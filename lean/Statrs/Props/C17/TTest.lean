/-
  C17 — `ttest_onesample` over ℝ: the returned statistic is the textbook
  `t = (x̄ − μ) / √(s² / n)` (`s²` = unbiased sample variance, Spec/Tests.lean + Spec/Stats.lean),
  and the p-value is EXACTLY the `StudentsT(0, 1, n − 1)` tail selected by `Alternative`
  (pinned to the generated `StudentsT.cdf`; a wrong df, a swapped alternative or a dropped
  factor 2 would falsify the statement), for every sample with at least two entries, every
  `popmean`, every alternative and every NaN policy.
-/
import Statrs.Lemmas.Tests
namespace Statrs.Props.C17
open Statrs Statrs.Gen Statrs.Lemmas.Tests

/-- the reference law of the one-sample t-test on `n` observations -/
noncomputable def tRef (n : ℕ) : StudentsT ℝ := ⟨0, 1, (n : ℝ) - 1⟩

/-- p-value of an observed statistic `t` under the reference cdf `F`, per alternative:
    `Less ↦ F t`, `Greater ↦ 1 − F t`, `TwoSided ↦ 2 (1 − F |t|)` -/
noncomputable def tailP (F : ℝ → ℝ) (alt : Alternative) (t : ℝ) : ℝ :=
  match alt with
  | .TwoSided => 2 * (1 - F |t|)
  | .Less => F t
  | .Greater => 1 - F t

/-- too-small samples are rejected (every policy: over ℝ no entry is NaN) -/
theorem ttest_too_small [SF ℝ] (a : List ℝ) (μ : ℝ) (alt : Alternative) (pol : NaNPolicy)
    (h : a.length < 2) :
    T.ttest_onesample.ttest_onesample a μ alt pol = .error TTestOneSampleError.SampleTooSmall := by
  unfold T.ttest_onesample.ttest_onesample
  have hn : listLen a < (2 : Int) := by unfold listLen; omega
  simp only [any_isNaN_real, Bool.false_eq_true, if_false, hn, if_true]

/-- statistic = textbook t, p-value = the Student-t(n−1) tail chosen by the alternative -/
theorem ttest_eq [SF ℝ] (a : List ℝ) (μ : ℝ) (alt : Alternative) (pol : NaNPolicy)
    (h : 2 ≤ a.length) :
    T.ttest_onesample.ttest_onesample a μ alt pol
      = .ok (Spec.Tests.tStat a μ,
             tailP (StudentsT.cdf (tRef a.length)) alt (Spec.Tests.tStat a μ)) := by
  unfold T.ttest_onesample.ttest_onesample
  have hn : ¬ listLen a < (2 : Int) := by unfold listLen; omega
  have hu : usub (listLen a) 1 = (a.length : ℤ) - 1 := by
    unfold usub listLen; rw [if_neg (by omega)]
  have hdf : (0:ℝ) < (a.length : ℝ) - 1 := by
    have : (2:ℝ) ≤ a.length := by exact_mod_cast h
    linarith
  simp only [any_isNaN_real, Bool.false_eq_true, if_false, hn, hu, fsum_real, rfun_ofInt,
    cast_listLen]
  push_cast
  rw [studentsT_new_std _ hdf]
  have hm : a.sum / (a.length : ℝ) = Spec.Stats.mean a := rfl
  have hs : (List.map (fun x => RFun.powi (x - a.sum / (a.length:ℝ)) 2) a).sum
      / ((a.length : ℝ) - 1) = Spec.Stats.variance a := by
    simp only [rfun_powi, Spec.Stats.variance, Spec.Stats.ssd, Spec.Stats.mean]
    norm_cast
  rw [hs, hm]
  simp only [rfun_sqrt, rfun_abs, lit_two, lit_one]
  cases alt <;> rfl

/-- the same p-value written out through the abstract regularised incomplete beta function:
    with `I = I_{ν/(ν+t²)}(ν/2, 1/2)`, `ν = n − 1`, the cdf is `I/2` for `t ≤ 0` and `1 − I/2`
    for `t > 0` -/
theorem tRef_cdf [SF ℝ] (n : ℕ) (t : ℝ) :
    StudentsT.cdf (tRef n) t =
      if t ≤ 0 then (1 / 2) * SF.beta_reg (((n : ℝ) - 1) / 2) (1 / 2) (((n : ℝ) - 1) / ((n : ℝ) - 1 + t * t))
      else 1 - (1 / 2) * SF.beta_reg (((n : ℝ) - 1) / 2) (1 / 2) (((n : ℝ) - 1) / ((n : ℝ) - 1 + t * t)) :=
  studentsT_cdf_std _ _

/-- the reference object is a valid `StudentsT` (what `StudentsT::new(0, 1, n−1)` accepts) -/
theorem tRef_valid (n : ℕ) (h : 2 ≤ n) :
    StudentsT.new (0.0 : ℝ) (1.0 : ℝ) ((n : ℝ) - 1) = .ok (tRef n) := by
  have hdf : ¬ ((n : ℝ) - 1 ≤ 0) := by
    have : (2:ℝ) ≤ n := by exact_mod_cast h
    linarith
  unfold StudentsT.new tRef
  simp only [rfun_isNaN, lit_one, lit_zero]
  norm_num [hdf]

/-- non-vacuity: a concrete sample -/
example [SF ℝ] : T.ttest_onesample.ttest_onesample [1, 2, 6] 1 Alternative.Less NaNPolicy.Error
    = .ok (Spec.Tests.tStat [1, 2, 6] 1,
           StudentsT.cdf (tRef 3) (Spec.Tests.tStat [1, 2, 6] 1)) :=
  ttest_eq [1, 2, 6] 1 Alternative.Less NaNPolicy.Error (by simp)

end Statrs.Props.C17
