/-
  C18 — Fisher's exact test over ℝ (one-sided alternatives), relative to `LnBinomialSpec`, on the
  tables covered by `Props/C16/Fisher.lean` (see there for the `…_partial` side conditions):

  * `p_less + p_greater = 1 + P(X = a)` (one plus the null mass of the observed table);
  * transposition symmetry `[[a,b],[c,d]] ↦ [[a,c],[b,d]]` (rows ↔ columns);
  * `p ≤ 1` for `Less`/`Greater` on every table of non-negative counts (structural: the code
    clamps with `min(·, 1)`), and `0 ≤ p` on the covered tables.
-/
import Statrs.Props.C16.Fisher
namespace Statrs.Props.C18
open Statrs Statrs.Gen Statrs.Lemmas.TestsHyper Statrs.Props.C16
open Spec.Tests Statrs.Spec.TestsSF
open Finset

/-- `P(X ≤ a) + P(X ≥ a) = 1 + P(X = a)` -/
theorem hyperLower_add_upper (N K n a : ℕ) (hK : K ≤ N) (hn : n ≤ N) (ha : a ≤ n) :
    hyperLower N K n a + hyperUpper N K n a = 1 + hyperPmf N K n a := by
  unfold hyperLower hyperUpper
  rw [Finset.sum_range_succ, ← hyperPmf_sum N K n hK hn,
    ← Finset.sum_filter_add_sum_filter_not (range (n + 1)) (fun i => a ≤ i)]
  have : (range (n + 1)).filter (fun i => ¬ a ≤ i) = range a := by
    ext i; simp only [mem_filter, mem_range]; omega
  rw [this]; ring

/-- the two one-sided p-values of one table add up to one plus the null mass of the table -/
theorem fisher_less_add_greater_rel_partial [SF ℝ] (L : LnBinomialSpec) (a b c d : ℕ)
    (h1 : a ≤ d ∨ b = 0 ∨ c = 0) (h2 : b ≤ c ∨ a = 0 ∨ d = 0) :
    ∃ pl pg, T.fisher.fishers_exact (α := ℝ) [(a : ℤ), (b : ℤ), (c : ℤ), (d : ℤ)] .Less = .ok pl
      ∧ T.fisher.fishers_exact (α := ℝ) [(a : ℤ), (b : ℤ), (c : ℤ), (d : ℤ)] .Greater = .ok pg
      ∧ pl + pg = 1 + hyperPmf (a + b + c + d) (a + b) (a + c) a :=
  ⟨_, _, fisher_less_exact_rel_partial L a b c d h1, fisher_greater_exact_rel_partial L a b c d h2,
    hyperLower_add_upper _ _ _ _ (by omega) (by omega) (by omega)⟩

/-- transposing the table does not change the `Less` p-value -/
theorem fisher_transpose_less_rel_partial [SF ℝ] (L : LnBinomialSpec) (a b c d : ℕ)
    (h : a ≤ d ∨ b = 0 ∨ c = 0) :
    T.fisher.fishers_exact (α := ℝ) [(a : ℤ), (c : ℤ), (b : ℤ), (d : ℤ)] .Less
      = T.fisher.fishers_exact (α := ℝ) [(a : ℤ), (b : ℤ), (c : ℤ), (d : ℤ)] .Less := by
  rw [fisher_less_exact_rel_partial L a b c d h,
    fisher_less_exact_rel_partial L a c b d (by tauto),
    show a + c + b + d = a + b + c + d by ring,
    hyperLower_symm _ _ _ _ (by omega) (by omega)]

/-- transposing the table does not change the `Greater` p-value -/
theorem fisher_transpose_greater_rel_partial [SF ℝ] (L : LnBinomialSpec) (a b c d : ℕ)
    (h : b = c ∨ a = 0 ∨ d = 0) :
    T.fisher.fishers_exact (α := ℝ) [(a : ℤ), (c : ℤ), (b : ℤ), (d : ℤ)] .Greater
      = T.fisher.fishers_exact (α := ℝ) [(a : ℤ), (b : ℤ), (c : ℤ), (d : ℤ)] .Greater := by
  rw [fisher_greater_exact_rel_partial L a b c d (by omega),
    fisher_greater_exact_rel_partial L a c b d (by omega),
    show a + c + b + d = a + b + c + d by ring,
    hyperUpper_symm _ _ _ _ (by omega) (by omega)]

/-- the one-sided p-values never exceed 1 (no premise: the code clamps with `min`) -/
theorem fisher_one_sided_le_one [SF ℝ] (a b c d : ℤ) (ha : 0 ≤ a) (hb : 0 ≤ b) (hc : 0 ≤ c)
    (hd : 0 ≤ d) (alt : Alternative) (halt : alt = .Less ∨ alt = .Greater) :
    ∃ p, T.fisher.fishers_exact (α := ℝ) [a, b, c, d] alt = .ok p ∧ p ≤ 1 := by
  have key : ∀ a b c d : ℤ, 0 ≤ a → 0 ≤ b → 0 ≤ c → 0 ≤ d →
      ∃ p, T.fisher.fishers_exact (α := ℝ) [a, b, c, d] .Less = .ok p ∧ p ≤ 1 := by
    intro a b c d ha hb hc hd
    by_cases hz : zeroMargin a b c d
    · exact ⟨_, fishers_exact_early a b c d _ hz, by norm_num⟩
    · have hnew := hyper_new_ok (α := ℝ) ((a + b) + (c + d)) (a + b) (a + c) (by omega) (by omega)
      refine ⟨_, fishers_exact_less_main a b c d hz _ hnew, ?_⟩
      rw [rfun_fmin]
      exact le_trans (min_le_right _ _) (by norm_num)
  rcases halt with rfl | rfl
  · exact key a b c d ha hb hc hd
  · rw [fisher_greater_eq_less_swapped a b c d ha hb hc hd]
    exact key b a d c hb ha hd hc

/-- on the covered tables the `Less` p-value is a probability -/
theorem fisher_less_range_rel_partial [SF ℝ] (L : LnBinomialSpec) (a b c d : ℕ)
    (h : a ≤ d ∨ b = 0 ∨ c = 0) :
    ∃ p, T.fisher.fishers_exact (α := ℝ) [(a : ℤ), (b : ℤ), (c : ℤ), (d : ℤ)] .Less = .ok p
      ∧ 0 ≤ p ∧ p ≤ 1 :=
  ⟨_, fisher_less_exact_rel_partial L a b c d h, hyperLower_range _ _ _ _ (by omega) (by omega)⟩

/-- non-vacuity -/
example [SF ℝ] (L : LnBinomialSpec) :
    T.fisher.fishers_exact (α := ℝ) [1, 3, 2, 4] .Less = T.fisher.fishers_exact (α := ℝ) [1, 2, 3, 4] .Less := by
  simpa using fisher_transpose_less_rel_partial L 1 2 3 4 (by norm_num)

end Statrs.Props.C18
