/-
  C18 — `NaNPolicy` behaves as documented on `ttest_onesample`, `skewtest`, `f_oneway`
  (the three translated tests that take a policy; the generic `ks_onesample`/`ks_twosample`
  prologues are not translated, see Gen/manifest.json):

    some entry is NaN  ∧ Propogate ⇒ `Ok((NaN, NaN))`
    some entry is NaN  ∧ Error     ⇒ `Err(SampleContainsNaN)`
    some entry is NaN  ∧ Emit      ⇒ the test applied to the data with the NaNs filtered out
                                      (under ANY policy: the filtered data is NaN-free)
    no entry is NaN                ⇒ the policy is irrelevant.

  Pure branch logic on the generated prologues: stated for EVERY carrier `α`
  (so also for IEEE `Float`).
-/
import Statrs.Gen.T_ttest_onesample
import Statrs.Gen.T_skewtest
import Statrs.Gen.T_f_oneway
import Mathlib.Tactic
set_option linter.unusedSectionVars false
namespace Statrs.Props.C18
open Statrs Statrs.Gen

section
variable {α : Type} [Add α] [Sub α] [Mul α] [Div α] [Neg α] [LT α] [LE α] [BEq α]
  [DecidableLT α] [DecidableLE α] [OfScientific α] [Inhabited α] [RFun α] [SF α]

/-- the filter the three prologues use for `Emit` -/
def dropNaN (a : List α) : List α := a.filter (fun x => decide (¬ (RFun.isNaN x = true)))

/-- the filtered data contains no NaN -/
theorem dropNaN_any (a : List α) : (dropNaN a).any (fun x => RFun.isNaN x) = false := by
  unfold dropNaN
  rw [List.any_eq_false]
  intro x hx
  have := (List.mem_filter.mp hx).2
  simpa using this

/-- filtering does nothing on NaN-free data -/
theorem dropNaN_of_no_nan (a : List α) (h : a.any (fun x => RFun.isNaN x) = false) :
    dropNaN a = a := by
  unfold dropNaN
  rw [List.filter_eq_self]
  intro x hx
  have := (List.any_eq_false.mp h) x hx
  simpa using this

/-! ### ttest_onesample -/

theorem ttest_nan_propagate (a : List α) (μ : α) (alt : Alternative)
    (h : a.any (fun x => RFun.isNaN x) = true) :
    T.ttest_onesample.ttest_onesample a μ alt NaNPolicy.Propogate
      = .ok ((RFun.nan : α), (RFun.nan : α)) := by
  unfold T.ttest_onesample.ttest_onesample
  simp only [h, if_true]

theorem ttest_nan_error (a : List α) (μ : α) (alt : Alternative)
    (h : a.any (fun x => RFun.isNaN x) = true) :
    T.ttest_onesample.ttest_onesample a μ alt NaNPolicy.Error
      = .error TTestOneSampleError.SampleContainsNaN := by
  unfold T.ttest_onesample.ttest_onesample
  simp only [h, if_true]

/-- without NaNs the policy is irrelevant -/
theorem ttest_policy_irrelevant (a : List α) (μ : α) (alt : Alternative) (p q : NaNPolicy)
    (h : a.any (fun x => RFun.isNaN x) = false) :
    T.ttest_onesample.ttest_onesample a μ alt p = T.ttest_onesample.ttest_onesample a μ alt q := by
  unfold T.ttest_onesample.ttest_onesample
  simp only [h, Bool.false_eq_true, if_false]

/-- `Emit` = the test on the NaN-free data (whatever policy is passed with the clean data) -/
theorem ttest_nan_emit (a : List α) (μ : α) (alt : Alternative) (q : NaNPolicy)
    (h : a.any (fun x => RFun.isNaN x) = true) :
    T.ttest_onesample.ttest_onesample a μ alt NaNPolicy.Emit
      = T.ttest_onesample.ttest_onesample (dropNaN a) μ alt q := by
  have hd := dropNaN_any a
  conv_rhs => unfold T.ttest_onesample.ttest_onesample
  simp only [hd, Bool.false_eq_true, if_false]
  unfold T.ttest_onesample.ttest_onesample
  simp only [h, if_true]
  rfl

/-- `Emit` on data that is already NaN-free is the identity on the data -/
theorem ttest_emit_clean (a : List α) (μ : α) (alt : Alternative)
    (h : a.any (fun x => RFun.isNaN x) = false) :
    T.ttest_onesample.ttest_onesample a μ alt NaNPolicy.Emit
      = T.ttest_onesample.ttest_onesample (dropNaN a) μ alt NaNPolicy.Emit := by
  rw [dropNaN_of_no_nan a h]

/-! ### skewtest -/

theorem skewtest_nan_propagate (a : List α) (alt : Alternative)
    (h : a.any (fun x => RFun.isNaN x) = true) :
    T.skewtest.skewtest a alt NaNPolicy.Propogate = .ok ((RFun.nan : α), (RFun.nan : α)) := by
  unfold T.skewtest.skewtest
  simp only [h, if_true]

theorem skewtest_nan_error (a : List α) (alt : Alternative)
    (h : a.any (fun x => RFun.isNaN x) = true) :
    T.skewtest.skewtest a alt NaNPolicy.Error = .error SkewTestError.SampleContainsNaN := by
  unfold T.skewtest.skewtest
  simp only [h, if_true]

theorem skewtest_policy_irrelevant (a : List α) (alt : Alternative) (p q : NaNPolicy)
    (h : a.any (fun x => RFun.isNaN x) = false) :
    T.skewtest.skewtest a alt p = T.skewtest.skewtest a alt q := by
  unfold T.skewtest.skewtest
  simp only [h, Bool.false_eq_true, if_false]

theorem skewtest_nan_emit (a : List α) (alt : Alternative) (q : NaNPolicy)
    (h : a.any (fun x => RFun.isNaN x) = true) :
    T.skewtest.skewtest a alt NaNPolicy.Emit = T.skewtest.skewtest (dropNaN a) alt q := by
  have hd := dropNaN_any a
  conv_rhs => unfold T.skewtest.skewtest
  simp only [hd, Bool.false_eq_true, if_false]
  unfold T.skewtest.skewtest
  simp only [h, if_true]
  rfl

/-! ### f_oneway (the group-count check `k < 2` comes before the NaN check) -/

/-- group-wise filter used by `Emit` -/
def dropNaNGroups (s : List (List α)) : List (List α) := s.map dropNaN

theorem dropNaNGroups_any (s : List (List α)) :
    (List.flatten (dropNaNGroups s)).any (fun x => RFun.isNaN x) = false := by
  rw [List.any_eq_false]
  intro x hx
  obtain ⟨l, hl, hxl⟩ := List.mem_flatten.mp hx
  obtain ⟨g, _, rfl⟩ := List.mem_map.mp hl
  have := (List.any_eq_false.mp (dropNaN_any g)) x hxl
  simpa using this

theorem f_oneway_too_few_groups (s : List (List α)) (p : NaNPolicy) (hk : s.length < 2) :
    T.f_oneway.f_oneway s p = .error FOneWayTestError.NotEnoughSamples := by
  unfold T.f_oneway.f_oneway
  have : listLen s < (2 : Int) := by unfold listLen; exact_mod_cast hk
  simp only [this, if_true]

theorem f_oneway_nan_propagate (s : List (List α)) (hk : 2 ≤ s.length)
    (h : (List.flatten s).any (fun x => RFun.isNaN x) = true) :
    T.f_oneway.f_oneway s NaNPolicy.Propogate = .ok ((RFun.nan : α), (RFun.nan : α)) := by
  unfold T.f_oneway.f_oneway
  have : ¬ listLen s < (2 : Int) := by unfold listLen; omega
  simp only [this, if_false, h, if_true]

theorem f_oneway_nan_error (s : List (List α)) (hk : 2 ≤ s.length)
    (h : (List.flatten s).any (fun x => RFun.isNaN x) = true) :
    T.f_oneway.f_oneway s NaNPolicy.Error = .error FOneWayTestError.SampleContainsNaN := by
  unfold T.f_oneway.f_oneway
  have : ¬ listLen s < (2 : Int) := by unfold listLen; omega
  simp only [this, if_false, h, if_true]

theorem f_oneway_policy_irrelevant (s : List (List α)) (p q : NaNPolicy)
    (h : (List.flatten s).any (fun x => RFun.isNaN x) = false) :
    T.f_oneway.f_oneway s p = T.f_oneway.f_oneway s q := by
  unfold T.f_oneway.f_oneway
  simp only [h, Bool.false_eq_true, if_false]

theorem f_oneway_nan_emit (s : List (List α)) (q : NaNPolicy)
    (h : (List.flatten s).any (fun x => RFun.isNaN x) = true) :
    T.f_oneway.f_oneway s NaNPolicy.Emit = T.f_oneway.f_oneway (dropNaNGroups s) q := by
  have hd := dropNaNGroups_any s
  have hlen : listLen (dropNaNGroups s) = listLen s := by simp [listLen, dropNaNGroups]
  conv_rhs => unfold T.f_oneway.f_oneway; simp only [hd, hlen]
  conv_lhs => unfold T.f_oneway.f_oneway; simp only [h]
  rfl

end

/-! ### non-vacuity
  The hypothesis `a.any isNaN = true` is satisfiable over IEEE `Float`: see `NaNPolicyFloat.lean`
  (`nan_sample` and the three `example`s).  Over ℝ `isNaN` is constantly `false`, so the
  `…_policy_irrelevant` theorems apply to every real data vector (this is how the C17 theorems hold
  "for every NaN policy"). -/

end Statrs.Props.C18
