/-
  C18 — non-vacuity of the NaN-policy theorems (`NaNPolicy.lean`): over the executable IEEE carrier
  `Float` the hypothesis "some entry is NaN" is satisfiable, so `Propogate ⇒ (NaN, NaN)`,
  `Error ⇒ Err`, `Emit ⇒ test on the filtered data` are genuine statements about the `f64` code.
-/
import Statrs.Props.C18.NaNPolicy
import Statrs.Inst.Float
import Statrs.Gen.SFFloat
namespace Statrs.Props.C18
open Statrs Statrs.Gen

/-- a `Float` sample with a NaN entry -/
theorem nan_sample : ([1.0, (RFun.nan : Float), 2.0] : List Float).any (fun x => RFun.isNaN x) = true := by
  decide

example (μ : Float) (alt : Alternative) :
    T.ttest_onesample.ttest_onesample [1.0, (RFun.nan : Float), 2.0] μ alt NaNPolicy.Propogate
      = .ok ((RFun.nan : Float), (RFun.nan : Float)) :=
  ttest_nan_propagate _ μ alt nan_sample

example (μ : Float) (alt : Alternative) :
    T.ttest_onesample.ttest_onesample [1.0, (RFun.nan : Float), 2.0] μ alt NaNPolicy.Error
      = .error TTestOneSampleError.SampleContainsNaN :=
  ttest_nan_error _ μ alt nan_sample

example (μ : Float) (alt : Alternative) :
    T.ttest_onesample.ttest_onesample [1.0, (RFun.nan : Float), 2.0] μ alt NaNPolicy.Emit
      = T.ttest_onesample.ttest_onesample (dropNaN [1.0, (RFun.nan : Float), 2.0]) μ alt NaNPolicy.Error :=
  ttest_nan_emit _ μ alt _ nan_sample

end Statrs.Props.C18
