/-
  C18 — "every p-value is in [0,1]": the cases not yet in `Props/C18` (EXACT REAL ARITHMETIC; relative to the
  reference-cdf / special-function premise structures where the code goes through `SF`).

  Already proved elsewhere (not repeated): `ttest_pvalue_range_rel` (C18/TTest), `skewtest_pvalue_range_rel`
  (C18/SkewTest), `chisquare_pvalue_range_rel`, `f_oneway_pvalue_range_rel`, `mwu_asymptotic_range_rel`
  (C18/Ranges), `mannwhitneyu_pvalue_range` (C18/RankTests), `fisher_one_sided_le_one`,
  `fisher_less_range_rel_partial` (C18/Fisher), `ks1_pvalue_range` (C17/RankTests: `ks_onesample` clamps).

  New here:
  * `two_sided_cap_range`          the generic two-sided form `min(1, 2·min(p, 1−p))` of a `p ∈ [0,1]` is in `[0,1]`
                                   and equals `2·min(p, 1−p)` (the cap is never active);
  * `fisher_greater_range_rel_partial`, `fisher_twosided_range_rel`   Fisher `Greater` / `TwoSided` in `[0,1]`;
  * `ks_hodge_pvalue_range`        two-sample one-sided asymptotic p-value `∈ (0, 1]`;
  * `ks2_asymptotic_pvalue_range_partial`   `ks_twosample(TwoSidedAsymptotic)` returns `p ∈ [0, 2)` — NOT clamped;
  * `ks_pvalue_gt_one_counterexample`       … and `p > 1` does occur: at `x = d·√n = 0.2` the series is cut after
                                   17 terms (an odd number) and `2·S₁₇ > 1` in exact arithmetic.  Replayed on the
                                   crate: two samples of size 50 with `D = 2/50` (`x = 0.2`) give
                                   `p = 1.0000000000100149` (known finding "ks_twosample asymptotic p > 1").
-/
import Statrs.Props.C18.Fisher
import Statrs.Props.C16.FisherTwoSided
import Statrs.Props.C17.KS
import Statrs.Props.C17.RankTests
import Statrs.Props.C12.TerminationKS
namespace Statrs.Props.C18
open Statrs Statrs.Gen Statrs.Model Statrs.Lemmas.TestsHyper Statrs.Props.C16 Statrs.Props.C12
open Spec.Tests Statrs.Spec.TestsSF Statrs.Lemmas.Unimodal Statrs.Lemmas.UnimodalSums

/-- full(ℝ): the generic two-sided p-value `min(1, 2·min(p, 1 − p))` built from a one-sided `p ∈ [0,1]` lies in
    `[0,1]`, and the cap at 1 is never active. -/
theorem two_sided_cap_range (p : ℝ) (h0 : 0 ≤ p) (h1 : p ≤ 1) :
    0 ≤ min 1 (2 * min p (1 - p)) ∧ min 1 (2 * min p (1 - p)) ≤ 1 ∧
    min 1 (2 * min p (1 - p)) = 2 * min p (1 - p) := by
  have hm : min p (1 - p) ≤ 1 / 2 := by
    rcases le_total p (1 - p) with h | h
    · rw [min_eq_left h]; linarith
    · rw [min_eq_right h]; linarith
  have hm0 : 0 ≤ min p (1 - p) := le_min h0 (by linarith)
  have he : min 1 (2 * min p (1 - p)) = 2 * min p (1 - p) := min_eq_right (by linarith)
  rw [he]
  exact ⟨by linarith, by linarith, rfl⟩

/-- full(ℝ): the same for two one-sided values with `p_less + p_greater ≥ 1` (discrete tests: `= 1 +` the null mass
    of the observed value): `min(1, 2·min(p_less, p_greater)) ∈ [0,1]`. -/
theorem two_sided_cap_range' (pl pg : ℝ) (h0 : 0 ≤ pl) (h0' : 0 ≤ pg) :
    0 ≤ min 1 (2 * min pl pg) ∧ min 1 (2 * min pl pg) ≤ 1 :=
  ⟨le_min zero_le_one (by have := le_min h0 h0'; linarith), min_le_left _ _⟩

/-! ## Fisher -/

/-- partial(tables with `b ≤ c ∨ a = 0 ∨ d = 0`, where the model's `Hypergeometric.cdf` is the true cdf over ℝ):
    rel(`LnBinomialSpec`) the `Greater` p-value of Fisher's exact test is a probability. -/
theorem fisher_greater_range_rel_partial [SF ℝ] (L : LnBinomialSpec) (a b c d : ℕ)
    (h : b ≤ c ∨ a = 0 ∨ d = 0) :
    ∃ p, T.fisher.fishers_exact (α := ℝ) [(a : ℤ), (b : ℤ), (c : ℤ), (d : ℤ)] .Greater = .ok p
      ∧ 0 ≤ p ∧ p ≤ 1 := by
  refine ⟨_, fisher_greater_exact_rel_partial L a b c d h, ?_⟩
  rw [← hyperLower_reflect a b c d]
  exact hyperLower_range _ _ _ _ (by omega) (by omega)

/-- rel(`UnimodalPmfSpec` for the model's hypergeometric pmf/cdf of the table's margins): every branch of
    `fishers_exact(table, TwoSided)` returns a value in `[0,1]` (and the call terminates: `hfuel` is the model's
    fuel bound for the linear scan above the mode). -/
theorem fisher_twosided_range_rel [SF ℝ] (a b c d : ℕ)
    (hz : ¬ zeroMargin (a : ℤ) b c d)
    (S : UnimodalPmfSpec (hpmf (tableDist a b c d)) (hcdf (tableDist a b c d))
      (max 0 ((a : ℤ) - d)) (min ((a : ℤ) + b) ((a : ℤ) + c)) (tableMode a b c d))
    (hsize : (a : ℤ) + c ≤ 2 ^ 64)
    (hfuel : (a : ℤ) < tableMode a b c d ∨ tableMode a b c d < loopFuel) :
    ∃ v, T.fisher.fishers_exact (α := ℝ) [(a : ℤ), b, c, d] Alternative.TwoSided = .ok v ∧ 0 ≤ v ∧ v ≤ 1 := by
  obtain ⟨v, hv, hlo, hhi, -⟩ := fisher_twosided_bounds_rel a b c d hz S hsize hfuel
  refine ⟨v, hv, le_trans ?_ hlo, le_trans hhi (S.massLE_le_one _)⟩
  unfold massLT
  apply Finset.sum_nonneg
  intro k hk
  have hk' := (Finset.mem_Icc.mp (Finset.mem_filter.mp hk).1).1
  exact S.nonneg k (le_trans S.lo_nonneg hk')

/-- full(ℝ): on a table with a zero margin every alternative returns `p = 1`. -/
theorem fisher_zero_margin_range [SF ℝ] (a b c d : ℤ) (alt : Alternative) (h : zeroMargin a b c d) :
    ∃ p, T.fisher.fishers_exact (α := ℝ) [a, b, c, d] alt = .ok p ∧ 0 ≤ p ∧ p ≤ 1 :=
  ⟨_, fishers_exact_early a b c d alt h, by norm_num, by norm_num⟩

/-! ## Kolmogorov–Smirnov, two samples -/

/-- full(ℝ): the one-sided asymptotic two-sample p-value (Hodges 1958, eq. 5.3) is `exp(−(…))` with a non-negative
    exponent for `d ≥ 0`, `m, n > 0`: it lies in `(0, 1]`. -/
theorem ks_hodge_pvalue_range (d m n : ℝ) (hd : 0 ≤ d) (hm : 0 < m) (hn : 0 < n) :
    0 < T.ks_test.twosample_hodge_equation_53_onesided_pvalue (α := ℝ) d m n ∧
    T.ks_test.twosample_hodge_equation_53_onesided_pvalue (α := ℝ) d m n ≤ 1 := by
  rw [Statrs.Props.C17.ks_hodge_eq]
  refine ⟨Real.exp_pos _, ?_⟩
  rw [Real.exp_le_one_iff]
  have h1 : 0 ≤ d * Real.sqrt (m * n / (m + n)) := mul_nonneg hd (Real.sqrt_nonneg _)
  have h2 : 0 ≤ 2 * (d * Real.sqrt (m * n / (m + n))) / 3 * (m + 2 * n) / Real.sqrt (m * n * (m + n)) := by
    apply div_nonneg _ (Real.sqrt_nonneg _)
    apply mul_nonneg _ (by linarith)
    linarith
  nlinarith [sq_nonneg (d * Real.sqrt (m * n / (m + n)))]


/-- partial(`p ≤ 1` is missing: false, see `ks_pvalue_gt_one_counterexample`; the statistic must not be in the MODEL's
    hang region `0 < x < 1.7e-4`): exact arithmetic; `ks_twosample(…, TwoSidedAsymptotic)` returns the unclamped
    Kolmogorov value, which lies in `[0, 2)`. -/
theorem ks2_asymptotic_pvalue_range_partial [SF ℝ] (d1 d2 : List ℝ) (pol : NaNPolicy) (hn1 : d1 ≠ []) (hn2 : d2 ≠ [])
    (hx : ∀ D en : ℝ, D = RFun.fmax (ks_twosample.stats d1 d2).1 (ks_twosample.stats d1 d2).2 →
      en = ((RFun.ofInt (Max.max (listLen d1) (listLen d2)) : ℝ) * (RFun.ofInt (Min.min (listLen d1) (listLen d2)) : ℝ))
          / ((RFun.ofInt (Max.max (listLen d1) (listLen d2)) : ℝ) + (RFun.ofInt (Min.min (listLen d1) (listLen d2)) : ℝ)) →
      D * Real.sqrt en = 0 ∨ 1.7e-4 ≤ |D * Real.sqrt en|) :
    ∃ s pv, ks_twosample d1 d2 KSTwoSampleAlternativeMethod.TwoSidedAsymptotic pol = .ok (s, pv) ∧
      0 ≤ pv ∧ pv < 2 := by
  have key : ∀ D en : ℝ, (D * Real.sqrt en = 0 ∨ 1.7e-4 ≤ |D * Real.sqrt en|) →
      0 ≤ T.ks_test.onesample_kolmogorov_twosided_pvalue D en ∧
      T.ks_test.onesample_kolmogorov_twosided_pvalue D en < 2 := by
    intro D en h
    rcases h with h0 | h1
    · rw [ks_pvalue_zero _ _ h0]; norm_num
    · have hx0 : D * Real.sqrt en ≠ 0 := by
        intro h; rw [h, abs_zero] at h1; norm_num at h1
      obtain ⟨a, -, c⟩ := ks_pvalue_range_partial _ _ hx0 (ksStop_le_fuel h1)
      exact ⟨a, c⟩
  exact ⟨_, _, Statrs.Props.C17.ks2_asymptotic d1 d2 pol (Statrs.Props.C17.real_clean _)
    (Statrs.Props.C17.real_clean _) hn1 hn2, key _ _ (hx _ _ rfl rfl)⟩

/-! ### the Kolmogorov value exceeds 1 -/

private theorem exp_bounds_2_25 :
    (0.92311634638663578 : ℝ) ≤ Real.exp (-(2 / 25)) ∧ Real.exp (-(2 / 25)) ≤ (0.92311634638663579 : ℝ) := by
  have h := Real.exp_bound (x := -(2 / 25 : ℝ)) (by rw [abs_neg, abs_of_pos] <;> norm_num) (n := 13) (by norm_num)
  rw [abs_le] at h
  have hs : ∑ m ∈ Finset.range 13, (-(2 / 25 : ℝ)) ^ m / (m.factorial : ℝ)
      = 25737926300228151878779 / 27881562709808349609375 := by
    simp only [Finset.sum_range_succ, Finset.sum_range_zero, Nat.factorial]
    norm_num
  rw [hs] at h
  have he : |(-(2 / 25 : ℝ))| ^ 13 * (((13 : ℕ).succ : ℝ) / (((13 : ℕ).factorial : ℝ) * ((13 : ℕ) : ℝ)))
      ≤ 1e-24 := by
    rw [abs_neg, abs_of_pos (by norm_num)]
    simp only [Nat.factorial]; norm_num
  constructor
  · have := h.1; norm_num at this he ⊢; linarith
  · have := h.2; norm_num at this he ⊢; linarith

private theorem ksTerm_one_fifth (k : ℕ) : ksTerm (1 / 5) k = Real.exp (-(2 / 25)) ^ (k ^ 2) := by
  unfold ksTerm
  rw [← Real.exp_nat_mul]
  congr 1; push_cast; ring

private theorem ksStop_one_fifth : ksStop (1 / 5) = 17 := by
  unfold ksStop
  have h : ⌊ksC / |(1 / 5 : ℝ)|⌋₊ = 16 := by
    rw [Nat.floor_eq_iff (div_pos ksC_pos (by norm_num)).le, abs_of_pos (by norm_num)]
    have h1 := ksC_ge; have h2 := ksC_lt
    constructor
    · rw [le_div_iff₀ (by norm_num)]; norm_num at h1 ⊢; linarith
    · rw [div_lt_iff₀ (by norm_num)]; norm_num at h2 ⊢; linarith
  rw [h]

set_option maxRecDepth 100000 in
set_option exponentiation.threshold 300 in
private theorem ksSum_one_fifth_gt : 1 / 2 < ksSum (1 / 5) 17 := by
  have hq := exp_bounds_2_25
  have hq0 : 0 < Real.exp (-(2 / 25)) := Real.exp_pos _
  have hS : ksSum (1 / 5) 17 = (let q := Real.exp (-(2 / 25)); q ^ 1 - q ^ 4 + q ^ 9 - q ^ 16 + q ^ 25 - q ^ 36 + q ^ 49 - q ^ 64 + q ^ 81 - q ^ 100 + q ^ 121 - q ^ 144 + q ^ 169 - q ^ 196 + q ^ 225 - q ^ 256 + q ^ 289) := by
    simp only [ksSum, Finset.sum_range_succ, Finset.sum_range_zero, ksTerm_one_fifth]
    norm_num
    ring
  rw [hS]
  simp only
  set q := Real.exp (-(2 / 25)) with hqdef
  have l1 : (0.92311634638663578 : ℝ) ^ 1 ≤ q ^ 1 := pow_le_pow_left₀ (by norm_num) hq.1 1
  have l9 : (0.92311634638663578 : ℝ) ^ 9 ≤ q ^ 9 := pow_le_pow_left₀ (by norm_num) hq.1 9
  have l25 : (0.92311634638663578 : ℝ) ^ 25 ≤ q ^ 25 := pow_le_pow_left₀ (by norm_num) hq.1 25
  have l49 : (0.92311634638663578 : ℝ) ^ 49 ≤ q ^ 49 := pow_le_pow_left₀ (by norm_num) hq.1 49
  have l81 : (0.92311634638663578 : ℝ) ^ 81 ≤ q ^ 81 := pow_le_pow_left₀ (by norm_num) hq.1 81
  have l121 : (0.92311634638663578 : ℝ) ^ 121 ≤ q ^ 121 := pow_le_pow_left₀ (by norm_num) hq.1 121
  have l169 : (0.92311634638663578 : ℝ) ^ 169 ≤ q ^ 169 := pow_le_pow_left₀ (by norm_num) hq.1 169
  have l225 : (0.92311634638663578 : ℝ) ^ 225 ≤ q ^ 225 := pow_le_pow_left₀ (by norm_num) hq.1 225
  have l289 : (0.92311634638663578 : ℝ) ^ 289 ≤ q ^ 289 := pow_le_pow_left₀ (by norm_num) hq.1 289
  have u4 : q ^ 4 ≤ (0.92311634638663579 : ℝ) ^ 4 := pow_le_pow_left₀ hq0.le hq.2 4
  have u16 : q ^ 16 ≤ (0.92311634638663579 : ℝ) ^ 16 := pow_le_pow_left₀ hq0.le hq.2 16
  have u36 : q ^ 36 ≤ (0.92311634638663579 : ℝ) ^ 36 := pow_le_pow_left₀ hq0.le hq.2 36
  have u64 : q ^ 64 ≤ (0.92311634638663579 : ℝ) ^ 64 := pow_le_pow_left₀ hq0.le hq.2 64
  have u100 : q ^ 100 ≤ (0.92311634638663579 : ℝ) ^ 100 := pow_le_pow_left₀ hq0.le hq.2 100
  have u144 : q ^ 144 ≤ (0.92311634638663579 : ℝ) ^ 144 := pow_le_pow_left₀ hq0.le hq.2 144
  have u196 : q ^ 196 ≤ (0.92311634638663579 : ℝ) ^ 196 := pow_le_pow_left₀ hq0.le hq.2 196
  have u256 : q ^ 256 ≤ (0.92311634638663579 : ℝ) ^ 256 := pow_le_pow_left₀ hq0.le hq.2 256
  have final : (1 / 2 : ℝ) < (0.92311634638663578 : ℝ) ^ 1 - (0.92311634638663579 : ℝ) ^ 4 + (0.92311634638663578 : ℝ) ^ 9 - (0.92311634638663579 : ℝ) ^ 16 + (0.92311634638663578 : ℝ) ^ 25 - (0.92311634638663579 : ℝ) ^ 36 + (0.92311634638663578 : ℝ) ^ 49 - (0.92311634638663579 : ℝ) ^ 64 + (0.92311634638663578 : ℝ) ^ 81 - (0.92311634638663579 : ℝ) ^ 100 + (0.92311634638663578 : ℝ) ^ 121 - (0.92311634638663579 : ℝ) ^ 144 + (0.92311634638663578 : ℝ) ^ 169 - (0.92311634638663579 : ℝ) ^ 196 + (0.92311634638663578 : ℝ) ^ 225 - (0.92311634638663579 : ℝ) ^ 256 + (0.92311634638663578 : ℝ) ^ 289 := by
    norm_num
  generalize (0.92311634638663578 : ℝ) ^ 1 = a1 at l1 final
  generalize (0.92311634638663578 : ℝ) ^ 9 = a9 at l9 final
  generalize (0.92311634638663578 : ℝ) ^ 25 = a25 at l25 final
  generalize (0.92311634638663578 : ℝ) ^ 49 = a49 at l49 final
  generalize (0.92311634638663578 : ℝ) ^ 81 = a81 at l81 final
  generalize (0.92311634638663578 : ℝ) ^ 121 = a121 at l121 final
  generalize (0.92311634638663578 : ℝ) ^ 169 = a169 at l169 final
  generalize (0.92311634638663578 : ℝ) ^ 225 = a225 at l225 final
  generalize (0.92311634638663578 : ℝ) ^ 289 = a289 at l289 final
  generalize (0.92311634638663579 : ℝ) ^ 4 = a4 at u4 final
  generalize (0.92311634638663579 : ℝ) ^ 16 = a16 at u16 final
  generalize (0.92311634638663579 : ℝ) ^ 36 = a36 at u36 final
  generalize (0.92311634638663579 : ℝ) ^ 64 = a64 at u64 final
  generalize (0.92311634638663579 : ℝ) ^ 100 = a100 at u100 final
  generalize (0.92311634638663579 : ℝ) ^ 144 = a144 at u144 final
  generalize (0.92311634638663579 : ℝ) ^ 196 = a196 at u196 final
  generalize (0.92311634638663579 : ℝ) ^ 256 = a256 at u256 final
  linarith

/-- counterexample (C18 "every p-value is in [0,1]"): exact arithmetic.  At `d = 1/5`, `n = 1` (`x = 0.2`) the loop stops
    after 17 terms — an ODD number, so the partial sum lies above the limit of the alternating series — and
    `onesample_kolmogorov_twosided_pvalue = 2·S₁₇ > 1`.  `ks_twosample(…, TwoSidedAsymptotic)` returns this value
    unclamped (`ks2_asymptotic`): e.g. two samples of size 50 with `D = 2/50` have `x = 0.2`; the crate returns
    `p = 1.0000000000100149` there (`ks_onesample` is not affected: it clamps, `ks1_pvalue_range`). -/
theorem ks_pvalue_gt_one_counterexample :
    1 < T.ks_test.onesample_kolmogorov_twosided_pvalue (1 / 5 : ℝ) 1 := by
  have hx : (1 / 5 : ℝ) * Real.sqrt 1 = 1 / 5 := by rw [Real.sqrt_one, mul_one]
  have hf : ksStop ((1 / 5 : ℝ) * Real.sqrt 1) ≤ loopFuel := by
    rw [hx, ksStop_one_fifth]; unfold loopFuel; omega
  rw [ks_pvalue_value _ _ (by rw [hx]; norm_num) hf, hx, ksStop_one_fifth]
  have := ksSum_one_fifth_gt
  linarith

end Statrs.Props.C18
