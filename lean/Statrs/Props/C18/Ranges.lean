/-
  C18 — "every p-value is in [0,1]" for the upper-tail tests over ℝ, relative to the range facts of
  the abstract special functions: `chisquare` (`GammaSpec`: `0 ≤ P(a,x) ≤ 1`), `f_oneway`
  (`BetaSpec`: `0 ≤ I_x(a,b) ≤ 1` on `[0,1]`), `calc_mwu_asymptotic_pvalue` (`ErfcSpec`).
  (t-test: `TTest.lean`; skewness test: `SkewTest.lean`; Fisher: `Fisher.lean`.)
-/
import Statrs.Props.C17.ChiSquare
import Statrs.Props.C17.FOneway
import Statrs.Props.C17.MannWhitney
import Statrs.Props.C18.SkewTest
import Statrs.Spec.SFSpec_incomplete
namespace Statrs.Props.C18
open Statrs Statrs.Gen Statrs.Lemmas.Tests Statrs.Props.C17
open Spec.Stats Spec.Tests
open Statrs.Spec.Incomplete Statrs.Spec.Erfc

theorem chiRef_cdf_range_rel [SF ℝ] (G : GammaSpec) (dof x : ℝ) (h : 0 < dof) :
    0 ≤ ChiSquared.cdf (chiRef dof) x ∧ ChiSquared.cdf (chiRef dof) x ≤ 1 := by
  rw [chiRef_cdf]
  split_ifs with hx
  · constructor <;> norm_num
  · have hx' : 0 < x * (1 / 2) := by have := not_le.mp hx; positivity
    exact ⟨G.lr_nonneg _ _ (by positivity) hx', G.lr_le_one _ _ (by positivity) hx'⟩

/-- the chi-square p-value is a probability -/
theorem chisquare_pvalue_range_rel [SF ℝ] (G : GammaSpec) (obs : List ℤ) (fexp : Option (List ℝ))
    (ddof : Option ℤ) (hn : 2 ≤ obs.length)
    (hexp : ∀ e, fexp = some e → e.length = obs.length ∧ max 0 ⌊e.sum⌋ = obs.sum)
    (hd : ∀ d, ddof = some d → d < (obs.length : ℤ) - 1) :
    ∃ s p, T.chisquare.chisquare obs fexp ddof = .ok (s, p) ∧ 0 ≤ p ∧ p ≤ 1 := by
  refine ⟨_, _, chisquare_eq obs fexp ddof hn hexp hd, ?_⟩
  have hpos : (0:ℝ) < (((obs.length : ℤ) - 1 - ddof.getD 0 : ℤ) : ℝ) := by
    have : (0:ℤ) < (obs.length : ℤ) - 1 - ddof.getD 0 := by
      rcases ddof with _ | d
      · simp only [Option.getD_none]; omega
      · have := hd d rfl; simp only [Option.getD_some]; omega
    exact_mod_cast this
  have := chiRef_cdf_range_rel G _ (chiSqStat (List.map (Int.cast : ℤ → ℝ) obs)
    (fexp.getD (List.replicate obs.length (((obs.sum : ℤ) : ℝ) / obs.length)))) hpos
  constructor <;> linarith

theorem fRef_cdf_range_rel [SF ℝ] (B : BetaSpec) (k n : ℕ) (hk : 2 ≤ k) (hn : k < n) (x : ℝ) :
    0 ≤ FisherSnedecor.cdf (fRef k n) x ∧ FisherSnedecor.cdf (fRef k n) x ≤ 1 := by
  rw [fRef_cdf]
  have h1 : (0:ℝ) < (k : ℝ) - 1 := by
    have : (2:ℝ) ≤ k := by exact_mod_cast hk
    linarith
  have h2 : (0:ℝ) < (n : ℝ) - (k : ℝ) := by
    have : (k:ℝ) < n := by exact_mod_cast hn
    linarith
  split_ifs with hx
  · constructor <;> norm_num
  · have hx := not_lt.mp hx
    have hnum : 0 ≤ ((k : ℝ) - 1) * x := by positivity
    have hden : 0 < ((k : ℝ) - 1) * x + ((n : ℝ) - (k : ℝ)) := by linarith
    have hx0 : 0 ≤ ((k : ℝ) - 1) * x / (((k : ℝ) - 1) * x + ((n : ℝ) - (k : ℝ))) := by positivity
    have hx1 : ((k : ℝ) - 1) * x / (((k : ℝ) - 1) * x + ((n : ℝ) - (k : ℝ))) ≤ 1 := by
      rw [div_le_one hden]; linarith
    exact ⟨B.nonneg _ _ _ (by positivity) (by positivity) hx0 hx1,
      B.le_one _ _ _ (by positivity) (by positivity) hx0 hx1⟩

/-- the ANOVA p-value is a probability -/
theorem f_oneway_pvalue_range_rel [SF ℝ] (B : BetaSpec) (s : List (List ℝ)) (pol : NaNPolicy)
    (hk : 2 ≤ s.length) (h1 : ∀ g ∈ s, 1 ≤ g.length) (h2 : ∃ g ∈ s, 2 ≤ g.length)
    (hc : ∀ g ∈ s, 2 ≤ g.length → ¬ ∃ c, ∀ x ∈ g, x = c) :
    ∃ f p, T.f_oneway.f_oneway s pol = .ok (f, p) ∧ 0 ≤ p ∧ p ≤ 1 := by
  refine ⟨_, _, f_oneway_eq s pol hk h1 h2 hc, ?_⟩
  have := fRef_cdf_range_rel B s.length s.flatten.length hk (len_lt_flatten s h1 h2) (fStat s)
  constructor <;> linarith

/-- the asymptotic Mann–Whitney p-value is a probability -/
theorem mwu_asymptotic_range_rel [SF ℝ] (S : ErfcSpec) (u : ℝ) (n1 n2 : ℤ) (t : List ℤ)
    (ht : ∀ x ∈ t, 0 ≤ x) (cont : Bool) :
    0 ≤ T.mannwhitneyu.calc_mwu_asymptotic_pvalue (α := ℝ) u n1 n2 t cont
    ∧ T.mannwhitneyu.calc_mwu_asymptotic_pvalue (α := ℝ) u n1 n2 t cont ≤ 1 := by
  rw [mwu_asymptotic_eq u n1 n2 t ht cont]
  have := zcdf_range_rel S ((u - (n1 * n2 : ℝ) / 2 - (if cont = true then 1 / 2 else 0))
    / Real.sqrt ((n1 * n2 : ℝ) / 12 * (((n1 : ℝ) + n2 + 1)
      - (((t.map (fun x => x ^ 3 - x)).sum : ℤ) : ℝ) / (((n1 : ℝ) + n2) * ((n1 : ℝ) + n2 - 1)))))
  constructor <;> linarith

/-- non-vacuity: the premise structures have models (`Spec.Incomplete.specs_consistent`,
    `Spec.TestsSF.erfcSpec_witness`); data: -/
example [SF ℝ] (G : GammaSpec) :
    ∃ s p, T.chisquare.chisquare (α := ℝ) [3, 5, 4] none none = .ok (s, p) ∧ 0 ≤ p ∧ p ≤ 1 :=
  chisquare_pvalue_range_rel G [3, 5, 4] none none (by simp) (by simp) (by simp)

end Statrs.Props.C18
