/-
  C18 — `rankdata_mwu` (stats_tests/mannwhitneyu.rs) computes exactly the `Average` ranks of
  `Data::ranks` (statistics/slice_statistics.rs) on the pooled sample: two independent
  implementations in the crate, one specification.  Carrier ℝ, all nonempty inputs; both sides
  are the hand models of `Statrs.Model.RankTests`.
-/
import Statrs.Props.C14.RanksModel
import Statrs.Props.C18.RankTests
set_option linter.unusedVariables false
namespace Statrs.Props.C18
open Statrs Statrs.Gen Statrs.Model

/-- the ranks returned by `rankdata_mwu y` are the `RankTieBreaker::Average` ranks of `y` -/
theorem rankdata_mwu_eq_average_ranks (y : List ℝ) (hy : y ≠ []) :
    ∃ ranks t, rankdata_mwu y = .ok (ranks, t) ∧ ranks.length = y.length ∧
      ∀ i (hi : i < y.length) (hi' : i < ranks.length),
        ranks[i] = listGet (Data.ranks (⟨y⟩ : Data ℝ) RankTieBreaker.Average) (i : Int) := by
  obtain ⟨ranks, t, h1, h2, _, h4⟩ := rankdata_mwu_avg_rank y hy
  refine ⟨ranks, t, h1, h2, ?_⟩
  intro i hi hi'
  rw [h4 i hi hi', Statrs.Props.C14.RanksModel.ranks_average y i hi]
  ring

example : ∃ y : List ℝ, y ≠ [] := ⟨[1, 2, 2], by simp⟩

end Statrs.Props.C18
