/-
  C18 — the hand model of `mannwhitneyu` / `rankdata_mwu` (Statrs.Model.RankTests).
-/
import Statrs.Model.RankTests
import Statrs.Real.Simp
import Statrs.Lemmas.RankMWU
import Statrs.Props.C17.MannWhitney
import Statrs.Lemmas.TestsMWU
import Mathlib.Tactic
set_option linter.unusedSectionVars false
set_option linter.unusedVariables false
namespace Statrs.Props.C18
open Statrs Statrs.Gen Statrs.Model Statrs.Lemmas.Select Statrs.Lemmas.RankMWU

/-! ## 1. branch logic, every carrier -/
section generic
variable {α : Type} [Add α] [Sub α] [Mul α] [Div α] [Neg α] [LT α] [LE α] [BEq α]
  [DecidableLT α] [DecidableLE α] [OfScientific α] [Inhabited α] [RFun α] [SF α]

/-- the statistic `U₁ = R₁ − n₁(n₁+1)/2` computed from the pooled ranks -/
def mwuU1 (ranks : List α) (n1 : Int) : α :=
  fsum (RFun.sumZero : α) (ranks.take (Int.toNat n1)) - (RFun.ofInt (udiv (n1 * (n1 + (1 : Int))) (2 : Int)) : α)

/-- the quantity `u` handed to the p-value helper and the factor `f` -/
def mwuUF (u1 : α) (n1 n2 : Int) (alt : Alternative) : α × Int :=
  match alt with
  | Alternative.Greater => (u1, 1)
  | Alternative.Less => ((RFun.ofInt (n1 * n2) : α) - u1, 1)
  | Alternative.TwoSided => (RFun.fmax u1 ((RFun.ofInt (n1 * n2) : α) - u1), 2)

/-- the raw (unclamped, unscaled) p-value selected by the method, `none` for the
    `ExactMethodWithTiesInData` error -/
def mwuRawP (u : α) (n1 n2 : Int) (t : List Int) (m : MannWhitneyUMethod) : Option α :=
  let ties : Bool := t.any (fun x => decide ((1 : Int) < x))
  match m with
  | MannWhitneyUMethod.Automatic =>
    if ((8 : Int) < n1 ∧ (8 : Int) < n2) ∨ ties = true then
      some (T.mannwhitneyu.calc_mwu_asymptotic_pvalue (α := α) u n1 n2 t true)
    else some (T.mannwhitneyu.calc_mwu_exact_pvalue (α := α) u n1 n2)
  | MannWhitneyUMethod.Exact =>
    if ties = true then none else some (T.mannwhitneyu.calc_mwu_exact_pvalue (α := α) u n1 n2)
  | MannWhitneyUMethod.AsymptoticInclContinuityCorrection =>
    some (T.mannwhitneyu.calc_mwu_asymptotic_pvalue (α := α) u n1 n2 t true)
  | MannWhitneyUMethod.AsymptoticExclContinuityCorrection =>
    some (T.mannwhitneyu.calc_mwu_asymptotic_pvalue (α := α) u n1 n2 t false)

/-- the end of `mannwhitneyu`: error, or `(U₁, clamp(p·f, 0, 1))` -/
def mwuResult (u1 : α) (f : Int) : Option α → Except MannWhitneyUError (α × α)
  | none => .error MannWhitneyUError.ExactMethodWithTiesInData
  | some p => .ok (u1, ntClamp (p * (RFun.ofInt f : α)) (0.0 : α) (1.0 : α))

/-- empty sample: `SampleTooSmall`, before anything else is looked at -/
theorem mannwhitneyu_empty (x y : List α) (m : MannWhitneyUMethod) (a : Alternative)
    (h : x = [] ∨ y = []) : mannwhitneyu x y m a = .error MannWhitneyUError.SampleTooSmall := by
  unfold mannwhitneyu
  have : listLen x = (0 : Int) ∨ listLen y = (0 : Int) := by
    rcases h with h | h <;> simp [h, listLen]
  simp only [this, if_true]

/-- COMPLETE DISPATCH: for nonempty samples the result of `mannwhitneyu` is determined by
    `rankdata_mwu (x ++ y)`: its error is passed on; otherwise the statistic is `U₁`, and the p-value
    is the helper's value times `f`, clamped to `[0,1]` — or the error `ExactMethodWithTiesInData`. -/
theorem mannwhitneyu_nonempty (x y : List α) (m : MannWhitneyUMethod) (a : Alternative)
    (hx : x ≠ []) (hy : y ≠ []) :
    mannwhitneyu x y m a =
      match rankdata_mwu (x ++ y) with
      | .error e => .error e
      | .ok (ranks, t) =>
        mwuResult (mwuU1 ranks (listLen x)) (mwuUF (mwuU1 ranks (listLen x)) (listLen x) (listLen y) a).2
          (mwuRawP (mwuUF (mwuU1 ranks (listLen x)) (listLen x) (listLen y) a).1
            (listLen x) (listLen y) t m) := by
  unfold mannwhitneyu
  have h0 : ¬ (listLen x = (0 : Int) ∨ listLen y = (0 : Int)) := by
    simp only [listLen]
    rintro (h | h)
    · exact hx (List.length_eq_zero_iff.1 (by exact_mod_cast h))
    · exact hy (List.length_eq_zero_iff.1 (by exact_mod_cast h))
  simp only [h0, if_false]
  cases hr : rankdata_mwu (x ++ y) with
  | error e => rfl
  | ok rt =>
    obtain ⟨ranks, t⟩ := rt
    simp only [mwuRawP, mwuUF, mwuU1]
    cases m <;> cases a <;> simp only [] <;> first | rfl | (split_ifs <;> rfl)

/-- the only error `rankdata_mwu` returns is `UncomparableData` -/
theorem rankdata_mwu_error (l : List α) (e : MannWhitneyUError)
    (h : rankdata_mwu l = .error e) : e = MannWhitneyUError.UncomparableData := by
  unfold rankdata_mwu at h
  simp only [] at h
  split_ifs at h with h1 h2
  · injection h with h; exact h.symm
  · exact absurd h (by intro h'; cases h')

/-- an error of the ranking step is passed on unchanged -/
theorem mannwhitneyu_rank_error (x y : List α) (m : MannWhitneyUMethod) (a : Alternative)
    (hx : x ≠ []) (hy : y ≠ []) (e : MannWhitneyUError) (h : rankdata_mwu (x ++ y) = .error e) :
    mannwhitneyu x y m a = .error e := by
  rw [mannwhitneyu_nonempty x y m a hx hy, h]

/-- `SampleTooSmall` is returned exactly when one of the samples is empty -/
theorem mannwhitneyu_sample_too_small_iff (x y : List α) (m : MannWhitneyUMethod) (a : Alternative) :
    mannwhitneyu x y m a = .error MannWhitneyUError.SampleTooSmall ↔ (x = [] ∨ y = []) := by
  constructor
  · intro h
    by_contra hne
    have hne := not_or.1 hne
    rw [mannwhitneyu_nonempty x y m a hne.1 hne.2] at h
    cases hr : rankdata_mwu (x ++ y) with
    | error e =>
      rw [hr] at h
      have := rankdata_mwu_error _ _ hr
      subst this
      cases h
    | ok rt =>
      obtain ⟨ranks, t⟩ := rt
      rw [hr] at h
      simp only [] at h
      revert h
      generalize mwuRawP (α := α) _ _ _ t m = q
      intro h
      cases q <;> cases h
  · exact mannwhitneyu_empty x y m a

/-- `Exact` on data whose tie vector has an entry `> 1`: `ExactMethodWithTiesInData` -/
theorem mannwhitneyu_exact_ties (x y : List α) (a : Alternative) (hx : x ≠ []) (hy : y ≠ [])
    (ranks : List α) (t : List Int) (h : rankdata_mwu (x ++ y) = .ok (ranks, t))
    (ht : ∃ c ∈ t, (1 : Int) < c) :
    mannwhitneyu x y MannWhitneyUMethod.Exact a
      = .error MannWhitneyUError.ExactMethodWithTiesInData := by
  rw [mannwhitneyu_nonempty x y _ a hx hy, h]
  have : t.any (fun x => decide ((1 : Int) < x)) = true := by
    obtain ⟨c, hc, h1⟩ := ht
    exact List.any_eq_true.2 ⟨c, hc, by simpa using h1⟩
  simp only [mwuRawP, this, if_true, mwuResult]

/-- `Exact` without an entry `> 1` in the tie vector never gives that error: the exact helper is used -/
theorem mannwhitneyu_exact_no_ties (x y : List α) (a : Alternative) (hx : x ≠ []) (hy : y ≠ [])
    (ranks : List α) (t : List Int) (h : rankdata_mwu (x ++ y) = .ok (ranks, t))
    (ht : ∀ c ∈ t, ¬ (1 : Int) < c) :
    mannwhitneyu x y MannWhitneyUMethod.Exact a
      = .ok (mwuU1 ranks (listLen x),
          ntClamp (T.mannwhitneyu.calc_mwu_exact_pvalue (α := α)
              (mwuUF (mwuU1 ranks (listLen x)) (listLen x) (listLen y) a).1 (listLen x) (listLen y)
            * (RFun.ofInt (mwuUF (mwuU1 ranks (listLen x)) (listLen x) (listLen y) a).2 : α))
            (0.0 : α) (1.0 : α)) := by
  rw [mannwhitneyu_nonempty x y _ a hx hy, h]
  have : ¬ (t.any (fun x => decide ((1 : Int) < x)) = true) := by
    rw [List.any_eq_true]
    rintro ⟨c, hc, h1⟩
    exact ht c hc (by simpa using h1)
  simp only [mwuRawP, this, Bool.false_eq_true, if_false, mwuResult]

/-- on success the statistic is `U₁ = fsum (ranks.take n₁) − ofInt (n₁(n₁+1)/2)` whatever the method and
    the alternative, and the p-value is a `ntClamp · 0 1` -/
theorem mannwhitneyu_ok (x y : List α) (m : MannWhitneyUMethod) (a : Alternative) (s p : α)
    (h : mannwhitneyu x y m a = .ok (s, p)) :
    x ≠ [] ∧ y ≠ [] ∧ ∃ ranks t, rankdata_mwu (x ++ y) = .ok (ranks, t) ∧
      s = fsum (RFun.sumZero : α) (ranks.take (Int.toNat (listLen x)))
            - (RFun.ofInt (udiv (listLen x * (listLen x + (1 : Int))) (2 : Int)) : α) ∧
      ∃ q : α, p = ntClamp q (0.0 : α) (1.0 : α) := by
  have hne : ¬ (x = [] ∨ y = []) := by
    intro hh
    rw [mannwhitneyu_empty x y m a hh] at h
    cases h
  have hne := not_or.1 hne
  refine ⟨hne.1, hne.2, ?_⟩
  rw [mannwhitneyu_nonempty x y m a hne.1 hne.2] at h
  cases hr : rankdata_mwu (x ++ y) with
  | error e => rw [hr] at h; cases h
  | ok rt =>
    obtain ⟨ranks, t⟩ := rt
    rw [hr] at h
    simp only [] at h
    refine ⟨ranks, t, rfl, ?_⟩
    revert h
    generalize mwuRawP (α := α) _ _ _ t m = q
    intro h
    cases q with
    | none => cases h
    | some q =>
      injection h with h
      injection h with h1 h2
      exact ⟨h1.symm, _, h2.symm⟩

end generic

/-- over ℝ a clamp to `[0,1]` is in `[0,1]` -/
theorem ntClamp_unit (q : ℝ) : 0 ≤ ntClamp q (0.0 : ℝ) (1.0 : ℝ) ∧ ntClamp q (0.0 : ℝ) (1.0 : ℝ) ≤ 1 := by
  unfold ntClamp
  have h0 : (0.0 : ℝ) = 0 := by norm_num
  have h1 : (1.0 : ℝ) = 1 := by norm_num
  rw [h0, h1]
  split_ifs with ha hb
  · exact ⟨le_refl _, zero_le_one⟩
  · exact ⟨zero_le_one, le_refl _⟩
  · exact ⟨not_lt.1 ha, not_lt.1 hb⟩

/-- over ℝ every p-value returned by `mannwhitneyu` is in `[0,1]` (any method, any alternative, any
    abstract special-function instance) -/
theorem mannwhitneyu_pvalue_range [SF ℝ] (x y : List ℝ) (m : MannWhitneyUMethod) (a : Alternative)
    (s p : ℝ) (h : mannwhitneyu x y m a = .ok (s, p)) : 0 ≤ p ∧ p ≤ 1 := by
  obtain ⟨_, _, _, _, _, _, q, rfl⟩ := mannwhitneyu_ok x y m a s p h
  exact ntClamp_unit q

/-! ## 2. `rankdata_mwu` over ℝ: average ranks -/

/-- closed form: `rankdata_mwu y = Ok((y.map (average rank in y), tie vector))`, where
    `avgRank y v = (#{w ∈ y | w < v} + #{w ∈ y | w ≤ v} + 1) / 2` -/
theorem rankdata_mwu_closed_form (y : List ℝ) (hy : y ≠ []) :
    rankdata_mwu y = .ok (y.map (avgRank y), tieVec y) := rankdata_mwu_real y hy

/-- AVERAGE RANKS: for nonempty `y`, `rankdata_mwu y = Ok((ranks, t))` with
    `ranks.length = y.length = t.length` and
    `ranks[i] = (#{j | y_j < y_i} + #{j | y_j ≤ y_i} + 1) / 2` for every position `i`
    (the mean of the minimal rank `1 + #{<}` and the maximal rank `#{≤}`) -/
theorem rankdata_mwu_avg_rank (y : List ℝ) (hy : y ≠ []) :
    ∃ ranks t, rankdata_mwu y = .ok (ranks, t) ∧ ranks.length = y.length ∧ t.length = y.length ∧
      ∀ i (hi : i < y.length) (hi' : i < ranks.length),
        ranks[i] = (((y.countP (fun w => decide (w < y[i])) : ℕ) : ℝ)
                    + ((y.countP (fun w => decide (w ≤ y[i])) : ℕ) : ℝ) + 1) / 2 := by
  refine ⟨_, _, rankdata_mwu_real y hy, by simp, (tieVec_spec y hy).1, ?_⟩
  intro i hi hi'
  simp only [List.getElem_map]
  rfl

/-- tie-free input: the rank of `y_i` is `1 + #{j | y_j < y_i}` -/
theorem rankdata_mwu_rank_nodup (y : List ℝ) (hy : y ≠ []) (hnd : y.Nodup) :
    ∃ ranks t, rankdata_mwu y = .ok (ranks, t) ∧ ranks.length = y.length ∧
      ∀ i (hi : i < y.length) (hi' : i < ranks.length),
        ranks[i] = ((y.countP (fun w => decide (w < y[i])) : ℕ) : ℝ) + 1 := by
  obtain ⟨ranks, t, h1, h2, _, h4⟩ := rankdata_mwu_avg_rank y hy
  refine ⟨ranks, t, h1, h2, ?_⟩
  intro i hi hi'
  rw [h4 i hi hi']
  have h := cLe_eq y y[i]
  unfold cLe cLt at h
  have hm : mult y y[i] = 1 := by
    unfold mult
    have : y.countP (fun w => decide (w = y[i])) = y.count y[i] := by
      rw [List.count_eq_countP]
      congr 1
    rw [this]
    exact List.count_eq_one_of_mem hnd (List.getElem_mem hi)
  rw [h, hm]
  push_cast
  ring

/-- non-vacuity: `[1, 2, 2]` has ranks `[1, 2.5, 2.5]` -/
example : ∃ t, rankdata_mwu ([1, 2, 2] : List ℝ) = .ok ([1, 5 / 2, 5 / 2], t) := by
  refine ⟨tieVec [1, 2, 2], ?_⟩
  rw [rankdata_mwu_real _ (by simp)]
  norm_num [avgRank, List.countP_cons]

/-! ## 3. rank sum, permutation invariance, tie vector -/

/-- the ranks sum to `n(n+1)/2` -/
theorem rankdata_mwu_rank_sum (y : List ℝ) (ranks : List ℝ) (t : List Int)
    (h : rankdata_mwu y = .ok (ranks, t)) (hy : y ≠ []) :
    fsum (RFun.sumZero : ℝ) ranks = (y.length : ℝ) * ((y.length : ℝ) + 1) / 2 := by
  rw [rankdata_mwu_real y hy] at h
  injection h with h
  injection h with h1 h2
  rw [← h1, fsum_real, sum_avgRank]

/-- the rank of an element depends only on its value and on the multiset of the data: permuting the
    input permutes the ranks in the same way, and leaves the tie vector unchanged -/
theorem rankdata_mwu_perm (y y' : List ℝ) (hp : y'.Perm y) (hy : y ≠ [])
    (ranks ranks' : List ℝ) (t t' : List Int)
    (h : rankdata_mwu y = .ok (ranks, t)) (h' : rankdata_mwu y' = .ok (ranks', t')) :
    t' = t ∧ ∀ i j (hi : i < y.length) (hj : j < y'.length) (hri : i < ranks.length)
      (hrj : j < ranks'.length), y'[j] = y[i] → ranks'[j] = ranks[i] := by
  have hy' : y' ≠ [] := fun e => hy (by rw [e] at hp; exact List.nil_perm.1 hp)
  rw [rankdata_mwu_real y hy] at h
  rw [rankdata_mwu_real y' hy', avgRank_perm hp, tieVec_perm hp] at h'
  injection h with h; injection h with h1 h2
  injection h' with h'; injection h' with h1' h2'
  subst h1 h2 h1' h2'
  refine ⟨rfl, ?_⟩
  intro i j hi hj hri hrj he
  simp only [List.getElem_map, he]

/-- the tie vector: nonnegative entries; an entry `> 1` iff some value occurs at least twice; and
    `Σ_{c ∈ t} f(c) = Σ_{distinct values v} f(multiplicity of v)` for every `f` with `f 0 = 0` -/
theorem rankdata_mwu_ties (y : List ℝ) (ranks : List ℝ) (t : List Int)
    (h : rankdata_mwu y = .ok (ranks, t)) (hy : y ≠ []) :
    (∀ c ∈ t, (0 : Int) ≤ c) ∧
    (t.any (fun c => decide ((1 : Int) < c)) = true ↔ ∃ v ∈ y, 2 ≤ y.countP (fun w => decide (w = v))) ∧
    (∀ f : Int → Int, f 0 = 0 →
      (t.map f).sum = ∑ v ∈ y.toFinset, f ((y.countP (fun w => decide (w = v)) : ℕ) : Int)) := by
  rw [rankdata_mwu_real y hy] at h
  injection h with h; injection h with h1 h2
  subst h2
  exact ⟨tieVec_nonneg y hy, tieVec_any y hy, fun f hf => tieVec_sum y hy f hf⟩

/-- the tie-correction term computed by `calc_mwu_asymptotic_pvalue` from `t` is
    `Σ_{distinct values v} (c_v³ − c_v)`, `c_v` the multiplicity of `v` in the data -/
theorem rankdata_mwu_tie_term (y : List ℝ) (ranks : List ℝ) (t : List Int)
    (h : rankdata_mwu y = .ok (ranks, t)) (hy : y ≠ []) :
    List.foldl (· + ·) (0 : Int) (List.map (fun x => usub (x ^ (Int.toNat (3 : Int))) x) t)
      = ∑ v ∈ y.toFinset, ((((y.countP (fun w => decide (w = v)) : ℕ) : Int)) ^ 3
          - ((y.countP (fun w => decide (w = v)) : ℕ) : Int)) := by
  obtain ⟨h0, _, hs⟩ := rankdata_mwu_ties y ranks t h hy
  rw [Statrs.Props.C17.tie_term_eq t h0]
  exact hs (fun x => x ^ 3 - x) (by norm_num)

/-- non-vacuity -/
example : ∃ r t, rankdata_mwu ([3, 1, 3] : List ℝ) = .ok (r, t) ∧
    t.any (fun c => decide ((1 : Int) < c)) = true := by
  refine ⟨_, _, rankdata_mwu_real _ (by simp), ?_⟩
  rw [tieVec_any _ (by simp)]
  exact ⟨3, by simp, by norm_num [mult, List.countP_cons]⟩

/-! ## 4. the U statistics over ℝ -/

/-- `U(x, y) = Σ_{v ∈ x} (average rank of v in x ++ y) − n₁(n₁+1)/2` -/
noncomputable def mwuStat (x y : List ℝ) : ℝ :=
  (x.map (avgRank (x ++ y))).sum - (x.length : ℝ) * ((x.length : ℝ) + 1) / 2

theorem udiv_tri_real (n : ℕ) :
    ((udiv ((n : Int) * ((n : Int) + (1 : Int))) (2 : Int) : Int) : ℝ) = (n : ℝ) * ((n : ℝ) + 1) / 2 := by
  unfold udiv
  rw [if_neg (by norm_num)]
  have h2 : (2 : Int) ∣ (n : Int) * ((n : Int) + 1) := even_iff_two_dvd.1 (Int.even_mul_succ_self _)
  rw [Int.cast_div h2 (by norm_num)]
  push_cast
  ring

theorem mwuU1_real (x y : List ℝ) :
    mwuU1 ((x ++ y).map (avgRank (x ++ y))) (listLen x) = mwuStat x y := by
  unfold mwuU1 listLen mwuStat
  rw [fsum_real, rfun_ofInt, udiv_tri_real]
  congr 1
  rw [Int.toNat_natCast, List.map_append, List.take_left' (by simp)]

/-- closed form of `mannwhitneyu` over ℝ for nonempty samples: the statistic is `U(x, y)` -/
theorem mannwhitneyu_real [SF ℝ] (x y : List ℝ) (m : MannWhitneyUMethod) (a : Alternative)
    (hx : x ≠ []) (hy : y ≠ []) :
    mannwhitneyu x y m a =
      mwuResult (mwuStat x y) (mwuUF (mwuStat x y) (listLen x) (listLen y) a).2
        (mwuRawP (mwuUF (mwuStat x y) (listLen x) (listLen y) a).1
          (listLen x) (listLen y) (tieVec (x ++ y)) m) := by
  rw [mannwhitneyu_nonempty x y m a hx hy, rankdata_mwu_real (x ++ y) (by simp [hx])]
  simp only [mwuU1_real]

/-- whatever the method and the alternative, the returned statistic is `U(x, y)` -/
theorem mannwhitneyu_statistic [SF ℝ] (x y : List ℝ) (m : MannWhitneyUMethod) (a : Alternative)
    (s p : ℝ) (h : mannwhitneyu x y m a = .ok (s, p)) : s = mwuStat x y := by
  obtain ⟨hx, hy, _⟩ := mannwhitneyu_ok x y m a s p h
  rw [mannwhitneyu_real x y m a hx hy] at h
  revert h
  generalize mwuRawP (α := ℝ) _ _ _ (tieVec (x ++ y)) m = q
  intro h
  cases q with
  | none => cases h
  | some q => injection h with h; injection h with h1 h2; exact h1.symm

/-- `U(x, y) + U(y, x) = n₁ n₂` -/
theorem mwuStat_add_swap (x y : List ℝ) :
    mwuStat x y + mwuStat y x = (x.length : ℝ) * (y.length : ℝ) := by
  unfold mwuStat
  rw [avgRank_perm (List.perm_append_comm : (y ++ x).Perm (x ++ y))]
  have := sum_avgRank (x ++ y)
  rw [List.map_append, List.sum_append, List.length_append] at this
  push_cast at this
  linarith

/-- `U(x,y) + U(y,x) = n₁·n₂` for the statistics returned by `mannwhitneyu` (any methods, any
    alternatives) -/
theorem mannwhitneyu_U_sum [SF ℝ] (x y : List ℝ) (m m' : MannWhitneyUMethod) (a a' : Alternative)
    (s p s' p' : ℝ) (h : mannwhitneyu x y m a = .ok (s, p)) (h' : mannwhitneyu y x m' a' = .ok (s', p')) :
    s + s' = (x.length : ℝ) * (y.length : ℝ) := by
  rw [mannwhitneyu_statistic x y m a s p h, mannwhitneyu_statistic y x m' a' s' p' h']
  exact mwuStat_add_swap x y

/-- exchange of `Less` and `Greater` -/
def mwuSwapAlt : Alternative → Alternative
  | Alternative.Less => Alternative.Greater
  | Alternative.Greater => Alternative.Less
  | Alternative.TwoSided => Alternative.TwoSided

/-- swapping the samples exchanges `U₁`/`U₂` and `Less`/`Greater`: the quantity handed to the p-value
    helper (and the factor) for alternative `a` on `(x, y)` is the one for the swapped alternative on
    `(y, x)` -/
theorem mwuUF_swap (x y : List ℝ) (a : Alternative) :
    mwuUF (mwuStat y x) (listLen y) (listLen x) (mwuSwapAlt a)
      = mwuUF (mwuStat x y) (listLen x) (listLen y) a := by
  have h := mwuStat_add_swap x y
  have e1 : (RFun.ofInt (listLen y * listLen x) : ℝ) = (x.length : ℝ) * (y.length : ℝ) := by
    rw [rfun_ofInt]; unfold listLen; push_cast; ring
  have e2 : (RFun.ofInt (listLen x * listLen y) : ℝ) = (x.length : ℝ) * (y.length : ℝ) := by
    rw [rfun_ofInt]; unfold listLen; push_cast; ring
  have k1 : (x.length : ℝ) * (y.length : ℝ) - mwuStat y x = mwuStat x y := by linarith
  have k2 : (x.length : ℝ) * (y.length : ℝ) - mwuStat x y = mwuStat y x := by linarith
  cases a <;> simp only [mwuUF, mwuSwapAlt, e1, e2, k1, k2, rfun_fmax, max_comm]

/-- the asymptotic helper is symmetric in the sample sizes -/
theorem calc_mwu_asymptotic_swap [SF ℝ] (u : ℝ) (n1 n2 : Int) (t : List Int) (c : Bool) :
    T.mannwhitneyu.calc_mwu_asymptotic_pvalue (α := ℝ) u n1 n2 t c
      = T.mannwhitneyu.calc_mwu_asymptotic_pvalue (α := ℝ) u n2 n1 t c := by
  unfold T.mannwhitneyu.calc_mwu_asymptotic_pvalue
  simp only [rfun_ofInt]
  rw [Int.mul_comm n2 n1, mul_comm (n2 : ℝ) (n1 : ℝ), add_comm (n2 : ℝ) (n1 : ℝ)]

/-- SAMPLE SWAP: for the asymptotic methods, for `Automatic` when it selects the asymptotic helper
    (both sizes `> 8`, or a repeated value), and for every method when the samples have the same
    size, `mannwhitneyu x y m a` and `mannwhitneyu y x m (swapped a)` (Less ↔ Greater, TwoSided
    kept) have the same p-value (and the same error, if any).  For `Exact`/small `Automatic` with
    unequal sizes this fails: `mannwhitneyu_swap_exact_counterexample`. -/
theorem mannwhitneyu_swap [SF ℝ] (x y : List ℝ) (m : MannWhitneyUMethod) (a : Alternative)
    (hm : m = MannWhitneyUMethod.AsymptoticInclContinuityCorrection ∨
          m = MannWhitneyUMethod.AsymptoticExclContinuityCorrection ∨ x.length = y.length ∨
          (m = MannWhitneyUMethod.Automatic ∧ ((8 < x.length ∧ 8 < y.length) ∨
            ∃ v ∈ x ++ y, 2 ≤ (x ++ y).countP (fun w => decide (w = v))))) :
    exceptMap Prod.snd (mannwhitneyu x y m a) = exceptMap Prod.snd (mannwhitneyu y x m (mwuSwapAlt a)) := by
  by_cases hx : x = []
  · rw [mannwhitneyu_empty x y m a (Or.inl hx), mannwhitneyu_empty y x m _ (Or.inr hx)]
  by_cases hy : y = []
  · rw [mannwhitneyu_empty x y m a (Or.inr hy), mannwhitneyu_empty y x m _ (Or.inl hy)]
  rw [mannwhitneyu_real x y m a hx hy, mannwhitneyu_real y x m _ hy hx, mwuUF_swap x y a,
    tieVec_perm (List.perm_append_comm : (y ++ x).Perm (x ++ y))]
  have hraw : ∀ u : ℝ, mwuRawP u (listLen y) (listLen x) (tieVec (x ++ y)) m
      = mwuRawP u (listLen x) (listLen y) (tieVec (x ++ y)) m := by
    intro u
    rcases hm with hm | hm | hm | ⟨hm, hc⟩
    · subst hm; simp only [mwuRawP]; rw [calc_mwu_asymptotic_swap]
    · subst hm; simp only [mwuRawP]; rw [calc_mwu_asymptotic_swap]
    · have : listLen x = listLen y := by unfold listLen; rw [hm]
      rw [this]
    · subst hm
      have hxy : x ++ y ≠ [] := by simp [hx]
      have c1 : ((8 : Int) < listLen y ∧ (8 : Int) < listLen x) ∨
          (tieVec (x ++ y)).any (fun x => decide ((1 : Int) < x)) = true := by
        rcases hc with ⟨h1, h2⟩ | hc
        · left; unfold listLen; omega
        · right; exact (tieVec_any _ hxy).2 hc
      have c2 : ((8 : Int) < listLen x ∧ (8 : Int) < listLen y) ∨
          (tieVec (x ++ y)).any (fun x => decide ((1 : Int) < x)) = true := by
        rcases c1 with ⟨h1, h2⟩ | hc
        · exact Or.inl ⟨h2, h1⟩
        · exact Or.inr hc
      simp only [mwuRawP, c1, c2, if_true]
      rw [calc_mwu_asymptotic_swap]
  rw [hraw]
  cases mwuRawP (mwuUF (mwuStat x y) (listLen x) (listLen y) a).1 (listLen x) (listLen y)
    (tieVec (x ++ y)) m <;> rfl

/-- `Less` on `(x, y)` and `Greater` on `(y, x)` give the same p-value, for both asymptotic methods -/
theorem mannwhitneyu_less_greater_swap [SF ℝ] (x y : List ℝ) (hx : x ≠ []) (hy : y ≠ []) (c : Bool) :
    let m := if c = true then MannWhitneyUMethod.AsymptoticInclContinuityCorrection
             else MannWhitneyUMethod.AsymptoticExclContinuityCorrection
    ∃ p : ℝ, mannwhitneyu x y m Alternative.Less = .ok (mwuStat x y, p) ∧
             mannwhitneyu y x m Alternative.Greater = .ok (mwuStat y x, p) := by
  intro m
  have hsw : exceptMap Prod.snd (mannwhitneyu x y m Alternative.Less)
      = exceptMap Prod.snd (mannwhitneyu y x m Alternative.Greater) :=
    mannwhitneyu_swap x y m Alternative.Less (by
      cases c
      · exact Or.inr (Or.inl rfl)
      · exact Or.inl rfl)
  have h1 := mannwhitneyu_real x y m Alternative.Less hx hy
  have h2 := mannwhitneyu_real y x m Alternative.Greater hy hx
  cases c
  · simp only [m, mwuRawP, mwuResult, Bool.false_eq_true, if_false] at h1 h2 hsw ⊢
    rw [h1, h2] at hsw
    simp only [exceptMap, Except.ok.injEq] at hsw
    exact ⟨_, h1, by rw [h2, hsw]⟩
  · simp only [m, mwuRawP, mwuResult, if_true] at h1 h2 hsw ⊢
    rw [h1, h2] at hsw
    simp only [exceptMap, Except.ok.injEq] at hsw
    exact ⟨_, h1, by rw [h2, hsw]⟩

/-- non-vacuity: `U([1,4],[2,3,5]) = 2`, `U([2,3,5],[1,4]) = 4`, `2 + 4 = 2·3` -/
example : mwuStat [1, 4] [2, 3, 5] = 2 ∧ mwuStat [2, 3, 5] [1, 4] = 4 := by
  constructor <;> norm_num [mwuStat, avgRank, List.countP_cons]

/-- non-vacuity (group 1): empty sample, for every carrier -/
example {α : Type} [Add α] [Sub α] [Mul α] [Div α] [Neg α] [LT α] [LE α] [BEq α]
    [DecidableLT α] [DecidableLE α] [OfScientific α] [Inhabited α] [RFun α] [SF α]
    (y : List α) (m : MannWhitneyUMethod) (a : Alternative) :
    mannwhitneyu ([] : List α) y m a = .error MannWhitneyUError.SampleTooSmall :=
  (mannwhitneyu_sample_too_small_iff [] y m a).2 (Or.inl rfl)

/-- non-vacuity (group 1): `Exact` on tied data -/
example [SF ℝ] : mannwhitneyu ([1] : List ℝ) [1] MannWhitneyUMethod.Exact Alternative.TwoSided
    = .error MannWhitneyUError.ExactMethodWithTiesInData := by
  apply mannwhitneyu_exact_ties _ _ _ (by simp) (by simp) _ _ (rankdata_mwu_real _ (by simp))
  have := (tieVec_any (([1] : List ℝ) ++ [1]) (by simp)).2 ⟨1, by simp, by norm_num [mult, List.countP_cons]⟩
  obtain ⟨c, hc, h1⟩ := List.any_eq_true.1 this
  exact ⟨c, hc, by simpa using h1⟩

/-- non-vacuity (groups 1, 4): an asymptotic run succeeds with a p-value in `[0,1]`, equal for
    `Less` on `(x, y)` and `Greater` on `(y, x)` -/
example [SF ℝ] : ∃ p : ℝ,
    mannwhitneyu ([1, 4] : List ℝ) [2, 3, 5] MannWhitneyUMethod.AsymptoticInclContinuityCorrection
      Alternative.Less = .ok (mwuStat [1, 4] [2, 3, 5], p) ∧
    mannwhitneyu ([2, 3, 5] : List ℝ) [1, 4] MannWhitneyUMethod.AsymptoticInclContinuityCorrection
      Alternative.Greater = .ok (mwuStat [2, 3, 5] [1, 4], p) ∧ 0 ≤ p ∧ p ≤ 1 := by
  obtain ⟨p, h1, h2⟩ := mannwhitneyu_less_greater_swap ([1, 4] : List ℝ) [2, 3, 5] (by simp) (by simp) true
  exact ⟨p, h1, h2, mannwhitneyu_pvalue_range _ _ _ _ _ _ h1⟩

/-! ### the `Exact` method is NOT symmetric under the sample swap when the sizes differ -/

theorem mwu_exact_2_1_2 : T.mannwhitneyu.calc_mwu_exact_pvalue (α := ℝ) 2 1 2 = 2 / 3 := by
  rw [Statrs.Lemmas.TestsMWU.calc_mwu_exact_structure]
  have := Statrs.Lemmas.TestsMWU.real_pred 2
  rw [show ((2:ℤ):ℝ) = 2 by norm_num] at this
  rw [this, show Statrs.Lemmas.TestsMWU.mCount (fun U => decide (2 ≤ U)) 1 2 = some (1, 3) by decide]
  norm_num

theorem mwu_exact_2_2_1 : T.mannwhitneyu.calc_mwu_exact_pvalue (α := ℝ) 2 2 1 = 1 / 3 := by
  rw [Statrs.Lemmas.TestsMWU.calc_mwu_exact_structure]
  have := Statrs.Lemmas.TestsMWU.real_pred 2
  rw [show ((2:ℤ):ℝ) = 2 by norm_num] at this
  rw [this, show Statrs.Lemmas.TestsMWU.mCount (fun U => decide (2 ≤ U)) 2 1 = some (1, 3) by decide]
  norm_num

theorem tieVec_no_ties_123 :
    (tieVec ([1, 2, 3] : List ℝ)).any (fun x => decide ((1 : Int) < x)) = false := by
  rw [Bool.eq_false_iff, Ne, tieVec_any _ (by simp)]
  rintro ⟨v, hv, h2⟩
  simp only [List.mem_cons, List.not_mem_nil, or_false] at hv
  rcases hv with rfl | rfl | rfl <;> norm_num [mult, List.countP_cons] at h2

theorem tieVec_no_ties_231 :
    (tieVec ([2, 3, 1] : List ℝ)).any (fun x => decide ((1 : Int) < x)) = false := by
  rw [tieVec_perm (y := [1, 2, 3]) (List.perm_append_comm : (([2, 3] : List ℝ) ++ [1]).Perm ([1] ++ [2, 3]))]
  exact tieVec_no_ties_123

/-- `mannwhitneyu_swap` FAILS for `Exact` with unequal sample sizes: `x = [1]`, `y = [2, 3]`;
    `Less` on `(x, y)` has p-value `2/3`, `Greater` on `(y, x)` has p-value `1/3` (the exact
    permutation tail `P(U ≥ 2)` is `1/3`: the `len(x) ≤ len(y)` branch of `calc_mwu_exact_pvalue`
    returns one minus the tail, cf. `Props.C16.mwu_exact_counterexample`) -/
theorem mannwhitneyu_swap_exact_counterexample [SF ℝ] :
    mannwhitneyu ([1] : List ℝ) [2, 3] MannWhitneyUMethod.Exact Alternative.Less = .ok (0, 2 / 3) ∧
    mannwhitneyu ([2, 3] : List ℝ) [1] MannWhitneyUMethod.Exact Alternative.Greater = .ok (2, 1 / 3) := by
  have hs1 : mwuStat [1] [2, 3] = 0 := by norm_num [mwuStat, avgRank, List.countP_cons]
  have hs2 : mwuStat [2, 3] [1] = 2 := by norm_num [mwuStat, avgRank, List.countP_cons]
  have l1 : listLen ([1] : List ℝ) = 1 := rfl
  have l2 : listLen ([2, 3] : List ℝ) = 2 := rfl
  have e1 : (RFun.ofInt ((1 : Int) * (2 : Int)) : ℝ) - 0 = 2 := by rw [rfun_ofInt]; norm_num
  have c1 : ntClamp ((2 / 3 : ℝ) * (RFun.ofInt (1 : Int) : ℝ)) (0.0 : ℝ) (1.0 : ℝ) = 2 / 3 := by
    unfold ntClamp; rw [rfun_ofInt]; norm_num
  have c2 : ntClamp ((1 / 3 : ℝ) * (RFun.ofInt (1 : Int) : ℝ)) (0.0 : ℝ) (1.0 : ℝ) = 1 / 3 := by
    unfold ntClamp; rw [rfun_ofInt]; norm_num
  constructor
  · rw [mannwhitneyu_real _ _ _ _ (by simp) (by simp), hs1, l1, l2]
    have : (([1] : List ℝ) ++ [2, 3]) = [1, 2, 3] := rfl
    simp only [mwuRawP, mwuUF, this, tieVec_no_ties_123, Bool.false_eq_true, if_false, mwuResult, e1,
      mwu_exact_2_1_2, c1]
  · rw [mannwhitneyu_real _ _ _ _ (by simp) (by simp), hs2, l1, l2]
    have : (([2, 3] : List ℝ) ++ [1]) = [2, 3, 1] := rfl
    simp only [mwuRawP, mwuUF, this, tieVec_no_ties_231, Bool.false_eq_true, if_false, mwuResult,
      mwu_exact_2_2_1, c2]

end Statrs.Props.C18
