/-
  C18 — `skewtest` over ℝ: coherence of the alternatives, p-value range, and the symmetries of the
  statistic, relative to `Spec.Erfc.ErfcSpec` (reflection `erfc(−z) = 2 − erfc z`, antitone, range)
  where the abstract `erfc` matters.

  * `p_less + p_greater = 1`                                            (structural)
  * `Φ(−z) = 1 − Φ(z)`, `p_two = 2·min(p_less, p_greater)`, `p ∈ [0,1]`   (`…_rel`, `ErfcSpec`)
  * `x ↦ c·x + b`: for `c > 0` the result is unchanged (structural); for `c < 0` the statistic
    changes sign and `Less`/`Greater` are exchanged — PROVIDED the sample skewness is not exactly
    zero.  For zero skewness the `Y = 0 ↦ 1` substitution of the source breaks the sign symmetry:
    `skewtest_negation_counterexample`.
-/
import Statrs.Lemmas.Tests
import Statrs.Props.C17.SkewTest
import Statrs.Props.C18.TTest
import Statrs.Spec.SFSpec_erfc
import Statrs.Spec.SFSpec_tests
namespace Statrs.Props.C18
open Statrs Statrs.Gen Statrs.Lemmas.Tests
open Spec.Stats Spec.Tests Statrs.Props.C17
open Statrs.Spec.Erfc

/-! ### the standard normal reference cdf -/

theorem zcdf_neg_rel [SF ℝ] (S : ErfcSpec) (z : ℝ) :
    Normal.cdf zRef (-z) = 1 - Normal.cdf zRef z := by
  rw [zRef_cdf, zRef_cdf, neg_neg, show -z / Real.sqrt 2 = -(z / Real.sqrt 2) by ring, S.erfc_neg]
  ring

theorem zcdf_range_rel [SF ℝ] (S : ErfcSpec) (z : ℝ) :
    0 ≤ Normal.cdf zRef z ∧ Normal.cdf zRef z ≤ 1 := by
  rw [zRef_cdf]
  have := S.erfc_nonneg (-z / Real.sqrt 2)
  have := S.erfc_le_two (-z / Real.sqrt 2)
  constructor <;> linarith

/-- `Φ(z) ≥ ½` for `z ≥ 0` -/
theorem zcdf_half_le_rel [SF ℝ] (S : ErfcSpec) (z : ℝ) (hz : 0 ≤ z) : 1 / 2 ≤ Normal.cdf zRef z := by
  have h := zcdf_neg_rel S z
  simp only [zRef_cdf, neg_neg] at h ⊢
  have : (SF.erfc (z / Real.sqrt 2) : ℝ) ≤ 1 :=
    S.erfc_le_one_of_nonneg (div_nonneg hz (Real.sqrt_nonneg _))
  linarith

/-! ### coherence of the alternatives -/

theorem skewtest_less_add_greater [SF ℝ] (a : List ℝ) (pol : NaNPolicy) (h : 8 ≤ a.length) :
    ∃ z pl pg, T.skewtest.skewtest a .Less pol = .ok (z, pl)
      ∧ T.skewtest.skewtest a .Greater pol = .ok (z, pg) ∧ pl + pg = 1 :=
  ⟨_, _, _, skewtest_eq a .Less pol h, skewtest_eq a .Greater pol h, by ring⟩

/-- two-sided = twice the smaller one-sided value, for the normal reference -/
theorem ztail_two_sided_rel [SF ℝ] (S : ErfcSpec) (z : ℝ) :
    2 * (1 - Normal.cdf zRef |z|) = 2 * min (Normal.cdf zRef z) (1 - Normal.cdf zRef z) := by
  rcases le_total 0 z with hz | hz
  · rw [abs_of_nonneg hz, min_eq_right (by linarith [zcdf_half_le_rel S z hz])]
  · rw [abs_of_nonpos hz, zcdf_neg_rel S z]
    have := zcdf_half_le_rel S (-z) (by linarith)
    rw [zcdf_neg_rel S z] at this
    rw [min_eq_left (by linarith)]; ring

theorem skewtest_two_sided_rel [SF ℝ] (S : ErfcSpec) (a : List ℝ) (pol : NaNPolicy)
    (h : 8 ≤ a.length) :
    ∃ z pl pg p2, T.skewtest.skewtest a .Less pol = .ok (z, pl)
      ∧ T.skewtest.skewtest a .Greater pol = .ok (z, pg)
      ∧ T.skewtest.skewtest a .TwoSided pol = .ok (z, p2)
      ∧ p2 = 2 * min pl pg ∧ min (2 * min pl pg) 1 = p2 := by
  refine ⟨_, _, _, _, skewtest_eq a .Less pol h, skewtest_eq a .Greater pol h,
    skewtest_eq a .TwoSided pol h, ztail_two_sided_rel S _, ?_⟩
  rw [← ztail_two_sided_rel S]
  apply min_eq_left
  have := zcdf_half_le_rel S |dagZ a.length (codeY a)| (abs_nonneg _)
  linarith

theorem skewtest_pvalue_range_rel [SF ℝ] (S : ErfcSpec) (a : List ℝ) (alt : Alternative)
    (pol : NaNPolicy) (h : 8 ≤ a.length) :
    ∃ z p, T.skewtest.skewtest a alt pol = .ok (z, p) ∧ 0 ≤ p ∧ p ≤ 1 := by
  refine ⟨_, _, skewtest_eq a alt pol h, ?_⟩
  cases alt
  · have := zcdf_half_le_rel S |dagZ a.length (codeY a)| (abs_nonneg _)
    have := zcdf_range_rel S |dagZ a.length (codeY a)|
    constructor <;> simp only <;> linarith
  · exact zcdf_range_rel S _
  · have := zcdf_range_rel S (dagZ a.length (codeY a))
    constructor <;> simp only <;> linarith

/-! ### affine maps of the data -/

theorem centralMoment_affine (k : ℕ) (l : List ℝ) (c b : ℝ) (h : l ≠ []) :
    centralMoment k (l.map (fun x => c * x + b)) = c ^ k * centralMoment k l := by
  unfold centralMoment
  rw [mean_map_affine l c b h, List.map_map, List.length_map, ← mul_div_assoc, ← List.sum_map_mul_left]
  congr 2
  apply List.map_congr_left
  intro x _
  simp only [Function.comp]
  rw [← mul_pow]; congr 1; ring

theorem centralMoment_two_nonneg (l : List ℝ) : 0 ≤ centralMoment 2 l := by
  unfold centralMoment
  apply div_nonneg _ (Nat.cast_nonneg _)
  apply List.sum_nonneg
  intro x hx
  obtain ⟨y, _, rfl⟩ := List.mem_map.mp hx
  positivity

theorem rootB1_affine (l : List ℝ) (c b : ℝ) (h : l ≠ []) (hc : c ≠ 0) :
    rootB1 (l.map (fun x => c * x + b)) = (c / |c|) * rootB1 l := by
  unfold rootB1
  rw [centralMoment_affine 3 l c b h, centralMoment_affine 2 l c b h,
    Real.mul_rpow (sq_nonneg c) (centralMoment_two_nonneg l)]
  have e : (c ^ 2 : ℝ) ^ ((3:ℝ) / 2) = |c| ^ 3 := by
    rw [← sq_abs, ← Real.rpow_natCast |c| 2, ← Real.rpow_mul (abs_nonneg c)]
    norm_num
  rw [e]
  have hc' : |c| ≠ 0 := abs_ne_zero.mpr hc
  have h3 : c ^ 3 = (c / |c|) * |c| ^ 3 := by
    have : |c| ^ 3 = |c| * |c| ^ 2 := by ring
    rw [this, sq_abs]; field_simp
  rw [h3]
  by_cases hm : centralMoment 2 l ^ ((3:ℝ) / 2) = 0
  · rw [hm]; simp
  · field_simp

theorem dagY_mul (n s b : ℝ) : dagY n (s * b) = s * dagY n b := by unfold dagY; ring

theorem dagZ_neg (n y : ℝ) : dagZ n (-y) = - dagZ n y := by
  unfold dagZ
  rw [neg_div, neg_sq]
  set u := y / dagAlpha n
  set s := Real.sqrt (u ^ 2 + 1)
  have hs2 : s ^ 2 = u ^ 2 + 1 := Real.sq_sqrt (by positivity)
  have hs : |u| < s := abs_lt_of_sq_lt_sq (by rw [hs2]; linarith) (Real.sqrt_nonneg _)
  have hp : 0 < u + s := by have := neg_abs_le u; have := abs_lt.mp hs; linarith
  have hm : 0 < -u + s := by have := abs_lt.mp hs; linarith
  have : (-u + s) = (u + s)⁻¹ := by
    apply eq_inv_of_mul_eq_one_left; nlinarith
  rw [this, Real.log_inv]; ring

theorem codeY_affine_pos (a : List ℝ) (c b : ℝ) (hc : 0 < c) (h : a ≠ []) :
    codeY (a.map (fun x => c * x + b)) = codeY a := by
  unfold codeY
  rw [rootB1_affine a c b h hc.ne', abs_of_pos hc, div_self hc.ne', one_mul, List.length_map]

/-- positive rescaling and any shift leave the whole result unchanged -/
theorem skewtest_affine_pos [SF ℝ] (a : List ℝ) (c b : ℝ) (alt : Alternative) (pol : NaNPolicy)
    (hc : 0 < c) :
    T.skewtest.skewtest (a.map (fun x => c * x + b)) alt pol = T.skewtest.skewtest a alt pol := by
  by_cases h : 8 ≤ a.length
  · have hne : a ≠ [] := by rintro rfl; simp at h
    rw [skewtest_eq _ alt pol (by simpa using h), skewtest_eq a alt pol h,
      codeY_affine_pos a c b hc hne, List.length_map]
  · rw [skewtest_too_small _ alt pol (by simpa using h), skewtest_too_small a alt pol (by omega)]

/-- negative rescaling with NON-ZERO skewness: statistic negated, `Less`/`Greater` exchanged -/
theorem skewtest_affine_neg_rel [SF ℝ] (S : ErfcSpec) (a : List ℝ) (c b : ℝ) (alt : Alternative)
    (pol : NaNPolicy) (hc : c < 0) (h : 8 ≤ a.length) (hb : rootB1 a ≠ 0) :
    T.skewtest.skewtest (a.map (fun x => c * x + b)) alt pol
      = exceptMap (fun r => (-r.1, r.2)) (T.skewtest.skewtest a (swapAlt alt) pol) := by
  have hne : a ≠ [] := by rintro rfl; simp at h
  have h8 : (8:ℝ) ≤ a.length := by exact_mod_cast h
  have hy : dagY a.length (rootB1 a) ≠ 0 := by
    unfold dagY
    apply mul_ne_zero hb
    apply ne_of_gt
    apply Real.sqrt_pos.mpr
    have : (0:ℝ) < (a.length : ℝ) - 2 := by linarith
    positivity
  have hcy : codeY (a.map (fun x => c * x + b)) = - codeY a := by
    unfold codeY
    rw [rootB1_affine a c b hne hc.ne, abs_of_neg hc, div_neg, div_self hc.ne, List.length_map,
      dagY_mul, neg_one_mul, if_neg hy, if_neg (neg_ne_zero.mpr hy)]
  rw [skewtest_eq _ alt pol (by simpa using h), skewtest_eq a _ pol h, hcy, List.length_map, dagZ_neg]
  have hr := zcdf_neg_rel S (dagZ a.length (codeY a))
  cases alt <;> (simp only [exceptMap, swapAlt, abs_neg, hr]; try ring_nf)

/-- zero skewness: negating the data does NOT negate the statistic (it stays the same positive
    number), because both `Y = 0` and `Y = −0` are replaced by `1` -/
theorem skewtest_negation_counterexample [SF ℝ] (alt : Alternative) (pol : NaNPolicy) :
    T.skewtest.skewtest (sym8.map (fun x => (-1) * x + 0)) alt pol
      ≠ exceptMap (fun r => (-r.1, r.2)) (T.skewtest.skewtest sym8 (swapAlt alt) pol) := by
  have h8 : 8 ≤ sym8.length := by simp [sym8]
  have hne : sym8 ≠ [] := by simp [sym8]
  have hcy : codeY (sym8.map (fun x => (-1) * x + 0)) = 1 := by
    unfold codeY
    rw [rootB1_affine sym8 (-1) 0 hne (by norm_num), sym8_rootB1]
    simp [dagY]
  have hcy0 : codeY sym8 = 1 := by unfold codeY; rw [sym8_rootB1]; simp [dagY]
  rw [skewtest_eq _ alt pol (by simpa using h8), skewtest_eq sym8 _ pol h8, hcy, hcy0, List.length_map]
  have hpos := dagZ_pos (sym8.length : ℝ) 1 (by exact_mod_cast h8) one_pos
  intro e
  simp only [exceptMap] at e
  injection e with e
  have := congrArg Prod.fst e
  simp only at this
  linarith

/-- non-vacuity: `ErfcSpec` has a model (`Spec.TestsSF.erfcSpec_witness`); a concrete instance of
    the data hypotheses: -/
example [SF ℝ] : T.skewtest.skewtest (sym8.map (fun x => 2 * x + 5)) Alternative.Less NaNPolicy.Error
    = T.skewtest.skewtest sym8 Alternative.Less NaNPolicy.Error :=
  skewtest_affine_pos sym8 2 5 _ _ (by norm_num)

end Statrs.Props.C18
