/-
  C18 — `ttest_onesample` over ℝ: coherence of the three alternatives and affine equivariance.

  * `p_less + p_greater = 1`                                             (structural, no premise)
  * `StudentsT(0,1,ν).cdf(−t) = 1 − cdf(t)` for `t ≠ 0`: both branches of the generated cdf use
    the same `SF.beta_reg` value                                          (structural); at `t = 0`
    it needs `I₁(a,b) = 1` (`BetaSpec.at_one`)                            (`…_rel`)
  * `p_two = 2·min(p_less, p_greater)` and all p-values in `[0,1]`        (`…_rel`, `BetaSpec`)
  * `x ↦ c·x + b`, `μ ↦ c·μ + b`: for `c > 0` the whole result is unchanged; for `c < 0` the
    statistic changes sign and `Less`/`Greater` are exchanged (two-sided unchanged).
-/
import Statrs.Lemmas.Tests
import Statrs.Props.C17.TTest
import Statrs.Spec.SFSpec_incomplete
namespace Statrs.Props.C18
open Statrs Statrs.Gen Statrs.Lemmas.Tests
open Spec.Stats Spec.Tests Statrs.Props.C17
open Statrs.Spec.Incomplete

/-! ### the reference cdf -/

/-- the incomplete-beta value shared by both branches of `StudentsT(0,1,ν).cdf` -/
noncomputable def tI [SF ℝ] (ν t : ℝ) : ℝ := SF.beta_reg (ν / 2) (1 / 2) (ν / (ν + t * t))

theorem tcdf_eq [SF ℝ] (ν t : ℝ) :
    StudentsT.cdf (⟨0, 1, ν⟩ : StudentsT ℝ) t = if t ≤ 0 then (1 / 2) * tI ν t else 1 - (1 / 2) * tI ν t :=
  studentsT_cdf_std ν t

theorem tI_neg [SF ℝ] (ν t : ℝ) : tI ν (-t) = tI ν t := by unfold tI; rw [neg_mul_neg]
theorem tI_abs [SF ℝ] (ν t : ℝ) : tI ν |t| = tI ν t := by unfold tI; rw [abs_mul_abs_self]

/-- reflection of the generated cdf about the location, away from it: purely structural -/
theorem tcdf_neg [SF ℝ] (ν t : ℝ) (ht : t ≠ 0) :
    StudentsT.cdf (⟨0, 1, ν⟩ : StudentsT ℝ) (-t) = 1 - StudentsT.cdf (⟨0, 1, ν⟩ : StudentsT ℝ) t := by
  rw [tcdf_eq, tcdf_eq, tI_neg]
  rcases lt_or_gt_of_ne ht with h | h
  · rw [if_neg (by linarith), if_pos h.le]
  · rw [if_pos (by linarith), if_neg (by linarith)]; ring

/-- at the location the cdf is `½` once `I₁(a,b) = 1` -/
theorem tcdf_zero_rel [SF ℝ] (B : BetaSpec) (ν : ℝ) (hν : 0 < ν) :
    StudentsT.cdf (⟨0, 1, ν⟩ : StudentsT ℝ) 0 = 1 / 2 := by
  rw [tcdf_eq, if_pos le_rfl]
  unfold tI
  rw [mul_zero, add_zero, div_self hν.ne', B.at_one _ _ (by positivity) (by norm_num)]
  norm_num

/-- reflection for every `t` -/
theorem tcdf_neg_rel [SF ℝ] (B : BetaSpec) (ν t : ℝ) (hν : 0 < ν) :
    StudentsT.cdf (⟨0, 1, ν⟩ : StudentsT ℝ) (-t) = 1 - StudentsT.cdf (⟨0, 1, ν⟩ : StudentsT ℝ) t := by
  by_cases ht : t = 0
  · subst ht; rw [neg_zero, tcdf_zero_rel B ν hν]; norm_num
  · exact tcdf_neg ν t ht

theorem tI_range [SF ℝ] (B : BetaSpec) (ν t : ℝ) (hν : 0 < ν) : 0 ≤ tI ν t ∧ tI ν t ≤ 1 := by
  unfold tI
  have hd : 0 < ν + t * t := by nlinarith [mul_self_nonneg t]
  have h0 : 0 ≤ ν / (ν + t * t) := by positivity
  have h1 : ν / (ν + t * t) ≤ 1 := by rw [div_le_one hd]; nlinarith [mul_self_nonneg t]
  exact ⟨B.nonneg _ _ _ (by positivity) (by norm_num) h0 h1,
    B.le_one _ _ _ (by positivity) (by norm_num) h0 h1⟩

/-! ### coherence of the alternatives (any reference cdf `F`) -/

/-- `p_less + p_greater = 1`: structural -/
theorem tailP_less_add_greater (F : ℝ → ℝ) (t : ℝ) :
    tailP F .Less t + tailP F .Greater t = 1 := by
  unfold tailP; ring

/-- the three p-values of the t-test on one sample -/
theorem ttest_less_add_greater [SF ℝ] (a : List ℝ) (μ : ℝ) (pol : NaNPolicy) (h : 2 ≤ a.length) :
    ∃ t pl pg, T.ttest_onesample.ttest_onesample a μ .Less pol = .ok (t, pl)
      ∧ T.ttest_onesample.ttest_onesample a μ .Greater pol = .ok (t, pg)
      ∧ pl + pg = 1 :=
  ⟨_, _, _, ttest_eq a μ .Less pol h, ttest_eq a μ .Greater pol h, tailP_less_add_greater _ _⟩

/-- two-sided = twice the smaller one-sided value, for the Student-t reference -/
theorem tailP_two_sided_rel [SF ℝ] (B : BetaSpec) (n : ℕ) (hn : 2 ≤ n) (t : ℝ) :
    tailP (StudentsT.cdf (tRef n)) .TwoSided t
      = 2 * min (tailP (StudentsT.cdf (tRef n)) .Less t) (tailP (StudentsT.cdf (tRef n)) .Greater t) := by
  have hν : (0:ℝ) < (n : ℝ) - 1 := by
    have : (2:ℝ) ≤ n := by exact_mod_cast hn
    linarith
  unfold tailP tRef
  obtain ⟨h0, h1⟩ := tI_range B _ t hν
  by_cases ht : t = 0
  · subst ht; rw [abs_zero, tcdf_zero_rel B _ hν]; norm_num
  · have habs : ¬ |t| ≤ 0 := by simpa using ht
    rw [tcdf_eq _ |t|, if_neg habs, tI_abs, tcdf_eq]
    rcases lt_or_gt_of_ne ht with h | h
    · rw [if_pos h.le, min_eq_left (by linarith)]; ring
    · rw [if_neg (by linarith), min_eq_right (by linarith)]

theorem ttest_two_sided_rel [SF ℝ] (B : BetaSpec) (a : List ℝ) (μ : ℝ) (pol : NaNPolicy)
    (h : 2 ≤ a.length) :
    ∃ t pl pg p2, T.ttest_onesample.ttest_onesample a μ .Less pol = .ok (t, pl)
      ∧ T.ttest_onesample.ttest_onesample a μ .Greater pol = .ok (t, pg)
      ∧ T.ttest_onesample.ttest_onesample a μ .TwoSided pol = .ok (t, p2)
      ∧ p2 = 2 * min pl pg ∧ min (2 * min pl pg) 1 = p2 :=
  ⟨_, _, _, _, ttest_eq a μ .Less pol h, ttest_eq a μ .Greater pol h, ttest_eq a μ .TwoSided pol h,
    tailP_two_sided_rel B _ h _, by
      rw [← tailP_two_sided_rel B _ h _]
      have := tailP_less_add_greater (StudentsT.cdf (tRef a.length)) (tStat a μ)
      have e := tailP_two_sided_rel B _ h (tStat a μ)
      apply min_eq_left
      rw [e]
      rcases le_total (tailP (StudentsT.cdf (tRef a.length)) .Less (tStat a μ))
        (tailP (StudentsT.cdf (tRef a.length)) .Greater (tStat a μ)) with hle | hle
      · rw [min_eq_left hle]; linarith
      · rw [min_eq_right hle]; linarith⟩

/-- every p-value of the t-test lies in `[0,1]` -/
theorem ttest_pvalue_range_rel [SF ℝ] (B : BetaSpec) (a : List ℝ) (μ : ℝ) (alt : Alternative)
    (pol : NaNPolicy) (h : 2 ≤ a.length) :
    ∃ t p, T.ttest_onesample.ttest_onesample a μ alt pol = .ok (t, p) ∧ 0 ≤ p ∧ p ≤ 1 := by
  refine ⟨_, _, ttest_eq a μ alt pol h, ?_⟩
  have hν : (0:ℝ) < (a.length : ℝ) - 1 := by
    have : (2:ℝ) ≤ a.length := by exact_mod_cast h
    linarith
  have hF : ∀ x, 0 ≤ StudentsT.cdf (tRef a.length) x ∧ StudentsT.cdf (tRef a.length) x ≤ 1 := by
    intro x
    obtain ⟨h0, h1⟩ := tI_range B _ x hν
    unfold tRef; rw [tcdf_eq]
    split_ifs <;> constructor <;> linarith
  cases alt
  · rw [tailP_two_sided_rel B _ h]
    have := tailP_less_add_greater (StudentsT.cdf (tRef a.length)) (tStat a μ)
    have hl := hF (tStat a μ)
    simp only [tailP] at this ⊢
    rcases le_total (StudentsT.cdf (tRef a.length) (tStat a μ)) (1 - StudentsT.cdf (tRef a.length) (tStat a μ)) with hle | hle
    · rw [min_eq_left hle]; constructor <;> linarith
    · rw [min_eq_right hle]; constructor <;> linarith
  · exact hF _
  · have := hF (tStat a μ); simp only [tailP]; constructor <;> linarith

/-! ### affine equivariance -/

theorem sum_map_affine (l : List ℝ) (c b : ℝ) :
    (l.map (fun x => c * x + b)).sum = c * l.sum + (l.length : ℝ) * b := by
  induction l with
  | nil => simp
  | cons a t ih => simp only [List.map_cons, List.sum_cons, List.length_cons, ih]; push_cast; ring

theorem mean_map_affine (l : List ℝ) (c b : ℝ) (h : l ≠ []) :
    mean (l.map (fun x => c * x + b)) = c * mean l + b := by
  unfold mean
  rw [sum_map_affine, List.length_map]
  have : (l.length : ℝ) ≠ 0 := by
    have := List.length_pos_iff.mpr h
    positivity
  field_simp

theorem ssd_map_affine (l : List ℝ) (c b : ℝ) (h : l ≠ []) :
    ssd (l.map (fun x => c * x + b)) = c ^ 2 * ssd l := by
  unfold ssd
  rw [mean_map_affine l c b h, List.map_map, ← List.sum_map_mul_left]
  congr 1
  apply List.map_congr_left
  intro x _
  simp only [Function.comp]; ring

theorem tStat_affine (l : List ℝ) (μ c b : ℝ) (h : l ≠ []) (hc : c ≠ 0) :
    tStat (l.map (fun x => c * x + b)) (c * μ + b) = (c / |c|) * tStat l μ := by
  unfold tStat variance
  rw [mean_map_affine l c b h, ssd_map_affine l c b h, List.length_map]
  have e : c ^ 2 * ssd l / ((l.length : ℝ) - 1) / (l.length : ℝ)
      = |c| ^ 2 * (ssd l / ((l.length : ℝ) - 1) / (l.length : ℝ)) := by
    rw [sq_abs]; ring
  rw [e, Real.sqrt_mul (sq_nonneg _), Real.sqrt_sq (abs_nonneg c)]
  have hc' : |c| ≠ 0 := abs_ne_zero.mpr hc
  by_cases hs : Real.sqrt (ssd l / ((l.length : ℝ) - 1) / (l.length : ℝ)) = 0
  · rw [hs]; simp
  · field_simp; ring

/-- `Less ↔ Greater` -/
def swapAlt : Alternative → Alternative
  | .Less => .Greater
  | .Greater => .Less
  | .TwoSided => .TwoSided

/-- positive rescaling and any shift leave the whole result unchanged (every sample, also the
    rejected ones) -/
theorem ttest_affine_pos [SF ℝ] (a : List ℝ) (μ c b : ℝ) (alt : Alternative) (pol : NaNPolicy)
    (hc : 0 < c) :
    T.ttest_onesample.ttest_onesample (a.map (fun x => c * x + b)) (c * μ + b) alt pol
      = T.ttest_onesample.ttest_onesample a μ alt pol := by
  by_cases h : 2 ≤ a.length
  · have hne : a ≠ [] := by rintro rfl; simp at h
    rw [ttest_eq _ _ alt pol (by simpa using h), ttest_eq a μ alt pol h,
      tStat_affine a μ c b hne hc.ne', abs_of_pos hc, div_self hc.ne', one_mul, List.length_map]
  · rw [ttest_too_small _ _ alt pol (by simpa using h), ttest_too_small a μ alt pol (by omega)]

/-- negative rescaling: the statistic changes sign, the two-sided p-value is unchanged — structural -/
theorem ttest_affine_neg_two_sided [SF ℝ] (a : List ℝ) (μ c b : ℝ) (pol : NaNPolicy) (hc : c < 0) :
    T.ttest_onesample.ttest_onesample (a.map (fun x => c * x + b)) (c * μ + b) .TwoSided pol
      = exceptMap (fun r => (-r.1, r.2)) (T.ttest_onesample.ttest_onesample a μ .TwoSided pol) := by
  by_cases h : 2 ≤ a.length
  · have hne : a ≠ [] := by rintro rfl; simp at h
    rw [ttest_eq _ _ _ pol (by simpa using h), ttest_eq a μ _ pol h,
      tStat_affine a μ c b hne hc.ne, abs_of_neg hc, div_neg, div_self hc.ne, List.length_map]
    simp only [exceptMap, tailP, neg_mul, one_mul, abs_neg]
  · rw [ttest_too_small _ _ _ pol (by simpa using h), ttest_too_small a μ _ pol (by omega)]
    rfl

/-- negative rescaling: the statistic changes sign and `Less`/`Greater` are exchanged, provided
    the statistic is not exactly `0` — structural -/
theorem ttest_affine_neg [SF ℝ] (a : List ℝ) (μ c b : ℝ) (alt : Alternative) (pol : NaNPolicy)
    (hc : c < 0) (h : 2 ≤ a.length) (ht : tStat a μ ≠ 0) :
    T.ttest_onesample.ttest_onesample (a.map (fun x => c * x + b)) (c * μ + b) alt pol
      = exceptMap (fun r => (-r.1, r.2)) (T.ttest_onesample.ttest_onesample a μ (swapAlt alt) pol) := by
  have hne : a ≠ [] := by rintro rfl; simp at h
  rw [ttest_eq _ _ _ pol (by simpa using h), ttest_eq a μ _ pol h,
    tStat_affine a μ c b hne hc.ne, abs_of_neg hc, div_neg, div_self hc.ne, List.length_map]
  have hr := tcdf_neg ((a.length : ℝ) - 1) (tStat a μ) ht
  cases alt <;> (simp only [exceptMap, tailP, swapAlt, neg_mul, one_mul, abs_neg, tRef, hr]; try ring_nf)

/-- the same for every value of the statistic, relative to `I₁(a,b) = 1` -/
theorem ttest_affine_neg_rel [SF ℝ] (B : BetaSpec) (a : List ℝ) (μ c b : ℝ) (alt : Alternative)
    (pol : NaNPolicy) (hc : c < 0) :
    T.ttest_onesample.ttest_onesample (a.map (fun x => c * x + b)) (c * μ + b) alt pol
      = exceptMap (fun r => (-r.1, r.2)) (T.ttest_onesample.ttest_onesample a μ (swapAlt alt) pol) := by
  by_cases h : 2 ≤ a.length
  · have hne : a ≠ [] := by rintro rfl; simp at h
    have hν : (0:ℝ) < (a.length : ℝ) - 1 := by
      have : (2:ℝ) ≤ a.length := by exact_mod_cast h
      linarith
    rw [ttest_eq _ _ _ pol (by simpa using h), ttest_eq a μ _ pol h,
      tStat_affine a μ c b hne hc.ne, abs_of_neg hc, div_neg, div_self hc.ne, List.length_map]
    have hr := tcdf_neg_rel B ((a.length : ℝ) - 1) (tStat a μ) hν
    cases alt <;> (simp only [exceptMap, tailP, swapAlt, neg_mul, one_mul, abs_neg, tRef, hr]; try ring_nf)
  · rw [ttest_too_small _ _ _ pol (by simpa using h), ttest_too_small a μ _ pol (by omega)]
    rfl

/-- non-vacuity of the premise structure: `Statrs.Spec.Incomplete` exhibits a model of `BetaSpec`;
    and of the data hypotheses: -/
example [SF ℝ] : T.ttest_onesample.ttest_onesample ([1, 2, 6].map (fun x : ℝ => 3 * x + 1)) (3 * 1 + 1)
      Alternative.Greater NaNPolicy.Emit
    = T.ttest_onesample.ttest_onesample [1, 2, 6] 1 Alternative.Greater NaNPolicy.Emit :=
  ttest_affine_pos [1, 2, 6] 1 3 1 _ _ (by norm_num)

end Statrs.Props.C18
