/-
  C19 — Dirichlet (hand model `Statrs.Model.Dirichlet`).

  Strength tags: full(ℝ) for `ln_pdf = ln ∘ pdf`, positivity, the closed form of `ln_pdf`, the
  documented `mean`/`variance` closed forms and the invariance under a common permutation of
  `(x_i, α_i)` pairs; rel(`Spec.GammaDensitySpec`) for the coincidence of the two-category
  Dirichlet with the generated `Beta` density.  Not covered: `∫ pdf = 1` over the simplex, the
  moment integrals and the entropy integral (entropy is pinned as a formula only).
-/
import Statrs.Real.Simp
import Statrs.Model.Multivariate
import Statrs.Lemmas.Multivariate
import Statrs.Spec.SFSpec_Density
import Statrs.Gen.D_beta
import Statrs.Gen.R_prec
import Mathlib.Tactic
set_option linter.unusedSectionVars false
set_option linter.unusedVariables false
namespace Statrs.Props.C19
open Statrs Statrs.Gen Statrs.Model Statrs.Lemmas.Multivariate

/-! ### every carrier -/
section generic
variable {α : Type} [Add α] [Sub α] [Mul α] [Div α] [Neg α] [LT α] [LE α] [BEq α]
  [DecidableLT α] [DecidableLE α] [OfScientific α] [Inhabited α] [RFun α] [SF α]

/-- the model's local copy of `prec::almost_eq` is the generated one -/
theorem almost_eq_eq_generated (a b acc : α) : almost_eq a b acc = R.prec.almost_eq a b acc := rfl

/-- `new` stores `alpha` unchanged and succeeds only for at least two entries, all finite and
    not `≤ 0`. -/
theorem dirichlet_new_fields (alpha : List α) (d : Dirichlet α) (h : Dirichlet.new alpha = .ok d) :
    d.f_alpha = alpha ∧ 2 ≤ alpha.length ∧
    ∀ a ∈ alpha, RFun.isFinite a = true ∧ ¬ (a ≤ (0.0 : α)) := by
  unfold Dirichlet.new Dirichlet.new_from_nalgebra at h
  split_ifs at h with h1 h2
  injection h with h
  subst h
  refine ⟨rfl, by omega, ?_⟩
  intro a ha
  rw [List.any_eq_true] at h2
  by_contra hc
  apply h2
  refine ⟨a, ha, ?_⟩
  simp only [decide_eq_true_eq]
  by_cases hf : RFun.isFinite a = true
  · right
    by_contra hle
    exact hc ⟨hf, hle⟩
  · left; exact hf

end generic

section real
variable [SF ℝ]

/-- full(ℝ): `pdf` is `exp(ln_pdf)`, hence positive, and `ln_pdf = ln ∘ pdf` at every argument. -/
theorem dirichlet_ln_pdf_eq_log_pdf (d : Dirichlet ℝ) (x : List ℝ) :
    0 < Dirichlet.pdf d x ∧ Dirichlet.ln_pdf d x = Real.log (Dirichlet.pdf d x) := by
  unfold Dirichlet.pdf
  rfun_norm
  exact ⟨Real.exp_pos _, (Real.log_exp _).symm⟩

/-- The three panic conditions of `ln_pdf` and its value otherwise, as sums over the zipped
    `(x_i, α_i)` pairs:  `Σ ((α_i - 1) ln x_i - lnΓ α_i) + lnΓ (Σ α_i)`. -/
theorem dirichlet_ln_pdf?_closed (d : Dirichlet ℝ) (x : List ℝ) :
    Dirichlet.ln_pdf? d x =
      if d.f_alpha.length ≠ x.length then none
      else if ¬ (x.all (fun x_i => decide ((0 : ℝ) < x_i ∧ x_i < 1))) = true then none
      else if ¬ (almost_eq ((List.zip x d.f_alpha).map Prod.fst).sum (1 : ℝ) (1e-4 : ℝ)) = true then none
      else some (((List.zip x d.f_alpha).map (fun p => (p.2 - 1) * Real.log p.1 - SF.ln_gamma p.2)).sum
                  + SF.ln_gamma ((List.zip x d.f_alpha).map Prod.snd).sum) := by
  unfold Dirichlet.ln_pdf?
  rw [foldl_triple (List.zip x d.f_alpha)
    (fun p => (p.2 - (1.0 : ℝ)) * RFun.ln p.1 - SF.ln_gamma p.2) Prod.fst Prod.snd]
  simp only [lit0, lit1, zero_add, rfun_ln]

/-- full(ℝ): the closed form of `ln_pdf` on valid arguments (all `x_i ∈ (0,1)`, `Σ x_i` within
    `1e-4` of 1, matching lengths). -/
theorem dirichlet_ln_pdf_closed (d : Dirichlet ℝ) (x : List ℝ) (hlen : d.f_alpha.length = x.length)
    (hx : ∀ x_i ∈ x, 0 < x_i ∧ x_i < 1) (hs : almost_eq x.sum (1 : ℝ) (1e-4 : ℝ) = true) :
    Dirichlet.ln_pdf d x =
      ((List.zip x d.f_alpha).map (fun p => (p.2 - 1) * Real.log p.1 - SF.ln_gamma p.2)).sum
        + SF.ln_gamma d.f_alpha.sum := by
  unfold Dirichlet.ln_pdf
  rw [dirichlet_ln_pdf?_closed]
  have h1 : (List.zip x d.f_alpha).map Prod.fst = x := List.map_fst_zip (le_of_eq hlen.symm)
  have h2 : (List.zip x d.f_alpha).map Prod.snd = d.f_alpha := List.map_snd_zip (le_of_eq hlen)
  rw [h1, h2, if_neg (not_not.mpr hlen), if_neg, if_neg (not_not.mpr hs)]
  · rfl
  · rw [not_not, List.all_eq_true]
    intro a ha
    simpa using hx a ha

/-- `mean()`: `α_i / α₀` with `α₀ = Σ α_i` (documented closed form). -/
theorem dirichlet_mean (d : Dirichlet ℝ) :
    Dirichlet.mean d = some (d.f_alpha.map (fun a => a / d.f_alpha.sum)) := by
  unfold Dirichlet.mean Dirichlet.alpha_sum
  rw [vsum_eq_sum]

/-- `variance()`: the documented covariance matrix — diagonal `α_i (α₀ - α_i) / (α₀² (α₀ + 1))`,
    off-diagonal `-α_i α_j / (α₀² (α₀ + 1))`; in particular it is symmetric. -/
theorem dirichlet_variance (d : Dirichlet ℝ) :
    ∃ V, Dirichlet.variance d = some V ∧ V.length = d.f_alpha.length ∧
      ∀ r c, r < d.f_alpha.length → c < d.f_alpha.length →
        LA.mget V r c =
          (if r = c then d.f_alpha.getD r 0 * (d.f_alpha.sum - d.f_alpha.getD r 0)
              / (d.f_alpha.sum ^ 2 * (d.f_alpha.sum + 1))
           else -(d.f_alpha.getD r 0 * d.f_alpha.getD c 0) / (d.f_alpha.sum ^ 2 * (d.f_alpha.sum + 1))) ∧
        LA.mget V r c = LA.mget V c r := by
  unfold Dirichlet.variance Dirichlet.alpha_sum
  rw [vsum_eq_sum]
  refine ⟨_, rfl, by simp, ?_⟩
  intro r c hr hc
  rw [mget_tabulate _ _ r c hr hc, mget_tabulate _ _ c r hc hr]
  have hd : (default : ℝ) = 0 := rfl
  simp only [lit1, hd]
  constructor
  · by_cases h : r = c
    · subst h; simp [pow_two]
    · rw [if_neg h, if_neg h]
      by_cases h2 : c < r
      · rw [if_pos h2]; ring
      · rw [if_neg h2]; ring
  · by_cases h : r = c
    · subst h; rfl
    · rw [if_neg h, if_neg (Ne.symm h)]
      by_cases h2 : c < r
      · rw [if_pos h2, if_neg (by omega)]
      · rw [if_neg h2, if_pos (by omega)]

/-- `entropy()` is the documented expression
    `-lnΓ(α₀) + (α₀ - K) ψ(α₀) - Σ (lnΓ(α_i) + (α_i - 1) ψ(α_i))` (formula pin only). -/
theorem dirichlet_entropy (d : Dirichlet ℝ) :
    Dirichlet.entropy d =
      some (-SF.ln_gamma d.f_alpha.sum + (d.f_alpha.sum - (d.f_alpha.length : ℝ)) * SF.digamma d.f_alpha.sum
        - (d.f_alpha.map (fun a => SF.ln_gamma a + (a - 1) * SF.digamma a)).sum) := by
  unfold Dirichlet.entropy Dirichlet.alpha_sum
  rw [vsum_eq_sum]
  have : ∀ (l : List ℝ) (c : ℝ),
      l.foldl (fun acc x => acc + SF.ln_gamma x + (x - (1.0 : ℝ)) * SF.digamma x) c =
        c + (l.map (fun a => SF.ln_gamma a + (a - 1) * SF.digamma a)).sum := by
    intro l
    induction l with
    | nil => intro c; simp
    | cons a t ih =>
      intro c
      simp only [List.foldl_cons, List.map_cons, List.sum_cons]
      rw [ih, lit1]; ring
  simp only [this, lit0, zero_add, rfun_ofInt]
  simp

/-- full(ℝ): the density is invariant under a common permutation of coordinates and parameters:
    if the lists of pairs `(x_i, α_i)` are permutations of each other, `ln_pdf?` (value and panic
    behaviour), `ln_pdf` and `pdf` coincide. -/
theorem dirichlet_perm_invariant (a a' x x' : List ℝ)
    (hlen : a.length = x.length) (hlen' : a'.length = x'.length)
    (hperm : (List.zip x a).Perm (List.zip x' a')) :
    Dirichlet.ln_pdf? ({ f_alpha := a } : Dirichlet ℝ) x = Dirichlet.ln_pdf? ({ f_alpha := a' } : Dirichlet ℝ) x' ∧
    Dirichlet.ln_pdf ({ f_alpha := a } : Dirichlet ℝ) x = Dirichlet.ln_pdf ({ f_alpha := a' } : Dirichlet ℝ) x' ∧
    Dirichlet.pdf ({ f_alpha := a } : Dirichlet ℝ) x = Dirichlet.pdf ({ f_alpha := a' } : Dirichlet ℝ) x' := by
  have key : Dirichlet.ln_pdf? ({ f_alpha := a } : Dirichlet ℝ) x =
      Dirichlet.ln_pdf? ({ f_alpha := a' } : Dirichlet ℝ) x' := by
    rw [dirichlet_ln_pdf?_closed, dirichlet_ln_pdf?_closed]
    have hx : x = (List.zip x a).map Prod.fst := (List.map_fst_zip (le_of_eq hlen.symm)).symm
    have hx' : x' = (List.zip x' a').map Prod.fst := (List.map_fst_zip (le_of_eq hlen'.symm)).symm
    have hall : (x.all fun x_i => decide ((0 : ℝ) < x_i ∧ x_i < 1)) =
        (x'.all fun x_i => decide ((0 : ℝ) < x_i ∧ x_i < 1)) := by
      rw [hx, hx']
      exact (hperm.map Prod.fst).all_eq
    simp only [if_neg (not_not.mpr hlen), if_neg (not_not.mpr hlen'), hall,
      (hperm.map Prod.fst).sum_eq, (hperm.map Prod.snd).sum_eq,
      (hperm.map (fun p : ℝ × ℝ => (p.2 - 1) * Real.log p.1 - SF.ln_gamma p.2)).sum_eq]
  refine ⟨key, ?_, ?_⟩
  · unfold Dirichlet.ln_pdf; rw [key]
  · unfold Dirichlet.pdf Dirichlet.ln_pdf; rw [key]

example : ∃ a a' x x' : List ℝ, a.length = x.length ∧ a'.length = x'.length ∧
    (List.zip x a).Perm (List.zip x' a') :=
  ⟨[1, 2], [2, 1], [0.25, 0.75], [0.75, 0.25], rfl, rfl, by
    simpa using List.Perm.swap _ _ []⟩


/-! ### two categories: Dirichlet([a,b]) at (x, 1-x) is Beta(a,b) at x -/

/-- `almost_eq(1, 1, 1e-4)` holds over ℝ -/
theorem almost_eq_one : almost_eq (1 : ℝ) (1 : ℝ) (1e-4 : ℝ) = true := by
  unfold almost_eq absDiffEq
  simp
  norm_num

/-- rel(`Spec.GammaDensitySpec`: `SF.gamma = Γ`, `SF.ln_gamma = ln Γ` on `(0,∞)`): for all shape
    parameters `a, b > 0` (what both constructors enforce) and every `x ∈ (0,1)` (the open
    interval on which `Dirichlet::pdf` does not panic) the two-category Dirichlet density at
    `(x, 1-x)` equals the generated `Beta.pdf` at `x` — in all three branches of `Beta.pdf`
    (`a = b = 1`, the `ln_pdf` branch for shapes above 80, and the Γ-quotient branch). -/
theorem dirichlet_two_eq_beta_rel (G : Spec.GammaDensitySpec) (a b x : ℝ) (ha : 0 < a) (hb : 0 < b)
    (hx0 : 0 < x) (hx1 : x < 1) :
    Dirichlet.pdf ({ f_alpha := [a, b] } : Dirichlet ℝ) [x, 1 - x] =
      Beta.pdf ({ f_shape_a := a, f_shape_b := b } : Beta ℝ) x := by
  have h1x : 0 < 1 - x := by linarith
  have hln : Dirichlet.ln_pdf ({ f_alpha := [a, b] } : Dirichlet ℝ) [x, 1 - x] =
      ((a - 1) * Real.log x - SF.ln_gamma a) + ((b - 1) * Real.log (1 - x) - SF.ln_gamma b)
        + SF.ln_gamma (a + b) := by
    rw [dirichlet_ln_pdf_closed ({ f_alpha := [a, b] } : Dirichlet ℝ) [x, 1 - x] rfl]
    · simp
    · intro y hy
      simp at hy
      rcases hy with rfl | rfl
      · exact ⟨hx0, hx1⟩
      · exact ⟨h1x, by linarith⟩
    · have : ([x, 1 - x] : List ℝ).sum = 1 := by simp
      rw [this]; exact almost_eq_one
  unfold Dirichlet.pdf
  rw [hln]
  unfold Beta.pdf
  rfun_norm
  simp only [lit0, lit1]
  rw [if_neg (by simp [hx0.le, hx1.le])]
  by_cases h11 : a = 1 ∧ b = 1
  · obtain ⟨rfl, rfl⟩ := h11
    rw [if_pos (by simp)]
    have e1 : SF.ln_gamma (1 : ℝ) = 0 := by rw [G.ln_gamma_eq 1 one_pos, Real.Gamma_one, Real.log_one]
    have e2 : SF.ln_gamma ((1 : ℝ) + 1) = 0 := by
      rw [G.ln_gamma_eq _ (by norm_num), show (1 : ℝ) + 1 = ((1 : ℕ) : ℝ) + 1 by norm_num,
        Real.Gamma_nat_eq_factorial]
      simp
    rw [e1, e2]; simp
  · rw [if_neg (by simpa using h11)]
    by_cases h80 : (80.0 : ℝ) < a ∨ (80.0 : ℝ) < b
    · rw [if_pos h80]
      unfold Beta.ln_pdf
      rfun_norm
      simp only [lit0, lit1]
      rw [if_neg (by simp [hx0.le, hx1.le]), if_neg (by simpa using h11)]
      simp only [hx0.ne', hx1.ne, and_false, if_false, decide_false, Bool.false_eq_true]
      congr 1; ring
    · rw [if_neg h80]
      have hab : 0 < a + b := by linarith
      rw [G.gamma_eq _ hab, G.gamma_eq _ ha, G.gamma_eq _ hb, G.ln_gamma_eq _ hab, G.ln_gamma_eq _ ha,
        G.ln_gamma_eq _ hb, Real.rpow_def_of_pos hx0, Real.rpow_def_of_pos h1x]
      have ga := Real.Gamma_pos_of_pos ha
      have gb := Real.Gamma_pos_of_pos hb
      have gab := Real.Gamma_pos_of_pos hab
      rw [show (a - 1) * Real.log x - Real.log (Real.Gamma a) + ((b - 1) * Real.log (1 - x) - Real.log (Real.Gamma b))
            + Real.log (Real.Gamma (a + b))
          = Real.log (Real.Gamma (a + b)) - Real.log (Real.Gamma a) - Real.log (Real.Gamma b)
            + Real.log x * (a - 1) + Real.log (1 - x) * (b - 1) by ring,
        Real.exp_add, Real.exp_add, Real.exp_sub, Real.exp_sub, Real.exp_log gab, Real.exp_log ga,
        Real.exp_log gb]
      field_simp

example : ∃ a b x : ℝ, 0 < a ∧ 0 < b ∧ 0 < x ∧ x < 1 := ⟨2, 3, 1 / 2, by norm_num, by norm_num, by norm_num, by norm_num⟩
example : @Spec.GammaDensitySpec Spec.sfWitness := Spec.gammaDensitySpec_witness

end real
end Statrs.Props.C19
