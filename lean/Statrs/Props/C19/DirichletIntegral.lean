/-
  C19 — Dirichlet with two categories: the density on the simplex `{(x, 1-x) : 0 < x < 1}` is Mathlib's
  `betaPDFReal a b`, hence integrates to 1 (rel(`Spec.GammaDensitySpec`): `SF.ln_gamma = log ∘ Γ`).
-/
import Statrs.Props.C19.Dirichlet
import Mathlib.Probability.Distributions.Beta
set_option linter.unusedSectionVars false
set_option linter.unusedVariables false
namespace Statrs.Props.C19
open Statrs Statrs.Gen Statrs.Model MeasureTheory ProbabilityTheory Set

/-- full(ℝ): `∫ betaPDFReal = 1` as a Bochner integral over `(0,1)` (Mathlib's `lintegral_betaPDF_eq_one`) -/
theorem integral_betaPDFReal_Ioo {a b : ℝ} (ha : 0 < a) (hb : 0 < b) :
    IntegrableOn (betaPDFReal a b) (Ioo 0 1) ∧ ∫ x in Ioo (0 : ℝ) 1, betaPDFReal a b x = 1 := by
  have hnn : ∀ x, 0 ≤ betaPDFReal a b x := by
    intro x
    unfold betaPDFReal
    split_ifs with hx
    · have := beta_pos ha hb
      have h1 : 0 < 1 - x := by linarith [hx.2]
      have := Real.rpow_pos_of_pos hx.1 (a - 1)
      have := Real.rpow_pos_of_pos h1 (b - 1)
      positivity
    · exact le_rfl
  have hl := lintegral_betaPDF_eq_one ha hb
  have hint : Integrable (betaPDFReal a b) := by
    refine ⟨(measurable_betaPDFReal a b).aestronglyMeasurable, ?_⟩
    rw [hasFiniteIntegral_iff_ofReal (Filter.Eventually.of_forall hnn)]
    change ∫⁻ x, betaPDF a b x < ⊤
    rw [hl]; exact ENNReal.one_lt_top
  refine ⟨hint.integrableOn, ?_⟩
  rw [setIntegral_eq_integral_of_forall_compl_eq_zero]
  · rw [integral_eq_lintegral_of_nonneg_ae (Filter.Eventually.of_forall hnn)
      (measurable_betaPDFReal a b).aestronglyMeasurable]
    change (∫⁻ x, betaPDF a b x).toReal = 1
    rw [hl]; rfl
  · intro x hx
    unfold betaPDFReal
    rw [if_neg (by simpa using hx)]

section real
variable [SF ℝ]

/-- rel(`Spec.GammaDensitySpec`): for `a, b > 0` and `0 < x < 1` the two-category Dirichlet density at
    `(x, 1 - x)` is Mathlib's Beta density `betaPDFReal a b x`. -/
theorem dirichlet_two_eq_betaPDFReal_rel (G : Spec.GammaDensitySpec) (a b x : ℝ) (ha : 0 < a) (hb : 0 < b)
    (hx0 : 0 < x) (hx1 : x < 1) :
    Dirichlet.pdf ({ f_alpha := [a, b] } : Dirichlet ℝ) [x, 1 - x] = betaPDFReal a b x := by
  have h1x : 0 < 1 - x := by linarith
  have hab : 0 < a + b := by linarith
  have hln : Dirichlet.ln_pdf ({ f_alpha := [a, b] } : Dirichlet ℝ) [x, 1 - x] =
      ((a - 1) * Real.log x - SF.ln_gamma a) + ((b - 1) * Real.log (1 - x) - SF.ln_gamma b)
        + SF.ln_gamma (a + b) := by
    rw [dirichlet_ln_pdf_closed ({ f_alpha := [a, b] } : Dirichlet ℝ) [x, 1 - x] rfl]
    · simp
    · intro y hy
      simp at hy
      rcases hy with rfl | rfl
      · exact ⟨hx0, hx1⟩
      · exact ⟨h1x, by linarith⟩
    · have : ([x, 1 - x] : List ℝ).sum = 1 := by simp
      rw [this]; exact almost_eq_one
  unfold Dirichlet.pdf
  rw [hln, Statrs.rfun_exp, G.ln_gamma_eq _ hab, G.ln_gamma_eq _ ha, G.ln_gamma_eq _ hb]
  unfold betaPDFReal ProbabilityTheory.beta
  rw [if_pos ⟨hx0, hx1⟩, Real.rpow_def_of_pos hx0, Real.rpow_def_of_pos h1x]
  have ga := Real.Gamma_pos_of_pos ha
  have gb := Real.Gamma_pos_of_pos hb
  have gab := Real.Gamma_pos_of_pos hab
  rw [show (a - 1) * Real.log x - Real.log (Real.Gamma a) + ((b - 1) * Real.log (1 - x) - Real.log (Real.Gamma b))
        + Real.log (Real.Gamma (a + b))
      = Real.log (Real.Gamma (a + b)) - Real.log (Real.Gamma a) - Real.log (Real.Gamma b)
        + Real.log x * (a - 1) + Real.log (1 - x) * (b - 1) by ring,
    Real.exp_add, Real.exp_add, Real.exp_sub, Real.exp_sub, Real.exp_log gab, Real.exp_log ga,
    Real.exp_log gb]
  field_simp

/-- rel(`Spec.GammaDensitySpec`): **the two-category Dirichlet density integrates to 1 over the simplex**
    `{(x, 1-x) : 0 < x < 1}` (parametrised by the first coordinate), for all `a, b > 0`. -/
theorem dirichlet_two_integral_eq_one_rel (G : Spec.GammaDensitySpec) (a b : ℝ) (ha : 0 < a) (hb : 0 < b) :
    IntegrableOn (fun x => Dirichlet.pdf ({ f_alpha := [a, b] } : Dirichlet ℝ) [x, 1 - x]) (Ioo 0 1) ∧
    ∫ x in Ioo (0 : ℝ) 1, Dirichlet.pdf ({ f_alpha := [a, b] } : Dirichlet ℝ) [x, 1 - x] = 1 := by
  obtain ⟨h1, h2⟩ := integral_betaPDFReal_Ioo ha hb
  have hcongr : ∀ x ∈ Ioo (0 : ℝ) 1,
      betaPDFReal a b x = Dirichlet.pdf ({ f_alpha := [a, b] } : Dirichlet ℝ) [x, 1 - x] :=
    fun x hx => (dirichlet_two_eq_betaPDFReal_rel G a b x ha hb hx.1 hx.2).symm
  refine ⟨h1.congr_fun hcongr measurableSet_Ioo, ?_⟩
  rw [← setIntegral_congr_fun measurableSet_Ioo hcongr, h2]

/-- rel(`Spec.GammaDensitySpec`): the same for every object built by `Dirichlet::new` with two categories. -/
theorem dirichlet_new_two_integral_eq_one_rel (G : Spec.GammaDensitySpec) (a b : ℝ) (d : Dirichlet ℝ)
    (h : Dirichlet.new [a, b] = .ok d) :
    IntegrableOn (fun x => Dirichlet.pdf d [x, 1 - x]) (Ioo 0 1) ∧
    ∫ x in Ioo (0 : ℝ) 1, Dirichlet.pdf d [x, 1 - x] = 1 := by
  obtain ⟨hd, _, hpos⟩ := dirichlet_new_fields [a, b] d h
  have ha : 0 < a := by
    have := (hpos a (by simp)).2
    rw [Statrs.Lemmas.Multivariate.lit0] at this
    exact not_le.mp this
  have hb : 0 < b := by
    have := (hpos b (by simp)).2
    rw [Statrs.Lemmas.Multivariate.lit0] at this
    exact not_le.mp this
  have : d = ({ f_alpha := [a, b] } : Dirichlet ℝ) := by cases d; simp_all
  rw [this]
  exact dirichlet_two_integral_eq_one_rel G a b ha hb

example : @Spec.GammaDensitySpec Spec.sfWitness := Spec.gammaDensitySpec_witness
example : ∃ d : Dirichlet ℝ, Dirichlet.new [2, 3] = .ok d := by
  refine ⟨{ f_alpha := [2, 3] }, ?_⟩
  unfold Dirichlet.new Dirichlet.new_from_nalgebra
  simp [Statrs.Lemmas.Multivariate.lit0]

end real
end Statrs.Props.C19
