/-
  C19 — Dirichlet, every number of categories `K = m + 1 ≥ 2`: on the open simplex
  `Δ_m = {y : Fin m → ℝ | yᵢ > 0, Σ y < 1}` (the simplex `{x ∈ ℝᴷ : x > 0, Σ x = 1}` parametrised by its first
  `m` coordinates, `x = (y₀, …, y_{m-1}, 1 - Σ y)`) the density is `Γ(Σα)/∏Γ(αᵢ) · ∏ xᵢ^(αᵢ-1)`, it
  integrates to 1, `mean()` is the vector of first moments and `variance()` the covariance matrix.
  All rel(`Spec.GammaDensitySpec`): `SF.ln_gamma = log ∘ Γ` on `(0, ∞)`.
  (Off the simplex `Dirichlet::pdf` panics; over ℝ the panic value is junk, so integrals are set integrals
  over `Δ_m`.)
-/
import Statrs.Props.C19.Dirichlet
import Statrs.Lemmas.DirichletIntegral
set_option linter.unusedSectionVars false
set_option linter.unusedVariables false
namespace Statrs.Props.C19
open Statrs Statrs.Gen Statrs.Model Statrs.Lemmas.Multivariate Statrs.Lemmas.DirichletIntegral MeasureTheory

/-- full(∀α): `zip` of two tabulated lists -/
theorem zip_ofFn_ofFn {β γ : Type} {n : ℕ} (f : Fin n → β) (g : Fin n → γ) :
    List.zip (List.ofFn f) (List.ofFn g) = List.ofFn (fun i => (f i, g i)) := by
  apply List.ext_getElem
  · simp
  · intro i h1 h2
    simp

/-- full(∀α): index bound in a tabulated list -/
theorem fin_lt_length_ofFn {β : Type} {n : ℕ} (f : Fin n → β) (i : Fin n) : (i : ℕ) < (List.ofFn f).length := by
  rw [List.length_ofFn]; exact i.isLt

/-- full(ℝ): with at least two categories every coordinate of a point of the open simplex is `< 1` -/
theorem simplexCoord_lt_one {m : ℕ} (hm : 1 ≤ m) (y : Fin m → ℝ) (hy : y ∈ simplex m) (i : Fin (m + 1)) :
    simplexCoord y i < 1 := by
  have hs := sum_simplexCoord y
  rw [← Finset.add_sum_erase Finset.univ _ (Finset.mem_univ i)] at hs
  have hne : (Finset.univ.erase i).Nonempty := by
    rw [← Finset.card_pos, Finset.card_erase_of_mem (Finset.mem_univ i), Finset.card_univ, Fintype.card_fin]
    omega
  have : 0 < ∑ j ∈ Finset.univ.erase i, simplexCoord y j :=
    Finset.sum_pos (fun j _ => simplexCoord_pos y hy j) hne
  linarith

section real
variable [SF ℝ]

/-- rel(`Spec.GammaDensitySpec`): the density on the open simplex, every number `m + 1 ≥ 2` of categories:
    `pdf(x) = ∏ xᵢ^(αᵢ-1) / (∏ Γ(αᵢ) / Γ(Σ α))`, `x = (y, 1 - Σ y)`. -/
theorem dirichlet_pdf_simplex_rel (G : Spec.GammaDensitySpec) {m : ℕ} (hm : 1 ≤ m) (α : Fin (m + 1) → ℝ)
    (hα : ∀ i, 0 < α i) (y : Fin m → ℝ) (hy : y ∈ simplex m) :
    Dirichlet.pdf ({ f_alpha := List.ofFn α } : Dirichlet ℝ) (List.ofFn (simplexCoord y)) =
      simplexKernel α y / dirNorm α := by
  have hA : 0 < ∑ i, α i := Finset.sum_pos (fun i _ => hα i) Finset.univ_nonempty
  have hln := dirichlet_ln_pdf_closed ({ f_alpha := List.ofFn α } : Dirichlet ℝ) (List.ofFn (simplexCoord y))
    (by simp)
    (by
      intro x hx
      obtain ⟨i, rfl⟩ := (List.mem_ofFn' _ _).mp hx
      exact ⟨simplexCoord_pos y hy i, simplexCoord_lt_one hm y hy i⟩)
    (by rw [List.sum_ofFn, sum_simplexCoord]; exact almost_eq_one)
  unfold Dirichlet.pdf
  rw [hln, Statrs.rfun_exp]
  simp only [zip_ofFn_ofFn, List.map_ofFn, List.sum_ofFn, Function.comp_def]
  rw [G.ln_gamma_eq _ hA, Real.exp_add, Real.exp_sum, Real.exp_log (Real.Gamma_pos_of_pos hA),
    simplexKernel_eq, if_pos (show (∀ i, 0 < y i) ∧ ∑ i, y i < 1 from hy)]
  unfold dirNorm
  have hterm : ∀ i, Real.exp ((α i - 1) * Real.log (simplexCoord y i) - SF.ln_gamma (α i)) =
      simplexCoord y i ^ (α i - 1) / Real.Gamma (α i) := by
    intro i
    rw [G.ln_gamma_eq _ (hα i), Real.exp_sub, Real.exp_log (Real.Gamma_pos_of_pos (hα i)),
      Real.rpow_def_of_pos (simplexCoord_pos y hy i), mul_comm]
  simp_rw [hterm]
  rw [Finset.prod_div_distrib]
  have h1 : (∏ i, Real.Gamma (α i)) ≠ 0 :=
    (Finset.prod_pos (fun i _ => Real.Gamma_pos_of_pos (hα i))).ne'
  have h2 := (Real.Gamma_pos_of_pos hA).ne'
  field_simp

/-- rel(`Spec.GammaDensitySpec`): `g · pdf` restricted to the simplex, as a function on all of `Fin m → ℝ` -/
theorem dirichlet_pdf_indicator_rel (G : Spec.GammaDensitySpec) {m : ℕ} (hm : 1 ≤ m) (α : Fin (m + 1) → ℝ)
    (hα : ∀ i, 0 < α i) (g : (Fin m → ℝ) → ℝ) :
    (simplex m).indicator (fun y => g y *
        Dirichlet.pdf ({ f_alpha := List.ofFn α } : Dirichlet ℝ) (List.ofFn (simplexCoord y))) =
      fun y => g y * simplexKernel α y / dirNorm α := by
  funext y
  by_cases hy : y ∈ simplex m
  · rw [Set.indicator_of_mem hy, dirichlet_pdf_simplex_rel G hm α hα y hy, mul_div_assoc]
  · rw [Set.indicator_of_notMem hy, simplexKernel_zero_of_notMem α y hy]; simp

/-- full(ℝ): the open simplex is measurable -/
theorem measurableSet_simplex' (m : ℕ) : MeasurableSet (simplex m) := measurableSet_simplex m

/-- rel(`Spec.GammaDensitySpec`): **the Dirichlet density integrates to 1 over the open simplex**, for every
    number `m + 1 ≥ 2` of categories and all positive parameters. -/
theorem dirichlet_integral_eq_one_rel (G : Spec.GammaDensitySpec) {m : ℕ} (hm : 1 ≤ m) (α : Fin (m + 1) → ℝ)
    (hα : ∀ i, 0 < α i) :
    IntegrableOn (fun y => Dirichlet.pdf ({ f_alpha := List.ofFn α } : Dirichlet ℝ) (List.ofFn (simplexCoord y)))
      (simplex m) ∧
    ∫ y in simplex m, Dirichlet.pdf ({ f_alpha := List.ofFn α } : Dirichlet ℝ) (List.ofFn (simplexCoord y)) = 1 := by
  have hind := dirichlet_pdf_indicator_rel G hm α hα (fun _ => 1)
  simp only [one_mul] at hind
  obtain ⟨h1, h2⟩ := integral_simplexKernel α hα
  have hN := (dirNorm_pos α hα).ne'
  constructor
  · rw [← integrable_indicator_iff (measurableSet_simplex' m), hind]
    exact h1.div_const _
  · rw [← integral_indicator (measurableSet_simplex' m), hind, integral_div, h2, div_self hN]

/-- rel(`Spec.GammaDensitySpec`): **`mean()` is the vector of first moments of the density**:
    `∫_Δ xᵢ · pdf(x) = mean()[i]` for each of the `m + 1` coordinates `xᵢ` (the last one is `1 - Σ y`). -/
theorem dirichlet_mean_eq_first_moment_rel (G : Spec.GammaDensitySpec) {m : ℕ} (hm : 1 ≤ m)
    (α : Fin (m + 1) → ℝ) (hα : ∀ i, 0 < α i) :
    ∃ mv, Dirichlet.mean ({ f_alpha := List.ofFn α } : Dirichlet ℝ) = some mv ∧ mv.length = m + 1 ∧
      ∀ i : Fin (m + 1),
        IntegrableOn (fun y => simplexCoord y i *
          Dirichlet.pdf ({ f_alpha := List.ofFn α } : Dirichlet ℝ) (List.ofFn (simplexCoord y))) (simplex m) ∧
        ∫ y in simplex m, simplexCoord y i *
          Dirichlet.pdf ({ f_alpha := List.ofFn α } : Dirichlet ℝ) (List.ofFn (simplexCoord y)) = mv.getD i 0 := by
  refine ⟨_, dirichlet_mean _, by simp, fun i => ?_⟩
  have hind := dirichlet_pdf_indicator_rel G hm α hα (fun y => simplexCoord y i)
  obtain ⟨h1, h2⟩ := integral_coord_mul_simplexKernel α hα i
  have hN := (dirNorm_pos α hα).ne'
  constructor
  · rw [← integrable_indicator_iff (measurableSet_simplex' m), hind]
    exact h1.div_const _
  · rw [← integral_indicator (measurableSet_simplex' m), hind, integral_div, h2]
    simp only [List.map_ofFn, List.sum_ofFn, Function.comp_def]
    rw [List.getD_eq_getElem _ _ (fin_lt_length_ofFn _ i), List.getElem_ofFn]
    field_simp

/-- rel(`Spec.GammaDensitySpec`): **`variance()` is the covariance matrix of the density**:
    `∫_Δ (xᵢ - μᵢ)(xⱼ - μⱼ) · pdf(x) = variance()[i][j]`, `μ = mean()`. -/
theorem dirichlet_variance_eq_covariance_rel (G : Spec.GammaDensitySpec) {m : ℕ} (hm : 1 ≤ m)
    (α : Fin (m + 1) → ℝ) (hα : ∀ i, 0 < α i) :
    ∃ mv V, Dirichlet.mean ({ f_alpha := List.ofFn α } : Dirichlet ℝ) = some mv ∧
      Dirichlet.variance ({ f_alpha := List.ofFn α } : Dirichlet ℝ) = some V ∧
      ∀ i j : Fin (m + 1),
        IntegrableOn (fun y => (simplexCoord y i - mv.getD i 0) * (simplexCoord y j - mv.getD j 0) *
          Dirichlet.pdf ({ f_alpha := List.ofFn α } : Dirichlet ℝ) (List.ofFn (simplexCoord y))) (simplex m) ∧
        ∫ y in simplex m, (simplexCoord y i - mv.getD i 0) * (simplexCoord y j - mv.getD j 0) *
          Dirichlet.pdf ({ f_alpha := List.ofFn α } : Dirichlet ℝ) (List.ofFn (simplexCoord y)) = LA.mget V i j := by
  obtain ⟨V, hV, _, hent⟩ := dirichlet_variance ({ f_alpha := List.ofFn α } : Dirichlet ℝ)
  refine ⟨_, V, dirichlet_mean _, hV, fun i j => ?_⟩
  have hA : 0 < ∑ l, α l := Finset.sum_pos (fun i _ => hα i) Finset.univ_nonempty
  have hN := (dirNorm_pos α hα).ne'
  have hget : ∀ i : Fin (m + 1),
      (List.map (fun a => a / (List.ofFn α).sum) (List.ofFn α)).getD i 0 = α i / ∑ l, α l := by
    intro i
    simp only [List.map_ofFn, List.sum_ofFn, Function.comp_def]
    rw [List.getD_eq_getElem _ _ (fin_lt_length_ofFn _ i), List.getElem_ofFn]
  have hgetα : ∀ i : Fin (m + 1), (List.ofFn α).getD i 0 = α i := by
    intro i; rw [List.getD_eq_getElem _ _ (fin_lt_length_ofFn _ i), List.getElem_ofFn]
  simp only [hget]
  have hind := dirichlet_pdf_indicator_rel G hm α hα
    (fun y => (simplexCoord y i - α i / ∑ l, α l) * (simplexCoord y j - α j / ∑ l, α l))
  obtain ⟨k0, e0⟩ := integral_simplexKernel α hα
  obtain ⟨ki, ei⟩ := integral_coord_mul_simplexKernel α hα i
  obtain ⟨kj, ej⟩ := integral_coord_mul_simplexKernel α hα j
  obtain ⟨kij, eij⟩ := integral_coord_mul_coord_mul_simplexKernel α hα i j
  have hexp : (fun y => (simplexCoord y i - α i / ∑ l, α l) * (simplexCoord y j - α j / ∑ l, α l) *
      simplexKernel α y) =
      fun y => simplexCoord y j * (simplexCoord y i * simplexKernel α y)
        - α j / (∑ l, α l) * (simplexCoord y i * simplexKernel α y)
        - α i / (∑ l, α l) * (simplexCoord y j * simplexKernel α y)
        + α i / (∑ l, α l) * (α j / ∑ l, α l) * simplexKernel α y := by
    funext y; ring
  have I1 : Integrable (fun y => simplexCoord y j * (simplexCoord y i * simplexKernel α y)
      - α j / (∑ l, α l) * (simplexCoord y i * simplexKernel α y)) := kij.sub (ki.const_mul _)
  have I2 : Integrable (fun y => simplexCoord y j * (simplexCoord y i * simplexKernel α y)
      - α j / (∑ l, α l) * (simplexCoord y i * simplexKernel α y)
      - α i / (∑ l, α l) * (simplexCoord y j * simplexKernel α y)) := I1.sub (kj.const_mul _)
  have I3 : Integrable (fun y => α i / (∑ l, α l) * (α j / ∑ l, α l) * simplexKernel α y) := k0.const_mul _
  have hint : Integrable (fun y => (simplexCoord y i - α i / ∑ l, α l) * (simplexCoord y j - α j / ∑ l, α l) *
      simplexKernel α y) := by
    rw [hexp]
    exact I2.add I3
  constructor
  · rw [← integrable_indicator_iff (measurableSet_simplex' m), hind]
    exact hint.div_const _
  · rw [← integral_indicator (measurableSet_simplex' m), hind, integral_div, hexp,
      integral_add I2 I3, integral_sub I1 (kj.const_mul _), integral_sub kij (ki.const_mul _),
      integral_const_mul, integral_const_mul, integral_const_mul, e0, ei, ej, eij,
      (hent i j (fin_lt_length_ofFn α i) (fin_lt_length_ofFn α j)).1, hgetα, hgetα, List.sum_ofFn]
    by_cases hij : (i : ℕ) = (j : ℕ)
    · have : i = j := Fin.ext hij
      subst this
      rw [if_pos rfl, if_pos rfl]
      field_simp
      ring
    · have hne : j ≠ i := fun h => hij (by rw [h])
      rw [if_neg hne, if_neg hij]
      field_simp
      ring

/-- rel(`Spec.GammaDensitySpec`): the three statements on every object built by `Dirichlet::new` from a
    parameter vector of length `m + 1 ≥ 2`. -/
theorem dirichlet_new_integral_moments_rel (G : Spec.GammaDensitySpec) {m : ℕ} (hm : 1 ≤ m)
    (α : Fin (m + 1) → ℝ) (d : Dirichlet ℝ) (h : Dirichlet.new (List.ofFn α) = .ok d) :
    (∫ y in simplex m, Dirichlet.pdf d (List.ofFn (simplexCoord y)) = 1) ∧
    ∃ mv V, Dirichlet.mean d = some mv ∧ Dirichlet.variance d = some V ∧
      (∀ i : Fin (m + 1),
        ∫ y in simplex m, simplexCoord y i * Dirichlet.pdf d (List.ofFn (simplexCoord y)) = mv.getD i 0) ∧
      ∀ i j : Fin (m + 1),
        ∫ y in simplex m, (simplexCoord y i - mv.getD i 0) * (simplexCoord y j - mv.getD j 0) *
          Dirichlet.pdf d (List.ofFn (simplexCoord y)) = LA.mget V i j := by
  obtain ⟨hd, _, hpos⟩ := dirichlet_new_fields (List.ofFn α) d h
  have hα : ∀ i, 0 < α i := by
    intro i
    have := (hpos (α i) ((List.mem_ofFn' _ _).mpr ⟨i, rfl⟩)).2
    rw [lit0] at this
    exact not_le.mp this
  have : d = ({ f_alpha := List.ofFn α } : Dirichlet ℝ) := by cases d; simp_all
  subst this
  obtain ⟨mv, V, hmv, hV, hcov⟩ := dirichlet_variance_eq_covariance_rel G hm α hα
  obtain ⟨mv', hmv', _, hmean⟩ := dirichlet_mean_eq_first_moment_rel G hm α hα
  rw [hmv] at hmv'
  injection hmv' with hmv'
  subst hmv'
  exact ⟨(dirichlet_integral_eq_one_rel G hm α hα).2, mv, V, hmv, hV, fun i => (hmean i).2,
    fun i j => (hcov i j).2⟩

example : @Spec.GammaDensitySpec Spec.sfWitness := Spec.gammaDensitySpec_witness
example : ∃ d : Dirichlet ℝ, Dirichlet.new (List.ofFn (![1, 2, 3] : Fin 3 → ℝ)) = .ok d := by
  refine ⟨{ f_alpha := [1, 2, 3] }, ?_⟩
  unfold Dirichlet.new Dirichlet.new_from_nalgebra
  simp [lit0]

end real
end Statrs.Props.C19
