/-
  C19 — MultivariateNormal (hand model `Statrs.Model.MultivariateNormal`, see
  Statrs/Model/Multivariate.lean; nalgebra routines are the concrete list functions `LA.*`).

  Strength tags: full(∀α) for the constructor/accessor facts (branch logic only), full(ℝ) for the
  density identities and the one-dimensional reduction to the generated `Normal`,
  rel(`Spec.CovSpec`) for the statements that need `det Σ ≠ 0`.
  Not covered: `∫ pdf = 1`, moment integrals, entropy as `-∫ pdf ln pdf` (only the 1-D
  coincidence with `Normal.entropy`).
-/
import Statrs.Real.Simp
import Statrs.Model.Multivariate
import Statrs.Lemmas.Multivariate
import Statrs.Spec.LinAlgSpec
import Statrs.Gen.D_normal
import Mathlib.Tactic
set_option linter.unusedSectionVars false
namespace Statrs.Props.C19
open Statrs Statrs.Gen Statrs.Model Statrs.Lemmas.Multivariate

/-! ### constructor and accessors (every carrier) -/
section generic
variable {α : Type} [Add α] [Sub α] [Mul α] [Div α] [Neg α] [LT α] [LE α] [BEq α]
  [DecidableLT α] [DecidableLE α] [OfScientific α] [Inhabited α] [RFun α]

/-- What `new_from_nalgebra` stores: the parameters themselves, `pdf_const` computed from
    `(mean, cov)` by `density_distribution_pdf_const`, the precision as the Cholesky inverse
    (`Cholesky::inverse`) and the unpacked Cholesky factor — and it succeeds only if the
    validation passed. -/
theorem mvn_new_fields (mean : List α) (cov : List (List α)) (d : MultivariateNormal α)
    (h : MultivariateNormal.new_from_nalgebra mean cov = .ok d) :
    d.f_mu = mean ∧ d.f_cov = cov ∧
    d.f_pdf_const = unwrapO (density_distribution_pdf_const mean cov) ∧
    mean.length = cov.length ∧ LA.isSquare cov = true ∧ LA.symmetricEq cov = true ∧
    LA.anyNaN cov = false ∧
    ∃ L, LA.choleskyNew cov = some L ∧ d.f_precision = LA.choleskyInverse L ∧
      d.f_cov_chol_decomp = LA.choleskyUnpack L := by
  unfold MultivariateNormal.new_from_nalgebra at h
  split_ifs at h with h1 h2 h3
  split at h
  · cases h
  · rename_i L hL
    injection h with h
    subst h
    refine ⟨rfl, rfl, rfl, ?_, ?_, ?_, ?_, L, hL, rfl, rfl⟩
    · exact not_not.mp h3
    · by_contra hc; exact h2 (Or.inl hc)
    · by_contra hc; exact h2 (Or.inr (Or.inl hc))
    · by_contra hc; exact h2 (Or.inr (Or.inr (by simpa using hc)))

/-- `mean()`, `variance()`, `mode()` return the stored parameters. -/
theorem mvn_accessors (d : MultivariateNormal α) :
    MultivariateNormal.mean d = some d.f_mu ∧ MultivariateNormal.variance d = some d.f_cov ∧
    MultivariateNormal.mode d = d.f_mu := ⟨rfl, rfl, rfl⟩

/-- On a constructed object `mean()`/`variance()` are the constructor's arguments. -/
theorem mvn_new_mean_variance (mean : List α) (cov : List (List α)) (d : MultivariateNormal α)
    (h : MultivariateNormal.new_from_nalgebra mean cov = .ok d) :
    MultivariateNormal.mean d = some mean ∧ MultivariateNormal.variance d = some cov := by
  obtain ⟨h1, h2, _⟩ := mvn_new_fields mean cov d h
  exact ⟨by rw [← h1]; rfl, by rw [← h2]; rfl⟩

/-- `pdf`/`ln_pdf` panic (`pdf? = none`) exactly on a dimension mismatch, and the plain functions
    are the `?`-versions when they do not. -/
theorem mvn_pdf_of_some (d : MultivariateNormal α) (x : List α) (e : α)
    (h : density_distribution_exponential d.f_mu d.f_precision x = some e) :
    MultivariateNormal.pdf? d x = some (MultivariateNormal.pdf d x) ∧
    MultivariateNormal.ln_pdf? d x = some (MultivariateNormal.ln_pdf d x) ∧
    MultivariateNormal.pdf d x = d.f_pdf_const * RFun.exp e ∧
    MultivariateNormal.ln_pdf d x = RFun.ln d.f_pdf_const + e := by
  simp [MultivariateNormal.pdf?, MultivariateNormal.ln_pdf?, MultivariateNormal.pdf,
    MultivariateNormal.ln_pdf, h, unwrapO]

end generic

/-! ### density identities over ℝ -/

/-- `pdf ≥ 0` whenever the stored normalisation constant is (it is a square root on every
    constructed object: `mvn_new_pdf_const_nonneg`). -/
theorem mvn_pdf_nonneg (d : MultivariateNormal ℝ) (h : 0 ≤ d.f_pdf_const) (x : List ℝ) :
    0 ≤ MultivariateNormal.pdf d x := by
  unfold MultivariateNormal.pdf
  rfun_norm
  exact mul_nonneg h (Real.exp_pos _).le

theorem mvn_new_pdf_const_nonneg (mean : List ℝ) (cov : List (List ℝ)) (d : MultivariateNormal ℝ)
    (h : MultivariateNormal.new_from_nalgebra mean cov = .ok d) : 0 ≤ d.f_pdf_const := by
  obtain ⟨_, _, h3, h4, h5, _⟩ := mvn_new_fields mean cov d h
  rw [h3]
  unfold density_distribution_pdf_const
  rw [if_neg (by simp [h4, h5])]
  simp only [unwrapO]
  rfun_norm
  exact Real.sqrt_nonneg _

/-- `pdf ≥ 0` on every constructed object, every argument. -/
theorem mvn_new_pdf_nonneg (mean : List ℝ) (cov : List (List ℝ)) (d : MultivariateNormal ℝ)
    (h : MultivariateNormal.new_from_nalgebra mean cov = .ok d) (x : List ℝ) :
    0 ≤ MultivariateNormal.pdf d x :=
  mvn_pdf_nonneg d (mvn_new_pdf_const_nonneg mean cov d h) x

/-- `ln_pdf = ln ∘ pdf` wherever `pdf > 0` (any stored fields). -/
theorem mvn_ln_pdf_eq_log_pdf (d : MultivariateNormal ℝ) (x : List ℝ)
    (h : 0 < MultivariateNormal.pdf d x) :
    MultivariateNormal.ln_pdf d x = Real.log (MultivariateNormal.pdf d x) := by
  unfold MultivariateNormal.pdf at h ⊢
  unfold MultivariateNormal.ln_pdf
  rfun_norm
  have hc : d.f_pdf_const ≠ 0 := by
    intro h0; rw [h0, zero_mul] at h; exact lt_irrefl _ h
  rw [Real.log_mul hc (Real.exp_pos _).ne', Real.log_exp]

/-- rel(`Spec.CovSpec`): if `det Σ ≠ 0` (true whenever the Cholesky factorisation of a real
    symmetric matrix succeeds — taken as a premise) then on a constructed object the density is
    strictly positive and `ln_pdf = ln ∘ pdf` at every argument. -/
theorem mvn_pdf_pos_and_ln_pdf_rel (mean : List ℝ) (cov : List (List ℝ)) (d : MultivariateNormal ℝ)
    (h : MultivariateNormal.new_from_nalgebra mean cov = .ok d) (S : Spec.CovSpec cov) (x : List ℝ) :
    0 < MultivariateNormal.pdf d x ∧
    MultivariateNormal.ln_pdf d x = Real.log (MultivariateNormal.pdf d x) := by
  have hpos : 0 < MultivariateNormal.pdf d x := by
    obtain ⟨_, _, h3, h4, h5, _⟩ := mvn_new_fields mean cov d h
    unfold MultivariateNormal.pdf
    rw [h3]
    unfold density_distribution_pdf_const
    rw [if_neg (by simp [h4, h5])]
    simp only [unwrapO]
    rfun_norm
    apply mul_pos _ (Real.exp_pos _)
    apply Real.sqrt_pos.mpr
    have h2pi : (0 : ℝ) < (2.0 : ℝ) * Real.pi := by rw [lit2]; positivity
    have : 0 < |LA.determinant cov| := abs_pos.mpr S.det_pos.ne'
    positivity
  exact ⟨hpos, mvn_ln_pdf_eq_log_pdf d x hpos⟩

/-! ### one dimension: MVN([μ],[[σ²]]) is Normal(μ,σ) -/

/-- The 1×1 constructor call succeeds for `σ > 0` and stores `precision = 1/√(σ²)/√(σ²)`,
    `pdf_const = √(1/((2π)¹·|σ²|))`. -/
theorem mvn_one_dim_new (μ σ : ℝ) (hσ : 0 < σ) :
    MultivariateNormal.new_from_nalgebra [μ] [[σ * σ]] =
      .ok { f_cov_chol_decomp := [[Real.sqrt (σ * σ)]], f_mu := [μ], f_cov := [[σ * σ]],
            f_precision := [[1 / Real.sqrt (σ * σ) / Real.sqrt (σ * σ)]],
            f_pdf_const := Real.sqrt (1 / ((2 * Real.pi) ^ (1 : ℤ) * |σ * σ|)) } := by
  have hs : 0 < σ * σ := mul_pos hσ hσ
  unfold MultivariateNormal.new_from_nalgebra
  simp [LA.isSquare, LA.symmetricEq, LA.anyNaN, LA.mget, chol_one _ hs, cholInv_one, unpack_one,
    density_distribution_pdf_const, det_one, unwrapO, lit2]

/-- the exponent in one dimension -/
theorem exponential_one_dim (μ p x : ℝ) :
    density_distribution_exponential [μ] [[p]] [x] = some (-(1 / 2) * (p * (x - μ) * (x - μ))) := by
  simp [density_distribution_exponential, LA.isSquare, LA.vsub, matvec_one, dotx_one, lit05]

theorem pdf_const_one_dim (σ : ℝ) (hσ : 0 < σ) :
    Real.sqrt (1 / ((2 * Real.pi) ^ (1 : ℤ) * |σ * σ|)) = 1 / (Real.sqrt (2 * Real.pi) * σ) := by
  have hs : 0 < σ * σ := mul_pos hσ hσ
  have hpi : 0 < 2 * Real.pi := by positivity
  rw [zpow_one, abs_of_pos hs]
  have : 1 / (2 * Real.pi * (σ * σ)) = (1 / (Real.sqrt (2 * Real.pi) * σ)) ^ 2 := by
    rw [div_pow, mul_pow, Real.sq_sqrt hpi.le]; ring
  rw [this, Real.sqrt_sq (by positivity)]

/-- full(ℝ): in one dimension the constructed MVN has exactly the generated `Normal` density,
    log-density and entropy (for every `μ`, every `σ > 0`, every `x`). -/
theorem mvn_one_dim_eq_normal (μ σ : ℝ) (hσ : 0 < σ) :
    ∃ d : MultivariateNormal ℝ, MultivariateNormal.new_from_nalgebra [μ] [[σ * σ]] = .ok d ∧
      (∀ x : ℝ, MultivariateNormal.pdf d [x] = Normal.pdf ({ f_mean := μ, f_std_dev := σ } : Normal ℝ) x) ∧
      (∀ x : ℝ, MultivariateNormal.ln_pdf d [x] = Normal.ln_pdf ({ f_mean := μ, f_std_dev := σ } : Normal ℝ) x) ∧
      MultivariateNormal.entropy d = Normal.entropy ({ f_mean := μ, f_std_dev := σ } : Normal ℝ) := by
  have hs : 0 < σ * σ := mul_pos hσ hσ
  have hsq : Real.sqrt (σ * σ) = σ := Real.sqrt_mul_self hσ.le
  have hpi : 0 < 2 * Real.pi := by positivity
  have hsqpi : 0 < Real.sqrt (2 * Real.pi) := Real.sqrt_pos.mpr hpi
  have he : ∀ x : ℝ, -(1 / 2) * (1 / σ / σ * (x - μ) * (x - μ)) = -(1 / 2) * ((x - μ) / σ) * ((x - μ) / σ) := by
    intro x; field_simp
  refine ⟨_, mvn_one_dim_new μ σ hσ, ?_, ?_, ?_⟩
  · intro x
    simp only [MultivariateNormal.pdf, exponential_one_dim, unwrapO, Normal.pdf,
      D.normal.pdf_unchecked, hsq, pdf_const_one_dim σ hσ]
    rfun_norm
    rw [lit05, he x]
    ring
  · intro x
    simp only [MultivariateNormal.ln_pdf, exponential_one_dim, unwrapO, Normal.ln_pdf,
      D.normal.ln_pdf_unchecked, hsq, pdf_const_one_dim σ hσ]
    rfun_norm
    rw [lit05, he x, Real.log_div one_ne_zero (by positivity), Real.log_one,
      Real.log_mul hsqpi.ne' hσ.ne']
    ring
  · simp only [MultivariateNormal.entropy, Normal.entropy, LA.scale, List.map, det_one]
    rfun_norm
    rw [lit05, lit2]
    have h2 : (0 : ℝ) < 2 * Real.pi * Real.exp 1 := by positivity
    rw [Real.log_sqrt h2.le, Real.log_mul hs.ne' h2.ne', Real.log_mul hσ.ne' hσ.ne']
    congr 1; ring


/-! ### non-vacuity -/
example : ∃ d : MultivariateNormal ℝ, MultivariateNormal.new_from_nalgebra [0] [[1 * 1]] = .ok d :=
  ⟨_, mvn_one_dim_new 0 1 one_pos⟩
example : Spec.CovSpec [[(2 : ℝ) * 2]] := Spec.covSpec_one _ (by norm_num)
example : ∃ (d : MultivariateNormal ℝ) (x : List ℝ), 0 < MultivariateNormal.pdf d x :=
  ⟨_, [0], (mvn_pdf_pos_and_ln_pdf_rel [0] [[1 * 1]] _ (mvn_one_dim_new 0 1 one_pos)
    (Spec.covSpec_one _ (by norm_num)) [0]).1⟩

end Statrs.Props.C19
