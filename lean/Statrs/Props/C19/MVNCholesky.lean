/-
  C19 — MultivariateNormal / MultivariateStudent: the `_rel` theorems of `Props/C19/MVN.lean`,
  `MVNFormula.lean`, `MVT.lean` WITHOUT their linear-algebra premises.

  On every constructed object (any dimension) the premise structures of `Spec/LinAlgSpec.lean` hold:
    `Spec.CovSpec cov`                      (`0 < LA.determinant cov`),
    `Spec.MatrixSpec n cov d.f_precision`   (`LA.determinant = det`, stored precision = left inverse),
    `Spec.PSDSpec n d.f_precision`          (the quadratic form the code evaluates is `≥ 0`),
  because `Cholesky::new` succeeds only on positive definite input (`Draft/C09/CholeskyGeneral`),
  `Cholesky::inverse` is the inverse (`Draft/C09/CholeskyInverse`) and `LA.determinant` is the
  determinant (`Draft/C09/DeterminantLU`).  Hence:

    * `mvn_pdf_pos_and_ln_pdf`   — `pdf > 0`, `ln_pdf = ln ∘ pdf` everywhere;
    * `mvn_pdf_formula`          — the documented density `(2π)^{-n/2} det(Σ)^{-1/2} exp(-½ vᵀ Σ⁻¹ v)`;
    * `mvt_new_pdf_nonneg`       — `pdf ≥ 0` everywhere, `pdf > 0 ∧ ln_pdf = ln ∘ pdf` at non-panicking arguments;
    * `mvt_pdf_formula`          — the documented multivariate-t density with Mathlib's `det` and `⁻¹`;
    * `mvn_entropy_formula`      — `entropy = ½ ln((2πe)ⁿ det Σ)`;
    * `mvn_new_chol_decomp`, `mvt_new_chol_decomp` — the stored factor: lower triangular, positive diagonal, `L Lᵀ = Σ`.
-/
import Statrs.Props.C19.MVNFormula
import Statrs.Props.C19.MVTFormula
import Statrs.Props.C09.CholeskyInverse
import Statrs.Props.C09.DeterminantLU
set_option linter.unusedSectionVars false
set_option linter.unusedVariables false
namespace Statrs.Props.C19
open Statrs Statrs.Gen Statrs.Model Statrs.Lemmas.Multivariate Statrs.Props.C09 Matrix

/-- full(ℝ): the linear-algebra facts about a matrix accepted by the constructors' guard and `Cholesky::new` -/
theorem specs_of_cholesky {n : ℕ} {cov L : List (List ℝ)} (hn : n = cov.length)
    (hsq : LA.isSquare cov = true) (hsym : LA.symmetricEq cov = true) (hL : LA.choleskyNew cov = some L) :
    Spec.CovSpec cov ∧ Spec.MatrixSpec n cov (LA.choleskyInverse L) ∧
    Spec.PSDSpec n (LA.choleskyInverse L) ∧ (Spec.toMatrix n cov).PosDef ∧ 0 < (Spec.toMatrix n cov).det := by
  subst hn
  have hrow := rows_of_isSquare hsq
  have hS := isSymm_of_symmetricEq hsym
  refine ⟨covSpec_of_cholesky hsq hS hL, ⟨determinant_eq_det rfl hrow, matrixSpec_inv_of_cholesky hsq hsym hL⟩,
    (psdSpec_of_cholesky hsq hsym hL).1, ?_, (choleskyNew_det_pos rfl hrow hS hL).1⟩
  exact (choleskyNew_eq_some_iff_posDef rfl hrow hS).mp (by rw [hL]; simp)

/-- full(ℝ): every premise structure of `Spec/LinAlgSpec.lean` holds on every constructed
    `MultivariateNormal`, in every dimension. -/
theorem mvn_new_specs (mean : List ℝ) (cov : List (List ℝ)) (d : MultivariateNormal ℝ)
    (h : MultivariateNormal.new_from_nalgebra mean cov = .ok d) :
    Spec.CovSpec cov ∧ Spec.MatrixSpec mean.length cov d.f_precision ∧
    Spec.PSDSpec mean.length d.f_precision ∧ (Spec.toMatrix mean.length cov).PosDef ∧
    0 < (Spec.toMatrix mean.length cov).det := by
  obtain ⟨_, _, _, h4, h5, h6, _, L, hL, hP, _⟩ := mvn_new_fields mean cov d h
  rw [hP]
  exact specs_of_cholesky h4 h5 h6 hL

/-- full(ℝ): on every constructed `MultivariateNormal` (any dimension) the density is strictly positive
    and `ln_pdf = ln ∘ pdf`, at every argument.  (`mvn_pdf_pos_and_ln_pdf_rel` without its premise.) -/
theorem mvn_pdf_pos_and_ln_pdf (mean : List ℝ) (cov : List (List ℝ)) (d : MultivariateNormal ℝ)
    (h : MultivariateNormal.new_from_nalgebra mean cov = .ok d) (x : List ℝ) :
    0 < MultivariateNormal.pdf d x ∧
    MultivariateNormal.ln_pdf d x = Real.log (MultivariateNormal.pdf d x) :=
  mvn_pdf_pos_and_ln_pdf_rel mean cov d h (mvn_new_specs mean cov d h).1 x

/-- full(ℝ): the documented density formula with Mathlib's determinant, inverse and quadratic form, on
    every constructed object in every dimension.  (`mvn_pdf_formula_rel` without its premise; and
    `|det Σ| = det Σ` since `det Σ > 0`.) -/
theorem mvn_pdf_formula (mean : List ℝ) (cov : List (List ℝ)) (d : MultivariateNormal ℝ)
    (h : MultivariateNormal.new_from_nalgebra mean cov = .ok d) (x : List ℝ) (hx : x.length = mean.length) :
    let n := mean.length
    let A := Spec.toMatrix n cov
    let v := Spec.toVec n (LA.vsub x mean)
    MultivariateNormal.pdf d x =
      Real.sqrt (1 / ((2 * Real.pi) ^ n * A.det)) * Real.exp (-(1 / 2) * (v ⬝ᵥ A⁻¹.mulVec v)) := by
  intro n A v
  obtain ⟨_, hM, _, _, hdet⟩ := mvn_new_specs mean cov d h
  have := mvn_pdf_formula_rel mean cov d h hM x hx
  simp only at this
  rw [this, abs_of_pos hdet]

/-- full(ℝ): the stored Cholesky factor (`cov_chol_decomp`) of every constructed `MultivariateNormal` is
    lower triangular with a positive diagonal and `L * Lᵀ = cov`. -/
theorem mvn_new_chol_decomp (mean : List ℝ) (cov : List (List ℝ)) (d : MultivariateNormal ℝ)
    (h : MultivariateNormal.new_from_nalgebra mean cov = .ok d) :
    let L := Spec.toMatrix mean.length d.f_cov_chol_decomp
    (∀ i j : Fin mean.length, i < j → L i j = 0) ∧ (∀ i, 0 < L i i) ∧
      L * Lᵀ = Spec.toMatrix mean.length cov := by
  intro L
  obtain ⟨_, _, _, h4, h5, h6, _, L', hL, _, hU⟩ := mvn_new_fields mean cov d h
  have := choleskyNew_factor (n := mean.length) h4.symm
    (fun r hr => by rw [rows_of_isSquare h5 r hr, h4]) (by rw [h4]; exact isSymm_of_symmetricEq h6) hL
  simp only [L, hU]
  exact this

/-- full(ℝ): entries of `m.scale(c)`. -/
theorem mget_scale (m : List (List ℝ)) (c : ℝ) (i j : ℕ) :
    LA.mget (LA.scale m c) i j = LA.mget m i j * c := by
  unfold LA.mget LA.scale
  have hd : (default : ℝ) = 0 := rfl
  simp only [List.getD_eq_getElem?_getD, List.getElem?_map, hd]
  cases m[i]? with
  | none => simp
  | some r =>
    simp only [Option.map_some, Option.getD_some, List.getElem?_map]
    cases r[j]? <;> simp

/-- full(ℝ): the entropy of every constructed `MultivariateNormal`, in every dimension, is
    `½ ln((2πe)ⁿ det Σ)` with Mathlib's determinant. -/
theorem mvn_entropy_formula (mean : List ℝ) (cov : List (List ℝ)) (d : MultivariateNormal ℝ)
    (h : MultivariateNormal.new_from_nalgebra mean cov = .ok d) :
    MultivariateNormal.entropy d =
      some (1 / 2 * Real.log ((2 * Real.pi * Real.exp 1) ^ mean.length * (Spec.toMatrix mean.length cov).det)) := by
  obtain ⟨_, h2, _, h4, h5, _⟩ := mvn_new_fields mean cov d h
  unfold MultivariateNormal.entropy
  rw [h2]
  have hlen : (LA.scale cov (2 * Real.pi * Real.exp 1)).length = mean.length := by
    simp [LA.scale, h4]
  have hrow : ∀ r ∈ LA.scale cov (2 * Real.pi * Real.exp 1), r.length = mean.length := by
    intro r hr
    simp only [LA.scale, List.mem_map] at hr
    obtain ⟨r', hr', rfl⟩ := hr
    rw [List.length_map, rows_of_isSquare h5 r' hr', h4]
  have hmat : Spec.toMatrix mean.length (LA.scale cov (2 * Real.pi * Real.exp 1)) =
      (2 * Real.pi * Real.exp 1) • Spec.toMatrix mean.length cov := by
    ext i j
    simp only [Spec.toMatrix, Matrix.smul_apply, smul_eq_mul, mget_scale]
    ring
  rfun_norm
  rw [lit05, lit2, determinant_eq_det hlen hrow, hmat, Matrix.det_smul, Fintype.card_fin]

section student
variable [SF ℝ]

/-- full(ℝ): every premise structure of `Spec/LinAlgSpec.lean` holds on every constructed
    `MultivariateStudent`, in every dimension; and `freedom > 0`. -/
theorem mvt_new_specs (loc : List ℝ) (scale : List (List ℝ)) (ν : ℝ) (d : MultivariateStudent ℝ)
    (h : MultivariateStudent.new_from_nalgebra loc scale ν = .ok d) :
    0 < d.f_freedom ∧ Spec.CovSpec scale ∧ Spec.MatrixSpec loc.length scale d.f_precision ∧
    Spec.PSDSpec d.f_location.length d.f_precision ∧ (Spec.toMatrix loc.length scale).PosDef ∧
    0 < (Spec.toMatrix loc.length scale).det := by
  obtain ⟨h1, _, h3, h4, h5, h6, _, _, hν, _, L, hL, hP, _⟩ := mvt_new_fields loc scale ν d h
  have hνpos : 0 < ν := by rw [lit0] at hν; exact not_le.mp hν
  rw [hP, h1, h3]
  exact ⟨hνpos, specs_of_cholesky h4 h5 h6 hL⟩

/-- full(ℝ): the stored Cholesky factor (`scale_chol_decomp`) of every constructed `MultivariateStudent` is
    lower triangular with a positive diagonal and `L * Lᵀ = scale`. -/
theorem mvt_new_chol_decomp (loc : List ℝ) (scale : List (List ℝ)) (ν : ℝ) (d : MultivariateStudent ℝ)
    (h : MultivariateStudent.new_from_nalgebra loc scale ν = .ok d) :
    let L := Spec.toMatrix loc.length d.f_scale_chol_decomp
    (∀ i j : Fin loc.length, i < j → L i j = 0) ∧ (∀ i, 0 < L i i) ∧
      L * Lᵀ = Spec.toMatrix loc.length scale := by
  intro L
  obtain ⟨_, _, _, h4, h5, h6, _, _, _, _, L', hL, _, hU⟩ := mvt_new_fields loc scale ν d h
  have := choleskyNew_factor (n := loc.length) h4.symm
    (fun r hr => by rw [rows_of_isSquare h5 r hr, h4]) (by rw [h4]; exact isSymm_of_symmetricEq h6) hL
  simp only [L, hU]
  exact this

/-- full(ℝ): on every constructed `MultivariateStudent` (any dimension) `pdf ≥ 0` at EVERY argument
    (panicking arguments evaluate to the junk value `0` over ℝ), and `pdf > 0`, `ln_pdf = ln ∘ pdf` at
    every argument of the right length.  (`mvt_pdf_nonneg_rel` without its premise.) -/
theorem mvt_new_pdf_nonneg (loc : List ℝ) (scale : List (List ℝ)) (ν : ℝ) (d : MultivariateStudent ℝ)
    (h : MultivariateStudent.new_from_nalgebra loc scale ν = .ok d) (x : List ℝ) :
    0 ≤ MultivariateStudent.pdf d x ∧
    (∀ q, MultivariateStudent.expArg? d x = some q →
      0 < MultivariateStudent.pdf d x ∧
      MultivariateStudent.ln_pdf d x = Real.log (MultivariateStudent.pdf d x)) := by
  obtain ⟨hν, _, _, hP, _⟩ := mvt_new_specs loc scale ν d h
  exact mvt_pdf_nonneg_rel d hν hP x

/-- full(ℝ): the documented multivariate-t density on every constructed object, every dimension, with
    Mathlib's determinant, inverse and quadratic form (special functions through the abstract `SF ℝ`):
    `pdf x = exp(lnΓ((ν+n)/2) − lnΓ(ν/2) − (n/2) ln(νπ) − ½ ln det Σ) · (1 + vᵀ Σ⁻¹ v / ν)^{−(ν+n)/2}`. -/
theorem mvt_pdf_formula (loc : List ℝ) (scale : List (List ℝ)) (ν : ℝ) (d : MultivariateStudent ℝ)
    (h : MultivariateStudent.new_from_nalgebra loc scale ν = .ok d) (x : List ℝ)
    (hx : x.length = loc.length) :
    let n := loc.length
    let A := Spec.toMatrix n scale
    let v := Spec.toVec n (LA.vsub x loc)
    let lnc := SF.ln_gamma (1 / 2 * (ν + (n : ℝ))) - SF.ln_gamma (1 / 2 * ν)
                - 1 / 2 * (n : ℝ) * Real.log (ν * Real.pi) - 1 / 2 * Real.log A.det
    MultivariateStudent.pdf d x =
      Real.exp lnc * (1 + (v ⬝ᵥ A⁻¹.mulVec v) / ν) ^ ((-(ν + (n : ℝ))) / 2) ∧
    MultivariateStudent.ln_pdf d x =
      lnc - ((ν + (n : ℝ)) / 2) * Real.log (1 + (v ⬝ᵥ A⁻¹.mulVec v) / ν) := by
  intro n A v lnc
  obtain ⟨_, _, hM, _, _, _⟩ := mvt_new_specs loc scale ν d h
  obtain ⟨_, _, e1, e2⟩ := mvt_pdf_quadratic_form loc scale ν d h x hx
  have hinv : A⁻¹ = Spec.toMatrix n d.f_precision := Matrix.inv_eq_left_inv hM.inv_eq
  have hq : (∑ i ∈ Finset.range n, (∑ j ∈ Finset.range n,
        LA.mget d.f_precision i j * (LA.vsub x loc).getD j 0) * (LA.vsub x loc).getD i 0) =
      v ⬝ᵥ A⁻¹.mulVec v := by
    rw [hinv, Finset.sum_range]
    simp only [dotProduct, Matrix.mulVec, Finset.sum_range]
    apply Finset.sum_congr rfl
    intro i _
    rw [mul_comm]
    rfl
  rw [hq, hM.det_eq] at e1 e2
  exact ⟨e1, e2⟩

end student

/-! ### non-vacuity: a genuinely 4-dimensional object (LU branch of the determinant) -/
example : ∃ d : MultivariateNormal ℝ, MultivariateNormal.new_from_nalgebra [0, 0, 0, 0]
    [[1, 0, 0, 0], [0, 1, 0, 0], [0, 0, 1, 0], [0, 0, 0, 1]] = .ok d := by
  unfold MultivariateNormal.new_from_nalgebra
  have hch : LA.choleskyNew ([[1, 0, 0, 0], [0, 1, 0, 0], [0, 0, 1, 0], [0, 0, 0, 1]] : List (List ℝ)) ≠ none := by
    rw [choleskyNew_eq_some_iff_posDef (n := 4) rfl (by simp) ?_]
    · have : Spec.toMatrix 4 ([[1, 0, 0, 0], [0, 1, 0, 0], [0, 0, 1, 0], [0, 0, 0, 1]] : List (List ℝ)) = 1 := by
        ext i j; fin_cases i <;> fin_cases j <;> simp [Spec.toMatrix, LA.mget]
      rw [this]; exact PosDef.one
    · ext i j; fin_cases i <;> fin_cases j <;> simp [Spec.toMatrix, LA.mget]
  cases hL : LA.choleskyNew ([[1, 0, 0, 0], [0, 1, 0, 0], [0, 0, 1, 0], [0, 0, 0, 1]] : List (List ℝ)) with
  | none => exact absurd hL hch
  | some L =>
    simp [LA.isSquare, LA.symmetricEq, LA.anyNaN, LA.mget, List.range_succ]

end Statrs.Props.C19
