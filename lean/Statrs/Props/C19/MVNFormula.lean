/-
  C19 — MultivariateNormal: the density the code computes is the documented formula
    (2π)^(-k/2) · det(Σ)^(-1/2) · exp(-½ (x-μ)ᵀ Σ⁻¹ (x-μ)).

  `mvn_pdf_quadratic_form` — full(ℝ): on every constructed object and every argument of the right
  length, `pdf` is `√(1/((2π)^k |det|)) · exp(-½ Σᵢ Σⱼ Pᵢⱼ (x-μ)ⱼ (x-μ)ᵢ)` with `det` the model's
  `LA.determinant cov` and `P` the stored precision (nalgebra's column-oriented `gemv` and 8-way
  unrolled `dot` are proved equal to the textbook sums).
  `mvn_pdf_formula_rel` — rel(`Spec.MatrixSpec`): with `det`/`P` being the determinant/inverse of
  `Σ`, this is the documented formula in Mathlib's `Matrix.det`, `⁻¹`, `dotProduct`, `mulVec`.
-/
import Statrs.Props.C19.MVN
import Mathlib.LinearAlgebra.Matrix.NonsingularInverse
set_option linter.unusedSectionVars false
set_option linter.unusedVariables false
namespace Statrs.Props.C19
open Statrs Statrs.Gen Statrs.Model Statrs.Lemmas.Multivariate

/-! ### shapes: `Cholesky::new` / `Cholesky::inverse` keep the dimension -/

theorem cholStep_length (m L : List (List ℝ)) (j : ℕ) (h : LA.cholStep m j = some L) :
    L.length = m.length := by
  unfold LA.cholStep at h
  have hfold : ∀ (ks : List ℕ) (m0 : List (List ℝ)),
      (ks.foldl (fun m k => LA.cholAxpy m j k) m0).length = m0.length := by
    intro ks
    induction ks with
    | nil => intro m0; rfl
    | cons k t ih => intro m0; rw [List.foldl_cons, ih]; simp [LA.cholAxpy]
  simp only at h
  split_ifs at h
  injection h with h
  rw [← h, List.length_mapIdx, hfold]

theorem choleskyNew_length (m L : List (List ℝ)) (h : LA.choleskyNew m = some L) :
    L.length = m.length := by
  unfold LA.choleskyNew at h
  have hfold : ∀ (js : List ℕ) (om : Option (List (List ℝ))) (L : List (List ℝ)),
      (∀ m', om = some m' → m'.length = m.length) →
      js.foldl (fun om j => om.bind (fun m => LA.cholStep m j)) om = some L → L.length = m.length := by
    intro js
    induction js with
    | nil => intro om L hom hL; exact hom L hL
    | cons j t ih =>
      intro om L hom hL
      rw [List.foldl_cons] at hL
      refine ih _ L ?_ hL
      intro m' hm'
      cases om with
      | none => simp at hm'
      | some m0 =>
        simp only [Option.bind_some] at hm'
        rw [cholStep_length m0 m' j hm', hom m0 rfl]
  exact hfold _ _ L (fun m' hm' => by injection hm' with hm'; rw [hm']) h

theorem choleskyInverse_shape (L : List (List ℝ)) :
    (LA.choleskyInverse L).length = L.length ∧ LA.isSquare (LA.choleskyInverse L) = true := by
  unfold LA.choleskyInverse LA.transpose LA.isSquare
  constructor
  · simp
  · rw [List.all_eq_true]
    intro r hr
    obtain ⟨j, _, rfl⟩ := List.mem_map.mp hr
    simp [LA.col]

/-! ### the closed form -/

/-- full(ℝ): the value of `pdf`/`ln_pdf` on a constructed object, for every argument of the
    right length (the calls do not panic there). -/
theorem mvn_pdf_quadratic_form (mean : List ℝ) (cov : List (List ℝ)) (d : MultivariateNormal ℝ)
    (h : MultivariateNormal.new_from_nalgebra mean cov = .ok d) (x : List ℝ)
    (hx : x.length = mean.length) :
    let n := mean.length
    let v := LA.vsub x mean
    let q := ∑ i ∈ Finset.range n, (∑ j ∈ Finset.range n, LA.mget d.f_precision i j * v.getD j 0) * v.getD i 0
    MultivariateNormal.pdf? d x = some (MultivariateNormal.pdf d x) ∧
    MultivariateNormal.pdf d x =
      Real.sqrt (1 / ((2 * Real.pi) ^ n * |LA.determinant cov|)) * Real.exp (-(1 / 2) * q) ∧
    MultivariateNormal.ln_pdf d x =
      Real.log (Real.sqrt (1 / ((2 * Real.pi) ^ n * |LA.determinant cov|))) + -(1 / 2) * q := by
  intro n v q
  obtain ⟨h1, h2, h3, h4, h5, _, _, L, hL, hP, _⟩ := mvn_new_fields mean cov d h
  have hPlen : d.f_precision.length = n := by
    rw [hP, (choleskyInverse_shape L).1, choleskyNew_length cov L hL, ← h4]
  have hPsq : LA.isSquare d.f_precision = true := by rw [hP]; exact (choleskyInverse_shape L).2
  have hv : v.length = n := by simp [v, LA.vsub, hx, n]
  have hexp : density_distribution_exponential d.f_mu d.f_precision x = some (-(1 / 2) * q) := by
    unfold density_distribution_exponential
    rw [if_neg (by rw [h1, hPlen, hPsq]; simp [hx, n]), h1]
    simp only
    rw [quadForm_eq d.f_precision (LA.vsub x mean) n hPlen hv, lit05]
  have hc : d.f_pdf_const = Real.sqrt (1 / ((2 * Real.pi) ^ n * |LA.determinant cov|)) := by
    rw [h3]
    unfold density_distribution_pdf_const
    rw [if_neg (by simp [h4, h5])]
    simp only [unwrapO]
    rfun_norm
    rw [lit2, zpow_natCast]
  obtain ⟨e1, _, e3, e4⟩ := mvn_pdf_of_some d x _ hexp
  refine ⟨e1, ?_, ?_⟩
  · rw [e3, hc]; rfl
  · rw [e4, hc]; rfl

/-- rel(`Spec.MatrixSpec`): the documented density formula, with Mathlib's determinant, matrix
    inverse and quadratic form. -/
theorem mvn_pdf_formula_rel (mean : List ℝ) (cov : List (List ℝ)) (d : MultivariateNormal ℝ)
    (h : MultivariateNormal.new_from_nalgebra mean cov = .ok d)
    (S : Spec.MatrixSpec mean.length cov d.f_precision) (x : List ℝ) (hx : x.length = mean.length) :
    let n := mean.length
    let A := Spec.toMatrix n cov
    let v := Spec.toVec n (LA.vsub x mean)
    MultivariateNormal.pdf d x =
      Real.sqrt (1 / ((2 * Real.pi) ^ n * |A.det|)) * Real.exp (-(1 / 2) * (v ⬝ᵥ A⁻¹.mulVec v)) := by
  intro n A v
  obtain ⟨_, e, _⟩ := mvn_pdf_quadratic_form mean cov d h x hx
  rw [e, S.det_eq]
  have hinv : A⁻¹ = Spec.toMatrix n d.f_precision := Matrix.inv_eq_left_inv S.inv_eq
  rw [hinv]
  congr 3
  rw [Finset.sum_range]
  simp only [dotProduct, Matrix.mulVec, Finset.sum_range]
  apply Finset.sum_congr rfl
  intro i _
  rw [mul_comm]
  rfl

example : ∃ (mean : List ℝ) (cov : List (List ℝ)) (d : MultivariateNormal ℝ),
    MultivariateNormal.new_from_nalgebra mean cov = .ok d ∧ Spec.MatrixSpec mean.length cov d.f_precision := by
  refine ⟨[0], [[2 * 2]], _, mvn_one_dim_new 0 2 (by norm_num), ?_⟩
  exact Spec.matrixSpec_one _ (by norm_num)

end Statrs.Props.C19
