/-
  C19 — MultivariateNormal: the density of every constructed object (every dimension) integrates to 1 over
  `ℝⁿ`, `mean()` / `variance()` are its first moments / second central moments, and Lebesgue measure with
  this density is Mathlib's `multivariateGaussian μ Σ`.

  Vectors of the right length are `List.ofFn v`, `v : Fin n → ℝ`, `n = mean.length`; integrals are Bochner
  integrals against Lebesgue measure on `Fin n → ℝ`, each stated together with the integrability of its
  integrand (a Bochner integral of a non-integrable function is the junk value 0).
-/
import Statrs.Props.C19.MVNCholesky
import Statrs.Lemmas.MVNIntegralMoments
set_option linter.unusedSectionVars false
set_option linter.unusedVariables false
namespace Statrs.Props.C19
open Statrs Statrs.Gen Statrs.Model Statrs.Lemmas.Multivariate Statrs.Lemmas.MVNIntegral Matrix MeasureTheory
  ProbabilityTheory

/-- full(ℝ): `x - μ` on lists is `v - μ` on `Fin n → ℝ` -/
theorem toVec_vsub_ofFn (mean : List ℝ) (v : Fin mean.length → ℝ) :
    Spec.toVec mean.length (LA.vsub (List.ofFn v) mean) = v - Spec.toVec mean.length mean := by
  funext i
  simp only [Spec.toVec, LA.vsub, Pi.sub_apply]
  have h1 : (i : ℕ) < (List.zipWith (fun a b => a - b) (List.ofFn v) mean).length := by simp
  rw [List.getD_eq_getElem _ _ h1, List.getD_eq_getElem _ _ i.isLt, List.getElem_zipWith, List.getElem_ofFn]

/-- full(ℝ): on vectors of the right length the model's `pdf` is the `N(μ, Σ)` density `mvnDensity`
    (`Draft/Lemmas/MVNIntegralGauss`), and the call does not panic. -/
theorem mvn_pdf_eq_mvnDensity (mean : List ℝ) (cov : List (List ℝ)) (d : MultivariateNormal ℝ)
    (h : MultivariateNormal.new_from_nalgebra mean cov = .ok d) (v : Fin mean.length → ℝ) :
    MultivariateNormal.pdf? d (List.ofFn v) = some (MultivariateNormal.pdf d (List.ofFn v)) ∧
    MultivariateNormal.pdf d (List.ofFn v) =
      mvnDensity (Spec.toVec mean.length mean) (Spec.toMatrix mean.length cov) v := by
  have hx : (List.ofFn v).length = mean.length := List.length_ofFn
  refine ⟨(mvn_pdf_quadratic_form mean cov d h _ hx).1, ?_⟩
  have := mvn_pdf_formula mean cov d h (List.ofFn v) hx
  simp only at this
  rw [this, toVec_vsub_ofFn]
  unfold mvnDensity
  rw [Fintype.card_fin]

/-- full(ℝ): **the density of every constructed `MultivariateNormal` integrates to 1** over `ℝⁿ`, in every
    dimension `n` (and is integrable). -/
theorem mvn_pdf_integral_eq_one (mean : List ℝ) (cov : List (List ℝ)) (d : MultivariateNormal ℝ)
    (h : MultivariateNormal.new_from_nalgebra mean cov = .ok d) :
    Integrable (fun v : Fin mean.length → ℝ => MultivariateNormal.pdf d (List.ofFn v)) ∧
    ∫ v : Fin mean.length → ℝ, MultivariateNormal.pdf d (List.ofFn v) = 1 := by
  obtain ⟨_, _, _, hpd, _⟩ := mvn_new_specs mean cov d h
  simp only [fun v => (mvn_pdf_eq_mvnDensity mean cov d h v).2]
  exact ⟨integrable_mvnDensity hpd _, integral_mvnDensity hpd _⟩

/-- full(ℝ): `mean()` of every constructed `MultivariateNormal` is the vector of first moments of its density:
    `∫ vᵢ · pdf(v) dv = mean()[i]`. -/
theorem mvn_mean_eq_first_moment (mean : List ℝ) (cov : List (List ℝ)) (d : MultivariateNormal ℝ)
    (h : MultivariateNormal.new_from_nalgebra mean cov = .ok d) :
    ∃ m, MultivariateNormal.mean d = some m ∧ m.length = mean.length ∧
      ∀ i : Fin mean.length,
        Integrable (fun v : Fin mean.length → ℝ => v i * MultivariateNormal.pdf d (List.ofFn v)) ∧
        ∫ v : Fin mean.length → ℝ, v i * MultivariateNormal.pdf d (List.ofFn v) = m.getD i 0 := by
  obtain ⟨_, _, _, hpd, _⟩ := mvn_new_specs mean cov d h
  obtain ⟨hmu, _⟩ := mvn_new_fields mean cov d h
  refine ⟨mean, by rw [MultivariateNormal.mean, hmu], rfl, fun i => ?_⟩
  simp only [fun v => (mvn_pdf_eq_mvnDensity mean cov d h v).2]
  exact integral_coord_mul_mvnDensity hpd _ i

/-- full(ℝ): `variance()` of every constructed `MultivariateNormal` is the matrix of second central moments
    of its density: `∫ (vᵢ - μᵢ)(vⱼ - μⱼ) · pdf(v) dv = variance()[i][j]`, `μ = mean()`. -/
theorem mvn_variance_eq_second_moment (mean : List ℝ) (cov : List (List ℝ)) (d : MultivariateNormal ℝ)
    (h : MultivariateNormal.new_from_nalgebra mean cov = .ok d) :
    ∃ m V, MultivariateNormal.mean d = some m ∧ MultivariateNormal.variance d = some V ∧
      ∀ i j : Fin mean.length,
        Integrable (fun v : Fin mean.length → ℝ =>
          (v i - m.getD i 0) * (v j - m.getD j 0) * MultivariateNormal.pdf d (List.ofFn v)) ∧
        ∫ v : Fin mean.length → ℝ,
          (v i - m.getD i 0) * (v j - m.getD j 0) * MultivariateNormal.pdf d (List.ofFn v) = LA.mget V i j := by
  obtain ⟨_, _, _, hpd, _⟩ := mvn_new_specs mean cov d h
  obtain ⟨hmu, hcov, _⟩ := mvn_new_fields mean cov d h
  refine ⟨mean, cov, by rw [MultivariateNormal.mean, hmu], by rw [MultivariateNormal.variance, hcov], fun i j => ?_⟩
  simp only [fun v => (mvn_pdf_eq_mvnDensity mean cov d h v).2]
  exact integral_cov_mul_mvnDensity hpd (Spec.toVec mean.length mean) i j

/-- full(ℝ): Lebesgue measure on `ℝⁿ` with the model's density is Mathlib's
    `ProbabilityTheory.multivariateGaussian μ Σ` (with `μ`, `Σ` the stored `mean()`/`variance()`), transported
    along `toLp 2 : (Fin n → ℝ) ≃ EuclideanSpace ℝ (Fin n)`; in particular it is a probability measure. -/
theorem mvn_measure_eq_multivariateGaussian (mean : List ℝ) (cov : List (List ℝ)) (d : MultivariateNormal ℝ)
    (h : MultivariateNormal.new_from_nalgebra mean cov = .ok d) :
    ((volume : Measure (Fin mean.length → ℝ)).withDensity
        (fun v => ENNReal.ofReal (MultivariateNormal.pdf d (List.ofFn v)))).map (WithLp.toLp 2) =
      multivariateGaussian (WithLp.toLp 2 (Spec.toVec mean.length mean)) (Spec.toMatrix mean.length cov) := by
  obtain ⟨_, _, _, hpd, _⟩ := mvn_new_specs mean cov d h
  simp only [fun v => (mvn_pdf_eq_mvnDensity mean cov d h v).2]
  exact map_toLp_mvnMeasure hpd _

/-- full(ℝ): the law of `μ + L Z` (`Z` independent standard normals, `L` the STORED Cholesky factor
    `cov_chol_decomp` — the map the sampler applies) has the model's density. -/
theorem mvn_density_of_chol_pushforward (mean : List ℝ) (cov : List (List ℝ)) (d : MultivariateNormal ℝ)
    (h : MultivariateNormal.new_from_nalgebra mean cov = .ok d) :
    (Measure.pi fun _ : Fin mean.length => gaussianReal 0 1).map
        (fun z => Spec.toVec mean.length mean + Spec.toMatrix mean.length d.f_cov_chol_decomp *ᵥ z) =
      (volume : Measure (Fin mean.length → ℝ)).withDensity
        (fun v => ENNReal.ofReal (MultivariateNormal.pdf d (List.ofFn v))) := by
  obtain ⟨_, _, _, _, hdet⟩ := mvn_new_specs mean cov d h
  obtain ⟨_, _, hL⟩ := mvn_new_chol_decomp mean cov d h
  simp only [fun v => (mvn_pdf_eq_mvnDensity mean cov d h v).2]
  have hdetL : (Spec.toMatrix mean.length d.f_cov_chol_decomp).det ≠ 0 := by
    intro h0
    rw [← hL, Matrix.det_mul, h0, zero_mul] at hdet
    exact lt_irrefl _ hdet
  exact (withDensity_mvnDensity_eq_map hL hdetL _).symm

/-! ### non-vacuity: the 4-dimensional standard normal of `MVNCholesky.lean` is a constructed object -/
example : ∃ (mean : List ℝ) (cov : List (List ℝ)) (d : MultivariateNormal ℝ), mean.length = 4 ∧
    MultivariateNormal.new_from_nalgebra mean cov = .ok d := by
  refine ⟨[0, 0, 0, 0], [[1, 0, 0, 0], [0, 1, 0, 0], [0, 0, 1, 0], [0, 0, 0, 1]], ?_⟩
  have hch : LA.choleskyNew ([[1, 0, 0, 0], [0, 1, 0, 0], [0, 0, 1, 0], [0, 0, 0, 1]] : List (List ℝ)) ≠ none := by
    rw [Statrs.Props.C09.choleskyNew_eq_some_iff_posDef (n := 4) rfl (by simp) ?_]
    · have : Spec.toMatrix 4 ([[1, 0, 0, 0], [0, 1, 0, 0], [0, 0, 1, 0], [0, 0, 0, 1]] : List (List ℝ)) = 1 := by
        ext i j; fin_cases i <;> fin_cases j <;> simp [Spec.toMatrix, LA.mget]
      rw [this]; exact PosDef.one
    · ext i j; fin_cases i <;> fin_cases j <;> simp [Spec.toMatrix, LA.mget]
  unfold MultivariateNormal.new_from_nalgebra
  cases hL : LA.choleskyNew ([[1, 0, 0, 0], [0, 1, 0, 0], [0, 0, 1, 0], [0, 0, 0, 1]] : List (List ℝ)) with
  | none => exact absurd hL hch
  | some L =>
    simp [LA.isSquare, LA.symmetricEq, LA.anyNaN, LA.mget, List.range_succ]

end Statrs.Props.C19
