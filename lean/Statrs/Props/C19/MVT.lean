/-
  C19 — MultivariateStudent (hand model `Statrs.Model.MultivariateStudent`).

  Strength tags: full(∀α) for constructor/accessor/branch facts (in particular: infinite freedom
  takes the MultivariateNormal code path and gives the MultivariateNormal object's density),
  full(ℝ) for the density identities under an explicit positivity hypothesis on the base term and
  for the one-dimensional reduction to the generated `StudentsT` (freedom below the `1e8` cut-over
  of `StudentsT`), rel(`Spec.PSDSpec`) where positive semi-definiteness of the stored precision
  is needed.  Not covered: `∫ pdf = 1`, moment integrals.
-/
import Statrs.Real.Simp
import Statrs.Model.Multivariate
import Statrs.Lemmas.Multivariate
import Statrs.Spec.LinAlgSpec
import Statrs.Gen.D_students_t
import Mathlib.Tactic
set_option linter.unusedSectionVars false
set_option linter.unusedVariables false
namespace Statrs.Props.C19
open Statrs Statrs.Gen Statrs.Model Statrs.Lemmas.Multivariate

/-! ### constructor, accessors, the infinite-freedom branch (every carrier) -/
section generic
variable {α : Type} [Add α] [Sub α] [Mul α] [Div α] [Neg α] [LT α] [LE α] [BEq α]
  [DecidableLT α] [DecidableLE α] [OfScientific α] [Inhabited α] [RFun α] [SF α]

/-- What `new_from_nalgebra` stores and enforces. -/
theorem mvt_new_fields (loc : List α) (scale : List (List α)) (ν : α) (d : MultivariateStudent α)
    (h : MultivariateStudent.new_from_nalgebra loc scale ν = .ok d) :
    d.f_location = loc ∧ d.f_scale = scale ∧ d.f_freedom = ν ∧
    loc.length = scale.length ∧ LA.isSquare scale = true ∧ LA.symmetricEq scale = true ∧
    LA.anyNaN scale = false ∧ RFun.isNaN ν = false ∧ ¬ (ν ≤ (0.0 : α)) ∧
    d.f_ln_pdf_const =
      (((SF.ln_gamma ((0.5 : α) * (ν + (RFun.ofInt (loc.length : Int) : α))))
        - (SF.ln_gamma ((0.5 : α) * ν)))
        - (((0.5 : α) * (RFun.ofInt (loc.length : Int) : α)) * (RFun.ln (ν * (RFun.pi : α)))))
        - ((0.5 : α) * (RFun.ln (LA.determinant scale))) ∧
    ∃ L, LA.choleskyNew scale = some L ∧ d.f_precision = LA.choleskyInverse L ∧
      d.f_scale_chol_decomp = LA.choleskyUnpack L := by
  unfold MultivariateStudent.new_from_nalgebra at h
  simp only at h
  split_ifs at h with h1 h2 h3 h4
  split at h
  · cases h
  · rename_i L hL
    injection h with h
    subst h
    refine ⟨rfl, rfl, rfl, not_not.mp h4, ?_, ?_, ?_, ?_, ?_, rfl, L, hL, rfl, rfl⟩
    · by_contra hc; exact h2 (Or.inl hc)
    · by_contra hc; exact h2 (Or.inr (Or.inl hc))
    · by_contra hc; exact h2 (Or.inr (Or.inr (by simpa using hc)))
    · by_contra hc; exact h3 (Or.inl (by simpa using hc))
    · intro hc; exact h3 (Or.inr hc)

/-- `mean()` is the location iff `freedom > 1`, `variance()` is `scale * freedom / (freedom - 2)`
    entrywise iff `freedom > 2`, `mode()` is the location.
    (NB for IEEE carriers: with `freedom = +inf` every entry is `(e * inf) / (inf - 2)`, i.e. NaN —
    the infinite-freedom special case of `pdf` is not mirrored in `variance`.) -/
theorem mvt_accessors (d : MultivariateStudent α) :
    MultivariateStudent.mean d = (if (1.0 : α) < d.f_freedom then some d.f_location else none) ∧
    MultivariateStudent.variance d =
      (if (2.0 : α) < d.f_freedom then
        some (d.f_scale.map (fun r => r.map (fun e => (e * d.f_freedom) / (d.f_freedom - (2.0 : α)))))
       else none) ∧
    MultivariateStudent.mode d = d.f_location := by
  refine ⟨rfl, ?_, rfl⟩
  unfold MultivariateStudent.variance LA.unscale LA.scale
  split_ifs
  · simp [List.map_map, Function.comp_def]
  · rfl

/-- Branch lemma: with infinite freedom `pdf`/`ln_pdf` are computed by the MultivariateNormal
    helper `density_normalization_and_exponential(location, scale, precision, x)`. -/
theorem mvt_inf_branch (d : MultivariateStudent α) (x : List α) (hinf : RFun.isInf d.f_freedom = true) :
    MultivariateStudent.pdf? d x =
      (density_normalization_and_exponential d.f_location d.f_scale d.f_precision x).map
        (fun ce => ce.1 * RFun.exp ce.2) ∧
    MultivariateStudent.ln_pdf? d x =
      (density_normalization_and_exponential d.f_location d.f_scale d.f_precision x).map
        (fun ce => RFun.ln ce.1 + ce.2) := by
  unfold MultivariateStudent.pdf? MultivariateStudent.ln_pdf?
  simp [hinf]

/-- full(∀α): MultivariateStudent with infinite freedom IS MultivariateNormal — objects built from
    the same `(location, scale)` have the same `pdf?`/`ln_pdf?` at every argument (same value, same
    panic behaviour). -/
theorem mvt_inf_eq_mvn (loc : List α) (scale : List (List α)) (ν : α)
    (t : MultivariateStudent α) (n : MultivariateNormal α)
    (ht : MultivariateStudent.new_from_nalgebra loc scale ν = .ok t)
    (hn : MultivariateNormal.new_from_nalgebra loc scale = .ok n)
    (hinf : RFun.isInf ν = true) (x : List α) :
    MultivariateStudent.pdf? t x = MultivariateNormal.pdf? n x ∧
    MultivariateStudent.ln_pdf? t x = MultivariateNormal.ln_pdf? n x := by
  obtain ⟨t1, t2, t3, t4, t5, _, _, _, _, _, L, hL, tP, _⟩ := mvt_new_fields loc scale ν t ht
  -- the MVN constructor stores the same precision and `pdf_const(location, scale)`
  unfold MultivariateNormal.new_from_nalgebra at hn
  split_ifs at hn
  rw [hL] at hn
  injection hn with hn
  subst hn
  have hinf' : RFun.isInf t.f_freedom = true := by rw [t3]; exact hinf
  obtain ⟨hp, hl⟩ := mvt_inf_branch t x hinf'
  rw [hp, hl, t1, t2, tP]
  have hc : density_distribution_pdf_const loc scale =
      some (unwrapO (density_distribution_pdf_const loc scale)) := by
    unfold density_distribution_pdf_const
    rw [if_neg (by simp [t4, t5])]
    rfl
  unfold density_normalization_and_exponential MultivariateNormal.pdf? MultivariateNormal.ln_pdf?
  simp only
  rw [hc]
  cases density_distribution_exponential loc (LA.choleskyInverse L) x <;> simp [unwrapO]

end generic

/-! ### density identities over ℝ (`isInf` is `false` on ℝ: the Student branch) -/
section real
variable [SF ℝ]

/-- On ℝ the non-panicking value of `pdf`/`ln_pdf` in terms of the quadratic form `q`. -/
theorem mvt_pdf_of_expArg (d : MultivariateStudent ℝ) (x : List ℝ) (q : ℝ)
    (hq : MultivariateStudent.expArg? d x = some q) :
    MultivariateStudent.pdf d x =
      Real.exp d.f_ln_pdf_const *
        (1 + q / d.f_freedom) ^ ((-(d.f_freedom + (d.f_location.length : ℝ))) / 2) ∧
    MultivariateStudent.ln_pdf d x =
      d.f_ln_pdf_const - ((d.f_freedom + (d.f_location.length : ℝ)) / 2) * Real.log (1 + q / d.f_freedom) := by
  unfold MultivariateStudent.pdf MultivariateStudent.ln_pdf MultivariateStudent.pdf?
    MultivariateStudent.ln_pdf?
  simp [hq, unwrapO, lit1, lit2]

/-- full(ℝ): `pdf ≥ 0` and `ln_pdf = ln ∘ pdf` at every non-panicking argument whose base term
    `1 + q/ν` is positive (`q` the quadratic form `(x-μ)ᵀ P (x-μ)` the code computes). -/
theorem mvt_ln_pdf_eq_log_pdf (d : MultivariateStudent ℝ) (x : List ℝ) (q : ℝ)
    (hq : MultivariateStudent.expArg? d x = some q) (hbase : 0 < 1 + q / d.f_freedom) :
    0 < MultivariateStudent.pdf d x ∧
    MultivariateStudent.ln_pdf d x = Real.log (MultivariateStudent.pdf d x) := by
  obtain ⟨hp, hl⟩ := mvt_pdf_of_expArg d x q hq
  rw [hp, hl]
  refine ⟨mul_pos (Real.exp_pos _) (Real.rpow_pos_of_pos hbase _), ?_⟩
  rw [Real.log_mul (Real.exp_pos _).ne' (Real.rpow_pos_of_pos hbase _).ne', Real.log_exp,
    Real.log_rpow hbase]
  ring

/-- rel(`Spec.PSDSpec`): if the stored precision is positive semi-definite (as the inverse of a
    positive-definite scale matrix is) and `freedom > 0`, then `pdf ≥ 0` at EVERY argument
    (panicking arguments evaluate to the junk value `0` over ℝ), and `ln_pdf = ln ∘ pdf`, `pdf > 0`
    at every argument of the right length. -/
theorem mvt_pdf_nonneg_rel (d : MultivariateStudent ℝ) (hν : 0 < d.f_freedom)
    (S : Spec.PSDSpec d.f_location.length d.f_precision) (x : List ℝ) :
    0 ≤ MultivariateStudent.pdf d x ∧
    (∀ q, MultivariateStudent.expArg? d x = some q →
      0 < MultivariateStudent.pdf d x ∧
      MultivariateStudent.ln_pdf d x = Real.log (MultivariateStudent.pdf d x)) := by
  have key : ∀ q, MultivariateStudent.expArg? d x = some q → 0 < 1 + q / d.f_freedom := by
    intro q hq
    unfold MultivariateStudent.expArg? at hq
    split_ifs at hq with hc
    injection hq with hq
    have hx : x.length = d.f_location.length := by
      by_contra hne; exact hc (Or.inl hne)
    have h0 : 0 ≤ q := by
      rw [← hq]
      apply S.quad_nonneg
      simp [LA.vsub, hx]
    have : 0 ≤ q / d.f_freedom := div_nonneg h0 hν.le
    linarith
  constructor
  · cases hq : MultivariateStudent.expArg? d x with
    | none =>
      unfold MultivariateStudent.pdf MultivariateStudent.pdf?
      simp [hq, unwrapO]
      exact le_refl _
    | some q => exact (mvt_ln_pdf_eq_log_pdf d x q hq (key q hq)).1.le
  · intro q hq
    exact mvt_ln_pdf_eq_log_pdf d x q hq (key q hq)

/-! ### one dimension: MVT([l],[[s²]],ν) is StudentsT(l,s,ν) -/

theorem expArg_one_dim (d : MultivariateStudent ℝ) (l p x : ℝ)
    (hl : d.f_location = [l]) (hp : d.f_precision = [[p]]) :
    MultivariateStudent.expArg? d [x] = some (p * (x - l) * (x - l)) := by
  simp [MultivariateStudent.expArg?, hl, hp, LA.isSquare, LA.vsub, matvec_one, dotx_one]

/-- The 1×1 constructor call succeeds for `s > 0`, `ν > 0`. -/
theorem mvt_one_dim_new (l s ν : ℝ) (hs : 0 < s) (hν : 0 < ν) :
    MultivariateStudent.new_from_nalgebra [l] [[s * s]] ν =
      .ok { f_scale_chol_decomp := [[Real.sqrt (s * s)]], f_location := [l], f_scale := [[s * s]],
            f_freedom := ν,
            f_precision := [[1 / Real.sqrt (s * s) / Real.sqrt (s * s)]],
            f_ln_pdf_const :=
              SF.ln_gamma ((0.5 : ℝ) * (ν + ((1 : ℤ) : ℝ))) - SF.ln_gamma ((0.5 : ℝ) * ν)
                - (0.5 : ℝ) * ((1 : ℤ) : ℝ) * Real.log (ν * Real.pi) - (0.5 : ℝ) * Real.log (s * s) } := by
  have hss : 0 < s * s := mul_pos hs hs
  unfold MultivariateStudent.new_from_nalgebra
  simp [LA.isSquare, LA.symmetricEq, LA.anyNaN, LA.mget, chol_one _ hss, cholInv_one, unpack_one,
    det_one, lit0, not_le.mpr hν]

/-- full(ℝ), for every abstract `SF ℝ`: in one dimension the constructed MultivariateStudent has
    exactly the generated `StudentsT` density and log-density, for every location, every
    `scale > 0`, every `0 < freedom < 1e8` and every `x`.  (At `freedom ≥ 1e8` the univariate code
    switches to the Normal density, the multivariate code only at `freedom = ∞`: the two do NOT
    coincide there.) -/
theorem mvt_one_dim_eq_students_t (l s ν : ℝ) (hs : 0 < s) (hν : 0 < ν) (hν8 : ν < (1e8 : ℝ)) :
    ∃ d : MultivariateStudent ℝ, MultivariateStudent.new_from_nalgebra [l] [[s * s]] ν = .ok d ∧
      (∀ x : ℝ, MultivariateStudent.pdf d [x] =
        StudentsT.pdf ({ f_location := l, f_scale := s, f_freedom := ν } : StudentsT ℝ) x) ∧
      (∀ x : ℝ, MultivariateStudent.ln_pdf d [x] =
        StudentsT.ln_pdf ({ f_location := l, f_scale := s, f_freedom := ν } : StudentsT ℝ) x) := by
  have hss : 0 < s * s := mul_pos hs hs
  have hsq : Real.sqrt (s * s) = s := Real.sqrt_mul_self hs.le
  have hνpi : 0 < ν * Real.pi := by positivity
  have hg1 : (0.5 : ℝ) * (ν + ((1 : ℤ) : ℝ)) = (ν + 1) / 2 := by norm_num; ring
  have hg2 : (0.5 : ℝ) * ν = ν / 2 := by norm_num; ring
  have hq : ∀ x : ℝ, 1 / s / s * (x - l) * (x - l) = (x - l) / s * ((x - l) / s) := by
    intro x; field_simp
  have hbase : ∀ x : ℝ, 0 < 1 + (x - l) / s * ((x - l) / s) / ν := by
    intro x
    have : 0 ≤ (x - l) / s * ((x - l) / s) / ν := div_nonneg (mul_self_nonneg _) hν.le
    linarith
  refine ⟨_, mvt_one_dim_new l s ν hs hν, ?_, ?_⟩
  · intro x
    rw [(mvt_pdf_of_expArg _ [x] _ (expArg_one_dim _ l _ x rfl rfl)).1]
    simp only [StudentsT.pdf, hsq, hg1, hg2, hq]
    rw [if_neg (by simp), if_neg (not_le.mpr hν8)]
    rfun_norm
    simp only [lit1, lit2, lit05, List.length_singleton, Nat.cast_one, Int.cast_one]
    have hexp : Real.exp (SF.ln_gamma ((ν + 1) / 2) - SF.ln_gamma (ν / 2)
          - 1 / 2 * 1 * Real.log (ν * Real.pi) - 1 / 2 * Real.log (s * s)) =
        Real.exp (SF.ln_gamma ((ν + 1) / 2) - SF.ln_gamma (ν / 2)) / Real.sqrt (ν * Real.pi) / s := by
      rw [Real.exp_sub, Real.exp_sub]
      congr 1
      · congr 1
        rw [Real.sqrt_eq_rpow, Real.rpow_def_of_pos hνpi]; congr 1; ring
      · rw [Real.log_mul hs.ne' hs.ne', show (1 : ℝ) / 2 * (Real.log s + Real.log s) = Real.log s by ring,
          Real.exp_log hs]
    rw [hexp]
    have hpow : (-(ν + 1)) / 2 = -(1 / 2) * (ν + 1) := by ring
    rw [hpow]
    ring
  · intro x
    rw [(mvt_pdf_of_expArg _ [x] _ (expArg_one_dim _ l _ x rfl rfl)).2]
    simp only [StudentsT.ln_pdf, hsq, hg1, hg2, hq]
    rw [if_neg (by simp), if_neg (not_le.mpr hν8)]
    rfun_norm
    simp only [lit1, lit2, lit05, List.length_singleton, Nat.cast_one, Int.cast_one]
    rw [Real.log_mul hs.ne' hs.ne']
    ring

/-- In one dimension `mean()`/`variance()` agree with the generated `StudentsT` accessors
    (over ℝ, where `freedom` is finite). -/
theorem mvt_one_dim_moments (d : MultivariateStudent ℝ) (l s ν : ℝ)
    (hl : d.f_location = [l]) (hsc : d.f_scale = [[s * s]]) (hf : d.f_freedom = ν) :
    MultivariateStudent.mean d =
      (StudentsT.mean ({ f_location := l, f_scale := s, f_freedom := ν } : StudentsT ℝ)).map (fun m => [m]) ∧
    MultivariateStudent.variance d =
      (StudentsT.variance ({ f_location := l, f_scale := s, f_freedom := ν } : StudentsT ℝ)).map (fun v => [[v]]) := by
  unfold MultivariateStudent.mean MultivariateStudent.variance StudentsT.mean StudentsT.variance
    LA.unscale LA.scale
  rw [hl, hsc, hf]
  constructor
  · by_cases h : (1.0 : ℝ) < ν
    · rw [if_pos h, if_neg (not_le.mpr h)]; rfl
    · rw [if_neg h, if_pos (not_lt.mp h)]; rfl
  · simp only [rfun_isInf, Bool.false_eq_true, if_false]
    by_cases h : (2.0 : ℝ) < ν
    · rw [if_pos h, if_pos h]
      simp only [List.map, Option.map]
      congr 3
      rw [lit2]
      ring
    · rw [if_neg h, if_neg h]; rfl

example : ∃ (l s ν : ℝ), 0 < s ∧ 0 < ν ∧ ν < (1e8 : ℝ) := ⟨0, 1, 4, by norm_num, by norm_num, by norm_num⟩

end real
end Statrs.Props.C19
