/-
  C19 — MultivariateStudent: closed form of the density on constructed objects (full(ℝ)):
    pdf x = exp(ln_pdf_const) · (1 + q/ν)^(-(ν+k)/2),
    ln_pdf_const = lnΓ(½(ν+k)) - lnΓ(½ν) - ½k·ln(νπ) - ½ ln det(Σ),
    q = Σᵢ Σⱼ Pᵢⱼ (x-μ)ⱼ (x-μ)ᵢ   (P the stored precision, det the model's `LA.determinant`),
  i.e. the documented formula `Γ((ν+k)/2) / (Γ(ν/2) (νπ)^{k/2} det^{1/2}) · [1 + q/ν]^{-(ν+k)/2}` in
  log form, for every abstract `SF ℝ`.
-/
import Statrs.Props.C19.MVT
import Statrs.Props.C19.MVNFormula
set_option linter.unusedSectionVars false
set_option linter.unusedVariables false
namespace Statrs.Props.C19
open Statrs Statrs.Gen Statrs.Model Statrs.Lemmas.Multivariate

section real
variable [SF ℝ]

theorem mvt_pdf_quadratic_form (loc : List ℝ) (scale : List (List ℝ)) (ν : ℝ) (d : MultivariateStudent ℝ)
    (h : MultivariateStudent.new_from_nalgebra loc scale ν = .ok d) (x : List ℝ)
    (hx : x.length = loc.length) :
    let n := loc.length
    let v := LA.vsub x loc
    let q := ∑ i ∈ Finset.range n, (∑ j ∈ Finset.range n, LA.mget d.f_precision i j * v.getD j 0) * v.getD i 0
    let lnc := SF.ln_gamma (1 / 2 * (ν + (n : ℝ))) - SF.ln_gamma (1 / 2 * ν)
                - 1 / 2 * (n : ℝ) * Real.log (ν * Real.pi) - 1 / 2 * Real.log (LA.determinant scale)
    0 < ν ∧
    MultivariateStudent.pdf? d x = some (MultivariateStudent.pdf d x) ∧
    MultivariateStudent.pdf d x = Real.exp lnc * (1 + q / ν) ^ ((-(ν + (n : ℝ))) / 2) ∧
    MultivariateStudent.ln_pdf d x = lnc - ((ν + (n : ℝ)) / 2) * Real.log (1 + q / ν) := by
  intro n v q lnc
  obtain ⟨h1, h2, h3, h4, h5, _, _, _, hν, hc, L, hL, hP, _⟩ := mvt_new_fields loc scale ν d h
  have hνpos : 0 < ν := by rw [lit0] at hν; exact not_le.mp hν
  have hPlen : d.f_precision.length = n := by
    rw [hP, (choleskyInverse_shape L).1, choleskyNew_length scale L hL, ← h4]
  have hPsq : LA.isSquare d.f_precision = true := by rw [hP]; exact (choleskyInverse_shape L).2
  have hv : v.length = n := by simp [v, LA.vsub, hx, n]
  have hq : MultivariateStudent.expArg? d x = some q := by
    unfold MultivariateStudent.expArg?
    rw [if_neg (by rw [h1, hPlen, hPsq]; simp [hx, n]), h1]
    simp only
    rw [quadForm_eq d.f_precision (LA.vsub x loc) n hPlen hv]
  have hlnc : d.f_ln_pdf_const = lnc := by
    rw [hc]; rfun_norm; rw [lit05]
    simp only [Int.cast_natCast, lnc, n]
  obtain ⟨e1, e2⟩ := mvt_pdf_of_expArg d x q hq
  refine ⟨hνpos, ?_, ?_, ?_⟩
  · unfold MultivariateStudent.pdf MultivariateStudent.pdf?
    simp [hq, unwrapO]
  · rw [e1, hlnc, h3, h1]
  · rw [e2, hlnc, h3, h1]

end real
end Statrs.Props.C19
