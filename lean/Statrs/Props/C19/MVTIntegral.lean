/-
  C19 — MultivariateStudent: on every constructed object (every dimension `n`, every `ν > 0`) the density
  integrates to 1 over `ℝⁿ`; for `ν > 1` `mean()` is the vector of first moments, for `ν > 2` `variance()`
  is the matrix of second central moments (`ν ≤ 1` / `ν ≤ 2`: the accessors return `None`).
  All rel(`Spec.GammaDensitySpec`): `SF.ln_gamma = log ∘ Γ` on `(0, ∞)` (the only special function in the
  normalising constant).  Vectors of the right length are `List.ofFn v`, `v : Fin n → ℝ`; integrals are
  Bochner integrals against Lebesgue measure, each stated with the integrability of its integrand.
-/
import Statrs.Props.C19.MVNIntegral
import Statrs.Spec.SFSpec_Density
import Statrs.Lemmas.MVTIntegralMoments
set_option linter.unusedSectionVars false
set_option linter.unusedVariables false
namespace Statrs.Props.C19
open Statrs Statrs.Gen Statrs.Model Statrs.Lemmas.Multivariate Statrs.Lemmas.MVTIntegral Matrix MeasureTheory

/-- full(ℝ): entries of `m / c` -/
theorem mget_unscale (m : List (List ℝ)) (c : ℝ) (i j : ℕ) :
    LA.mget (LA.unscale m c) i j = LA.mget m i j / c := by
  unfold LA.mget LA.unscale
  have hd : (default : ℝ) = 0 := rfl
  simp only [List.getD_eq_getElem?_getD, List.getElem?_map, hd]
  cases m[i]? with
  | none => simp
  | some r =>
    simp only [Option.map_some, Option.getD_some, List.getElem?_map]
    cases r[j]? <;> simp

section real
variable [SF ℝ]

/-- rel(`Spec.GammaDensitySpec`): on vectors of the right length the model's `pdf` is the multivariate
    Student density `mvtDensity μ Σ ν` (`Draft/Lemmas/MVTIntegralMoments`). -/
theorem mvt_pdf_eq_mvtDensity_rel (G : Spec.GammaDensitySpec) (loc : List ℝ) (scale : List (List ℝ)) (ν : ℝ)
    (d : MultivariateStudent ℝ) (h : MultivariateStudent.new_from_nalgebra loc scale ν = .ok d)
    (v : Fin loc.length → ℝ) :
    MultivariateStudent.pdf d (List.ofFn v) =
      mvtDensity (Spec.toVec loc.length loc) (Spec.toMatrix loc.length scale) ν v := by
  have hx : (List.ofFn v).length = loc.length := List.length_ofFn
  obtain ⟨hν', _, _, _, _, hdet⟩ := mvt_new_specs loc scale ν d h
  obtain ⟨_, _, hf, _⟩ := mvt_new_fields loc scale ν d h
  have hν : 0 < ν := by rw [← hf]; exact hν'
  have := (mvt_pdf_formula loc scale ν d h (List.ofFn v) hx).1
  rw [this, toVec_vsub_ofFn]
  unfold mvtDensity tConst
  rw [Fintype.card_fin]
  congr 1
  have h1 : 0 < 1 / 2 * (ν + (loc.length : ℝ)) := by positivity
  have h2 : 0 < 1 / 2 * ν := by positivity
  have hνπ : 0 < ν * Real.pi := by positivity
  rw [G.ln_gamma_eq _ h1, G.ln_gamma_eq _ h2, Real.exp_sub, Real.exp_sub, Real.exp_sub,
    Real.exp_log (Real.Gamma_pos_of_pos h1), Real.exp_log (Real.Gamma_pos_of_pos h2)]
  have e1 : Real.exp (1 / 2 * (loc.length : ℝ) * Real.log (ν * Real.pi)) = Real.sqrt (ν * Real.pi) ^ loc.length := by
    rw [Real.sqrt_eq_rpow, ← Real.rpow_natCast, ← Real.rpow_mul hνπ.le, Real.rpow_def_of_pos hνπ]
    congr 1; ring
  have e2 : Real.exp (1 / 2 * Real.log (Spec.toMatrix loc.length scale).det) =
      Real.sqrt (Spec.toMatrix loc.length scale).det := by
    rw [Real.sqrt_eq_rpow, Real.rpow_def_of_pos hdet]
    congr 1; ring
  rw [e1, e2, show 1 / 2 * (ν + (loc.length : ℝ)) = (ν + loc.length) / 2 by ring,
    show 1 / 2 * ν = ν / 2 by ring]
  field_simp

/-- rel(`Spec.GammaDensitySpec`): **the density of every constructed `MultivariateStudent` integrates to 1**
    over `ℝⁿ`, every dimension, every `ν > 0` (and is integrable). -/
theorem mvt_pdf_integral_eq_one_rel (G : Spec.GammaDensitySpec) (loc : List ℝ) (scale : List (List ℝ)) (ν : ℝ)
    (d : MultivariateStudent ℝ) (h : MultivariateStudent.new_from_nalgebra loc scale ν = .ok d) :
    Integrable (fun v : Fin loc.length → ℝ => MultivariateStudent.pdf d (List.ofFn v)) ∧
    ∫ v : Fin loc.length → ℝ, MultivariateStudent.pdf d (List.ofFn v) = 1 := by
  obtain ⟨hν', _, _, _, hpd, _⟩ := mvt_new_specs loc scale ν d h
  obtain ⟨_, _, hf, _⟩ := mvt_new_fields loc scale ν d h
  have hν : 0 < ν := by rw [← hf]; exact hν'
  simp only [mvt_pdf_eq_mvtDensity_rel G loc scale ν d h]
  exact integral_mvtDensity hpd _ hν

/-- rel(`Spec.GammaDensitySpec`): for `ν > 1`, `mean()` of every constructed `MultivariateStudent` is the
    vector of first moments of its density; for `ν ≤ 1` `mean()` is `None`. -/
theorem mvt_mean_eq_first_moment_rel (G : Spec.GammaDensitySpec) (loc : List ℝ) (scale : List (List ℝ)) (ν : ℝ)
    (d : MultivariateStudent ℝ) (h : MultivariateStudent.new_from_nalgebra loc scale ν = .ok d) :
    (ν ≤ 1 → MultivariateStudent.mean d = none) ∧
    (1 < ν → ∃ m, MultivariateStudent.mean d = some m ∧ m.length = loc.length ∧
      ∀ i : Fin loc.length,
        Integrable (fun v : Fin loc.length → ℝ => v i * MultivariateStudent.pdf d (List.ofFn v)) ∧
        ∫ v : Fin loc.length → ℝ, v i * MultivariateStudent.pdf d (List.ofFn v) = m.getD i 0) := by
  obtain ⟨_, _, _, _, hpd, _⟩ := mvt_new_specs loc scale ν d h
  obtain ⟨hl, _, hf, _⟩ := mvt_new_fields loc scale ν d h
  constructor
  · intro hν
    unfold MultivariateStudent.mean
    rw [hf, lit1, if_neg (not_lt.mpr hν)]
  · intro hν
    refine ⟨loc, ?_, rfl, fun i => ?_⟩
    · unfold MultivariateStudent.mean
      rw [hf, lit1, if_pos hν, hl]
    · simp only [mvt_pdf_eq_mvtDensity_rel G loc scale ν d h]
      exact integral_coord_mul_mvtDensity hpd (Spec.toVec loc.length loc) hν i

/-- rel(`Spec.GammaDensitySpec`): for `ν > 2`, `variance()` of every constructed `MultivariateStudent` is
    the matrix of second central moments of its density (`= ν/(ν-2) · scale`); for `ν ≤ 2` it is `None`. -/
theorem mvt_variance_eq_second_moment_rel (G : Spec.GammaDensitySpec) (loc : List ℝ) (scale : List (List ℝ))
    (ν : ℝ) (d : MultivariateStudent ℝ) (h : MultivariateStudent.new_from_nalgebra loc scale ν = .ok d) :
    (ν ≤ 2 → MultivariateStudent.variance d = none) ∧
    (2 < ν → ∃ m V, MultivariateStudent.mean d = some m ∧ MultivariateStudent.variance d = some V ∧
      ∀ i j : Fin loc.length,
        Integrable (fun v : Fin loc.length → ℝ =>
          (v i - m.getD i 0) * (v j - m.getD j 0) * MultivariateStudent.pdf d (List.ofFn v)) ∧
        ∫ v : Fin loc.length → ℝ,
          (v i - m.getD i 0) * (v j - m.getD j 0) * MultivariateStudent.pdf d (List.ofFn v) = LA.mget V i j) := by
  obtain ⟨_, _, _, _, hpd, _⟩ := mvt_new_specs loc scale ν d h
  obtain ⟨hl, hs, hf, _⟩ := mvt_new_fields loc scale ν d h
  constructor
  · intro hν
    unfold MultivariateStudent.variance
    rw [hf, lit2, if_neg (not_lt.mpr hν)]
  · intro hν
    refine ⟨loc, LA.unscale (LA.scale scale ν) (ν - 2), ?_, ?_, fun i j => ?_⟩
    · unfold MultivariateStudent.mean
      rw [hf, lit1, if_pos (by linarith), hl]
    · unfold MultivariateStudent.variance
      rw [hf, lit2, if_pos hν, hs]
    · simp only [mvt_pdf_eq_mvtDensity_rel G loc scale ν d h]
      rw [mget_unscale, mget_scale]
      have := integral_cov_mul_mvtDensity hpd (Spec.toVec loc.length loc) hν i j
      refine ⟨this.1, this.2.trans ?_⟩
      simp only [Spec.toMatrix]
      have : ν - 2 ≠ 0 := by linarith
      field_simp

/-! ### non-vacuity -/
example : @Spec.GammaDensitySpec Spec.sfWitness := Spec.gammaDensitySpec_witness
example : ∃ d : MultivariateStudent ℝ, MultivariateStudent.new_from_nalgebra [0] [[2 * 2]] 3 = .ok d :=
  ⟨_, mvt_one_dim_new 0 2 3 (by norm_num) (by norm_num)⟩

end real
end Statrs.Props.C19
