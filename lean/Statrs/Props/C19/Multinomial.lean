/-
  C19 — Multinomial (hand model `Statrs.Model.Multinomial`).

  Strength tags: full(∀α) for `mean`, the symmetry of `variance`, and the shape of `ln_pmf`: since
  the source fix a category with count `x_i = 0` contributes the literal `0.0` and `ln p_i` is
  not evaluated, so on EVERY carrier (IEEE included) `ln_pmf` does not depend on the
  probabilities of zero-count categories (`multinomial_ln_pmf_zero_count_indep`; the former
  `0 · ln 0 = NaN` finding is gone); full(ℝ) for the normalisation done by `new`
  (`Σ p = 1`, proportional to the input), the documented covariance closed form and
  `ln_pmf = ln ∘ pmf` on `pmf > 0`; rel(`Spec.MultinomialSpec`) for the coincidence of the
  two-category `ln_pmf` with the generated `Binomial.ln_pmf` (including `p = 0`, `k = 0` and
  `p = 1`, `k = n`), and — in `MultinomialRel.lean` / `MultinomialSum.lean` — `pmf ≥ 0`, the
  two-category `pmf` = `Binomial.pmf`, permutation invariance and `Σ_x pmf x = 1`.
-/
import Statrs.Real.Simp
import Statrs.Model.Multivariate
import Statrs.Lemmas.Multivariate
import Statrs.Spec.SFSpec_multivariate
import Statrs.Gen.D_binomial
import Mathlib.Tactic
set_option linter.unusedSectionVars false
set_option linter.unusedVariables false
namespace Statrs.Props.C19
open Statrs Statrs.Gen Statrs.Model Statrs.Lemmas.Multivariate

/-! ### every carrier: accessors, symmetry, and the zero-count terms of `ln_pmf` -/
section generic
variable {α : Type} [Add α] [Sub α] [Mul α] [Div α] [Neg α] [LT α] [LE α] [BEq α]
  [DecidableLT α] [DecidableLE α] [OfScientific α] [Inhabited α] [RFun α] [SF α]

/-- `mean()` is `p_i * n` (documented `n · p_i`). -/
theorem multinomial_mean (d : Multinomial α) :
    Multinomial.mean d = some (d.f_p.map (fun p_i => p_i * (RFun.ofInt d.f_n : α))) := rfl

/-- `variance()` returns a `k × k` matrix that is symmetric entry-for-entry on every carrier
    (both `(r,c)` and `(c,r)` are the same expression `(-p_max(r,c) * p_min(r,c)) * n`), with
    diagonal `(p_r * (1 - p_r)) * n`. -/
theorem multinomial_variance_symm (d : Multinomial α) :
    ∃ V, Multinomial.variance d = some V ∧ V.length = d.f_p.length ∧
      ∀ r c, r < d.f_p.length → c < d.f_p.length →
        LA.mget V r c = LA.mget V c r ∧
        LA.mget V r r = ((d.f_p.getD r default) * ((1.0 : α) - (d.f_p.getD r default))) * (RFun.ofInt d.f_n : α) ∧
        (c < r → LA.mget V r c = ((-(d.f_p.getD r default)) * (d.f_p.getD c default)) * (RFun.ofInt d.f_n : α)) := by
  unfold Multinomial.variance LA.scale
  simp only [List.map_map]
  refine ⟨_, rfl, by simp, ?_⟩
  intro r c hr hc
  have e : ∀ (f : Nat → Nat → α) (t : α),
      (List.map ((fun r => List.map (fun e => e * t) r) ∘ fun r => List.map (fun c => f r c) (List.range d.f_p.length))
        (List.range d.f_p.length)) =
      (List.range d.f_p.length).map (fun r => (List.range d.f_p.length).map (fun c => f r c * t)) := by
    intro f t
    apply List.map_congr_left
    intro a _
    simp [List.map_map, Function.comp_def]
  rw [e, mget_tabulate _ _ r c hr hc, mget_tabulate _ _ c r hc hr, mget_tabulate _ _ r r hr hr]
  refine ⟨?_, by simp, fun hcr => ?_⟩
  · by_cases h : r = c
    · subst h; rfl
    · rw [if_neg h, if_neg (Ne.symm h)]
      by_cases h2 : c < r
      · rw [if_pos h2, if_neg (by omega)]
      · rw [if_neg h2, if_pos (by omega)]
  · rw [if_neg (by omega), if_pos hcr]

/-- The value `ln_pmf` computes on a count vector of the right length and total:
    `ln(multinomial(n, x)) + fold(0, +) [if x_i == 0 { 0.0 } else { x_i as f64 * ln(p_i) }]` —
    a category with count 0 contributes the literal `0.0`; `ln p_i` is only evaluated when
    `x_i ≠ 0`. -/
theorem multinomial_ln_pmf_shape (d : Multinomial α) (x : List Int)
    (hlen : d.f_p.length = x.length) (hsum : x.foldl (fun a b => a + b) 0 = d.f_n) :
    Multinomial.ln_pmf? d x = some
      (RFun.ln (SF.multinomial d.f_n x : α) +
        ((List.zip d.f_p x).map (fun pi_xi =>
            if pi_xi.2 = 0 then (0.0 : α) else (RFun.ofInt pi_xi.2 : α) * RFun.ln pi_xi.1)).foldl
          (fun acc t => acc + t) (0.0 : α)) := by
  unfold Multinomial.ln_pmf?
  rw [if_neg (not_not.mpr hlen), if_neg (not_not.mpr hsum)]

/-- a left fold of `+` over a list containing an absorbing element returns it -/
theorem foldl_absorbing (N : α) (hl : ∀ a : α, N + a = N) (hr : ∀ a : α, a + N = N)
    (l : List α) (hN : N ∈ l) (c : α) : l.foldl (fun acc t => acc + t) c = N := by
  induction l generalizing c with
  | nil => cases hN
  | cons a t ih =>
    rw [List.foldl_cons]
    rcases List.mem_cons.mp hN with h | h
    · rw [← h, hr]
      clear ih hN
      induction t with
      | nil => rfl
      | cons b t ih2 => rw [List.foldl_cons, hl]; exact ih2
    · exact ih h _

/-- the per-category terms of `ln_pmf` only read `p_i` where `x_i ≠ 0` -/
theorem ln_pmf_terms_congr (p p' : List α) (x : List Int) (hlen : p.length = p'.length)
    (hag : ∀ i : Nat, x.getD i 0 ≠ 0 → p.getD i default = p'.getD i default) :
    (List.zip p x).map (fun pi_xi =>
        if pi_xi.2 = 0 then (0.0 : α) else (RFun.ofInt pi_xi.2 : α) * RFun.ln pi_xi.1) =
    (List.zip p' x).map (fun pi_xi =>
        if pi_xi.2 = 0 then (0.0 : α) else (RFun.ofInt pi_xi.2 : α) * RFun.ln pi_xi.1) := by
  induction x generalizing p p' with
  | nil => simp
  | cons b xs ih =>
    cases p with
    | nil =>
      cases p' with
      | nil => rfl
      | cons a' t' => simp at hlen
    | cons a t =>
      cases p' with
      | nil => simp at hlen
      | cons a' t' =>
        simp only [List.zip_cons_cons, List.map_cons]
        have htl := ih t t' (by simpa using hlen) (fun i hi => by
          have := hag (i + 1) (by simpa using hi)
          simpa using this)
        rw [htl]
        congr 1
        by_cases hb : b = 0
        · simp [hb]
        · have : a = a' := by
            have := hag 0 (by simpa using hb)
            simpa using this
          rw [this]

/-- FIXED (every carrier, IEEE included): `ln_pmf` does not depend on the probabilities of the
    categories whose count is 0 — such a category contributes the literal `0.0`, and `ln p_i` is
    not evaluated for it.  In particular a category with `p_i = 0` and `x_i = 0` no longer
    produces `0 · ln 0 = 0 · (−∞) = NaN` (the pre-fix finding
    `multinomial_ln_pmf_zero_prob_absorbs`): the result is the same as with any other value in
    place of that `p_i`. -/
theorem multinomial_ln_pmf_zero_count_indep (p p' : List α) (n : Int) (x : List Int)
    (hlen : p.length = p'.length)
    (hag : ∀ i : Nat, x.getD i 0 ≠ 0 → p.getD i default = p'.getD i default) :
    Multinomial.ln_pmf? ({ f_p := p, f_n := n } : Multinomial α) x =
      Multinomial.ln_pmf? ({ f_p := p', f_n := n } : Multinomial α) x ∧
    Multinomial.ln_pmf ({ f_p := p, f_n := n } : Multinomial α) x =
      Multinomial.ln_pmf ({ f_p := p', f_n := n } : Multinomial α) x := by
  have key : Multinomial.ln_pmf? ({ f_p := p, f_n := n } : Multinomial α) x =
      Multinomial.ln_pmf? ({ f_p := p', f_n := n } : Multinomial α) x := by
    unfold Multinomial.ln_pmf?
    simp only [hlen, ln_pmf_terms_congr p p' x hlen hag]
  exact ⟨key, by unfold Multinomial.ln_pmf; rw [key]⟩

/-- two categories, the first with count 0: the value is
    `ln(multinomial(n,[0,n])) + ((0.0 + 0.0) + [n ≠ 0] n·ln p)` whatever the first probability `z`
    is (`z = 0` included) — `z` does not occur on the right-hand side. -/
theorem multinomial_two_ln_pmf_zero_count (z p : α) (n : Int) :
    Multinomial.ln_pmf ({ f_p := [z, p], f_n := n } : Multinomial α) [0, n] =
      RFun.ln (SF.multinomial n [0, n] : α) +
        (((0.0 : α) + (0.0 : α)) + (if n = 0 then (0.0 : α) else (RFun.ofInt n : α) * RFun.ln p)) := by
  unfold Multinomial.ln_pmf
  rw [multinomial_ln_pmf_shape ({ f_p := [z, p], f_n := n } : Multinomial α) [0, n] rfl
    (by simp [List.foldl])]
  rfl

end generic

/-! ### over ℝ: normalisation by `new`, covariance closed form, `ln_pmf = ln ∘ pmf` -/
section real
variable [SF ℝ]

theorem newLoop_real (p : List ℝ) (c s : ℝ) (h : Multinomial.newLoop p c = some s) :
    s = c + p.sum ∧ ∀ e ∈ p, 0 ≤ e := by
  induction p generalizing c with
  | nil => simp [Multinomial.newLoop] at h; simp [h]
  | cons a t ih =>
    unfold Multinomial.newLoop at h
    by_cases hc : (RFun.isNaN a = true) ∨ a < (0.0 : ℝ)
    · rw [if_pos hc] at h; cases h
    rw [if_neg hc] at h
    have ha : 0 ≤ a := by
      have : ¬ a < (0.0 : ℝ) := fun h' => hc (Or.inr h')
      rw [lit0] at this; exact not_lt.mp this
    obtain ⟨h1, h2⟩ := ih _ h
    refine ⟨by rw [h1]; simp; ring, ?_⟩
    intro e he
    rcases List.mem_cons.mp he with rfl | he
    · exact ha
    · exact h2 e he

theorem lpNorm1_real (p : List ℝ) (hp : ∀ e ∈ p, 0 ≤ e) : LA.lpNorm1 p = p.sum := by
  unfold LA.lpNorm1
  have : ∀ (l : List ℝ) (c : ℝ), (∀ e ∈ l, 0 ≤ e) →
      l.foldl (fun a b => a + RFun.powi (RFun.abs b) 1) c = c + l.sum := by
    intro l
    induction l with
    | nil => intro c _; simp
    | cons a t ih =>
      intro c hl
      rw [List.foldl_cons, ih _ (fun e he => hl e (List.mem_cons_of_mem _ he))]
      simp only [rfun_powi, rfun_abs, zpow_one, List.sum_cons,
        abs_of_nonneg (hl a (List.mem_cons_self))]
      ring
  rw [this p _ hp]
  simp [lit0, lit1]

/-- full(ℝ): what `new` stores — the trial count, and the input probabilities divided by their sum;
    the stored vector is non-negative and sums to 1 (the input need not be normalised). -/
theorem multinomial_new_normalised (p : List ℝ) (n : Int) (d : Multinomial ℝ)
    (h : Multinomial.new p n = .ok d) :
    d.f_n = n ∧ d.f_p = p.map (fun e => e / p.sum) ∧ 2 ≤ p.length ∧ (∀ e ∈ p, 0 ≤ e) ∧ 0 < p.sum ∧
    d.f_p.length = p.length ∧ (∀ e ∈ d.f_p, 0 ≤ e) ∧ d.f_p.sum = 1 := by
  unfold Multinomial.new Multinomial.new_from_nalgebra at h
  split_ifs at h with hlen
  split at h
  · cases h
  · rename_i s hs
    obtain ⟨h1, h2⟩ := newLoop_real p _ s hs
    rw [lit0, zero_add] at h1
    split_ifs at h with hz
    injection h with h
    subst h
    have hne : p.sum ≠ 0 := by
      intro h0; apply hz; rw [h1, h0, lit0]; simp
    have hpos : 0 < p.sum := lt_of_le_of_ne (List.sum_nonneg h2) (Ne.symm hne)
    rw [lpNorm1_real p h2]
    refine ⟨rfl, rfl, by omega, h2, hpos, by simp, ?_, ?_⟩
    · intro e he
      obtain ⟨a, ha, rfl⟩ := List.mem_map.mp he
      exact div_nonneg (h2 a ha) hpos.le
    · have : (p.map (fun e => e / p.sum)).sum = p.sum / p.sum := by
        simp only [div_eq_mul_inv]
        rw [List.sum_map_mul_right]
        simp
      show (p.map (fun e => e / p.sum)).sum = 1
      rw [this, div_self hne]

example : ∃ d : Multinomial ℝ, Multinomial.new [0, 1, 2] 3 = .ok d := by
  unfold Multinomial.new Multinomial.new_from_nalgebra
  norm_num [Multinomial.newLoop, lit0]

/-- full(ℝ): the documented covariance — diagonal `n p_i (1 - p_i)`, off-diagonal `-n p_i p_j`. -/
theorem multinomial_variance_closed (d : Multinomial ℝ) :
    ∃ V, Multinomial.variance d = some V ∧ V.length = d.f_p.length ∧
      ∀ r c, r < d.f_p.length → c < d.f_p.length →
        LA.mget V r c =
          (if r = c then (d.f_n : ℝ) * d.f_p.getD r 0 * (1 - d.f_p.getD r 0)
           else -((d.f_n : ℝ) * d.f_p.getD r 0 * d.f_p.getD c 0)) := by
  obtain ⟨V, hV, hlen, hent⟩ := multinomial_variance_symm d
  refine ⟨V, hV, hlen, ?_⟩
  intro r c hr hc
  have hd : (default : ℝ) = 0 := rfl
  by_cases h : r = c
  · subst h
    rw [if_pos rfl, (hent r r hr hr).2.1, lit1, hd, rfun_ofInt]; ring
  · rw [if_neg h]
    rcases Nat.lt_or_gt_of_ne h with hlt | hgt
    · rw [(hent r c hr hc).1, (hent c r hc hr).2.2 hlt, hd, rfun_ofInt]; ring
    · rw [(hent r c hr hc).2.2 hgt, hd, rfun_ofInt]; ring

/-- value of `pmf`/`ln_pmf` on a count vector of the right length and total, over ℝ -/
theorem multinomial_pmf_closed (d : Multinomial ℝ) (x : List Int)
    (hlen : d.f_p.length = x.length) (hsum : x.sum = d.f_n) :
    Multinomial.pmf d x =
      (SF.multinomial d.f_n x : ℝ) * ((List.zip d.f_p x).map (fun q => q.1 ^ ((q.2 : ℤ) : ℝ))).prod ∧
    Multinomial.ln_pmf d x =
      Real.log (SF.multinomial d.f_n x : ℝ) + ((List.zip d.f_p x).map (fun q => ((q.2 : ℤ) : ℝ) * Real.log q.1)).sum := by
  have hs : x.foldl (fun a b => a + b) 0 = d.f_n := by
    rw [← hsum, List.sum_eq_foldl]
  constructor
  · unfold Multinomial.pmf Multinomial.pmf?
    rw [if_neg (not_not.mpr hlen), if_neg (not_not.mpr hs)]
    simp only [unwrapO]
    rw [foldl_mul_eq_prod (List.zip d.f_p x) (fun q => RFun.pow q.1 (RFun.ofInt q.2 : ℝ)), lit1, one_mul]
    rfl
  · unfold Multinomial.ln_pmf
    rw [multinomial_ln_pmf_shape d x hlen hs]
    simp only [unwrapO]
    rw [foldl_add_eq_sum, lit0, zero_add]
    have hf : (fun pi_xi : ℝ × Int =>
          if pi_xi.2 = 0 then (0 : ℝ) else (RFun.ofInt pi_xi.2 : ℝ) * RFun.ln pi_xi.1) =
        (fun q : ℝ × Int => ((q.2 : ℤ) : ℝ) * Real.log q.1) := by
      funext q
      by_cases hq : q.2 = 0
      · simp [hq]
      · rw [if_neg hq]; rfl
    rw [hf]
    rfl

theorem log_prod_rpow (l : List (ℝ × ℤ)) (hp : ∀ q ∈ l, 0 ≤ q.1)
    (hne : (l.map (fun q => q.1 ^ ((q.2 : ℤ) : ℝ))).prod ≠ 0) :
    Real.log ((l.map (fun q => q.1 ^ ((q.2 : ℤ) : ℝ))).prod) =
      (l.map (fun q => ((q.2 : ℤ) : ℝ) * Real.log q.1)).sum := by
  induction l with
  | nil => simp
  | cons a t ih =>
    simp only [List.map_cons, List.prod_cons, List.sum_cons] at hne ⊢
    have h1 : a.1 ^ ((a.2 : ℤ) : ℝ) ≠ 0 := left_ne_zero_of_mul hne
    have h2 := right_ne_zero_of_mul hne
    rw [Real.log_mul h1 h2, ih (fun q hq => hp q (List.mem_cons_of_mem _ hq)) h2]
    congr 1
    rcases (hp a List.mem_cons_self).lt_or_eq with hpos | hz
    · exact Real.log_rpow hpos _
    · rw [← hz] at h1 ⊢
      by_cases hx : ((a.2 : ℤ) : ℝ) = 0
      · rw [hx]; simp
      · exact absurd (Real.zero_rpow hx) h1

/-- full(ℝ): `ln_pmf = ln ∘ pmf` wherever `pmf > 0`, for every stored probability vector with
    non-negative entries (what `new` produces), including vectors with zero entries: a
    zero-probability category necessarily has count 0 when `pmf > 0`, and such a category
    contributes `0.0` to `ln_pmf` (on every carrier: `multinomial_ln_pmf_zero_count_indep`). -/
theorem multinomial_ln_pmf_eq_log_pmf (d : Multinomial ℝ) (hp : ∀ e ∈ d.f_p, 0 ≤ e) (x : List Int)
    (h : 0 < Multinomial.pmf d x) :
    Multinomial.ln_pmf d x = Real.log (Multinomial.pmf d x) := by
  have hd : (default : ℝ) = 0 := rfl
  by_cases hlen : d.f_p.length = x.length
  · by_cases hsum : x.sum = d.f_n
    · obtain ⟨e1, e2⟩ := multinomial_pmf_closed d x hlen hsum
      rw [e1] at h
      rw [e1, e2]
      have hC : (SF.multinomial d.f_n x : ℝ) ≠ 0 := left_ne_zero_of_mul h.ne'
      have hP := right_ne_zero_of_mul h.ne'
      rw [Real.log_mul hC hP, log_prod_rpow _ _ hP]
      intro q hq
      exact hp q.1 (List.of_mem_zip hq).1
    · exfalso
      have hs : ¬ x.foldl (fun a b => a + b) 0 = d.f_n := by rwa [← List.sum_eq_foldl]
      unfold Multinomial.pmf Multinomial.pmf? at h
      rw [if_neg (not_not.mpr hlen), if_pos hs] at h
      simp [unwrapO, lit0] at h
  · exfalso
    unfold Multinomial.pmf Multinomial.pmf? at h
    rw [if_pos hlen] at h
    simp [unwrapO, hd] at h

/-! ### two categories: `ln_pmf` of Multinomial([p, 1-p], n) at (k, n-k) is `Binomial.ln_pmf` -/

/-- rel: the two-category Multinomial log-mass at `(k, n−k)` equals the generated
    `Binomial.ln_pmf` at `k`, for every `0 ≤ k ≤ n` at which the Binomial log-mass is finite —
    INCLUDING the zero-probability category with zero count: `p = 0, k = 0` (first category) and
    `p = 1, k = n` (second category), where `Binomial.ln_pmf` returns the literal `0.0`.
    (`p = 0, k ≠ 0` and `p = 1, k ≠ n` are excluded only because both sides are `−∞`, which the
    carrier ℝ cannot represent.) -/
theorem multinomial_two_ln_pmf_eq_binomial_rel (M : Spec.MultinomialSpec) (p q : ℝ) (n k : ℕ)
    (hpq : p + q = 1) (hk : k ≤ n) (h0 : p = 0 → k = 0) (h1 : p = 1 → k = n) :
    Multinomial.ln_pmf ({ f_p := [p, q], f_n := (n : ℤ) } : Multinomial ℝ) [(k : ℤ), (n : ℤ) - (k : ℤ)] =
      Binomial.ln_pmf ({ f_p := p, f_n := (n : ℤ) } : Binomial ℝ) (k : ℤ) := by
  have hq1 : q = 1 - p := by linarith
  have hxs : ([(k : ℤ), (n : ℤ) - (k : ℤ)] : List ℤ).sum = (n : ℤ) := by simp
  have hnk : (n : ℤ) - (k : ℤ) = ((n - k : ℕ) : ℤ) := by omega
  have hC : (SF.multinomial (n : ℤ) [(k : ℤ), (n : ℤ) - (k : ℤ)] : ℝ) = (Nat.choose n k : ℝ) := by
    have := M.multinomial_eq [k, n - k]
    simp only [List.sum_cons, List.sum_nil, add_zero, List.map_cons, List.map_nil,
      Nat.add_sub_cancel' hk] at this
    rw [hnk, this]
    have h0 : List.multinomial [] = 1 := Multiset.multinomial_zero
    simp [List.multinomial_cons, Nat.add_sub_cancel' hk, h0]
  rw [(multinomial_pmf_closed _ _ rfl hxs).2, hC]
  simp only [List.zip_cons_cons, List.zip_nil_right, List.map_cons, List.map_nil, List.sum_cons,
    List.sum_nil, add_zero, Int.cast_natCast, hnk]
  unfold Binomial.ln_pmf
  rfun_norm
  simp only [lit0, lit1]
  rw [if_neg (by omega)]
  have hun : usub (n : ℤ) (k : ℤ) = ((n - k : ℕ) : ℤ) := by
    unfold usub; rw [if_neg (by omega)]; omega
  by_cases hp0 : p = 0
  · have hk0 := h0 hp0
    subst hp0; subst hk0
    have : q = 1 := by linarith
    subst this
    simp
  · rw [if_neg hp0]
    by_cases hp1 : p = 1
    · have hkn := h1 hp1
      subst hp1; subst hkn
      have : q = 0 := by linarith
      subst this
      simp
    · rw [if_neg (by simpa using hp1)]
      rw [M.ln_binomial_eq n k hk, hun, hq1]
      simp only [Int.cast_natCast]
      rw [add_assoc]

example : ∃ (_ : SF ℝ) (_ : Spec.MultinomialSpec) (p q : ℝ) (n k : ℕ),
    p + q = 1 ∧ k ≤ n ∧ (p = 0 → k = 0) ∧ (p = 1 → k = n) :=
  ⟨Spec.sfWitnessMultinomial, Spec.multinomialSpec_witness, 0, 1, 5, 0, by norm_num, by norm_num,
    fun _ => rfl, fun h => by norm_num at h⟩

end real

end Statrs.Props.C19
