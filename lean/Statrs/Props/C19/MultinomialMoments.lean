/-
  C19 — Multinomial: masses sum to 1, `mean()` / `variance()` are the first moments / covariances of the
  mass function, as sums over ALL count vectors `k : Fin K → ℕ` with `Σ k = n`
  (`Finset.piAntidiag Finset.univ n`).

  The only fact about the abstract `SF ℝ` these theorems use is `MultinomialCoeffAt n`: at count vectors of
  total `n`, `SF.multinomial n ·` is the multinomial coefficient.  It follows
    * from the premise structure `Spec.MultinomialSpec` (`…_rel`), and
    * for `n ≤ 170` from the GENERATED code: `generated_multinomial_eq` proves that
      `F.factorial.multinomial` (factorial.rs:69) is exactly the multinomial coefficient whenever the total is
      inside the factorial table, so for every `SF ℝ` whose `multinomial` is the generated function the
      theorems hold without any premise (`…_generated`).  Beyond the table the Rust code goes through the
      Lanczos `ln_gamma`, which is not exact; nothing is claimed there.
-/
import Statrs.Props.C19.MultinomialSum
import Statrs.Props.C11.Structure
import Statrs.Lemmas.MultinomialMoments
set_option linter.unusedSectionVars false
set_option linter.unusedVariables false
namespace Statrs.Props.C19
open Statrs Statrs.Gen Statrs.Model Statrs.Lemmas.Multivariate Statrs.Lemmas.MultinomialMoments Finset

/-! ### the generated multinomial coefficient inside the factorial table -/

/-- full(ℕ): `∏ kᵢ! · multinomial(k) = (Σ k)!` -/
theorem list_factorial_prod_mul_multinomial (l : List ℕ) :
    (l.map Nat.factorial).prod * l.multinomial = (l.sum).factorial := by
  induction l with
  | nil =>
    have h0 : List.multinomial [] = 1 := Multiset.multinomial_zero
    simp [h0]
  | cons x t ih =>
    rw [List.map_cons, List.prod_cons, List.multinomial_cons, List.sum_cons]
    calc x.factorial * (t.map Nat.factorial).prod * ((x + t.sum).choose x * t.multinomial)
        = (x + t.sum).choose x * x.factorial * ((t.map Nat.factorial).prod * t.multinomial) := by ring
      _ = (x + t.sum).choose x * x.factorial * t.sum.factorial := by rw [ih]
      _ = (x + t.sum).factorial := by
        rw [add_comm x t.sum]
        have := Nat.add_choose_mul_factorial_mul_factorial t.sum x
        rw [← this]; ring

/-- full(ℝ): the accumulator of `checked_multinomial` on a list of table-range counts -/
theorem checked_multinomial_foldl (l : List ℕ) (hl : ∀ x ∈ l, x ≤ 170) (s : ℤ) (r : ℝ) :
    List.foldl (fun (acc : ℤ × ℝ) (x : ℤ) => (acc.1 + x, acc.2 - F.factorial.ln_factorial (α := ℝ) x)) (s, r)
        (l.map (fun i : ℕ => (i : ℤ))) =
      (s + ((l.sum : ℕ) : ℤ), r - Real.log (((l.map Nat.factorial).prod : ℕ) : ℝ)) := by
  induction l generalizing s r with
  | nil => simp
  | cons a t ih =>
    have ha : a ≤ 170 := hl a (by simp)
    rw [List.map_cons, List.foldl_cons, ih (fun x hx => hl x (by simp [hx])),
      Statrs.Props.C11.ln_factorial_eq a ha]
    have h1 : (0 : ℝ) < (a.factorial : ℝ) := by exact_mod_cast Nat.factorial_pos a
    have h2 : (0 : ℝ) < (((t.map Nat.factorial).prod : ℕ) : ℝ) := by
      exact_mod_cast List.prod_pos (by
        intro x hx
        obtain ⟨y, _, rfl⟩ := List.mem_map.mp hx
        exact Nat.factorial_pos y)
    simp only [List.sum_cons, List.map_cons, List.prod_cons, Nat.cast_add, Nat.cast_mul]
    rw [Real.log_mul h1.ne' h2.ne']
    refine Prod.ext ?_ ?_
    · simp only; ring
    · simp only; ring

/-- full(ℝ) [C11]: **inside the factorial table the generated `multinomial` is exactly the multinomial
    coefficient**: for every list of counts `k` with `Σ k ≤ 170`,
    `factorial::multinomial(Σ k, k) = (Σ k)! / ∏ kᵢ!` (Mathlib's `List.multinomial`). -/
theorem generated_multinomial_eq (k : List ℕ) (hk : k.sum ≤ 170) :
    F.factorial.multinomial (α := ℝ) ((k.sum : ℕ) : ℤ) (k.map (fun i : ℕ => (i : ℤ))) =
      ((List.multinomial k : ℕ) : ℝ) := by
  have hl : ∀ x ∈ k, x ≤ 170 := fun x hx => le_trans (List.single_le_sum (by simp) x hx) hk
  unfold F.factorial.multinomial F.factorial.checked_multinomial
  rw [checked_multinomial_foldl k hl, Statrs.Props.C11.ln_factorial_eq k.sum hk]
  simp only [zero_add, if_true, unwrapO]
  rfun_norm
  have hP : (0 : ℝ) < (((k.map Nat.factorial).prod : ℕ) : ℝ) := by
    exact_mod_cast List.prod_pos (by
      intro x hx
      obtain ⟨y, _, rfl⟩ := List.mem_map.mp hx
      exact Nat.factorial_pos y)
  have hN : (0 : ℝ) < ((k.sum.factorial : ℕ) : ℝ) := by exact_mod_cast Nat.factorial_pos _
  have hexp : Real.exp (Real.log ((k.sum.factorial : ℕ) : ℝ) - Real.log (((k.map Nat.factorial).prod : ℕ) : ℝ)) =
      ((List.multinomial k : ℕ) : ℝ) := by
    rw [Real.exp_sub, Real.exp_log hN, Real.exp_log hP, div_eq_iff hP.ne']
    have := list_factorial_prod_mul_multinomial k
    rw [mul_comm]
    exact_mod_cast this.symm
  rw [hexp]
  have : ⌊(0.5 : ℝ) + ((List.multinomial k : ℕ) : ℝ)⌋ = ((List.multinomial k : ℕ) : ℤ) := by
    rw [Int.floor_eq_iff]; push_cast; constructor <;> linarith
  rw [this]; simp

section real
variable [SF ℝ]

/-- The only fact about `SF.multinomial` used by the sum/moment theorems: on count vectors with total `n` it
    is the multinomial coefficient. -/
def MultinomialCoeffAt (n : ℕ) : Prop :=
  ∀ k : List ℕ, k.sum = n →
    (SF.multinomial (n : ℤ) (k.map (fun i : ℕ => (i : ℤ))) : ℝ) = ((List.multinomial k : ℕ) : ℝ)

/-- rel(`Spec.MultinomialSpec`) ⇒ `MultinomialCoeffAt n` for every `n` -/
theorem multinomialCoeffAt_of_spec (M : Spec.MultinomialSpec) (n : ℕ) : MultinomialCoeffAt n := by
  intro k hk
  have := M.multinomial_eq k
  rwa [hk] at this

/-- partial(`n ≤ 170`): the generated code ⇒ `MultinomialCoeffAt n` -/
theorem multinomialCoeffAt_of_generated
    (hSF : ∀ (m : ℤ) (x : List ℤ), (SF.multinomial m x : ℝ) = F.factorial.multinomial (α := ℝ) m x)
    (n : ℕ) (hn : n ≤ 170) : MultinomialCoeffAt n := by
  intro k hk
  rw [hSF, ← hk]
  exact generated_multinomial_eq k (by omega)

/-- rel(`MultinomialCoeffAt n`): the mass of the count vector `k` is its multinomial-theorem term -/
theorem multinomial_pmf_ofFn {n : ℕ} (hM : MultinomialCoeffAt n) (d : Multinomial ℝ) (hn : d.f_n = (n : ℤ))
    (k : Fin d.f_p.length → ℕ) (hk : k ∈ piAntidiag (univ : Finset (Fin d.f_p.length)) n) :
    Multinomial.pmf d (List.ofFn (fun i => ((k i : ℕ) : ℤ))) = mterm (fun i => d.f_p.get i) k := by
  have hksum : ∑ i, k i = n := (mem_piAntidiag.mp hk).1
  have hxsum : (List.ofFn (fun i => ((k i : ℕ) : ℤ))).sum = d.f_n := by
    rw [List.sum_ofFn, hn, ← hksum]; push_cast; rfl
  have hmap : List.ofFn (fun i => ((k i : ℕ) : ℤ)) = (List.ofFn k).map (fun i : ℕ => (i : ℤ)) := by
    rw [List.map_ofFn]; rfl
  have hC : (SF.multinomial d.f_n (List.ofFn (fun i => ((k i : ℕ) : ℤ))) : ℝ) =
      (Nat.multinomial univ k : ℝ) := by
    rw [hn, hmap, hM (List.ofFn k) (by rw [List.sum_ofFn, hksum]), list_multinomial_ofFn]
  rw [(multinomial_pmf_closed d _ (by simp) hxsum).1, hC, zip_ofFn_right, List.map_ofFn, List.prod_ofFn]
  unfold mterm
  congr 1
  apply Finset.prod_congr rfl
  intro i _
  simp

/-- full(ℝ): entry of a mapped list -/
theorem getD_map_fin (l : List ℝ) (f : ℝ → ℝ) (i : Fin l.length) : (l.map f).getD i 0 = f (l.get i) := by
  simp [List.getD_eq_getElem?_getD]

/-- full(ℝ): a list sum as a `Fin`-indexed sum -/
theorem sum_get_eq_sum (l : List ℝ) : ∑ i : Fin l.length, l.get i = l.sum := by
  conv_rhs => rw [← List.ofFn_get l]
  rw [List.sum_ofFn]

/-- rel(`MultinomialCoeffAt n`): masses sum to 1 -/
theorem multinomial_pmf_sum_one_at {n : ℕ} (hM : MultinomialCoeffAt n) (d : Multinomial ℝ)
    (hn : d.f_n = (n : ℤ)) (hs : d.f_p.sum = 1) :
    ∑ k ∈ piAntidiag (univ : Finset (Fin d.f_p.length)) n,
      Multinomial.pmf d (List.ofFn (fun i => ((k i : ℕ) : ℤ))) = 1 := by
  rw [Finset.sum_congr rfl (fun k hk => multinomial_pmf_ofFn hM d hn k hk), sum_mterm, sum_get_eq_sum, hs,
    one_pow]

/-- rel(`MultinomialCoeffAt n`): `mean()` is the vector of first moments of the mass function -/
theorem multinomial_mean_eq_first_moment_at {n : ℕ} (hM : MultinomialCoeffAt n) (d : Multinomial ℝ)
    (hn : d.f_n = (n : ℤ)) (hs : d.f_p.sum = 1) :
    ∃ m, Multinomial.mean d = some m ∧ m.length = d.f_p.length ∧
      ∀ i : Fin d.f_p.length,
        ∑ k ∈ piAntidiag (univ : Finset (Fin d.f_p.length)) n,
          (k i : ℝ) * Multinomial.pmf d (List.ofFn (fun i => ((k i : ℕ) : ℤ))) = m.getD i 0 := by
  refine ⟨_, rfl, by simp, fun i => ?_⟩
  rw [Finset.sum_congr rfl (fun k hk => by rw [multinomial_pmf_ofFn hM d hn k hk]),
    sum_count_mul_mterm, sum_get_eq_sum, hs, one_pow, mul_one]
  rw [getD_map_fin, rfun_ofInt, hn]
  simp [mul_comm]

/-- rel(`MultinomialCoeffAt n`): `variance()` is the covariance matrix of the mass function -/
theorem multinomial_variance_eq_covariance_at {n : ℕ} (hM : MultinomialCoeffAt n) (d : Multinomial ℝ)
    (hn : d.f_n = (n : ℤ)) (hs : d.f_p.sum = 1) :
    ∃ m V, Multinomial.mean d = some m ∧ Multinomial.variance d = some V ∧
      ∀ i j : Fin d.f_p.length,
        ∑ k ∈ piAntidiag (univ : Finset (Fin d.f_p.length)) n,
          ((k i : ℝ) - m.getD i 0) * ((k j : ℝ) - m.getD j 0) *
            Multinomial.pmf d (List.ofFn (fun i => ((k i : ℕ) : ℤ))) = LA.mget V i j := by
  obtain ⟨V, hV, _, hent⟩ := multinomial_variance_closed d
  refine ⟨_, V, rfl, hV, fun i j => ?_⟩
  have hget : ∀ i : Fin d.f_p.length,
      (d.f_p.map (fun x => x * (RFun.ofInt d.f_n : ℝ))).getD i 0 = (n : ℝ) * d.f_p.get i := by
    intro i
    rw [getD_map_fin, rfun_ofInt, hn]
    simp [mul_comm]
  have hgetp : ∀ i : Fin d.f_p.length, d.f_p.getD i 0 = d.f_p.get i := by
    intro i; rw [List.getD_eq_getElem _ _ i.isLt]; rfl
  rw [hent i j i.isLt j.isLt, hget, hget, hgetp, hgetp, hn]
  set q : Fin d.f_p.length → ℝ := fun i => d.f_p.get i with hq
  have hS : ∑ l, q l = 1 := by rw [hq, sum_get_eq_sum, hs]
  have hexp : ∀ k ∈ piAntidiag (univ : Finset (Fin d.f_p.length)) n,
      ((k i : ℝ) - n * q i) * ((k j : ℝ) - n * q j) * Multinomial.pmf d (List.ofFn (fun i => ((k i : ℕ) : ℤ))) =
        (k i : ℝ) * (k j : ℝ) * mterm q k - n * q j * ((k i : ℝ) * mterm q k)
          - n * q i * ((k j : ℝ) * mterm q k) + n * q i * (n * q j) * mterm q k := by
    intro k hk
    rw [multinomial_pmf_ofFn hM d hn k hk]; ring
  rw [Finset.sum_congr rfl hexp, Finset.sum_add_distrib, Finset.sum_sub_distrib, Finset.sum_sub_distrib,
    ← Finset.mul_sum, ← Finset.mul_sum, ← Finset.mul_sum, sum_count_mul_count_mul_mterm, sum_count_mul_mterm,
    sum_count_mul_mterm, sum_mterm, hS]
  simp only [one_pow, mul_one, Int.cast_natCast]
  by_cases hij : (i : ℕ) = (j : ℕ)
  · have : i = j := Fin.ext hij
    subst this
    simp only [if_true]; ring
  · have : i ≠ j := fun h => hij (by rw [h])
    rw [if_neg this, if_neg hij]; ring

/-! ### relative to `Spec.MultinomialSpec`, every `n` -/

/-- rel(`Spec.MultinomialSpec`): `mean()[i] = Σ_k kᵢ · pmf(k)` over all count vectors with `Σ k = n`, for
    every stored probability vector summing to 1 and every `n`. -/
theorem multinomial_mean_eq_first_moment_rel (M : Spec.MultinomialSpec) (d : Multinomial ℝ) (n : ℕ)
    (hn : d.f_n = (n : ℤ)) (hs : d.f_p.sum = 1) :
    ∃ m, Multinomial.mean d = some m ∧ m.length = d.f_p.length ∧
      ∀ i : Fin d.f_p.length,
        ∑ k ∈ piAntidiag (univ : Finset (Fin d.f_p.length)) n,
          (k i : ℝ) * Multinomial.pmf d (List.ofFn (fun i => ((k i : ℕ) : ℤ))) = m.getD i 0 :=
  multinomial_mean_eq_first_moment_at (multinomialCoeffAt_of_spec M n) d hn hs

/-- rel(`Spec.MultinomialSpec`): `variance()[i][j] = Σ_k (kᵢ - mᵢ)(kⱼ - mⱼ) · pmf(k)`, `m = mean()`. -/
theorem multinomial_variance_eq_covariance_rel (M : Spec.MultinomialSpec) (d : Multinomial ℝ) (n : ℕ)
    (hn : d.f_n = (n : ℤ)) (hs : d.f_p.sum = 1) :
    ∃ m V, Multinomial.mean d = some m ∧ Multinomial.variance d = some V ∧
      ∀ i j : Fin d.f_p.length,
        ∑ k ∈ piAntidiag (univ : Finset (Fin d.f_p.length)) n,
          ((k i : ℝ) - m.getD i 0) * ((k j : ℝ) - m.getD j 0) *
            Multinomial.pmf d (List.ofFn (fun i => ((k i : ℕ) : ℤ))) = LA.mget V i j :=
  multinomial_variance_eq_covariance_at (multinomialCoeffAt_of_spec M n) d hn hs

/-- rel(`Spec.MultinomialSpec`): the same on every object built by `Multinomial::new` (any non-negative,
    not-all-zero, not necessarily normalised `p` with at least two entries). -/
theorem multinomial_new_moments_rel (M : Spec.MultinomialSpec) (p : List ℝ) (n : ℕ) (d : Multinomial ℝ)
    (h : Multinomial.new p (n : ℤ) = .ok d) :
    ∃ m V, Multinomial.mean d = some m ∧ Multinomial.variance d = some V ∧
      (∀ i : Fin d.f_p.length,
        ∑ k ∈ piAntidiag (univ : Finset (Fin d.f_p.length)) n,
          (k i : ℝ) * Multinomial.pmf d (List.ofFn (fun i => ((k i : ℕ) : ℤ))) = m.getD i 0) ∧
      ∀ i j : Fin d.f_p.length,
        ∑ k ∈ piAntidiag (univ : Finset (Fin d.f_p.length)) n,
          ((k i : ℝ) - m.getD i 0) * ((k j : ℝ) - m.getD j 0) *
            Multinomial.pmf d (List.ofFn (fun i => ((k i : ℕ) : ℤ))) = LA.mget V i j := by
  obtain ⟨h1, _, _, _, _, _, _, h8⟩ := multinomial_new_normalised p n d h
  obtain ⟨m, V, hm, hV, hcov⟩ := multinomial_variance_eq_covariance_rel M d n h1 h8
  obtain ⟨m', hm', _, hmean⟩ := multinomial_mean_eq_first_moment_rel M d n h1 h8
  rw [hm] at hm'
  injection hm' with hm'
  subst hm'
  exact ⟨m, V, hm, hV, hmean, hcov⟩

/-! ### without premise for the generated coefficient, `n ≤ 170` -/

/-- partial(`n ≤ 170`; beyond the factorial table the generated coefficient goes through the Lanczos
    `ln_gamma` and is not exact): for every `SF ℝ` whose `multinomial` is the GENERATED
    `factorial::multinomial`, on every object built by `Multinomial::new` with `n ≤ 170` trials: the masses
    of all count vectors sum to 1, `mean()` is the vector of first moments and `variance()` the covariance
    matrix of the mass function.  No premise structure. -/
theorem multinomial_new_sum_moments_generated_partial
    (hSF : ∀ (m : ℤ) (x : List ℤ), (SF.multinomial m x : ℝ) = F.factorial.multinomial (α := ℝ) m x)
    (p : List ℝ) (n : ℕ) (hn : n ≤ 170) (d : Multinomial ℝ) (h : Multinomial.new p (n : ℤ) = .ok d) :
    ∑ k ∈ piAntidiag (univ : Finset (Fin d.f_p.length)) n,
      Multinomial.pmf d (List.ofFn (fun i => ((k i : ℕ) : ℤ))) = 1 ∧
    ∃ m V, Multinomial.mean d = some m ∧ Multinomial.variance d = some V ∧
      (∀ i : Fin d.f_p.length,
        ∑ k ∈ piAntidiag (univ : Finset (Fin d.f_p.length)) n,
          (k i : ℝ) * Multinomial.pmf d (List.ofFn (fun i => ((k i : ℕ) : ℤ))) = m.getD i 0) ∧
      ∀ i j : Fin d.f_p.length,
        ∑ k ∈ piAntidiag (univ : Finset (Fin d.f_p.length)) n,
          ((k i : ℝ) - m.getD i 0) * ((k j : ℝ) - m.getD j 0) *
            Multinomial.pmf d (List.ofFn (fun i => ((k i : ℕ) : ℤ))) = LA.mget V i j := by
  obtain ⟨h1, _, _, _, _, _, _, h8⟩ := multinomial_new_normalised p n d h
  have hM := multinomialCoeffAt_of_generated hSF n hn
  obtain ⟨m, V, hm, hV, hcov⟩ := multinomial_variance_eq_covariance_at hM d h1 h8
  obtain ⟨m', hm', _, hmean⟩ := multinomial_mean_eq_first_moment_at hM d h1 h8
  rw [hm] at hm'
  injection hm' with hm'
  subst hm'
  exact ⟨multinomial_pmf_sum_one_at hM d h1 h8, m, V, hm, hV, hmean, hcov⟩

end real

/-! ### non-vacuity -/
example : @Spec.MultinomialSpec Spec.sfWitnessMultinomial := Spec.multinomialSpec_witness

/-- an `SF ℝ` whose `multinomial` is the generated function (hypothesis `hSF` of the `…_generated` theorem) -/
example : ∃ inst : SF ℝ, ∀ (m : ℤ) (x : List ℤ),
    (@SF.multinomial ℝ inst m x : ℝ) = F.factorial.multinomial (α := ℝ) m x :=
  ⟨{ Spec.sfWitnessMultinomial with multinomial := fun m x => F.factorial.multinomial (α := ℝ) m x },
    fun _ _ => rfl⟩

example [SF ℝ] : ∃ d : Multinomial ℝ, Multinomial.new [1, 3] (5 : ℕ) = .ok d := by
  unfold Multinomial.new Multinomial.new_from_nalgebra
  norm_num [Multinomial.newLoop, lit0]

end Statrs.Props.C19
