/-
  C19 — Multinomial, theorems relative to `Spec.MultinomialSpec`
  (`SF.multinomial` is the multinomial coefficient, `SF.ln_binomial = ln C(n,k)`):
  `pmf ≥ 0`, the two-category Multinomial is the generated `Binomial`, invariance of the mass
  under a common permutation of `(p_i, x_i)` pairs.  All tagged rel(`Spec.MultinomialSpec`).
-/
import Statrs.Props.C19.Multinomial
set_option linter.unusedSectionVars false
set_option linter.unusedVariables false
namespace Statrs.Props.C19
open Statrs Statrs.Gen Statrs.Model Statrs.Lemmas.Multivariate

section real
variable [SF ℝ]

/-- For a count vector with non-negative entries (Rust: `u64`), `SF.multinomial (Σ x) x` is the
    multinomial coefficient of the entries. -/
theorem sf_multinomial_of_nonneg (M : Spec.MultinomialSpec) (x : List Int) (hx : ∀ xi ∈ x, 0 ≤ xi) :
    (SF.multinomial x.sum x : ℝ) = ((List.multinomial (x.map Int.toNat) : ℕ) : ℝ) := by
  have h1 : (x.map Int.toNat).map (fun (i : ℕ) => (i : ℤ)) = x := by
    rw [List.map_map]
    conv_rhs => rw [← List.map_id x]
    apply List.map_congr_left
    intro a ha
    simp [Int.toNat_of_nonneg (hx a ha)]
  have h2 : (((x.map Int.toNat).sum : ℕ) : ℤ) = x.sum := by
    conv_rhs => rw [← h1]
    induction (x.map Int.toNat) with
    | nil => simp
    | cons a t ih => simp [ih]
  have := M.multinomial_eq (x.map Int.toNat)
  rw [h1, h2] at this
  exact this

/-- rel: `pmf ≥ 0` for every stored probability vector with non-negative entries and every count
    vector with non-negative entries (any length, any total). -/
theorem multinomial_pmf_nonneg_rel (M : Spec.MultinomialSpec) (d : Multinomial ℝ)
    (hp : ∀ e ∈ d.f_p, 0 ≤ e) (x : List Int) (hx : ∀ xi ∈ x, 0 ≤ xi) :
    0 ≤ Multinomial.pmf d x := by
  have hd : (default : ℝ) = 0 := rfl
  by_cases hlen : d.f_p.length = x.length
  · by_cases hsum : x.sum = d.f_n
    · rw [(multinomial_pmf_closed d x hlen hsum).1, ← hsum, sf_multinomial_of_nonneg M x hx]
      apply mul_nonneg (Nat.cast_nonneg _)
      apply List.prod_nonneg
      intro a ha
      obtain ⟨q, hq, rfl⟩ := List.mem_map.mp ha
      exact Real.rpow_nonneg (hp q.1 (List.of_mem_zip hq).1) _
    · have hs : ¬ x.foldl (fun a b => a + b) 0 = d.f_n := by rwa [← List.sum_eq_foldl]
      unfold Multinomial.pmf Multinomial.pmf?
      rw [if_neg (not_not.mpr hlen), if_pos hs]
      simp [unwrapO, lit0]
  · unfold Multinomial.pmf Multinomial.pmf?
    rw [if_pos hlen]
    simp [unwrapO, hd]

/-- rel: invariance under a common permutation of categories: if the lists of pairs `(p_i, x_i)`
    are permutations of each other (counts non-negative, same `n`) then `pmf?` — value and panic
    behaviour — `pmf` and `ln_pmf` coincide. -/
theorem multinomial_perm_invariant_rel (M : Spec.MultinomialSpec) (p p' : List ℝ) (x x' : List Int) (n : Int)
    (hlen : p.length = x.length) (hlen' : p'.length = x'.length)
    (hx : ∀ xi ∈ x, 0 ≤ xi) (hperm : (List.zip p x).Perm (List.zip p' x')) :
    Multinomial.pmf ({ f_p := p, f_n := n } : Multinomial ℝ) x =
      Multinomial.pmf ({ f_p := p', f_n := n } : Multinomial ℝ) x' ∧
    Multinomial.ln_pmf ({ f_p := p, f_n := n } : Multinomial ℝ) x =
      Multinomial.ln_pmf ({ f_p := p', f_n := n } : Multinomial ℝ) x' := by
  have ex : x = (List.zip p x).map Prod.snd := (List.map_snd_zip (le_of_eq hlen.symm)).symm
  have ex' : x' = (List.zip p' x').map Prod.snd := (List.map_snd_zip (le_of_eq hlen'.symm)).symm
  have hxp : x.Perm x' := by rw [ex, ex']; exact hperm.map _
  have hx' : ∀ xi ∈ x', 0 ≤ xi := fun xi h => hx xi (hxp.mem_iff.mpr h)
  have hsumeq : x.sum = x'.sum := hxp.sum_eq
  by_cases hsum : x.sum = n
  · have hsum' : x'.sum = n := by rw [← hsumeq]; exact hsum
    obtain ⟨e1, e2⟩ := multinomial_pmf_closed ({ f_p := p, f_n := n } : Multinomial ℝ) x hlen hsum
    obtain ⟨e1', e2'⟩ := multinomial_pmf_closed ({ f_p := p', f_n := n } : Multinomial ℝ) x' hlen' hsum'
    have hC : (SF.multinomial n x : ℝ) = SF.multinomial n x' := by
      have a1 := sf_multinomial_of_nonneg M x hx
      have a2 := sf_multinomial_of_nonneg M x' hx'
      rw [hsum] at a1; rw [hsum'] at a2
      rw [a1, a2]
      have : ((x.map Int.toNat : List ℕ) : Multiset ℕ) = ((x'.map Int.toNat : List ℕ) : Multiset ℕ) :=
        Quotient.sound (hxp.map _)
      have h3 : List.multinomial (x.map Int.toNat) = List.multinomial (x'.map Int.toNat) := by
        show Multiset.multinomial ((x.map Int.toNat : List ℕ) : Multiset ℕ) =
          Multiset.multinomial ((x'.map Int.toNat : List ℕ) : Multiset ℕ)
        rw [this]
      rw [h3]
    rw [e1, e2, e1', e2']
    simp only [hC, (hperm.map (fun q : ℝ × ℤ => q.1 ^ ((q.2 : ℤ) : ℝ))).prod_eq,
      (hperm.map (fun q : ℝ × ℤ => ((q.2 : ℤ) : ℝ) * Real.log q.1)).sum_eq, and_self]
  · have hsum' : ¬ x'.sum = n := by rw [← hsumeq]; exact hsum
    have hs : ¬ x.foldl (fun a b => a + b) 0 = n := by rwa [← List.sum_eq_foldl]
    have hs' : ¬ x'.foldl (fun a b => a + b) 0 = n := by rwa [← List.sum_eq_foldl]
    unfold Multinomial.pmf Multinomial.pmf? Multinomial.ln_pmf Multinomial.ln_pmf?
    simp only [if_neg (not_not.mpr hlen), if_neg (not_not.mpr hlen'), if_pos hs, if_pos hs', and_self]

/-! ### two categories: Multinomial([p, 1-p], n) at (k, n-k) is Binomial(p, n) at k -/

/-- rel: for every success probability `p ∈ [0,1]` (the stored vector is `[p, q]` with `p + q = 1`,
    both non-negative — what `new` produces), every `n` and every `0 ≤ k ≤ n`, the two-category
    Multinomial mass at `(k, n-k)` equals the generated `Binomial.pmf` at `k`, including the
    degenerate `p = 0` and `p = 1` branches of `Binomial.pmf`. -/
theorem multinomial_two_eq_binomial_rel (M : Spec.MultinomialSpec) (p q : ℝ) (n k : ℕ)
    (hp : 0 ≤ p) (hq : 0 ≤ q) (hpq : p + q = 1) (hk : k ≤ n) :
    Multinomial.pmf ({ f_p := [p, q], f_n := (n : ℤ) } : Multinomial ℝ) [(k : ℤ), (n : ℤ) - (k : ℤ)] =
      Binomial.pmf ({ f_p := p, f_n := (n : ℤ) } : Binomial ℝ) (k : ℤ) := by
  have hq1 : q = 1 - p := by linarith
  have hxs : ([(k : ℤ), (n : ℤ) - (k : ℤ)] : List ℤ).sum = (n : ℤ) := by simp
  have hnk : (n : ℤ) - (k : ℤ) = ((n - k : ℕ) : ℤ) := by omega
  have hC : (SF.multinomial (n : ℤ) [(k : ℤ), (n : ℤ) - (k : ℤ)] : ℝ) = (Nat.choose n k : ℝ) := by
    have := sf_multinomial_of_nonneg M [(k : ℤ), (n : ℤ) - (k : ℤ)] (by
      intro xi hxi; simp at hxi; rcases hxi with rfl | rfl <;> omega)
    rw [hxs] at this
    rw [this, hnk]
    have h0 : List.multinomial [] = 1 := Multiset.multinomial_zero
    simp [List.multinomial_cons, Nat.add_sub_cancel' hk, h0]
  rw [(multinomial_pmf_closed _ _ rfl hxs).1, hC]
  simp only [List.zip_cons_cons, List.zip_nil_right, List.map_cons, List.map_nil, List.prod_cons,
    List.prod_nil, mul_one, Int.cast_natCast, hnk]
  unfold Binomial.pmf
  rfun_norm
  simp only [lit0, lit1]
  rw [if_neg (by omega)]
  have hun : usub (n : ℤ) (k : ℤ) = ((n - k : ℕ) : ℤ) := by
    unfold usub; rw [if_neg (by omega)]; omega
  by_cases hp0 : p = 0
  · subst hp0
    have : q = 1 := by linarith
    subst this
    rw [if_pos rfl]
    by_cases hk0 : k = 0
    · subst hk0; simp
    · rw [if_neg (by exact_mod_cast hk0), Real.zero_rpow (by exact_mod_cast hk0)]; simp
  · rw [if_neg hp0]
    by_cases hp1 : p = 1
    · subst hp1
      have : q = 0 := by linarith
      subst this
      rw [if_pos (by simp)]
      by_cases hkn : k = n
      · subst hkn; simp
      · rw [if_neg (by exact_mod_cast hkn), Real.zero_rpow (by
          have : 0 < n - k := by omega
          exact_mod_cast this.ne')]
        simp
    · rw [if_neg (by simpa using hp1)]
      have hppos : 0 < p := lt_of_le_of_ne hp (Ne.symm hp0)
      have hqpos : 0 < 1 - p := by
        rw [← hq1]; exact lt_of_le_of_ne hq (by intro h; apply hp1; linarith)
      rw [M.ln_binomial_eq n k hk, hun, hq1, Real.exp_add, Real.exp_add,
        Real.exp_log (by exact_mod_cast Nat.choose_pos hk), Real.rpow_def_of_pos hppos,
        Real.rpow_def_of_pos hqpos]
      simp only [Int.cast_natCast]
      rw [mul_comm (Real.log p), mul_comm (Real.log (1 - p))]
      ring

example : @Spec.MultinomialSpec Spec.sfWitnessMultinomial := Spec.multinomialSpec_witness
example : ∃ (p q : ℝ) (n k : ℕ), 0 ≤ p ∧ 0 ≤ q ∧ p + q = 1 ∧ k ≤ n :=
  ⟨0.3, 0.7, 5, 2, by norm_num, by norm_num, by norm_num, by norm_num⟩

end real
end Statrs.Props.C19
