/-
  C19 — Multinomial masses sum to 1 over ALL count vectors (the multinomial theorem).
  rel(`Spec.MultinomialSpec`): `SF.multinomial` is the multinomial coefficient.
  The count vectors with total `n` over `K` categories are Mathlib's
  `Finset.piAntidiag (Finset.univ : Finset (Fin K)) n` (all `k : Fin K → ℕ` with `Σ k = n`).
-/
import Statrs.Props.C19.MultinomialRel
import Mathlib.Algebra.BigOperators.Fin
import Mathlib.Algebra.Order.Antidiag.Pi
set_option linter.unusedSectionVars false
set_option linter.unusedVariables false
namespace Statrs.Props.C19
open Statrs Statrs.Gen Statrs.Model Statrs.Lemmas.Multivariate

theorem zip_ofFn_right {β γ : Type} (l : List β) (g : Fin l.length → γ) :
    List.zip l (List.ofFn g) = List.ofFn (fun i => (l.get i, g i)) := by
  apply List.ext_getElem
  · simp
  · intro i h1 h2
    simp

/-- `List.multinomial` of a tabulated list is `Nat.multinomial` over `Fin K`. -/
theorem list_multinomial_ofFn (K : ℕ) (k : Fin K → ℕ) :
    List.multinomial (List.ofFn k) = Nat.multinomial Finset.univ k := by
  have key : ∀ l : List ℕ, (l.map Nat.factorial).prod * l.multinomial = (l.sum).factorial := by
    intro l
    induction l with
    | nil =>
      have h0 : List.multinomial [] = 1 := Multiset.multinomial_zero
      simp [h0]
    | cons x t ih =>
      rw [List.map_cons, List.prod_cons, List.multinomial_cons, List.sum_cons]
      calc x.factorial * (t.map Nat.factorial).prod * ((x + t.sum).choose x * t.multinomial)
          = (x + t.sum).choose x * x.factorial * ((t.map Nat.factorial).prod * t.multinomial) := by ring
        _ = (x + t.sum).choose x * x.factorial * t.sum.factorial := by rw [ih]
        _ = (x + t.sum).factorial := by
          rw [add_comm x t.sum]
          have := Nat.add_choose_mul_factorial_mul_factorial t.sum x
          rw [← this]; ring
  have h1 := key (List.ofFn k)
  rw [List.map_ofFn, List.prod_ofFn, List.sum_ofFn] at h1
  have h2 := Nat.multinomial_spec (s := (Finset.univ : Finset (Fin K))) (f := k)
  have hpos : 0 < ∏ i : Fin K, (k i).factorial := Finset.prod_pos (fun i _ => Nat.factorial_pos _)
  exact Nat.eq_of_mul_eq_mul_left hpos (by simpa [Function.comp_def] using h1.trans h2.symm)

section real
variable [SF ℝ]

/-- rel(`Spec.MultinomialSpec`): for every stored probability vector that sums to 1 (what `new`
    produces: `multinomial_new_normalised`) and every number of trials `n`, the masses of ALL count
    vectors `k` with `Σ k = n` add up to 1. -/
theorem multinomial_pmf_sum_one_rel (M : Spec.MultinomialSpec) (d : Multinomial ℝ) (n : ℕ)
    (hn : d.f_n = (n : ℤ)) (hs : d.f_p.sum = 1) :
    ∑ k ∈ Finset.piAntidiag (Finset.univ : Finset (Fin d.f_p.length)) n,
      Multinomial.pmf d (List.ofFn (fun i => ((k i : ℕ) : ℤ))) = 1 := by
  have hterm : ∀ k ∈ Finset.piAntidiag (Finset.univ : Finset (Fin d.f_p.length)) n,
      Multinomial.pmf d (List.ofFn (fun i => ((k i : ℕ) : ℤ))) =
        (Nat.multinomial Finset.univ k : ℝ) * ∏ i, (d.f_p.get i) ^ (k i) := by
    intro k hk
    have hksum : ∑ i, k i = n := (Finset.mem_piAntidiag.mp hk).1
    have hxsum : (List.ofFn (fun i => ((k i : ℕ) : ℤ))).sum = d.f_n := by
      rw [List.sum_ofFn, hn, ← hksum]; push_cast; rfl
    have hxnn : ∀ xi ∈ List.ofFn (fun i => ((k i : ℕ) : ℤ)), 0 ≤ xi := by
      intro xi hxi
      obtain ⟨i, rfl⟩ := (List.mem_ofFn' _ _).mp hxi
      exact Int.natCast_nonneg _
    rw [(multinomial_pmf_closed d _ (by simp) hxsum).1, ← hxsum, sf_multinomial_of_nonneg M _ hxnn,
      List.map_ofFn, zip_ofFn_right, List.map_ofFn, List.prod_ofFn]
    have : (Int.toNat ∘ fun i => ((k i : ℕ) : ℤ)) = k := by funext i; simp
    rw [this, list_multinomial_ofFn]
    congr 1
    apply Finset.prod_congr rfl
    intro i _
    simp
  rw [Finset.sum_congr rfl hterm, ← Finset.sum_pow_eq_sum_piAntidiag]
  have : ∑ i, d.f_p.get i = d.f_p.sum := by
    conv_rhs => rw [← List.ofFn_get d.f_p]
    rw [List.sum_ofFn]
  rw [this, hs, one_pow]

/-- corollary: on every object built by `new` (any non-negative, not-all-zero, not necessarily
    normalised input `p`, at least two categories) the masses sum to 1. -/
theorem multinomial_new_pmf_sum_one_rel (M : Spec.MultinomialSpec) (p : List ℝ) (n : ℕ) (d : Multinomial ℝ)
    (h : Multinomial.new p (n : ℤ) = .ok d) :
    ∑ k ∈ Finset.piAntidiag (Finset.univ : Finset (Fin d.f_p.length)) n,
      Multinomial.pmf d (List.ofFn (fun i => ((k i : ℕ) : ℤ))) = 1 := by
  obtain ⟨h1, _, _, _, _, _, _, h8⟩ := multinomial_new_normalised p n d h
  exact multinomial_pmf_sum_one_rel M d n h1 h8

end real
end Statrs.Props.C19
