/-
  C20 (float level) — the shaped generators (`InfiniteSquare`, `InfiniteSawtooth`) and `log_spaced` on every
  carrier satisfying `FloatLaws` (+ `ExtraLaws`), instantiated on IEEE `Float`.

  NOTE on the model: these generators are NOT driven by integer counters.  Each embeds an `InfinitePeriodic` whose
  position is the FLOAT `phase + k·step` (`k` a float counter, `step = fl(fl(1/period)/1 · amplitude)`), wrapped by
  `fmod`.  The shaping on top of it is what is analysed here; the schedule itself is not exact over floats
  (see `FloatGeneratorsB.lean` for the kernel-evaluated counterexamples).

    * `square_out_values_float`      — a square wave emits bit-exactly `high_value` or `low_value` (instance of the
                                       ∀α theorem `square_out_values`)
    * `square_out_nn_fl`, `square_out_range_fl` — hence never NaN for non-NaN levels, and inside `[low, high]` for
                                       `low ≤ high` (∀α, only the order laws); Float instances
    * `sawtooth_next_range_fl_rel`, `sawtooth_out_range_fl_rel` — rel(FmodLaws): under the periodic invariant and
                                       finite sample positions, for a finite `low_value`:
                                       `low ≤ out ≤ fl(amplitude + low)`, not NaN.  The upper end is the embedded
                                       AMPLITUDE `height·period/(period−1)`, not `high_value`: the bound `≤ high` is
                                       FALSE on `Float` (`FloatGeneratorsB`).
    * `log_spaced_endpoints_fl`      — for every length ≥ 2: the LAST element is bit-exactly `pow(10, stop_exp)` (the
                                       pin `vec[length−1] = 10f64.powf(stop_exp)`; whatever `pow` is), the FIRST is
                                       `pow(10, e₀)`, `e₀ = start + fl(0)·step`, with `e₀ == start_exp` when the
                                       step is finite.  "Hits the end point" in the code therefore means: the last
                                       point is the same `powf` call a caller would make; the first point is that
                                       call on an exponent IEEE-equal to `start_exp` (possibly `+0` for `−0`).
-/
import Statrs.Props.C20.FloatModulus
import Statrs.Props.C20.GeneratorsWaves
set_option linter.unusedSectionVars false
set_option linter.unusedVariables false
namespace Statrs.Props.C20
open Statrs Statrs.Gen Statrs.Spec Statrs.Spec.Generators

variable {α : Type} [Add α] [Sub α] [Mul α] [Div α] [Neg α] [LT α] [LE α] [BEq α]
  [DecidableLT α] [DecidableLE α] [OfScientific α] [Inhabited α] [RFun α]

/-! ### `InfiniteSquare` -/

/-- full(∀α): a square wave whose two levels are not NaN never emits a NaN (any state, any index) -/
theorem square_out_nn_fl (s : InfiniteSquare α) (hh : NN s.f_high_value) (hl : NN s.f_low_value) (n : ℕ) :
    ∃ x, out InfiniteSquare.next s n = some x ∧ NN x := by
  obtain ⟨x, hx⟩ := square_out_isSome s n
  refine ⟨x, hx, ?_⟩
  rcases square_out_values s n x hx with h | h <;> rw [h] <;> assumption

/-- full(∀α, FloatLaws): for `low_value ≤ high_value` every sample lies in `[low_value, high_value]`
    (any state, any index; only reflexivity of `≤` on non-NaN values is used) -/
theorem square_out_range_fl (L : FloatLaws α) (s : InfiniteSquare α) (hlh : s.f_low_value ≤ s.f_high_value) (n : ℕ) :
    ∃ x, out InfiniteSquare.next s n = some x ∧ s.f_low_value ≤ x ∧ x ≤ s.f_high_value := by
  obtain ⟨x, hx⟩ := square_out_isSome s n
  refine ⟨x, hx, ?_⟩
  rcases square_out_values s n x hx with h | h <;> rw [h]
  · exact ⟨hlh, L.le_rfl' (L.le_nnr hlh)⟩
  · exact ⟨L.le_rfl' (L.le_nnl hlh), hlh⟩

/-- full(Float): on `f64` a square wave emits bit-exactly one of its two levels -/
theorem square_out_values_float (s : InfiniteSquare Float) (n : ℕ) (x : Float)
    (h : out InfiniteSquare.next s n = some x) : x = s.f_high_value ∨ x = s.f_low_value :=
  square_out_values s n x h

open Statrs.Props.Common in
/-- full(Float): on `f64`, `low ≤ high ⇒` every sample of a square wave is in `[low, high]` -/
theorem square_out_range_float (s : InfiniteSquare Float) (hlh : s.f_low_value ≤ s.f_high_value) (n : ℕ) :
    ∃ x, out InfiniteSquare.next s n = some x ∧ s.f_low_value ≤ x ∧ x ≤ s.f_high_value :=
  square_out_range_fl floatLaws_float s hlh n

/-- full(∀α): for the constructed square wave the levels are the constructor arguments -/
theorem square_new_out_values (high_duration low_duration : Int) (high_value low_value : α) (delay : Int) (n : ℕ)
    (x : α) (h : out InfiniteSquare.next
      (InfiniteSquare.new high_duration low_duration high_value low_value delay) n = some x) :
    x = high_value ∨ x = low_value :=
  square_out_values _ n x h

/-! ### `InfiniteSawtooth` -/

section laws
variable (L : FloatLaws α) (E : ExtraLaws α) (F : FmodLaws α)
include L E F

omit F in
/-- full(∀α, FloatLaws): `0 ≤ x < A`, `A` and `low` finite ⇒ `low ≤ x + low ≤ A + low`, and `x + low` is not NaN -/
theorem add_low_range {x A low : α} (hA : Spec.Fin A) (hl : Spec.Fin low) (h0 : (0.0 : α) ≤ x) (h1 : x < A) :
    NN (x + low) ∧ low ≤ x + low ∧ x + low ≤ A + low := by
  have hxf : Spec.Fin x := E.fin_of_between L L.zero_fin hA h0 (L.lt_le h1)
  have n1 : NN (x + low) := L.add_nn (L.fin_nn' hxf) (L.fin_nn' hl) (Or.inl hxf)
  have n2 : NN (A + low) := L.add_nn (L.fin_nn' hA) (L.fin_nn' hl) (Or.inl hA)
  have n0 : NN ((0.0 : α) + low) := L.add_nn L.zero_nn (L.fin_nn' hl) (Or.inr hl)
  refine ⟨n1, ?_, L.mono.add_le_add_right _ _ low (L.lt_le h1) n1 n2⟩
  exact L.le_of_beq_of_le (L.beq_symm (L.exact.zero_add low (L.fin_nn' hl)))
    (L.mono.add_le_add_right _ _ low h0 n0 n1)

/-- rel(FmodLaws): one call of `InfiniteSawtooth::next` under the periodic invariant, with a finite sample position
    and a finite `low_value`: the sample is not NaN and lies in `[low_value, fl(amplitude + low_value)]` -/
theorem sawtooth_next_range_fl_rel (s : InfiniteSawtooth α) (inv : PeriodicInv s.f_periodic)
    (hl : Spec.Fin s.f_low_value)
    (hx : Spec.Fin (s.f_periodic.f_phase + s.f_periodic.f_k * s.f_periodic.f_step)) :
    ∃ y, (InfiniteSawtooth.next s).1 = some y ∧ NN y ∧ s.f_low_value ≤ y ∧
      y ≤ s.f_periodic.f_amplitude + s.f_low_value := by
  obtain ⟨⟨x, hx1, h0, h1⟩, _⟩ := periodic_next_range_fl_rel L E F s.f_periodic inv hx
  refine ⟨x + s.f_low_value, by rw [sawtooth_next_eq, hx1]; rfl, ?_⟩
  exact add_low_range L E inv.amp_fin hl h0 h1

/-- rel(FmodLaws): every sample of a sawtooth whose embedded generator satisfies the periodic invariant is not NaN
    and lies in `[low_value, fl(amplitude + low_value)]`, as long as the sample positions stay finite -/
theorem sawtooth_out_range_fl_rel (s : InfiniteSawtooth α) (inv : PeriodicInv s.f_periodic)
    (hl : Spec.Fin s.f_low_value) (n : ℕ)
    (hfin : ∀ j ≤ n, Spec.Fin ((stateN InfinitePeriodic.next s.f_periodic j).f_phase +
      (stateN InfinitePeriodic.next s.f_periodic j).f_k * (stateN InfinitePeriodic.next s.f_periodic j).f_step)) :
    ∃ y, out InfiniteSawtooth.next s n = some y ∧ NN y ∧ s.f_low_value ≤ y ∧
      y ≤ s.f_periodic.f_amplitude + s.f_low_value := by
  obtain ⟨x, hx1, h0, h1⟩ := periodic_out_range_fl_rel L E F s.f_periodic inv n hfin
  refine ⟨x + s.f_low_value, by rw [sawtooth_out_eq_map, hx1]; rfl, ?_⟩
  exact add_low_range L E inv.amp_fin hl h0 h1

end laws

open Statrs.Props.Common in
/-- rel(FmodLaws Float): on `f64`, sawtooth samples are not NaN and in `[low_value, fl(amplitude + low_value)]`
    while the sample positions stay finite -/
theorem sawtooth_out_range_float_rel (F : FmodLaws Float) (s : InfiniteSawtooth Float)
    (inv : PeriodicInv s.f_periodic) (hl : Spec.Fin s.f_low_value) (n : ℕ)
    (hfin : ∀ j ≤ n, Spec.Fin ((stateN InfinitePeriodic.next s.f_periodic j).f_phase +
      (stateN InfinitePeriodic.next s.f_periodic j).f_k * (stateN InfinitePeriodic.next s.f_periodic j).f_step)) :
    ∃ y, out InfiniteSawtooth.next s n = some y ∧ NN y ∧ s.f_low_value ≤ y ∧
      y ≤ s.f_periodic.f_amplitude + s.f_low_value :=
  sawtooth_out_range_fl_rel floatLaws_float extraLaws_float F s inv hl n hfin

/-- non-vacuity: the state of the doc example `InfiniteSawtooth::new(5, 1.0, -1.0, 0)` after construction
    (amplitude `2·5/4 = 2.5`, step `0.5`) satisfies the hypotheses -/
example : PeriodicInv ({ f_amplitude := 2.5, f_step := 0.5, f_phase := 0.0, f_k := 0.0 } : InfinitePeriodic Float) ∧
    Spec.Fin (-1.0 : Float) :=
  ⟨⟨by decide, by decide, by decide, by decide, by decide, by decide⟩, by decide⟩

/-! ### `log_spaced` -/

/-- full(∀α, FloatLaws): both end points of `log_spaced(n, start, stop)` for every length `n ≥ 2`.  The LAST element
    is bit-exactly the value of the call `pow(10, stop)` (explicit pin in the code, independent of the step and of
    what `pow` computes); the FIRST is `pow(10, e₀)` with `e₀ = start + fl(0)·step`, and `e₀ == start` (IEEE
    equality) when `start` is not NaN and the step `(stop − start)/(n − 1)` is finite. -/
theorem log_spaced_endpoints_fl (L : FloatLaws α) (E : ExtraLaws α) (n : Int) (hn : 2 ≤ n) (s e : α) (hs : NN s)
    (hstep : Spec.Fin ((e - s) / (RFun.ofInt (n - 1) : α))) :
    (R.generate.log_spaced n s e)[n.toNat - 1]? = some (RFun.pow (10.0 : α) e) ∧
    (R.generate.log_spaced n s e)[0]? =
      some (RFun.pow (10.0 : α) (s + (RFun.ofInt (0 : Int) : α) * ((e - s) / (RFun.ofInt (n - 1) : α)))) ∧
    ((s + (RFun.ofInt (0 : Int) : α) * ((e - s) / (RFun.ofInt (n - 1) : α))) == s) = true :=
  ⟨log_spaced_last n (by omega) s e, log_spaced_first_exp_fl L E n hn s e hs hstep⟩

/-- full(Float): on `f64`, for EVERY length ≥ 1 and all arguments (NaN, ±∞ included) the last element of
    `log_spaced` is bit-exactly `10f64.powf(stop_exp)` -/
theorem log_spaced_last_float (n : Int) (hn : 1 ≤ n) (s e : Float) :
    (R.generate.log_spaced n s e)[n.toNat - 1]? = some (RFun.pow (10.0 : Float) e) :=
  log_spaced_last n hn s e

open Statrs.Props.Common in
/-- full(Float): both end points on `f64` for length ≥ 2, finite step -/
theorem log_spaced_endpoints_float (n : Int) (hn : 2 ≤ n) (s e : Float) (hs : NN s)
    (hstep : Spec.Fin ((e - s) / (RFun.ofInt (n - 1) : Float))) :
    (R.generate.log_spaced n s e)[n.toNat - 1]? = some (RFun.pow (10.0 : Float) e) ∧
    (R.generate.log_spaced n s e)[0]? =
      some (RFun.pow (10.0 : Float) (s + (RFun.ofInt (0 : Int) : Float) * ((e - s) / (RFun.ofInt (n - 1) : Float)))) ∧
    ((s + (RFun.ofInt (0 : Int) : Float) * ((e - s) / (RFun.ofInt (n - 1) : Float))) == s) = true :=
  log_spaced_endpoints_fl floatLaws_float extraLaws_float n hn s e hs hstep

set_option maxRecDepth 100000 in
/-- non-vacuity: `log_spaced(5, 0.0, 4.0)` has a finite step -/
example : NN (0.0 : Float) ∧ Spec.Fin (((4.0 : Float) - 0.0) / (RFun.ofInt (5 - 1) : Float)) := by decide

end Statrs.Props.C20
