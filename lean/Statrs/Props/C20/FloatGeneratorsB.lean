/-
  C20 (float level) — kernel-evaluated COUNTEREXAMPLES on IEEE `Float` to the documented schedule / range of the
  shaped generators.  Over ℝ (`GeneratorsWaves.lean`) sample `n` of `InfiniteSquare/Triangle/Sawtooth::new` is a
  function of the integer phase `(n − delay) mod period`.  In the code the phase is NOT an integer counter: it is
  the float `phase + k·step` of an embedded `InfinitePeriodic`, `step = fl(fl(fl(1/period)/1)·amplitude)`, and
  `fl(1/period)·period` is not `1` for e.g. `period = 49`; the sawtooth amplitude `fl(fl(h·period)/fl(period−1))`
  adds two more roundings, and `fl(fl(high − low) + low) ≠ high` in general.  Consequences (all replayed bit for bit
  on the crate itself, `statrs::generate::Infinite*::new(..).take(..)`; here evaluated by the kernel on `Float`
  with `decide`):

    * `sawtooth_exceeds_high_float_counterexample`  — `InfiniteSawtooth::new(2, 0.3, -0.1, 0)`: sample 1 is
      `0.30000000000000004 > high_value` (the range `[low, high]` is violated by one ulp);
    * `sawtooth_missed_wrap_float_counterexample`   — `InfiniteSawtooth::new(7, 1.0, -1.0, 0)`: sample 7 (integer
      phase 0, documented value `low = −1`) is `1.333333333333333`: `7·step` rounds just BELOW the amplitude, the
      wrap `x >= amplitude` does not fire, and the sample leaves `[−1, 1]` by a third of the height;
    * `sawtooth_top_not_exact_float_counterexample` — `InfiniteSawtooth::new(6, 1.0, -1.0, 0)`: sample 5 (integer
      phase `period − 1`, documented value `high`) is `0.9999999999999998`;
    * `square_schedule_float_counterexample`        — `InfiniteSquare::new(1, 48, hv, lv, 0)`, any levels: sample 1
      is `high_value` although `1 mod 49 = 1 ≥ high_duration` (position `1·fl(fl(1/49)·49) = 0.9999999999999999 < 1`):
      the high phase lasts 2 samples instead of 1;
    * `triangle_peak_not_exact_float_counterexample` — `InfiniteTriangle::new(20, 29, 1.0, -1.0, 0)`: sample 20 (the
      documented peak) is `0.9999999999999998`, not `high_value`.

  The only opaque call on the way is the `fmod` inside `f64::modulus` in `InfinitePeriodic::new` (argument `+0.0`):
  the statements are relative to `FmodZeroLaws Float` (`fmod(+0.0, d) = +0.0` for finite `d > 0`: C11 §F.10.7.1).
  No wrap (`fmod` in `next`) happens before the witnessed sample.
-/
import Statrs.Props.C20.FloatModulus
import Statrs.Props.C20.GeneratorsWaves
set_option linter.unusedVariables false
namespace Statrs.Props.C20
open Statrs Statrs.Gen Statrs.Spec Statrs.Spec.Generators

/-- Premise about the opaque C `fmod`: `fmod(+0.0, d)` is `+0.0` (bit-exact) for a finite `d > 0`
    (C11 Annex F.10.7.1: "fmod(±0, y) returns ±0 for y not zero"). -/
structure FmodZeroLaws (α : Type) [LT α] [OfScientific α] [RFun α] : Prop where
  fmod_zero : ∀ d : α, Spec.Fin d → (0.0 : α) < d → RFun.fmod (0.0 : α) d = (0.0 : α)

set_option maxRecDepth 100000 in
/-- rel(FmodZeroLaws Float): `InfinitePeriodic::new(sr, f, a, 0.0, 0)` starts at phase `+0.0`, `k = 0.0`, when the
    delayed phase `0.0 − fl(0)·step` evaluates to `+0.0` -/
theorem periodic_new_zero_float (Z : FmodZeroLaws Float) (sr f a : Float) (ha : Spec.Fin a) (hpos : (0.0 : Float) < a)
    (harg : (0.0 : Float) - (RFun.ofInt (0 : Int) : Float) * (f / sr * a) = 0.0) :
    InfinitePeriodic.new sr f a (0.0 : Float) 0
      = { f_amplitude := a, f_step := f / sr * a, f_phase := 0.0, f_k := 0.0 } := by
  have h00 : ¬ ((0.0 : Float) < 0.0) := by decide
  unfold InfinitePeriodic.new f64.modulus
  simp only [harg, Z.fmod_zero a ha hpos, h00, false_and, or_self, if_false]

set_option maxRecDepth 100000 in
/-- counterexample (rel FmodZeroLaws Float): `InfiniteSawtooth::new(2, 0.3, -0.1, 0)` — sample 1 is
    `0.30000000000000004`, strictly ABOVE `high_value = 0.3` (over ℝ: `sawtooth_new_out_mem`) -/
theorem sawtooth_exceeds_high_float_counterexample (Z : FmodZeroLaws Float) :
    out InfiniteSawtooth.next (InfiniteSawtooth.new 2 (0.3 : Float) (-0.1) 0) 1 = some (0.30000000000000004 : Float) ∧
    (0.3 : Float) < 0.30000000000000004 := by
  refine ⟨?_, by decide⟩
  unfold InfiniteSawtooth.new
  simp only []
  rw [periodic_new_zero_float Z _ _ _ (by decide) (by decide) (by decide)]
  decide

set_option maxRecDepth 100000 in
/-- counterexample (rel FmodZeroLaws Float): `InfiniteSawtooth::new(7, 1.0, -1.0, 0)` — sample 7 has integer phase
    `7 mod 7 = 0` (documented value `low_value = −1`), but the float position `7·step` is just below the amplitude,
    the wrap is missed and the sample is `1.333333333333333 > high_value = 1` -/
theorem sawtooth_missed_wrap_float_counterexample (Z : FmodZeroLaws Float) :
    out InfiniteSawtooth.next (InfiniteSawtooth.new 7 (1.0 : Float) (-1.0) 0) 7 = some (1.333333333333333 : Float) ∧
    (1.0 : Float) < 1.333333333333333 ∧ iphase 7 0 7 = 0 := by
  refine ⟨?_, by decide, by decide⟩
  unfold InfiniteSawtooth.new
  simp only []
  rw [periodic_new_zero_float Z _ _ _ (by decide) (by decide) (by decide)]
  decide

set_option maxRecDepth 100000 in
/-- counterexample (rel FmodZeroLaws Float): `InfiniteSawtooth::new(6, 1.0, -1.0, 0)` — sample 5 (integer phase
    `period − 1`; over ℝ exactly `high_value`, `sawtooth_new_out_top`) is `0.9999999999999998 < high_value` -/
theorem sawtooth_top_not_exact_float_counterexample (Z : FmodZeroLaws Float) :
    out InfiniteSawtooth.next (InfiniteSawtooth.new 6 (1.0 : Float) (-1.0) 0) 5 = some (0.9999999999999998 : Float) ∧
    (0.9999999999999998 : Float) < 1.0 ∧ iphase 5 0 6 = 6 - 1 := by
  refine ⟨?_, by decide, by decide⟩
  unfold InfiniteSawtooth.new
  simp only []
  rw [periodic_new_zero_float Z _ _ _ (by decide) (by decide) (by decide)]
  decide

set_option maxRecDepth 100000 in
/-- counterexample (rel FmodZeroLaws Float): `InfiniteSquare::new(1, 48, hv, lv, 0)`, ANY levels — sample 1 is
    `high_value` although its integer phase `1 mod 49 = 1` is not below `high_duration = 1` (over ℝ:
    `square_new_out_closed` gives `low_value`): the float position is `0.9999999999999999 < 1.0` -/
theorem square_schedule_float_counterexample (Z : FmodZeroLaws Float) (hv lv : Float) :
    out InfiniteSquare.next (InfiniteSquare.new 1 48 hv lv 0) 1 = some hv ∧ ¬ (iphase 1 0 (1 + 48) < 1) := by
  refine ⟨?_, by decide⟩
  rw [square_out_eq_map]
  show Option.map _ (out InfinitePeriodic.next (InfinitePeriodic.new (1.0 : Float)
    ((1.0 : Float) / (RFun.ofInt (1 + 48) : Float)) (RFun.ofInt (1 + 48) : Float) (0.0 : Float) 0) 1) = _
  rw [periodic_new_zero_float Z _ _ _ (by decide) (by decide) (by decide)]
  have h : out InfinitePeriodic.next (InfinitePeriodic.mk (RFun.ofInt (1 + 48) : Float)
      ((1.0 : Float) / (RFun.ofInt (1 + 48) : Float) / 1.0 * (RFun.ofInt (1 + 48) : Float))
      (0.0 : Float) (0.0 : Float)) 1 = some (0.9999999999999999 : Float) := by decide
  rw [h]
  have hlt : (0.9999999999999999 : Float) < (RFun.ofInt (1 : Int) : Float) := by decide
  simp only [Option.map_some, squareFn, InfiniteSquare.new, if_pos hlt]

set_option maxRecDepth 100000 in
/-- counterexample (rel FmodZeroLaws Float): `InfiniteTriangle::new(20, 29, 1.0, -1.0, 0)` — sample 20 (integer
    phase `raise_duration`: the documented peak `high_value`) is `0.9999999999999998` -/
theorem triangle_peak_not_exact_float_counterexample (Z : FmodZeroLaws Float) :
    out InfiniteTriangle.next (InfiniteTriangle.new 20 29 (1.0 : Float) (-1.0) 0) 20 = some (0.9999999999999998 : Float) ∧
    (0.9999999999999998 : Float) < 1.0 ∧ iphase 20 0 (20 + 29) = 20 := by
  refine ⟨?_, by decide, by decide⟩
  unfold InfiniteTriangle.new
  simp only []
  rw [periodic_new_zero_float Z _ _ _ (by decide) (by decide) (by decide)]
  decide

/-- the schedule violation needs a rounding in `fl(1/period)·period`: for the doc example `period = 3 + 7 = 10` the
    embedded step is exactly `1.0` (kernel-evaluated) -/
example : (1.0 : Float) / (RFun.ofInt (3 + 7) : Float) / 1.0 * (RFun.ofInt (3 + 7) : Float) = 1.0 := by decide

set_option maxRecDepth 1000000 in
/-- full(Float): `49` is the SMALLEST total duration `high_duration + low_duration` for which the step
    `fl(fl(fl(1/D)/1)·D)` of the generator embedded by `InfiniteSquare::new` / `InfiniteTriangle::new` is not exactly
    `1.0` (kernel-evaluated for every `D` in `1..48`, and at `49`) -/
theorem duration_step_exact_below_49 :
    (∀ D : _root_.Fin 49, 0 < D.val →
      (1.0 : Float) / (RFun.ofInt (D.val : Int) : Float) / 1.0 * (RFun.ofInt (D.val : Int) : Float) = 1.0) ∧
    (1.0 : Float) / (RFun.ofInt (49 : Int) : Float) / 1.0 * (RFun.ofInt (49 : Int) : Float) ≠ 1.0 := by
  decide

end Statrs.Props.C20
