/-
  C20 (float level) — `InfiniteSinusoidal` under the standard model of rounding error.

  `Float.sin` is an opaque libm call, so the statement is relative to the premise structure `SinLaws M`
  (one field: a finite `sin` result has magnitude `≤ 1`).  One sample is
  `fl(mean + fl(amplitude · sin(arg)))` — two roundings:

      |out − mean| ≤ (|amplitude|·(1+u) + η)·(1+u) + u·|mean|

  for every finite output (`sinusoidal_next_bound_rel`, `sinusoidal_out_bound_rel`), for EVERY state and every
  sample index (the 1000-sample re-basing only changes the argument of `sin`).  A finite output forces finite
  `mean`, `amplitude` and `sin(arg)`.  Instantiated on `Float` with `stdModel_float`.
-/
import Statrs.Lemmas.FloatStdModelInst
import Statrs.Lemmas.FloatStdModelLemmas
import Statrs.Gen.R_generate
import Statrs.Spec.Generators
set_option linter.unusedSectionVars false
set_option linter.unusedVariables false
namespace Statrs.Props.C20
open Statrs Statrs.Gen Statrs.Spec Statrs.Spec.Generators Statrs.Spec.FloatStd

section
variable {α : Type} [Add α] [Sub α] [Mul α] [Div α] [Neg α] [LT α] [LE α] [BEq α]
  [DecidableLT α] [DecidableLE α] [OfScientific α] [Inhabited α] [RFun α]

/-- Premise about the libm `sin` (opaque in Lean): a finite result has magnitude at most one.  (glibc's `sin` is
    < 1 ulp and never exceeds 1 in magnitude; this is NOT a consequence of IEEE-754.) -/
structure SinLaws (M : StdModel α) : Prop where
  sin_abs_le : ∀ x : α, Spec.Fin (RFun.sin x) → |M.toReal (RFun.sin x)| ≤ 1

variable (M : StdModel α) (S : SinLaws M)
include S

/-- rel(SinLaws): one sample `fl(mean + fl(amplitude·sin(arg)))`, when finite, is within
    `(|amplitude|(1+u) + η)(1+u) + u|mean|` of `mean` -/
theorem sinusoidal_next_bound_rel (s : InfiniteSinusoidal α) (x : α)
    (h : (InfiniteSinusoidal.next s).1 = some x) (hx : Spec.Fin x) :
    |M.toReal x - M.toReal s.f_mean|
      ≤ (|M.toReal s.f_amplitude| * (1 + u) + η) * (1 + u) + u * |M.toReal s.f_mean| := by
  have hx' : x = s.f_mean + s.f_amplitude * RFun.sin (s.f_phase + (RFun.ofInt s.f_i : α) * s.f_step) := by
    have : (InfiniteSinusoidal.next s).1
        = some (s.f_mean + s.f_amplitude * RFun.sin (s.f_phase + (RFun.ofInt s.f_i : α) * s.f_step)) := rfl
    rw [this] at h; exact (Option.some.inj h).symm
  subst hx'
  set w := RFun.sin (s.f_phase + (RFun.ofInt s.f_i : α) * s.f_step) with hw
  obtain ⟨hm, hp⟩ := M.fin_of_add _ _ hx
  obtain ⟨ha, hs⟩ := M.fin_of_mul _ _ hp
  have h1 := S.sin_abs_le _ hs
  obtain ⟨δ, ε, hδ, hε, _, hmul⟩ := M.mul_std _ _ ha hs hp
  obtain ⟨δ', hδ', hadd⟩ := M.add_std _ _ hm hp hx
  have hu := u_pos
  -- magnitude of the rounded product
  have hP : |M.toReal (s.f_amplitude * w)| ≤ |M.toReal s.f_amplitude| * (1 + u) + η := by
    rw [hmul]
    refine (abs_add_le _ _).trans (add_le_add ?_ hε)
    rw [abs_mul, abs_mul]
    have h2 : |M.toReal s.f_amplitude| * |M.toReal w| ≤ |M.toReal s.f_amplitude| :=
      mul_le_of_le_one_right (abs_nonneg _) h1
    exact mul_le_mul h2 (abs_one_add_le hδ) (abs_nonneg _) (abs_nonneg _)
  rw [hadd, show (M.toReal s.f_mean + M.toReal (s.f_amplitude * w)) * (1 + δ') - M.toReal s.f_mean
    = M.toReal (s.f_amplitude * w) * (1 + δ') + δ' * M.toReal s.f_mean by ring]
  refine (abs_add_le _ _).trans (add_le_add ?_ ?_)
  · rw [abs_mul]
    exact mul_le_mul hP (abs_one_add_le hδ') (abs_nonneg _)
      (add_nonneg (mul_nonneg (abs_nonneg _) (by linarith)) η_pos.le)
  · rw [abs_mul]
    exact mul_le_mul_of_nonneg_right hδ' (abs_nonneg _)

omit S in
/-- full(∀α): `mean` and `amplitude` never change -/
theorem sinusoidal_stateN_fields (s : InfiniteSinusoidal α) (n : ℕ) :
    (stateN InfiniteSinusoidal.next s n).f_amplitude = s.f_amplitude ∧
    (stateN InfiniteSinusoidal.next s n).f_mean = s.f_mean := by
  refine stateN_inv InfiniteSinusoidal.next
    (fun t => t.f_amplitude = s.f_amplitude ∧ t.f_mean = s.f_mean) ?_ s ⟨rfl, rfl⟩ n
  rintro t ⟨h1, h2⟩
  by_cases hc : t.f_i + 1 = 1000
  · simp only [InfiniteSinusoidal.next, if_pos hc]; exact ⟨h1, h2⟩
  · simp only [InfiniteSinusoidal.next, if_neg hc]; exact ⟨h1, h2⟩

/-- rel(SinLaws): EVERY sample of EVERY state, when finite, is within `(|amplitude|(1+u) + η)(1+u) + u|mean|` of
    `mean` (no hypothesis on phase, step or the sample index) -/
theorem sinusoidal_out_bound_rel (s : InfiniteSinusoidal α) (n : ℕ) (x : α)
    (h : out InfiniteSinusoidal.next s n = some x) (hx : Spec.Fin x) :
    |M.toReal x - M.toReal s.f_mean|
      ≤ (|M.toReal s.f_amplitude| * (1 + u) + η) * (1 + u) + u * |M.toReal s.f_mean| := by
  have := sinusoidal_next_bound_rel M S (stateN InfiniteSinusoidal.next s n) x h hx
  rwa [(sinusoidal_stateN_fields s n).1, (sinusoidal_stateN_fields s n).2] at this

/-- rel(SinLaws): the same for the constructed generator: within the bound of the `mean` / `amplitude` arguments -/
theorem sinusoidal_new_out_bound_rel (sampling_rate frequency amplitude mean phase : α) (delay : Int) (n : ℕ) (x : α)
    (h : out InfiniteSinusoidal.next
      (InfiniteSinusoidal.new sampling_rate frequency amplitude mean phase delay) n = some x) (hx : Spec.Fin x) :
    |M.toReal x - M.toReal mean| ≤ (|M.toReal amplitude| * (1 + u) + η) * (1 + u) + u * |M.toReal mean| :=
  sinusoidal_out_bound_rel M S _ n x h hx

end

/-- non-vacuity: over ℝ (error-free standard model) the premise holds -/
example : SinLaws stdModel_real := ⟨fun x _ => Real.abs_sin_le_one x⟩

open Statrs.Lemmas.FloatModel in
/-- rel(SinLaws stdModel_float): on `f64`, every finite sample of `InfiniteSinusoidal` is within
    `(|amplitude|(1+u) + η)(1+u) + u|mean|` of `mean`, `u = 2⁻⁵³`, `η = 2⁻¹⁰⁷⁵` -/
theorem sinusoidal_out_bound_float_rel (S : SinLaws stdModel_float) (s : InfiniteSinusoidal Float) (n : ℕ)
    (x : Float) (h : out InfiniteSinusoidal.next s n = some x) (hx : Spec.Fin x) :
    |stdModel_float.toReal x - stdModel_float.toReal s.f_mean|
      ≤ (|stdModel_float.toReal s.f_amplitude| * (1 + u) + η) * (1 + u) + u * |stdModel_float.toReal s.f_mean| :=
  sinusoidal_out_bound_rel stdModel_float S s n x h hx

end Statrs.Props.C20
