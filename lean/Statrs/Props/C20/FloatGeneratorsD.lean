/-
  C20 (float level) — `InfiniteTriangle` on every carrier satisfying `FloatLaws` + `ExtraLaws`, relative to `FmodLaws`.

  One sample is `low + x·raise` on the raise (`x < raise_duration`) and `high − (x − raise_duration)·fall` on the fall,
  `x ∈ [0, amplitude)` the sample of the embedded `InfinitePeriodic`.  The MONOTONE laws give, for finite levels and
  finite non-negative slopes,
      raise branch:  not NaN,  `low_value ≤ out`
      fall  branch:  not NaN,  `out ≤ high_value`
  (`triangleFn_halfrange`, `triangle_out_range_fl_partial`).  The two missing halves (`out ≤ high` on the
  raise, `low ≤ out` on the fall) are NOT order facts: they need `x·fl(h/R) ≤ h`, an error analysis with a bound on
  the durations; and the peak is not hit exactly on `Float` (`triangle_peak_not_exact_float_counterexample`).
  `triangle_new_slopes_fl`: the slopes stored by `new` are finite and `≥ 0` for finite `low ≤ high` and durations
  in `[1, 2^64]`.
-/
import Statrs.Props.C20.FloatModulus
import Statrs.Props.C20.GeneratorsWaves
set_option linter.unusedSectionVars false
set_option linter.unusedVariables false
namespace Statrs.Props.C20
open Statrs Statrs.Gen Statrs.Spec Statrs.Spec.Generators

variable {α : Type} [Add α] [Sub α] [Mul α] [Div α] [Neg α] [LT α] [LE α] [BEq α]
  [DecidableLT α] [DecidableLE α] [OfScientific α] [Inhabited α] [RFun α]

section laws
variable (L : FloatLaws α) (E : ExtraLaws α) (F : FmodLaws α)
include L E

/-- full(∀α, FloatLaws): the shaping function of the triangle wave at a finite `x ≥ 0`, for finite levels, a finite
    `raise_duration ≥ 0` and finite non-negative slopes: never NaN; `≥ low_value` on the raise, `≤ high_value` on the fall -/
theorem triangleFn_halfrange (s : InfiniteTriangle α) (x : α) (hxf : Spec.Fin x) (hx0 : (0.0 : α) ≤ x)
    (hlo : Spec.Fin s.f_low_value) (hhi : Spec.Fin s.f_high_value) (hR : Spec.Fin s.f_raise_duration)
    (hR0 : (0.0 : α) ≤ s.f_raise_duration)
    (hr : Spec.Fin s.f_raise) (hr0 : (0.0 : α) ≤ s.f_raise) (hf : Spec.Fin s.f_fall) (hf0 : (0.0 : α) ≤ s.f_fall) :
    NN (triangleFn s x) ∧ (x < s.f_raise_duration → s.f_low_value ≤ triangleFn s x) ∧
      (¬ x < s.f_raise_duration → triangleFn s x ≤ s.f_high_value) := by
  unfold triangleFn
  split_ifs with hc
  · have np : NN (x * s.f_raise) := L.mul_nn hxf hr
    have hp : (0.0 : α) ≤ x * s.f_raise := L.mul_nonneg hx0 hr0 (Or.inl hxf) np
    exact ⟨L.add_nn (L.fin_nn' hlo) np (Or.inl hlo), fun _ => L.le_add_of_nonneg hlo hp, fun h => absurd hc h⟩
  · have hRx : s.f_raise_duration ≤ x := L.le_of_not_lt (L.fin_nn' hxf) (L.fin_nn' hR) hc
    have hd0 : (0.0 : α) ≤ x - s.f_raise_duration := L.sub_nonneg_of_le hR hRx
    -- `x − R ≤ x − 0 == x`, hence finite
    have nd : NN (x - s.f_raise_duration) := L.le_nnr hd0
    have hz : ((x - (0.0 : α)) == x) = true := L.exact.sub_zero x (L.fin_nn' hxf)
    have hdx : x - s.f_raise_duration ≤ x :=
      L.le_of_le_of_beq (L.mono.sub_le_sub_left _ _ x hR0 (L.beq_nnl hz) nd) hz
    have hdf : Spec.Fin (x - s.f_raise_duration) := E.fin_of_between L L.zero_fin hxf hd0 hdx
    have np : NN ((x - s.f_raise_duration) * s.f_fall) := L.mul_nn hdf hf
    have hp : (0.0 : α) ≤ (x - s.f_raise_duration) * s.f_fall := L.mul_nonneg hd0 hf0 (Or.inl hdf) np
    have ny : NN (s.f_high_value - (x - s.f_raise_duration) * s.f_fall) :=
      L.sub_nn (L.fin_nn' hhi) np (Or.inl hhi)
    have hz2 : ((s.f_high_value - (0.0 : α)) == s.f_high_value) = true := L.exact.sub_zero _ (L.fin_nn' hhi)
    exact ⟨ny, fun h => absurd h hc, fun _ =>
      L.le_of_le_of_beq (L.mono.sub_le_sub_left _ _ s.f_high_value hp (L.beq_nnl hz2) ny) hz2⟩

include F

/-- partial(upper bound on the raise / lower bound on the fall need an error analysis), rel(FmodLaws): every sample
    of a triangle wave whose embedded generator satisfies the periodic invariant (finite sample positions), with
    finite levels, finite `raise_duration ≥ 0` and finite non-negative slopes: never NaN; `low_value ≤ out` while
    the embedded sample is below `raise_duration`, `out ≤ high_value` otherwise -/
theorem triangle_out_range_fl_partial (s : InfiniteTriangle α) (inv : PeriodicInv s.f_periodic)
    (hlo : Spec.Fin s.f_low_value) (hhi : Spec.Fin s.f_high_value) (hR : Spec.Fin s.f_raise_duration)
    (hR0 : (0.0 : α) ≤ s.f_raise_duration)
    (hr : Spec.Fin s.f_raise) (hr0 : (0.0 : α) ≤ s.f_raise) (hf : Spec.Fin s.f_fall) (hf0 : (0.0 : α) ≤ s.f_fall)
    (n : ℕ)
    (hfin : ∀ j ≤ n, Spec.Fin ((stateN InfinitePeriodic.next s.f_periodic j).f_phase +
      (stateN InfinitePeriodic.next s.f_periodic j).f_k * (stateN InfinitePeriodic.next s.f_periodic j).f_step)) :
    ∃ x y, out InfinitePeriodic.next s.f_periodic n = some x ∧ out InfiniteTriangle.next s n = some y ∧ NN y ∧
      (x < s.f_raise_duration → s.f_low_value ≤ y) ∧ (¬ x < s.f_raise_duration → y ≤ s.f_high_value) := by
  obtain ⟨x, hx1, h0, h1⟩ := periodic_out_range_fl_rel L E F s.f_periodic inv n hfin
  have hxf : Spec.Fin x := E.fin_of_between L L.zero_fin inv.amp_fin h0 (L.lt_le h1)
  exact ⟨x, triangleFn s x, hx1, by rw [triangle_out_eq_map, hx1]; rfl,
    triangleFn_halfrange L E s x hxf h0 hlo hhi hR hR0 hr hr0 hf hf0⟩

omit F in
/-- full(∀α, FloatLaws): the fields stored by `InfiniteTriangle::new` for finite `low_value ≤ high_value` with a
    finite difference and durations in `[1, 2^64]`: `raise_duration` finite and positive, both slopes finite
    and `≥ 0` -/
theorem triangle_new_slopes_fl (raise_duration fall_duration : Int) (high_value low_value : α) (delay : Int)
    (hrd : 1 ≤ raise_duration) (hrd' : raise_duration ≤ 2 ^ 64) (hfd : 1 ≤ fall_duration) (hfd' : fall_duration ≤ 2 ^ 64)
    (hlo : Spec.Fin low_value) (hlh : low_value ≤ high_value) (hh : Spec.Fin (high_value - low_value)) :
    let s := InfiniteTriangle.new raise_duration fall_duration high_value low_value delay
    Spec.Fin s.f_raise_duration ∧ (0.0 : α) < s.f_raise_duration ∧
    Spec.Fin s.f_raise ∧ (0.0 : α) ≤ s.f_raise ∧ Spec.Fin s.f_fall ∧ (0.0 : α) ≤ s.f_fall := by
  have hh0 : (0.0 : α) ≤ high_value - low_value := L.sub_nonneg_of_le hlo hlh
  -- `1 ≤ ofInt d` for `1 ≤ d ≤ 2^64`
  have key : ∀ d : Int, 1 ≤ d → d ≤ 2 ^ 64 →
      Spec.Fin (RFun.ofInt d : α) ∧ (1.0 : α) ≤ (RFun.ofInt d : α) ∧ (0.0 : α) < (RFun.ofInt d : α) ∧
      Spec.Fin ((high_value - low_value) / (RFun.ofInt d : α)) ∧
      (0.0 : α) ≤ (high_value - low_value) / (RFun.ofInt d : α) := by
    intro d h1 h2
    have hf : Spec.Fin (RFun.ofInt d : α) := L.ofInt.ofInt_fin d (by omega) h2
    have h1le : (1.0 : α) ≤ (RFun.ofInt d : α) :=
      L.le_of_beq_of_le (L.beq_symm L.ofInt.ofInt_one) (L.ofInt.ofInt_mono 1 d (by norm_num) h1 h2)
    have hpos : (0.0 : α) < (RFun.ofInt d : α) := L.lt_of_lt_of_le' L.zero_lt_one h1le
    have hq0 := L.div_nonneg hh0 hpos (Or.inl hh)
    have hz : (((high_value - low_value) / (1.0 : α)) == (high_value - low_value)) = true :=
      L.exact.div_one _ (L.fin_nn' hh)
    have hq1 : (high_value - low_value) / (RFun.ofInt d : α) ≤ high_value - low_value :=
      L.le_of_le_of_beq
        (L.mono.div_le_div_left _ _ _ L.zero_lt_one h1le hh0 (L.beq_nnl hz) (L.le_nnr hq0)) hz
    exact ⟨hf, h1le, hpos, E.fin_of_between L L.zero_fin hh hq0 hq1, hq0⟩
  obtain ⟨a1, _, a3, a4, a5⟩ := key raise_duration hrd hrd'
  obtain ⟨_, _, _, b4, b5⟩ := key fall_duration hfd hfd'
  exact ⟨a1, a3, a4, a5, b4, b5⟩

end laws

open Statrs.Props.Common in
/-- partial(see `triangle_out_range_fl_partial`), rel(FmodLaws Float): the same on `f64` -/
theorem triangle_out_range_float_partial (F : FmodLaws Float) (s : InfiniteTriangle Float)
    (inv : PeriodicInv s.f_periodic)
    (hlo : Spec.Fin s.f_low_value) (hhi : Spec.Fin s.f_high_value) (hR : Spec.Fin s.f_raise_duration)
    (hR0 : (0.0 : Float) ≤ s.f_raise_duration)
    (hr : Spec.Fin s.f_raise) (hr0 : (0.0 : Float) ≤ s.f_raise) (hf : Spec.Fin s.f_fall)
    (hf0 : (0.0 : Float) ≤ s.f_fall) (n : ℕ)
    (hfin : ∀ j ≤ n, Spec.Fin ((stateN InfinitePeriodic.next s.f_periodic j).f_phase +
      (stateN InfinitePeriodic.next s.f_periodic j).f_k * (stateN InfinitePeriodic.next s.f_periodic j).f_step)) :
    ∃ x y, out InfinitePeriodic.next s.f_periodic n = some x ∧ out InfiniteTriangle.next s n = some y ∧ NN y ∧
      (x < s.f_raise_duration → s.f_low_value ≤ y) ∧ (¬ x < s.f_raise_duration → y ≤ s.f_high_value) :=
  triangle_out_range_fl_partial floatLaws_float extraLaws_float F s inv hlo hhi hR hR0 hr hr0 hf hf0 n hfin

open Statrs.Props.Common in
/-- full(Float): slopes stored by `InfiniteTriangle::new` on `f64` -/
theorem triangle_new_slopes_float (raise_duration fall_duration : Int) (high_value low_value : Float) (delay : Int)
    (hrd : 1 ≤ raise_duration) (hrd' : raise_duration ≤ 2 ^ 64) (hfd : 1 ≤ fall_duration) (hfd' : fall_duration ≤ 2 ^ 64)
    (hlo : Spec.Fin low_value) (hlh : low_value ≤ high_value) (hh : Spec.Fin (high_value - low_value)) :
    let s := InfiniteTriangle.new raise_duration fall_duration high_value low_value delay
    Spec.Fin s.f_raise_duration ∧ (0.0 : Float) < s.f_raise_duration ∧
    Spec.Fin s.f_raise ∧ (0.0 : Float) ≤ s.f_raise ∧ Spec.Fin s.f_fall ∧ (0.0 : Float) ≤ s.f_fall :=
  triangle_new_slopes_fl floatLaws_float extraLaws_float raise_duration fall_duration high_value low_value delay
    hrd hrd' hfd hfd' hlo hlh hh

set_option maxRecDepth 100000 in
/-- non-vacuity: the doc example `InfiniteTriangle::new(4, 7, 1.0, -1.0, 1)` satisfies the hypotheses of
    `triangle_new_slopes_float` -/
example : Spec.Fin (-1.0 : Float) ∧ (-1.0 : Float) ≤ 1.0 ∧ Spec.Fin ((1.0 : Float) - (-1.0)) := by decide

end Statrs.Props.C20
