/-
  C20 (float level) — `f64::modulus`, the `InfinitePeriodic` generator and the first point of `log_spaced` on
  EVERY carrier satisfying `FloatLaws` + `ExtraLaws`, relative to `FmodLaws` (the contract of C `fmod`, which is
  EXACT: `fmod x d` has the sign of `x` and magnitude `< |d|`).  `Float.fmod` is an opaque extern in Lean
  (`c/shim.c`), so on `Float` these stay relative to `FmodLaws Float`.

    * `modulus_range_pos_fl_rel` — `d > 0` finite, `x` finite ⇒ `0 ≤ x.modulus(d) < d`, EXACTLY (the branch
      `r + d` cannot round up to `d`: the code tests `s == d` and returns `0.0`);
    * `modulus_range_neg_fl_rel` — `d < 0` finite ⇒ `d < x.modulus(d) ≤ 0`;
    * `periodic_next_range_fl_rel` — one call of `InfinitePeriodic::next` in a state with `0 ≤ phase < amplitude`,
      `0 ≤ k`, `0 ≤ step` returns a value in `[0, amplitude)` and re-establishes the invariant, provided the sample
      position `phase + k·step` is finite; `periodic_out_range_fl_rel` — hence every output is in `[0, amplitude)`
      as long as no sample position overflows;
    * `log_spaced_first_exp_fl` — the first point of `log_spaced(n ≥ 2)` is `10^e₀` with `e₀ == start_exp` when
      the step `(stop − start)/(n − 1)` is finite; when `stop − start` overflows, `e₀` is NaN
      (`log_spaced_overflow_counterexample`, kernel-evaluated on `Float`).
-/
import Statrs.Lemmas.FloatLawsMore
import Statrs.Props.C20.Prec
import Statrs.Gen.R_euclid
import Statrs.Gen.R_generate
import Statrs.Spec.Generators
import Statrs.Props.Common.FloatLawsFloat_Extra
import Statrs.Props.Common.FloatLawsXF
import Statrs.Inst.Float
set_option linter.unusedSectionVars false
set_option linter.unusedVariables false
namespace Statrs.Props.C20
open Statrs Statrs.Gen Statrs.Spec Statrs.Spec.Generators

/-- The contract of C `fmod(x, d)` for a finite `x` and a non-zero, non-NaN `d`: the result is EXACT, has the sign
    of `x` (here: is `≥ 0` for `x ≥ 0`, `≤ 0` for `x ≤ 0`) and magnitude `< |d|`.  (C11 §7.12.10.1; glibc computes
    it exactly.)  A premise structure: `Float.fmod` is an opaque extern. -/
structure FmodLaws (α : Type) [Neg α] [LT α] [LE α] [OfScientific α] [RFun α] : Prop where
  lt_of_pos : ∀ x d : α, Spec.Fin x → Spec.Fin d → (0.0 : α) < d → RFun.fmod x d < d
  gt_of_pos : ∀ x d : α, Spec.Fin x → Spec.Fin d → (0.0 : α) < d → -d < RFun.fmod x d
  lt_of_neg : ∀ x d : α, Spec.Fin x → Spec.Fin d → d < (0.0 : α) → RFun.fmod x d < -d
  gt_of_neg : ∀ x d : α, Spec.Fin x → Spec.Fin d → d < (0.0 : α) → d < RFun.fmod x d
  nonneg : ∀ x d : α, Spec.Fin x → Spec.Fin d → (0.0 : α) ≤ x → (0.0 : α) < d → (0.0 : α) ≤ RFun.fmod x d

variable {α : Type} [Add α] [Sub α] [Mul α] [Div α] [Neg α] [LT α] [LE α] [BEq α]
  [DecidableLT α] [DecidableLE α] [OfScientific α] [Inhabited α] [RFun α]

section laws
variable (L : FloatLaws α) (E : ExtraLaws α) (F : FmodLaws α)
include L E F

omit F in
/-- full(∀α): the negation of a finite value is finite -/
theorem neg_fin {d : α} (h : Spec.Fin d) : Spec.Fin (-d) :=
  L.fin_of (L.neg_nn (L.fin_nn' h)) (by rw [L.nan.neg_inf]; exact L.fin_not_inf h)

/-- rel(FmodLaws): for a finite `x` and a finite `d > 0`, `0 ≤ x.modulus(d) < d` — exactly, for every rounding of
    `r + d` -/
theorem modulus_range_pos_fl_rel (x d : α) (hx : Spec.Fin x) (hd : Spec.Fin d) (hpos : (0.0 : α) < d) :
    (0.0 : α) ≤ f64.modulus x d ∧ f64.modulus x d < d := by
  have h1 := F.lt_of_pos x d hx hd hpos
  have h2 := F.gt_of_pos x d hx hd hpos
  have hr : Spec.Fin (RFun.fmod x d) := E.fin_of_between L (neg_fin L E hd) hd (L.lt_le h2) (L.lt_le h1)
  unfold f64.modulus
  simp only []
  split_ifs with hc hs
  · exact ⟨L.zero_le_zero, hpos⟩
  · -- `s = r + d` with `−d < r < 0`
    have hr0 : RFun.fmod x d < (0.0 : α) := by
      rcases hc with ⟨h, _⟩ | ⟨_, h⟩
      · exact h
      · exact absurd (L.lt_le hpos) (L.lt_not_le h)
    have ns : NN (RFun.fmod x d + d) := L.add_nn (L.fin_nn' hr) (L.fin_nn' hd) (Or.inl hr)
    have n0 : NN (-d + d) := L.add_nn (L.fin_nn' (neg_fin L E hd)) (L.fin_nn' hd) (Or.inr hd)
    have nz : NN ((0.0 : α) + d) := L.add_nn L.zero_nn (L.fin_nn' hd) (Or.inr hd)
    have lo : (0.0 : α) ≤ RFun.fmod x d + d :=
      L.le_of_beq_of_le (L.beq_symm (E.neg_add_self d hd))
        (L.mono.add_le_add_right _ _ d (L.lt_le h2) n0 ns)
    have hi : RFun.fmod x d + d ≤ d :=
      L.le_of_le_of_beq (L.mono.add_le_add_right _ _ d (L.lt_le hr0) ns nz)
        (L.exact.zero_add d (L.fin_nn' hd))
    exact ⟨lo, L.lt_of_le_not_le hi (fun h => hs (L.beq_of_le_le hi h))⟩
  · -- no adjustment: `r ≥ 0`
    have hr0 : ¬ RFun.fmod x d < (0.0 : α) := fun h => hc (Or.inl ⟨h, hpos⟩)
    exact ⟨L.le_of_not_lt (L.fin_nn' hr) L.zero_nn hr0, h1⟩

/-- rel(FmodLaws): for a finite `x` and a finite `d < 0`, `d < x.modulus(d) ≤ 0` -/
theorem modulus_range_neg_fl_rel (x d : α) (hx : Spec.Fin x) (hd : Spec.Fin d) (hneg : d < (0.0 : α)) :
    d < f64.modulus x d ∧ f64.modulus x d ≤ (0.0 : α) := by
  have h1 := F.lt_of_neg x d hx hd hneg
  have h2 := F.gt_of_neg x d hx hd hneg
  have hr : Spec.Fin (RFun.fmod x d) := E.fin_of_between L hd (neg_fin L E hd) (L.lt_le h2) (L.lt_le h1)
  unfold f64.modulus
  simp only []
  split_ifs with hc hs
  · exact ⟨hneg, L.zero_le_zero⟩
  · have hr0 : (0.0 : α) < RFun.fmod x d := by
      rcases hc with ⟨_, h⟩ | ⟨h, _⟩
      · exact absurd (L.lt_le hneg) (L.lt_not_le h)
      · exact h
    have ns : NN (RFun.fmod x d + d) := L.add_nn (L.fin_nn' hr) (L.fin_nn' hd) (Or.inl hr)
    have n0 : NN (-d + d) := L.add_nn (L.fin_nn' (neg_fin L E hd)) (L.fin_nn' hd) (Or.inr hd)
    have nz : NN ((0.0 : α) + d) := L.add_nn L.zero_nn (L.fin_nn' hd) (Or.inr hd)
    have hi : RFun.fmod x d + d ≤ (0.0 : α) :=
      L.le_of_le_of_beq (L.mono.add_le_add_right _ _ d (L.lt_le h1) ns n0) (E.neg_add_self d hd)
    have lo : d ≤ RFun.fmod x d + d :=
      L.le_of_beq_of_le (L.beq_symm (L.exact.zero_add d (L.fin_nn' hd)))
        (L.mono.add_le_add_right _ _ d (L.lt_le hr0) nz ns)
    exact ⟨L.lt_of_le_not_le lo (fun h => hs (L.beq_of_le_le h lo)), hi⟩
  · have hr0 : ¬ (0.0 : α) < RFun.fmod x d := fun h => hc (Or.inr ⟨h, hneg⟩)
    exact ⟨h2, L.le_of_not_lt L.zero_nn (L.fin_nn' hr) hr0⟩

/-! ### `InfinitePeriodic` -/

/-- the state invariant of `InfinitePeriodic` over floats -/
structure PeriodicInv (s : InfinitePeriodic α) : Prop where
  amp_fin : Spec.Fin s.f_amplitude
  amp_pos : (0.0 : α) < s.f_amplitude
  step_nonneg : (0.0 : α) ≤ s.f_step
  phase_nonneg : (0.0 : α) ≤ s.f_phase
  phase_lt : s.f_phase < s.f_amplitude
  k_nonneg : (0.0 : α) ≤ s.f_k

omit F in
/-- full(∀α): `0 ≤ k ⇒ 0 ≤ k + 1.0` -/
theorem succ_nonneg {k : α} (h : (0.0 : α) ≤ k) : (0.0 : α) ≤ k + (1.0 : α) := by
  have hn : NN (k + (1.0 : α)) := E.add_nn_of_nonneg k 1.0 h L.zero_le_one
  have hz := L.exact.zero_add (1.0 : α) L.one_nn
  exact L.le_tr L.zero_le_one
    (L.le_of_beq_of_le (L.beq_symm hz) (L.mono.add_le_add_right _ _ _ h (L.beq_nnl hz) hn))

/-- rel(FmodLaws): one call of `InfinitePeriodic::next` in a state satisfying the invariant, whose sample
    position `phase + k·step` is finite, returns a value in `[0, amplitude)` and re-establishes the invariant
    (amplitude and step are untouched) -/
theorem periodic_next_range_fl_rel (s : InfinitePeriodic α) (inv : PeriodicInv s)
    (hx : Spec.Fin (s.f_phase + s.f_k * s.f_step)) :
    (∃ x, (InfinitePeriodic.next s).1 = some x ∧ (0.0 : α) ≤ x ∧ x < s.f_amplitude) ∧
    PeriodicInv (InfinitePeriodic.next s).2 ∧
    (InfinitePeriodic.next s).2.f_amplitude = s.f_amplitude ∧
    (InfinitePeriodic.next s).2.f_step = s.f_step := by
  -- the sample position is `≥ 0`
  have hprod : NN (s.f_k * s.f_step) := by
    rw [L.nn_iff]; intro h
    have := L.add_nan_right s.f_phase h
    have h' := L.fin_nn' hx; simp [NN, this] at h'
  have hphase_fin : Spec.Fin s.f_phase :=
    E.fin_of_between L L.zero_fin inv.amp_fin inv.phase_nonneg (L.lt_le inv.phase_lt)
  have hp0 : (0.0 : α) ≤ s.f_k * s.f_step := by
    -- `0 == 0·step ≤ k·step` needs a finite factor; otherwise use `0 ≤ k`, `0 ≤ step` directly
    cases hks : RFun.isInf s.f_step with
    | false =>
      exact L.mul_nonneg inv.k_nonneg inv.step_nonneg (Or.inr (L.fin_of (L.le_nnr inv.step_nonneg) hks)) hprod
    | true =>
      cases hkk : RFun.isInf s.f_k with
      | false =>
        exact L.mul_nonneg inv.k_nonneg inv.step_nonneg (Or.inl (L.fin_of (L.le_nnr inv.k_nonneg) hkk)) hprod
      | true =>
        -- both infinite and `≥ 0`: both are `+∞`, the product is `+∞`
        have hk_pos : (0.0 : α) < s.f_k := L.lt_of_le_not_le inv.k_nonneg
          (fun h => L.inf_not_beq_zero E hkk (L.beq_of_le_le h inv.k_nonneg))
        have hst : (s.f_step == (RFun.inf : α)) = true := by
          rcases (E.isInf_iff _).1 hks with h | h
          · exact h
          · exfalso
            have h0 : ((0.0 : α) == (RFun.negInf : α)) = true :=
              L.beq_of_le_le (L.le_tr inv.step_nonneg (L.beq_le h)) (L.negInf_le L.zero_nn)
            have hz : RFun.isInf (0.0 : α) = true := by
              rw [L.isInf_congr E h0]; exact L.inf.negInf_isInf
            have := L.fin_not_inf L.zero_fin (α := α); rw [hz] at this; cases this
        have e1 := L.exact.mul_congr s.f_k s.f_k s.f_step _ (L.beq_rfl' (L.le_nnr inv.k_nonneg)) hst hprod
        have e2 := L.beq_tr e1 (E.mul_inf_of_pos _ hk_pos)
        exact L.le_of_le_of_beq (L.le_inf L.zero_nn) (L.beq_symm e2)
  have hx0 : (0.0 : α) ≤ s.f_phase + s.f_k * s.f_step :=
    L.le_tr inv.phase_nonneg (L.le_add_of_nonneg hphase_fin hp0)
  have hk1 : (0.0 : α) ≤ s.f_k + (1.0 : α) := succ_nonneg L E inv.k_nonneg
  have h01 : (0.0 : α) ≤ (0.0 : α) + (1.0 : α) := succ_nonneg L E L.zero_le_zero
  unfold InfinitePeriodic.next
  simp only []
  split_ifs with hwrap
  · -- wrap: `x = fmod(position, amplitude)`
    have f1 := F.lt_of_pos _ _ hx inv.amp_fin inv.amp_pos
    have f2 := F.nonneg _ _ hx inv.amp_fin hx0 inv.amp_pos
    exact ⟨⟨_, rfl, f2, f1⟩, ⟨inv.amp_fin, inv.amp_pos, inv.step_nonneg, f2, f1, h01⟩, rfl, rfl⟩
  · have hlt : s.f_phase + s.f_k * s.f_step < s.f_amplitude :=
      L.lt_of_not_le (L.fin_nn' hx) (L.fin_nn' inv.amp_fin) hwrap
    exact ⟨⟨_, rfl, hx0, hlt⟩, ⟨inv.amp_fin, inv.amp_pos, inv.step_nonneg, inv.phase_nonneg, inv.phase_lt, hk1⟩,
      rfl, rfl⟩

/-- rel(FmodLaws): starting from a state satisfying the invariant, the output of call number `n` lies in
    `[0, amplitude)`, as long as the sample positions of calls `0..n` are finite -/
theorem periodic_out_range_fl_rel (s : InfinitePeriodic α) (inv : PeriodicInv s) (n : ℕ)
    (hfin : ∀ j ≤ n, Spec.Fin ((stateN InfinitePeriodic.next s j).f_phase +
      (stateN InfinitePeriodic.next s j).f_k * (stateN InfinitePeriodic.next s j).f_step)) :
    ∃ x, out InfinitePeriodic.next s n = some x ∧ (0.0 : α) ≤ x ∧ x < s.f_amplitude := by
  induction n generalizing s with
  | zero =>
    exact (periodic_next_range_fl_rel L E F s inv (hfin 0 le_rfl)).1
  | succ n ih =>
    obtain ⟨_, inv', ha, _⟩ := periodic_next_range_fl_rel L E F s inv (hfin 0 (Nat.zero_le _))
    have := ih (InfinitePeriodic.next s).2 inv' (fun j hj => by
      have := hfin (j + 1) (by omega)
      simpa [stateN] using this)
    rw [ha] at this
    simpa [out, stateN] using this

end laws

/-! ### `log_spaced`: the first point -/

section logspaced
variable (L : FloatLaws α) (E : ExtraLaws α)
include L E

/-- full(∀α): for `n ≥ 2` the first point of `log_spaced(n, start, stop)` is `10^e₀` with
    `e₀ = start + (0 as f64)·step`, and `e₀ == start` whenever the step `(stop − start)/(n − 1)` is finite -/
theorem log_spaced_first_exp_fl (n : Int) (hn : 2 ≤ n) (s e : α) (hs : NN s)
    (hstep : Spec.Fin ((e - s) / (RFun.ofInt (n - 1) : α))) :
    (R.generate.log_spaced n s e)[0]? =
      some (RFun.pow (10.0 : α) (s + (RFun.ofInt (0 : Int) : α) * ((e - s) / (RFun.ofInt (n - 1) : α)))) ∧
    ((s + (RFun.ofInt (0 : Int) : α) * ((e - s) / (RFun.ofInt (n - 1) : α))) == s) = true := by
  refine ⟨by simpa using log_spaced_get n hn s e 0 (by omega), ?_⟩
  have h0 := L.ofInt.ofInt_zero (α := α)
  have hf0 : Spec.Fin (RFun.ofInt (0 : Int) : α) := L.ofInt.ofInt_fin 0 (by norm_num) (by norm_num)
  have np : NN ((RFun.ofInt (0 : Int) : α) * ((e - s) / (RFun.ofInt (n - 1) : α))) := L.mul_nn hf0 hstep
  have e1 : (((RFun.ofInt (0 : Int) : α) * ((e - s) / (RFun.ofInt (n - 1) : α))) == (0.0 : α)) = true :=
    L.beq_tr (L.exact.mul_congr _ _ _ _ h0 (L.beq_rfl' (L.fin_nn' hstep)) np) (L.exact.zero_mul _ hstep)
  have ns : NN (s + (RFun.ofInt (0 : Int) : α) * ((e - s) / (RFun.ofInt (n - 1) : α))) := by
    rw [L.nn_iff]; intro h
    rcases L.nan.add_nan _ _ h with h1 | h1 | ⟨_, h2⟩
    · simp [NN, h1] at hs
    · simp [NN, h1] at np
    · exact L.inf_not_beq_zero E h2 e1
  exact L.beq_tr (L.exact.add_congr _ _ _ _ (L.beq_rfl' hs) e1 ns) (L.exact.add_zero s hs)

end logspaced

/-! ### `Float` -/

open Statrs.Props.Common in
/-- rel(FmodLaws Float) on `f64`: `0 ≤ x.modulus(d) < d` for finite `x`, finite `d > 0` -/
theorem modulus_range_pos_float_rel (F : FmodLaws Float) (x d : Float) (hx : Spec.Fin x) (hd : Spec.Fin d)
    (hpos : (0.0 : Float) < d) : (0.0 : Float) ≤ f64.modulus x d ∧ f64.modulus x d < d :=
  modulus_range_pos_fl_rel floatLaws_float extraLaws_float F x d hx hd hpos

open Statrs.Props.Common in
/-- rel(FmodLaws Float) on `f64`: `d < x.modulus(d) ≤ 0` for finite `x`, finite `d < 0` -/
theorem modulus_range_neg_float_rel (F : FmodLaws Float) (x d : Float) (hx : Spec.Fin x) (hd : Spec.Fin d)
    (hneg : d < (0.0 : Float)) : d < f64.modulus x d ∧ f64.modulus x d ≤ (0.0 : Float) :=
  modulus_range_neg_fl_rel floatLaws_float extraLaws_float F x d hx hd hneg

open Statrs.Props.Common in
/-- rel(FmodLaws Float) on `f64`: every output of `InfinitePeriodic` lies in `[0, amplitude)` while the sample
    positions stay finite -/
theorem periodic_out_range_float_rel (F : FmodLaws Float) (s : InfinitePeriodic Float) (inv : PeriodicInv s)
    (n : ℕ) (hfin : ∀ j ≤ n, Spec.Fin ((stateN InfinitePeriodic.next s j).f_phase +
      (stateN InfinitePeriodic.next s j).f_k * (stateN InfinitePeriodic.next s j).f_step)) :
    ∃ x, out InfinitePeriodic.next s n = some x ∧ (0.0 : Float) ≤ x ∧ x < s.f_amplitude :=
  periodic_out_range_fl_rel floatLaws_float extraLaws_float F s inv n hfin

open Statrs.Props.Common in
/-- full(Float): the first exponent of `log_spaced(n ≥ 2)` is IEEE-equal to `start_exp` when the step is finite -/
theorem log_spaced_first_exp_float (n : Int) (hn : 2 ≤ n) (s e : Float) (hs : NN s)
    (hstep : Spec.Fin ((e - s) / (RFun.ofInt (n - 1) : Float))) :
    ((s + (RFun.ofInt (0 : Int) : Float) * ((e - s) / (RFun.ofInt (n - 1) : Float))) == s) = true :=
  (log_spaced_first_exp_fl floatLaws_float extraLaws_float n hn s e hs hstep).2

set_option maxRecDepth 100000 in
set_option exponentiation.threshold 400 in
/-- counterexample: `log_spaced(3, -1e308, 1e308)`: both exponents are finite, but `stop − start` overflows, the
    step is `+∞`, and the exponent of the FIRST point is `start + 0·∞ = NaN` — the first point is `10^NaN`, not
    `10^start` (over ℝ: `log_spaced_endpoints`) -/
theorem log_spaced_overflow_counterexample :
    RFun.isNaN ((-1e308 : Float) + (RFun.ofInt (0 : Int) : Float) *
      (((1e308 : Float) - (-1e308 : Float)) / (RFun.ofInt (3 - 1) : Float))) = true ∧
    (R.generate.log_spaced 3 (-1e308 : Float) 1e308)[0]? =
      some (RFun.pow (10.0 : Float) ((-1e308 : Float) + (RFun.ofInt (0 : Int) : Float) *
        (((1e308 : Float) - (-1e308 : Float)) / (RFun.ofInt (3 - 1) : Float)))) :=
  ⟨by decide, by simpa using log_spaced_get (α := Float) 3 (by norm_num) (-1e308) 1e308 0 (by norm_num)⟩

/-! ### non-vacuity of `FmodLaws`: the exact-value carrier `XF` with the real truncated remainder -/

open Statrs.Spec.XF Statrs.Lemmas.FunctionLayer in
/-- full(XF): the exact carrier `XF` (real `fmod` on finite values) satisfies `FmodLaws`; together with
    `floatLaws_XF`, `extraLaws_XF` this makes every `…_rel` theorem above non-vacuous -/
theorem fmodLaws_XF : FmodLaws XF where
  lt_of_pos := by
    rintro ⟨_ | _ | x | _⟩ ⟨_ | _ | d | _⟩ hx hd hpos <;> xr_eval <;> try simp at hx hd hpos
    show XR.fin (RFun.fmod x d) < XR.fin d
    simp only [XR.fin_lt_fin] at hpos ⊢; exact (fmod_bounds x d hpos).2
  gt_of_pos := by
    rintro ⟨_ | _ | x | _⟩ ⟨_ | _ | d | _⟩ hx hd hpos <;> xr_eval <;> try simp at hx hd hpos
    show XR.fin (-d) < XR.fin (RFun.fmod x d)
    simp only [XR.fin_lt_fin] at hpos ⊢; exact (fmod_bounds x d hpos).1
  lt_of_neg := by
    rintro ⟨_ | _ | x | _⟩ ⟨_ | _ | d | _⟩ hx hd hneg <;> xr_eval <;> try simp at hx hd hneg
    show XR.fin (RFun.fmod x d) < XR.fin (-d)
    simp only [XR.fin_lt_fin] at hneg ⊢; exact (fmod_bounds_neg x d hneg).2
  gt_of_neg := by
    rintro ⟨_ | _ | x | _⟩ ⟨_ | _ | d | _⟩ hx hd hneg <;> xr_eval <;> try simp at hx hd hneg
    show XR.fin d < XR.fin (RFun.fmod x d)
    simp only [XR.fin_lt_fin] at hneg ⊢; exact (fmod_bounds_neg x d hneg).1
  nonneg := by
    rintro ⟨_ | _ | x | _⟩ ⟨_ | _ | d | _⟩ hx hd hx0 hpos <;> xr_eval <;> try simp at hx hd hx0 hpos
    show XR.fin 0 ≤ XR.fin (RFun.fmod x d)
    simp only [XR.fin_le_fin] at hx0 hpos ⊢; exact (fmod_nonneg_of_nonneg x d hpos hx0).1

/-- non-vacuity: the modulus theorem applies on `XF` -/
example (x d : XF) (hx : Spec.Fin x) (hd : Spec.Fin d) (hpos : (0.0 : XF) < d) :
    (0.0 : XF) ≤ f64.modulus x d ∧ f64.modulus x d < d :=
  modulus_range_pos_fl_rel floatLaws_XF extraLaws_XF fmodLaws_XF x d hx hd hpos

/-- non-vacuity of `PeriodicInv`: the state built by `InfinitePeriodic::default`-like parameters -/
example : PeriodicInv ({ f_amplitude := 1.0, f_step := 0.25, f_phase := 0.0, f_k := 0.0 } : InfinitePeriodic Float) :=
  ⟨by decide, by decide, by decide, by decide, by decide, by decide⟩

end Statrs.Props.C20
