/-
  C20 — wave generators (src/generate.rs), part 1: `InfinitePeriodic` and `InfiniteSinusoidal`.

  The generated `next : σ → Option ℝ × σ` is iterated by `Spec.Generators.out next s n`
  (value returned by call number `n`, 0-based).  All statements are over ℝ (exact arithmetic).

  InfinitePeriodic.  State invariant `0 < amplitude`, `0 ≤ step`, `0 ≤ phase < amplitude`, `0 ≤ k`
  (established by `new` when `amplitude > 0` and `frequency / sampling_rate ≥ 0`):
    * preserved by `next`                                         (`periodic_invariant_preserved`)
    * every output lies in `[0, amplitude)`                       (`periodic_out_mem`)
    * output `n` = `fmod (phase + (k + n)·step) amplitude`         (`periodic_out_eq_fmod`)
                 = `amplitude · fract ((phase + (k + n)·step) / amplitude)`   (`periodic_out_closed`)
      — for EVERY `step ≥ 0`, also `step ≥ amplitude`: the wrap `x %= amplitude` is a full `fmod`.
    * the sequence repeats with period `N` whenever `N·step` is an integer multiple of the
      amplitude                                                   (`periodic_out_repeats`)
    * for `new`: output `n` = `(phase + (n − delay)·step).modulus(amplitude)`  (`periodic_new_out_closed`)
  The claim is FALSE for a negative `frequency / sampling_rate`: the guard only wraps at the upper
  end, so the samples run off to −∞ (`periodic_negative_step_counterexample`).

  InfiniteSinusoidal.  No hypotheses at all:
    * output `n` = `mean + amplitude · sin (phase + (i + n)·step)` across every 1000-sample
      re-basing                                                   (`sinusoidal_out_closed`)
    * `|output − mean| ≤ |amplitude|`                             (`sinusoidal_out_bound`)
    * for `new`: output `n` = `mean + amplitude · sin (phase + (n − delay)·step)` (`sinusoidal_new_out_closed`)
    * the sample counter stays in `[0, 1000)`: `self.i += 1` cannot overflow (`sinusoidal_counter_bounded`)
-/
import Statrs.Lemmas.Generators
set_option linter.unusedVariables false  -- `sampling_rate ≠ 0` is kept as a faithfulness guard (x/0 = 0 over ℝ)
namespace Statrs.Props.C20
open Statrs Statrs.Gen Statrs.Lemmas.FunctionLayer Statrs.Spec.Generators Statrs.Lemmas.Generators

/-! ### InfinitePeriodic: state level -/

/-- one call of `next` keeps the invariant and does not touch `amplitude`/`step` -/
theorem periodic_invariant_preserved (s : InfinitePeriodic ℝ)
    (hA : 0 < s.f_amplitude) (hs : 0 ≤ s.f_step) (hp0 : 0 ≤ s.f_phase) (hp1 : s.f_phase < s.f_amplitude)
    (hk : 0 ≤ s.f_k) :
    let s' := (InfinitePeriodic.next s).2
    s'.f_amplitude = s.f_amplitude ∧ s'.f_step = s.f_step ∧
    0 ≤ s'.f_phase ∧ s'.f_phase < s'.f_amplitude ∧ 0 ≤ s'.f_k := by
  obtain ⟨_, h1, h2, h3, _⟩ := periodic_next_spec s ⟨hA, hs, hp0, hp1, hk⟩
  exact ⟨h1, h2, h3.phase_nonneg, h3.phase_lt, h3.k_nonneg⟩

/-- closed form: output `n` is the residue in `[0, amplitude)` of `phase + (k + n)·step` -/
theorem periodic_out_closed (s : InfinitePeriodic ℝ)
    (hA : 0 < s.f_amplitude) (hs : 0 ≤ s.f_step) (hp0 : 0 ≤ s.f_phase) (hp1 : s.f_phase < s.f_amplitude)
    (hk : 0 ≤ s.f_k) (n : ℕ) :
    out InfinitePeriodic.next s n
      = some (s.f_amplitude * Int.fract ((s.f_phase + (s.f_k + n) * s.f_step) / s.f_amplitude)) := by
  rw [periodic_out_fres n s ⟨hA, hs, hp0, hp1, hk⟩]
  simp only [fres, pos]
  congr 4
  ring

/-- the same closed form written with the model's own `%` (`RFun.fmod`) -/
theorem periodic_out_eq_fmod (s : InfinitePeriodic ℝ)
    (hA : 0 < s.f_amplitude) (hs : 0 ≤ s.f_step) (hp0 : 0 ≤ s.f_phase) (hp1 : s.f_phase < s.f_amplitude)
    (hk : 0 ≤ s.f_k) (n : ℕ) :
    out InfinitePeriodic.next s n
      = some (RFun.fmod (s.f_phase + (s.f_k + n) * s.f_step) s.f_amplitude) := by
  have hx : 0 ≤ s.f_phase + (s.f_k + n) * s.f_step := by positivity
  rw [periodic_out_closed s hA hs hp0 hp1 hk n, fmod_eq_fres hA hx]
  rfl

/-- every output lies in `[0, amplitude)` -/
theorem periodic_out_mem (s : InfinitePeriodic ℝ)
    (hA : 0 < s.f_amplitude) (hs : 0 ≤ s.f_step) (hp0 : 0 ≤ s.f_phase) (hp1 : s.f_phase < s.f_amplitude)
    (hk : 0 ≤ s.f_k) (n : ℕ) :
    ∃ x, out InfinitePeriodic.next s n = some x ∧ 0 ≤ x ∧ x < s.f_amplitude :=
  ⟨_, periodic_out_fres n s ⟨hA, hs, hp0, hp1, hk⟩, fres_nonneg hA _, fres_lt hA _⟩

/-- the sequence repeats with period `N` as soon as `N·step` is an integer multiple of `amplitude` -/
theorem periodic_out_repeats (s : InfinitePeriodic ℝ)
    (hA : 0 < s.f_amplitude) (hs : 0 ≤ s.f_step) (hp0 : 0 ≤ s.f_phase) (hp1 : s.f_phase < s.f_amplitude)
    (hk : 0 ≤ s.f_k) (N : ℕ) (m : ℤ) (hN : (N : ℝ) * s.f_step = s.f_amplitude * m) (n : ℕ) :
    out InfinitePeriodic.next s (n + N) = out InfinitePeriodic.next s n := by
  rw [periodic_out_fres _ s ⟨hA, hs, hp0, hp1, hk⟩, periodic_out_fres _ s ⟨hA, hs, hp0, hp1, hk⟩]
  congr 1
  have : pos s + ((n + N : ℕ) : ℝ) * s.f_step = (pos s + n * s.f_step) + s.f_amplitude * m := by
    push_cast; linarith
  rw [this, fres_add_int_mul hA]

/-- non-vacuity: a state satisfying the invariant -/
example : ∃ s : InfinitePeriodic ℝ, 0 < s.f_amplitude ∧ 0 ≤ s.f_step ∧ 0 ≤ s.f_phase ∧
    s.f_phase < s.f_amplitude ∧ 0 ≤ s.f_k :=
  ⟨{ f_amplitude := 10, f_step := 5 / 2, f_phase := 6, f_k := 0 }, by norm_num⟩

/-! ### InfinitePeriodic: from the constructor -/

/-- `new` establishes the invariant (for `amplitude > 0` and a non-negative `frequency / sampling_rate`) -/
theorem periodic_new_invariant (sampling_rate frequency amplitude phase : ℝ) (delay : Int)
    (hA : 0 < amplitude) (hsr : sampling_rate ≠ 0) (hf : 0 ≤ frequency / sampling_rate) :
    let s := InfinitePeriodic.new sampling_rate frequency amplitude phase delay
    s.f_amplitude = amplitude ∧ s.f_step = frequency / sampling_rate * amplitude ∧
    0 ≤ s.f_step ∧ 0 ≤ s.f_phase ∧ s.f_phase < s.f_amplitude ∧ s.f_k = 0 := by
  have h := periodic_new_inv sampling_rate frequency amplitude phase delay hA hf
  refine ⟨rfl, rfl, h.step_nonneg, h.phase_nonneg, h.phase_lt, ?_⟩
  show (0.0 : ℝ) = 0
  norm_num

/-- closed form for the constructed generator: sample `n` is the canonical residue of
    `phase + (n − delay)·step` modulo `amplitude`, `step = frequency / sampling_rate · amplitude` -/
theorem periodic_new_out_closed (sampling_rate frequency amplitude phase : ℝ) (delay : Int)
    (hA : 0 < amplitude) (hsr : sampling_rate ≠ 0) (hf : 0 ≤ frequency / sampling_rate) (n : ℕ) :
    out InfinitePeriodic.next (InfinitePeriodic.new sampling_rate frequency amplitude phase delay) n
      = some (amplitude * Int.fract
          ((phase + ((n : ℝ) - delay) * (frequency / sampling_rate * amplitude)) / amplitude)) := by
  rw [periodic_new_out_fres sampling_rate frequency amplitude phase delay hA hf n]
  rfl

/-- the same, written with the crate's own `Modulus::modulus` -/
theorem periodic_new_out_eq_modulus (sampling_rate frequency amplitude phase : ℝ) (delay : Int)
    (hA : 0 < amplitude) (hsr : sampling_rate ≠ 0) (hf : 0 ≤ frequency / sampling_rate) (n : ℕ) :
    out InfinitePeriodic.next (InfinitePeriodic.new sampling_rate frequency amplitude phase delay) n
      = some (f64.modulus (phase + ((n : ℝ) - delay) * (frequency / sampling_rate * amplitude)) amplitude) := by
  rw [periodic_new_out_closed _ _ _ _ _ hA hsr hf, modulus_eq_fres hA]
  rfl

/-- every sample of the constructed generator lies in `[0, amplitude)` -/
theorem periodic_new_out_mem (sampling_rate frequency amplitude phase : ℝ) (delay : Int)
    (hA : 0 < amplitude) (hsr : sampling_rate ≠ 0) (hf : 0 ≤ frequency / sampling_rate) (n : ℕ) :
    ∃ x, out InfinitePeriodic.next (InfinitePeriodic.new sampling_rate frequency amplitude phase delay) n
      = some x ∧ 0 ≤ x ∧ x < amplitude := by
  have h := periodic_new_inv sampling_rate frequency amplitude phase delay hA hf
  exact ⟨_, periodic_out_fres n _ h, fres_nonneg hA _, fres_lt hA _⟩

/-- "repeats with its period": if `N · frequency / sampling_rate` is an integer (in particular
    `N = sampling_rate / frequency` samples per cycle), sample `n + N` equals sample `n` -/
theorem periodic_new_out_repeats (sampling_rate frequency amplitude phase : ℝ) (delay : Int)
    (hA : 0 < amplitude) (hsr : sampling_rate ≠ 0) (hf : 0 ≤ frequency / sampling_rate)
    (N : ℕ) (m : ℤ) (hN : (N : ℝ) * (frequency / sampling_rate) = m) (n : ℕ) :
    out InfinitePeriodic.next (InfinitePeriodic.new sampling_rate frequency amplitude phase delay) (n + N)
      = out InfinitePeriodic.next (InfinitePeriodic.new sampling_rate frequency amplitude phase delay) n := by
  have h := periodic_new_inv sampling_rate frequency amplitude phase delay hA hf
  refine periodic_out_repeats _ h.amp_pos h.step_nonneg h.phase_nonneg h.phase_lt h.k_nonneg N m ?_ n
  show (N : ℝ) * (frequency / sampling_rate * amplitude) = amplitude * m
  rw [← hN]; ring

/-- non-vacuity (the doc example `InfinitePeriodic::new(8.0, 2.0, 10.0, 1.0, 2)`), with its period 4 -/
example : (0 : ℝ) < 10 ∧ (8 : ℝ) ≠ 0 ∧ (0 : ℝ) ≤ 2 / 8 ∧ ((4 : ℕ) : ℝ) * ((2 : ℝ) / 8) = ((1 : ℤ) : ℝ) := by
  norm_num

/-- FALSE for a negative step: `new(1, -1, 1, 0, 0)` yields `0, -1, -2, …` — the guard `x >= amplitude`
    never fires and the samples leave `[0, amplitude)`.  (Sample 1 is `-1`.) -/
theorem periodic_negative_step_counterexample :
    out InfinitePeriodic.next (InfinitePeriodic.new (1 : ℝ) (-1) 1 0 0) 1 = some (-1) ∧
    ¬ (0 ≤ (-1 : ℝ)) := by
  refine ⟨?_, by norm_num⟩
  have hph : f64.modulus ((0 : ℝ) - (RFun.ofInt 0 : ℝ) * ((-1 : ℝ) / 1 * 1)) 1 = 0 := by
    rw [modulus_eq_fres one_pos]
    simp [fres]
  have e0 : InfinitePeriodic.new (1 : ℝ) (-1) 1 0 0
      = { f_amplitude := 1, f_step := (-1 : ℝ) / 1 * 1, f_phase := 0, f_k := (0.0 : ℝ) } := by
    simp only [InfinitePeriodic.new, hph]
  rw [e0, out_succ, out_zero]
  have hc0 : ¬ ((1 : ℝ) ≤ 0 + (0.0 : ℝ) * ((-1 : ℝ) / 1 * 1)) := by norm_num
  have e1 : (InfinitePeriodic.next
      ({ f_amplitude := 1, f_step := (-1 : ℝ) / 1 * 1, f_phase := 0, f_k := (0.0 : ℝ) } : InfinitePeriodic ℝ)).2
      = { f_amplitude := 1, f_step := (-1 : ℝ) / 1 * 1, f_phase := 0, f_k := (0.0 : ℝ) + (1.0 : ℝ) } := by
    simp only [InfinitePeriodic.next, if_neg hc0]
  rw [e1]
  have hc1 : ¬ ((1 : ℝ) ≤ 0 + ((0.0 : ℝ) + (1.0 : ℝ)) * ((-1 : ℝ) / 1 * 1)) := by norm_num
  simp only [InfinitePeriodic.next, if_neg hc1]
  norm_num

/-! ### InfiniteSinusoidal -/

/-- closed form across every re-basing: output `n` is `mean + amplitude · sin (phase + (i + n)·step)`
    (the re-based phase differs from the un-rebased one by a multiple of `2π`).  No hypotheses. -/
theorem sinusoidal_out_closed (s : InfiniteSinusoidal ℝ) (n : ℕ) :
    out InfiniteSinusoidal.next s n
      = some (s.f_mean + s.f_amplitude * Real.sin (s.f_phase + ((s.f_i : ℝ) + n) * s.f_step)) := by
  rw [Statrs.Lemmas.Generators.sinusoidal_out_closed n s]
  simp only [angle]
  congr 4
  ring

/-- every output is within `|amplitude|` of `mean` -/
theorem sinusoidal_out_bound (s : InfiniteSinusoidal ℝ) (n : ℕ) :
    ∃ x, out InfiniteSinusoidal.next s n = some x ∧ |x - s.f_mean| ≤ |s.f_amplitude| := by
  refine ⟨_, sinusoidal_out_closed s n, ?_⟩
  rw [add_sub_cancel_left, abs_mul]
  exact mul_le_of_le_one_right (abs_nonneg _) (Real.abs_sin_le_one _)

/-- for the constructed generator: sample `n` is `mean + amplitude · sin (phase + (n − delay)·step)`,
    `step = frequency / sampling_rate · 2π` (all parameters, no hypotheses) -/
theorem sinusoidal_new_out_closed (sampling_rate frequency amplitude mean phase : ℝ) (delay : Int) (n : ℕ) :
    out InfiniteSinusoidal.next
        (InfiniteSinusoidal.new sampling_rate frequency amplitude mean phase delay) n
      = some (mean + amplitude *
          Real.sin (phase + ((n : ℝ) - delay) * (frequency / sampling_rate * (2 * Real.pi)))) := by
  rw [sinusoidal_out_closed]
  obtain ⟨m, hm⟩ := fmod_sub_int
    (phase - (RFun.ofInt delay : ℝ) * (frequency / sampling_rate * ((RFun.pi : ℝ) * (2.0 : ℝ))))
    ((RFun.pi : ℝ) * (2.0 : ℝ))
  show some (mean + amplitude * Real.sin
    (RFun.fmod (phase - (RFun.ofInt delay : ℝ) * (frequency / sampling_rate * ((RFun.pi : ℝ) * (2.0 : ℝ))))
        ((RFun.pi : ℝ) * (2.0 : ℝ))
      + (((0 : Int) : ℝ) + n) * (frequency / sampling_rate * ((RFun.pi : ℝ) * (2.0 : ℝ))))) = _
  congr 3
  rw [← Real.sin_add_int_mul_two_pi _ m]
  congr 1
  rw [rfun_ofInt, rfun_pi] at hm ⊢
  norm_num at hm ⊢
  linarith

theorem sinusoidal_new_out_bound (sampling_rate frequency amplitude mean phase : ℝ) (delay : Int) (n : ℕ) :
    ∃ x, out InfiniteSinusoidal.next
        (InfiniteSinusoidal.new sampling_rate frequency amplitude mean phase delay) n = some x ∧
      |x - mean| ≤ |amplitude| :=
  sinusoidal_out_bound _ n

/-- the sample counter stays in `[0, 1000)`: the `usize` increment `self.i += 1` never overflows -/
theorem sinusoidal_counter_bounded (s : InfiniteSinusoidal ℝ) (h0 : 0 ≤ s.f_i) (h1 : s.f_i < 1000) (n : ℕ) :
    0 ≤ (stateN InfiniteSinusoidal.next s n).f_i ∧ (stateN InfiniteSinusoidal.next s n).f_i < 1000 := by
  refine stateN_inv InfiniteSinusoidal.next (fun s => 0 ≤ s.f_i ∧ s.f_i < 1000) ?_ s ⟨h0, h1⟩ n
  rintro t ⟨ht0, ht1⟩
  by_cases hc : t.f_i + 1 = 1000
  · simp only [InfiniteSinusoidal.next, if_pos hc]; omega
  · simp only [InfiniteSinusoidal.next, if_neg hc]; omega

example : (InfiniteSinusoidal.new (8 : ℝ) 2 1 5 2 1).f_i = 0 := rfl

end Statrs.Props.C20
