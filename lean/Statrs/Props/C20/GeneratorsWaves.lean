/-
  C20 — wave generators (src/generate.rs), part 2: `InfiniteSquare`, `InfiniteTriangle`,
  `InfiniteSawtooth`, all built on an embedded `InfinitePeriodic`.

  1. Carrier-generic (∀α, so also IEEE `Float`): sample `n` of each wave is the stated function of
     sample `n` of the embedded periodic generator, and the other fields never change
     (`square_out_eq_map`, `triangle_out_eq_map`, `sawtooth_out_eq_map`, `*_stateN`);
     a square wave only ever emits `high_value` or `low_value` (`square_out_values`).
  2. Over ℝ, for generators built by `new` with positive integer durations: the embedded periodic
     generator emits the integer phase `(n − delay) mod period` (times the step), which gives the
     closed-form waveform at every index (`square_new_out_closed`, `triangle_new_out_closed`,
     `sawtooth_new_out_closed`) and the bounds `[low, high]` (`*_new_out_mem`).
     Sawtooth: amplitude of the embedded generator is `height·period/(period−1)`, strictly larger
     than `height` (`sawtooth_amplitude_gt_height`), so the generic `[0, amplitude)` bound is not
     enough; the `[low, high]` bound follows from the lattice closed form and needs `period ≥ 2`
     and `high > low` (for `period = 1` or `high = low` the amplitude is `x/0` resp. `0`: NaN/inf in
     IEEE, junk over ℝ — outside every theorem here).
-/
import Statrs.Lemmas.Generators
import Statrs.Props.C20.Generators
set_option linter.unusedVariables false
namespace Statrs.Props.C20
open Statrs Statrs.Gen Statrs.Lemmas.FunctionLayer Statrs.Spec.Generators Statrs.Lemmas.Generators

/-! ### 1. carrier-generic structure -/
section generic
variable {α : Type} [Add α] [Sub α] [Mul α] [Div α] [Neg α] [LT α] [LE α] [BEq α]
  [DecidableLT α] [DecidableLE α] [OfScientific α] [Inhabited α] [RFun α]

/-- the square-wave shaping function -/
def squareFn (s : InfiniteSquare α) (x : α) : α :=
  if x < s.f_high_duration then s.f_high_value else s.f_low_value

/-- the triangle-wave shaping function -/
def triangleFn (s : InfiniteTriangle α) (x : α) : α :=
  if x < s.f_raise_duration then s.f_low_value + x * s.f_raise
  else s.f_high_value - (x - s.f_raise_duration) * s.f_fall

theorem square_next_eq (s : InfiniteSquare α) :
    InfiniteSquare.next s = (Option.map (squareFn s) (InfinitePeriodic.next s.f_periodic).1,
      { s with f_periodic := (InfinitePeriodic.next s.f_periodic).2 }) := rfl

theorem triangle_next_eq (s : InfiniteTriangle α) :
    InfiniteTriangle.next s = (Option.map (triangleFn s) (InfinitePeriodic.next s.f_periodic).1,
      { s with f_periodic := (InfinitePeriodic.next s.f_periodic).2 }) := rfl

theorem sawtooth_next_eq (s : InfiniteSawtooth α) :
    InfiniteSawtooth.next s = (Option.map (fun x => x + s.f_low_value) (InfinitePeriodic.next s.f_periodic).1,
      { s with f_periodic := (InfinitePeriodic.next s.f_periodic).2 }) := rfl

/-- state after `n` calls: only the embedded periodic generator moves -/
theorem square_stateN (s : InfiniteSquare α) (n : ℕ) :
    stateN InfiniteSquare.next s n
      = { s with f_periodic := stateN InfinitePeriodic.next s.f_periodic n } := by
  induction n generalizing s with
  | zero => rfl
  | succ n ih => exact (ih _).trans rfl

theorem triangle_stateN (s : InfiniteTriangle α) (n : ℕ) :
    stateN InfiniteTriangle.next s n
      = { s with f_periodic := stateN InfinitePeriodic.next s.f_periodic n } := by
  induction n generalizing s with
  | zero => rfl
  | succ n ih => exact (ih _).trans rfl

theorem sawtooth_stateN (s : InfiniteSawtooth α) (n : ℕ) :
    stateN InfiniteSawtooth.next s n
      = { s with f_periodic := stateN InfinitePeriodic.next s.f_periodic n } := by
  induction n generalizing s with
  | zero => rfl
  | succ n ih => exact (ih _).trans rfl

/-- square sample `n` = `if x < high_duration then high_value else low_value` of periodic sample `n` -/
theorem square_out_eq_map (s : InfiniteSquare α) (n : ℕ) :
    out InfiniteSquare.next s n = Option.map (squareFn s) (out InfinitePeriodic.next s.f_periodic n) := by
  unfold out; rw [square_stateN, square_next_eq]; rfl

/-- triangle sample `n` = the two-piece linear function of periodic sample `n` -/
theorem triangle_out_eq_map (s : InfiniteTriangle α) (n : ℕ) :
    out InfiniteTriangle.next s n = Option.map (triangleFn s) (out InfinitePeriodic.next s.f_periodic n) := by
  unfold out; rw [triangle_stateN, triangle_next_eq]; rfl

/-- sawtooth sample `n` = periodic sample `n` + `low_value` -/
theorem sawtooth_out_eq_map (s : InfiniteSawtooth α) (n : ℕ) :
    out InfiniteSawtooth.next s n
      = Option.map (fun x => x + s.f_low_value) (out InfinitePeriodic.next s.f_periodic n) := by
  unfold out; rw [sawtooth_stateN, sawtooth_next_eq]

/-- the generators never end: `next` always returns `Some` (every carrier) -/
theorem periodic_next_isSome (s : InfinitePeriodic α) : ∃ x, (InfinitePeriodic.next s).1 = some x := by
  by_cases hc : s.f_amplitude ≤ s.f_phase + s.f_k * s.f_step
  · exact ⟨RFun.fmod (s.f_phase + s.f_k * s.f_step) s.f_amplitude, by
      simp only [InfinitePeriodic.next, if_pos hc]⟩
  · exact ⟨s.f_phase + s.f_k * s.f_step, by simp only [InfinitePeriodic.next, if_neg hc]⟩

theorem periodic_out_isSome (s : InfinitePeriodic α) (n : ℕ) : ∃ x, out InfinitePeriodic.next s n = some x :=
  periodic_next_isSome _

theorem sinusoidal_next_isSome (s : InfiniteSinusoidal α) : ∃ x, (InfiniteSinusoidal.next s).1 = some x :=
  ⟨_, rfl⟩

theorem square_out_isSome (s : InfiniteSquare α) (n : ℕ) : ∃ x, out InfiniteSquare.next s n = some x := by
  obtain ⟨x, hx⟩ := periodic_out_isSome s.f_periodic n
  exact ⟨_, by rw [square_out_eq_map, hx]; rfl⟩

theorem triangle_out_isSome (s : InfiniteTriangle α) (n : ℕ) : ∃ x, out InfiniteTriangle.next s n = some x := by
  obtain ⟨x, hx⟩ := periodic_out_isSome s.f_periodic n
  exact ⟨_, by rw [triangle_out_eq_map, hx]; rfl⟩

theorem sawtooth_out_isSome (s : InfiniteSawtooth α) (n : ℕ) : ∃ x, out InfiniteSawtooth.next s n = some x := by
  obtain ⟨x, hx⟩ := periodic_out_isSome s.f_periodic n
  exact ⟨_, by rw [sawtooth_out_eq_map, hx]; rfl⟩

/-- a square wave emits nothing but its two levels (any state, any carrier) -/
theorem square_out_values (s : InfiniteSquare α) (n : ℕ) (x : α) (h : out InfiniteSquare.next s n = some x) :
    x = s.f_high_value ∨ x = s.f_low_value := by
  rw [square_out_eq_map] at h
  obtain ⟨y, hy⟩ := periodic_out_isSome s.f_periodic n
  rw [hy] at h
  simp only [Option.map_some, Option.some.injEq, squareFn] at h
  subst h
  split_ifs
  · exact Or.inl rfl
  · exact Or.inr rfl

end generic

/-! ### 2. over ℝ -/

/-- square wave: every sample is within `[low_value, high_value]` when `low_value ≤ high_value` (any state) -/
theorem square_out_mem (s : InfiniteSquare ℝ) (hlh : s.f_low_value ≤ s.f_high_value) (n : ℕ) :
    ∃ x, out InfiniteSquare.next s n = some x ∧ s.f_low_value ≤ x ∧ x ≤ s.f_high_value := by
  obtain ⟨x, hx⟩ := square_out_isSome s n
  refine ⟨x, hx, ?_⟩
  rcases square_out_values s n x hx with h | h <;> rw [h] <;> exact ⟨by linarith, by linarith⟩

/-- triangle wave, state level: under the `InfinitePeriodic` invariant on the embedded generator and
    slopes `raise = height/raise_duration`, `fall = height/(amplitude − raise_duration)` with
    `0 < raise_duration < amplitude`, `low ≤ high`: every sample is within `[low, high]`. -/
theorem triangle_out_mem (s : InfiniteTriangle ℝ)
    (hA : 0 < s.f_periodic.f_amplitude) (hs : 0 ≤ s.f_periodic.f_step) (hp0 : 0 ≤ s.f_periodic.f_phase)
    (hp1 : s.f_periodic.f_phase < s.f_periodic.f_amplitude) (hk : 0 ≤ s.f_periodic.f_k)
    (hr0 : 0 < s.f_raise_duration) (hr1 : s.f_raise_duration < s.f_periodic.f_amplitude)
    (hraise : s.f_raise = (s.f_high_value - s.f_low_value) / s.f_raise_duration)
    (hfall : s.f_fall = (s.f_high_value - s.f_low_value) / (s.f_periodic.f_amplitude - s.f_raise_duration))
    (hlh : s.f_low_value ≤ s.f_high_value) (n : ℕ) :
    ∃ x, out InfiniteTriangle.next s n = some x ∧ s.f_low_value ≤ x ∧ x ≤ s.f_high_value := by
  obtain ⟨y, hy, hy0, hy1⟩ := periodic_out_mem s.f_periodic hA hs hp0 hp1 hk n
  refine ⟨triangleFn s y, by rw [triangle_out_eq_map, hy]; rfl, ?_⟩
  have hH : 0 ≤ s.f_high_value - s.f_low_value := by linarith
  unfold triangleFn
  split_ifs with hc
  · rw [hraise]
    have h1 : 0 ≤ y * ((s.f_high_value - s.f_low_value) / s.f_raise_duration) := by positivity
    have h2 : y * ((s.f_high_value - s.f_low_value) / s.f_raise_duration)
        ≤ s.f_high_value - s.f_low_value := by
      rw [mul_div_assoc', div_le_iff₀ hr0]
      nlinarith
    constructor <;> linarith
  · rw [hfall]
    have hc' : s.f_raise_duration ≤ y := not_lt.mp hc
    have hd : 0 < s.f_periodic.f_amplitude - s.f_raise_duration := by linarith
    have h1 : 0 ≤ (y - s.f_raise_duration) *
        ((s.f_high_value - s.f_low_value) / (s.f_periodic.f_amplitude - s.f_raise_duration)) := by
      apply mul_nonneg (by linarith) (by positivity)
    have h2 : (y - s.f_raise_duration) *
        ((s.f_high_value - s.f_low_value) / (s.f_periodic.f_amplitude - s.f_raise_duration))
        ≤ s.f_high_value - s.f_low_value := by
      rw [mul_div_assoc', div_le_iff₀ hd]
      nlinarith
    constructor <;> linarith

/-- sawtooth, state level: samples lie in `[low, low + amplitude)` of the embedded generator -/
theorem sawtooth_out_mem_amplitude (s : InfiniteSawtooth ℝ)
    (hA : 0 < s.f_periodic.f_amplitude) (hs : 0 ≤ s.f_periodic.f_step) (hp0 : 0 ≤ s.f_periodic.f_phase)
    (hp1 : s.f_periodic.f_phase < s.f_periodic.f_amplitude) (hk : 0 ≤ s.f_periodic.f_k) (n : ℕ) :
    ∃ x, out InfiniteSawtooth.next s n = some x ∧ s.f_low_value ≤ x ∧
      x < s.f_low_value + s.f_periodic.f_amplitude := by
  obtain ⟨y, hy, hy0, hy1⟩ := periodic_out_mem s.f_periodic hA hs hp0 hp1 hk n
  exact ⟨y + s.f_low_value, by rw [sawtooth_out_eq_map, hy]; rfl, by linarith, by linarith⟩

/-! #### generators built by `new`: the embedded periodic generator runs on an integer lattice -/

/-- A periodic generator with zero phase whose amplitude is `P` steps (`P` a positive integer) emits
    `step · ((n − delay) mod P)`. -/
theorem periodic_new_lattice (sr f A : ℝ) (delay : Int) (P : ℤ) (hP : 0 < P) (st : ℝ) (hst : 0 < st)
    (hA : A = st * P) (hstep : f / sr * A = st) (hsr : sr ≠ 0) (n : ℕ) :
    out InfinitePeriodic.next (InfinitePeriodic.new sr f A (0.0 : ℝ) delay) n
      = some (st * (((((n : ℤ) - delay) % P : ℤ)) : ℝ)) := by
  have hPr : (0 : ℝ) < P := by exact_mod_cast hP
  have hA0 : 0 < A := by rw [hA]; positivity
  have hf : 0 ≤ f / sr := by
    by_contra hneg
    have hneg' := not_le.mp hneg
    nlinarith
  rw [periodic_new_out_fres sr f A (0.0 : ℝ) delay hA0 hf n, hstep]
  have : (0.0 : ℝ) + ((n : ℝ) - delay) * st = st * ((((n : ℤ) - delay : ℤ)) : ℝ) := by
    push_cast; norm_num; ring
  rw [this, hA, fres_lattice hst P hP]

/-- integer phase of sample `n`: `(n − delay) mod period` -/
def iphase (n : ℕ) (delay period : Int) : Int := ((n : Int) - delay) % period

theorem iphase_nonneg (n : ℕ) (delay period : Int) (hP : 0 < period) : 0 ≤ iphase n delay period :=
  Int.emod_nonneg _ (by omega)

theorem iphase_lt (n : ℕ) (delay period : Int) (hP : 0 < period) : iphase n delay period < period :=
  Int.emod_lt_of_pos _ hP

/-- the embedded generator of `InfiniteSquare::new` / `InfiniteTriangle::new` emits the integer phase -/
theorem duration_periodic_out (D : Int) (hD : 0 < D) (delay : Int) (n : ℕ) :
    out InfinitePeriodic.next
      (InfinitePeriodic.new (1.0 : ℝ) ((1.0 : ℝ) / (RFun.ofInt D : ℝ)) (RFun.ofInt D : ℝ) (0.0 : ℝ) delay) n
      = some ((iphase n delay D : Int) : ℝ) := by
  have hDr : (0 : ℝ) < D := by exact_mod_cast hD
  rw [periodic_new_lattice (1.0 : ℝ) ((1.0 : ℝ) / (RFun.ofInt D : ℝ)) (RFun.ofInt D : ℝ) delay D hD 1
    one_pos (by rw [rfun_ofInt]; ring) (by rw [rfun_ofInt]; norm_num; field_simp) (by norm_num) n]
  rw [one_mul]; rfl

/-- SQUARE, closed form: sample `n` is `high_value` iff `(n − delay) mod (high_duration + low_duration)`
    is below `high_duration` (needs only a positive total duration). -/
theorem square_new_out_closed (high_duration low_duration : Int) (high_value low_value : ℝ) (delay : Int)
    (hD : 0 < high_duration + low_duration) (n : ℕ) :
    out InfiniteSquare.next (InfiniteSquare.new high_duration low_duration high_value low_value delay) n
      = some (if iphase n delay (high_duration + low_duration) < high_duration
          then high_value else low_value) := by
  rw [square_out_eq_map]
  show Option.map _ (out InfinitePeriodic.next (InfinitePeriodic.new (1.0 : ℝ)
    ((1.0 : ℝ) / (RFun.ofInt (high_duration + low_duration) : ℝ))
    (RFun.ofInt (high_duration + low_duration) : ℝ) (0.0 : ℝ) delay) n) = _
  rw [duration_periodic_out _ hD]
  simp only [Option.map_some, squareFn, InfiniteSquare.new, rfun_ofInt, Int.cast_lt]

/-- SQUARE, bound: `[low_value, high_value]` -/
theorem square_new_out_mem (high_duration low_duration : Int) (high_value low_value : ℝ) (delay : Int)
    (hlh : low_value ≤ high_value) (n : ℕ) :
    ∃ x, out InfiniteSquare.next (InfiniteSquare.new high_duration low_duration high_value low_value delay) n
      = some x ∧ low_value ≤ x ∧ x ≤ high_value :=
  square_out_mem (InfiniteSquare.new high_duration low_duration high_value low_value delay) hlh n

/-- TRIANGLE, closed form: with `r = (n − delay) mod (raise_duration + fall_duration)`, sample `n` is
    `low + r·height/raise_duration` on the raise and `high − (r − raise_duration)·height/fall_duration`
    on the fall. -/
theorem triangle_new_out_closed (raise_duration fall_duration : Int) (high_value low_value : ℝ) (delay : Int)
    (hD : 0 < raise_duration + fall_duration) (n : ℕ) :
    out InfiniteTriangle.next
        (InfiniteTriangle.new raise_duration fall_duration high_value low_value delay) n
      = some (if iphase n delay (raise_duration + fall_duration) < raise_duration
          then low_value + (iphase n delay (raise_duration + fall_duration) : ℝ)
            * ((high_value - low_value) / raise_duration)
          else high_value - ((iphase n delay (raise_duration + fall_duration) : ℝ) - raise_duration)
            * ((high_value - low_value) / fall_duration)) := by
  rw [triangle_out_eq_map]
  show Option.map _ (out InfinitePeriodic.next (InfinitePeriodic.new (1.0 : ℝ)
    ((1.0 : ℝ) / (RFun.ofInt (raise_duration + fall_duration) : ℝ))
    (RFun.ofInt (raise_duration + fall_duration) : ℝ) (0.0 : ℝ) delay) n) = _
  rw [duration_periodic_out _ hD]
  simp only [Option.map_some, triangleFn, InfiniteTriangle.new, rfun_ofInt, Int.cast_lt]

/-- TRIANGLE, bound: `[low_value, high_value]` for positive durations and `low ≤ high` -/
theorem triangle_new_out_mem (raise_duration fall_duration : Int) (high_value low_value : ℝ) (delay : Int)
    (hr : 0 < raise_duration) (hf : 0 < fall_duration) (hlh : low_value ≤ high_value) (n : ℕ) :
    ∃ x, out InfiniteTriangle.next
        (InfiniteTriangle.new raise_duration fall_duration high_value low_value delay) n = some x ∧
      low_value ≤ x ∧ x ≤ high_value := by
  have hrr : (0 : ℝ) < raise_duration := by exact_mod_cast hr
  have hfr : (0 : ℝ) < fall_duration := by exact_mod_cast hf
  have hDr : (0 : ℝ) < ((raise_duration + fall_duration : Int) : ℝ) := by push_cast; linarith
  have hq : (0 : ℝ) ≤ (1.0 : ℝ) / ((raise_duration + fall_duration : Int) : ℝ) / (1.0 : ℝ) := by
    norm_num; positivity
  have hinv := periodic_new_inv (1.0 : ℝ) ((1.0 : ℝ) / ((raise_duration + fall_duration : Int) : ℝ))
    ((raise_duration + fall_duration : Int) : ℝ) (0.0 : ℝ) delay hDr hq
  refine triangle_out_mem (InfiniteTriangle.new raise_duration fall_duration high_value low_value delay)
    hinv.amp_pos hinv.step_nonneg hinv.phase_nonneg hinv.phase_lt hinv.k_nonneg ?_ ?_ rfl ?_ hlh n
  · exact hrr
  · show (raise_duration : ℝ) < ((raise_duration + fall_duration : Int) : ℝ)
    push_cast; linarith
  · show (high_value - low_value) / (fall_duration : ℝ)
      = (high_value - low_value) / (((raise_duration + fall_duration : Int) : ℝ) - (raise_duration : ℝ))
    push_cast; ring_nf

/-- SAWTOOTH, closed form (`period ≥ 2`, `high > low`): sample `n` is
    `low + ((n − delay) mod period)·height/(period − 1)`. -/
theorem sawtooth_new_out_closed (period : Int) (high_value low_value : ℝ) (delay : Int)
    (hP : 2 ≤ period) (hlh : low_value < high_value) (n : ℕ) :
    out InfiniteSawtooth.next (InfiniteSawtooth.new period high_value low_value delay) n
      = some ((high_value - low_value) / ((period : ℝ) - 1) * (iphase n delay period : ℝ) + low_value) := by
  have hPr : (2 : ℝ) ≤ period := by exact_mod_cast hP
  have hP1 : (0 : ℝ) < (period : ℝ) - 1 := by linarith
  have hH : 0 < high_value - low_value := by linarith
  rw [sawtooth_out_eq_map]
  show Option.map _ (out InfinitePeriodic.next (InfinitePeriodic.new (1.0 : ℝ)
    ((1.0 : ℝ) / (RFun.ofInt period : ℝ))
    (((high_value - low_value) * (RFun.ofInt period : ℝ)) / ((RFun.ofInt period : ℝ) - (1.0 : ℝ)))
    (0.0 : ℝ) delay) n) = _
  rw [periodic_new_lattice (1.0 : ℝ) ((1.0 : ℝ) / (RFun.ofInt period : ℝ))
    (((high_value - low_value) * (RFun.ofInt period : ℝ)) / ((RFun.ofInt period : ℝ) - (1.0 : ℝ)))
    delay period (by omega) ((high_value - low_value) / ((period : ℝ) - 1)) (by positivity)
    (by rw [rfun_ofInt]; norm_num; ring)
    (by rw [rfun_ofInt]; norm_num; field_simp) (by norm_num) n]
  rfl

/-- SAWTOOTH, bound: `[low_value, high_value]` for `period ≥ 2`, `high > low`; the top is attained
    (closed interval) although the embedded generator's range is the half-open `[0, amplitude)`. -/
theorem sawtooth_new_out_mem (period : Int) (high_value low_value : ℝ) (delay : Int)
    (hP : 2 ≤ period) (hlh : low_value < high_value) (n : ℕ) :
    ∃ x, out InfiniteSawtooth.next (InfiniteSawtooth.new period high_value low_value delay) n = some x ∧
      low_value ≤ x ∧ x ≤ high_value := by
  refine ⟨_, sawtooth_new_out_closed period high_value low_value delay hP hlh n, ?_⟩
  have hPr : (2 : ℝ) ≤ period := by exact_mod_cast hP
  have hP1 : (0 : ℝ) < (period : ℝ) - 1 := by linarith
  have hH : 0 < high_value - low_value := by linarith
  have h0 : (0 : ℝ) ≤ (iphase n delay period : ℝ) := by exact_mod_cast iphase_nonneg n delay period (by omega)
  have h1 : (iphase n delay period : ℝ) ≤ (period : ℝ) - 1 := by
    have := iphase_lt n delay period (by omega)
    have : iphase n delay period ≤ period - 1 := by omega
    exact_mod_cast this
  constructor
  · have : 0 ≤ (high_value - low_value) / ((period : ℝ) - 1) * (iphase n delay period : ℝ) := by positivity
    linarith
  · have : (high_value - low_value) / ((period : ℝ) - 1) * (iphase n delay period : ℝ)
        ≤ high_value - low_value := by
      rw [div_mul_eq_mul_div, div_le_iff₀ hP1]
      nlinarith
    linarith

/-- the sample with integer phase `period − 1` is exactly `high_value` (the bound is tight) -/
theorem sawtooth_new_out_top (period : Int) (high_value low_value : ℝ) (delay : Int)
    (hP : 2 ≤ period) (hlh : low_value < high_value) (n : ℕ) (hn : iphase n delay period = period - 1) :
    out InfiniteSawtooth.next (InfiniteSawtooth.new period high_value low_value delay) n = some high_value := by
  have hPr : (2 : ℝ) ≤ period := by exact_mod_cast hP
  have hP1 : (period : ℝ) - 1 ≠ 0 := by linarith
  rw [sawtooth_new_out_closed period high_value low_value delay hP hlh n, hn]
  congr 1
  push_cast
  field_simp
  ring

/-- the embedded generator's amplitude `height·period/(period−1)` is strictly larger than `height`:
    the generic `[0, amplitude)` bound alone does not give `≤ high_value`. -/
theorem sawtooth_amplitude_gt_height (period : Int) (high_value low_value : ℝ) (delay : Int)
    (hP : 2 ≤ period) (hlh : low_value < high_value) :
    high_value - low_value
      < (InfiniteSawtooth.new period high_value low_value delay).f_periodic.f_amplitude := by
  have hPr : (2 : ℝ) ≤ period := by exact_mod_cast hP
  have hP1 : (0 : ℝ) < (period : ℝ) - 1 := by linarith
  show high_value - low_value
    < ((high_value - low_value) * (RFun.ofInt period : ℝ)) / ((RFun.ofInt period : ℝ) - (1.0 : ℝ))
  rw [rfun_ofInt]
  norm_num
  rw [lt_div_iff₀ hP1]
  nlinarith

/-- non-vacuity: the doc examples `InfiniteSquare::new(3, 7, 1.0, -1.0, 1)`,
    `InfiniteTriangle::new(4, 7, 1.0, -1.0, 1)`, `InfiniteSawtooth::new(5, 1.0, -1.0, 1)` -/
example : (0 : Int) < 3 + 7 ∧ (-1 : ℝ) ≤ 1 ∧ (0 : Int) < 4 ∧ (0 : Int) < 7 ∧ (2 : Int) ≤ 5 ∧ (-1 : ℝ) < 1 := by
  norm_num

/-- doc example check: the first sample of `InfiniteSawtooth::new(5, 1.0, -1.0, 1)` is `1.0`
    (integer phase `(0 − 1) mod 5 = 4 = period − 1`) -/
example : out InfiniteSawtooth.next (InfiniteSawtooth.new 5 (1 : ℝ) (-1) 1) 0 = some 1 :=
  sawtooth_new_out_top 5 1 (-1) 1 (by norm_num) (by norm_num) 0 (by decide)

end Statrs.Props.C20
