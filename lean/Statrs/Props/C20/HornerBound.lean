/-
  C20 — "polynomial evaluation equals the exact polynomial value to within the Horner rounding bound"
  (`function::evaluate::polynomial`, src/function/evaluate.rs), for every carrier satisfying the standard model of
  floating-point arithmetic `StdModel α` (Draft/Lemmas/FloatStdModel) and hence for IEEE `Float`.

  With `x = toReal z`, `cᵢ = toReal coeff[i]`, `n = coeff.len()`, `d = n − 1`:
    * `polynomial_horner_bound`   : if the result is finite (no overflow anywhere — NaN/∞ are absorbing), then
          |toReal (polynomial z coeff) − Σ cᵢ xⁱ| ≤ ((1+u)^(2d) − 1)·Σ |cᵢ||x|ⁱ + (1+u)^(2d)·η·Σ_{i<d} |x|ⁱ
    * `polynomial_horner_bound_γ` : the same with Higham's `γ_{2n}` (Thm 5.1): `≤ γ_{2n}·Σ|cᵢ||x|ⁱ + (1+γ_{2n})·η·Σ_{i<d}|x|ⁱ`
    * `polynomial_fin_operands`   : a finite result has finite coefficients (and finite `z` when `n ≥ 2`)
    * `polynomial_fin_of_bound`   : no overflow when `(1+u)^(2d)·(Σ_{i≥j} |cᵢ||x|^(i−j) + η·Σ_{i<d}|x|ⁱ) ≤ 2^1023` for all `j`
    * `…_float`                   : the instances at `Float`.
  `u = 2^-53`, `η = 2^-1075` (the `η` term is the underflow of the multiplications; it vanishes over ℝ).
-/
import Statrs.Props.C20.Polynomial
import Statrs.Lemmas.FloatStdModelLemmas
import Statrs.Lemmas.FloatStdModelInst
namespace Statrs.Props.C20
open Statrs Statrs.Gen Statrs.Spec Statrs.Spec.FloatStd

/-! ### real arithmetic of one Horner step -/

/-- full(ℝ): error propagation through one step `s ↦ fl(c + fl(z·s))` -/
theorem horner_step_real {rc rz rs p pt A F δ1 ε1 δ2 : ℝ}
    (hδ1 : |δ1| ≤ u) (hε1 : |ε1| ≤ η) (hδ2 : |δ2| ≤ u)
    (he : |rs - p| ≤ (A - 1) * pt + F) (hp : |p| ≤ pt) (hA : 1 ≤ A) :
    |(rc + (rz * rs * (1 + δ1) + ε1)) * (1 + δ2) - (rc + rz * p)|
      ≤ (A * (1 + u) ^ 2 - 1) * (|rc| + |rz| * pt) + ((1 + u) ^ 2 * |rz| * F + (1 + u) * η) := by
  have hu := u_pos
  generalize hE : (A - 1) * pt + F = E at he
  have hE0 : 0 ≤ E := (abs_nonneg _).trans he
  have hpt : 0 ≤ pt := (abs_nonneg _).trans hp
  have h1 := abs_one_add_le hδ2
  have hrs : |rs| ≤ pt + E := by
    calc |rs| = |p + (rs - p)| := by congr 1; ring
      _ ≤ |p| + |rs - p| := abs_add_le _ _
      _ ≤ pt + E := add_le_add hp he
  have hcp : |rc + rz * p| ≤ |rc| + |rz| * pt := by
    calc |rc + rz * p| ≤ |rc| + |rz * p| := abs_add_le _ _
      _ ≤ |rc| + |rz| * pt := by
          rw [abs_mul]; exact add_le_add le_rfl (mul_le_mul_of_nonneg_left hp (abs_nonneg _))
  have hX : |(rc + rz * p) * δ2| ≤ (|rc| + |rz| * pt) * u := abs_mul_le_mul hcp hδ2
  have hY : |rz * (rs - p) * (1 + δ2)| ≤ |rz| * E * (1 + u) :=
    abs_mul_le_mul (abs_mul_le_mul le_rfl he) h1
  have hW : |rz * rs * δ1 * (1 + δ2)| ≤ |rz| * (pt + E) * u * (1 + u) :=
    abs_mul_le_mul (abs_mul_le_mul (abs_mul_le_mul le_rfl hrs) hδ1) h1
  have hV : |ε1 * (1 + δ2)| ≤ η * (1 + u) := abs_mul_le_mul hε1 h1
  have hid : (rc + (rz * rs * (1 + δ1) + ε1)) * (1 + δ2) - (rc + rz * p)
      = (rc + rz * p) * δ2 + rz * (rs - p) * (1 + δ2) + rz * rs * δ1 * (1 + δ2) + ε1 * (1 + δ2) := by
    ring
  rw [hid]
  have htri : |(rc + rz * p) * δ2 + rz * (rs - p) * (1 + δ2) + rz * rs * δ1 * (1 + δ2) + ε1 * (1 + δ2)|
      ≤ |(rc + rz * p) * δ2| + |rz * (rs - p) * (1 + δ2)| + |rz * rs * δ1 * (1 + δ2)| + |ε1 * (1 + δ2)| :=
    (abs_add_le _ _).trans (add_le_add ((abs_add_le _ _).trans (add_le_add (abs_add_le _ _) le_rfl)) le_rfl)
  have hfac : 0 ≤ A * (1 + u) ^ 2 - 1 - u := by nlinarith
  have hC : 0 ≤ |rc| * (A * (1 + u) ^ 2 - 1 - u) := mul_nonneg (abs_nonneg _) hfac
  have key : (A * (1 + u) ^ 2 - 1) * (|rc| + |rz| * pt) + ((1 + u) ^ 2 * |rz| * F + (1 + u) * η)
      - ((|rc| + |rz| * pt) * u + |rz| * E * (1 + u) + |rz| * (pt + E) * u * (1 + u) + η * (1 + u))
      = |rc| * (A * (1 + u) ^ 2 - 1 - u) := by
    rw [← hE]; ring
  linarith

/-- full(ℝ): `|Horner value| ≤` Horner value of the absolute values -/
theorem abs_horner_le (x last : ℝ) (l : List ℝ) :
    |l.foldr (fun c s => c + x * s) last| ≤ (l.map (|·|)).foldr (fun c s => c + |x| * s) |last| := by
  induction l with
  | nil => simp
  | cons c l ih =>
    simp only [List.foldr_cons, List.map_cons]
    calc _ ≤ |c| + |x * List.foldr (fun c s => c + x * s) last l| := abs_add_le _ _
      _ ≤ _ := by rw [abs_mul]; exact add_le_add le_rfl (mul_le_mul_of_nonneg_left ih (abs_nonneg _))

section generic
variable {α : Type} [Add α] [Sub α] [Mul α] [Div α] [Neg α] [LT α] [LE α] [BEq α]
  [DecidableLT α] [DecidableLE α] [OfScientific α] [Inhabited α] [RFun α]

omit [DecidableLT α] [DecidableLE α] [Inhabited α] in
/-- full(∀α, StdModel): Horner's recursion `c₀ ⊕ z ⊗ (c₁ ⊕ z ⊗ (… ⊕ z ⊗ last))` with a finite result: all operands are
    finite and the rounding error obeys the running bound -/
theorem horner_foldr_bound (M : StdModel α) (z last : α) (init : List α)
    (hfin : Fin (init.foldr (fun c s => c + z * s) last)) :
    Fin last ∧ (∀ c ∈ init, Fin c) ∧ (init ≠ [] → Fin z) ∧
    |M.toReal (init.foldr (fun c s => c + z * s) last)
        - (init.map M.toReal).foldr (fun c s => c + M.toReal z * s) (M.toReal last)|
      ≤ ((1 + u) ^ (2 * init.length) - 1)
          * ((init.map M.toReal).map (|·|)).foldr (fun c s => c + |M.toReal z| * s) |M.toReal last|
        + (1 + u) ^ (2 * init.length) * η * ∑ i ∈ Finset.range init.length, |M.toReal z| ^ i := by
  induction init with
  | nil => simpa using hfin
  | cons c l ih =>
    simp only [List.foldr_cons] at hfin
    have h1 := M.fin_of_add _ _ hfin
    have h2 := M.fin_of_mul _ _ h1.2
    obtain ⟨hl, hcs, _, hb⟩ := ih h2.2
    refine ⟨hl, ?_, fun _ => h2.1, ?_⟩
    · intro c' hc'
      rcases List.mem_cons.1 hc' with rfl | h
      · exact h1.1
      · exact hcs c' h
    · obtain ⟨δ1, ε1, hδ1, hε1, _, e1⟩ := M.mul_std _ _ h2.1 h2.2 h1.2
      obtain ⟨δ2, hδ2, e2⟩ := M.add_std _ _ h1.1 h1.2 hfin
      simp only [List.foldr_cons, List.map_cons, List.length_cons]
      rw [e2, e1]
      have hu := u_pos
      have hη := η_pos
      have hA := one_le_one_add_u_pow (2 * l.length)
      have hG : (0 : ℝ) ≤ ∑ i ∈ Finset.range l.length, |M.toReal z| ^ i :=
        Finset.sum_nonneg (fun i _ => by positivity)
      have hstep := horner_step_real (rc := M.toReal c) (rz := M.toReal z) hδ1 hε1 hδ2 hb
        (abs_horner_le _ _ _) hA
      refine hstep.trans ?_
      rw [geom_sum_succ, show 2 * (l.length + 1) = 2 * l.length + 2 by ring, pow_add]
      generalize (1 + u) ^ (2 * l.length) = A at hA ⊢
      generalize (∑ i ∈ Finset.range l.length, |M.toReal z| ^ i) = G at hG ⊢
      generalize List.foldr (fun c s => c + |M.toReal z| * s) |M.toReal last|
        (List.map (|·|) (List.map M.toReal l)) = T
      have hZ : 0 ≤ |M.toReal z| := abs_nonneg _
      generalize |M.toReal z| = Z at hZ ⊢
      have : 0 ≤ (1 + u) * η * (A * (1 + u) - 1) := by
        apply mul_nonneg (by positivity); nlinarith
      nlinarith [this]

/-- exact value `Σ cᵢ xⁱ` of a coefficient list -/
noncomputable def polyValue (cs : List ℝ) (x : ℝ) : ℝ :=
  ∑ i ∈ Finset.range cs.length, cs.getD i 0 * x ^ i

/-- full(ℝ): `polyValue` of `init ++ [last]` is the Horner recursion started at `last` -/
theorem polyValue_concat (init : List ℝ) (last x : ℝ) :
    polyValue (init ++ [last]) x = init.foldr (fun c s => c + x * s) last := by
  unfold polyValue
  rw [← horner_eq_sum, List.foldr_append]; simp

/-- full(∀α, StdModel): C20 — a finite result of `polynomial` is within the Horner rounding bound of the exact value
    `Σ cᵢ xⁱ` (`d = n − 1` is the degree; the `η` term accounts for underflow in the `d` multiplications) -/
theorem polynomial_horner_bound (M : StdModel α) (z : α) (coeff : List α)
    (hfin : Fin (F.evaluate.polynomial z coeff)) :
    |M.toReal (F.evaluate.polynomial z coeff) - polyValue (coeff.map M.toReal) (M.toReal z)|
      ≤ ((1 + u) ^ (2 * (coeff.length - 1)) - 1)
          * polyValue (coeff.map (fun c => |M.toReal c|)) |M.toReal z|
        + (1 + u) ^ (2 * (coeff.length - 1)) * η
          * ∑ i ∈ Finset.range (coeff.length - 1), |M.toReal z| ^ i := by
  rcases List.eq_nil_or_concat coeff with h | ⟨init, last, h⟩
  · subst h
    rw [polynomial_nil]
    simp [polyValue, M.toReal_zero]
  · subst h
    rw [List.concat_eq_append] at hfin ⊢
    rw [polynomial_horner] at hfin ⊢
    have hb := (horner_foldr_bound M z last init hfin).2.2.2
    rw [List.map_append, List.map_append, List.map_singleton, List.map_singleton, polyValue_concat,
      polyValue_concat]
    simpa [List.map_map, Function.comp_def] using hb

/-- full(∀α, StdModel): C20 — Higham's form of the Horner bound (ASNA Thm 5.1 / eq. (5.3)) with `γ_{2n} = 2n·u/(1−2n·u)` -/
theorem polynomial_horner_bound_γ (M : StdModel α) (z : α) (coeff : List α)
    (hfin : Fin (F.evaluate.polynomial z coeff)) (hn : ((2 * coeff.length : ℕ) : ℝ) * u < 1) :
    |M.toReal (F.evaluate.polynomial z coeff) - polyValue (coeff.map M.toReal) (M.toReal z)|
      ≤ γ (2 * coeff.length) * polyValue (coeff.map (fun c => |M.toReal c|)) |M.toReal z|
        + (1 + γ (2 * coeff.length)) * η * ∑ i ∈ Finset.range (coeff.length - 1), |M.toReal z| ^ i := by
  refine (polynomial_horner_bound M z coeff hfin).trans ?_
  have hle : 2 * (coeff.length - 1) ≤ 2 * coeff.length := by omega
  have hpow : (1 + u) ^ (2 * (coeff.length - 1)) ≤ 1 + γ (2 * coeff.length) :=
    (pow_le_pow_right₀ (by have := u_pos; linarith) hle).trans (one_add_u_pow_le hn)
  have hP : 0 ≤ polyValue (coeff.map (fun c => |M.toReal c|)) |M.toReal z| :=
    Finset.sum_nonneg (fun i _ => by
      apply mul_nonneg _ (by positivity)
      rw [List.getD_eq_getElem?_getD]
      cases h : (coeff.map (fun c => |M.toReal c|))[i]? with
      | none => simp
      | some v =>
        obtain ⟨c, _, rfl⟩ := List.mem_map.1 (List.mem_of_getElem? h)
        simp)
  have hG : (0 : ℝ) ≤ ∑ i ∈ Finset.range (coeff.length - 1), |M.toReal z| ^ i :=
    Finset.sum_nonneg (fun i _ => by positivity)
  have hη := η_pos
  apply add_le_add
  · exact mul_le_mul_of_nonneg_right (by linarith) hP
  · exact mul_le_mul_of_nonneg_right (mul_le_mul_of_nonneg_right hpow hη.le) hG

/-- full(∀α, StdModel): a finite result of `polynomial` has finite coefficients, and a finite argument when there are
    at least two coefficients (NaN and ±∞ are absorbing for `+` and `×`) -/
theorem polynomial_fin_operands (M : StdModel α) (z : α) (coeff : List α)
    (hfin : Fin (F.evaluate.polynomial z coeff)) :
    (∀ c ∈ coeff, Fin c) ∧ (2 ≤ coeff.length → Fin z) := by
  rcases List.eq_nil_or_concat coeff with h | ⟨init, last, h⟩
  · subst h; simp
  · subst h
    rw [List.concat_eq_append] at hfin ⊢
    rw [polynomial_horner] at hfin
    obtain ⟨h1, h2, h3, _⟩ := horner_foldr_bound M z last init hfin
    refine ⟨?_, fun hlen => h3 ?_⟩
    · intro c hc
      rcases List.mem_append.1 hc with h | h
      · exact h2 c h
      · rw [List.mem_singleton.1 h]; exact h1
    · rintro rfl; simp at hlen

omit [DecidableLT α] [DecidableLE α] [Inhabited α] in
/-- full(∀α, StdModel): Horner's recursion does not overflow when the running magnitude bound (evaluated at
    `max 1 |x|`, which dominates every partial Horner value) stays below `2^1023` -/
theorem horner_foldr_fin (M : StdModel α) (z last : α) (init : List α) (hz : Fin z) (hlast : Fin last)
    (hcs : ∀ c ∈ init, Fin c)
    (hb : (1 + u) ^ (2 * init.length)
        * (((init.map M.toReal).map (|·|)).foldr (fun c s => c + max 1 |M.toReal z| * s) |M.toReal last|
            + η * ∑ i ∈ Finset.range init.length, max 1 |M.toReal z| ^ i) ≤ big) :
    Fin (init.foldr (fun c s => c + z * s) last) ∧
    |M.toReal (init.foldr (fun c s => c + z * s) last)|
      ≤ (1 + u) ^ (2 * init.length)
        * (((init.map M.toReal).map (|·|)).foldr (fun c s => c + max 1 |M.toReal z| * s) |M.toReal last|
            + η * ∑ i ∈ Finset.range init.length, max 1 |M.toReal z| ^ i) := by
  induction init with
  | nil => simpa using hlast
  | cons c l ih =>
    simp only [List.foldr_cons, List.map_cons, List.length_cons] at hb ⊢
    rw [geom_sum_succ, show 2 * (l.length + 1) = 2 * l.length + 2 by ring, pow_add] at hb ⊢
    have hu := u_pos
    have hη := η_pos
    have hA := one_le_one_add_u_pow (2 * l.length)
    have hZ1 : (1 : ℝ) ≤ max 1 |M.toReal z| := le_max_left _ _
    have hZ : |M.toReal z| ≤ max 1 |M.toReal z| := le_max_right _ _
    have hG : (0 : ℝ) ≤ ∑ i ∈ Finset.range l.length, max 1 |M.toReal z| ^ i :=
      Finset.sum_nonneg (fun i _ => by positivity)
    have hT : 0 ≤ ((l.map M.toReal).map (|·|)).foldr (fun c s => c + max 1 |M.toReal z| * s) |M.toReal last| :=
      (abs_nonneg _).trans (abs_horner_le (max 1 |M.toReal z|) (M.toReal last) (l.map M.toReal) |>.trans
        (by rw [abs_of_nonneg (by positivity : (0 : ℝ) ≤ max 1 |M.toReal z|)]))
    have hc := hcs c (List.mem_cons_self)
    have hcs' : ∀ c' ∈ l, Fin c' := fun c' h => hcs c' (List.mem_cons_of_mem _ h)
    -- abbreviations
    generalize hAdef : (1 + u) ^ (2 * l.length) = A at hA hb ih ⊢
    generalize hGdef : (∑ i ∈ Finset.range l.length, max 1 |M.toReal z| ^ i) = G at hG hb ih ⊢
    generalize hTdef : List.foldr (fun c s => c + max 1 |M.toReal z| * s) |M.toReal last|
        (List.map (|·|) (List.map M.toReal l)) = T at hT hb ih ⊢
    generalize hZm : max 1 |M.toReal z| = Zm at hZ1 hZ hb ih ⊢
    have hC : 0 ≤ |M.toReal c| := abs_nonneg _
    generalize hCdef : |M.toReal c| = C at hC hb ⊢
    -- `B` bounds the tail value, `P = Zm·B` the product, `K = A(1+u)²`; the full bound is `P(1+u)² + K(C+η)`
    have hB0 : 0 ≤ A * (T + η * G) := by positivity
    generalize hBdef : A * (T + η * G) = B at hB0 ih
    have hKdef : A * (1 + u) ^ 2 * (C + Zm * T + η * (Zm * G + 1))
        = Zm * B * (1 + u) ^ 2 + A * (1 + u) ^ 2 * (C + η) := by rw [← hBdef]; ring
    rw [hKdef] at hb ⊢
    have hK : 1 + u ≤ A * (1 + u) ^ 2 := by nlinarith [mul_nonneg (sub_nonneg.2 hA) (by positivity : (0:ℝ) ≤ (1 + u) ^ 2)]
    generalize A * (1 + u) ^ 2 = K at hK hb ⊢
    have hP0 : 0 ≤ Zm * B := by positivity
    have hBP : B ≤ Zm * B := by nlinarith [mul_nonneg (sub_nonneg.2 hZ1) hB0]
    generalize hPdef : Zm * B = P at hP0 hBP hb ⊢
    have hK1 : 0 ≤ K - (1 + u) := sub_nonneg.2 hK
    have hPu : 0 ≤ P * u := by positivity
    have hPuu : 0 ≤ P * u * u := by positivity
    have hCK := mul_nonneg hC hK1
    have hηK := mul_nonneg hη.le hK1
    have hCu : 0 ≤ C * u := by positivity
    have hηu : 0 ≤ η * u := by positivity
    obtain ⟨hvl, hrvl⟩ := ih hcs' (by nlinarith)
    set vl := List.foldr (fun c s => c + z * s) last l with hvldef
    -- the product
    have hprod : |M.toReal z * M.toReal vl| ≤ P := by
      rw [← hPdef]; exact abs_mul_le_mul hZ hrvl
    have hmulfin : Fin (z * vl) := by
      apply M.mul_fin _ _ hz hvl
      refine hprod.trans (le_trans ?_ hb)
      nlinarith
    obtain ⟨δ1, ε1, hδ1, hε1, _, e1⟩ := M.mul_std _ _ hz hvl hmulfin
    have hmulabs : |M.toReal (z * vl)| ≤ P * (1 + u) + η := by
      rw [e1]
      exact (abs_add_le _ _).trans (add_le_add (abs_mul_le_mul hprod (abs_one_add_le hδ1)) hε1)
    have hsum : |M.toReal c + M.toReal (z * vl)| ≤ C + (P * (1 + u) + η) := by
      rw [← hCdef]; exact (abs_add_le _ _).trans (add_le_add le_rfl hmulabs)
    have hfinal : (C + (P * (1 + u) + η)) * (1 + u) ≤ P * (1 + u) ^ 2 + K * (C + η) := by
      nlinarith
    have haddfin : Fin (c + z * vl) := by
      apply M.add_fin _ _ hc hmulfin
      refine hsum.trans (le_trans ?_ hb)
      nlinarith
    refine ⟨haddfin, ?_⟩
    obtain ⟨δ2, hδ2, e2⟩ := M.add_std _ _ hc hmulfin haddfin
    rw [e2]
    exact (abs_mul_le_mul hsum (abs_one_add_le hδ2)).trans hfinal

/-- full(∀α, StdModel): C20 — `polynomial` does not overflow when
    `(1+u)^(2d) (Σ |cᵢ| X^i + η Σ_{i<d} X^i) ≤ 2^1023` with `X = max 1 |x|`, `d = n − 1` -/
theorem polynomial_fin_of_bound (M : StdModel α) (z : α) (coeff : List α) (hz : Fin z)
    (hc : ∀ c ∈ coeff, Fin c)
    (hb : (1 + u) ^ (2 * (coeff.length - 1))
        * (polyValue (coeff.map (fun c => |M.toReal c|)) (max 1 |M.toReal z|)
            + η * ∑ i ∈ Finset.range (coeff.length - 1), max 1 |M.toReal z| ^ i) ≤ big) :
    Fin (F.evaluate.polynomial z coeff) := by
  rcases List.eq_nil_or_concat coeff with h | ⟨init, last, h⟩
  · subst h; rw [polynomial_nil]; exact M.zero_fin
  · subst h
    rw [List.concat_eq_append] at hb hc ⊢
    rw [polynomial_horner]
    refine (horner_foldr_fin M z last init hz (hc last (by simp)) (fun c h => hc c (by simp [h])) ?_).1
    rw [List.map_append, List.map_singleton, polyValue_concat] at hb
    simpa [List.map_map, Function.comp_def] using hb

end generic

/-! ### the instances at IEEE `Float` -/
open Statrs.Lemmas.FloatModel (toReal stdModel_float)

/-- full(Float): C20 — over IEEE binary64 a finite result of `polynomial` is within the Horner rounding bound of
    the exact polynomial value (`toReal` = the real value of a finite float) -/
theorem polynomial_horner_bound_float (z : Float) (coeff : List Float)
    (hfin : Fin (F.evaluate.polynomial z coeff)) :
    |toReal (F.evaluate.polynomial z coeff) - polyValue (coeff.map toReal) (toReal z)|
      ≤ ((1 + u) ^ (2 * (coeff.length - 1)) - 1) * polyValue (coeff.map (fun c => |toReal c|)) |toReal z|
        + (1 + u) ^ (2 * (coeff.length - 1)) * η * ∑ i ∈ Finset.range (coeff.length - 1), |toReal z| ^ i :=
  polynomial_horner_bound stdModel_float z coeff hfin

/-- full(Float): C20 — Higham's `γ_{2n}` form over IEEE binary64 (any slice shorter than `2^52`) -/
theorem polynomial_horner_bound_γ_float (z : Float) (coeff : List Float)
    (hfin : Fin (F.evaluate.polynomial z coeff)) (hn : coeff.length < 2 ^ 52) :
    |toReal (F.evaluate.polynomial z coeff) - polyValue (coeff.map toReal) (toReal z)|
      ≤ γ (2 * coeff.length) * polyValue (coeff.map (fun c => |toReal c|)) |toReal z|
        + (1 + γ (2 * coeff.length)) * η * ∑ i ∈ Finset.range (coeff.length - 1), |toReal z| ^ i := by
  refine polynomial_horner_bound_γ stdModel_float z coeff hfin ?_
  rw [u_eq]
  have : ((2 * coeff.length : ℕ) : ℝ) < (2 : ℝ) ^ (53 : ℕ) := by
    have : 2 * coeff.length < 2 ^ 53 := by omega
    exact_mod_cast this
  rw [mul_one_div, div_lt_one (by positivity)]
  exact this

/-- full(Float): a finite result has finite coefficients, and a finite `z` when `n ≥ 2` -/
theorem polynomial_fin_operands_float (z : Float) (coeff : List Float)
    (hfin : Fin (F.evaluate.polynomial z coeff)) :
    (∀ c ∈ coeff, Fin c) ∧ (2 ≤ coeff.length → Fin z) :=
  polynomial_fin_operands stdModel_float z coeff hfin

/-- full(Float): no overflow under the magnitude bound -/
theorem polynomial_fin_of_bound_float (z : Float) (coeff : List Float) (hz : Fin z)
    (hc : ∀ c ∈ coeff, Fin c)
    (hb : (1 + u) ^ (2 * (coeff.length - 1))
        * (polyValue (coeff.map (fun c => |toReal c|)) (max 1 |toReal z|)
            + η * ∑ i ∈ Finset.range (coeff.length - 1), max 1 |toReal z| ^ i) ≤ big) :
    Fin (F.evaluate.polynomial z coeff) :=
  polynomial_fin_of_bound stdModel_float z coeff hz hc hb

/-- non-vacuity: the doc example `polynomial(2, [3,-1,2])` is finite over `Float` (so the bound applies to it) -/
example : Fin (F.evaluate.polynomial (2.0 : Float) [3.0, -1.0, 2.0]) := by decide

/-- over ℝ (error-free standard model) the hypotheses are satisfied by every input -/
example (z : ℝ) (coeff : List ℝ) : Fin (F.evaluate.polynomial z coeff) := rfl

end Statrs.Props.C20
