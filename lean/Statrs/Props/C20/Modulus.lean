/-
  C20 — `Modulus::modulus` returns the canonical residue (src/euclid.rs).

  Integer models: Rust `i64/i32/u64/u32` are `Int` in the model, `%` is `smod`/`umod`
  (truncated / Euclidean remainder, `panicInt` sentinel on a zero divisor).  The theorems below are
  statements over UNBOUNDED `Int`: they say what `((x % d) + d) % d` computes mathematically.
  In Rust the intermediate `(x % d) + d` is evaluated in the machine type and can overflow
  (panic in debug / wrap in release); that is outside `*_modulus_canonical*` and is characterised
  exactly by `i64_modulus_intermediate_overflow_iff` / `u64_modulus_intermediate_overflow_iff`,
  with concrete witnesses.  (Additionally Rust's own `i64::MIN % -1` panics; the model returns 0.)

  Strength: full(∀α) for the integer theorems (the carrier is not used by them), full(ℝ) for `f64`.
-/
import Statrs.Lemmas.FunctionLayer
import Statrs.Gen.R_euclid
namespace Statrs.Props.C20
open Statrs Statrs.Gen Statrs.Lemmas.FunctionLayer

section int
variable {α : Type} [Add α] [Sub α] [Mul α] [Div α] [Neg α] [LT α] [LE α] [BEq α]
  [DecidableLT α] [DecidableLE α] [OfScientific α] [Inhabited α] [RFun α]

/-- i64, `d > 0`: `r = x.modulus(d)` is the residue in `[0, d)` with `d ∣ x - r`.
    Unbounded-`Int` statement: overflow of the intermediate `(x % d) + d` in `i64` is NOT covered
    (see `i64_modulus_intermediate_overflow_iff`). -/
theorem i64_modulus_canonical_pos (x d : Int) (hd : 0 < d) :
    0 ≤ i64.modulus (α := α) x d ∧ i64.modulus (α := α) x d < d ∧ d ∣ x - i64.modulus (α := α) x d := by
  have hd0 : d ≠ 0 := by omega
  simp only [i64.modulus, smod, if_neg hd0]
  exact tmod_canon_pos x d hd

/-- i64, `d < 0`: the residue has the sign of `d`: `d < r ≤ 0` and `d ∣ x - r`
    (unbounded `Int`; intermediate overflow not covered). -/
theorem i64_modulus_canonical_neg (x d : Int) (hd : d < 0) :
    d < i64.modulus (α := α) x d ∧ i64.modulus (α := α) x d ≤ 0 ∧ d ∣ x - i64.modulus (α := α) x d := by
  have hd0 : d ≠ 0 := by omega
  simp only [i64.modulus, smod, if_neg hd0]
  exact tmod_canon_neg x d hd

/-- i64, `d = 0`: the model reports Rust's division-by-zero panic (sentinel). -/
theorem i64_modulus_zero_divisor (x : Int) : i64.modulus (α := α) x 0 = panicInt := by
  simp [i64.modulus, smod]

/-- i32: same body as i64. -/
theorem i32_modulus_canonical_pos (x d : Int) (hd : 0 < d) :
    0 ≤ i32.modulus (α := α) x d ∧ i32.modulus (α := α) x d < d ∧ d ∣ x - i32.modulus (α := α) x d := by
  have hd0 : d ≠ 0 := by omega
  simp only [i32.modulus, smod, if_neg hd0]
  exact tmod_canon_pos x d hd

theorem i32_modulus_canonical_neg (x d : Int) (hd : d < 0) :
    d < i32.modulus (α := α) x d ∧ i32.modulus (α := α) x d ≤ 0 ∧ d ∣ x - i32.modulus (α := α) x d := by
  have hd0 : d ≠ 0 := by omega
  simp only [i32.modulus, smod, if_neg hd0]
  exact tmod_canon_neg x d hd

/-- u64 (`d > 0` is the only non-panicking case): residue in `[0, d)`, `d ∣ x - r`
    (unbounded `Int`; overflow of `(x % d) + d` in `u64` not covered, see
    `u64_modulus_intermediate_overflow_iff`). -/
theorem u64_modulus_canonical (x d : Int) (hd : 0 < d) :
    0 ≤ u64.modulus (α := α) x d ∧ u64.modulus (α := α) x d < d ∧ d ∣ x - u64.modulus (α := α) x d := by
  have hd0 : d ≠ 0 := by omega
  simp only [u64.modulus, umod, if_neg hd0]
  exact emod_canon_pos x d hd

theorem u32_modulus_canonical (x d : Int) (hd : 0 < d) :
    0 ≤ u32.modulus (α := α) x d ∧ u32.modulus (α := α) x d < d ∧ d ∣ x - u32.modulus (α := α) x d := by
  have hd0 : d ≠ 0 := by omega
  simp only [u32.modulus, umod, if_neg hd0]
  exact emod_canon_pos x d hd

/-- the residue is unique, so `modulus` agrees with Lean's Euclidean `%` for `d > 0` -/
theorem i64_modulus_eq_emod (x d : Int) (hd : 0 < d) : i64.modulus (α := α) x d = x % d := by
  obtain ⟨h0, h1, h2⟩ := i64_modulus_canonical_pos (α := α) x d hd
  have e : x % d = (i64.modulus (α := α) x d) % d := (Int.emod_eq_emod_iff_emod_sub_eq_zero.mpr
    (Int.emod_eq_zero_of_dvd h2))
  rw [e, Int.emod_eq_of_lt h0 h1]

example : ∃ x d : Int, 0 < d ∧ i64.modulus (α := α) x d = 1 := ⟨-4, 5, by decide, rfl⟩
example : ∃ x d : Int, d < 0 ∧ i64.modulus (α := α) x d = -1 := ⟨4, -5, by decide, rfl⟩

end int

/-! ### overflow of the intermediate `(x % d) + d` in the machine type -/

/-- The intermediate value `(x % d) + d` that Rust evaluates in `i64` (model: `smod x d + d`). -/
def i64Intermediate (x d : Int) : Int := smod x d + d

/-- EXACT overflow set: for in-range operands and `d ≠ 0`, the intermediate leaves the `i64` range
    iff `x` and `d` have the same sign, `|x| < |d|`, and `x + d` itself overflows. -/
theorem i64_modulus_intermediate_overflow_iff (x d : Int)
    (hx : i64Min ≤ x ∧ x ≤ i64Max) (hd : i64Min ≤ d ∧ d ≤ i64Max) (hd0 : d ≠ 0) :
    ¬ (i64Min ≤ i64Intermediate x d ∧ i64Intermediate x d ≤ i64Max) ↔
      ((0 ≤ x ∧ x < d ∧ i64Max < x + d) ∨ (d < x ∧ x ≤ 0 ∧ x + d < i64Min)) := by
  simp only [i64Intermediate, smod, if_neg hd0]
  simp only [i64Min, i64Max] at *
  rcases lt_or_gt_of_ne hd0 with hneg | hpos
  · have h := tmod_add_lt_iff x d (-9223372036854775808) hneg hx.1 hd.1
    have hup : Int.tmod x d + d ≤ 9223372036854775807 := by
      have : Int.tmod x d < -d := by
        rw [← Int.tmod_neg]; exact Int.tmod_lt_of_pos x (by omega)
      omega
    constructor
    · intro h'
      right; apply h.mp; by_contra hc; exact h' ⟨by omega, hup⟩
    · rintro (h' | h') h''
      · omega
      · have := h.mpr h'; omega
  · have h := tmod_add_gt_iff x d 9223372036854775807 hpos hx.2 hd.2
    have hlo : -9223372036854775808 ≤ Int.tmod x d + d := by
      have := Int.lt_tmod_of_pos x hpos
      omega
    constructor
    · intro h'
      left; apply h.mp; by_contra hc; exact h' ⟨hlo, by omega⟩
    · rintro (h' | h') h''
      · have := h.mpr h'; omega
      · omega

/-- The overflow set is non-empty: `(i64::MAX - 1).modulus(i64::MAX)` needs `2·i64::MAX - 1`
    as intermediate (Rust: panic `attempt to add with overflow` in debug, wrapped result in release),
    although the mathematical answer `i64::MAX - 1` is representable. -/
theorem i64_modulus_intermediate_overflow_witness :
    i64Min ≤ i64Max - 1 ∧ i64Max - 1 ≤ i64Max ∧ i64Max ≠ 0 ∧
    i64Max < i64Intermediate (i64Max - 1) i64Max ∧
    i64.modulus (α := ℝ) (i64Max - 1) i64Max = i64Max - 1 := by
  refine ⟨by decide, by decide, by decide, by decide, by decide⟩

/-- negative-side witness: `(i64::MIN + 1).modulus(i64::MIN)` underflows the intermediate. -/
theorem i64_modulus_intermediate_underflow_witness :
    i64Intermediate (i64Min + 1) i64Min < i64Min ∧
    i64.modulus (α := ℝ) (i64Min + 1) i64Min = i64Min + 1 := by
  refine ⟨by decide, by decide⟩

/-- Model limit (reported): Rust's `i64::MIN % -1` itself panics ("attempt to calculate the remainder
    with overflow"), so `i64::MIN.modulus(-1)` panics in Rust, while the model's `smod` is plain
    `Int.tmod` and yields the mathematically correct residue 0.  Outside every theorem above only in
    the sense that Rust does not return a value there. -/
theorem i64_modulus_min_neg_one_model : i64.modulus (α := ℝ) i64Min (-1) = 0 := by decide

/-- `u64`: the intermediate `(x % d) + d`. -/
def u64Intermediate (x d : Int) : Int := umod x d + d

theorem u64_modulus_intermediate_overflow_iff (x d : Int)
    (hx : 0 ≤ x ∧ x ≤ u64Max) (hd : 0 < d ∧ d ≤ u64Max) :
    u64Max < u64Intermediate x d ↔ (x < d ∧ u64Max < x + d) := by
  have hd0 : d ≠ 0 := by omega
  simp only [u64Intermediate, umod, if_neg hd0]
  exact emod_add_gt_iff x d u64Max hd.1 hx.1 hx.2 hd.2

theorem u64_modulus_intermediate_overflow_witness :
    u64Max < u64Intermediate (u64Max - 1) u64Max ∧
    u64.modulus (α := ℝ) (u64Max - 1) u64Max = u64Max - 1 := by
  refine ⟨by decide, by decide⟩

/-! ### `f64` over ℝ (`%` = truncated remainder `RFun.fmod`) -/

/-- f64 over ℝ, `d > 0`: `r = x.modulus(d)` lies in `[0, d)` and `x - r` is an integer multiple of `d`. -/
theorem f64_modulus_canonical_pos (x d : ℝ) (hd : 0 < d) :
    0 ≤ f64.modulus x d ∧ f64.modulus x d < d ∧ ∃ k : ℤ, x - f64.modulus x d = d * k := by
  unfold f64.modulus
  obtain ⟨h1, h2⟩ := fmod_bounds x d hd
  obtain ⟨h3, h4⟩ := fmod_floor_pos (RFun.fmod x d + d) d hd (by linarith)
  obtain ⟨k1, e1⟩ := fmod_sub_int x d
  obtain ⟨k2, e2⟩ := fmod_sub_int (RFun.fmod x d + d) d
  refine ⟨h3, h4, k1 + k2 - 1, ?_⟩
  push_cast
  linarith

/-- f64 over ℝ, `d < 0`: `d < r ≤ 0` and `x - r` is an integer multiple of `d`. -/
theorem f64_modulus_canonical_neg (x d : ℝ) (hd : d < 0) :
    d < f64.modulus x d ∧ f64.modulus x d ≤ 0 ∧ ∃ k : ℤ, x - f64.modulus x d = d * k := by
  unfold f64.modulus
  obtain ⟨h1, h2⟩ := fmod_bounds_neg x d hd
  obtain ⟨h3, h4⟩ := fmod_floor_neg (RFun.fmod x d + d) d hd (by linarith)
  obtain ⟨k1, e1⟩ := fmod_sub_int x d
  obtain ⟨k2, e2⟩ := fmod_sub_int (RFun.fmod x d + d) d
  refine ⟨h3, h4, k1 + k2 - 1, ?_⟩
  push_cast
  linarith

example : 0 ≤ f64.modulus (-4 : ℝ) 5 ∧ f64.modulus (-4 : ℝ) 5 < 5 :=
  ⟨(f64_modulus_canonical_pos (-4) 5 (by norm_num)).1, (f64_modulus_canonical_pos (-4) 5 (by norm_num)).2.1⟩

end Statrs.Props.C20
