/-
  C20 — `Modulus::modulus` returns the canonical residue (src/euclid.rs), for every representable
  operand without overflow.

  Integer models: Rust `i64/i32/u64/u32` are `Int` in the model, `%` is `smod`/`umod`
  (truncated / Euclidean remainder, `panicInt` sentinel on a zero divisor).  The source computes
  (signed)   `if d == -1 { return 0 }; let r = x % d; if sign(r) ≠ sign(d) { r + d } else { r }`
  (unsigned) `x % d`.
  `*_modulus_canonical_*` say that this is the canonical residue (over `Int`, every `x`, every
  `d ≠ 0`).  `*_modulus_no_intermediate_overflow` say that for operands in the machine range every
  value the code computes on the way (`x % d`, and `r + d` in the branch where it is evaluated) and
  the result are in the machine range, and that the only overflowing `%` of the type
  (`MIN % -1`) is never evaluated because of the `d == -1` early return.  `*_modulus_unfold` (by
  `rfl`) pin the shape of the generated definition these intermediate values are read from.

  Strength: full(∀α) for the integer theorems (the carrier is not used by them), full(ℝ) for `f64`.
-/
import Statrs.Lemmas.FunctionLayer
import Statrs.Lemmas.IntegerPaths
import Statrs.Gen.R_euclid
namespace Statrs.Props.C20
open Statrs Statrs.Gen Statrs.Lemmas.FunctionLayer Statrs.Lemmas.IntegerPaths

/-- `v` is representable in `u32` (`InI64`, `InI32`, `InU64` are in `Lemmas/IntegerPaths`) -/
def InU32 (v : Int) : Prop := 0 ≤ v ∧ v ≤ 4294967295

/-- the sign test of the signed impls: `(r < 0 && d > 0) || (r > 0 && d < 0)` -/
abbrev SignMismatch (r d : Int) : Prop := (r < 0 ∧ 0 < d) ∨ (0 < r ∧ d < 0)

/-! ### the adjusted truncated remainder on `Int` -/

private theorem tmod_adj_pos (x d : Int) (hd : 0 < d) :
    0 ≤ (if SignMismatch (Int.tmod x d) d then Int.tmod x d + d else Int.tmod x d) ∧
    (if SignMismatch (Int.tmod x d) d then Int.tmod x d + d else Int.tmod x d) < d ∧
    d ∣ x - (if SignMismatch (Int.tmod x d) d then Int.tmod x d + d else Int.tmod x d) := by
  have h1 := Int.lt_tmod_of_pos x hd
  have h2 := Int.tmod_lt_of_pos x hd
  have h3 : d ∣ x - Int.tmod x d := Int.dvd_self_sub_tmod
  unfold SignMismatch
  split_ifs with hc
  · refine ⟨by omega, by omega, ?_⟩
    have e : x - (Int.tmod x d + d) = (x - Int.tmod x d) - d := by ring
    rw [e]; exact Int.dvd_sub h3 (Int.dvd_refl d)
  · exact ⟨by omega, h2, h3⟩

private theorem tmod_adj_neg (x d : Int) (hd : d < 0) :
    d < (if SignMismatch (Int.tmod x d) d then Int.tmod x d + d else Int.tmod x d) ∧
    (if SignMismatch (Int.tmod x d) d then Int.tmod x d + d else Int.tmod x d) ≤ 0 ∧
    d ∣ x - (if SignMismatch (Int.tmod x d) d then Int.tmod x d + d else Int.tmod x d) := by
  have hd' : 0 < -d := by omega
  have h1 : d < Int.tmod x d := by
    have := Int.lt_tmod_of_pos x hd'
    rw [Int.tmod_neg] at this; omega
  have h2 : Int.tmod x d < -d := by rw [← Int.tmod_neg]; exact Int.tmod_lt_of_pos x hd'
  have h3 : d ∣ x - Int.tmod x d := Int.dvd_self_sub_tmod
  unfold SignMismatch
  split_ifs with hc
  · refine ⟨by omega, by omega, ?_⟩
    have e : x - (Int.tmod x d + d) = (x - Int.tmod x d) - d := by ring
    rw [e]; exact Int.dvd_sub h3 (Int.dvd_refl d)
  · exact ⟨h1, by omega, h3⟩

/-- `|x tmod d| < |d|` and, in the branch where it is evaluated, `(x tmod d) + d` lies strictly
    between `0` and `d`; so both are in every two's-complement range `[-(hi+1), hi]` that
    contains `d` (whatever `x` is). -/
private theorem tmod_intermediates_in (x d lo hi : Int) (hd0 : d ≠ 0) (hsym : lo = -(hi + 1))
    (hd : lo ≤ d ∧ d ≤ hi) :
    (lo ≤ Int.tmod x d ∧ Int.tmod x d ≤ hi) ∧
    (SignMismatch (Int.tmod x d) d → lo ≤ Int.tmod x d + d ∧ Int.tmod x d + d ≤ hi) := by
  unfold SignMismatch
  rcases lt_or_gt_of_ne hd0 with hneg | hpos
  · have hd' : 0 < -d := by omega
    have h1 : d < Int.tmod x d := by
      have := Int.lt_tmod_of_pos x hd'
      rw [Int.tmod_neg] at this; omega
    have h2 : Int.tmod x d < -d := by rw [← Int.tmod_neg]; exact Int.tmod_lt_of_pos x hd'
    exact ⟨⟨by omega, by omega⟩, fun hc => ⟨by omega, by omega⟩⟩
  · have h1 := Int.lt_tmod_of_pos x hpos
    have h2 := Int.tmod_lt_of_pos x hpos
    exact ⟨⟨by omega, by omega⟩, fun hc => ⟨by omega, by omega⟩⟩

section int
variable {α : Type} [Add α] [Sub α] [Mul α] [Div α] [Neg α] [LT α] [LE α] [BEq α]
  [DecidableLT α] [DecidableLE α] [OfScientific α] [Inhabited α] [RFun α]

/-! ### i64 -/

/-- shape of the generated `i64.modulus` (the values named in the no-overflow theorem are exactly
    the ones this definition computes) -/
theorem i64_modulus_unfold (x d : Int) :
    i64.modulus (α := α) x d =
      if d = -1 then 0 else if SignMismatch (smod x d) d then smod x d + d else smod x d := rfl

/-- i64, `d > 0`: `r = x.modulus(d)` is the residue in `[0, d)` with `d ∣ x - r`, for every `x`. -/
theorem i64_modulus_canonical_pos (x d : Int) (hd : 0 < d) :
    0 ≤ i64.modulus (α := α) x d ∧ i64.modulus (α := α) x d < d ∧ d ∣ x - i64.modulus (α := α) x d := by
  have hd0 : d ≠ 0 := by omega
  have hd1 : d ≠ -1 := by omega
  simp only [i64_modulus_unfold, smod, if_neg hd0, if_neg hd1]
  exact tmod_adj_pos x d hd

/-- i64, `d < 0`: the residue has the sign of `d`: `d < r ≤ 0` and `d ∣ x - r`, for every `x`
    (including `d = -1`, where the early return gives `0`). -/
theorem i64_modulus_canonical_neg (x d : Int) (hd : d < 0) :
    d < i64.modulus (α := α) x d ∧ i64.modulus (α := α) x d ≤ 0 ∧ d ∣ x - i64.modulus (α := α) x d := by
  have hd0 : d ≠ 0 := by omega
  by_cases hd1 : d = -1
  · subst hd1
    simp [i64_modulus_unfold]
  · simp only [i64_modulus_unfold, smod, if_neg hd0, if_neg hd1]
    exact tmod_adj_neg x d hd

/-- i64, `d = 0`: the model reports Rust's division-by-zero panic (sentinel). -/
theorem i64_modulus_zero_divisor (x : Int) : i64.modulus (α := α) x 0 = panicInt := by
  simp [i64.modulus, smod]

/-- i64, `d = -1`: early return `0` for every `x`; no `%` is evaluated, in particular not the
    overflowing `i64::MIN % -1`. -/
theorem i64_modulus_neg_one (x : Int) : i64.modulus (α := α) x (-1) = 0 := by
  simp [i64_modulus_unfold]

/-- NO OVERFLOW (i64): for `d ≠ 0` in range (and ANY `x`, in particular every `x` in range)
    * where `%` is evaluated (`d ≠ -1`) it is not the overflowing `MIN % -1`, and `r = x % d` is in range;
    * where `r + d` is evaluated (sign mismatch) it is in range;
    * the result is in range. -/
theorem i64_modulus_no_intermediate_overflow (x d : Int) (hd : InI64 d) (hd0 : d ≠ 0) :
    (d ≠ -1 → ¬ (x = i64Min ∧ d = -1) ∧ InI64 (smod x d) ∧
      (SignMismatch (smod x d) d → InI64 (smod x d + d))) ∧
    InI64 (i64.modulus (α := α) x d) := by
  have hr := tmod_intermediates_in x d i64Min i64Max hd0 (by decide) hd
  have hres : InI64 (i64.modulus (α := α) x d) := by
    rw [i64_modulus_unfold]
    split_ifs with h1 hc
    · exact ⟨by decide, by decide⟩
    · simp only [smod, if_neg hd0] at hc ⊢; exact hr.2 hc
    · simp only [smod, if_neg hd0]; exact hr.1
  refine ⟨fun h1 => ⟨fun h => h1 h.2, ?_, ?_⟩, hres⟩
  · simp only [smod, if_neg hd0]; exact hr.1
  · simp only [smod, if_neg hd0]; exact hr.2

/-! ### i32 (same body as i64) -/

theorem i32_modulus_unfold (x d : Int) :
    i32.modulus (α := α) x d =
      if d = -1 then 0 else if SignMismatch (smod x d) d then smod x d + d else smod x d := rfl

theorem i32_modulus_canonical_pos (x d : Int) (hd : 0 < d) :
    0 ≤ i32.modulus (α := α) x d ∧ i32.modulus (α := α) x d < d ∧ d ∣ x - i32.modulus (α := α) x d :=
  i64_modulus_canonical_pos (α := α) x d hd

theorem i32_modulus_canonical_neg (x d : Int) (hd : d < 0) :
    d < i32.modulus (α := α) x d ∧ i32.modulus (α := α) x d ≤ 0 ∧ d ∣ x - i32.modulus (α := α) x d :=
  i64_modulus_canonical_neg (α := α) x d hd

theorem i32_modulus_zero_divisor (x : Int) : i32.modulus (α := α) x 0 = panicInt :=
  i64_modulus_zero_divisor (α := α) x

theorem i32_modulus_neg_one (x : Int) : i32.modulus (α := α) x (-1) = 0 :=
  i64_modulus_neg_one (α := α) x

/-- NO OVERFLOW (i32): as `i64_modulus_no_intermediate_overflow`, in the `i32` range. -/
theorem i32_modulus_no_intermediate_overflow (x d : Int) (hd : InI32 d) (hd0 : d ≠ 0) :
    (d ≠ -1 → ¬ (x = i32Min ∧ d = -1) ∧ InI32 (smod x d) ∧
      (SignMismatch (smod x d) d → InI32 (smod x d + d))) ∧
    InI32 (i32.modulus (α := α) x d) := by
  have hr := tmod_intermediates_in x d i32Min i32Max hd0 (by decide) hd
  have hres : InI32 (i32.modulus (α := α) x d) := by
    rw [i32_modulus_unfold]
    split_ifs with h1 hc
    · exact ⟨by decide, by decide⟩
    · simp only [smod, if_neg hd0] at hc ⊢; exact hr.2 hc
    · simp only [smod, if_neg hd0]; exact hr.1
  refine ⟨fun h1 => ⟨fun h => h1 h.2, ?_, ?_⟩, hres⟩
  · simp only [smod, if_neg hd0]; exact hr.1
  · simp only [smod, if_neg hd0]; exact hr.2

/-! ### u64 / u32 -/

/-- shape of the generated unsigned impls: a single `%`, no addition at all -/
theorem u64_modulus_unfold (x d : Int) : u64.modulus (α := α) x d = umod x d := rfl
theorem u32_modulus_unfold (x d : Int) : u32.modulus (α := α) x d = umod x d := rfl

/-- u64 (`d > 0` is the only non-panicking case): residue in `[0, d)`, `d ∣ x - r`. -/
theorem u64_modulus_canonical (x d : Int) (hd : 0 < d) :
    0 ≤ u64.modulus (α := α) x d ∧ u64.modulus (α := α) x d < d ∧ d ∣ x - u64.modulus (α := α) x d := by
  have hd0 : d ≠ 0 := by omega
  simp only [u64.modulus, umod, if_neg hd0]
  exact ⟨Int.emod_nonneg _ hd0, Int.emod_lt_of_pos _ hd, Int.dvd_self_sub_emod⟩

theorem u32_modulus_canonical (x d : Int) (hd : 0 < d) :
    0 ≤ u32.modulus (α := α) x d ∧ u32.modulus (α := α) x d < d ∧ d ∣ x - u32.modulus (α := α) x d :=
  u64_modulus_canonical (α := α) x d hd

theorem u64_modulus_zero_divisor (x : Int) : u64.modulus (α := α) x 0 = panicInt := by
  simp [u64.modulus, umod]

theorem u32_modulus_zero_divisor (x : Int) : u32.modulus (α := α) x 0 = panicInt := by
  simp [u32.modulus, umod]

/-- NO OVERFLOW (u64): the only value computed is `x % d`, which is the result and lies in
    `[0, d) ⊆ [0, u64::MAX]` (unsigned `%` cannot overflow; no `+ d` is evaluated any more). -/
theorem u64_modulus_no_intermediate_overflow (x d : Int) (hd : InU64 d) (hd0 : d ≠ 0) :
    u64.modulus (α := α) x d = umod x d ∧ InU64 (umod x d) ∧ InU64 (u64.modulus (α := α) x d) := by
  have hpos : 0 < d := by have := hd.1; omega
  obtain ⟨h0, h1, _⟩ := u64_modulus_canonical (α := α) x d hpos
  have : InU64 (u64.modulus (α := α) x d) := ⟨h0, by have := hd.2; omega⟩
  exact ⟨rfl, this, this⟩

theorem u32_modulus_no_intermediate_overflow (x d : Int) (hd : InU32 d) (hd0 : d ≠ 0) :
    u32.modulus (α := α) x d = umod x d ∧ InU32 (umod x d) ∧ InU32 (u32.modulus (α := α) x d) := by
  have hpos : 0 < d := by have := hd.1; omega
  obtain ⟨h0, h1, _⟩ := u32_modulus_canonical (α := α) x d hpos
  have : InU32 (u32.modulus (α := α) x d) := ⟨h0, by have := hd.2; omega⟩
  exact ⟨rfl, this, this⟩

/-- the residue is unique, so `modulus` agrees with Lean's Euclidean `%` for `d > 0` -/
theorem i64_modulus_eq_emod (x d : Int) (hd : 0 < d) : i64.modulus (α := α) x d = x % d := by
  obtain ⟨h0, h1, h2⟩ := i64_modulus_canonical_pos (α := α) x d hd
  have e : x % d = (i64.modulus (α := α) x d) % d := (Int.emod_eq_emod_iff_emod_sub_eq_zero.mpr
    (Int.emod_eq_zero_of_dvd h2))
  rw [e, Int.emod_eq_of_lt h0 h1]

example : ∃ x d : Int, 0 < d ∧ i64.modulus (α := α) x d = 1 := ⟨-4, 5, by decide, rfl⟩
example : ∃ x d : Int, d < 0 ∧ i64.modulus (α := α) x d = -1 := ⟨4, -5, by decide, rfl⟩

end int

/-- the operands on which the OLD formula `((x % d) + d) % d` overflowed are now computed
    without leaving the range, with the canonical result -/
example : i64.modulus (α := ℝ) (i64Max - 1) i64Max = i64Max - 1 ∧
    ¬ SignMismatch (smod (i64Max - 1) i64Max) i64Max := by
  refine ⟨by decide, by decide⟩
example : i64.modulus (α := ℝ) (i64Min + 1) i64Min = i64Min + 1 ∧
    ¬ SignMismatch (smod (i64Min + 1) i64Min) i64Min := by
  refine ⟨by decide, by decide⟩
example : i64.modulus (α := ℝ) i64Min (-1) = 0 := i64_modulus_neg_one (α := ℝ) _
example : u64.modulus (α := ℝ) (u64Max - 1) u64Max = u64Max - 1 := by decide
/-- non-vacuity of the no-overflow hypotheses -/
example : InI64 i64Min ∧ i64Min ≠ 0 ∧ InI32 i32Min ∧ InU64 u64Max := by
  refine ⟨⟨by decide, by decide⟩, by decide, ⟨by decide, by decide⟩, ⟨by decide, by decide⟩⟩


/-! ### `f64` over ℝ (`%` = truncated remainder `RFun.fmod`, exact over ℝ)

  Source: `let r = x % d; if sign(r) ≠ sign(d) { let s = r + d; if s == d { 0.0 } else { s } } else { r }`.
  The inner guard `s == d` only exists for floating-point rounding (`r + d` can round up to `d` when
  `r` is tiny); over ℝ it can never fire in that branch because `r ≠ 0` there
  (`f64_modulus_guard_dead`), so over ℝ the function is the sign-adjusted remainder
  (`f64_modulus_real`). -/

/-- over ℝ, in the sign-mismatch branch `s = r + d` is never equal to `d` -/
theorem f64_modulus_guard_dead (x d : ℝ)
    (hc : (RFun.fmod x d < 0 ∧ 0 < d) ∨ (0 < RFun.fmod x d ∧ d < 0)) :
    ¬ ((RFun.fmod x d + d == d) = true) := by
  rw [real_beq]
  intro h
  rcases hc with ⟨h1, _⟩ | ⟨h1, _⟩ <;> linarith

/-- closed form over ℝ: the sign-adjusted truncated remainder -/
theorem f64_modulus_real (x d : ℝ) :
    f64.modulus x d =
      if (RFun.fmod x d < 0 ∧ 0 < d) ∨ (0 < RFun.fmod x d ∧ d < 0) then RFun.fmod x d + d
      else RFun.fmod x d := by
  unfold f64.modulus
  have z : (0.0 : ℝ) = 0 := by norm_num
  simp only [z]
  split_ifs with hc hs
  · exact absurd hs (f64_modulus_guard_dead x d hc)
  · rfl
  · rfl

/-- f64 over ℝ, `d > 0`: `r = x.modulus(d)` lies in `[0, d)` and `x - r` is an integer multiple of `d`. -/
theorem f64_modulus_canonical_pos (x d : ℝ) (hd : 0 < d) :
    0 ≤ f64.modulus x d ∧ f64.modulus x d < d ∧ ∃ k : ℤ, x - f64.modulus x d = d * k := by
  rw [f64_modulus_real]
  obtain ⟨h1, h2⟩ := fmod_bounds x d hd
  obtain ⟨k1, e1⟩ := fmod_sub_int x d
  split_ifs with hc
  · have hr : RFun.fmod x d < 0 := by
      rcases hc with ⟨h, _⟩ | ⟨_, h⟩
      · exact h
      · linarith
    refine ⟨by linarith, by linarith, k1 - 1, ?_⟩
    push_cast; linarith
  · have hr : 0 ≤ RFun.fmod x d := by
      by_contra h
      exact hc (Or.inl ⟨not_le.mp h, hd⟩)
    exact ⟨hr, h2, k1, e1⟩

/-- f64 over ℝ, `d < 0`: `d < r ≤ 0` and `x - r` is an integer multiple of `d`. -/
theorem f64_modulus_canonical_neg (x d : ℝ) (hd : d < 0) :
    d < f64.modulus x d ∧ f64.modulus x d ≤ 0 ∧ ∃ k : ℤ, x - f64.modulus x d = d * k := by
  rw [f64_modulus_real]
  obtain ⟨h1, h2⟩ := fmod_bounds_neg x d hd
  obtain ⟨k1, e1⟩ := fmod_sub_int x d
  split_ifs with hc
  · have hr : 0 < RFun.fmod x d := by
      rcases hc with ⟨_, h⟩ | ⟨h, _⟩
      · linarith
      · exact h
    refine ⟨by linarith, by linarith, k1 - 1, ?_⟩
    push_cast; linarith
  · have hr : RFun.fmod x d ≤ 0 := by
      by_contra h
      exact hc (Or.inr ⟨not_le.mp h, hd⟩)
    exact ⟨h1, hr, k1, e1⟩

/-- consequently the result is never the excluded endpoint `d` (the half-open range the source
    comment asks for), for either sign of `d` -/
theorem f64_modulus_ne_divisor (x d : ℝ) (hd : d ≠ 0) : f64.modulus x d ≠ d := by
  rcases lt_or_gt_of_ne hd with h | h
  · exact ne_of_gt (f64_modulus_canonical_neg x d h).1
  · exact ne_of_lt (f64_modulus_canonical_pos x d h).2.1

example : 0 ≤ f64.modulus (-4 : ℝ) 5 ∧ f64.modulus (-4 : ℝ) 5 < 5 :=
  ⟨(f64_modulus_canonical_pos (-4) 5 (by norm_num)).1, (f64_modulus_canonical_pos (-4) 5 (by norm_num)).2.1⟩

end Statrs.Props.C20
