/-
  C20 — `function::evaluate::polynomial` equals the exact polynomial value (src/function/evaluate.rs).

  * `polynomial_horner` / `polynomial_nil` — full(∀α): on every carrier (also IEEE `Float`) the
    function is exactly the Horner recursion `c₀ + z·(c₁ + z·(… + z·c_k))`, evaluated in that order;
    the empty slice gives the literal `0.0`.
  * `polynomial_eq_sum` — full(ℝ): in exact arithmetic that is `Σ_i c_i z^i`.
-/
import Statrs.Lemmas.FunctionLayer
import Statrs.Gen.F_evaluate
namespace Statrs.Props.C20
open Statrs Statrs.Gen

section generic
variable {α : Type} [Add α] [Sub α] [Mul α] [Div α] [Neg α] [LT α] [LE α] [BEq α]
  [DecidableLT α] [DecidableLE α] [OfScientific α] [Inhabited α] [RFun α]

/-- the lifted `for c in coeff[0..n-1].iter().rev()` loop is a left fold, never hangs or returns early -/
theorem polynomial_loop1_eq (l : List α) (z s : α) :
    F.evaluate.polynomial.loop1 l z s = LoopR.done (l.foldl (fun s c => c + z * s) s) := by
  induction l generalizing s with
  | nil => rfl
  | cons c l ih => simp only [F.evaluate.polynomial.loop1, List.foldl_cons]; exact ih _

/-- empty coefficient slice ↦ `0.0` (every carrier) -/
theorem polynomial_nil (z : α) : F.evaluate.polynomial z ([] : List α) = (0.0 : α) := by
  simp [F.evaluate.polynomial, listLen]

/-- every carrier: a non-empty slice `init ++ [last]` is evaluated by Horner's rule from the top
    coefficient down, with exactly these operations in this order (no algebraic law used). -/
theorem polynomial_horner (z : α) (init : List α) (last : α) :
    F.evaluate.polynomial z (init ++ [last]) = init.foldr (fun c s => c + z * s) last := by
  unfold F.evaluate.polynomial
  have hn : listLen (init ++ [last]) = (init.length : Int) + 1 := by simp [listLen]
  have hne : ¬ ((init.length : Int) + 1 = 0) := by omega
  simp only [hn, if_neg hne, polynomial_loop1_eq]
  have hu : usub ((init.length : Int) + 1) 1 = init.length := by
    unfold usub; rw [if_neg (by omega)]; omega
  simp [hu, unwrapO, List.foldl_reverse]

end generic

/-- Horner recursion from `0` equals the power sum (ℝ) -/
theorem horner_eq_sum (z : ℝ) (l : List ℝ) :
    l.foldr (fun c s => c + z * s) 0 = ∑ i ∈ Finset.range l.length, l.getD i 0 * z ^ i := by
  induction l with
  | nil => simp
  | cons c cs ih =>
    rw [List.foldr_cons, ih, List.length_cons, Finset.sum_range_succ', Finset.mul_sum]
    simp only [List.getD_cons_succ, List.getD_cons_zero, pow_zero, mul_one, pow_succ]
    rw [add_comm]
    congr 1
    apply Finset.sum_congr rfl
    intro i _; ring

/-- over ℝ the function is the Horner recursion started from `0` (all slices, including empty) -/
theorem polynomial_eq_foldr (z : ℝ) (coeffs : List ℝ) :
    F.evaluate.polynomial z coeffs = coeffs.foldr (fun c s => c + z * s) 0 := by
  rcases List.eq_nil_or_concat coeffs with h | ⟨init, last, h⟩
  · subst h; rw [polynomial_nil]; norm_num
  · subst h
    rw [List.concat_eq_append, polynomial_horner, List.foldr_append]
    simp

/-- C20: polynomial evaluation equals the exact polynomial value `Σ_i c_i z^i`, for every `z` and
    every coefficient slice (empty slice: both sides are 0). -/
theorem polynomial_eq_sum (z : ℝ) (coeffs : List ℝ) :
    F.evaluate.polynomial z coeffs = ∑ i ∈ Finset.range coeffs.length, coeffs.getD i 0 * z ^ i := by
  rw [polynomial_eq_foldr, horner_eq_sum]

/-- the doc example: `[3,-1,2]` is `2z² - z + 3` -/
example (z : ℝ) : F.evaluate.polynomial z [3, -1, 2] = 2 * z ^ 2 - z + 3 := by
  rw [polynomial_eq_sum]; simp [Finset.sum_range_succ]; ring

end Statrs.Props.C20
