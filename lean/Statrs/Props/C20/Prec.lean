/-
  C20 — `prec::almost_eq` is symmetric and treats equal infinities as equal (src/prec.rs);
  `generate::log_spaced` has the requested length and hits its end points (src/generate.rs).

  Branch-only facts are stated for every carrier α (so they hold for IEEE `Float` once the listed
  elementary facts about the carrier's `==`, `<`, `-` are supplied); arithmetic facts over ℝ.
-/
import Statrs.Lemmas.FunctionLayer
import Statrs.Gen.R_prec
import Statrs.Gen.R_generate
namespace Statrs.Props.C20
open Statrs Statrs.Gen Statrs.Lemmas.FunctionLayer

section generic
variable {α : Type} [Add α] [Sub α] [Mul α] [Div α] [Neg α] [LT α] [LE α] [BEq α]
  [DecidableLT α] [DecidableLE α] [OfScientific α] [Inhabited α] [RFun α]

/-! ### almost_eq -/

/-- every carrier: two infinite arguments are compared with `==` (so `inf` vs `inf` is equal,
    `inf` vs `-inf` is not — whatever the accuracy) -/
theorem almost_eq_of_isInf (a b acc : α) (ha : RFun.isInf a = true) (hb : RFun.isInf b = true) :
    R.prec.almost_eq a b acc = decide ((a == b) = true) := by
  unfold R.prec.almost_eq; rw [if_pos ⟨ha, hb⟩]

/-- every carrier: equal infinities are equal (`a == a` holds for an infinite `a`) -/
theorem almost_eq_inf_self (a acc : α) (ha : RFun.isInf a = true) (hrefl : (a == a) = true) :
    R.prec.almost_eq a a acc = true := by
  rw [almost_eq_of_isInf a a acc ha ha]; simp [hrefl]

/-- every carrier: if at most one argument is infinite the result is `|a-b| ≤ acc`, the absolute
    difference being computed as `if b < a then a - b else b - a` (approx's `abs_diff_eq`) -/
theorem almost_eq_of_not_both_inf (a b acc : α) (h : ¬ (RFun.isInf a = true ∧ RFun.isInf b = true)) :
    R.prec.almost_eq a b acc = decide ((if b < a then a - b else b - a) ≤ acc) := by
  unfold R.prec.almost_eq absDiffEq; rw [if_neg h]

/-- every carrier: symmetry, under the three elementary facts it needs about the carrier
    (all true for ℝ and for IEEE doubles): `==` is symmetric on the two arguments, `<` is asymmetric
    on them, and on a tie/unordered pair the two differences compare alike with `acc`. -/
theorem almost_eq_symm_of (a b acc : α)
    (hbeq : (a == b) = (b == a))
    (hasym : ¬ (a < b ∧ b < a))
    (htie : ¬ a < b → ¬ b < a → ((b - a ≤ acc) ↔ (a - b ≤ acc))) :
    R.prec.almost_eq a b acc = R.prec.almost_eq b a acc := by
  unfold R.prec.almost_eq absDiffEq
  by_cases hi : RFun.isInf a = true ∧ RFun.isInf b = true
  · rw [if_pos hi, if_pos ⟨hi.2, hi.1⟩, hbeq]
  · have hi' : ¬ (RFun.isInf b = true ∧ RFun.isInf a = true) := fun h => hi ⟨h.2, h.1⟩
    rw [if_neg hi, if_neg hi']
    by_cases h1 : b < a <;> by_cases h2 : a < b
    · exact absurd ⟨h2, h1⟩ hasym
    · rw [if_pos h1, if_neg h2]
    · rw [if_neg h1, if_pos h2]
    · rw [if_neg h1, if_neg h2]
      exact decide_eq_decide.mpr (htie h2 h1)

/-! ### log_spaced -/

/-- every carrier: the result has exactly the requested length -/
theorem log_spaced_length (n : Int) (hn : 0 ≤ n) (s e : α) :
    (R.generate.log_spaced n s e).length = n.toNat := by
  unfold R.generate.log_spaced
  split
  · rfl
  · rfl
  · simp [listSet, rangeList]
    split_ifs <;> simp

/-- every carrier: the last element is exactly `10^stop_exp` (it is overwritten, not computed
    from the step), for every length ≥ 1 -/
theorem log_spaced_last (n : Int) (hn : 1 ≤ n) (s e : α) :
    (R.generate.log_spaced n s e)[n.toNat - 1]? = some (RFun.pow (10.0 : α) e) := by
  unfold R.generate.log_spaced
  split
  · omega
  · rfl
  · rename_i h0 h1
    have hu : usub n 1 = n - 1 := by unfold usub; rw [if_neg (by omega)]
    have hlt : ¬ (n - 1 < 0) := by omega
    simp only [hu, listSet, if_neg hlt]
    have : (n - 1).toNat = n.toNat - 1 := by omega
    rw [this, List.getElem?_set_self]
    simp [rangeList]; omega

/-- every carrier: length 1 gives the single point `10^stop_exp` (so the START point is hit only if
    `start_exp = stop_exp`; one element cannot hit two distinct end points) -/
theorem log_spaced_one (s e : α) : R.generate.log_spaced 1 s e = [RFun.pow (10.0 : α) e] := rfl

theorem log_spaced_zero (s e : α) : R.generate.log_spaced 0 s e = ([] : List α) := rfl

/-- every carrier: for length ≥ 2 every element but the last is `10^(start + i·step)` with
    `step = (stop - start)/(length - 1)`, computed exactly in this form -/
theorem log_spaced_get (n : Int) (hn : 2 ≤ n) (s e : α) (i : Nat) (hi : (i : Int) < n - 1) :
    (R.generate.log_spaced n s e)[i]? =
      some (RFun.pow (10.0 : α) (s + (RFun.ofInt (i : Int) : α) * ((e - s) / (RFun.ofInt (n - 1) : α)))) := by
  unfold R.generate.log_spaced
  split
  · omega
  · omega
  · have hu : usub n 1 = n - 1 := by unfold usub; rw [if_neg (by omega)]
    have hlt : ¬ (n - 1 < 0) := by omega
    simp only [hu, listSet, if_neg hlt]
    rw [List.getElem?_set_ne (by omega)]
    have hin : i < n.toNat := by omega
    simp only [rangeList, List.getElem?_map, Int.sub_zero, Int.zero_add]
    rw [List.getElem?_range hin]; rfl

end generic

/-! ### over ℝ -/

/-- C20 over ℝ: `almost_eq` is symmetric for all arguments -/
theorem almost_eq_symm (a b acc : ℝ) : R.prec.almost_eq a b acc = R.prec.almost_eq b a acc := by
  apply almost_eq_symm_of
  · simp [eq_comm]
  · intro h; exact lt_asymm h.1 h.2
  · intro h1 h2
    have : a = b := le_antisymm (not_lt.mp h2) (not_lt.mp h1)
    subst this; rfl

/-- over ℝ `almost_eq a b acc` decides `|a - b| ≤ acc` -/
theorem almost_eq_real (a b acc : ℝ) : R.prec.almost_eq a b acc = decide (|a - b| ≤ acc) := by
  rw [almost_eq_of_not_both_inf _ _ _ (by simp)]
  congr 1
  split_ifs with h
  · rw [abs_of_pos (by linarith)]
  · rw [abs_of_nonpos (by linarith)]; ring_nf

/-- C20 over ℝ: for length ≥ 2 the first element is exactly `10^start_exp`, the last exactly
    `10^stop_exp`, and the length is as requested -/
theorem log_spaced_endpoints (n : Int) (hn : 2 ≤ n) (s e : ℝ) :
    (R.generate.log_spaced n s e).length = n.toNat ∧
    (R.generate.log_spaced n s e)[0]? = some ((10 : ℝ) ^ s) ∧
    (R.generate.log_spaced n s e)[n.toNat - 1]? = some ((10 : ℝ) ^ e) := by
  refine ⟨log_spaced_length n (by omega) s e, ?_, ?_⟩
  · rw [log_spaced_get n hn s e 0 (by omega)]
    rfun_norm; norm_num
  · rw [log_spaced_last n (by omega) s e]
    rfun_norm; norm_num

/-- over ℝ, interior points: element `i` is `10^(start + i·(stop-start)/(n-1))`, also at `i = n-1` -/
theorem log_spaced_get_real (n : Int) (hn : 2 ≤ n) (s e : ℝ) (i : Nat) (hi : (i : Int) ≤ n - 1) :
    (R.generate.log_spaced n s e)[i]? = some ((10 : ℝ) ^ (s + (i : ℝ) * ((e - s) / ((n : ℝ) - 1)))) := by
  rcases lt_or_eq_of_le hi with h | h
  · rw [log_spaced_get n hn s e i h]; rfun_norm; norm_num
  · have hi' : i = n.toNat - 1 := by omega
    rw [hi', log_spaced_last n (by omega) s e]; rfun_norm
    have hne : (n : ℝ) - 1 ≠ 0 := by
      have : (2 : ℝ) ≤ n := by exact_mod_cast hn
      linarith
    have hc : ((n.toNat - 1 : Nat) : ℝ) = (n : ℝ) - 1 := by
      have h1 : ((n.toNat - 1 : Nat) : Int) = n - 1 := by omega
      have := congrArg (fun z : Int => (z : ℝ)) h1
      simpa using this
    rw [hc]; norm_num
    congr 1; field_simp; ring

/-- the doc example `log_spaced(5, 0, 4)` starts at 1 and ends at 10000 -/
example : (R.generate.log_spaced 5 (0 : ℝ) 4)[0]? = some 1 ∧
    (R.generate.log_spaced 5 (0 : ℝ) 4)[4]? = some 10000 := by
  obtain ⟨_, h0, h4⟩ := log_spaced_endpoints 5 (by norm_num) 0 4
  refine ⟨by simpa using h0, ?_⟩
  have : (5 : Int).toNat - 1 = 4 := by decide
  rw [this] at h4; rw [h4]; norm_num

end Statrs.Props.C20
