/-
  Common — `ExactLaws Float`: the exact cases of IEEE arithmetic (`x - x`, `x / x`, neutral elements,
  zero products/quotients, `a - b = a + (-b)`, congruence of `+ - *` w.r.t. `==`) hold for Lean's `Float`.
-/
import Statrs.Props.Common.FloatLawsFloat_Order
import Statrs.Lemmas.FloatModelSqrt
namespace Statrs.Props.Common
open Statrs Statrs.Spec Statrs.Lemmas.FloatModel
open Float.Model
open Float.Model.UnpackedFloat (Sign)

private theorem ubeq_refl {u : UF} (h : u.isNaN = false) : u.beq u = true :=
  (ubeq_iff _ _).2 ⟨ule_refl _ h, ule_refl _ h⟩

private theorem fin64_beq {r w : UF} (h : r.beq w = true) : (fin64 r).beq (fin64 w) = true := by
  rw [ubeq_iff] at h ⊢
  exact ⟨fin64_mono h.1, fin64_mono h.2⟩

/-- two roundings of the same real are `==`, also after packing -/
private theorem beq_of_rounds {x : ℝ} {r w : UF} (hr : Rounds x r) (hw : Rounds x w) :
    (fin64 r).beq (fin64 w) = true :=
  fin64_beq ((beq_iff_val hr.1 hw.1 hr.2.1 hw.2.1).2 (hr.2.2.unique hw.2.2))

private theorem beq_of_rounds_rep {x : ℝ} {r w : UF} (hr : Rounds x r) (hw : Rounds x w) (hrep : Rep w) :
    (fin64 r).beq w = true := by
  have := beq_of_rounds hr hw
  rwa [fin64_of_rep hrep] at this

private theorem zero_beq (s s' : Sign) : (fin64 (.zero s)).beq (.zero s') = true := rfl

private theorem fz_of_fin {x : Float} (h : Fin x) : FZ (U x) := (fz_iff _).2 h

private theorem val_U_one : val (U (1.0 : Float)) = 1 := by
  rw [U_one]; simp only [val, sgn, one_mul]
  rw [show ((2 ^ 52 : ℕ) : ℝ) = (2 : ℝ) ^ (52 : ℤ) by norm_num, ← zpow_add₀ (by norm_num : (2 : ℝ) ≠ 0)]
  norm_num

private theorem rounds_self_U (x : Float) (h : FZ (U x)) : Rounds (val (U x)) (U x) :=
  Rounds.self h (canon_U x)

/-- full(Float): `x - x == 0.0` for finite `x` -/
theorem sub_self_float (x : Float) (h : Fin x) : ((x - x) == (0.0 : Float)) = true := by
  rw [beq_def, U_sub', U_zero]
  have hx := fz_of_fin h
  have := usub_rounds hx hx (canon_U x) (canon_U x)
  rw [sub_self] at this
  exact beq_of_rounds_rep this (Rounds.zero _) trivial

/-- full(Float): `x / x == 1.0` for finite non-zero `x` -/
theorem div_self_float (x : Float) (h : Fin x) (h0 : ¬ ((x == (0.0 : Float)) = true)) :
    ((x / x) == (1.0 : Float)) = true := by
  rw [beq_def, U_zero] at h0
  rw [beq_def, U_div']
  have hx := fz_of_fin h
  rcases hX : U x with s | _ | s | ⟨s, m, e, hm⟩
  · rw [hX] at hx; exact absurd hx (by simp [FZ])
  · rw [hX] at hx; exact absurd hx (by simp [FZ])
  · rw [hX] at h0; exact absurd rfl h0
  · have := udiv_ff s s m m e e hm hm
    have hv : val (.finite s m e hm) ≠ 0 := by
      have : (0 : ℝ) < (m : ℝ) * (2 : ℝ) ^ e := by positivity
      cases s <;> simp only [val, sgn] <;> linarith
    rw [div_self hv, ← val_U_one] at this
    exact beq_of_rounds_rep this (rounds_self_U _ (by rw [U_one]; trivial)) (rep_U _)

/-- full(Float): `x + 0.0 == x` for non-NaN `x` -/
theorem add_zero_float (x : Float) (h : NN x) : ((x + (0.0 : Float)) == x) = true := by
  rw [beq_def, U_add', U_zero]
  rcases cls (U x) with hX | ⟨s, hX⟩ | hX
  · have : (U x).isNaN = false := h
    rw [hX] at this; exact absurd this (by decide)
  · rw [hX]; cases s <;> rfl
  · have := uadd_rounds hX (b := .zero .positive) trivial (canon_U x) trivial
    rw [val_zero, add_zero] at this
    exact beq_of_rounds_rep this (rounds_self_U x hX) (rep_U x)

/-- full(Float): `0.0 + x == x` for non-NaN `x` -/
theorem zero_add_float (x : Float) (h : NN x) : (((0.0 : Float) + x) == x) = true := by
  rw [beq_def, U_add', U_zero]
  rcases cls (U x) with hX | ⟨s, hX⟩ | hX
  · have : (U x).isNaN = false := h
    rw [hX] at this; exact absurd this (by decide)
  · rw [hX]; cases s <;> rfl
  · have := uadd_rounds (a := .zero .positive) trivial hX trivial (canon_U x)
    rw [val_zero, zero_add] at this
    exact beq_of_rounds_rep this (rounds_self_U x hX) (rep_U x)

/-- full(Float): `x - 0.0 == x` for non-NaN `x` -/
theorem sub_zero_float (x : Float) (h : NN x) : ((x - (0.0 : Float)) == x) = true := by
  rw [beq_def, U_sub', U_zero]
  rcases cls (U x) with hX | ⟨s, hX⟩ | hX
  · have : (U x).isNaN = false := h
    rw [hX] at this; exact absurd this (by decide)
  · rw [hX]; cases s <;> rfl
  · have := usub_rounds hX (b := .zero .positive) trivial (canon_U x) trivial
    rw [val_zero, sub_zero] at this
    exact beq_of_rounds_rep this (rounds_self_U x hX) (rep_U x)

/-- full(Float): `x * 1.0 == x` for non-NaN `x` -/
theorem mul_one_float (x : Float) (h : NN x) : ((x * (1.0 : Float)) == x) = true := by
  rw [beq_def, U_mul']
  rcases cls (U x) with hX | ⟨s, hX⟩ | hX
  · have : (U x).isNaN = false := h
    rw [hX] at this; exact absurd this (by decide)
  · rw [hX, U_one]; cases s <;> rfl
  · have := umul_rounds hX (b := U 1.0) (by rw [U_one]; trivial) (canon_U x) (canon_U _)
    rw [val_U_one, mul_one] at this
    exact beq_of_rounds_rep this (rounds_self_U x hX) (rep_U x)

/-- full(Float): `1.0 * x == x` for non-NaN `x` -/
theorem one_mul_float (x : Float) (h : NN x) : (((1.0 : Float) * x) == x) = true := by
  rw [beq_def, U_mul', umul_comm, ← U_mul', ← beq_def]
  exact mul_one_float x h

/-- full(Float): `x / 1.0 == x` for non-NaN `x` -/
theorem div_one_float (x : Float) (h : NN x) : ((x / (1.0 : Float)) == x) = true := by
  rw [beq_def, U_div']
  rcases cls (U x) with hX | ⟨s, hX⟩ | hX
  · have : (U x).isNaN = false := h
    rw [hX] at this; exact absurd this (by decide)
  · rw [hX, U_one]; cases s <;> rfl
  · have := udiv_rounds hX .positive (2 ^ 52) (-52) (by decide)
    rw [← U_one, val_U_one, div_one] at this
    exact beq_of_rounds_rep this (rounds_self_U x hX) (rep_U x)

/-- full(Float): `0.0 / x == 0.0` for non-NaN non-zero `x` -/
theorem zero_div_float (x : Float) (h : NN x) (h0 : ¬ ((x == (0.0 : Float)) = true)) :
    (((0.0 : Float) / x) == (0.0 : Float)) = true := by
  rw [beq_def, U_zero] at h0
  rw [beq_def, U_div', U_zero]
  rcases hX : U x with s | _ | s | ⟨s, m, e, hm⟩
  · exact zero_beq _ _
  · have : (U x).isNaN = false := h
    rw [hX] at this; exact absurd this (by decide)
  · rw [hX] at h0; exact absurd rfl h0
  · exact zero_beq _ _

/-- full(Float): `0.0 * x == 0.0` for finite `x` -/
theorem zero_mul_float (x : Float) (h : Fin x) : (((0.0 : Float) * x) == (0.0 : Float)) = true := by
  rw [beq_def, U_mul', U_zero]
  have hx := fz_of_fin h
  rcases hX : U x with s | _ | s | ⟨s, m, e, hm⟩
  · rw [hX] at hx; exact absurd hx (by simp [FZ])
  · rw [hX] at hx; exact absurd hx (by simp [FZ])
  · exact zero_beq _ _
  · exact zero_beq _ _

/-- full(Float): `x * 0.0 == 0.0` for finite `x` -/
theorem mul_zero_float (x : Float) (h : Fin x) : ((x * (0.0 : Float)) == (0.0 : Float)) = true := by
  rw [beq_def, U_mul', umul_comm, ← U_mul', ← beq_def]
  exact zero_mul_float x h

/-- full(Float): `a - b` is `a + (-b)` (same unpacked value) -/
theorem sub_eq_add_neg_float (a b : Float) (h : NN (a - b)) : ((a - b) == (a + -b)) = true := by
  rw [beq_def, ← U_sub_eq]
  exact ubeq_refl h

/-- full(Float): `sqrt 0.0 == 0.0` -/
theorem sqrt_zero_float : (RFun.sqrt (0.0 : Float) == (0.0 : Float)) = true := by decide

/-- full(Float): `sqrt 1.0 == 1.0` -/
theorem sqrt_one_float : (RFun.sqrt (1.0 : Float) == (1.0 : Float)) = true := by
  rw [beq_def, U_sqrt']
  have := usqrt_f (2 ^ 52) (-52) (by decide)
  rw [← U_one, val_U_one, Real.sqrt_one, ← val_U_one] at this
  exact beq_of_rounds_rep this (rounds_self_U _ (by rw [U_one]; trivial)) (rep_U _)

/-! ### congruence w.r.t. `==` -/

/-- `==` values are identical or both zeros -/
private theorem beq_eq_or_zero {u v : UF} (h : u.beq v = true) :
    u = v ∨ ∃ s s', u = .zero s ∧ v = .zero s' := by
  have hn := beq_nn h
  rw [beq_iff_key _ _ hn.1 hn.2] at h
  rcases u with s | _ | s | ⟨s, m, e, hm⟩ <;> rcases v with s' | _ | s' | ⟨s', m', e', hm'⟩ <;>
    (try cases s) <;> (try cases s') <;> simp_all [key, UnpackedFloat.isNaN]

private theorem congr_aux {r r' : UF} (hn : r.isNaN = false)
    (h : r = r' ∨ ∃ s s', r = .zero s ∧ r' = .zero s') : (fin64 r).beq (fin64 r') = true := by
  rcases h with rfl | ⟨s, s', rfl, rfl⟩
  · exact ubeq_refl (by rwa [fin64_isNaN])
  · rfl

private theorem uadd_zero_zero (s s' : Sign) :
    ∃ t, UnpackedFloat.add .binary64 (.zero s) (.zero s') = .zero t := by
  simp only [UnpackedFloat.add]; split_ifs <;> exact ⟨_, rfl⟩

/-- full(Float): `+` respects `==` of its operands (non-NaN result) -/
theorem add_congr_float (a a' b b' : Float) (ha : (a == a') = true) (hb : (b == b') = true)
    (hn : NN (a + b)) : ((a + b) == (a' + b')) = true := by
  rw [beq_def] at ha hb ⊢
  have hn : (U (a + b)).isNaN = false := hn
  rw [U_add'] at hn ⊢
  rw [U_add']
  rw [fin64_isNaN] at hn
  apply congr_aux hn
  generalize U a = A at *; generalize U a' = A' at *
  generalize U b = B at *; generalize U b' = B' at *
  rcases beq_eq_or_zero ha with rfl | ⟨s1, s1', rfl, rfl⟩ <;>
  rcases beq_eq_or_zero hb with rfl | ⟨s2, s2', rfl, rfl⟩
  · exact Or.inl rfl
  · rcases A with s | _ | s | ⟨s, m, e, hm⟩
    · exact Or.inl rfl
    · exact Or.inl rfl
    · right
      obtain ⟨t, ht⟩ := uadd_zero_zero s s2; obtain ⟨t', ht'⟩ := uadd_zero_zero s s2'
      exact ⟨t, t', ht, ht'⟩
    · exact Or.inl rfl
  · rcases B with s | _ | s | ⟨s, m, e, hm⟩
    · exact Or.inl rfl
    · exact Or.inl rfl
    · right
      obtain ⟨t, ht⟩ := uadd_zero_zero s1 s; obtain ⟨t', ht'⟩ := uadd_zero_zero s1' s
      exact ⟨t, t', ht, ht'⟩
    · exact Or.inl rfl
  · right
    obtain ⟨t, ht⟩ := uadd_zero_zero s1 s2; obtain ⟨t', ht'⟩ := uadd_zero_zero s1' s2'
    exact ⟨t, t', ht, ht'⟩

private theorem neg_beq {b b' : Float} (hb : (b == b') = true) : ((-b) == (-b')) = true := by
  rw [beq_def] at hb ⊢
  rw [ubeq_iff] at hb ⊢
  rw [← le_def, ← le_def] at hb ⊢
  exact ⟨neg_le_neg_float _ _ hb.2, neg_le_neg_float _ _ hb.1⟩

/-- full(Float): `-` respects `==` of its operands (non-NaN result) -/
theorem sub_congr_float (a a' b b' : Float) (ha : (a == a') = true) (hb : (b == b') = true)
    (hn : NN (a - b)) : ((a - b) == (a' - b')) = true := by
  have hn' : NN (a + -b) := by show (U (a + -b)).isNaN = false; rw [← U_sub_eq]; exact hn
  have := add_congr_float a a' (-b) (-b') ha (neg_beq hb) hn'
  rw [beq_def] at this ⊢
  rwa [U_sub_eq, U_sub_eq]

/-- full(Float): `*` respects `==` of its operands (non-NaN result) -/
theorem mul_congr_float (a a' b b' : Float) (ha : (a == a') = true) (hb : (b == b') = true)
    (hn : NN (a * b)) : ((a * b) == (a' * b')) = true := by
  rw [beq_def] at ha hb ⊢
  have hn : (U (a * b)).isNaN = false := hn
  rw [U_mul'] at hn ⊢
  rw [U_mul']
  rw [fin64_isNaN] at hn
  apply congr_aux hn
  generalize U a = A at *; generalize U a' = A' at *
  generalize U b = B at *; generalize U b' = B' at *
  rcases beq_eq_or_zero ha with rfl | ⟨s1, s1', rfl, rfl⟩ <;>
  rcases beq_eq_or_zero hb with rfl | ⟨s2, s2', rfl, rfl⟩
  · exact Or.inl rfl
  · rcases A with s | _ | s | ⟨s, m, e, hm⟩
    · exact absurd hn (by simp [UnpackedFloat.mul, UnpackedFloat.isNaN])
    · exact Or.inl rfl
    · right; exact ⟨_, _, rfl, rfl⟩
    · right; exact ⟨_, _, rfl, rfl⟩
  · rcases B with s | _ | s | ⟨s, m, e, hm⟩
    · exact absurd hn (by simp [UnpackedFloat.mul, UnpackedFloat.isNaN])
    · exact Or.inl rfl
    · right; exact ⟨_, _, rfl, rfl⟩
    · right; exact ⟨_, _, rfl, rfl⟩
  · right; exact ⟨_, _, rfl, rfl⟩

/-- full(Float): Lean's IEEE `Float` satisfies `Statrs.Spec.ExactLaws` -/
theorem exactLaws_float : ExactLaws Float where
  sub_self := sub_self_float
  div_self := div_self_float
  add_zero := add_zero_float
  zero_add := zero_add_float
  sub_zero := sub_zero_float
  mul_one := mul_one_float
  one_mul := one_mul_float
  div_one := div_one_float
  zero_div := zero_div_float
  zero_mul := zero_mul_float
  mul_zero := mul_zero_float
  neg_neg := neg_neg_float
  neg_zero := neg_zero_float
  sub_eq_add_neg := sub_eq_add_neg_float
  sqrt_zero := sqrt_zero_float
  sqrt_one := sqrt_one_float
  add_congr := add_congr_float
  sub_congr := sub_congr_float
  mul_congr := mul_congr_float

/-! ### non-vacuity -/
example : ∃ x : Float, Fin x ∧ ¬ ((x == (0.0 : Float)) = true) := ⟨3.0, by decide, by decide⟩
example : ∃ a a' : Float, (a == a') = true ∧ a ≠ a' := ⟨0.0, -0.0, by decide, by decide⟩
example : ∃ a b : Float, NN (a - b) := ⟨1.0, 2.0, by decide⟩

end Statrs.Props.Common
