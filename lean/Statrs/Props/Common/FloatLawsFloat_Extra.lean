/-
  Common — `ExtraLaws Float`: the additional IEEE facts bundled in `Statrs.Spec.ExtraLaws`
  (Draft/Lemmas/FloatLawsExtra.lean) hold for Lean's IEEE `Float`:
  `sub_pos` (gradual underflow: `a < b ⇒ 0 < fl(b − a)`), NaN-freeness of non-negative sums, `isInf_iff`,
  sign symmetry of `*`, `(−a) + a == 0`, the infinite cases of `* − /`, `abs`, and the closed binary64
  evaluations (`0.5 + 0.5`, `1/π · π/2 == 0.5`, …; kernel evaluation on `Float.Model`).
-/
import Statrs.Lemmas.FloatLawsExtra
import Statrs.Props.Common.FloatLawsFloat_OfInt
namespace Statrs.Props.Common
open Statrs Statrs.Spec Statrs.Lemmas.FloatModel
open Float.Model
open Float.Model.UnpackedFloat

private theorem ubeq_refl' {u : UF} (h : u.isNaN = false) : u.beq u = true :=
  (ubeq_iff _ _).2 ⟨ule_refl _ h, ule_refl _ h⟩

/-! ### `sub_pos` -/

/-- full(Float.Model): canonical finite-or-zero values are integer multiples of `2^-1074` -/
theorem val_grid {u : UF} (hf : FZ u) (hc : Canon u) : ∃ k : ℤ, val u = (k : ℝ) * (2 : ℝ) ^ (-1074 : ℤ) := by
  rcases u with s | _ | s | ⟨s, m, e, hm⟩ <;> simp only [FZ] at hf
  · exact ⟨0, by simp [val]⟩
  · simp only [Canon] at hc
    obtain ⟨j, hj⟩ : ∃ j : ℕ, e = -1074 + j := ⟨(e + 1074).toNat, by omega⟩
    have hpow : (2 : ℝ) ^ e = (2 : ℝ) ^ (-1074 : ℤ) * (2 : ℝ) ^ j := by rw [hj, zpow_add_nat]
    cases s
    · refine ⟨-((m * 2 ^ j : ℕ) : ℤ), ?_⟩
      simp only [val, sgn, hpow]; push_cast; ring
    · refine ⟨((m * 2 ^ j : ℕ) : ℤ), ?_⟩
      simp only [val, sgn, hpow]; push_cast; ring

/-- full(Float.Model): a rounding with positive value stays positive after packing -/
theorem pos_of_val_pos {r : UF} (hf : FZ r) (h : 0 < val r) :
    (UnpackedFloat.zero .positive).lt (fin64 r) = true := by
  rcases r with s | _ | s | ⟨s, m, e, hm⟩ <;> simp only [FZ] at hf
  · simp [val] at h
  · cases s
    · exfalso
      have : (0 : ℝ) < (m : ℝ) * (2 : ℝ) ^ e := by positivity
      simp only [val, sgn] at h; linarith
    · simp only [fin64]; split_ifs <;> rfl

/-- full(Float.Model): the rounded difference of two distinct canonical finite values is not zero
    (gradual underflow) -/
theorem usub_pos_fz {a b : UF} (ha : FZ a) (hb : FZ b) (ca : Canon a) (cb : Canon b)
    (h : val a < val b) : 0 < val (UnpackedFloat.sub .binary64 b a) := by
  have hr := usub_rounds hb ha cb ca
  obtain ⟨ka, hka⟩ := val_grid ha ca
  obtain ⟨kb, hkb⟩ := val_grid hb cb
  have hp : (0 : ℝ) < (2 : ℝ) ^ (-1074 : ℤ) := by positivity
  have hk : ka < kb := by
    rw [hka, hkb] at h
    have := lt_of_mul_lt_mul_right h hp.le
    exact_mod_cast this
  have hk' : ((ka : ℝ) + 1) ≤ (kb : ℝ) := by exact_mod_cast hk
  have hx : (2 : ℝ) ^ (-1074 : ℤ) ≤ val b - val a := by
    rw [hka, hkb]; nlinarith
  have hw : Rounds (val (.finite .positive 1 (-1074) (by decide))) (.finite .positive 1 (-1074) (by decide)) :=
    Rounds.self trivial (by simp [Canon])
  have hv : val (.finite .positive 1 (-1074) (by decide)) = (2 : ℝ) ^ (-1074 : ℤ) := by
    simp [val, sgn]
  rw [hv] at hw
  have := hw.mono hr hx
  rw [hv] at this
  linarith

/-- full(Float): `a < b ⇒ 0 < b - a` when the difference is not NaN -/
theorem sub_pos_float (a b : Float) (h : a < b) (hn : NN (b - a)) : (0.0 : Float) < b - a := by
  rw [lt_def] at h ⊢
  have hn : (U (b - a)).isNaN = false := hn
  rw [U_sub'] at hn ⊢
  rw [U_zero]
  rw [fin64_isNaN] at hn
  have ca := canon_U a
  have cb := canon_U b
  generalize U a = A at *; generalize U b = B at *
  have hnn := lt_nn h
  rcases cls A with rfl | ⟨sa, rfl⟩ | hA
  · exact absurd hnn.1 (by decide)
  · cases sa
    · rcases B with s | _ | s | ⟨s, m, e, hm⟩
      · cases s
        · exact absurd h (by decide)
        · rfl
      · exact absurd hnn.2 (by decide)
      · rfl
      · rfl
    · exfalso
      rw [lt_iff_key _ _ hnn.1 hnn.2] at h
      rcases B with s | _ | s | ⟨s, m, e, hm⟩ <;> (try cases s) <;> simp [key, klt] at h
  · rcases cls B with rfl | ⟨sb, rfl⟩ | hB
    · exact absurd hnn.2 (by decide)
    · cases sb
      · exfalso
        rw [lt_iff_key _ _ hnn.1 hnn.2] at h
        rcases A with s | _ | s | ⟨s, m, e, hm⟩ <;> (try cases s) <;> simp [key, klt] at h
      · rcases A with s | _ | s | ⟨s, m, e, hm⟩ <;> simp only [FZ] at hA <;> rfl
    · have hv := (lt_iff_val hA hB ca cb).1 h
      exact pos_of_val_pos (usub_rounds hB hA cb ca).1 (usub_pos_fz hA hB ca cb hv)

/-! ### sums of non-negative values -/

/-- full(Float): a sum of two non-negative floats is not NaN -/
theorem add_nn_of_nonneg_float (a b : Float) (ha : (0.0 : Float) ≤ a) (hb : (0.0 : Float) ≤ b) :
    NN (a + b) := by
  rw [le_def, U_zero] at ha hb
  show (U (a + b)).isNaN = false
  rw [U_add', fin64_isNaN]
  have ca := canon_U a
  have cb := canon_U b
  generalize U a = A at *; generalize U b = B at *
  rcases zero_le_cases ha with ⟨sa, rfl⟩ | rfl | ⟨m, e, hm, rfl⟩ <;>
  rcases zero_le_cases hb with ⟨sb, rfl⟩ | rfl | ⟨m', e', hm', rfl⟩ <;>
    first
    | rfl
    | exact fz_nn (uadd_rounds (by trivial) (by trivial) ca cb).1

/-! ### infinities -/

/-- full(Float): the infinite floats are exactly those `==` to `+∞` or `−∞` -/
theorem isInf_iff_float (a : Float) : RFun.isInf a = true ↔
    ((a == (RFun.inf : Float)) = true ∨ (a == (RFun.negInf : Float)) = true) := by
  rw [isInf_def, beq_def, beq_def, U_inf, U_negInf]
  rcases U a with s | _ | s | ⟨s, m, e, hm⟩ <;> (try cases s) <;>
    simp [UnpackedFloat.isInf, UnpackedFloat.beq, UnpackedFloat.compare, compare]

/-- full(Float): a positive float times `+∞` is `+∞` -/
theorem mul_inf_of_pos_float (a : Float) (h : (0.0 : Float) < a) :
    ((a * (RFun.inf : Float)) == (RFun.inf : Float)) = true := by
  rw [lt_def, U_zero] at h
  rw [beq_def, U_mul', U_inf]
  rcases zero_lt_cases h with h | ⟨m, e, hm, h⟩ <;> rw [h] <;> rfl

/-- full(Float): `-(+∞) == −∞` -/
theorem neg_inf_eq_float : ((-(RFun.inf : Float)) == (RFun.negInf : Float)) = true := by decide

/-- full(Float): `+∞ - b == +∞` when the difference is not NaN -/
theorem inf_sub_float (b : Float) (hn : NN ((RFun.inf : Float) - b)) :
    (((RFun.inf : Float) - b) == (RFun.inf : Float)) = true := by
  have hn : (U ((RFun.inf : Float) - b)).isNaN = false := hn
  rw [U_sub', fin64_isNaN, U_inf] at hn
  rw [beq_def, U_sub', U_inf]
  generalize U b = B at *
  rcases B with s | _ | s | ⟨s, m, e, hm⟩
  · cases s
    · rfl
    · exact absurd hn (by decide)
  · exact absurd hn (by decide)
  · rfl
  · rfl

/-- full(Float): `−∞ - b == −∞` when the difference is not NaN -/
theorem negInf_sub_float (b : Float) (hn : NN ((RFun.negInf : Float) - b)) :
    (((RFun.negInf : Float) - b) == (RFun.negInf : Float)) = true := by
  have hn : (U ((RFun.negInf : Float) - b)).isNaN = false := hn
  rw [U_sub', fin64_isNaN, U_negInf] at hn
  rw [beq_def, U_sub', U_negInf]
  generalize U b = B at *
  rcases B with s | _ | s | ⟨s, m, e, hm⟩
  · cases s
    · exact absurd hn (by decide)
    · rfl
  · exact absurd hn (by decide)
  · rfl
  · rfl

/-- full(Float): `+∞ / c == +∞` for positive finite `c` -/
theorem inf_div_float (c : Float) (h : (0.0 : Float) < c) (hf : Fin c) :
    (((RFun.inf : Float) / c) == (RFun.inf : Float)) = true := by
  rw [lt_def, U_zero] at h
  have hf : (U c).isFinite = true := hf
  rw [beq_def, U_div', U_inf]
  rcases zero_lt_cases h with h' | ⟨m, e, hm, h'⟩ <;> rw [h'] at hf ⊢
  · exact absurd hf (by decide)
  · rfl

/-- full(Float): `−∞ / c == −∞` for positive finite `c` -/
theorem negInf_div_float (c : Float) (h : (0.0 : Float) < c) (hf : Fin c) :
    (((RFun.negInf : Float) / c) == (RFun.negInf : Float)) = true := by
  rw [lt_def, U_zero] at h
  have hf : (U c).isFinite = true := hf
  rw [beq_def, U_div', U_negInf]
  rcases zero_lt_cases h with h' | ⟨m, e, hm, h'⟩ <;> rw [h'] at hf ⊢
  · exact absurd hf (by decide)
  · rfl

/-! ### sign symmetry of `*`, cancellation -/

private theorem sneg_mul (s s' : Sign) : (-s) * s' = -(s * s') := by cases s <;> cases s' <;> rfl
private theorem smul_neg (s s' : Sign) : s * (-s') = -(s * s') := by cases s <;> cases s' <;> rfl

/-- full(Float.Model): the sign only enters the last step of `roundWithAccuracy` -/
theorem neg_rwa (s : Sign) (m : ℕ) (e : ℤ) (acc : Accuracy) :
    (roundWithAccuracy .binary64 s m e acc).neg = roundWithAccuracy .binary64 (-s) m e acc := by
  rw [rwa_eq, rwa_eq]
  split_ifs <;> rfl

/-- full(Float.Model): `(−a)·b = −(a·b)` exactly -/
theorem umul_neg_left (a b : UF) :
    UnpackedFloat.mul .binary64 a.neg b = (UnpackedFloat.mul .binary64 a b).neg := by
  rcases a with s | _ | s | ⟨s, m, e, hm⟩ <;> rcases b with s' | _ | s' | ⟨s', m', e', hm'⟩ <;>
    first
    | (simp only [UnpackedFloat.mul, UnpackedFloat.neg, sneg_mul]; done)
    | (show UnpackedFloat.mul .binary64 (.finite (-s) m e hm) (.finite s' m' e' hm') = _
       simp only [UnpackedFloat.mul, sneg_mul, neg_rwa])

/-- full(Float): `(-a) * b == -(a * b)` (identical unpacked values) for a non-NaN product -/
theorem neg_mul_float (a b : Float) (hn : NN (a * b)) : (((-a) * b) == (-(a * b))) = true := by
  have hn : (U (a * b)).isNaN = false := hn
  rw [beq_def, U_mul', U_neg, U_neg, umul_neg_left, U_mul', fin64_neg]
  apply ubeq_refl'
  rw [U_mul'] at hn
  cases h : fin64 (UnpackedFloat.mul .binary64 (U a) (U b)) <;> rw [h] at hn <;>
    first | rfl | exact absurd hn (by decide)

/-- full(Float): `a * (-b) == -(a * b)` for a non-NaN product -/
theorem mul_neg_float (a b : Float) (hn : NN (a * b)) : ((a * (-b)) == (-(a * b))) = true := by
  have hn : (U (a * b)).isNaN = false := hn
  rw [beq_def, U_mul', U_neg, U_neg, umul_comm, umul_neg_left, umul_comm (U b), U_mul', fin64_neg]
  apply ubeq_refl'
  rw [U_mul'] at hn
  cases h : fin64 (UnpackedFloat.mul .binary64 (U a) (U b)) <;> rw [h] at hn <;>
    first | rfl | exact absurd hn (by decide)

/-- full(Float): `(-a) + a == 0.0` for finite `a` -/
theorem neg_add_self_float (a : Float) (h : Fin a) : (((-a) + a) == (0.0 : Float)) = true := by
  rw [beq_def, U_add', U_zero, U_neg]
  have hA : FZ (U a) := (fz_iff _).2 h
  have hA' : FZ (U a).neg := by
    have := hA; revert this; cases U a <;> simp [FZ, UnpackedFloat.neg]
  have hr := uadd_rounds hA' hA (rep_neg (rep_U a)).canon (canon_U a)
  rw [val_neg, neg_add_cancel] at hr
  have hb := (beq_iff_val hr.1 (v := .zero .positive) trivial hr.2.1 trivial).2 (by rw [hr.val_eq_zero]; rfl)
  rw [ubeq_iff] at hb ⊢
  exact ⟨fin64_mono hb.1, fin64_mono hb.2⟩

/-! ### `abs` -/

private theorem rep_abs {u : UF} (h : Rep u) : Rep u.abs := by
  cases u <;> simp_all [Rep, UnpackedFloat.abs]

/-- full(Float): `|a|` clears the sign field and nothing else -/
theorem U_abs (a : Float) : U (RFun.abs a) = (U a).abs := by
  show (Float.Model.pack (U a).abs).unpack = _
  rw [unpack_pack _ (rep_abs (rep_U a)).canon, fin64_of_rep (rep_abs (rep_U a))]

/-- full(Float): `isNaN |a| = isNaN a` -/
theorem abs_nan_float (a : Float) : RFun.isNaN (RFun.abs a) = RFun.isNaN a := by
  rw [isNaN_def, isNaN_def, U_abs]; cases U a <;> rfl

/-- full(Float): `|a| == a` for `0 ≤ a` -/
theorem abs_of_nonneg_float (a : Float) (h : (0.0 : Float) ≤ a) : (RFun.abs a == a) = true := by
  rw [le_def, U_zero] at h
  rw [beq_def, U_abs]
  rcases zero_le_cases h with ⟨s, h'⟩ | h' | ⟨m, e, hm, h'⟩ <;> rw [h']
  · rfl
  · rfl
  · exact ubeq_refl' rfl

/-- full(Float): `|a| == -a` for `a ≤ 0` -/
theorem abs_of_nonpos_float (a : Float) (h : a ≤ (0.0 : Float)) : (RFun.abs a == -a) = true := by
  rw [le_def, U_zero] at h
  rw [beq_def, U_abs, U_neg]
  have hn := le_nn h
  rw [le_iff_key _ _ hn.1 hn.2] at h
  generalize U a = A at *
  rcases A with s | _ | s | ⟨s, m, e, hm⟩ <;> (try cases s) <;>
    simp [key, kle] at h <;>
    first
    | rfl
    | exact ubeq_refl' rfl
    | exact absurd hn.1 (by decide)

/-- full(Float): Lean's IEEE `Float` satisfies `Statrs.Spec.ExtraLaws` -/
theorem extraLaws_float : ExtraLaws Float where
  sub_pos := sub_pos_float
  add_nn_of_nonneg := add_nn_of_nonneg_float
  isInf_iff := isInf_iff_float
  neg_mul := neg_mul_float
  mul_neg := mul_neg_float
  neg_add_self := neg_add_self_float
  mul_inf_of_pos := mul_inf_of_pos_float
  neg_inf_eq := neg_inf_eq_float
  inf_sub := inf_sub_float
  negInf_sub := negInf_sub_float
  inf_div := inf_div_float
  negInf_div := negInf_div_float
  abs_nan := abs_nan_float
  abs_of_nonneg := abs_of_nonneg_float
  abs_of_nonpos := abs_of_nonpos_float
  half_add_half := by decide
  one_div_two := by decide
  one_sub_half := by decide
  pi_fin := by decide
  one_le_pi := by decide
  inv_pi_fin := by decide
  fracPi2_fin := by decide
  inv_pi_mul_fracPi2 := by decide

/-! ### non-vacuity: gradual underflow is what makes `sub_pos` true -/
example : ∃ a b : Float, a < b ∧ NN (b - a) ∧ (0.0 : Float) < b - a :=
  ⟨Float.ofBits 0x0010000000000000, Float.ofBits 0x0010000000000001, by decide, by decide, by decide⟩

end Statrs.Props.Common
