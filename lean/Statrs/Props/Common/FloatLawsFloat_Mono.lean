/-
  Common — `MonoLaws Float`: every correctly rounded binary64 operation of Lean's `Float` model is monotone
  (for non-NaN results).  Rounding analysis in `Lemmas/FloatModel{RN,Round,Order,AddSub,Mul,Div,Sqrt}`.
-/
import Statrs.Props.Common.FloatLawsFloat_Order
import Statrs.Lemmas.FloatModelSqrt
namespace Statrs.Props.Common
open Statrs Statrs.Spec Statrs.Lemmas.FloatModel
open Float.Model

private theorem nn_fin64 {u : UF} (h : (fin64 u).isNaN = false) : u.isNaN = false := by
  rwa [fin64_isNaN] at h

/-- full(Float): `a ≤ b ⇒ a + c ≤ b + c` when neither sum is NaN -/
theorem add_le_add_right_float (a b c : Float) (h : a ≤ b) (n1 : NN (a + c)) (n2 : NN (b + c)) :
    a + c ≤ b + c := by
  rw [le_def] at h ⊢
  have n1 : (U (a + c)).isNaN = false := n1
  have n2 : (U (b + c)).isNaN = false := n2
  rw [U_add'] at n1 n2 ⊢
  rw [U_add']
  exact fin64_mono (uadd_mono_right (canon_U a) (canon_U b) (canon_U c) h (nn_fin64 n1) (nn_fin64 n2))

/-- full(Float): `a ≤ b ⇒ c + a ≤ c + b` when neither sum is NaN -/
theorem add_le_add_left_float (a b c : Float) (h : a ≤ b) (n1 : NN (c + a)) (n2 : NN (c + b)) :
    c + a ≤ c + b := by
  rw [le_def] at h ⊢
  have n1 : (U (c + a)).isNaN = false := n1
  have n2 : (U (c + b)).isNaN = false := n2
  rw [U_add'] at n1 n2 ⊢
  rw [U_add']
  exact fin64_mono (uadd_mono_left (canon_U a) (canon_U b) (canon_U c) h (nn_fin64 n1) (nn_fin64 n2))

/-- full(Float): `a ≤ b ⇒ a - c ≤ b - c` when neither difference is NaN -/
theorem sub_le_sub_right_float (a b c : Float) (h : a ≤ b) (n1 : NN (a - c)) (n2 : NN (b - c)) :
    a - c ≤ b - c := by
  have n1' : NN (a + -c) := by show (U (a + -c)).isNaN = false; rw [← U_sub_eq]; exact n1
  have n2' : NN (b + -c) := by show (U (b + -c)).isNaN = false; rw [← U_sub_eq]; exact n2
  have := add_le_add_right_float a b (-c) h n1' n2'
  rw [le_def] at this ⊢
  rwa [U_sub_eq, U_sub_eq]

/-- full(Float): `a ≤ b ⇒ c - b ≤ c - a` when neither difference is NaN -/
theorem sub_le_sub_left_float (a b c : Float) (h : a ≤ b) (n1 : NN (c - a)) (n2 : NN (c - b)) :
    c - b ≤ c - a := by
  have n1' : NN (c + -a) := by show (U (c + -a)).isNaN = false; rw [← U_sub_eq]; exact n1
  have n2' : NN (c + -b) := by show (U (c + -b)).isNaN = false; rw [← U_sub_eq]; exact n2
  have := add_le_add_left_float (-b) (-a) c (neg_le_neg_float a b h) n2' n1'
  rw [le_def] at this ⊢
  rwa [U_sub_eq, U_sub_eq]

/-- full(Float): multiplication by a non-negative right factor is monotone (non-NaN products) -/
theorem mul_le_mul_right_float (a b c : Float) (h : a ≤ b) (h0 : (0.0 : Float) ≤ c)
    (n1 : NN (a * c)) (n2 : NN (b * c)) : a * c ≤ b * c := by
  rw [le_def] at h h0 ⊢
  rw [U_zero] at h0
  have n1 : (U (a * c)).isNaN = false := n1
  have n2 : (U (b * c)).isNaN = false := n2
  rw [U_mul'] at n1 n2 ⊢
  rw [U_mul']
  exact fin64_mono (umul_mono_right (canon_U a) (canon_U b) (canon_U c) h h0 (nn_fin64 n1) (nn_fin64 n2))

/-- full(Float): multiplication by a non-negative left factor is monotone (non-NaN products) -/
theorem mul_le_mul_left_float (a b c : Float) (h : a ≤ b) (h0 : (0.0 : Float) ≤ c)
    (n1 : NN (c * a)) (n2 : NN (c * b)) : c * a ≤ c * b := by
  rw [le_def] at h h0 ⊢
  rw [U_zero] at h0
  have n1 : (U (c * a)).isNaN = false := n1
  have n2 : (U (c * b)).isNaN = false := n2
  rw [U_mul'] at n1 n2 ⊢
  rw [U_mul']
  exact fin64_mono (umul_mono_left (canon_U a) (canon_U b) (canon_U c) h h0 (nn_fin64 n1) (nn_fin64 n2))

/-- full(Float): division by a positive divisor is monotone (non-NaN quotients) -/
theorem div_le_div_right_float (a b c : Float) (h : a ≤ b) (h0 : (0.0 : Float) < c)
    (n1 : NN (a / c)) (n2 : NN (b / c)) : a / c ≤ b / c := by
  rw [le_def] at h ⊢
  rw [lt_def, U_zero] at h0
  have n1 : (U (a / c)).isNaN = false := n1
  have n2 : (U (b / c)).isNaN = false := n2
  rw [U_div'] at n1 n2 ⊢
  rw [U_div']
  exact fin64_mono (udiv_mono_right (canon_U a) (canon_U b) h h0 (nn_fin64 n1) (nn_fin64 n2))

/-- full(Float): a non-negative numerator over a larger positive divisor is not larger -/
theorem div_le_div_left_float (a b c : Float) (ha : (0.0 : Float) < a) (h : a ≤ b)
    (hc : (0.0 : Float) ≤ c) (n1 : NN (c / a)) (n2 : NN (c / b)) : c / b ≤ c / a := by
  rw [le_def] at h hc ⊢
  rw [lt_def, U_zero] at ha
  rw [U_zero] at hc
  have n1 : (U (c / a)).isNaN = false := n1
  have n2 : (U (c / b)).isNaN = false := n2
  rw [U_div'] at n1 n2 ⊢
  rw [U_div']
  exact fin64_mono (udiv_mono_left (canon_U a) (canon_U b) (canon_U c) ha h hc (nn_fin64 n1) (nn_fin64 n2))

/-- full(Float): `sqrt` is monotone on the non-negative floats -/
theorem sqrt_le_sqrt_float (a b : Float) (h0 : (0.0 : Float) ≤ a) (h : a ≤ b) :
    RFun.sqrt a ≤ RFun.sqrt b := by
  rw [le_def] at h h0 ⊢
  rw [U_zero] at h0
  rw [U_sqrt', U_sqrt']
  exact fin64_mono (usqrt_mono (canon_U a) (canon_U b) h0 h)

/-- full(Float): Lean's IEEE `Float` satisfies all monotonicity laws of `Statrs.Spec.MonoLaws` -/
theorem monoLaws_float : MonoLaws Float where
  add_le_add_right := add_le_add_right_float
  add_le_add_left := add_le_add_left_float
  sub_le_sub_right := sub_le_sub_right_float
  sub_le_sub_left := sub_le_sub_left_float
  mul_le_mul_right := mul_le_mul_right_float
  mul_le_mul_left := mul_le_mul_left_float
  div_le_div_right := div_le_div_right_float
  div_le_div_left := div_le_div_left_float
  neg_le_neg := neg_le_neg_float
  sqrt_le_sqrt := sqrt_le_sqrt_float

/-! ### non-vacuity: the NaN side conditions are satisfiable and needed -/
example : ∃ a b c : Float, a ≤ b ∧ NN (a + c) ∧ NN (b + c) := ⟨0.0, 1.0, 2.0, by decide, by decide, by decide⟩
example : ∃ a b c : Float, a ≤ b ∧ ¬ NN (a + c) := ⟨RFun.negInf, 1.0, RFun.inf, by decide, by decide⟩

end Statrs.Props.Common
