/-
  Common — `NaNLaws Float`: the operations of Lean's IEEE `Float` return NaN only in the IEEE
  invalid-operation cases (NaN operand, ∞−∞, 0·∞, 0/0, ∞/∞, sqrt of a negative), NaN operands give NaN,
  and a finite numerator over an infinite divisor is a zero.
-/
import Statrs.Props.Common.FloatLawsFloat_Order
import Statrs.Lemmas.FloatModelSqrt
namespace Statrs.Props.Common
open Statrs Statrs.Spec Statrs.Lemmas.FloatModel
open Float.Model
open Float.Model.UnpackedFloat (Sign)

private theorem nan_of_fin64 {u : UF} (h : (fin64 u).isNaN = true) : u.isNaN = true := by
  rwa [fin64_isNaN] at h

private theorem rounds_nn {x : ℝ} {u : UF} (h : Rounds x u) : u.isNaN = false := fz_nn h.1

/-- full(Float): `a + b` is NaN only for a NaN operand or two infinite operands -/
theorem add_nan_float (a b : Float) (h : RFun.isNaN (a + b) = true) :
    RFun.isNaN a = true ∨ RFun.isNaN b = true ∨ (RFun.isInf a = true ∧ RFun.isInf b = true) := by
  have h : (U (a + b)).isNaN = true := h
  rw [U_add'] at h
  have h := nan_of_fin64 h
  show (U a).isNaN = true ∨ (U b).isNaN = true ∨ ((U a).isInf = true ∧ (U b).isInf = true)
  rcases cls (U a) with hA | ⟨s, hA⟩ | hA
  · left; rw [hA]; rfl
  · rcases cls (U b) with hB | ⟨s', hB⟩ | hB
    · right; left; rw [hB]; rfl
    · right; right; rw [hA, hB]; exact ⟨rfl, rfl⟩
    · rw [hA, uadd_inf_fz _ hB] at h; exact absurd h (by simp [UnpackedFloat.isNaN])
  · rcases cls (U b) with hB | ⟨s', hB⟩ | hB
    · right; left; rw [hB]; rfl
    · rw [hB, uadd_fz_inf _ hA] at h; exact absurd h (by simp [UnpackedFloat.isNaN])
    · have := rounds_nn (uadd_rounds hA hB (canon_U a) (canon_U b))
      rw [this] at h; exact absurd h (by decide)

/-- full(Float): `a - b` is NaN only for a NaN operand or two infinite operands -/
theorem sub_nan_float (a b : Float) (h : RFun.isNaN (a - b) = true) :
    RFun.isNaN a = true ∨ RFun.isNaN b = true ∨ (RFun.isInf a = true ∧ RFun.isInf b = true) := by
  have h' : RFun.isNaN (a + -b) = true := by
    show (U (a + -b)).isNaN = true; rw [← U_sub_eq]; exact h
  have := add_nan_float a (-b) h'
  rwa [neg_nan_float, neg_inf_float] at this

/-- full(Float): `a * b` is NaN only for a NaN operand or `0 · ∞` -/
theorem mul_nan_float (a b : Float) (h : RFun.isNaN (a * b) = true) :
    RFun.isNaN a = true ∨ RFun.isNaN b = true ∨
      ((a == (0.0 : Float)) = true ∧ RFun.isInf b = true) ∨
      (RFun.isInf a = true ∧ (b == (0.0 : Float)) = true) := by
  have h : (U (a * b)).isNaN = true := h
  rw [U_mul'] at h
  have h := nan_of_fin64 h
  show (U a).isNaN = true ∨ (U b).isNaN = true ∨
    ((a == (0.0 : Float)) = true ∧ (U b).isInf = true) ∨ ((U a).isInf = true ∧ (b == (0.0 : Float)) = true)
  rw [beq_def, beq_def, U_zero]
  rcases hA : U a with s | _ | s | ⟨s, m, e, hm⟩ <;> rcases hB : U b with s' | _ | s' | ⟨s', m', e', hm'⟩ <;>
    rw [hA, hB] at h <;>
    first
    | exact Or.inl rfl
    | exact Or.inr (Or.inl rfl)
    | exact Or.inr (Or.inr (Or.inl ⟨rfl, rfl⟩))
    | exact Or.inr (Or.inr (Or.inr ⟨rfl, rfl⟩))
    | (exfalso
       have := rounds_nn (umul_ff s s' m m' e e' hm hm' (hA ▸ canon_U a) (hB ▸ canon_U b))
       rw [this] at h; exact absurd h (by decide))
    | (simp [UnpackedFloat.mul, UnpackedFloat.isNaN] at h)

/-- full(Float): `a / b` is NaN only for a NaN operand, `0/0` or `∞/∞` -/
theorem div_nan_float (a b : Float) (h : RFun.isNaN (a / b) = true) :
    RFun.isNaN a = true ∨ RFun.isNaN b = true ∨
      ((a == (0.0 : Float)) = true ∧ (b == (0.0 : Float)) = true) ∨
      (RFun.isInf a = true ∧ RFun.isInf b = true) := by
  have h : (U (a / b)).isNaN = true := h
  rw [U_div'] at h
  have h := nan_of_fin64 h
  show (U a).isNaN = true ∨ (U b).isNaN = true ∨
    ((a == (0.0 : Float)) = true ∧ (b == (0.0 : Float)) = true) ∨ ((U a).isInf = true ∧ (U b).isInf = true)
  rw [beq_def, beq_def, U_zero]
  rcases hA : U a with s | _ | s | ⟨s, m, e, hm⟩ <;> rcases hB : U b with s' | _ | s' | ⟨s', m', e', hm'⟩ <;>
    rw [hA, hB] at h <;>
    first
    | exact Or.inl rfl
    | exact Or.inr (Or.inl rfl)
    | exact Or.inr (Or.inr (Or.inl ⟨rfl, rfl⟩))
    | exact Or.inr (Or.inr (Or.inr ⟨rfl, rfl⟩))
    | (exfalso
       have := rounds_nn (udiv_ff s s' m m' e e' hm hm')
       rw [this] at h; exact absurd h (by decide))
    | (simp [UnpackedFloat.div, UnpackedFloat.isNaN] at h)

/-- full(Float): `sqrt a` is NaN only for NaN or negative `a` -/
theorem sqrt_nan_float (a : Float) (h : RFun.isNaN (RFun.sqrt a) = true) :
    RFun.isNaN a = true ∨ a < (0.0 : Float) := by
  have h : (U (RFun.sqrt a)).isNaN = true := h
  rw [U_sqrt'] at h
  have h := nan_of_fin64 h
  show (U a).isNaN = true ∨ a < (0.0 : Float)
  rw [lt_def, U_zero]
  rcases hA : U a with s | _ | s | ⟨s, m, e, hm⟩ <;> (try cases s) <;> rw [hA] at h <;>
    first
    | exact Or.inl rfl
    | exact Or.inr rfl
    | (exfalso
       have := rounds_nn (usqrt_f m e hm)
       rw [this] at h; exact absurd h (by decide))
    | (simp [UnpackedFloat.sqrt, UnpackedFloat.isNaN] at h)

/-- full(Float): a finite numerator over an infinite divisor is a zero -/
theorem div_inf_float (a b : Float) (ha : Fin a) (hb : RFun.isInf b = true) :
    ((a / b) == (0.0 : Float)) = true := by
  have ha : (U a).isFinite = true := ha
  have hb : (U b).isInf = true := hb
  rw [beq_def, U_div', U_zero]
  rcases hA : U a with s | _ | s | ⟨s, m, e, hm⟩ <;> rcases hB : U b with s' | _ | s' | ⟨s', m', e', hm'⟩ <;>
    rw [hA] at ha <;> rw [hB] at hb <;>
    first
    | (simp [UnpackedFloat.isFinite] at ha; done)
    | (simp [UnpackedFloat.isInf] at hb; done)
    | rfl

/-- full(Float): Lean's IEEE `Float` satisfies `Statrs.Spec.NaNLaws` -/
theorem nanLaws_float : NaNLaws Float where
  add_nan := add_nan_float
  sub_nan := sub_nan_float
  mul_nan := mul_nan_float
  div_nan := div_nan_float
  neg_nan := neg_nan_float
  neg_inf := neg_inf_float
  sqrt_nan := sqrt_nan_float
  nan_add := nan_add_float
  nan_sub := nan_sub_float
  nan_mul := nan_mul_float
  nan_div := nan_div_float
  div_inf := div_inf_float

/-! ### the invalid cases do occur -/
example : RFun.isNaN ((RFun.inf : Float) - RFun.inf) = true := by decide
example : RFun.isNaN ((0.0 : Float) * RFun.inf) = true := by decide
example : RFun.isNaN ((0.0 : Float) / 0.0) = true := by decide

end Statrs.Props.Common
