/-
  Common — integer → `Float` conversion (`OfIntLaws Float`) and the assembled result
  `floatLaws_float : FloatLaws Float`: Lean's IEEE `Float` (kernel-visible `Float.Model`) satisfies every
  law of `Statrs.Spec.FloatLaws`.

  `ofInt_mono` is proved on the whole range `(-2^190, 2^190)` where the instance's `RFun.ofInt` is a
  conversion (`ofInt_mono_float`); the Spec field asks for `[-2^64, 2^64]`.  The *unrestricted* statement
  (`∀ i j, i ≤ j → ofInt i ≤ ofInt j`, as the Spec first had it) is not provable and is false in the
  executable: for `|i| ≥ 2^190` the instance returns the opaque panic sentinel `panicNaN`
  (`ofInt_mono_unrestricted_counterexample`).
-/
import Statrs.Props.Common.FloatLawsFloat_Mono
import Statrs.Props.Common.FloatLawsFloat_Exact
import Statrs.Props.Common.FloatLawsFloat_NaN
import Statrs.Lemmas.FloatModelOfInt
namespace Statrs.Props.Common
open Statrs Statrs.Spec Statrs.Lemmas.FloatModel
open Float.Model

private theorem ofInt_in_range (i : Int) (h1 : -(2 ^ 190 : Int) < i) (h2 : i < 2 ^ 190) :
    (RFun.ofInt i : Float) = Float.ofInt i := by
  show (if i ≤ -(2 ^ 190) ∨ i ≥ 2 ^ 190 then panicNaN else Float.ofInt i) = _
  rw [if_neg (by omega)]

/-- full(Float): integer → float conversion is monotone on `(-2^190, 2^190)` (it is the correctly rounded
    value, overflowing to ±∞ beyond the binary64 range) -/
theorem ofInt_mono_float (i j : Int) (hi : -(2 ^ 190 : Int) < i) (hij : i ≤ j) (hj : j < 2 ^ 190) :
    (RFun.ofInt i : Float) ≤ RFun.ofInt j := by
  rw [ofInt_in_range i hi (by omega), ofInt_in_range j (by omega) hj, le_def]
  obtain ⟨r, h1, h2⟩ := U_ofInt i
  obtain ⟨r', h1', h2'⟩ := U_ofInt j
  rw [h2, h2']
  exact fin64_mono (rounds_le h1 h1' (by exact_mod_cast hij))

/-- full(Float): every integer in `[-2^64, 2^64]` converts to a finite float -/
theorem ofInt_fin_float (i : Int) (h1 : -(2 ^ 64 : Int) ≤ i) (h2 : i ≤ 2 ^ 64) :
    Fin (RFun.ofInt i : Float) := by
  rw [ofInt_in_range i (by omega) (by omega)]
  show (U (Float.ofInt i)).isFinite = true
  obtain ⟨r, hr, hU⟩ := U_ofInt i
  have hrep : Rep r := by
    apply rounds_rep hr
    have a1 : ((-(2 ^ 64) : Int) : ℝ) ≤ (i : ℝ) := by exact_mod_cast h1
    have a2 : (i : ℝ) ≤ ((2 ^ 64 : Int) : ℝ) := by exact_mod_cast h2
    have : |(i : ℝ)| ≤ (2 : ℝ) ^ (64 : ℤ) := by
      rw [abs_le]; constructor
      · push_cast at a1; norm_num at a1 ⊢; linarith
      · push_cast at a2; norm_num at a2 ⊢; linarith
    exact le_trans this (zpow_le_zpow_right₀ (by norm_num) (by norm_num))
  rw [hU, fin64_of_rep hrep]
  exact (fz_iff r).1 hr.1

/-- full(Float): the value of a converted integer — `U (Float.ofInt i)` is the packed round-to-nearest-even
    of `i` (±∞ beyond the binary64 range) -/
theorem ofInt_rounds_float (i : Int) :
    ∃ r, Rounds (i : ℝ) r ∧ U (Float.ofInt i) = fin64 r := U_ofInt i

/-- full(Float): `OfIntLaws Float` (monotone and finite on the 64-bit range, exact at 0 and 1) -/
theorem ofIntLaws_float : OfIntLaws Float where
  ofInt_mono := fun i j hi hij hj => ofInt_mono_float i j (by omega) hij (by omega)
  ofInt_zero := by decide
  ofInt_one := by decide
  ofInt_fin := ofInt_fin_float

/-- counterexample: the unrestricted monotonicity statement (`∀ i j, i ≤ j → ofInt i ≤ ofInt j`, the
    first version of the Spec field) fails for the `Float` instance as soon as the panic sentinel is a NaN
    (as it is in the executable; in the logic `Float.ofRawBits` is opaque) — witness `i = j = 2^190` -/
theorem ofInt_mono_unrestricted_counterexample (h : RFun.isNaN panicNaN = true) :
    ¬ (∀ i j : Int, i ≤ j → (RFun.ofInt i : Float) ≤ RFun.ofInt j) := by
  intro hl
  have h1 := hl (2 ^ 190) (2 ^ 190) le_rfl
  have h2 : (RFun.ofInt (2 ^ 190 : Int) : Float) = panicNaN := by
    show (if (2 ^ 190 : Int) ≤ -(2 ^ 190) ∨ (2 ^ 190 : Int) ≥ 2 ^ 190 then panicNaN else _) = _
    rw [if_pos (Or.inr le_rfl)]
  rw [h2] at h1
  have : RFun.isNaN panicNaN = false := orderLaws_float.le_nn_left _ _ h1
  rw [h] at this
  exact absurd this (by decide)

/-- full(Float): Lean's IEEE `Float` satisfies all of `Statrs.Spec.FloatLaws` -/
theorem floatLaws_float : FloatLaws Float where
  ord := orderLaws_float
  inf := infLaws_float
  lit := litLaws_float
  mono := monoLaws_float
  exact := exactLaws_float
  nan := nanLaws_float
  ofInt := ofIntLaws_float

/-! ### non-vacuity -/
example : ∃ i j : Int, -(2 ^ 64 : Int) ≤ i ∧ i ≤ j ∧ j ≤ 2 ^ 64 := ⟨-5, 7, by norm_num, by norm_num, by norm_num⟩
example : (RFun.ofInt (-3) : Float) ≤ RFun.ofInt 4 := by decide

end Statrs.Props.Common
