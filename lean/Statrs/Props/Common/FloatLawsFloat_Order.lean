/-
  Common — Lean's IEEE `Float` (kernel-visible `Float.Model`) satisfies the part of
  `Statrs.Spec.FloatLaws` that needs no rounding analysis:
  `OrderLaws Float`, `InfLaws Float`, `LitLaws Float`, and the NaN-propagation / negation facts
  (`neg_le_neg`, `neg_neg`, `neg_zero`, `neg_nan`, `neg_inf`, `nan_add … nan_div`).
-/
import Statrs.Spec.FloatLaws
import Statrs.Lemmas.FloatModelPack
namespace Statrs.Props.Common
open Statrs Statrs.Spec Statrs.Lemmas.FloatModel
open Float.Model

/-- full(Float): IEEE comparison on `Float` is a total preorder on the non-NaN values, `<` is its strict
    part, `==` its equivalence, comparisons with NaN are false, finite ⇔ neither NaN nor infinite -/
theorem orderLaws_float : OrderLaws Float where
  le_refl := fun a h => (le_def a a).2 (ule_refl _ h)
  le_trans := fun a b c h1 h2 => (le_def a c).2 (ule_trans ((le_def a b).1 h1) ((le_def b c).1 h2))
  le_total := fun a b ha hb => by
    rw [le_def, le_def]; exact ule_total _ _ ha hb
  lt_iff := fun a b => by
    rw [lt_def, le_def, le_def]; exact ult_iff _ _
  beq_iff := fun a b => by
    rw [beq_def, le_def, le_def]; exact ubeq_iff _ _
  le_nn_left := fun a b h => (le_nn ((le_def a b).1 h)).1
  le_nn_right := fun a b h => (le_nn ((le_def a b).1 h)).2
  fin_nn := fun a h => ((isFinite_iff (U a)).1 h).1
  fin_iff := fun a => isFinite_iff (U a)

/-- full(Float): `RFun.inf`/`RFun.negInf` are the top/bottom of the non-NaN floats, are infinite and not
    NaN; `RFun.nan` is a NaN -/
theorem infLaws_float : InfLaws Float where
  le_inf := fun a h => by rw [le_def, U_inf]; exact ule_inf _ h
  negInf_le := fun a h => by rw [le_def, U_negInf]; exact neg_inf_ule _ h
  inf_nn := by decide
  negInf_nn := by decide
  inf_isInf := by decide
  negInf_isInf := by decide
  nan_nan := by decide

/-- full(Float): the literals `0.0 < 0.5 < 1.0 < 2.0` are finite and ordered (kernel evaluation) -/
theorem litLaws_float : LitLaws Float where
  zero_fin := by decide
  one_fin := by decide
  half_fin := by decide
  two_fin := by decide
  zero_lt_half := by decide
  half_lt_one := by decide
  one_lt_two := by decide

/-! ### negation -/

private theorem key_neg (u : UF) : key u.neg = (-(key u).1, -(key u).2.1, -(key u).2.2) := by
  rcases u with s | _ | s | ⟨s, m, e, h⟩ <;> (try cases s) <;> simp [UnpackedFloat.neg, key]

private theorem isNaN_neg (u : UF) : u.neg.isNaN = u.isNaN := by cases u <;> rfl
private theorem isInf_neg (u : UF) : u.neg.isInf = u.isInf := by cases u <;> rfl
private theorem neg_neg_u (u : UF) : u.neg.neg = u := by
  rcases u with s | _ | s | ⟨s, m, e, h⟩ <;> (try cases s) <;> rfl

/-- full(Float): negation reverses `≤` -/
theorem neg_le_neg_float (a b : Float) (h : a ≤ b) : -b ≤ -a := by
  rw [le_def] at h ⊢
  have hn := le_nn h
  rw [U_neg, U_neg, le_iff_key _ _ (by rw [isNaN_neg]; exact hn.2) (by rw [isNaN_neg]; exact hn.1),
    key_neg, key_neg]
  rw [le_iff_key _ _ hn.1 hn.2] at h
  unfold kle at *
  simp only
  omega

/-- full(Float): `-(-x) = x` (bit for bit on the unpacked view, hence `==` for non-NaN `x`) -/
theorem neg_neg_float (x : Float) (h : NN x) : ((-(-x)) == x) = true := by
  rw [beq_def, U_neg, U_neg, neg_neg_u]
  exact (ubeq_iff _ _).2 ⟨ule_refl _ h, ule_refl _ h⟩

/-- full(Float): `-0.0 == 0.0` -/
theorem neg_zero_float : ((-(0.0 : Float)) == (0.0 : Float)) = true := by decide

/-- full(Float): `isNaN (-a) = isNaN a` -/
theorem neg_nan_float (a : Float) : RFun.isNaN (-a) = RFun.isNaN a := by
  rw [isNaN_def, isNaN_def, U_neg, isNaN_neg]

/-- full(Float): `isInf (-a) = isInf a` -/
theorem neg_inf_float (a : Float) : RFun.isInf (-a) = RFun.isInf a := by
  rw [isInf_def, isInf_def, U_neg, isInf_neg]

/-! ### NaN operands give NaN results -/

private theorem uadd_l (x : UF) : UnpackedFloat.add .binary64 .notANumber x = .notANumber := by
  cases x <;> rfl
private theorem uadd_r (x : UF) : UnpackedFloat.add .binary64 x .notANumber = .notANumber := by
  cases x <;> rfl
private theorem usub_l (x : UF) : UnpackedFloat.sub .binary64 .notANumber x = .notANumber := by
  cases x <;> rfl
private theorem usub_r (x : UF) : UnpackedFloat.sub .binary64 x .notANumber = .notANumber := by
  cases x <;> rfl
private theorem umul_l (x : UF) : UnpackedFloat.mul .binary64 .notANumber x = .notANumber := by
  cases x <;> rfl
private theorem umul_r (x : UF) : UnpackedFloat.mul .binary64 x .notANumber = .notANumber := by
  cases x <;> rfl
private theorem udiv_l (x : UF) : UnpackedFloat.div .binary64 .notANumber x = .notANumber := by
  cases x <;> rfl
private theorem udiv_r (x : UF) : UnpackedFloat.div .binary64 x .notANumber = .notANumber := by
  cases x <;> rfl

/-- full(Float): a NaN operand makes `a + b` NaN -/
theorem nan_add_float (a b : Float) (h : RFun.isNaN a = true ∨ RFun.isNaN b = true) :
    RFun.isNaN (a + b) = true := by
  rw [isNaN_def, U_add]
  rcases h with h | h
  · rw [isNaN_eq_true (u := U a) h, uadd_l, unpack_pack_nan']; rfl
  · rw [isNaN_eq_true (u := U b) h, uadd_r, unpack_pack_nan']; rfl

/-- full(Float): a NaN operand makes `a - b` NaN -/
theorem nan_sub_float (a b : Float) (h : RFun.isNaN a = true ∨ RFun.isNaN b = true) :
    RFun.isNaN (a - b) = true := by
  rw [isNaN_def, U_sub]
  rcases h with h | h
  · rw [isNaN_eq_true (u := U a) h, usub_l, unpack_pack_nan']; rfl
  · rw [isNaN_eq_true (u := U b) h, usub_r, unpack_pack_nan']; rfl

/-- full(Float): a NaN operand makes `a * b` NaN -/
theorem nan_mul_float (a b : Float) (h : RFun.isNaN a = true ∨ RFun.isNaN b = true) :
    RFun.isNaN (a * b) = true := by
  rw [isNaN_def, U_mul]
  rcases h with h | h
  · rw [isNaN_eq_true (u := U a) h, umul_l, unpack_pack_nan']; rfl
  · rw [isNaN_eq_true (u := U b) h, umul_r, unpack_pack_nan']; rfl

/-- full(Float): a NaN operand makes `a / b` NaN -/
theorem nan_div_float (a b : Float) (h : RFun.isNaN a = true ∨ RFun.isNaN b = true) :
    RFun.isNaN (a / b) = true := by
  rw [isNaN_def, U_div]
  rcases h with h | h
  · rw [isNaN_eq_true (u := U a) h, udiv_l, unpack_pack_nan']; rfl
  · rw [isNaN_eq_true (u := U b) h, udiv_r, unpack_pack_nan']; rfl

/-! ### non-vacuity -/
example : ∃ a b : Float, a ≤ b ∧ ¬ b ≤ a := ⟨0.0, 1.0, by decide, by decide⟩
example : ∃ a : Float, NN a ∧ ¬ Fin a := ⟨RFun.inf, by decide, by decide⟩

end Statrs.Props.Common
