/-
  Common — the two key facts about the rounding function of Lean's binary64 model
  (`UnpackedFloat.round` / `normalize`, then `pack`), stated with `UnpackedFloat.compare`:
    (i)  it is monotone in the exact dyadic value it is given, including overflow to ±∞ (through
         `pack`/`unpack`) and gradual underflow;
    (ii) it is the identity on representable values.
  Plus: results are canonical, `unpack ∘ pack` is the identity on representable values, and the value
  semantics (`val`) of the result is the round-to-nearest-even of the exact value (`Rounds`).
-/
import Statrs.Lemmas.FloatModelOfInt
namespace Statrs.Props.Common
open Statrs Statrs.Lemmas.FloatModel
open Float.Model
open Float.Model.UnpackedFloat

/-- full(Float.Model): `le` in terms of `compare` -/
theorem le_iff_compare (u v : UF) :
    u.le v = true ↔ (u.compare v = some .lt ∨ u.compare v = some .eq) := by
  unfold UnpackedFloat.le
  rcases h : u.compare v with _ | o
  · simp
  · cases o <;> simp [Ordering.isLE]

/-- full(Float.Model): (i) rounding is monotone in the exact signed dyadic value `z · 2^e`
    (no overflow handling: the canonical unpacked results are compared) -/
theorem normalize_mono (z₁ z₂ e₁ e₂ : ℤ) (zs₁ zs₂ : Sign)
    (h : (z₁ : ℝ) * (2 : ℝ) ^ e₁ ≤ (z₂ : ℝ) * (2 : ℝ) ^ e₂) :
    (UnpackedFloat.normalize .binary64 z₁ e₁ zs₁).compare (UnpackedFloat.normalize .binary64 z₂ e₂ zs₂) = some .lt ∨
    (UnpackedFloat.normalize .binary64 z₁ e₁ zs₁).compare (UnpackedFloat.normalize .binary64 z₂ e₂ zs₂) = some .eq :=
  (le_iff_compare _ _).1 (rounds_le (normalize_rounds z₁ e₁ zs₁) (normalize_rounds z₂ e₂ zs₂) h)

/-- full(Float.Model): (i) with overflow — after `pack`/`unpack` (values beyond the binary64 range
    become ±∞) rounding is still monotone in the exact dyadic value -/
theorem normalize_pack_mono (z₁ z₂ e₁ e₂ : ℤ) (zs₁ zs₂ : Sign)
    (h : (z₁ : ℝ) * (2 : ℝ) ^ e₁ ≤ (z₂ : ℝ) * (2 : ℝ) ^ e₂) :
    (Float.Model.pack (UnpackedFloat.normalize .binary64 z₁ e₁ zs₁)).compare
        (Float.Model.pack (UnpackedFloat.normalize .binary64 z₂ e₂ zs₂)) = some .lt ∨
    (Float.Model.pack (UnpackedFloat.normalize .binary64 z₁ e₁ zs₁)).compare
        (Float.Model.pack (UnpackedFloat.normalize .binary64 z₂ e₂ zs₂)) = some .eq := by
  have h1 := normalize_rounds z₁ e₁ zs₁
  have h2 := normalize_rounds z₂ e₂ zs₂
  show (Float.Model.pack _).unpack.compare (Float.Model.pack _).unpack = _ ∨
    (Float.Model.pack _).unpack.compare (Float.Model.pack _).unpack = _
  rw [unpack_pack _ h1.2.1, unpack_pack _ h2.2.1]
  exact (le_iff_compare _ _).1 (fin64_mono (rounds_le h1 h2 h))

/-- full(Float.Model): (i) for a common exponent, in integer terms -/
theorem normalize_mono_int (z₁ z₂ e : ℤ) (zs₁ zs₂ : Sign) (h : z₁ ≤ z₂) :
    (UnpackedFloat.normalize .binary64 z₁ e zs₁).compare (UnpackedFloat.normalize .binary64 z₂ e zs₂) = some .lt ∨
    (UnpackedFloat.normalize .binary64 z₁ e zs₁).compare (UnpackedFloat.normalize .binary64 z₂ e zs₂) = some .eq := by
  apply normalize_mono
  have : (z₁ : ℝ) ≤ z₂ := by exact_mod_cast h
  exact mul_le_mul_of_nonneg_right this (by positivity)

/-- canonical finite-or-zero values with the same real value and sign are identical -/
private theorem eq_of_val_eq {s : Sign} {m m' : ℕ} {e e' : ℤ} {hm : 0 < m} {hm' : 0 < m'}
    (c : Canon (.finite s m e hm)) (c' : Canon (.finite s m' e' hm'))
    (h : val (.finite s m e hm) = val (.finite s m' e' hm')) :
    UnpackedFloat.finite s m e hm = .finite s m' e' hm' := by
  have hb := (beq_iff_val (u := .finite s m e hm) (v := .finite s m' e' hm') trivial trivial c c').2 h
  rw [beq_iff_key _ _ rfl rfl] at hb
  cases s <;> simp [key] at hb <;> obtain ⟨rfl, hb⟩ := hb
  · have : m = m' := by omega
    subst this; rfl
  · have : m = m' := by omega
    subst this; rfl

/-- full(Float.Model): (ii) `round` is the identity on canonical (in particular representable) values -/
theorem round_id (s : Sign) (m : ℕ) (e : ℤ) (hm : 0 < m) (hc : Canon (.finite s m e hm)) :
    UnpackedFloat.round .binary64 s m e = .finite s m e hm := by
  have h := round_rounds s m e hm
  have hv : val (UnpackedFloat.round .binary64 s m e) = val (.finite s m e hm) :=
    h.val_eq (w := .finite s m e hm) trivial hc
  have hpos : (0 : ℝ) < (m : ℝ) * (2 : ℝ) ^ e := by positivity
  rcases hr : UnpackedFloat.round .binary64 s m e with s' | _ | s' | ⟨s', m', e', hm'⟩
  · rw [hr] at h; exact absurd h.1 (by simp [FZ])
  · rw [hr] at h; exact absurd h.1 (by simp [FZ])
  · rw [hr] at hv; exfalso
    cases s <;> simp only [val, sgn] at hv <;> linarith
  · rw [hr] at hv h
    have hpos' : (0 : ℝ) < (m' : ℝ) * (2 : ℝ) ^ e' := by positivity
    have hs : s' = s := by
      cases s <;> cases s' <;> simp only [val, sgn] at hv <;> first | rfl | (exfalso; linarith)
    subst hs
    exact eq_of_val_eq h.2.1 hc hv

/-- full(Float.Model): (ii) through the packed representation — a representable value survives
    `round`, `pack`, `unpack` unchanged -/
theorem round_pack_id (s : Sign) (m : ℕ) (e : ℤ) (hm : 0 < m) (hr : Rep (.finite s m e hm)) :
    (Float.Model.pack (UnpackedFloat.round .binary64 s m e)).unpack = .finite s m e hm := by
  rw [round_id s m e hm hr.canon, unpack_pack _ hr.canon, fin64_of_rep hr]

/-- full(Float.Model): every `Float.Model` unpacks to a representable value, and `unpack ∘ pack` is the
    identity on representable values -/
theorem unpack_pack_id (u : UF) (h : Rep u) : (Float.Model.pack u).unpack = u := by
  rw [unpack_pack _ h.canon, fin64_of_rep h]

/-- full(Float.Model): gradual underflow — a dyadic below half the least subnormal rounds to a zero of
    its sign, `2^-1074` itself is kept -/
example : UnpackedFloat.round .binary64 .positive 1 (-1076) = .zero .positive := by decide
example : UnpackedFloat.round .binary64 .negative 1 (-1076) = .zero .negative := by decide
example : UnpackedFloat.round .binary64 .positive 1 (-1074) = .finite .positive 1 (-1074) (by decide) := by
  decide
/-- overflow: `2^1024` packs to `+∞` -/
example : (Float.Model.pack (UnpackedFloat.round .binary64 .positive 1 1024)).unpack = .infinity .positive := by
  decide

end Statrs.Props.Common
