/-
  Statrs.Props.Common.FloatLawsXF — NON-VACUITY of the float-law hypothesis structures, assembled.

  The exact-value carrier `XF` (`FloatLawsXF_Carrier.lean`: `XR` = NaN | −∞ | finite real | +∞ with IEEE
  comparison semantics and special-value algebra, plus the IEEE special values of `sqrt exp ln atan expm1 ln1p
  abs`) satisfies `FloatLaws`, `ExtraLaws` and `LibmLaws`.  Consequently every theorem of the form
  `(L : FloatLaws α) (E : ExtraLaws α) (M : LibmLaws α) → …` in `C01/FloatRange*`, `C02/FloatSf*`,
  `C03/FloatPdf*` is non-vacuous; some instances are spelled out below.
  (`XR` itself does not qualify: its `sqrt`/`exp`/… are NaN at `±∞`, so `NaNLaws.sqrt_nan`,
  `MonoLaws.sqrt_le_sqrt` and `LibmLaws.exp_negInf` fail there.)
-/
import Statrs.Props.Common.FloatLawsXF_Mono
import Statrs.Props.Common.FloatLawsXF_Exact
import Statrs.Props.Common.FloatLawsXF_Extra
import Statrs.Props.C01.FloatRangeUniform
import Statrs.Props.C01.FloatRangeTriangular
import Statrs.Props.C01.FloatRangeDiscreteUniform
import Statrs.Props.C01.FloatRangeExp
import Statrs.Props.C01.FloatRangeLaplace
import Statrs.Props.C01.FloatRangeCauchy
namespace Statrs.Spec
open Statrs Statrs.Gen

/-- full: the exact-value carrier satisfies every law of `Statrs.Spec.FloatLaws` -/
theorem floatLaws_XF : FloatLaws XF :=
  ⟨XF.orderLaws, XF.infLaws, XF.litLaws, XF.monoLaws, XF.exactLaws, XF.nanLaws, XF.ofIntLaws⟩

/-- full: … and the additional IEEE facts `ExtraLaws` -/
theorem extraLaws_XF : ExtraLaws XF := XF.extraLaws

/-- full: … and the libm premises `LibmLaws` (with the true real functions) -/
theorem libmLaws_XF : LibmLaws XF := XF.libmLaws

/-! ### the hypothesis bundles of the family theorems are satisfiable on `XF`, and the theorems apply -/

open Statrs.Props.C01 XF in
/-- non-vacuity: the standard uniform on `XF` satisfies `UniformOK` -/
theorem uniformOK_XF : UniformOK (Uniform.standard : Uniform XF) := by
  refine ⟨?_, ?_, ?_, ?_⟩ <;> simp only [Uniform.standard] <;> xr_eval <;> norm_num

open Statrs.Props.C01 in
example (x y : XF) (h : x ≤ y) :
    Uniform.cdf (Uniform.standard : Uniform XF) x ≤ Uniform.cdf (Uniform.standard : Uniform XF) y :=
  uniform_cdf_mono_fl floatLaws_XF extraLaws_XF _ uniformOK_XF h

open Statrs.Props.C01 XF in
/-- non-vacuity: `Triangular(0, 2, 1)` on `XF` satisfies `TriangularOK` -/
theorem triangularOK_XF : TriangularOK ({ f_min := 0.0, f_max := 2.0, f_mode := 1.0 } : Triangular XF) := by
  refine ⟨?_, ?_, ?_, ?_, ?_, ?_, ?_, fun _ => ⟨?_, ?_⟩, fun _ => ⟨?_, ?_⟩⟩ <;> xr_eval <;> norm_num

open Statrs.Props.C01 XF in
/-- non-vacuity: `DiscreteUniform(−3, 5)` on `XF` satisfies `DiscreteUniformOK` -/
theorem discreteUniformOK_XF : DiscreteUniformOK XF ({ f_min := -3, f_max := 5 } : DiscreteUniform) := by
  refine ⟨by norm_num, by simp [i64Min], by simp [i64Max], ?_⟩
  unfold duDen; xr_eval

open Statrs.Props.C01 XF in
/-- non-vacuity of the `…_libm` hypotheses: `Exp(1)`, `Laplace(0,1)`, `Cauchy(0,1)` on `XF` -/
example (x : XF) (hx : NN x) : NN (Exp.cdf ({ f_rate := 1.0 } : Exp XF) x) :=
  exp_cdf_nn_libm floatLaws_XF extraLaws_XF libmLaws_XF _ (by xr_eval; norm_num) (by xr_eval) hx

open Statrs.Props.C01 XF in
example (x y : XF) (h : x ≤ y) :
    Laplace.cdf ({ f_location := 0.0, f_scale := 1.0 } : Laplace XF) x ≤
    Laplace.cdf ({ f_location := 0.0, f_scale := 1.0 } : Laplace XF) y :=
  laplace_cdf_mono_libm floatLaws_XF extraLaws_XF libmLaws_XF _ (by xr_eval) (by xr_eval; norm_num)
    (by xr_eval) h

open Statrs.Props.C01 XF in
example (x : XF) (hx : NN x) :
    Cauchy.cdf ({ f_location := 0.0, f_scale := 1.0 } : Cauchy XF) x ≤ (1.0 : XF) :=
  (cauchy_cdf_mem_unit_libm floatLaws_XF extraLaws_XF libmLaws_XF _ (by xr_eval) (by xr_eval; norm_num)
    (by xr_eval) hx).2

end Statrs.Spec
