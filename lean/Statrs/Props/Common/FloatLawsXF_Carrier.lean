/-
  Statrs.Props.Common.FloatLawsXF — NON-VACUITY of the float-law hypothesis structures.

  `XF` is the exact-value carrier `XR` (`Statrs/Spec/XR.lean`: NaN | −∞ | finite real | +∞, IEEE comparison
  semantics, IEEE special-value algebra, no rounding) with the IEEE special values of `sqrt`, `exp`, `ln`,
  `atan`, `expm1`, `ln1p`, `abs` filled in (in `XR` these are `nan` outside the finite values, so `XR` itself
  fails `NaNLaws.sqrt_nan`, `MonoLaws.sqrt_le_sqrt` at `+∞` and `LibmLaws.exp_negInf`).
  It satisfies `FloatLaws`, `ExtraLaws` and `LibmLaws`; hence every `(L : FloatLaws α) (E : ExtraLaws α)
  (M : LibmLaws α)` theorem is non-vacuous, and the hypothesis structures are jointly consistent.
  (Exactness also shows that the laws do not force any rounding error.)
-/
import Statrs.Spec.XR
import Statrs.Spec.FloatLaws
import Statrs.Lemmas.FloatLawsExtra
import Mathlib.Analysis.SpecialFunctions.Trigonometric.Arctan
import Mathlib.Analysis.SpecialFunctions.Log.Basic
import Mathlib.Analysis.SpecialFunctions.Sqrt
import Mathlib.Tactic
namespace Statrs.Spec
open Statrs

/-- the exact-value carrier with IEEE special values for the libm functions -/
structure XF where
  v : XR

namespace XF
open XR

instance : Add XF := ⟨fun a b => ⟨a.v + b.v⟩⟩
instance : Sub XF := ⟨fun a b => ⟨a.v - b.v⟩⟩
noncomputable instance : Mul XF := ⟨fun a b => ⟨a.v * b.v⟩⟩
noncomputable instance : Div XF := ⟨fun a b => ⟨a.v / b.v⟩⟩
instance : Neg XF := ⟨fun a => ⟨-a.v⟩⟩
instance : LT XF := ⟨fun a b => a.v < b.v⟩
instance : LE XF := ⟨fun a b => a.v ≤ b.v⟩
noncomputable instance : BEq XF := ⟨fun a b => a.v == b.v⟩
noncomputable instance : DecidableLT XF := fun _ _ => Classical.propDecidable _
noncomputable instance : DecidableLE XF := fun _ _ => Classical.propDecidable _
noncomputable instance : OfScientific XF := ⟨fun m s e => ⟨OfScientific.ofScientific m s e⟩⟩
instance : Inhabited XF := ⟨⟨XR.nan⟩⟩

/-- IEEE `sqrt`: `sqrt(+∞) = +∞`, NaN for negative arguments and `−∞` -/
noncomputable def sqrtX : XR → XR
  | fin r => if r < 0 then nan else fin (Real.sqrt r)
  | pinf => pinf
  | _ => nan
/-- `exp(−∞) = 0`, `exp(+∞) = +∞` -/
noncomputable def expX : XR → XR
  | fin r => fin (Real.exp r)
  | ninf => fin 0
  | pinf => pinf
  | nan => nan
/-- `ln 0 = −∞`, `ln(+∞) = +∞`, NaN for negative arguments -/
noncomputable def lnX : XR → XR
  | fin r => if r < 0 then nan else if r = 0 then ninf else fin (Real.log r)
  | pinf => pinf
  | _ => nan
/-- `atan(±∞) = ±π/2` -/
noncomputable def atanX : XR → XR
  | fin r => fin (Real.arctan r)
  | ninf => fin (-(Real.pi / 2))
  | pinf => fin (Real.pi / 2)
  | nan => nan
/-- `expm1(−∞) = −1`, `expm1(+∞) = +∞` -/
noncomputable def expm1X : XR → XR
  | fin r => fin (Real.exp r - 1)
  | ninf => fin (-1)
  | pinf => pinf
  | nan => nan
/-- `ln1p(−1) = −∞`, `ln1p(+∞) = +∞`, NaN below `−1` -/
noncomputable def ln1pX : XR → XR
  | fin r => if r < -1 then nan else if r = -1 then ninf else fin (Real.log (1 + r))
  | pinf => pinf
  | _ => nan
/-- `|±∞| = +∞` -/
noncomputable def absX : XR → XR
  | fin r => fin |r|
  | ninf => pinf
  | pinf => pinf
  | nan => nan

noncomputable instance instRFunXF : RFun XF where
  exp := fun x => ⟨expX x.v⟩
  ln := fun x => ⟨lnX x.v⟩
  log10 := fun x => ⟨RFun.log10 x.v⟩
  log2 := fun x => ⟨RFun.log2 x.v⟩
  exp2 := fun x => ⟨RFun.exp2 x.v⟩
  sqrt := fun x => ⟨sqrtX x.v⟩
  sin := fun x => ⟨RFun.sin x.v⟩
  cos := fun x => ⟨RFun.cos x.v⟩
  tan := fun x => ⟨RFun.tan x.v⟩
  atan := fun x => ⟨atanX x.v⟩
  floor := fun x => ⟨RFun.floor x.v⟩
  ceil := fun x => ⟨RFun.ceil x.v⟩
  round := fun x => ⟨RFun.round x.v⟩
  abs := fun x => ⟨absX x.v⟩
  signum := fun x => ⟨RFun.signum x.v⟩
  ln1p := fun x => ⟨ln1pX x.v⟩
  expm1 := fun x => ⟨expm1X x.v⟩
  recip := fun x => ⟨RFun.recip x.v⟩
  pow := fun x y => ⟨RFun.pow x.v y.v⟩
  powi := fun x n => ⟨RFun.powi x.v n⟩
  logb := fun x y => ⟨RFun.logb x.v y.v⟩
  fmin := fun x y => ⟨RFun.fmin x.v y.v⟩
  fmax := fun x y => ⟨RFun.fmax x.v y.v⟩
  fmod := fun x y => ⟨RFun.fmod x.v y.v⟩
  isNaN := fun x => RFun.isNaN x.v
  isInf := fun x => RFun.isInf x.v
  isFinite := fun x => RFun.isFinite x.v
  nan := ⟨XR.nan⟩
  inf := ⟨XR.pinf⟩
  negInf := ⟨XR.ninf⟩
  maxVal := ⟨RFun.maxVal⟩
  minVal := ⟨RFun.minVal⟩
  minPositive := ⟨RFun.minPositive⟩
  epsilon := ⟨RFun.epsilon⟩
  ofInt := fun n => ⟨XR.fin (n : ℝ)⟩
  toU64 := fun x => RFun.toU64 x.v
  toI64 := fun x => RFun.toI64 x.v
  toI32 := fun x => RFun.toI32 x.v
  toU32 := fun x => RFun.toU32 x.v
  ulpsEq := fun x y => RFun.ulpsEq x.v y.v
  pi := ⟨XR.fin Real.pi⟩
  tau := ⟨RFun.tau⟩
  e := ⟨RFun.e⟩
  ln2 := ⟨RFun.ln2⟩
  ln10 := ⟨RFun.ln10⟩
  sqrt2 := ⟨RFun.sqrt2⟩
  frac1Sqrt2 := ⟨RFun.frac1Sqrt2⟩
  fracPi2 := ⟨XR.fin (Real.pi / 2)⟩
  c_SQRT_2PI := ⟨RFun.c_SQRT_2PI⟩
  c_LN_PI := ⟨RFun.c_LN_PI⟩
  c_LN_SQRT_2PI := ⟨RFun.c_LN_SQRT_2PI⟩
  c_LN_SQRT_2PIE := ⟨RFun.c_LN_SQRT_2PIE⟩
  c_LN_2_SQRT_E_OVER_PI := ⟨RFun.c_LN_2_SQRT_E_OVER_PI⟩
  c_TWO_SQRT_E_OVER_PI := ⟨RFun.c_TWO_SQRT_E_OVER_PI⟩
  c_EULER_MASCHERONI := ⟨RFun.c_EULER_MASCHERONI⟩
  sumZero := ⟨RFun.sumZero⟩

/-! ### transfer lemmas (all `rfl`) -/
@[simp] theorem mk_add (a b : XR) : (⟨a⟩ : XF) + ⟨b⟩ = ⟨a + b⟩ := rfl
@[simp] theorem mk_sub (a b : XR) : (⟨a⟩ : XF) - ⟨b⟩ = ⟨a - b⟩ := rfl
@[simp] theorem mk_mul (a b : XR) : (⟨a⟩ : XF) * ⟨b⟩ = ⟨a * b⟩ := rfl
@[simp] theorem mk_div (a b : XR) : (⟨a⟩ : XF) / ⟨b⟩ = ⟨a / b⟩ := rfl
@[simp] theorem mk_neg (a : XR) : -(⟨a⟩ : XF) = ⟨-a⟩ := rfl
@[simp] theorem mk_lt (a b : XR) : ((⟨a⟩ : XF) < ⟨b⟩) = (a < b) := rfl
@[simp] theorem mk_le (a b : XR) : ((⟨a⟩ : XF) ≤ ⟨b⟩) = (a ≤ b) := rfl
@[simp] theorem mk_beq (a b : XR) : ((⟨a⟩ : XF) == ⟨b⟩) = (a == b) := rfl
@[simp] theorem mk_isNaN (a : XR) : RFun.isNaN (⟨a⟩ : XF) = RFun.isNaN a := rfl
@[simp] theorem mk_isInf (a : XR) : RFun.isInf (⟨a⟩ : XF) = RFun.isInf a := rfl
@[simp] theorem mk_isFinite (a : XR) : RFun.isFinite (⟨a⟩ : XF) = RFun.isFinite a := rfl
@[simp] theorem mk_sqrt (a : XR) : RFun.sqrt (⟨a⟩ : XF) = ⟨sqrtX a⟩ := rfl
@[simp] theorem mk_exp (a : XR) : RFun.exp (⟨a⟩ : XF) = ⟨expX a⟩ := rfl
@[simp] theorem mk_ln (a : XR) : RFun.ln (⟨a⟩ : XF) = ⟨lnX a⟩ := rfl
@[simp] theorem mk_atan (a : XR) : RFun.atan (⟨a⟩ : XF) = ⟨atanX a⟩ := rfl
@[simp] theorem mk_expm1 (a : XR) : RFun.expm1 (⟨a⟩ : XF) = ⟨expm1X a⟩ := rfl
@[simp] theorem mk_ln1p (a : XR) : RFun.ln1p (⟨a⟩ : XF) = ⟨ln1pX a⟩ := rfl
@[simp] theorem mk_abs (a : XR) : RFun.abs (⟨a⟩ : XF) = ⟨absX a⟩ := rfl
@[simp] theorem xf_inf : (RFun.inf : XF) = ⟨XR.pinf⟩ := rfl
@[simp] theorem xf_negInf : (RFun.negInf : XF) = ⟨XR.ninf⟩ := rfl
@[simp] theorem xf_nan : (RFun.nan : XF) = ⟨XR.nan⟩ := rfl
@[simp] theorem xf_pi : (RFun.pi : XF) = ⟨XR.fin Real.pi⟩ := rfl
@[simp] theorem xf_fracPi2 : (RFun.fracPi2 : XF) = ⟨XR.fin (Real.pi / 2)⟩ := rfl
@[simp] theorem xf_ofInt (n : Int) : (RFun.ofInt n : XF) = ⟨XR.fin (n : ℝ)⟩ := rfl
@[simp] theorem lit0 : (0.0 : XF) = ⟨XR.fin 0⟩ := by
  show (⟨XR.fin (OfScientific.ofScientific 0 true 1 : ℝ)⟩ : XF) = _; congr 2; norm_num
@[simp] theorem lit1 : (1.0 : XF) = ⟨XR.fin 1⟩ := by
  show (⟨XR.fin (OfScientific.ofScientific 10 true 1 : ℝ)⟩ : XF) = _; congr 2; norm_num
@[simp] theorem lit_half : (0.5 : XF) = ⟨XR.fin (1 / 2)⟩ := by
  show (⟨XR.fin (OfScientific.ofScientific 5 true 1 : ℝ)⟩ : XF) = _; congr 2; norm_num
@[simp] theorem lit2 : (2.0 : XF) = ⟨XR.fin 2⟩ := by
  show (⟨XR.fin (OfScientific.ofScientific 20 true 1 : ℝ)⟩ : XF) = _; congr 2; norm_num

/-! ### the special-value algebra of `XR`, as simp lemmas on constructors -/
theorem add_def (a b : XR) : a + b = XR.add a b := rfl
/-- `a − b` on `XR` unfolds to `XR.add a (XR.neg b)` -/
theorem sub_def (a b : XR) : a - b = XR.add a (XR.neg b) := rfl
/-- `a * b` on `XR` unfolds to `XR.mul` -/
theorem mul_def (a b : XR) : a * b = XR.mul a b := rfl
/-- `a / b` on `XR` unfolds to `XR.div` -/
theorem div_def (a b : XR) : a / b = XR.div a b := rfl
/-- `−a` on `XR` unfolds to `XR.neg` -/
theorem neg_def (a : XR) : -a = XR.neg a := rfl

/-- the simp set that evaluates every operation on constructors -/
macro "xr_eval" : tactic =>
  `(tactic| try simp only [Statrs.Spec.NN, Statrs.Spec.Fin, mk_add, mk_sub, mk_mul, mk_div, mk_neg, mk_lt, mk_le, mk_beq, mk_isNaN, mk_isInf, mk_isFinite,
      mk_sqrt, mk_exp, mk_ln, mk_atan, mk_expm1, mk_ln1p, mk_abs, xf_inf, xf_negInf, xf_nan, xf_pi, xf_fracPi2,
      xf_ofInt, lit0, lit1, lit_half, lit2, add_def, sub_def, mul_def, div_def, neg_def,
      XR.add, XR.neg, XR.mul, XR.div, XR.scaleInf, sqrtX, expX, lnX, atanX, expm1X, ln1pX, absX,
      XR.nan_lt, XR.lt_nan, XR.lt_ninf, XR.pinf_lt, XR.ninf_lt_fin, XR.ninf_lt_pinf, XR.fin_lt_pinf, XR.fin_lt_fin,
      XR.nan_le, XR.le_nan, XR.ninf_le_ninf, XR.ninf_le_fin, XR.ninf_le_pinf, XR.fin_le_ninf, XR.fin_le_fin,
      XR.fin_le_pinf, XR.pinf_le_ninf, XR.pinf_le_fin, XR.pinf_le_pinf,
      XR.nan_beq, XR.beq_nan, XR.ninf_beq_ninf, XR.pinf_beq_pinf, XR.ninf_beq_fin, XR.ninf_beq_pinf,
      XR.fin_beq_ninf, XR.fin_beq_pinf, XR.pinf_beq_ninf, XR.pinf_beq_fin, XR.fin_beq_fin,
      XR.rfun_isNaN_nan, XR.rfun_isNaN_ninf, XR.rfun_isNaN_fin, XR.rfun_isNaN_pinf,
      XR.rfun_isInf_nan, XR.rfun_isInf_ninf, XR.rfun_isInf_fin, XR.rfun_isInf_pinf,
      XR.rfun_isFinite_nan, XR.rfun_isFinite_ninf, XR.rfun_isFinite_fin, XR.rfun_isFinite_pinf] at *)

/-- full(XF): `OrderLaws XF` -/
theorem orderLaws : OrderLaws XF where
  le_refl := by rintro ⟨_ | _ | a | _⟩ <;> xr_eval <;> try simp
  le_trans := by
    rintro ⟨_ | _ | a | _⟩ ⟨_ | _ | b | _⟩ ⟨_ | _ | c | _⟩ <;> xr_eval <;> try simp
    exact fun h1 h2 => le_trans h1 h2
  le_total := by
    rintro ⟨_ | _ | a | _⟩ ⟨_ | _ | b | _⟩ <;> xr_eval <;> try simp
    exact le_total a b
  lt_iff := by
    rintro ⟨_ | _ | a | _⟩ ⟨_ | _ | b | _⟩ <;> xr_eval <;> try simp
    exact fun h => le_of_lt h
  beq_iff := by
    rintro ⟨_ | _ | a | _⟩ ⟨_ | _ | b | _⟩ <;> xr_eval <;> try simp
    exact ⟨fun h => ⟨le_of_eq h, le_of_eq h.symm⟩, fun h => le_antisymm h.1 h.2⟩
  le_nn_left := by rintro ⟨_ | _ | a | _⟩ ⟨_ | _ | b | _⟩ <;> xr_eval <;> try simp
  le_nn_right := by rintro ⟨_ | _ | a | _⟩ ⟨_ | _ | b | _⟩ <;> xr_eval <;> try simp
  fin_nn := by rintro ⟨_ | _ | a | _⟩ <;> xr_eval <;> try simp
  fin_iff := by rintro ⟨_ | _ | a | _⟩ <;> xr_eval <;> try simp

/-- full(XF): `InfLaws XF` -/
theorem infLaws : InfLaws XF where
  le_inf := by rintro ⟨_ | _ | a | _⟩ <;> xr_eval <;> try simp
  negInf_le := by rintro ⟨_ | _ | a | _⟩ <;> xr_eval <;> try simp
  inf_nn := by xr_eval
  negInf_nn := by xr_eval
  inf_isInf := by xr_eval
  negInf_isInf := by xr_eval
  nan_nan := by xr_eval

/-- full(XF): `LitLaws XF` -/
theorem litLaws : LitLaws XF where
  zero_fin := by xr_eval
  one_fin := by xr_eval
  half_fin := by xr_eval
  two_fin := by xr_eval
  zero_lt_half := by xr_eval; norm_num
  half_lt_one := by xr_eval; norm_num
  one_lt_two := by xr_eval; norm_num

/-- case split on every `if` produced by the special-value algebra, then re-evaluate -/
macro "xr_split" : tactic => `(tactic| all_goals (try (split_ifs at * <;> xr_eval)))

/-- close the residual real-arithmetic goals -/
macro "xr_fin" : tactic =>
  `(tactic| all_goals (intros; first
      | done | linarith | exact lt_of_le_of_ne ‹_› ‹_› | nlinarith
      | exact div_le_div_of_nonneg_right ‹_› (le_of_lt ‹_›)
      | exact div_le_div_of_nonneg_left ‹_› ‹_› ‹_›
      | exact div_nonneg ‹_› (le_of_lt ‹_›)
      | exact Real.sqrt_le_sqrt ‹_›
      | positivity
      | exact absurd (le_antisymm ‹(_ : ℝ) ≤ 0› ‹(0 : ℝ) ≤ _›) ‹¬ _ = (0 : ℝ)›
      | (subst_vars; first | rfl | contradiction | linarith | simp_all)))

macro "xr3" : tactic => `(tactic| (
  rintro ⟨_ | _ | a | _⟩ ⟨_ | _ | b | _⟩ ⟨_ | _ | c | _⟩ <;> xr_eval <;> try simp))
macro "xr2" : tactic => `(tactic| (
  rintro ⟨_ | _ | a | _⟩ ⟨_ | _ | b | _⟩ <;> xr_eval <;> try simp))
macro "xr1" : tactic => `(tactic| (
  rintro ⟨_ | _ | a | _⟩ <;> xr_eval <;> try simp))
macro "xr_rest" : tactic => `(tactic| (xr_split; all_goals (try simp at *); xr_fin))

end XF
end Statrs.Spec
