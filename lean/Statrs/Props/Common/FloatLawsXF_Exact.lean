/-
  Non-vacuity, part: `ExactLaws XF`, `NaNLaws XF`, `OfIntLaws XF` (see FloatLawsXF_Carrier.lean).
-/
import Statrs.Props.Common.FloatLawsXF_Carrier
namespace Statrs.Spec
open Statrs
namespace XF
open XR

macro "xr4" : tactic => `(tactic| (
  rintro ⟨_ | _ | a | _⟩ ⟨_ | _ | a' | _⟩ ⟨_ | _ | b | _⟩ ⟨_ | _ | b' | _⟩ <;> xr_eval <;> try simp))

/-- full(XF): `ExactLaws.add_congr` on `XF` -/
theorem exact_add_congr : ∀ a a' b b' : XF, (a == a') = true → (b == b') = true → NN (a + b) →
    ((a + b) == (a' + b')) = true := by
  xr4; all_goals (intros; subst_vars; rfl)
/-- full(XF): `ExactLaws.sub_congr` on `XF` -/
theorem exact_sub_congr : ∀ a a' b b' : XF, (a == a') = true → (b == b') = true → NN (a - b) →
    ((a - b) == (a' - b')) = true := by
  xr4; all_goals (intros; subst_vars; rfl)
/-- full(XF): `ExactLaws.mul_congr` on `XF` -/
theorem exact_mul_congr : ∀ a a' b b' : XF, (a == a') = true → (b == b') = true → NN (a * b) →
    ((a * b) == (a' * b')) = true := by
  xr4; xr_rest

/-- full(XF): `ExactLaws XF` -/
theorem exactLaws : ExactLaws XF where
  sub_self := by xr1
  div_self := by xr1; xr_rest
  add_zero := by xr1
  zero_add := by xr1
  sub_zero := by xr1
  mul_one := by xr1
  one_mul := by xr1
  div_one := by xr1
  zero_div := by xr1; xr_rest
  zero_mul := by xr1
  mul_zero := by xr1
  neg_neg := by xr1
  neg_zero := by xr_eval; simp
  sub_eq_add_neg := by xr2
  sqrt_zero := by xr_eval; simp
  sqrt_one := by xr_eval; norm_num
  add_congr := exact_add_congr
  sub_congr := exact_sub_congr
  mul_congr := exact_mul_congr

/-- full(XF): `NaNLaws.mul_nan` on `XF` -/
theorem nan_mul_nan : ∀ a b : XF, RFun.isNaN (a * b) = true →
    RFun.isNaN a = true ∨ RFun.isNaN b = true ∨
      ((a == (0.0 : XF)) = true ∧ RFun.isInf b = true) ∨ (RFun.isInf a = true ∧ (b == (0.0 : XF)) = true) := by
  xr2; xr_rest
/-- full(XF): `NaNLaws.div_nan` on `XF` -/
theorem nan_div_nan : ∀ a b : XF, RFun.isNaN (a / b) = true →
    RFun.isNaN a = true ∨ RFun.isNaN b = true ∨
      ((a == (0.0 : XF)) = true ∧ (b == (0.0 : XF)) = true) ∨ (RFun.isInf a = true ∧ RFun.isInf b = true) := by
  xr2; xr_rest

/-- full(XF): `NaNLaws XF` -/
theorem nanLaws : NaNLaws XF where
  add_nan := by xr2
  sub_nan := by xr2
  mul_nan := nan_mul_nan
  div_nan := nan_div_nan
  neg_nan := by xr1
  neg_inf := by xr1
  sqrt_nan := by xr1; xr_rest
  nan_add := by xr2
  nan_sub := by xr2
  nan_mul := by xr2
  nan_div := by xr2
  div_inf := by xr2

/-- full(XF): `OfIntLaws XF` -/
theorem ofIntLaws : OfIntLaws XF where
  ofInt_mono := by intro i j _ h _; xr_eval; exact_mod_cast h
  ofInt_zero := by xr_eval; simp
  ofInt_one := by xr_eval; simp
  ofInt_fin := by intro i _ _; xr_eval

end XF
end Statrs.Spec
