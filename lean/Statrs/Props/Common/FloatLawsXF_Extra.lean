/-
  Non-vacuity, part: `ExtraLaws XF` and `LibmLaws XF` (see FloatLawsXF_Carrier.lean for the carrier).
-/
import Statrs.Props.Common.FloatLawsXF_Carrier
namespace Statrs.Spec
open Statrs
namespace XF
open XR

/-- full(XF): `ExtraLaws.neg_mul` on `XF` -/
theorem extra_neg_mul : ∀ a b : XF, NN (a * b) → (((-a) * b) == (-(a * b))) = true := by
  xr2; xr_rest
/-- full(XF): `ExtraLaws.mul_neg` on `XF` -/
theorem extra_mul_neg : ∀ a b : XF, NN (a * b) → ((a * (-b)) == (-(a * b))) = true := by
  xr2; xr_rest

/-- full(XF): `ExtraLaws XF` -/
theorem extraLaws : ExtraLaws XF where
  sub_pos := by xr2
  add_nn_of_nonneg := by xr2
  isInf_iff := by xr1
  neg_mul := extra_neg_mul
  mul_neg := extra_mul_neg
  neg_add_self := by xr1
  mul_inf_of_pos := by xr1; xr_rest
  neg_inf_eq := by xr_eval
  inf_sub := by xr1
  negInf_sub := by xr1
  inf_div := by xr1; xr_rest
  negInf_div := by xr1; xr_rest
  abs_nan := by xr1
  abs_of_nonneg := by xr1
  abs_of_nonpos := by xr1
  half_add_half := by xr_eval; norm_num
  one_div_two := by xr_eval; norm_num
  one_sub_half := by xr_eval; norm_num
  pi_fin := by xr_eval
  one_le_pi := by xr_eval; linarith [Real.pi_gt_three]
  inv_pi_fin := by xr_eval; simp [Real.pi_ne_zero]
  fracPi2_fin := by xr_eval
  inv_pi_mul_fracPi2 := by
    xr_eval; simp [Real.pi_ne_zero]; field_simp

/-- full(XF): `LibmLaws.ln_mono` on `XF` (true `Real.log`) -/
theorem libm_ln_mono : ∀ a b : XF, (0.0 : XF) ≤ a → a ≤ b → RFun.ln a ≤ RFun.ln b := by
  rintro ⟨a⟩ ⟨b⟩
  cases a <;> cases b
  case fin.fin a b =>
    xr_eval
    intro h0 hab
    have hb0 := le_trans h0 hab
    rw [if_neg (not_lt.2 h0), if_neg (not_lt.2 hb0)]
    by_cases ha : a = 0
    · rw [if_pos ha]; by_cases hb : b = 0 <;> simp [hb]
    · have hbne : b ≠ 0 := fun hb => ha (le_antisymm (hb ▸ hab) h0)
      rw [if_neg ha, if_neg hbne]
      simp only [XR.fin_le_fin]
      exact Real.log_le_log (lt_of_le_of_ne h0 (Ne.symm ha)) hab
  all_goals (xr_eval; try simp)
  all_goals (intro h; split_ifs <;> first | (simp; done) | linarith)

/-- full(XF): `LibmLaws.ln1p_mono` on `XF` -/
theorem libm_ln1p_mono : ∀ a b : XF, -(1.0 : XF) ≤ a → a ≤ b → RFun.ln1p a ≤ RFun.ln1p b := by
  rintro ⟨a⟩ ⟨b⟩
  cases a <;> cases b
  case fin.fin a b =>
    xr_eval
    intro h0 hab
    have hb0 := le_trans h0 hab
    rw [if_neg (not_lt.2 h0), if_neg (not_lt.2 hb0)]
    by_cases ha : a = -1
    · rw [if_pos ha]; by_cases hb : b = -1 <;> simp [hb]
    · have hbne : b ≠ -1 := fun hb => ha (le_antisymm (hb ▸ hab) h0)
      rw [if_neg ha, if_neg hbne]
      simp only [XR.fin_le_fin]
      have : (-1 : ℝ) < a := lt_of_le_of_ne h0 (Ne.symm ha)
      exact Real.log_le_log (by linarith) (by linarith)
  all_goals (xr_eval; try simp)
  all_goals (intro h; split_ifs <;> first | (simp; done) | linarith)

/-- full(XF): `LibmLaws XF` (true real functions) -/
theorem libmLaws : LibmLaws XF where
  exp_mono := by
    xr2
    all_goals (intros; first | exact Real.exp_le_exp.2 ‹_› | positivity)
  exp_nonneg := by xr1; all_goals (intros; positivity)
  exp_zero := by xr_eval; simp
  exp_negInf := by xr_eval
  exp_nan := by xr1
  ln_mono := libm_ln_mono
  ln_one := by xr_eval; norm_num
  ln_nan := by xr1; xr_rest
  atan_mono := by
    xr2
    all_goals (intros; first
      | exact (Real.arctan_strictMono.monotone ‹_›)
      | exact le_of_lt (Real.neg_pi_div_two_lt_arctan _)
      | exact le_of_lt (Real.arctan_lt_pi_div_two _)
      | linarith [Real.pi_pos])
  atan_nan := by xr1
  atan_le := by
    xr1
    all_goals (first | exact le_of_lt (Real.arctan_lt_pi_div_two _) | linarith [Real.pi_pos])
  neg_le_atan := by
    xr1
    all_goals (first | exact le_of_lt (Real.neg_pi_div_two_lt_arctan _) | linarith [Real.pi_pos])
  expm1_mono := by
    xr2
    all_goals (intros; first | exact Real.exp_le_exp.2 ‹_› | positivity | linarith [Real.exp_pos ‹ℝ›])
  ln1p_mono := libm_ln1p_mono

end XF
end Statrs.Spec
