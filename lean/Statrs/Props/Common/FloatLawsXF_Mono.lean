/-
  Non-vacuity, part: `MonoLaws XF` (see FloatLawsXF_Carrier.lean for the carrier).
-/
import Statrs.Props.Common.FloatLawsXF_Carrier
namespace Statrs.Spec
open Statrs
namespace XF
open XR

/-- full(XF): `MonoLaws.mul_le_mul_right` on `XF` -/
theorem mono_mul_right : ∀ a b c : XF, a ≤ b → (0.0 : XF) ≤ c → NN (a * c) → NN (b * c) → a * c ≤ b * c := by
  xr3; xr_rest
/-- full(XF): `MonoLaws.mul_le_mul_left` on `XF` -/
theorem mono_mul_left : ∀ a b c : XF, a ≤ b → (0.0 : XF) ≤ c → NN (c * a) → NN (c * b) → c * a ≤ c * b := by
  xr3; xr_rest
/-- full(XF): `MonoLaws.div_le_div_right` on `XF` -/
theorem mono_div_right : ∀ a b c : XF, a ≤ b → (0.0 : XF) < c → NN (a / c) → NN (b / c) → a / c ≤ b / c := by
  xr3; xr_rest
/-- full(XF): `MonoLaws.div_le_div_left` on `XF` -/
theorem mono_div_left : ∀ a b c : XF, (0.0 : XF) < a → a ≤ b → (0.0 : XF) ≤ c → NN (c / a) → NN (c / b) →
    c / b ≤ c / a := by
  xr3; xr_rest
/-- full(XF): `MonoLaws.sqrt_le_sqrt` on `XF` -/
theorem mono_sqrt : ∀ a b : XF, (0.0 : XF) ≤ a → a ≤ b → RFun.sqrt a ≤ RFun.sqrt b := by
  xr2; xr_rest

/-- full(XF): `MonoLaws XF` -/
theorem monoLaws : MonoLaws XF where
  add_le_add_right := by xr3
  add_le_add_left := by xr3
  sub_le_sub_right := by xr3
  sub_le_sub_left := by xr3; all_goals (intros; linarith)
  mul_le_mul_right := mono_mul_right
  mul_le_mul_left := mono_mul_left
  div_le_div_right := mono_div_right
  div_le_div_left := mono_div_left
  neg_le_neg := by xr2
  sqrt_le_sqrt := mono_sqrt

end XF
end Statrs.Spec
