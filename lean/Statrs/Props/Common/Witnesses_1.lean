/-
  Statrs.Props.Common.Witnesses_1 — facts about the TRUE error function
  `erfR x = (2/√π) ∫₀ˣ e^{−t²} dt` (`Props/C03/SFDerivWitness.lean`) and its complement
  `erfcR = 1 − erfR`, needed to show that the order/range/reflection premises `Spec.Erfc.ErfcSpec`,
  `Spec.Erfc.ErfSpec` and the inverse premise `Spec.Sampling.ErfcInvSpec` hold for the real
  functions (so far these structures only had toy witnesses `erfc ≡ 1`, `erfc z = 1 − z`):

    * `erfcR` is strictly decreasing, continuous, `erfcR 0 = 1`, `0 < erfcR < 2`,
      `erfcR (−z) = 2 − erfcR z`, `erfcR → 0` at `+∞`;
    * `erfcInvR u` := the (unique) `z` with `erfcR z = u` (junk `0` outside `(0,2)`), which is
      positive and strictly decreasing on `(0,1)` and a right inverse of `erfcR` there.

  The instance and the premise-structure theorems are in `Witnesses_3.lean`.
-/
import Statrs.Props.C01.MeasureCdfB
namespace Statrs.Spec.Witnesses
open Statrs Statrs.Gen Statrs.Props.C03.Witness
open Filter Topology Set MeasureTheory

/-- the true complementary error function `erfc = 1 − erf` -/
noncomputable def erfcR (x : ℝ) : ℝ := 1 - erfR x

theorem erfcR_hasDerivAt (x : ℝ) :
    HasDerivAt erfcR (-(2 / Real.sqrt Real.pi * Real.exp (-(x * x)))) x :=
  (erfR_hasDerivAt x).const_sub 1

theorem erfcR_continuous : Continuous erfcR :=
  continuous_iff_continuousAt.2 fun x => (erfcR_hasDerivAt x).continuousAt

theorem erfcR_strictAnti : StrictAnti erfcR := by
  refine strictAnti_of_deriv_neg (fun x => ?_)
  rw [(erfcR_hasDerivAt x).deriv]
  have h1 : 0 < Real.sqrt Real.pi := Real.sqrt_pos.mpr Real.pi_pos
  have h2 := Real.exp_pos (-(x * x))
  have : 0 < 2 / Real.sqrt Real.pi * Real.exp (-(x * x)) := by positivity
  linarith

theorem erfR_zero : erfR 0 = 0 := by
  unfold erfR; rw [intervalIntegral.integral_same, mul_zero]

theorem erfcR_zero : erfcR 0 = 1 := by
  unfold erfcR; rw [erfR_zero, sub_zero]

/-- reflection `erfc (−z) = 2 − erfc z` (DLMF 7.4.2) -/
theorem erfcR_neg (x : ℝ) : erfcR (-x) = 2 - erfcR x := by
  unfold erfcR; rw [Statrs.Props.C01.erfR_neg]; ring

theorem erfcR_tendsto_atTop : Tendsto erfcR atTop (𝓝 0) := erfcR_tendsto

theorem erfcR_pos (x : ℝ) : 0 < erfcR x := by
  have h1 : erfcR (x + 1) < erfcR x := erfcR_strictAnti (by linarith)
  have h2 : (0:ℝ) ≤ erfcR (x + 1) := by
    refine le_of_tendsto erfcR_tendsto_atTop ?_
    filter_upwards [eventually_ge_atTop (x + 1)] with y hy
    exact erfcR_strictAnti.antitone hy
  linarith

theorem erfcR_lt_two (x : ℝ) : erfcR x < 2 := by
  have h := erfcR_pos (-x)
  rw [erfcR_neg] at h
  linarith

/-- every value in `(0,1]` is taken by `erfc` (intermediate value theorem) -/
theorem erfcR_surj {u : ℝ} (h0 : 0 < u) (h1 : u ≤ 1) : ∃ z, erfcR z = u := by
  have hlow : ∃ a, erfcR a ≤ u := by
    have hev : ∀ᶠ y in atTop, erfcR y < u := (tendsto_order.1 erfcR_tendsto_atTop).2 u h0
    obtain ⟨a, ha⟩ := hev.exists
    exact ⟨a, ha.le⟩
  have hhigh : ∃ b, u ≤ erfcR b := ⟨0, by rw [erfcR_zero]; exact h1⟩
  exact mem_range_of_exists_le_of_exists_ge erfcR_continuous hlow hhigh

open scoped Classical in
/-- the true inverse complementary error function (junk value `0` where `erfc` has no preimage) -/
noncomputable def erfcInvR (u : ℝ) : ℝ :=
  if h : ∃ z, erfcR z = u then Classical.choose h else 0

theorem erfcR_erfcInvR {u : ℝ} (h0 : 0 < u) (h1 : u ≤ 1) : erfcR (erfcInvR u) = u := by
  unfold erfcInvR
  rw [dif_pos (erfcR_surj h0 h1)]
  exact Classical.choose_spec (erfcR_surj h0 h1)

theorem erfcInvR_pos {u : ℝ} (h0 : 0 < u) (h1 : u < 1) : 0 < erfcInvR u := by
  by_contra hneg
  have hle : erfcInvR u ≤ 0 := not_lt.mp hneg
  have := erfcR_strictAnti.antitone hle
  rw [erfcR_erfcInvR h0 h1.le, erfcR_zero] at this
  linarith

theorem erfcInvR_strictAntiOn {u v : ℝ} (h0 : 0 < u) (huv : u < v) (h1 : v ≤ 1) :
    erfcInvR v < erfcInvR u := by
  by_contra hneg
  have hle : erfcInvR u ≤ erfcInvR v := not_lt.mp hneg
  have := erfcR_strictAnti.antitone hle
  rw [erfcR_erfcInvR h0 (huv.le.trans h1), erfcR_erfcInvR (h0.trans huv) h1] at this
  linarith

end Statrs.Spec.Witnesses
