/-
  Statrs.Props.Common.Witnesses_2 — order/range/symmetry facts about the TRUE regularised incomplete
  gamma and beta functions `gammaLrR`, `betaRegR` of `Props/C03/SFDerivWitness.lean`
  (`P(a,x) = ∫₀ˣ e^{−t}t^{a−1}dt / Γ(a)`, `I_x(a,b) = ∫₀ˣ t^{a−1}(1−t)^{b−1}dt / B(a,b)`),
  needed to show that the premise structures `Spec.Incomplete.{GammaSpec, GammaShiftSpec, BetaSpec,
  BetaShiftSpec, BetaOneOneSpec}` and `Spec.StudentCauchySpec` (arcsine law) hold for the real
  functions — so far these only had toy witnesses (`P(a,x) = 1 − e^{−x}`, `I_x(a,b) = x`).
-/
import Statrs.Props.C03.SFDerivWitness
import Mathlib.Analysis.SpecialFunctions.Trigonometric.InverseDeriv
import Mathlib.Analysis.SpecialFunctions.Gamma.Beta
namespace Statrs.Spec.Witnesses
open Statrs Statrs.Gen Statrs.Props.C03.Witness
open Filter Topology Set MeasureTheory

/-! ### `P(a,·)` -/

theorem gamma_integrand_nonneg (a : ℝ) {t : ℝ} (ht : 0 ≤ t) : 0 ≤ Real.exp (-t) * t ^ (a - 1) :=
  mul_nonneg (Real.exp_pos _).le (Real.rpow_nonneg ht _)

theorem gammaLrR_mono {a x y : ℝ} (ha : 0 < a) (hx : 0 ≤ x) (hxy : x ≤ y) :
    gammaLrR a x ≤ gammaLrR a y := by
  unfold gammaLrR
  have hy : 0 ≤ y := hx.trans hxy
  have h0x := gamma_integrand_intervalIntegrable ha hx
  have h0y := gamma_integrand_intervalIntegrable ha hy
  have hxy' : IntervalIntegrable (fun t : ℝ => Real.exp (-t) * t ^ (a - 1)) volume x y :=
    h0x.symm.trans h0y
  have hsplit := intervalIntegral.integral_add_adjacent_intervals h0x hxy'
  have hnn : 0 ≤ ∫ t in x..y, Real.exp (-t) * t ^ (a - 1) :=
    intervalIntegral.integral_nonneg hxy (fun t ht => gamma_integrand_nonneg a (hx.trans ht.1))
  exact div_le_div_of_nonneg_right (by linarith) (Real.Gamma_pos_of_pos ha).le

theorem gammaLrR_nonneg {a x : ℝ} (ha : 0 < a) (hx : 0 ≤ x) : 0 ≤ gammaLrR a x := by
  have := gammaLrR_mono ha le_rfl hx
  rwa [gammaLrR_zero] at this

theorem gammaLrR_le_one {a x : ℝ} (ha : 0 < a) (hx : 0 ≤ x) : gammaLrR a x ≤ 1 := by
  refine ge_of_tendsto (gammaLrR_tendsto_atTop ha) ?_
  filter_upwards [eventually_ge_atTop x] with y hy
  exact gammaLrR_mono ha hx hy

/-- `P(a+1,x) ≤ P(a,x)` (from DLMF 8.8.6: the difference is `x^a e^{−x}/Γ(a+1) ≥ 0`) -/
theorem gammaLrR_shift {a x : ℝ} (ha : 0 < a) (hx : 0 < x) : gammaLrR (a + 1) x ≤ gammaLrR a x := by
  have h := gammaUr_succ ha hx
  have hpos : 0 ≤ x ^ a * Real.exp (-x) / Real.Gamma (a + 1) :=
    div_nonneg (mul_nonneg (Real.rpow_nonneg hx.le _) (Real.exp_pos _).le)
      (Real.Gamma_pos_of_pos (by linarith)).le
  linarith

/-! ### `I_·(a,b)` -/

theorem beta_integrand_nonneg (a b : ℝ) {t : ℝ} (h0 : 0 ≤ t) (h1 : t ≤ 1) :
    0 ≤ t ^ (a - 1) * (1 - t) ^ (b - 1) :=
  mul_nonneg (Real.rpow_nonneg h0 _) (Real.rpow_nonneg (by linarith) _)

theorem beta_const_pos {a b : ℝ} (ha : 0 < a) (hb : 0 < b) :
    0 < Real.Gamma (a + b) / (Real.Gamma a * Real.Gamma b) :=
  div_pos (Real.Gamma_pos_of_pos (add_pos ha hb))
    (mul_pos (Real.Gamma_pos_of_pos ha) (Real.Gamma_pos_of_pos hb))

theorem betaRegR_mono {a b x y : ℝ} (ha : 0 < a) (hb : 0 < b) (hx : 0 ≤ x) (hxy : x ≤ y)
    (hy : y ≤ 1) : betaRegR a b x ≤ betaRegR a b y := by
  unfold betaRegR
  have h0x := beta_integrand_intervalIntegrable ha hb hx (hxy.trans hy)
  have h0y := beta_integrand_intervalIntegrable ha hb (hx.trans hxy) hy
  have hxy' : IntervalIntegrable (fun t : ℝ => t ^ (a - 1) * (1 - t) ^ (b - 1)) volume x y :=
    h0x.symm.trans h0y
  have hsplit := intervalIntegral.integral_add_adjacent_intervals h0x hxy'
  have hnn : 0 ≤ ∫ t in x..y, t ^ (a - 1) * (1 - t) ^ (b - 1) :=
    intervalIntegral.integral_nonneg hxy
      (fun t ht => beta_integrand_nonneg a b (hx.trans ht.1) (ht.2.trans hy))
  exact mul_le_mul_of_nonneg_right (by linarith) (beta_const_pos ha hb).le

theorem betaRegR_nonneg {a b x : ℝ} (ha : 0 < a) (hb : 0 < b) (hx0 : 0 ≤ x) (hx1 : x ≤ 1) :
    0 ≤ betaRegR a b x := by
  have := betaRegR_mono ha hb le_rfl hx0 hx1
  rwa [betaRegR_zero] at this

theorem betaRegR_le_one {a b x : ℝ} (ha : 0 < a) (hb : 0 < b) (hx0 : 0 ≤ x) (hx1 : x ≤ 1) :
    betaRegR a b x ≤ 1 := by
  have := betaRegR_mono ha hb hx0 hx1 le_rfl
  rwa [betaRegR_one ha hb] at this

/-- `I_{1−x}(b,a) = 1 − I_x(a,b)` (DLMF 8.17.4), by the substitution `t ↦ 1 − t` -/
theorem betaRegR_symm {a b x : ℝ} (ha : 0 < a) (hb : 0 < b) (hx0 : 0 ≤ x) (hx1 : x ≤ 1) :
    betaRegR b a (1 - x) = 1 - betaRegR a b x := by
  have hone := betaRegR_one ha hb
  unfold betaRegR at hone ⊢
  have hsub := intervalIntegral.integral_comp_sub_left
    (fun t : ℝ => t ^ (a - 1) * (1 - t) ^ (b - 1)) (a := 0) (b := 1 - x) 1
  simp only [sub_sub_cancel, sub_zero] at hsub
  have hfun : (fun t : ℝ => t ^ (b - 1) * (1 - t) ^ (a - 1)) =
      fun t => (1 - t) ^ (a - 1) * t ^ (b - 1) := by funext t; ring
  rw [hfun, hsub]
  have h0x := beta_integrand_intervalIntegrable ha hb hx0 hx1
  have h01 := beta_integrand_intervalIntegrable ha hb zero_le_one le_rfl
  have hx1' : IntervalIntegrable (fun t : ℝ => t ^ (a - 1) * (1 - t) ^ (b - 1)) volume x 1 :=
    h0x.symm.trans h01
  have hsplit := intervalIntegral.integral_add_adjacent_intervals h0x hx1'
  have hc : Real.Gamma (b + a) / (Real.Gamma b * Real.Gamma a) =
      Real.Gamma (a + b) / (Real.Gamma a * Real.Gamma b) := by rw [add_comm, mul_comm]
  rw [hc]
  rw [← hsplit] at hone
  linarith [hone]

/-- `I_x(a,b) ≤ I_x(a,b+1)` (DLMF 8.17.21: the difference is `x^a(1−x)^b/(b·B(a,b)) ≥ 0`) -/
theorem betaRegR_mono_b {a b x : ℝ} (ha : 0 < a) (hb : 0 < b) (hx0 : 0 ≤ x) (hx1 : x ≤ 1) :
    betaRegR a b x ≤ betaRegR a (b + 1) x := by
  have h := betaRegR_succ_b ha hb hx0 hx1
  have hpos : 0 ≤ x ^ a * (1 - x) ^ b * (Real.Gamma (a + b) / (Real.Gamma a * Real.Gamma (b + 1))) :=
    mul_nonneg (mul_nonneg (Real.rpow_nonneg hx0 _) (Real.rpow_nonneg (by linarith) _))
      (div_pos (Real.Gamma_pos_of_pos (add_pos ha hb))
        (mul_pos (Real.Gamma_pos_of_pos ha) (Real.Gamma_pos_of_pos (by linarith)))).le
  linarith

/-- `I_x(a+1,b) ≤ I_x(a,b)` (DLMF 8.17.20: the difference is `x^a(1−x)^b/(a·B(a,b)) ≥ 0`) -/
theorem betaRegR_anti_a {a b x : ℝ} (ha : 0 < a) (hb : 0 < b) (hx0 : 0 ≤ x) (hx1 : x ≤ 1) :
    betaRegR (a + 1) b x ≤ betaRegR a b x := by
  have h1 := betaRegR_succ_b ha hb hx0 hx1
  have h2 := betaRegR_diag ha hb hx0 hx1
  have hGa := Real.Gamma_pos_of_pos ha
  have hGb1 := Real.Gamma_pos_of_pos (show 0 < b + 1 by linarith)
  have hGab := Real.Gamma_pos_of_pos (add_pos ha hb)
  have e1 : Real.Gamma (a + 1) = a * Real.Gamma a := Real.Gamma_add_one ha.ne'
  have e2 : Real.Gamma (a + b + 1) = (a + b) * Real.Gamma (a + b) :=
    Real.Gamma_add_one (add_pos ha hb).ne'
  have hX : 0 ≤ x ^ a * (1 - x) ^ b :=
    mul_nonneg (Real.rpow_nonneg hx0 _) (Real.rpow_nonneg (by linarith) _)
  have hdiff : betaRegR a b x - betaRegR (a + 1) b x =
      x ^ a * (1 - x) ^ b * (b / a * (Real.Gamma (a + b) / (Real.Gamma a * Real.Gamma (b + 1)))) := by
    have : betaRegR a b x - betaRegR (a + 1) b x =
        (betaRegR a (b + 1) x - betaRegR (a + 1) b x) - (betaRegR a (b + 1) x - betaRegR a b x) := by
      ring
    rw [this, h1, h2, e1, e2]
    field_simp
    ring
  have hpos : 0 ≤ x ^ a * (1 - x) ^ b *
      (b / a * (Real.Gamma (a + b) / (Real.Gamma a * Real.Gamma (b + 1)))) := by positivity
  linarith

/-! ### the arcsine law `I_x(½,½) = (2/π) arcsin √x` -/

theorem arcsine_hasDerivAt {x : ℝ} (hx0 : 0 < x) (hx1 : x < 1) :
    HasDerivAt (fun t : ℝ => 2 / Real.pi * Real.arcsin (Real.sqrt t))
      (x ^ ((1:ℝ) / 2 - 1) * (1 - x) ^ ((1:ℝ) / 2 - 1) *
        (Real.Gamma (1 / 2 + 1 / 2) / (Real.Gamma (1 / 2) * Real.Gamma (1 / 2)))) x := by
  have hs : 0 < Real.sqrt x := Real.sqrt_pos.mpr hx0
  have hs1 : Real.sqrt x < 1 := by
    rw [show (1:ℝ) = Real.sqrt 1 by simp]; exact Real.sqrt_lt_sqrt hx0.le hx1
  have h1 : HasDerivAt Real.sqrt (1 / (2 * Real.sqrt x)) x := Real.hasDerivAt_sqrt hx0.ne'
  have h2 : HasDerivAt Real.arcsin (1 / Real.sqrt (1 - Real.sqrt x ^ 2)) (Real.sqrt x) :=
    Real.hasDerivAt_arcsin (by linarith) (by linarith)
  have h3 := (h2.comp x h1).const_mul (2 / Real.pi)
  refine h3.congr_deriv ?_
  rw [Real.sq_sqrt hx0.le]
  have hg : Real.Gamma (1 / 2 + 1 / 2) = 1 := by norm_num
  rw [hg, Real.Gamma_one_half_eq, show ((1:ℝ) / 2 - 1) = -(1 / 2) by norm_num,
    Real.rpow_neg hx0.le, Real.rpow_neg (by linarith : (0:ℝ) ≤ 1 - x), ← Real.sqrt_eq_rpow,
    ← Real.sqrt_eq_rpow]
  have hpi : Real.sqrt Real.pi * Real.sqrt Real.pi = Real.pi := Real.mul_self_sqrt Real.pi_pos.le
  have h1x : 0 < Real.sqrt (1 - x) := Real.sqrt_pos.mpr (by linarith)
  rw [hpi]
  have hpi0 := Real.pi_pos
  field_simp

theorem arcsine_tendsto_zero :
    Tendsto (fun t : ℝ => 2 / Real.pi * Real.arcsin (Real.sqrt t)) (𝓝[>] 0) (𝓝 0) := by
  have hc : Continuous (fun t : ℝ => 2 / Real.pi * Real.arcsin (Real.sqrt t)) := by
    exact continuous_const.mul (Real.continuous_arcsin.comp Real.continuous_sqrt)
  have := hc.tendsto 0
  simp only [Real.sqrt_zero, Real.arcsin_zero, mul_zero] at this
  exact this.mono_left nhdsWithin_le_nhds

/-- arcsine law on `[0,1]` -/
theorem betaRegR_half_half {x : ℝ} (hx0 : 0 ≤ x) (hx1 : x ≤ 1) :
    betaRegR (1 / 2) (1 / 2) x = 2 / Real.pi * Real.arcsin (Real.sqrt x) := by
  have hh : (0:ℝ) < 1 / 2 := by norm_num
  rcases hx0.lt_or_eq with h0 | h0
  · rcases hx1.lt_or_eq with h1 | h1
    · refine eq_of_hasDerivAt_eq_of_tendsto (l := 0) (u := 1)
        (F := betaRegR (1 / 2) (1 / 2))
        (G := fun t : ℝ => 2 / Real.pi * Real.arcsin (Real.sqrt t))
        (fun y hy => betaRegR_hasDerivAt hh hh hy.1 hy.2)
        (fun y hy => arcsine_hasDerivAt hy.1 hy.2) ?_ x ⟨h0, h1⟩
      have := (betaRegR_tendsto_zero hh hh).sub arcsine_tendsto_zero
      rwa [sub_zero] at this
    · rw [h1, betaRegR_one hh hh, Real.sqrt_one, Real.arcsin_one]
      have := Real.pi_pos
      field_simp
  · rw [← h0, betaRegR_zero, Real.sqrt_zero, Real.arcsin_zero, mul_zero]

end Statrs.Spec.Witnesses
