/-
  Statrs.Props.Common.Witnesses_3 — ONE instance `trueSF : SF ℝ`, built from the TRUE special
  functions, satisfies EVERY premise structure about the abstract `SF ℝ` that a `…_rel` theorem in
  `Props/**` assumes (31 structures; inventory in /verif/notes/PREMISES.md).

  `trueSF` = `Props.C03.Witness.sfDerivWitness` (true `Γ`, `log Γ`, `C(n,k)`, `n!`, their logs,
  `erf`, `erfc`, `P`, `Q`, `I_x`, `B` through Mathlib integrals) with the remaining fields that any
  premise mentions filled in by the true function too:
      erfc_inv, erf_inv   the inverse of the strictly decreasing `erfc` (choice; `Witnesses_1`),
      inv_beta_reg        an inverse of `I_·(a,b)` on `[0,1]` (choice),
      ln_beta             `log B(a,b)`,
      digamma             `ψ = Γ'/Γ`,
      multinomial         `List.multinomial`.
  Consequences:
    * no premise structure is false, and no two of them contradict each other: every `…_rel`
      theorem — and every COMBINATION of `…_rel` theorems, across properties — can be instantiated
      at `trueSF` and becomes an unconditional statement about the generated code run with the real
      special functions;
    * the structures that so far only had a toy witness (`GammaSpec`, `GammaShiftSpec`, `BetaSpec`,
      `BetaShiftSpec`, `BetaOneOneSpec`: `P = 1 − e^{−x}`, `I_x = x`; `ErfcSpec`: `erfc ≡ 1`;
      `ErfcInvSpec`: `erfc z = 1 − z`; `RelatedSpec`: `I_x(a,b) = x`; `StudentEntropySpec`: ad-hoc
      `digamma`) or none (`ErfSpec`) are now witnessed by the function they are meant to describe.
-/
import Statrs.Props.Common.Witnesses_1
import Statrs.Props.Common.Witnesses_2
import Statrs.Spec.SFSpec_incomplete
import Statrs.Spec.SFSpec_erfc
import Statrs.Spec.SFSpec_sampling
import Statrs.Spec.SFSpec_related
import Statrs.Spec.SFSpec_studentCauchy
import Statrs.Spec.SFSpec_multivariate
import Statrs.Spec.SFSpec_modeB
import Statrs.Spec.SFSpec_modeD
import Statrs.Spec.SFSpec_modeE
import Statrs.Spec.SFSpec_tests
import Statrs.Props.C10.StudentsT
import Statrs.Props.C16.KsLatticePaths
import Mathlib.NumberTheory.Harmonic.GammaDeriv
namespace Statrs.Spec.Witnesses
open Statrs Statrs.Gen Statrs.Props.C03 Statrs.Props.C03.Witness
open Filter Topology Set MeasureTheory

/-! ### the remaining true functions -/

open scoped Classical in
/-- an inverse of `I_·(a,b)` on `[0,1]` (junk `0` where there is no preimage) -/
noncomputable def invBetaRegR (a b p : ℝ) : ℝ :=
  if h : ∃ x : ℝ, 0 ≤ x ∧ x ≤ 1 ∧ betaRegR a b x = p then Classical.choose h else 0

theorem betaRegR_one_one (x : ℝ) : betaRegR 1 1 x = x := by
  rw [betaRegR_b_one one_pos, Real.rpow_one]

theorem invBetaRegR_one_one {p : ℝ} (h0 : 0 ≤ p) (h1 : p ≤ 1) : invBetaRegR 1 1 p = p := by
  have hex : ∃ x : ℝ, 0 ≤ x ∧ x ≤ 1 ∧ betaRegR 1 1 x = p := ⟨p, h0, h1, betaRegR_one_one p⟩
  unfold invBetaRegR
  rw [dif_pos hex]
  have := (Classical.choose_spec hex).2.2
  rwa [betaRegR_one_one] at this

/-- the digamma function `ψ = Γ'/Γ` (DLMF 5.2.2) -/
noncomputable def digammaR (x : ℝ) : ℝ := deriv Real.Gamma x / Real.Gamma x

/-- `ψ(1) − ψ(½) = 2 ln 2` (DLMF 5.4.12, 5.4.13) -/
theorem digammaR_one_sub_half : digammaR 1 - digammaR (1 / 2) = 2 * Real.log 2 := by
  unfold digammaR
  rw [Real.hasDerivAt_Gamma_one.deriv, Real.hasDerivAt_Gamma_one_half.deriv, Real.Gamma_one,
    Real.Gamma_one_half_eq]
  have hpi : Real.sqrt Real.pi ≠ 0 := (Real.sqrt_pos.mpr Real.pi_pos).ne'
  field_simp
  ring

/-! ### the instance -/

/-- the true special functions.  Not an instance: theorems stay relative to an arbitrary `SF ℝ`. -/
@[reducible] noncomputable def trueSF : SF ℝ :=
  { sfDerivWitness with
    erfc_inv := erfcInvR
    erf_inv := fun u => erfcInvR (1 - u)
    inv_beta_reg := invBetaRegR
    ln_beta := fun a b => Real.log (Real.Gamma a * Real.Gamma b / Real.Gamma (a + b))
    digamma := digammaR
    multinomial := fun _ x => ((List.multinomial (x.map Int.toNat) : ℕ) : ℝ) }

/-! ### Γ, factorials, binomials -/

theorem gammaDensitySpec_true : @GammaDensitySpec trueSF :=
  @GammaDensitySpec.mk trueSF (fun _ _ => rfl) (fun _ _ => rfl)

theorem lnBinomialOneSpec_true : @LnBinomialOneSpec trueSF :=
  @LnBinomialOneSpec.mk trueSF
    (show Real.log ((Nat.choose (1 : Int).toNat (0 : Int).toNat : ℕ) : ℝ) = 0 by simp)
    (show Real.log ((Nat.choose (1 : Int).toNat (1 : Int).toNat : ℕ) : ℝ) = 0 by simp)

theorem lnFactorialStepSpec_true : @ModeD.LnFactorialStepSpec trueSF :=
  @ModeD.LnFactorialStepSpec.mk trueSF (@ModeD.LnFactorialStepSpec.ln_factorial_succ sfWitness ModeD.lnFactorialStepSpec_witness)

theorem lnFactorialSpec_true : @LnFactorialSpec trueSF :=
  @LnFactorialSpec.mk trueSF (fun _ _ => rfl)

theorem binomialChooseSpec_true : @ModeE.BinomialChooseSpec trueSF :=
  @ModeE.BinomialChooseSpec.mk trueSF (@ModeE.BinomialChooseSpec.binomial_eq sfWitness ModeE.binomialChooseSpec_witness)

theorem binomialSpec_true : @Statrs.Props.C16.BinomialSpec trueSF :=
  @Statrs.Props.C16.BinomialSpec.mk trueSF (@Statrs.Props.C16.BinomialSpec.binomial_eq sfWitness Statrs.Props.C16.binomialSpec_witness)

theorem lnBinomialSpec_true : @TestsSF.LnBinomialSpec trueSF :=
  @TestsSF.LnBinomialSpec.mk trueSF (@TestsSF.LnBinomialSpec.exp_ln_binomial sfWitness TestsSF.lnBinomialSpec_witness)

theorem multinomialSpec_true : @MultinomialSpec trueSF := by
  refine @MultinomialSpec.mk trueSF (fun k => ?_) (fun n k _ => ?_)
  · show ((List.multinomial ((k.map (fun (i : ℕ) => (i : ℤ))).map Int.toNat) : ℕ) : ℝ) = _
    rw [List.map_map]
    have : (Int.toNat ∘ fun (i : ℕ) => (i : ℤ)) = id := by funext i; simp
    rw [this, List.map_id]
  · show Real.log ((Nat.choose (n : ℤ).toNat (k : ℤ).toNat : ℕ) : ℝ) = _
    simp

theorem betaFnPosSpec_true : @ModeB.BetaFnPosSpec trueSF :=
  @ModeB.BetaFnPosSpec.mk trueSF (fun a b ha hb => by
    show 0 < Real.Gamma a * Real.Gamma b / Real.Gamma (a + b)
    have := Real.Gamma_pos_of_pos ha
    have := Real.Gamma_pos_of_pos hb
    have := Real.Gamma_pos_of_pos (add_pos ha hb)
    positivity)

theorem betaFnSpec_true : @BetaFnSpec trueSF := @BetaFnSpec.mk trueSF (fun _ _ _ _ => rfl)

/-! ### calculus premises (C03) and limit premises (C01): inherited from `sfDerivWitness` -/

theorem gammaLrDerivSpec_true : @GammaLrDerivSpec trueSF :=
  @GammaLrDerivSpec.mk trueSF (@GammaLrDerivSpec.lr_hasDerivAt sfDerivWitness gammaLrDerivSpec_witness)
    (@GammaLrDerivSpec.lr_tendsto_zero sfDerivWitness gammaLrDerivSpec_witness)

theorem gammaUrDerivSpec_true : @GammaUrDerivSpec trueSF :=
  @GammaUrDerivSpec.mk trueSF (@GammaUrDerivSpec.ur_hasDerivAt sfDerivWitness gammaUrDerivSpec_witness)
    (@GammaUrDerivSpec.ur_tendsto_atTop sfDerivWitness gammaUrDerivSpec_witness)

theorem betaRegDerivSpec_true : @BetaRegDerivSpec trueSF :=
  @BetaRegDerivSpec.mk trueSF (@BetaRegDerivSpec.hasDerivAt sfDerivWitness betaRegDerivSpec_witness)
    (@BetaRegDerivSpec.continuousOn sfDerivWitness betaRegDerivSpec_witness) (@BetaRegDerivSpec.at_zero sfDerivWitness betaRegDerivSpec_witness)
    (@BetaRegDerivSpec.at_one sfDerivWitness betaRegDerivSpec_witness)

theorem erfDerivSpec_true : @ErfDerivSpec trueSF :=
  @ErfDerivSpec.mk trueSF erfR_hasDerivAt (fun _ => rfl)

theorem erfcLimitSpec_true : @ErfcLimitSpec trueSF := @ErfcLimitSpec.mk trueSF erfcR_tendsto

theorem gammaUrRecSpec_true : @GammaUrRecSpec trueSF :=
  @GammaUrRecSpec.mk trueSF (fun _ _ ha hx => gammaUr_succ ha hx) (fun x _ => gammaUr_one x)

theorem betaRegRecSpec_true : @BetaRegRecSpec trueSF :=
  @BetaRegRecSpec.mk trueSF (fun _ _ _ ha hb h0 h1 => betaRegR_diag ha hb h0 h1)
    (fun _ _ _ ha hb h0 h1 => betaRegR_succ_b ha hb h0 h1) (fun _ _ ha _ _ => betaRegR_b_one ha)
    (fun _ _ hb _ _ => betaRegR_a_one hb)

theorem erfcLimitBotSpec_true : @Statrs.Props.C01.ErfcLimitBotSpec trueSF :=
  @Statrs.Props.C01.ErfcLimitBotSpec.mk trueSF
    (@Statrs.Props.C01.ErfcLimitBotSpec.erfc_tendsto_atBot sfDerivWitness Statrs.Props.C01.erfcLimitBotSpec_witness)

theorem gammaUrLimitSpec_true : @Statrs.Props.C01.GammaUrLimitSpec trueSF :=
  @Statrs.Props.C01.GammaUrLimitSpec.mk trueSF
    (@Statrs.Props.C01.GammaUrLimitSpec.ur_tendsto_zero sfDerivWitness Statrs.Props.C01.gammaUrLimitSpec_witness)

theorem gammaLrLimitSpec_true : @Statrs.Props.C01.GammaLrLimitSpec trueSF :=
  @Statrs.Props.C01.GammaLrLimitSpec.mk trueSF (fun _ ha => gammaLrR_tendsto_atTop ha)

/-! ### order / range premises (C01, C02, C05, C18): NEW for the true functions -/

theorem gammaSpec_true : @Incomplete.GammaSpec trueSF :=
  @Incomplete.GammaSpec.mk trueSF (fun _ _ ha hx => gammaLrR_nonneg ha hx.le)
    (fun _ _ ha hx => gammaLrR_le_one ha hx.le) (fun _ _ _ ha hx hxy => gammaLrR_mono ha hx.le hxy)
    (fun _ _ _ _ => rfl)

theorem gammaShiftSpec_true : @Incomplete.GammaShiftSpec trueSF :=
  @Incomplete.GammaShiftSpec.mk trueSF (fun _ _ ha hx => gammaLrR_shift ha hx)

theorem betaSpec_true : @Incomplete.BetaSpec trueSF :=
  @Incomplete.BetaSpec.mk trueSF (fun _ _ _ ha hb h0 h1 => betaRegR_nonneg ha hb h0 h1)
    (fun _ _ _ ha hb h0 h1 => betaRegR_le_one ha hb h0 h1)
    (fun _ _ _ _ ha hb h0 hxy h1 => betaRegR_mono ha hb h0 hxy h1)
    (fun a b _ _ => betaRegR_zero a b) (fun _ _ ha hb => betaRegR_one ha hb)
    (fun _ _ _ ha hb h0 h1 => betaRegR_symm ha hb h0 h1)

theorem betaShiftSpec_true : @Incomplete.BetaShiftSpec trueSF :=
  @Incomplete.BetaShiftSpec.mk trueSF (fun _ _ _ ha hb h0 h1 => betaRegR_mono_b ha hb h0 h1)
    (fun _ _ _ ha hb h0 h1 => betaRegR_anti_a ha hb h0 h1)

theorem betaOneOneSpec_true : @Incomplete.BetaOneOneSpec trueSF :=
  @Incomplete.BetaOneOneSpec.mk trueSF (fun x _ _ => betaRegR_one_one x)

theorem erfcSpec_true : @Erfc.ErfcSpec trueSF :=
  @Erfc.ErfcSpec.mk trueSF (fun _ _ h => erfcR_strictAnti.antitone h) (fun z => (erfcR_pos z).le)
    (fun z => (erfcR_lt_two z).le) erfcR_neg

theorem erfSpec_true : @Erfc.ErfSpec trueSF :=
  @Erfc.ErfSpec.mk trueSF erfcSpec_true (fun z => by show erfR z = 1 - (1 - erfR z); ring)

theorem erfcInvSpec_true : @Sampling.ErfcInvSpec trueSF :=
  @Sampling.ErfcInvSpec.mk trueSF (fun _ h0 h1 => erfcInvR_pos h0 h1)
    (fun _ h0 h1 => erfcR_erfcInvR h0 h1.le)
    (fun _ _ h0 huv h1 => erfcInvR_strictAntiOn h0 huv h1.le)

/-! ### special values (C10) -/

theorem relatedSpec_true : @RelatedSpec trueSF := by
  refine @RelatedSpec.mk trueSF Real.Gamma_one ?_ ?_ ?_ ?_ ?_ (fun x _ => gammaUr_one x)
    (fun x _ _ => betaRegR_one_one x) ?_ (fun p h0 h1 => invBetaRegR_one_one h0 h1) ?_
  · show Real.Gamma 2 = 1
    simp
  · show Real.Gamma 3 = 2
    have := Real.Gamma_nat_eq_factorial 2
    norm_num [Nat.factorial] at this ⊢
  · show Real.Gamma 4 = 6
    have := Real.Gamma_nat_eq_factorial 3
    norm_num [Nat.factorial] at this ⊢
  · show Real.log (Real.Gamma 1) = 0
    rw [Real.Gamma_one, Real.log_one]
  · intro x _
    show gammaLrR 1 x = 1 - Real.exp (-x)
    have := gammaUr_one x
    linarith
  · show Real.log (Real.Gamma 1 * Real.Gamma 1 / Real.Gamma (1 + 1)) = 0
    rw [show (1:ℝ) + 1 = 2 by norm_num, Real.Gamma_one, show Real.Gamma 2 = 1 by simp]
    simp
  · intro k h0 h1
    show Real.log ((Nat.choose (1 : Int).toNat k.toNat : ℕ) : ℝ) = 0
    obtain rfl | rfl : k = 0 ∨ k = 1 := by omega
    · simp
    · simp

theorem studentCauchySpec_true : @StudentCauchySpec trueSF := by
  refine @StudentCauchySpec.mk trueSF ?_ ?_ (fun x h0 h1 => betaRegR_half_half h0 h1)
  · show Real.log (Real.Gamma 1) = 0
    rw [Real.Gamma_one, Real.log_one]
  · show Real.log (Real.Gamma (1 / 2)) = Real.log (Real.sqrt Real.pi)
    rw [Real.Gamma_one_half_eq]

theorem studentEntropySpec_true : @Statrs.Props.C10.StudentEntropySpec trueSF := by
  refine @Statrs.Props.C10.StudentEntropySpec.mk trueSF digammaR_one_sub_half ?_
  show Real.Gamma (1 / 2) * Real.Gamma (1 / 2) / Real.Gamma (1 / 2 + 1 / 2) = Real.pi
  rw [show (1:ℝ) / 2 + 1 / 2 = 1 by norm_num, Real.Gamma_one, Real.Gamma_one_half_eq, div_one,
    Real.mul_self_sqrt Real.pi_pos.le]

/-! ### everything at once -/

/-- every premise structure about the abstract special functions that a `…_rel` theorem uses -/
structure AllSFPremises [SF ℝ] : Prop where
  gammaDensity : GammaDensitySpec
  lnBinomialOne : LnBinomialOneSpec
  lnFactorialStep : ModeD.LnFactorialStepSpec
  lnFactorial : LnFactorialSpec
  binomialChoose : ModeE.BinomialChooseSpec
  binomial : Statrs.Props.C16.BinomialSpec
  lnBinomial : TestsSF.LnBinomialSpec
  multinomial : MultinomialSpec
  betaFnPos : ModeB.BetaFnPosSpec
  betaFn : BetaFnSpec
  gammaLrDeriv : GammaLrDerivSpec
  gammaUrDeriv : GammaUrDerivSpec
  betaRegDeriv : BetaRegDerivSpec
  erfDeriv : ErfDerivSpec
  erfcLimit : ErfcLimitSpec
  gammaUrRec : GammaUrRecSpec
  betaRegRec : BetaRegRecSpec
  erfcLimitBot : Statrs.Props.C01.ErfcLimitBotSpec
  gammaUrLimit : Statrs.Props.C01.GammaUrLimitSpec
  gammaLrLimit : Statrs.Props.C01.GammaLrLimitSpec
  gamma : Incomplete.GammaSpec
  gammaShift : Incomplete.GammaShiftSpec
  beta : Incomplete.BetaSpec
  betaShift : Incomplete.BetaShiftSpec
  betaOneOne : Incomplete.BetaOneOneSpec
  erfc : Erfc.ErfcSpec
  erf : Erfc.ErfSpec
  erfcInv : Sampling.ErfcInvSpec
  related : RelatedSpec
  studentCauchy : StudentCauchySpec
  studentEntropy : Statrs.Props.C10.StudentEntropySpec

/-- the true special functions satisfy every premise structure -/
theorem allSFPremises_true : @AllSFPremises trueSF :=
  @AllSFPremises.mk trueSF gammaDensitySpec_true lnBinomialOneSpec_true lnFactorialStepSpec_true
    lnFactorialSpec_true binomialChooseSpec_true binomialSpec_true lnBinomialSpec_true
    multinomialSpec_true betaFnPosSpec_true betaFnSpec_true gammaLrDerivSpec_true
    gammaUrDerivSpec_true betaRegDerivSpec_true erfDerivSpec_true erfcLimitSpec_true
    gammaUrRecSpec_true betaRegRecSpec_true erfcLimitBotSpec_true gammaUrLimitSpec_true
    gammaLrLimitSpec_true gammaSpec_true gammaShiftSpec_true betaSpec_true betaShiftSpec_true
    betaOneOneSpec_true erfcSpec_true erfSpec_true erfcInvSpec_true relatedSpec_true
    studentCauchySpec_true studentEntropySpec_true

/-- JOINT CONSISTENCY of all premises about `SF ℝ`: one instance satisfies all of them -/
theorem all_sf_premises_consistent : ∃ inst : SF ℝ, @AllSFPremises inst :=
  ⟨trueSF, allSFPremises_true⟩

end Statrs.Spec.Witnesses
