/-
  Statrs.Props.Common.Witnesses_4 —
  (1) per-property JOINT consistency statements: for every property ID whose `…_rel` theorems assume
      premise structures about `SF ℝ`, one instance (the true functions, `trueSF`) satisfies all the
      structures used anywhere under that ID at once (corollaries of `allSFPremises_true`);
  (2) the hypothesis `Lemmas.Bisect.IsQuantile (X.cdf d) p Q` of the two `…_rel` theorems of
      `Props/C05/Bisect.lean`:
        * FINDING `chi_isQuantile_unsatisfiable_rel`: for Chi it is UNSATISFIABLE for every `SF ℝ`
          whose `gamma_lr` has the limit `P(a,x) → 0` (`x → 0+`) — in particular for the true
          functions (`chi_isQuantile_unsatisfiable_true`) — whatever `p ∈ (0,1)` and `Q`.  Cause:
          over ℝ `RFun.inf = 0`, so the guard `x == f64::INFINITY` of `Chi::cdf` makes the model
          value `Chi.cdf d 0 = 1` (junk), and no `Q` separates `{cdf < p}` from `{cdf ≥ p}`.
          the former `chi_inverse_cdf_bisect_bound_rel` was therefore VACUOUS (now removed) for the real special functions
          (it is not vacuous for arbitrary `SF ℝ`: `chi_isQuantile_junk_witness`, `gamma_lr ≡ 1`).
          A model limit (junk `∞` over ℝ), not a defect of the Rust code.
        * `inverseGamma_isQuantile_witness`: for InverseGamma the hypothesis IS satisfiable with
          the true functions (`InverseGamma(1,1)`, `cdf x = e^{−1/x}`, `p = e^{−1}`, `Q = 1`), so
          `inverse_gamma_inverse_cdf_bisect_bound_rel` is not vacuous
          (`inverseGamma_bisect_bound_true_example` instantiates it).
-/
import Statrs.Props.Common.Witnesses_3
import Statrs.Props.C05.Bisect
import Statrs.Lemmas.SpecialCdf
set_option linter.unusedVariables false
namespace Statrs.Spec.Witnesses
open Statrs Statrs.Gen Statrs.Props.C03 Statrs.Props.C03.Witness Statrs.Props.C01
open Filter Topology Set

/-! ## (1) joint consistency per property ID -/

/-- C01: order premises (`Special`, `ClosedErfc`) + calculus and limit premises (`MeasureCdfA/B`) -/
theorem c01_premises_consistent : ∃ inst : SF ℝ,
    @Incomplete.GammaSpec inst ∧ @Incomplete.GammaShiftSpec inst ∧ @Incomplete.BetaSpec inst ∧
    @Incomplete.BetaShiftSpec inst ∧ @Erfc.ErfcSpec inst ∧ @GammaDensitySpec inst ∧
    @ErfDerivSpec inst ∧ @ErfcLimitSpec inst ∧ @ErfcLimitBotSpec inst ∧ @GammaLrDerivSpec inst ∧
    @GammaUrDerivSpec inst ∧ @GammaLrLimitSpec inst ∧ @GammaUrLimitSpec inst ∧
    @BetaRegDerivSpec inst ∧ @BetaFnSpec inst :=
  ⟨trueSF, gammaSpec_true, gammaShiftSpec_true, betaSpec_true, betaShiftSpec_true, erfcSpec_true,
    gammaDensitySpec_true, erfDerivSpec_true, erfcLimitSpec_true, erfcLimitBotSpec_true,
    gammaLrDerivSpec_true, gammaUrDerivSpec_true, gammaLrLimitSpec_true, gammaUrLimitSpec_true,
    betaRegDerivSpec_true, betaFnSpec_true⟩

/-- C02: `Special`, `Discrete`, `ClosedErfc` -/
theorem c02_premises_consistent : ∃ inst : SF ℝ,
    @Incomplete.GammaSpec inst ∧ @Incomplete.GammaShiftSpec inst ∧ @Incomplete.BetaSpec inst ∧
    @Incomplete.BetaShiftSpec inst ∧ @Incomplete.BetaOneOneSpec inst ∧ @Erfc.ErfcSpec inst ∧
    @Erfc.ErfSpec inst :=
  ⟨trueSF, gammaSpec_true, gammaShiftSpec_true, betaSpec_true, betaShiftSpec_true,
    betaOneOneSpec_true, erfcSpec_true, erfSpec_true⟩

/-- C03 (+ C04): `SFDerivA/B/C/D`, `Discrete`, `LogDensity` -/
theorem c03_premises_consistent : ∃ inst : SF ℝ,
    @GammaDensitySpec inst ∧ @GammaLrDerivSpec inst ∧ @GammaUrDerivSpec inst ∧
    @BetaRegDerivSpec inst ∧ @BetaFnSpec inst ∧ @ErfDerivSpec inst ∧ @ErfcLimitSpec inst ∧
    @GammaUrRecSpec inst ∧ @BetaRegRecSpec inst ∧ @LnFactorialSpec inst ∧
    @TestsSF.LnBinomialSpec inst ∧ @LnBinomialOneSpec inst :=
  ⟨trueSF, gammaDensitySpec_true, gammaLrDerivSpec_true, gammaUrDerivSpec_true,
    betaRegDerivSpec_true, betaFnSpec_true, erfDerivSpec_true, erfcLimitSpec_true,
    gammaUrRecSpec_true, betaRegRecSpec_true, lnFactorialSpec_true, lnBinomialSpec_true,
    lnBinomialOneSpec_true⟩

/-- C05 (`DiscreteDefaultFamilies`) and C06 (`InverseTransform2`) -/
theorem c05_c06_premises_consistent : ∃ inst : SF ℝ,
    @Incomplete.GammaSpec inst ∧ @Incomplete.GammaShiftSpec inst ∧ @Incomplete.BetaSpec inst ∧
    @Incomplete.BetaShiftSpec inst ∧ @TestsSF.LnBinomialSpec inst ∧ @Sampling.ErfcInvSpec inst :=
  ⟨trueSF, gammaSpec_true, gammaShiftSpec_true, betaSpec_true, betaShiftSpec_true,
    lnBinomialSpec_true, erfcInvSpec_true⟩

/-- C07: `MomentIntegralsA11/B…B5/C2…C5`, `DerivedDiscrete`, `FormulaPinsA` -/
theorem c07_premises_consistent : ∃ inst : SF ℝ,
    @GammaDensitySpec inst ∧ @BetaFnSpec inst ∧ @LnFactorialSpec inst ∧
    @TestsSF.LnBinomialSpec inst ∧ @ModeE.BinomialChooseSpec inst ∧ @RelatedSpec inst ∧
    @LnBinomialOneSpec inst :=
  ⟨trueSF, gammaDensitySpec_true, betaFnSpec_true, lnFactorialSpec_true, lnBinomialSpec_true,
    binomialChooseSpec_true, relatedSpec_true, lnBinomialOneSpec_true⟩

/-- C08: `ModeSF_A/B/D/E`, `MedianMore` -/
theorem c08_premises_consistent : ∃ inst : SF ℝ,
    @GammaDensitySpec inst ∧ @ModeB.BetaFnPosSpec inst ∧ @LnBinomialOneSpec inst ∧
    @TestsSF.LnBinomialSpec inst ∧ @ModeD.LnFactorialStepSpec inst ∧
    @ModeE.BinomialChooseSpec inst ∧ @Erfc.ErfcSpec inst ∧ @Sampling.ErfcInvSpec inst ∧
    @Incomplete.BetaSpec inst :=
  ⟨trueSF, gammaDensitySpec_true, betaFnPosSpec_true, lnBinomialOneSpec_true, lnBinomialSpec_true,
    lnFactorialStepSpec_true, binomialChooseSpec_true, erfcSpec_true, erfcInvSpec_true,
    betaSpec_true⟩

/-- C10: `ExpWeibullGamma`, `BetaUniform`, `DiscreteRel`, `Transforms`, `StudentsTCauchy`,
    `StudentsT` -/
theorem c10_premises_consistent : ∃ inst : SF ℝ,
    @RelatedSpec inst ∧ @StudentCauchySpec inst ∧ @Statrs.Props.C10.StudentEntropySpec inst :=
  ⟨trueSF, relatedSpec_true, studentCauchySpec_true, studentEntropySpec_true⟩

/-- C16 (`Fisher`, `FisherUnimodal`, `KsLatticePaths`) and C18 (`Ranges`, `SkewTest`, `TTest`,
    `Fisher`) -/
theorem c16_c18_premises_consistent : ∃ inst : SF ℝ,
    @ModeE.BinomialChooseSpec inst ∧ @TestsSF.LnBinomialSpec inst ∧
    @Statrs.Props.C16.BinomialSpec inst ∧ @Incomplete.BetaSpec inst ∧ @Incomplete.GammaSpec inst ∧
    @Erfc.ErfcSpec inst :=
  ⟨trueSF, binomialChooseSpec_true, lnBinomialSpec_true, binomialSpec_true, betaSpec_true,
    gammaSpec_true, erfcSpec_true⟩

/-- C19: `Multinomial*`, `Dirichlet` -/
theorem c19_premises_consistent : ∃ inst : SF ℝ, @MultinomialSpec inst ∧ @GammaDensitySpec inst :=
  ⟨trueSF, multinomialSpec_true, gammaDensitySpec_true⟩

/-! ## (2) `IsQuantile (X.cdf d) p Q` (C05/Bisect) -/

open Statrs.Lemmas.Bisect Statrs.Lemmas.SpecialCdf in
/-- FINDING.  Relative to `P(a,x) → 0` as `x → 0+` (a field of `GammaLrDerivSpec`), the hypothesis
    `IsQuantile (Chi.cdf d) p Q` of the former `C05.chi_inverse_cdf_bisect_bound_rel` (removed for that reason) has NO solution `Q` for
    any level `p ∈ (0,1)`: the model value `Chi.cdf d 0 = 1` (the `x == ∞` guard, `RFun.inf = 0`
    over ℝ) sits between `cdf = 0` on `x < 0` and `cdf ≈ 0` on small `x > 0`. -/
theorem chi_isQuantile_unsatisfiable_rel [SF ℝ] (G : GammaLrDerivSpec) (d : Chi)
    (hk : 0 < d.f_freedom) (p Q : ℝ) (hp0 : 0 < p) (hp1 : p < 1) :
    ¬ IsQuantile (Chi.cdf (α := ℝ) d) p Q := by
  intro h
  have hinf : (RFun.inf : ℝ) = 0 := rfl
  rcases lt_trichotomy Q 0 with hQ | hQ | hQ
  · have h1 := h.atOrAbove Q le_rfl
    rw [chi_cdf_real, hinf, if_neg hQ.ne, if_pos hQ.le] at h1
    linarith
  · subst hQ
    have ha : (0:ℝ) < (d.f_freedom : ℝ) / 2 := by
      have : (0:ℝ) < (d.f_freedom : ℝ) := by exact_mod_cast hk
      linarith
    have hlim := G.lr_tendsto_zero _ ha
    have hev : ∀ᶠ t in 𝓝[>] (0:ℝ), (SF.gamma_lr ((d.f_freedom : ℝ) / 2) t : ℝ) < p :=
      (tendsto_order.1 hlim).2 p hp0
    obtain ⟨t, htp, ht⟩ := (hev.and self_mem_nhdsWithin).exists
    have ht0 : (0:ℝ) < t := ht
    have hx : 0 < Real.sqrt (2 * t) := Real.sqrt_pos.mpr (by linarith)
    have h1 := h.above (Real.sqrt (2 * t)) hx
    rw [chi_cdf_real, hinf, if_neg hx.ne', if_neg (not_le.mpr hx),
      Real.mul_self_sqrt (by linarith), show 2 * t / 2 = t by ring] at h1
    linarith
  · have h1 := h.below 0 hQ
    rw [chi_cdf_real, hinf, if_pos rfl] at h1
    linarith

/-- …in particular for the true special functions: the removed `chi_inverse_cdf_bisect_bound_rel` said nothing
    about the generated code run with the real `P(a,x)` -/
theorem chi_isQuantile_unsatisfiable_true (d : Chi) (hk : 0 < d.f_freedom) (p Q : ℝ) (hp0 : 0 < p)
    (hp1 : p < 1) :
    ¬ Lemmas.Bisect.IsQuantile (@Chi.cdf ℝ _ _ _ _ _ _ _ _ _ _ _ _ _ trueSF d) p Q :=
  @chi_isQuantile_unsatisfiable_rel trueSF gammaLrDerivSpec_true d hk p Q hp0 hp1

open Statrs.Lemmas.Bisect Statrs.Lemmas.SpecialCdf in
/-- the hypothesis is satisfiable only by a junk instance: with `gamma_lr ≡ 1` the model cdf is the
    step `0` on `x < 0`, `1` on `x ≥ 0`, whose `p`-quantile is `0` -/
theorem chi_isQuantile_junk_witness (d : Chi) (p : ℝ) (hp0 : 0 < p) (hp1 : p < 1) :
    IsQuantile (@Chi.cdf ℝ _ _ _ _ _ _ _ _ _ _ _ _ _
      ({ sfWitness with gamma_lr := fun _ _ => 1 } : SF ℝ) d) p 0 := by
  let _ : SF ℝ := { sfWitness with gamma_lr := fun _ _ => 1 }
  have hinf : (RFun.inf : ℝ) = 0 := rfl
  refine ⟨fun x hx => ?_, fun x hx => ?_, fun x hx => ?_⟩
  · rw [chi_cdf_real, hinf, if_neg hx.ne, if_pos hx.le]; exact hp0
  · rw [chi_cdf_real, hinf]
    rcases hx.lt_or_eq with h | h
    · rw [if_neg h.ne', if_neg (not_le.mpr h)]; exact hp1.le
    · rw [if_pos h.symm]; exact hp1.le
  · rw [chi_cdf_real, hinf, if_neg hx.ne', if_neg (not_le.mpr hx)]; exact hp1

/-- `InverseGamma(1,1)` with the true `Q(1,y) = e^{−y}`: `cdf x = e^{−1/x}` for `x > 0` -/
theorem inverseGamma_one_one_cdf_true (x : ℝ) :
    @InverseGamma.cdf ℝ _ _ _ _ _ _ _ _ _ _ _ _ _ trueSF ⟨1, 1⟩ x =
      if x ≤ 0 then 0 else Real.exp (-(1 / x)) := by
  unfold InverseGamma.cdf
  simp only [rfun_isInf, Bool.false_eq_true, if_false]
  rw [show (0.0 : ℝ) = 0 by norm_num]
  split_ifs with h
  · rfl
  · exact gammaUr_one (1 / x)

open Statrs.Lemmas.Bisect in
/-- the hypothesis of `C05.inverse_gamma_inverse_cdf_bisect_bound_rel` is satisfiable with the true
    functions: `Q = 1` is the `e^{−1}`-quantile of `InverseGamma(1,1)` -/
theorem inverseGamma_isQuantile_witness :
    IsQuantile (@InverseGamma.cdf ℝ _ _ _ _ _ _ _ _ _ _ _ _ _ trueSF ⟨1, 1⟩) (Real.exp (-1)) 1 := by
  refine ⟨fun x hx => ?_, fun x hx => ?_, fun x hx => ?_⟩
  · rw [inverseGamma_one_one_cdf_true]
    split_ifs with h
    · exact Real.exp_pos _
    · have hx0 : 0 < x := not_le.mp h
      apply Real.exp_lt_exp.mpr
      have : 1 < 1 / x := by rw [lt_div_iff₀ hx0]; linarith
      linarith
  · rw [inverseGamma_one_one_cdf_true, if_neg (not_le.mpr (by linarith))]
    apply Real.exp_le_exp.mpr
    have hx0 : 0 < x := by linarith
    have : 1 / x ≤ 1 := by rw [div_le_iff₀ hx0]; linarith
    linarith
  · rw [inverseGamma_one_one_cdf_true, if_neg (not_le.mpr (by linarith))]
    apply Real.exp_lt_exp.mpr
    have hx0 : 0 < x := by linarith
    have : 1 / x < 1 := by rw [div_lt_iff₀ hx0]; linarith
    linarith

/-- `inverse_gamma_inverse_cdf_bisect_bound_rel` instantiated at the true functions: the default
    bisection applied to `InverseGamma(1,1)` at level `e^{−1}` returns a value within `2⁻¹⁵` of the
    true quantile `1` -/
theorem inverseGamma_bisect_bound_true_example :
    |@InverseGamma.inverse_cdf ℝ _ _ _ _ _ _ _ _ _ _ _ _ _ trueSF ⟨1, 1⟩ (Real.exp (-1)) - 1| ≤
      2⁻¹ ^ 15 * max 1 |(1:ℝ)| :=
  @Statrs.Props.C05.inverse_gamma_inverse_cdf_bisect_bound_rel trueSF ⟨1, 1⟩ (Real.exp (-1)) 1
    inverseGamma_isQuantile_witness (by rw [abs_one]; exact one_le_pow₀ (by norm_num)) (Real.exp_pos _)
    (by rw [show (1:ℝ) = Real.exp 0 by simp]; exact Real.exp_lt_exp.mpr (by norm_num))

end Statrs.Spec.Witnesses
