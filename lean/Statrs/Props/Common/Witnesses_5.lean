/-
  Statrs.Props.Common.Witnesses_5 — premise structures that are NOT about `SF ℝ`: joint witnesses
  where several of them are assumed together, and larger witnesses where only a 1×1 one existed.

  * C13: `geometric_mean_nan` assumes `NaNArith α` AND `NaNFun α`.  `nanArith_float` is for the real
    `RFun Float`, the `NaNFun` example of `FloatInst.lean` for a different (toy) `RFun Float`.
    `nanArith_nanFun_consistent`: ONE carrier/instance satisfies both (IEEE `Float` arithmetic with
    `exp`/`ln` replaced by the identity).  (`NaNFun Float` for the real libm `exp`/`log` cannot be
    proved in Lean: they are opaque.  It remains a premise; it is the IEEE/C99 rule F.10.3.)
  * C19: `CovSpec`, `MatrixSpec`, `PSDSpec` hold together for one covariance/precision pair
    (`linAlg_premises_consistent_one`, 1×1; `linAlg_premises_consistent_id2`, the 2×2 identity).
  * `Lemmas.IntBisect.Adm`: trivial witness.
-/
import Statrs.Props.C13.FloatInst
import Statrs.Spec.LinAlgSpec
import Statrs.Lemmas.IntBisect
namespace Statrs.Spec.Witnesses
open Statrs Statrs.Gen Statrs.Model

/-! ### C13 -/

/-- IEEE `Float` with `exp`, `ln` replaced by the identity (all other operations unchanged) -/
@[instance_reducible] def toyRFunFloat : RFun Float :=
  { (inferInstance : RFun Float) with exp := id, ln := id }

open Statrs.Props.C13 in
/-- the two premises of `C13.geometric_mean_nan` hold for one carrier and one `RFun` instance -/
theorem nanArith_nanFun_consistent :
    ∃ inst : RFun Float, @NaNArith Float _ _ _ _ inst ∧ @NaNFun Float inst :=
  ⟨toyRFunFloat,
    @NaNArith.mk Float _ _ _ _ toyRFunFloat nanArith_float.add_l nanArith_float.add_r
      nanArith_float.sub_l nanArith_float.sub_r nanArith_float.mul_l nanArith_float.mul_r
      nanArith_float.div_l nanArith_float.div_r nanArith_float.nan,
    @NaNFun.mk Float toyRFunFloat (fun _ h => h) (fun _ h => h)⟩

/-! ### C19 -/

/-- 1×1: all three linear-algebra premises for the pair the model computes from `[[s]]` -/
theorem linAlg_premises_consistent_one (s : ℝ) (hs : 0 < s) :
    CovSpec [[s]] ∧ MatrixSpec 1 [[s]] [[1 / Real.sqrt s / Real.sqrt s]] ∧
      PSDSpec 1 [[1 / Real.sqrt s / Real.sqrt s]] :=
  ⟨covSpec_one s hs, matrixSpec_one s hs,
    psdSpec_one _ (by have := Real.sqrt_pos.mpr hs; positivity)⟩

theorem matrixSpec_id2 : MatrixSpec 2 [[1, 0], [0, 1]] [[1, 0], [0, 1]] := by
  refine ⟨?_, ?_⟩
  · rw [Matrix.det_fin_two]
    simp [LA.determinant, LA.mget, toMatrix]
  · ext i j
    fin_cases i <;> fin_cases j <;>
      simp [Matrix.mul_apply, toMatrix, LA.mget, Fin.sum_univ_two]

theorem psdSpec_id2 : PSDSpec 2 [[1, 0], [0, 1]] := by
  refine ⟨fun v hv => ?_⟩
  match v, hv with
  | [a, b], _ =>
    have : LA.dotx (LA.matvec [[1, 0], [0, 1]] [a, b]) [a, b] = a * a + b * b := by
      simp [LA.matvec, LA.dotx, LA.dotxAcc, LA.gemvCols, LA.col]
      norm_num
    rw [this]; nlinarith [mul_self_nonneg a, mul_self_nonneg b]

/-- 2×2 identity covariance with identity precision: all three premises together -/
theorem linAlg_premises_consistent_id2 :
    CovSpec [[1, 0], [0, 1]] ∧ MatrixSpec 2 [[1, 0], [0, 1]] [[1, 0], [0, 1]] ∧
      PSDSpec 2 [[1, 0], [0, 1]] :=
  ⟨covSpec_id2, matrixSpec_id2, psdSpec_id2⟩

/-! ### integer bisection -/

/-- `Adm` (the cdf handed to `integral_bisection_search` is non-decreasing) is satisfiable -/
theorem adm_witness : Statrs.Lemmas.IntBisect.Adm (fun k : Int => (k : ℝ)) 0 :=
  ⟨fun a b _ hab => by exact_mod_cast hab⟩

end Statrs.Spec.Witnesses
