/-
  Statrs.Real.Inst — the carrier the theorems are proved over: `ℝ` with the true
  transcendental functions and constants.  IEEE-only notions are trivialised
  (`isNaN = false`, `isInf = false`, `isFinite = true`, `ulpsEq = (=)`), and the
  values standing for `±inf`/`NaN`/panics are junk (`0`): theorems over ℝ are
  statements about the algorithm in exact arithmetic, under guards that keep the
  computation on finite, non-panicking paths.
-/
import Statrs.Basic
import Mathlib.Analysis.SpecialFunctions.Pow.Real
import Mathlib.Analysis.SpecialFunctions.Trigonometric.Arctan
import Mathlib.Analysis.SpecialFunctions.Log.Basic
import Mathlib.Analysis.SpecialFunctions.Sqrt
import Mathlib.Analysis.Real.Pi.Bounds
import Mathlib.NumberTheory.Harmonic.EulerMascheroni
namespace Statrs
open Real

noncomputable instance instRFunReal : RFun ℝ where
  exp := Real.exp
  ln := Real.log
  log10 := fun x => Real.log x / Real.log 10
  log2 := fun x => Real.log x / Real.log 2
  exp2 := fun y => (2.0 : ℝ) ^ y
  sqrt := Real.sqrt
  sin := Real.sin
  cos := Real.cos
  tan := Real.tan
  atan := Real.arctan
  floor := fun x => (⌊x⌋ : ℝ)
  ceil := fun x => (⌈x⌉ : ℝ)
  round := fun x => (round x : ℝ)
  abs := fun x => |x|
  signum := fun x => if 0 ≤ x then 1 else -1
  ln1p := fun x => Real.log (1 + x)
  expm1 := fun x => Real.exp x - 1
  recip := fun x => 1 / x
  pow := fun x y => x ^ y
  powi := fun x n => x ^ n
  logb := fun x b => Real.log x / Real.log b
  fmin := fun x y => min x y
  fmax := fun x y => max x y
  fmod := fun x y => x - y * (Int.fract (x / y) * 0 + (if 0 ≤ x / y then ⌊x / y⌋ else ⌈x / y⌉))
  isNaN := fun _ => false
  isInf := fun _ => false
  isFinite := fun _ => true
  nan := 0
  inf := 0
  negInf := 0
  maxVal := 0
  minVal := 0
  minPositive := 0
  epsilon := 0
  ofInt := fun n => (n : ℝ)
  toU64 := fun x => max 0 ⌊x⌋
  toI64 := fun x => if 0 ≤ x then ⌊x⌋ else ⌈x⌉
  toI32 := fun x => if 0 ≤ x then ⌊x⌋ else ⌈x⌉
  toU32 := fun x => max 0 ⌊x⌋
  ulpsEq := fun x y => decide (x = y)
  pi := Real.pi
  tau := 2 * Real.pi
  e := Real.exp 1
  ln2 := Real.log 2
  ln10 := Real.log 10
  sqrt2 := Real.sqrt 2
  frac1Sqrt2 := 1 / Real.sqrt 2
  fracPi2 := Real.pi / 2
  c_SQRT_2PI := Real.sqrt (2 * Real.pi)
  c_LN_PI := Real.log Real.pi
  c_LN_SQRT_2PI := Real.log (Real.sqrt (2 * Real.pi))
  c_LN_SQRT_2PIE := Real.log (Real.sqrt (2 * Real.pi * Real.exp 1))
  c_LN_2_SQRT_E_OVER_PI := Real.log (2 * Real.sqrt (Real.exp 1 / Real.pi))
  c_TWO_SQRT_E_OVER_PI := 2 * Real.sqrt (Real.exp 1 / Real.pi)
  c_EULER_MASCHERONI := Real.eulerMascheroniConstant
  sumZero := 0

noncomputable instance : Inhabited ℝ := ⟨0⟩

end Statrs
