/-
  Statrs.Real.Simp — rewriting the model's operations over ℝ into Mathlib's.
  `simp only [rfun]` (or the `rfun_norm` tactic) turns `RFun.exp x` into `Real.exp x`, float
  literals `(1.5 : ℝ)` into rationals, etc.
-/
import Statrs.Real.Inst
import Mathlib.Tactic.NormNum
import Mathlib.Tactic.Linarith
import Mathlib.Tactic.Ring
import Mathlib.Tactic.FieldSimp
import Mathlib.Tactic.Positivity
namespace Statrs
open Real

@[simp] theorem rfun_exp (x : ℝ) : RFun.exp x = Real.exp x := rfl
@[simp] theorem rfun_ln (x : ℝ) : RFun.ln x = Real.log x := rfl
@[simp] theorem rfun_sqrt (x : ℝ) : RFun.sqrt x = Real.sqrt x := rfl
@[simp] theorem rfun_sin (x : ℝ) : RFun.sin x = Real.sin x := rfl
@[simp] theorem rfun_cos (x : ℝ) : RFun.cos x = Real.cos x := rfl
@[simp] theorem rfun_tan (x : ℝ) : RFun.tan x = Real.tan x := rfl
@[simp] theorem rfun_atan (x : ℝ) : RFun.atan x = Real.arctan x := rfl
@[simp] theorem rfun_abs (x : ℝ) : RFun.abs x = |x| := rfl
@[simp] theorem rfun_floor (x : ℝ) : RFun.floor x = (⌊x⌋ : ℝ) := rfl
@[simp] theorem rfun_ceil (x : ℝ) : RFun.ceil x = (⌈x⌉ : ℝ) := rfl
@[simp] theorem rfun_ln1p (x : ℝ) : RFun.ln1p x = Real.log (1 + x) := rfl
@[simp] theorem rfun_expm1 (x : ℝ) : RFun.expm1 x = Real.exp x - 1 := rfl
@[simp] theorem rfun_recip (x : ℝ) : RFun.recip x = 1 / x := rfl
@[simp] theorem rfun_pow (x y : ℝ) : RFun.pow x y = x ^ y := rfl
@[simp] theorem rfun_exp2 (y : ℝ) : RFun.exp2 y = (2.0 : ℝ) ^ y := rfl
/-- `(2.0f64).powf(y)` over ℝ: the same normal form as `RFun.pow 2.0 y` -/
@[simp] theorem pow2Lit_real (y : ℝ) : pow2Lit y = (2.0 : ℝ) ^ y := rfl
/-- `x.powf(2.0)` over ℝ: the compiled `x * x` is `x ^ 2.0`, the same normal form as `RFun.pow x 2.0` -/
@[simp] theorem powfLit2_real (x : ℝ) : powfLit2 x = x ^ (2.0 : ℝ) := by
  have h : (2.0 : ℝ) = ((2 : ℕ) : ℝ) := by norm_num
  rw [h, Real.rpow_natCast]; unfold powfLit2; ring
@[simp] theorem rfun_powi (x : ℝ) (n : Int) : RFun.powi x n = x ^ n := rfl
@[simp] theorem rfun_logb (x b : ℝ) : RFun.logb x b = Real.log x / Real.log b := rfl
@[simp] theorem rfun_fmin (x y : ℝ) : RFun.fmin x y = min x y := rfl
@[simp] theorem rfun_fmax (x y : ℝ) : RFun.fmax x y = max x y := rfl
@[simp] theorem rfun_isNaN (x : ℝ) : RFun.isNaN x = false := rfl
@[simp] theorem rfun_isInf (x : ℝ) : RFun.isInf x = false := rfl
@[simp] theorem rfun_isFinite (x : ℝ) : RFun.isFinite x = true := rfl
@[simp] theorem rfun_ofInt (n : Int) : (RFun.ofInt n : ℝ) = (n : ℝ) := rfl
@[simp] theorem rfun_ulpsEq (x y : ℝ) : RFun.ulpsEq x y = decide (x = y) := rfl
@[simp] theorem rfun_pi : (RFun.pi : ℝ) = Real.pi := rfl
@[simp] theorem rfun_tau : (RFun.tau : ℝ) = 2 * Real.pi := rfl
@[simp] theorem rfun_e : (RFun.e : ℝ) = Real.exp 1 := rfl
@[simp] theorem rfun_ln2 : (RFun.ln2 : ℝ) = Real.log 2 := rfl
@[simp] theorem rfun_ln10 : (RFun.ln10 : ℝ) = Real.log 10 := rfl
@[simp] theorem rfun_sqrt2 : (RFun.sqrt2 : ℝ) = Real.sqrt 2 := rfl
@[simp] theorem rfun_frac1Sqrt2 : (RFun.frac1Sqrt2 : ℝ) = 1 / Real.sqrt 2 := rfl
@[simp] theorem rfun_fracPi2 : (RFun.fracPi2 : ℝ) = Real.pi / 2 := rfl
@[simp] theorem rfun_c_SQRT_2PI : (RFun.c_SQRT_2PI : ℝ) = Real.sqrt (2 * Real.pi) := rfl
@[simp] theorem rfun_c_LN_PI : (RFun.c_LN_PI : ℝ) = Real.log Real.pi := rfl
@[simp] theorem rfun_c_LN_SQRT_2PI : (RFun.c_LN_SQRT_2PI : ℝ) = Real.log (Real.sqrt (2 * Real.pi)) := rfl
@[simp] theorem rfun_c_LN_SQRT_2PIE : (RFun.c_LN_SQRT_2PIE : ℝ) = Real.log (Real.sqrt (2 * Real.pi * Real.exp 1)) := rfl
@[simp] theorem rfun_c_LN_2_SQRT_E_OVER_PI : (RFun.c_LN_2_SQRT_E_OVER_PI : ℝ) = Real.log (2 * Real.sqrt (Real.exp 1 / Real.pi)) := rfl
@[simp] theorem rfun_c_TWO_SQRT_E_OVER_PI : (RFun.c_TWO_SQRT_E_OVER_PI : ℝ) = 2 * Real.sqrt (Real.exp 1 / Real.pi) := rfl
@[simp] theorem rfun_c_EULER : (RFun.c_EULER_MASCHERONI : ℝ) = Real.eulerMascheroniConstant := rfl
@[simp] theorem rfun_sumZero : (RFun.sumZero : ℝ) = 0 := rfl
@[simp] theorem real_beq (x y : ℝ) : ((x == y) = true) = (x = y) := by simp

/-- normalise model operations over ℝ, then arithmetic literals -/
macro "rfun_norm" : tactic => `(tactic| (try simp only [rfun_exp, rfun_ln, rfun_sqrt, rfun_sin, rfun_cos, rfun_tan, rfun_atan,
  rfun_abs, rfun_floor, rfun_ceil, rfun_ln1p, rfun_expm1, rfun_recip, rfun_pow, rfun_exp2, pow2Lit_real, powfLit2_real, rfun_powi, rfun_logb, rfun_fmin, rfun_fmax,
  rfun_isNaN, rfun_isInf, rfun_isFinite, rfun_ofInt, rfun_ulpsEq, rfun_pi, rfun_tau, rfun_e, rfun_ln2, rfun_ln10, rfun_sqrt2,
  rfun_frac1Sqrt2, rfun_fracPi2, rfun_c_SQRT_2PI, rfun_c_LN_PI, rfun_c_LN_SQRT_2PI, rfun_c_LN_SQRT_2PIE,
  rfun_c_LN_2_SQRT_E_OVER_PI, rfun_c_TWO_SQRT_E_OVER_PI, rfun_c_EULER, rfun_sumZero, real_beq] at *))

end Statrs
