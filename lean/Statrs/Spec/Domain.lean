/-
  Statrs.Spec.Domain — the DOCUMENTED parameter domains of the scalar distribution constructors
  of statrs, transcribed from the doc comments in /repo/src/distribution/<family>.rs.

  For every family `X`:
    * `Dom.X.Domain args : Prop` — the complement of the `# Errors` section of `X::new`: one
      conjunct per documented error condition, each annotated with the sentence it encodes.
      "Returns an error if C" becomes the conjunct `¬ C`.
    * `Dom.X.ErrDoc args : XError → Prop` — for each error variant, the condition its own doc
      comment (on the `enum XError`) states.
    * `Dom.X.docErr args : XError` — the documented variant: the first variant, in declaration
      order, whose documented condition holds (the last variant if none does; only meaningful
      outside the domain).

  Float parameters range over `XR` (IEEE values without rounding, `Statrs/Spec/XR.lean`): the
  comparisons below are IEEE comparisons (false on NaN), which is why the documented "is NaN"
  clauses are separate conjuncts.  Integer parameters are `Int` standing for `u64`/`i64`.
  Nothing in this file mentions the generated model.
-/
import Statrs.Spec.XR
import Statrs.Gen.Types
namespace Statrs.Spec.Dom
open Statrs Statrs.Gen Statrs.Spec Statrs.Spec.XR
open Classical

/-- the literal `0.0` -/
abbrev z : XR := fin 0
/-- the literal `1.0` -/
abbrev one : XR := fin 1

/-! ## Bernoulli — src/distribution/bernoulli.rs -/
namespace Bernoulli
def Domain (p : XR) : Prop :=
  -- "Returns an error if `p` is `NaN`,
  ¬ IsNaN p ∧
  --  less than `0.0`
  ¬ p < z ∧
  --  or greater than `1.0`"
  ¬ one < p
def ErrDoc (p : XR) : BinomialError → Prop
  -- "The probability is NaN or not in `[0, 1]`."
  | .ProbabilityInvalid => IsNaN p ∨ ¬ (z ≤ p ∧ p ≤ one)
def docErr (_p : XR) : BinomialError := .ProbabilityInvalid
end Bernoulli

/-! ## Beta — src/distribution/beta.rs -/
namespace Beta
def Domain (shape_a shape_b : XR) : Prop :=
  -- "Returns an error if `shape_a` or `shape_b` are `NaN` or infinite."
  ¬ IsNaN shape_a ∧ ¬ IsNaN shape_b ∧ ¬ IsInf shape_a ∧ ¬ IsInf shape_b ∧
  -- "Also returns an error if `shape_a <= 0.0` or `shape_b <= 0.0`"
  ¬ shape_a ≤ z ∧ ¬ shape_b ≤ z
def ErrDoc (shape_a shape_b : XR) : BetaError → Prop
  -- "Shape A is NaN, infinite, zero or negative."
  | .ShapeAInvalid => IsNaN shape_a ∨ IsInf shape_a ∨ shape_a ≤ z
  -- "Shape B is NaN, infinite, zero or negative."
  | .ShapeBInvalid => IsNaN shape_b ∨ IsInf shape_b ∨ shape_b ≤ z
noncomputable def docErr (shape_a shape_b : XR) : BetaError :=
  if ErrDoc shape_a shape_b .ShapeAInvalid then .ShapeAInvalid else .ShapeBInvalid
end Beta

/-! ## Binomial — src/distribution/binomial.rs  (`n : u64`) -/
namespace Binomial
def Domain (p : XR) (n : Int) : Prop :=
  -- "Returns an error if `p` is `NaN`,
  ¬ IsNaN p ∧
  --  less than `0.0`,
  ¬ p < z ∧
  --  greater than `1.0`,
  ¬ one < p ∧
  --  or if `n` is less than `0`"   (vacuous for a `u64`)
  ¬ n < 0
def ErrDoc (p : XR) (_n : Int) : BinomialError → Prop
  -- "The probability is NaN or not in `[0, 1]`."
  | .ProbabilityInvalid => IsNaN p ∨ ¬ (z ≤ p ∧ p ≤ one)
def docErr (_p : XR) (_n : Int) : BinomialError := .ProbabilityInvalid
end Binomial

/-! ## Cauchy — src/distribution/cauchy.rs -/
namespace Cauchy
def Domain (location scale : XR) : Prop :=
  -- "Returns an error if location or scale are `NaN`
  ¬ IsNaN location ∧ ¬ IsNaN scale ∧
  --  or `scale <= 0.0`"
  ¬ scale ≤ z
def ErrDoc (location scale : XR) : CauchyError → Prop
  -- "The location is NaN."
  | .LocationInvalid => IsNaN location
  -- "The scale is NaN, zero or less than zero."
  | .ScaleInvalid => IsNaN scale ∨ scale ≤ z
noncomputable def docErr (location scale : XR) : CauchyError :=
  if ErrDoc location scale .LocationInvalid then .LocationInvalid else .ScaleInvalid
end Cauchy

/-! ## Chi — src/distribution/chi.rs  (`freedom : u64`) -/
namespace Chi
def Domain (freedom : Int) : Prop :=
  -- "Returns an error if `freedom` is equal to `0`."
  ¬ freedom = 0
def ErrDoc (freedom : Int) : ChiError → Prop
  -- "The degrees of freedom are zero."
  | .FreedomInvalid => freedom = 0
def docErr (_freedom : Int) : ChiError := .FreedomInvalid
end Chi

/-! ## ChiSquared — src/distribution/chi_squared.rs  (errors are `GammaError`s of the underlying
    `Gamma(freedom / 2.0, 0.5)`) -/
namespace ChiSquared
def Domain (freedom : XR) : Prop :=
  -- "Returns an error if `freedom` is `NaN`
  ¬ IsNaN freedom ∧
  --  or less than or equal to `0.0`"
  ¬ freedom ≤ z
def ErrDoc (freedom : XR) : GammaError → Prop
  -- "The shape is NaN, zero or less than zero."  (shape = freedom / 2.0)
  | .ShapeInvalid => IsNaN freedom ∨ freedom ≤ z
  -- "The rate is NaN, zero or less than zero."  (rate = 0.5: never)
  | .RateInvalid => False
  -- "The shape and rate are both infinite."  (rate = 0.5: never)
  | .ShapeAndRateInfinite => False
def docErr (_freedom : XR) : GammaError := .ShapeInvalid
end ChiSquared

/-! ## Dirac — src/distribution/dirac.rs -/
namespace Dirac
def Domain (v : XR) : Prop :=
  -- "Returns an error if `v` is not-a-number."
  ¬ IsNaN v
def ErrDoc (v : XR) : DiracError → Prop
  -- "The value v is NaN."
  | .ValueInvalid => IsNaN v
def docErr (_v : XR) : DiracError := .ValueInvalid
end Dirac

/-! ## DiscreteUniform — src/distribution/discrete_uniform.rs  (`min, max : i64`) -/
namespace DiscreteUniform
def Domain (min max : Int) : Prop :=
  -- "Returns an error if `max < min`"
  ¬ max < min
def ErrDoc (min max : Int) : DiscreteUniformError → Prop
  -- "The maximum is less than the minimum."
  | .MinMaxInvalid => max < min
def docErr (_min _max : Int) : DiscreteUniformError := .MinMaxInvalid
end DiscreteUniform

/-! ## Erlang — src/distribution/erlang.rs  (`shape : u64`; errors are `GammaError`s) -/
namespace Erlang
def Domain (shape : Int) (rate : XR) : Prop :=
  -- "Returns an error if `shape` or `rate` are `NaN`."   (an integer is never NaN)
  ¬ IsNaN rate ∧
  -- "Also returns an error if `shape == 0`
  ¬ shape = 0 ∧
  --  or `rate <= 0.0`"
  ¬ rate ≤ z
def ErrDoc (shape : Int) (rate : XR) : GammaError → Prop
  -- "The shape is NaN, zero or less than zero."
  | .ShapeInvalid => shape ≤ 0
  -- "The rate is NaN, zero or less than zero."
  | .RateInvalid => IsNaN rate ∨ rate ≤ z
  -- "The shape and rate are both infinite."   (an integer is never infinite)
  | .ShapeAndRateInfinite => False
noncomputable def docErr (shape : Int) (rate : XR) : GammaError :=
  if ErrDoc shape rate .ShapeInvalid then .ShapeInvalid else .RateInvalid
end Erlang

/-! ## Exp — src/distribution/exponential.rs -/
namespace Exp
def Domain (rate : XR) : Prop :=
  -- "Returns an error if rate is `NaN`
  ¬ IsNaN rate ∧
  --  or `rate <= 0.0`."
  ¬ rate ≤ z
def ErrDoc (rate : XR) : ExpError → Prop
  -- "The rate is NaN, zero or less than zero."
  | .RateInvalid => IsNaN rate ∨ rate ≤ z
def docErr (_rate : XR) : ExpError := .RateInvalid
end Exp

/-! ## FisherSnedecor — src/distribution/fisher_snedecor.rs -/
namespace FisherSnedecor
/-- the domain as the `# Errors` section of `FisherSnedecor::new` documents it (infinite degrees of
    freedom are NOT listed there) -/
def Domain (freedom_1 freedom_2 : XR) : Prop :=
  -- "Returns an error if `freedom_1` or `freedom_2` are `NaN`."
  ¬ IsNaN freedom_1 ∧ ¬ IsNaN freedom_2 ∧
  -- "Also returns an error if `freedom_1 <= 0.0` or `freedom_2 <= 0.0`"
  ¬ freedom_1 ≤ z ∧ ¬ freedom_2 ≤ z
/-- the domain the code implements (= `Domain` plus the "infinite" clause that only the
    `FisherSnedecorError` variant docs mention) -/
def DomainImpl (freedom_1 freedom_2 : XR) : Prop :=
  Domain freedom_1 freedom_2 ∧ ¬ IsInf freedom_1 ∧ ¬ IsInf freedom_2
def ErrDoc (freedom_1 freedom_2 : XR) : FisherSnedecorError → Prop
  -- "`freedom_1` is NaN, infinite, zero or less than zero."
  | .Freedom1Invalid => IsNaN freedom_1 ∨ IsInf freedom_1 ∨ freedom_1 ≤ z
  -- "`freedom_2` is NaN, infinite, zero or less than zero."
  | .Freedom2Invalid => IsNaN freedom_2 ∨ IsInf freedom_2 ∨ freedom_2 ≤ z
noncomputable def docErr (freedom_1 freedom_2 : XR) : FisherSnedecorError :=
  if ErrDoc freedom_1 freedom_2 .Freedom1Invalid then .Freedom1Invalid else .Freedom2Invalid
end FisherSnedecor

/-! ## Gamma — src/distribution/gamma.rs -/
namespace Gamma
/-- the domain as the `# Errors` section of `Gamma::new` documents it (ANY infinite parameter is an
    error there) -/
def Domain (shape rate : XR) : Prop :=
  -- "Returns an error if `shape` is 'NaN' or inf
  ¬ IsNaN shape ∧ ¬ IsInf shape ∧
  --  or `rate` is `NaN` or inf."
  ¬ IsNaN rate ∧ ¬ IsInf rate ∧
  -- "Also returns an error if `shape <= 0.0` or `rate <= 0.0`"
  ¬ shape ≤ z ∧ ¬ rate ≤ z
/-- the domain the code implements (what the `GammaError` variant docs describe: only BOTH
    parameters infinite is an error) -/
def DomainImpl (shape rate : XR) : Prop :=
  ¬ IsNaN shape ∧ ¬ IsNaN rate ∧ ¬ shape ≤ z ∧ ¬ rate ≤ z ∧ ¬ (IsInf shape ∧ IsInf rate)
def ErrDoc (shape rate : XR) : GammaError → Prop
  -- "The shape is NaN, zero or less than zero."
  | .ShapeInvalid => IsNaN shape ∨ shape ≤ z
  -- "The rate is NaN, zero or less than zero."
  | .RateInvalid => IsNaN rate ∨ rate ≤ z
  -- "The shape and rate are both infinite."
  | .ShapeAndRateInfinite => IsInf shape ∧ IsInf rate
noncomputable def docErr (shape rate : XR) : GammaError :=
  if ErrDoc shape rate .ShapeInvalid then .ShapeInvalid
  else if ErrDoc shape rate .RateInvalid then .RateInvalid
  else .ShapeAndRateInfinite
end Gamma

/-! ## Geometric — src/distribution/geometric.rs -/
namespace Geometric
def Domain (p : XR) : Prop :=
  -- "Returns an error if `p` is not in `(0, 1]`"
  z < p ∧ p ≤ one
def ErrDoc (p : XR) : GeometricError → Prop
  -- "The probability is NaN or not in `(0, 1]`."
  | .ProbabilityInvalid => IsNaN p ∨ ¬ (z < p ∧ p ≤ one)
def docErr (_p : XR) : GeometricError := .ProbabilityInvalid
end Geometric

/-! ## Gumbel — src/distribution/gumbel.rs -/
namespace Gumbel
def Domain (location scale : XR) : Prop :=
  -- "Returns an error if location or scale are `NaN`
  ¬ IsNaN location ∧ ¬ IsNaN scale ∧
  --  or `scale <= 0.0`"
  ¬ scale ≤ z
def ErrDoc (location scale : XR) : GumbelError → Prop
  -- "The location is invalid (NAN)"
  | .LocationInvalid => IsNaN location
  -- "The scale is NAN, zero or less than zero"
  | .ScaleInvalid => IsNaN scale ∨ scale ≤ z
noncomputable def docErr (location scale : XR) : GumbelError :=
  if ErrDoc location scale .LocationInvalid then .LocationInvalid else .ScaleInvalid
end Gumbel

/-! ## Hypergeometric — src/distribution/hypergeometric.rs  (all `u64`) -/
namespace Hypergeometric
def Domain (population successes draws : Int) : Prop :=
  -- "If `successes > population`
  ¬ population < successes ∧
  --  or `draws > population`."
  ¬ population < draws
def ErrDoc (population successes draws : Int) : HypergeometricError → Prop
  -- "The number of successes is greater than the population."
  | .TooManySuccesses => population < successes
  -- "The number of draws is greater than the population."
  | .TooManyDraws => population < draws
noncomputable def docErr (population successes draws : Int) : HypergeometricError :=
  if ErrDoc population successes draws .TooManySuccesses then .TooManySuccesses else .TooManyDraws
end Hypergeometric

/-! ## InverseGamma — src/distribution/inverse_gamma.rs -/
namespace InverseGamma
def Domain (shape rate : XR) : Prop :=
  -- "Returns an error if `shape` or `rate` are `NaN`."
  ¬ IsNaN shape ∧ ¬ IsNaN rate ∧
  -- "Also returns an error if `shape` or `rate` are not in `(0, +inf)`"
  (z < shape ∧ shape < pinf) ∧ (z < rate ∧ rate < pinf)
def ErrDoc (shape rate : XR) : InverseGammaError → Prop
  -- "The shape is NaN, infinite, zero or less than zero."
  | .ShapeInvalid => IsNaN shape ∨ IsInf shape ∨ shape ≤ z
  -- "The rate is NaN, infinite, zero or less than zero."
  | .RateInvalid => IsNaN rate ∨ IsInf rate ∨ rate ≤ z
noncomputable def docErr (shape rate : XR) : InverseGammaError :=
  if ErrDoc shape rate .ShapeInvalid then .ShapeInvalid else .RateInvalid
end InverseGamma

/-! ## Laplace — src/distribution/laplace.rs -/
namespace Laplace
def Domain (location scale : XR) : Prop :=
  -- "Returns an error if location or scale are `NaN`
  ¬ IsNaN location ∧ ¬ IsNaN scale ∧
  --  or `scale <= 0.0`"
  ¬ scale ≤ z
def ErrDoc (location scale : XR) : LaplaceError → Prop
  -- "The location is NaN."
  | .LocationInvalid => IsNaN location
  -- "The scale is NaN, zero or less than zero."
  | .ScaleInvalid => IsNaN scale ∨ scale ≤ z
noncomputable def docErr (location scale : XR) : LaplaceError :=
  if ErrDoc location scale .LocationInvalid then .LocationInvalid else .ScaleInvalid
end Laplace

/-! ## Levy — src/distribution/levy.rs -/
namespace Levy
def Domain (mu c : XR) : Prop :=
  -- "Returns and error if `mu` is NaN or infinite
  ¬ IsNaN mu ∧ ¬ IsInf mu ∧
  --  or if `c` is NaN, infinite or nonpositive"
  ¬ IsNaN c ∧ ¬ IsInf c ∧ ¬ c ≤ z
def ErrDoc (mu c : XR) : LevyError → Prop
  -- "Location is NaN or infinite"
  | .LocationInvalid => IsNaN mu ∨ IsInf mu
  -- "Scale is NaN, infinite or nonpositive"
  | .ScaleInvalid => IsNaN c ∨ IsInf c ∨ c ≤ z
noncomputable def docErr (mu c : XR) : LevyError :=
  if ErrDoc mu c .LocationInvalid then .LocationInvalid else .ScaleInvalid
end Levy

/-! ## LogNormal — src/distribution/log_normal.rs -/
namespace LogNormal
def Domain (location scale : XR) : Prop :=
  -- "Returns an error if `location` or `scale` are `NaN`."
  ¬ IsNaN location ∧ ¬ IsNaN scale ∧
  -- "Returns an error if `scale <= 0.0`"
  ¬ scale ≤ z
def ErrDoc (location scale : XR) : LogNormalError → Prop
  -- "The location is NaN."
  | .LocationInvalid => IsNaN location
  -- "The scale is NaN, zero or less than zero."
  | .ScaleInvalid => IsNaN scale ∨ scale ≤ z
noncomputable def docErr (location scale : XR) : LogNormalError :=
  if ErrDoc location scale .LocationInvalid then .LocationInvalid else .ScaleInvalid
end LogNormal

/-! ## NegativeBinomial — src/distribution/negative_binomial.rs -/
namespace NegativeBinomial
def Domain (r p : XR) : Prop :=
  -- "Returns an error if `p` is `NaN`,
  ¬ IsNaN p ∧
  --  less than `0.0`,
  ¬ p < z ∧
  --  greater than `1.0`,
  ¬ one < p ∧
  --  or if `r` is `NaN`
  ¬ IsNaN r ∧
  --  or less than `0`"
  ¬ r < z
def ErrDoc (r p : XR) : NegativeBinomialError → Prop
  -- "`r` is NaN or less than zero."
  | .RInvalid => IsNaN r ∨ r < z
  -- "`p` is NaN or not in `[0, 1]`."
  | .PInvalid => IsNaN p ∨ ¬ (z ≤ p ∧ p ≤ one)
noncomputable def docErr (r p : XR) : NegativeBinomialError :=
  if ErrDoc r p .RInvalid then .RInvalid else .PInvalid
end NegativeBinomial

/-! ## Normal — src/distribution/normal.rs -/
namespace Normal
def Domain (mean std_dev : XR) : Prop :=
  -- "Returns an error if `mean` or `std_dev` are `NaN`
  ¬ IsNaN mean ∧ ¬ IsNaN std_dev ∧
  --  or if `std_dev <= 0.0`"
  ¬ std_dev ≤ z
def ErrDoc (mean std_dev : XR) : NormalError → Prop
  -- "The mean is NaN."
  | .MeanInvalid => IsNaN mean
  -- "The standard deviation is NaN, zero or less than zero."
  | .StandardDeviationInvalid => IsNaN std_dev ∨ std_dev ≤ z
noncomputable def docErr (mean std_dev : XR) : NormalError :=
  if ErrDoc mean std_dev .MeanInvalid then .MeanInvalid else .StandardDeviationInvalid
end Normal

/-! ## Pareto — src/distribution/pareto.rs -/
namespace Pareto
def Domain (scale shape : XR) : Prop :=
  -- "Returns an error if any of `scale` or `shape` are `NaN`."
  ¬ IsNaN scale ∧ ¬ IsNaN shape ∧
  -- "Returns an error if `scale <= 0.0` or `shape <= 0.0`"
  ¬ scale ≤ z ∧ ¬ shape ≤ z
def ErrDoc (scale shape : XR) : ParetoError → Prop
  -- "The scale is NaN, zero or less than zero."
  | .ScaleInvalid => IsNaN scale ∨ scale ≤ z
  -- "The shape is NaN, zero or less than zero."
  | .ShapeInvalid => IsNaN shape ∨ shape ≤ z
noncomputable def docErr (scale shape : XR) : ParetoError :=
  if ErrDoc scale shape .ScaleInvalid then .ScaleInvalid else .ShapeInvalid
end Pareto

/-! ## Poisson — src/distribution/poisson.rs -/
namespace Poisson
def Domain (lambda : XR) : Prop :=
  -- "Returns an error if `lambda` is `NaN`
  ¬ IsNaN lambda ∧
  --  or `lambda <= 0.0`"
  ¬ lambda ≤ z
def ErrDoc (lambda : XR) : PoissonError → Prop
  -- "The lambda is NaN, zero or less than zero."
  | .LambdaInvalid => IsNaN lambda ∨ lambda ≤ z
def docErr (_lambda : XR) : PoissonError := .LambdaInvalid
end Poisson

/-! ## StudentsT — src/distribution/students_t.rs -/
namespace StudentsT
def Domain (location scale freedom : XR) : Prop :=
  -- "Returns an error if any of `location`, `scale`, or `freedom` are `NaN`."
  ¬ IsNaN location ∧ ¬ IsNaN scale ∧ ¬ IsNaN freedom ∧
  -- "Returns an error if `scale <= 0.0` or `freedom <= 0.0`."
  ¬ scale ≤ z ∧ ¬ freedom ≤ z
def ErrDoc (location scale freedom : XR) : StudentsTError → Prop
  -- "The location is NaN."
  | .LocationInvalid => IsNaN location
  -- "The scale is NaN, zero or less than zero."
  | .ScaleInvalid => IsNaN scale ∨ scale ≤ z
  -- "The degrees of freedom are NaN, zero or less than zero."
  | .FreedomInvalid => IsNaN freedom ∨ freedom ≤ z
noncomputable def docErr (location scale freedom : XR) : StudentsTError :=
  if ErrDoc location scale freedom .LocationInvalid then .LocationInvalid
  else if ErrDoc location scale freedom .ScaleInvalid then .ScaleInvalid
  else .FreedomInvalid
end StudentsT

/-! ## Triangular — src/distribution/triangular.rs -/
namespace Triangular
def Domain (min max mode : XR) : Prop :=
  -- "Returns an error if `min`, `max`, or `mode` are `NaN` or `±INF`."
  (¬ IsNaN min ∧ ¬ IsInf min) ∧ (¬ IsNaN max ∧ ¬ IsInf max) ∧ (¬ IsNaN mode ∧ ¬ IsInf mode) ∧
  -- "Returns an error if `max < mode`, `mode < min`,
  ¬ max < mode ∧ ¬ mode < min ∧
  --  or `max == min`."
  ¬ (max == min) = true
def ErrDoc (min max mode : XR) : TriangularError → Prop
  -- "The minimum is NaN or infinite."
  | .MinInvalid => IsNaN min ∨ IsInf min
  -- "The maximum is NaN or infinite."
  | .MaxInvalid => IsNaN max ∨ IsInf max
  -- "The mode is NaN or infinite."
  | .ModeInvalid => IsNaN mode ∨ IsInf mode
  -- "The mode is less than the minimum or greater than the maximum."
  | .ModeOutOfRange => mode < min ∨ max < mode
  -- "The minimum equals the maximum."
  | .MinEqualsMax => (min == max) = true
noncomputable def docErr (min max mode : XR) : TriangularError :=
  if ErrDoc min max mode .MinInvalid then .MinInvalid
  else if ErrDoc min max mode .MaxInvalid then .MaxInvalid
  else if ErrDoc min max mode .ModeInvalid then .ModeInvalid
  else if ErrDoc min max mode .ModeOutOfRange then .ModeOutOfRange
  else .MinEqualsMax
end Triangular

/-! ## Uniform — src/distribution/uniform.rs -/
namespace Uniform
def Domain (min max : XR) : Prop :=
  -- "Returns an error if `min` or `max` are `NaN` or infinite."
  (¬ IsNaN min ∧ ¬ IsInf min) ∧ (¬ IsNaN max ∧ ¬ IsInf max) ∧
  -- "Returns an error if `min >= max`."
  ¬ max ≤ min
def ErrDoc (min max : XR) : UniformError → Prop
  -- "The minimum is NaN or infinite."
  | .MinInvalid => IsNaN min ∨ IsInf min
  -- "The maximum is NaN or infinite."
  | .MaxInvalid => IsNaN max ∨ IsInf max
  -- "The maximum is not greater than the minimum."
  | .MaxNotGreaterThanMin => ¬ min < max
noncomputable def docErr (min max : XR) : UniformError :=
  if ErrDoc min max .MinInvalid then .MinInvalid
  else if ErrDoc min max .MaxInvalid then .MaxInvalid
  else .MaxNotGreaterThanMin
end Uniform

/-! ## Weibull — src/distribution/weibull.rs -/
namespace Weibull
def Domain (shape scale : XR) : Prop :=
  -- "Returns an error if `shape` or `scale` are `NaN`."
  ¬ IsNaN shape ∧ ¬ IsNaN scale ∧
  -- "Returns an error if `shape <= 0.0` or `scale <= 0.0`"
  ¬ shape ≤ z ∧ ¬ scale ≤ z
def ErrDoc (shape scale : XR) : WeibullError → Prop
  -- "The shape is NaN, zero or less than zero."
  | .ShapeInvalid => IsNaN shape ∨ shape ≤ z
  -- "The scale is NaN, zero or less than zero."
  | .ScaleInvalid => IsNaN scale ∨ scale ≤ z
noncomputable def docErr (shape scale : XR) : WeibullError :=
  if ErrDoc shape scale .ShapeInvalid then .ShapeInvalid else .ScaleInvalid
end Weibull

end Statrs.Spec.Dom
