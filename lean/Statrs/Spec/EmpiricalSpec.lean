/-
  Statrs.Spec.EmpiricalSpec — the reference semantics for property C15: an empirical
  distribution is nothing but the MULTISET of the values currently held.  Histories of
  `add`/`remove` calls are interpreted on `Multiset ℝ`, and the observations are the textbook
  ones computed from that multiset (nothing streaming, nothing shared with the model).
-/
import Mathlib.Data.Real.Basic
import Mathlib.Data.Multiset.Filter
import Mathlib.Data.Multiset.Replicate
import Mathlib.Algebra.BigOperators.Group.Multiset.Basic
import Mathlib.Order.Bounds.Basic
namespace Statrs.Spec.EmpiricalSpec

/-- one call on an `Empirical` -/
inductive Op (β : Type) where
  | add (v : β)
  | remove (v : β)

/-- effect of one call on the multiset held: `add` inserts one copy (over ℝ there is no NaN),
    `remove` erases ONE copy if there is one and does nothing otherwise -/
noncomputable def step (m : Multiset ℝ) : Op ℝ → Multiset ℝ
  | Op.add v => v ::ₘ m
  | Op.remove v => m.erase v

/-- the multiset of values held after the history `ops` (oldest call first), from empty -/
noncomputable def surviving (ops : List (Op ℝ)) : Multiset ℝ := ops.foldl step 0

/-- number of values held, as a real -/
noncomputable def count (m : Multiset ℝ) : ℝ := (Multiset.card m : ℝ)

/-- sample mean `(Σ x) / n` -/
noncomputable def mean (m : Multiset ℝ) : ℝ := m.sum / count m

/-- sum of squared deviations `Σ (x - x̄)²` -/
noncomputable def ssd (m : Multiset ℝ) : ℝ := (m.map (fun x => (x - mean m) ^ 2)).sum

/-- `(n-1)`-normalised sample variance `Σ (x - x̄)² / (n - 1)` -/
noncomputable def variance (m : Multiset ℝ) : ℝ := ssd m / (count m - 1)

/-- empirical cdf `#{y ∈ m | y ≤ x} / n` -/
noncomputable def cdf (m : Multiset ℝ) (x : ℝ) : ℝ :=
  (Multiset.card (m.filter (fun y => y ≤ x)) : ℝ) / count m

/-- empirical survival function `#{y ∈ m | x < y} / n` -/
noncomputable def sf (m : Multiset ℝ) (x : ℝ) : ℝ :=
  (Multiset.card (m.filter (fun y => x < y)) : ℝ) / count m

/-- `a` is the minimum of the values held -/
def IsMin (m : Multiset ℝ) (a : ℝ) : Prop := IsLeast {x | x ∈ m} a

/-- `a` is the maximum of the values held -/
def IsMax (m : Multiset ℝ) (a : ℝ) : Prop := IsGreatest {x | x ∈ m} a

end Statrs.Spec.EmpiricalSpec
