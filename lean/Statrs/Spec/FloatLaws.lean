/-
  Statrs.Spec.FloatLaws — the laws of a *correctly rounded, monotone* floating-point carrier.

  The theorems over ℝ say nothing about rounding.  The statements of C01/C02/C03/C13/C15 ("never NaN",
  "in [0,1]", "never decreases", "for every float argument incl. the ULP neighbours of the end points")
  are, however, about IEEE `f64`.  For code that uses only `+ - * /`, comparisons and literals these
  facts do not need an error analysis: they follow from the *order-theoretic* content of IEEE-754
  round-to-nearest — every operation is a monotone function of each operand (rounding is monotone),
  is exact on the few identities listed below, and produces NaN only from NaN / ∞−∞ / 0·∞ / 0÷0 / ∞÷∞.

  This file states exactly those laws as hypothesis structures over an arbitrary carrier `α`
  (unbundled operators + `RFun α`, like every model definition).  They are import-free.
    * `Props/Common/FloatLawsReal.lean`  — ℝ (and XR) satisfy them            (non-vacuity)
    * `Props/Common/FloatLawsFloat*.lean` — Lean's IEEE `Float` (`Float.Model`) satisfies them
    * `Props/C01/FloatRange*.lean` …      — theorems for every carrier satisfying them.

  Each law has been checked against IEEE-754 binary64 by hand for the signed-zero and infinite
  cases; the comment after each field says why it is true there.
-/
import Statrs.Basic
namespace Statrs.Spec
open Statrs

variable (α : Type) [Add α] [Sub α] [Mul α] [Div α] [Neg α] [LT α] [LE α] [BEq α]
  [OfScientific α] [RFun α]

/-- `x` is not a NaN -/
abbrev NN {α : Type} [RFun α] (x : α) : Prop := RFun.isNaN x = false
/-- `x` is finite (neither NaN nor ±∞) -/
abbrev Fin {α : Type} [RFun α] (x : α) : Prop := RFun.isFinite x = true

/-- IEEE comparison: a total preorder on the non-NaN values (−0 and +0 are equivalent),
    every comparison with a NaN is false. -/
structure OrderLaws : Prop where
  le_refl : ∀ a : α, NN a → a ≤ a
  le_trans : ∀ a b c : α, a ≤ b → b ≤ c → a ≤ c
  le_total : ∀ a b : α, NN a → NN b → a ≤ b ∨ b ≤ a
  /-- `<` is the strict part of `≤` (both sides are false when a NaN is involved) -/
  lt_iff : ∀ a b : α, a < b ↔ (a ≤ b ∧ ¬ b ≤ a)
  /-- `==` is the equivalence of `≤` (so `-0.0 == 0.0`, and `NaN == x` is false) -/
  beq_iff : ∀ a b : α, (a == b) = true ↔ (a ≤ b ∧ b ≤ a)
  le_nn_left : ∀ a b : α, a ≤ b → NN a
  le_nn_right : ∀ a b : α, a ≤ b → NN b
  fin_nn : ∀ a : α, Fin a → NN a
  /-- finite ⇔ neither NaN nor infinite -/
  fin_iff : ∀ a : α, Fin a ↔ (NN a ∧ RFun.isInf a = false)

/-- the special values (NOT satisfied by the carrier ℝ, where `RFun.inf`/`RFun.nan` are junk; satisfied by
    `XR` and `Float`) -/
structure InfLaws : Prop where
  /-- +∞ is the top and −∞ the bottom of the non-NaN values -/
  le_inf : ∀ a : α, NN a → a ≤ (RFun.inf : α)
  negInf_le : ∀ a : α, NN a → (RFun.negInf : α) ≤ a
  inf_nn : NN (RFun.inf : α)
  negInf_nn : NN (RFun.negInf : α)
  inf_isInf : RFun.isInf (RFun.inf : α) = true
  negInf_isInf : RFun.isInf (RFun.negInf : α) = true
  nan_nan : RFun.isNaN (RFun.nan : α) = true

/-- the literals the closed-form code compares against -/
structure LitLaws : Prop where
  zero_fin : Fin (0.0 : α)
  one_fin : Fin (1.0 : α)
  half_fin : Fin (0.5 : α)
  two_fin : Fin (2.0 : α)
  zero_lt_half : (0.0 : α) < 0.5
  half_lt_one : (0.5 : α) < 1.0
  one_lt_two : (1.0 : α) < 2.0

/-- Monotonicity of the correctly rounded operations.  All are stated for results that are not NaN
    (the only way a monotone law can fail in IEEE arithmetic). -/
structure MonoLaws : Prop where
  /-- `a ≤ b ⇒ fl(a+c) ≤ fl(b+c)`: the exact sums are ordered and rounding is monotone; with
      infinite operands the non-NaN sums are −∞ ≤ · or · ≤ +∞ -/
  add_le_add_right : ∀ a b c : α, a ≤ b → NN (a + c) → NN (b + c) → a + c ≤ b + c
  add_le_add_left : ∀ a b c : α, a ≤ b → NN (c + a) → NN (c + b) → c + a ≤ c + b
  sub_le_sub_right : ∀ a b c : α, a ≤ b → NN (a - c) → NN (b - c) → a - c ≤ b - c
  sub_le_sub_left : ∀ a b c : α, a ≤ b → NN (c - a) → NN (c - b) → c - b ≤ c - a
  /-- multiplication by a non-negative factor (including ±0 and +∞ when the products are not NaN) -/
  mul_le_mul_right : ∀ a b c : α, a ≤ b → (0.0 : α) ≤ c → NN (a * c) → NN (b * c) → a * c ≤ b * c
  mul_le_mul_left : ∀ a b c : α, a ≤ b → (0.0 : α) ≤ c → NN (c * a) → NN (c * b) → c * a ≤ c * b
  /-- division by a positive divisor -/
  div_le_div_right : ∀ a b c : α, a ≤ b → (0.0 : α) < c → NN (a / c) → NN (b / c) → a / c ≤ b / c
  /-- a non-negative numerator divided by a larger positive divisor is not larger -/
  div_le_div_left : ∀ a b c : α, (0.0 : α) < a → a ≤ b → (0.0 : α) ≤ c → NN (c / a) → NN (c / b) →
    c / b ≤ c / a
  neg_le_neg : ∀ a b : α, a ≤ b → -b ≤ -a
  sqrt_le_sqrt : ∀ a b : α, (0.0 : α) ≤ a → a ≤ b → RFun.sqrt a ≤ RFun.sqrt b

/-- The exact cases of IEEE arithmetic that closed-form code relies on (`==` is IEEE equality). -/
structure ExactLaws : Prop where
  /-- `x − x = +0` for finite `x` -/
  sub_self : ∀ x : α, Fin x → ((x - x) == (0.0 : α)) = true
  /-- `x ÷ x = 1` for finite non-zero `x` (the quotient is exactly representable) -/
  div_self : ∀ x : α, Fin x → ¬ ((x == (0.0 : α)) = true) → ((x / x) == (1.0 : α)) = true
  add_zero : ∀ x : α, NN x → ((x + (0.0 : α)) == x) = true
  zero_add : ∀ x : α, NN x → (((0.0 : α) + x) == x) = true
  sub_zero : ∀ x : α, NN x → ((x - (0.0 : α)) == x) = true
  mul_one : ∀ x : α, NN x → ((x * (1.0 : α)) == x) = true
  one_mul : ∀ x : α, NN x → (((1.0 : α) * x) == x) = true
  div_one : ∀ x : α, NN x → ((x / (1.0 : α)) == x) = true
  /-- `0 ÷ x = ±0` for non-NaN non-zero `x` -/
  zero_div : ∀ x : α, NN x → ¬ ((x == (0.0 : α)) = true) → (((0.0 : α) / x) == (0.0 : α)) = true
  /-- `0 · x = ±0` for finite `x` -/
  zero_mul : ∀ x : α, Fin x → (((0.0 : α) * x) == (0.0 : α)) = true
  mul_zero : ∀ x : α, Fin x → ((x * (0.0 : α)) == (0.0 : α)) = true
  neg_neg : ∀ x : α, NN x → ((-(-x)) == x) = true
  neg_zero : ((-(0.0 : α)) == (0.0 : α)) = true
  /-- subtraction is addition of the negation (bit-exact in IEEE; stated up to `==`) -/
  sub_eq_add_neg : ∀ a b : α, NN (a - b) → ((a - b) == (a + -b)) = true
  sqrt_zero : (RFun.sqrt (0.0 : α) == (0.0 : α)) = true
  sqrt_one : (RFun.sqrt (1.0 : α) == (1.0 : α)) = true
  /-- every operation respects IEEE equality of its operands when the result is not NaN
      (±0 may change the sign of a zero or infinite result only through division) -/
  add_congr : ∀ a a' b b' : α, (a == a') = true → (b == b') = true → NN (a + b) →
    ((a + b) == (a' + b')) = true
  sub_congr : ∀ a a' b b' : α, (a == a') = true → (b == b') = true → NN (a - b) →
    ((a - b) == (a' - b')) = true
  mul_congr : ∀ a a' b b' : α, (a == a') = true → (b == b') = true → NN (a * b) →
    ((a * b) == (a' * b')) = true

/-- When an operation returns NaN (exactly the IEEE invalid-operation cases). -/
structure NaNLaws : Prop where
  add_nan : ∀ a b : α, RFun.isNaN (a + b) = true →
    RFun.isNaN a = true ∨ RFun.isNaN b = true ∨ (RFun.isInf a = true ∧ RFun.isInf b = true)
  sub_nan : ∀ a b : α, RFun.isNaN (a - b) = true →
    RFun.isNaN a = true ∨ RFun.isNaN b = true ∨ (RFun.isInf a = true ∧ RFun.isInf b = true)
  mul_nan : ∀ a b : α, RFun.isNaN (a * b) = true →
    RFun.isNaN a = true ∨ RFun.isNaN b = true ∨
      ((a == (0.0 : α)) = true ∧ RFun.isInf b = true) ∨ (RFun.isInf a = true ∧ (b == (0.0 : α)) = true)
  div_nan : ∀ a b : α, RFun.isNaN (a / b) = true →
    RFun.isNaN a = true ∨ RFun.isNaN b = true ∨
      ((a == (0.0 : α)) = true ∧ (b == (0.0 : α)) = true) ∨ (RFun.isInf a = true ∧ RFun.isInf b = true)
  neg_nan : ∀ a : α, RFun.isNaN (-a) = RFun.isNaN a
  neg_inf : ∀ a : α, RFun.isInf (-a) = RFun.isInf a
  sqrt_nan : ∀ a : α, RFun.isNaN (RFun.sqrt a) = true → RFun.isNaN a = true ∨ a < (0.0 : α)
  /-- NaN operands give NaN results -/
  nan_add : ∀ a b : α, RFun.isNaN a = true ∨ RFun.isNaN b = true → RFun.isNaN (a + b) = true
  nan_sub : ∀ a b : α, RFun.isNaN a = true ∨ RFun.isNaN b = true → RFun.isNaN (a - b) = true
  nan_mul : ∀ a b : α, RFun.isNaN a = true ∨ RFun.isNaN b = true → RFun.isNaN (a * b) = true
  nan_div : ∀ a b : α, RFun.isNaN a = true ∨ RFun.isNaN b = true → RFun.isNaN (a / b) = true
  /-- an infinite quotient of finite operands needs a zero or overflow; what is used is only:
      a finite numerator over an infinite divisor is a zero -/
  div_inf : ∀ a b : α, Fin a → RFun.isInf b = true → ((a / b) == (0.0 : α)) = true

/-- integer → float conversion (`as f64`): monotone, exact on small integers -/
structure OfIntLaws : Prop where
  /-- stated for the 64-bit range only (every Rust integer that is ever converted): the executable carrier
      replaces astronomically large integers (|i| ≥ 2^190, the model's panic sentinels) by a NaN -/
  ofInt_mono : ∀ i j : Int, -(2 ^ 64 : Int) ≤ i → i ≤ j → j ≤ 2 ^ 64 → (RFun.ofInt i : α) ≤ RFun.ofInt j
  ofInt_zero : ((RFun.ofInt 0 : α) == (0.0 : α)) = true
  ofInt_one : ((RFun.ofInt 1 : α) == (1.0 : α)) = true
  /-- every 64-bit integer converts to a finite value -/
  ofInt_fin : ∀ i : Int, -(2 ^ 64 : Int) ≤ i → i ≤ 2 ^ 64 → Fin (RFun.ofInt i : α)

/-- All of the above. -/
structure FloatLaws : Prop where
  ord : OrderLaws α
  inf : InfLaws α
  lit : LitLaws α
  mono : MonoLaws α
  exact : ExactLaws α
  nan : NaNLaws α
  ofInt : OfIntLaws α

/-- Premises about the libm calls (opaque in Lean, glibc in the implementation).  These are NOT
    consequences of IEEE-754 (libm functions are not correctly rounded); theorems that use them are
    named `…_libm`.  glibc documents < 1 ulp error and, for `exp`/`log`, monotonicity is generally
    believed but is an assumption here. -/
structure LibmLaws : Prop where
  exp_mono : ∀ a b : α, a ≤ b → RFun.exp a ≤ RFun.exp b
  exp_nonneg : ∀ a : α, NN a → (0.0 : α) ≤ RFun.exp a
  exp_zero : (RFun.exp (0.0 : α) == (1.0 : α)) = true
  exp_negInf : (RFun.exp (RFun.negInf : α) == (0.0 : α)) = true
  exp_nan : ∀ a : α, RFun.isNaN (RFun.exp a) = RFun.isNaN a
  ln_mono : ∀ a b : α, (0.0 : α) ≤ a → a ≤ b → RFun.ln a ≤ RFun.ln b
  ln_one : (RFun.ln (1.0 : α) == (0.0 : α)) = true
  ln_nan : ∀ a : α, RFun.isNaN (RFun.ln a) = true → RFun.isNaN a = true ∨ a < (0.0 : α)
  atan_mono : ∀ a b : α, a ≤ b → RFun.atan a ≤ RFun.atan b
  atan_nan : ∀ a : α, RFun.isNaN (RFun.atan a) = RFun.isNaN a
  /-- `|atan x| ≤ π/2` with the crate's `FRAC_PI_2` constant -/
  atan_le : ∀ a : α, NN a → RFun.atan a ≤ (RFun.fracPi2 : α)
  neg_le_atan : ∀ a : α, NN a → -(RFun.fracPi2 : α) ≤ RFun.atan a
  expm1_mono : ∀ a b : α, a ≤ b → RFun.expm1 a ≤ RFun.expm1 b
  ln1p_mono : ∀ a b : α, -(1.0 : α) ≤ a → a ≤ b → RFun.ln1p a ≤ RFun.ln1p b

end Statrs.Spec
