/-
  C11 — BRANCH TABLES of the function layer (src/function/*.rs), written by hand as data.

  The special functions are piecewise numerical approximations: rational approximations on
  intervals with literal cut points, a series switched against a continued fraction at a literal
  threshold, reflection below a threshold, an asymptotic expansion above one.  Accuracy against
  the true functions is decided by the reference-table search; what is written down HERE is the
  branch structure itself — for each function the ORDERED list of guards with their LITERAL cut
  points and a NAME for what is computed on each piece — so that the pin theorems of
  `Statrs/Props/C11/BranchPins{Erf,Gamma,Beta,Misc}.lean` can state

      under the guards of piece k, the generated function IS the named expression of piece k

  and `generated function = firstMatch table` for the whole table.  Any change of a literal cut
  point, of the order of the guards, of the coefficient table that serves an interval, of a
  tolerance / iteration limit of an iterative piece, or of a table length breaks one of them.

  How to read a table: `firstMatch [⟨name₁, guard₁, value₁⟩, …, ⟨nameₙ, guardₙ, valueₙ⟩] otherwise`
  is Rust's `if guard₁ { value₁ } else if … else { otherwise }`.  Guards are written with the
  model's own primitives (`z < (0.5 : α)`; Rust `>`/`>=` appear flipped, as in the generated code).
  Nothing here needs an ordered field: the tables are meaningful on every carrier α (also IEEE
  doubles, where `¬ z < c` does NOT imply `c ≤ z` — a NaN falls through every `<` guard).
-/
import Statrs.Gen.F_erf
import Statrs.Gen.F_gamma
import Statrs.Gen.F_beta
import Statrs.Gen.F_factorial
import Statrs.Gen.F_harmonic
import Statrs.Gen.F_logistic
import Statrs.Gen.F_exponential
import Statrs.Gen.F_evaluate
import Statrs.Model.FHand
namespace Statrs.Spec.FunctionBranches
open Statrs Statrs.Gen

/-! ## the table language -/

/-- one row of an ordered branch table: `if guard { value }` -/
structure Row (β : Type) where
  /-- label of the piece (documentation only) -/
  name : String
  /-- the guard, written with the literal cut point -/
  guard : Prop
  [dec : Decidable guard]
  /-- what is computed on the piece -/
  value : β

/-- first row whose guard holds; `otherwise` when none does (`if … else if … else`) -/
def firstMatch {β : Type} : List (Row β) → β → β
  | [], otherwise => otherwise
  | r :: rs, otherwise => @ite β r.guard r.dec r.value (firstMatch rs otherwise)

/-- the labels of a table, in guard order -/
def labels {β : Type} (t : List (Row β)) : List String := t.map (·.name)

section generic
variable {α : Type} [Add α] [Sub α] [Mul α] [Div α] [Neg α] [LT α] [LE α] [BEq α]
  [DecidableLT α] [DecidableLE α] [OfScientific α] [Inhabited α] [RFun α]

/-! ## src/function/evaluate.rs -/

/-- evaluate.rs:13–23 — Horner evaluation, constant term FIRST in the table:
    `polynomial z [c₀, c₁, …, cₖ] = c₀ + z·(c₁ + z·(… + z·cₖ))`; the empty table gives `0.0`;
    a one-entry table gives the entry itself (no `+ z·0`). -/
def horner (z : α) : List α → α
  | [] => (0.0 : α)
  | [c] => c
  | c :: cs => c + z * horner z cs

/-! ## src/function/erf.rs -/

/-- erf.rs:594–596 — `z < 1e-10`: two-term linear form `z·1.125 + z·c`, c = 0.0033791670955125738961… -/
def erfLinear (z : α) : α :=
  (z * (1.125 : α)) + (z * (0.003379167095512573896158903121545171688 : α))

/-- erf.rs:597–600 — `1e-10 ≤ z < 0.5`: `z·1.125 + z·P_A(z)/Q_A(z)` with tables `ERF_IMPL_AN / _AD` -/
def erfRatA (z : α) : α :=
  (z * (1.125 : α)) + ((z * F.evaluate.polynomial z (F.erf.ERF_IMPL_AN (α := α)))
    / F.evaluate.polynomial z (F.erf.ERF_IMPL_AD (α := α)))

/-- erf.rs:602–680 — the shape shared by the 13 pieces of `[0.5, 110)`:
    `erfc z ≈ exp(−z²)/z · (b + N(z − shift)/D(z − shift))`, computed as `g·b + g·r`. -/
def erfcTail (z shift b : α) (num den : List α) : α :=
  let r := F.evaluate.polynomial (z - shift) num / F.evaluate.polynomial (z - shift) den
  let g := RFun.exp ((-z) * z) / z
  (g * b) + (g * r)

/-- one rational piece of `erf_impl` on `[lo, hi)` -/
structure ErfcPiece (α : Type) where
  name : String
  /-- left end of the interval = the shift subtracted from `z` before the polynomials -/
  lo : α
  /-- right end = the literal of the guard `z < hi` -/
  hi : α
  /-- the additive constant `b` -/
  b : α
  num : List α
  den : List α

/-- erf.rs:603–668 — the 12 GUARDED pieces of `[0.5, 85)`, in guard order -/
def erfcPieces : List (ErfcPiece α) :=
  [ ⟨"B", 0.5,  0.75, 0.3440242112, F.erf.ERF_IMPL_BN, F.erf.ERF_IMPL_BD⟩,
    ⟨"C", 0.75, 1.25, 0.419990927,  F.erf.ERF_IMPL_CN, F.erf.ERF_IMPL_CD⟩,
    ⟨"D", 1.25, 2.25, 0.4898625016, F.erf.ERF_IMPL_DN, F.erf.ERF_IMPL_DD⟩,
    ⟨"E", 2.25, 3.5,  0.5317370892, F.erf.ERF_IMPL_EN, F.erf.ERF_IMPL_ED⟩,
    ⟨"F", 3.5,  5.25, 0.5489973426, F.erf.ERF_IMPL_FN, F.erf.ERF_IMPL_FD⟩,
    ⟨"G", 5.25, 8.0,  0.5571740866, F.erf.ERF_IMPL_GN, F.erf.ERF_IMPL_GD⟩,
    ⟨"H", 8.0,  11.5, 0.5609807968, F.erf.ERF_IMPL_HN, F.erf.ERF_IMPL_HD⟩,
    ⟨"I", 11.5, 17.0, 0.5626493692, F.erf.ERF_IMPL_IN, F.erf.ERF_IMPL_ID⟩,
    ⟨"J", 17.0, 24.0, 0.5634598136, F.erf.ERF_IMPL_JN, F.erf.ERF_IMPL_JD⟩,
    ⟨"K", 24.0, 38.0, 0.5638477802, F.erf.ERF_IMPL_KN, F.erf.ERF_IMPL_KD⟩,
    ⟨"L", 38.0, 60.0, 0.5640528202, F.erf.ERF_IMPL_LN, F.erf.ERF_IMPL_LD⟩,
    ⟨"M", 60.0, 85.0, 0.5641309023, F.erf.ERF_IMPL_MN, F.erf.ERF_IMPL_MD⟩ ]

/-- erf.rs:669–675 — the last piece `[85, 110)`: the `else` of the inner chain; its right end `110`
    is the OUTER guard `z < 110.0` (erf.rs:602), tested before the inner chain -/
def erfcLastPiece : ErfcPiece α :=
  ⟨"N", 85.0, 110.0, 0.5641584396, F.erf.ERF_IMPL_NN, F.erf.ERF_IMPL_ND⟩

/-- value of a piece at `z` -/
def ErfcPiece.eval (p : ErfcPiece α) (z : α) : α := erfcTail z p.lo p.b p.num p.den

/-- erf.rs:603–680 — inner chain: first piece with `z < hi`, else piece N -/
def erfImplTail (z : α) : α :=
  firstMatch ((erfcPieces (α := α)).map fun p => ⟨p.name, z < p.hi, p.eval z⟩)
    ((erfcLastPiece (α := α)).eval z)

/-- erf.rs:593–680 — `result` for `z` not below 0 -/
def erfImplResult (z : α) : α :=
  firstMatch
    [ ⟨"A: z < 0.5 (erf computed directly)", z < (0.5 : α),
        firstMatch [⟨"A0: z < 1e-10 (linear)", z < (1e-10 : α), erfLinear z⟩] (erfRatA z)⟩,
      ⟨"B..N: z < 110 (erfc computed)", z < (110.0 : α), erfImplTail z⟩ ]
    (0.0 : α)   -- "z ≥ 110 (or NaN): erfc underflows to 0"

/-- erf.rs:681–687 — final selection: for `z ≥ 0.5` `result` is erfc, below it is erf -/
def erfSelect (z : α) (inv : Bool) (result : α) : α :=
  firstMatch
    [ ⟨"inv ∧ z ≥ 0.5: erfc wanted, erfc computed", (inv = true) ∧ ((0.5 : α) ≤ z), result⟩,
      ⟨"z ≥ 0.5 ∨ inv: complement", ((0.5 : α) ≤ z) ∨ (inv = true), (1.0 : α) - result⟩ ]
    result

/-- erf.rs:572–687 — one level of `erf_impl`; `rec` is the recursive call -/
def erfImplSpec (rec : α → Bool → α) (z : α) (inv : Bool) : α :=
  firstMatch
    [ ⟨"z < 0: reflection", z < (0.0 : α),
        firstMatch
          [ ⟨"!inv: erf(z) = −erf(−z)", ¬ (inv = true), -(rec (-z) false)⟩,
            ⟨"z < −0.5: erfc(z) = 2 − erfc(−z)", z < (-(0.5 : α)), (2.0 : α) - rec (-z) true⟩ ]
          ((1.0 : α) + rec (-z) false)⟩ ]   -- "−0.5 ≤ z < 0: erfc(z) = 1 + erf(−z)"
    (erfSelect z inv (erfImplResult z))

/-- erf.rs:8–21 -/
def erfSpec (x : α) : α :=
  firstMatch
    [ ⟨"NaN", RFun.isNaN x = true, (RFun.nan : α)⟩,
      ⟨"+inf", ((0.0 : α) ≤ x) ∧ (RFun.isInf x = true), (1.0 : α)⟩,
      ⟨"−inf", (x ≤ (0.0 : α)) ∧ (RFun.isInf x = true), -(1.0 : α)⟩,
      ⟨"x == 0", (x == (0.0 : α)) = true, (0.0 : α)⟩ ]
    (F.erf.erf_impl x false)

/-- erf.rs:40–51 -/
def erfcSpec (x : α) : α :=
  firstMatch
    [ ⟨"NaN", RFun.isNaN x = true, (RFun.nan : α)⟩,
      ⟨"x == +inf", (x == (RFun.inf : α)) = true, (0.0 : α)⟩,
      ⟨"x == −inf", (x == (RFun.negInf : α)) = true, (2.0 : α)⟩ ]
    (F.erf.erf_impl x true)

/-- erf.rs:24–37 — `erf_inv`: `(p, q, s) = (|x|, 1 − |x|, sign x)` -/
def erfInvSpec (x : α) : α :=
  firstMatch
    [ ⟨"x == 0", (x == (0.0 : α)) = true, (0.0 : α)⟩,
      ⟨"x ≥ 1", (1.0 : α) ≤ x, (RFun.inf : α)⟩,
      ⟨"x ≤ −1", x ≤ (-(1.0 : α)), (RFun.negInf : α)⟩,
      ⟨"x < 0", x < (0.0 : α), F.erf.erf_inv_impl (-x) ((1.0 : α) + x) (-(1.0 : α))⟩ ]
    (F.erf.erf_inv_impl x ((1.0 : α) - x) (1.0 : α))

/-- erf.rs:54–66 — `erfc_inv`: `(p, q, s) = (|1 − x|, min(x, 2 − x), sign(1 − x))` -/
def erfcInvSpec (x : α) : α :=
  firstMatch
    [ ⟨"x ≤ 0", x ≤ (0.0 : α), (RFun.inf : α)⟩,
      ⟨"x ≥ 2", (2.0 : α) ≤ x, (RFun.negInf : α)⟩,
      ⟨"x > 1", (1.0 : α) < x, F.erf.erf_inv_impl ((-(1.0 : α)) + x) ((2.0 : α) - x) (-(1.0 : α))⟩ ]
    (F.erf.erf_inv_impl ((1.0 : α) - x) x (1.0 : α))

/-- erf.rs:690–694 — `p ≤ 0.5`: `g·y + g·R_A(p)`, `g = p(p + 10)`, `y = 0.0891314744949340820313` -/
def erfInvCentral (p : α) : α :=
  let y := (0.0891314744949340820313 : α)
  let g := p * (p + (10.0 : α))
  let r := F.evaluate.polynomial p (F.erf.ERF_INV_IMPL_AN (α := α))
    / F.evaluate.polynomial p (F.erf.ERF_INV_IMPL_AD (α := α))
  (g * y) + (g * r)

/-- erf.rs:695–701 — `q ≥ 0.25`: `g/(y + R_B(q − 0.25))`, `g = √(−2 ln q)`, `y = 2.249481201171875` -/
def erfInvMiddle (q : α) : α :=
  let y := (2.249481201171875 : α)
  let g := RFun.sqrt ((-(2.0 : α)) * RFun.ln q)
  let xs := q - (0.25 : α)
  let r := F.evaluate.polynomial xs (F.erf.ERF_INV_IMPL_BN (α := α))
    / F.evaluate.polynomial xs (F.erf.ERF_INV_IMPL_BD (α := α))
  g / (y + r)

/-- erf.rs:703–738 — the shape of the five tail pieces in `x = √(−ln q)`: `y·x + R(x − shift)·x` -/
def erfInvTail (x y shift : α) (num den : List α) : α :=
  let xs := x - shift
  let r := F.evaluate.polynomial xs num / F.evaluate.polynomial xs den
  (y * x) + (r * x)

/-- one tail piece of `erf_inv_impl` -/
structure ErfInvPiece (α : Type) where
  name : String
  /-- guard `x < hi` -/
  hi : α
  /-- shift subtracted from `x` -/
  shift : α
  /-- the multiplicative constant `y` -/
  y : α
  num : List α
  den : List α

/-- erf.rs:704–731 — the 4 GUARDED tail pieces, in guard order (note: piece C shifts by 1.125, not by
    its left end) -/
def erfInvPieces : List (ErfInvPiece α) :=
  [ ⟨"C", 3.0,  1.125, 0.807220458984375,       F.erf.ERF_INV_IMPL_CN, F.erf.ERF_INV_IMPL_CD⟩,
    ⟨"D", 6.0,  3.0,   0.93995571136474609375,  F.erf.ERF_INV_IMPL_DN, F.erf.ERF_INV_IMPL_DD⟩,
    ⟨"E", 18.0, 6.0,   0.98362827301025390625,  F.erf.ERF_INV_IMPL_EN, F.erf.ERF_INV_IMPL_ED⟩,
    ⟨"F", 44.0, 18.0,  0.99714565277099609375,  F.erf.ERF_INV_IMPL_FN, F.erf.ERF_INV_IMPL_FD⟩ ]

/-- erf.rs:732–737 — `x ≥ 44`: the `else` piece -/
def erfInvLastShift : α := 44.0
def erfInvLastY : α := 0.99941349029541015625

def ErfInvPiece.eval (p : ErfInvPiece α) (x : α) : α := erfInvTail x p.y p.shift p.num p.den

/-- erf.rs:688–741 -/
def erfInvImplSpec (p q s : α) : α :=
  let x := RFun.sqrt (-(RFun.ln q))
  s * firstMatch
    [ ⟨"A: p ≤ 0.5", p ≤ (0.5 : α), erfInvCentral p⟩,
      ⟨"B: q ≥ 0.25", (0.25 : α) ≤ q, erfInvMiddle q⟩ ]
    (firstMatch ((erfInvPieces (α := α)).map fun pc => ⟨pc.name, x < pc.hi, pc.eval x⟩)
      (erfInvTail x erfInvLastY erfInvLastShift (F.erf.ERF_INV_IMPL_GN (α := α)) (F.erf.ERF_INV_IMPL_GD (α := α))))

/-! ## src/function/gamma.rs — gamma, ln_gamma -/

/-- gamma.rs:57–63 / 72–77 — the Lanczos partial-fraction sum `dk₀ + Σ_{k=1..10} dk_k / den k` over
    the 11-entry table `GAMMA_DK` (`den k = k − x` on the reflection side, `x + k − 1` otherwise) -/
def lanczosSum (den : Int → α) : α :=
  List.foldl (fun s t => s + (t.2 / den t.1)) (listGet (F.gamma.GAMMA_DK (α := α)) (0 : Int))
    (List.drop (Int.toNat (1 : Int)) (listEnum (F.gamma.GAMMA_DK (α := α))))

/-- gamma.rs:86–97 — `x < 0.5`: reflection `π / (sin(πx) · S · 2√(e/π) · ((0.5 − x + r)/e)^(0.5 − x))` -/
def gammaReflection (x : α) : α :=
  let s := lanczosSum fun k => (RFun.ofInt k : α) - x
  (RFun.pi : α) / ((((RFun.sin ((RFun.pi : α) * x)) * s) * (RFun.c_TWO_SQRT_E_OVER_PI : α))
    * (RFun.pow ((((0.5 : α) - x) + (F.gamma.GAMMA_R (α := α))) / (RFun.e : α)) ((0.5 : α) - x)))

/-- gamma.rs:98–106 — `x ≥ 0.5`: Lanczos `S · 2√(e/π) · ((x − 0.5 + r)/e)^(x − 0.5)`, r = `GAMMA_R` -/
def gammaLanczos (x : α) : α :=
  let s := lanczosSum fun k => (x + (RFun.ofInt k : α)) - (1.0 : α)
  (s * (RFun.c_TWO_SQRT_E_OVER_PI : α))
    * (RFun.pow (((x - (0.5 : α)) + (F.gamma.GAMMA_R (α := α))) / (RFun.e : α)) (x - (0.5 : α)))

/-- gamma.rs:85–107 -/
def gammaSpec (x : α) : α :=
  firstMatch [⟨"x < 0.5: reflection", x < (0.5 : α), gammaReflection x⟩] (gammaLanczos x)

/-- gamma.rs:56–68 — `x < 0.5`: `ln π − ln sin(πx) − ln S − ln(2√(e/π)) − (0.5 − x)·ln((0.5 − x + r)/e)` -/
def lnGammaReflection (x : α) : α :=
  let s := lanczosSum fun k => (RFun.ofInt k : α) - x
  ((((RFun.c_LN_PI : α) - (RFun.ln (RFun.sin ((RFun.pi : α) * x)))) - (RFun.ln s))
      - (RFun.c_LN_2_SQRT_E_OVER_PI : α))
    - (((0.5 : α) - x) * (RFun.ln ((((0.5 : α) - x) + (F.gamma.GAMMA_R (α := α))) / (RFun.e : α))))

/-- gamma.rs:69–80 — `x ≥ 0.5`: `ln S + ln(2√(e/π)) + (x − 0.5)·ln((x − 0.5 + r)/e)` -/
def lnGammaLanczos (x : α) : α :=
  let s := lanczosSum fun k => (x + (RFun.ofInt k : α)) - (1.0 : α)
  ((RFun.ln s) + (RFun.c_LN_2_SQRT_E_OVER_PI : α))
    + ((x - (0.5 : α)) * (RFun.ln (((x - (0.5 : α)) + (F.gamma.GAMMA_R (α := α))) / (RFun.e : α))))

/-- gamma.rs:55–81 -/
def lnGammaSpec (x : α) : α :=
  firstMatch [⟨"x < 0.5: reflection", x < (0.5 : α), lnGammaReflection x⟩] (lnGammaLanczos x)

/-! ## src/function/gamma.rs — regularised incomplete gamma P(a,x), Q(a,x) -/

/-- gamma.rs:292 / 198 — relative tolerance of the series and of both continued fractions -/
def gammaIncEps : α := 0.000000000000001
/-- gamma.rs:293 / 199 — rescaling threshold `2^52` of the continued fraction -/
def gammaIncBig : α := 4503599627370496.0
/-- gamma.rs:294 / 200 — `2^-52` -/
def gammaIncBigInv : α := 2.22044604925031308085e-16
/-- gamma.rs:304 / 207 — `a·ln x − x − ln Γ(a)`, the log of the common prefactor -/
def gammaIncAx (a x : α) : α := ((a * (RFun.ln x)) - x) - (F.gamma.ln_gamma a)
/-- gamma.rs:305 / 208 — underflow cut of `exp ax` -/
def gammaIncUnderflow : α := -(709.78271289338399 : α)

/-- gamma.rs:315–323 — one step of the series `Σ xⁿ/(a+1)…(a+n)`: state `(r2, c2, ans2)` -/
def gammaSeriesStep (x : α) (s : α × α × α) : α × α × α :=
  let r2 := s.1 + (1.0 : α)
  let c2 := s.2.1 * (x / r2)
  (r2, c2, s.2.2 + c2)
/-- gamma.rs:320 — the series stops when `c2 / ans2 ≤ eps` -/
abbrev gammaSeriesStop (eps : α) (s : α × α × α) : Prop := (s.2.1 / s.2.2) ≤ eps

/-- result of the series piece from the loop outcome (gamma.rs:324): `exp(ax)·ans2 / a` -/
def gammaLrSeriesOut (ax a : α) : LoopR (Except GammaFuncError α) (α × α × α) → Except GammaFuncError α
  | .ret v => v
  | .hang => panicV
  | .done (_, _, ans2) => .ok (((RFun.exp ax) * ans2) / a)

/-- result of the continued-fraction piece of `checked_gamma_lr` (gamma.rs:369): `1 − exp(ax)·ans` -/
def gammaLrCfOut (ax : α) :
    LoopR (Except GammaFuncError α) (α × α × Int × α × α × α × α × α) → Except GammaFuncError α
  | .ret v => v
  | .hang => panicV
  | .done (_, _, _, _, _, _, _, ans) => .ok ((1.0 : α) - ((RFun.exp ax) * ans))

/-- result of the continued-fraction piece of `checked_gamma_ur` (gamma.rs:251): `ans · exp(ax)` -/
def gammaUrCfOut (ax : α) :
    LoopR (Except GammaFuncError α) (α × α × α × α × α × α × α × α) → Except GammaFuncError α
  | .ret v => v
  | .hang => panicV
  | .done (_, _, _, _, _, _, _, ans) => .ok (ans * (RFun.exp ax))

/-- gamma.rs:281–367 — `checked_gamma_lr a x`.  There is NO `x ≈ 0` row: the shortcut
    `almost_eq(x, 0.0, DEFAULT_F64_ACC) ⇒ Ok(0.0)` was removed from the source by commit 9f2f5b7; a small
    positive `x` goes on to the underflow test and the series (the `a ≈ 0` shortcut is still there) -/
def gammaLrSpec (a x : α) : Except GammaFuncError α :=
  let ax := gammaIncAx a x
  let y := (1.0 : α) - a
  let z := (x + y) + (1.0 : α)
  firstMatch
    [ ⟨"NaN in, Ok(NaN) out", (RFun.isNaN a = true) ∨ (RFun.isNaN x = true), .ok (RFun.nan : α)⟩,
      ⟨"a ≤ 0 ∨ a == +inf", (a ≤ (0.0 : α)) ∨ ((a == (RFun.inf : α)) = true), .error GammaFuncError.AInvalid⟩,
      ⟨"x ≤ 0 ∨ x == +inf", (x ≤ (0.0 : α)) ∨ ((x == (RFun.inf : α)) = true), .error GammaFuncError.XInvalid⟩,
      ⟨"a ≈ 0 (within DEFAULT_F64_ACC)",
        (R.prec.almost_eq a (0.0 : α) (R.prec.DEFAULT_F64_ACC (α := α))) = true, .ok (1.0 : α)⟩,
      ⟨"ax < −709.78271289338399: prefactor underflows", ax < gammaIncUnderflow,
        firstMatch [⟨"a < x", a < x, .ok (1.0 : α)⟩] (.ok (0.0 : α))⟩,
      ⟨"x ≤ 1 ∨ x ≤ a: series", (x ≤ (1.0 : α)) ∨ (x ≤ a),
        gammaLrSeriesOut ax a
          (F.gamma.checked_gamma_lr.loop1 loopFuel gammaIncEps x a (1.0 : α) (1.0 : α))⟩ ]
    -- otherwise: continued fraction for Q, returned as 1 − Q
    (gammaLrCfOut ax
      (F.gamma.checked_gamma_lr.loop3 loopFuel gammaIncBig gammaIncBigInv gammaIncEps
        y z (0 : Int) (1.0 : α) (x + (1.0 : α)) x (z * x) ((x + (1.0 : α)) / (z * x))))

/-- gamma.rs:187–252 — `checked_gamma_ur a x` (note `x < 1.0`, strict, where `checked_gamma_lr` has
    `x ≤ 1.0`; and the underflow piece returns the complementary constants) -/
def gammaUrSpec (a x : α) : Except GammaFuncError α :=
  let ax := gammaIncAx a x
  let y := (1.0 : α) - a
  let z := (x + y) + (1.0 : α)
  firstMatch
    [ ⟨"NaN in, Ok(NaN) out", (RFun.isNaN a = true) ∨ (RFun.isNaN x = true), .ok (RFun.nan : α)⟩,
      ⟨"a ≤ 0 ∨ a == +inf", (a ≤ (0.0 : α)) ∨ ((a == (RFun.inf : α)) = true), .error GammaFuncError.AInvalid⟩,
      ⟨"x ≤ 0 ∨ x == +inf", (x ≤ (0.0 : α)) ∨ ((x == (RFun.inf : α)) = true), .error GammaFuncError.XInvalid⟩,
      ⟨"x < 1 ∨ x ≤ a: 1 − P(a,x)", (x < (1.0 : α)) ∨ (x ≤ a), .ok ((1.0 : α) - F.gamma.gamma_lr a x)⟩,
      ⟨"ax < −709.78271289338399: prefactor underflows", ax < gammaIncUnderflow,
        firstMatch [⟨"a < x", a < x, .ok (0.0 : α)⟩] (.ok (1.0 : α))⟩ ]
    -- otherwise: continued fraction for Q
    (gammaUrCfOut ax
      (F.gamma.checked_gamma_ur.loop1 loopFuel gammaIncBig gammaIncBigInv gammaIncEps
        y z (0.0 : α) (1.0 : α) (x + (1.0 : α)) x (z * x) ((x + (1.0 : α)) / (z * x))))

/-! ## src/function/gamma.rs — digamma, inv_digamma -/

/-- gamma.rs:375 — recurrence is applied until `z ≥ c = 12` -/
def digammaC : α := 12.0
/-- gamma.rs:378 — below `s = 1e-6` the two-term expansion at 0 is used -/
def digammaS : α := 1e-6
/-- gamma.rs:376 — `d1 = −γ` -/
def digammaD1 : α := -(0.57721566490153286 : α)
/-- gamma.rs:377 — `d2 = π²/6` -/
def digammaD2 : α := 1.6449340668482264365

/-- gamma.rs:392–394 — `0 ≤ x ≤ 1e-6`: `d1 − 1/x + d2·x` -/
def digammaSmall (x : α) : α := (digammaD1 - ((1.0 : α) / x)) + (digammaD2 * x)

/-- gamma.rs:404–410 — `z ≥ 12`: `ln z − 1/(2z) − r(1/12 − r(1/120 − r(1/252 − r(1/240 − r/132))))`,
    `r = 1/z²`, added to the recurrence sum -/
def digammaAsymptotic (result z : α) : α :=
  let r := (1.0 : α) / z
  let result := result + ((RFun.ln z) - ((0.5 : α) * r))
  let r := r * r
  let s3 := (1.0 : α) / (12.0 : α)
  let s4 := (1.0 : α) / (120.0 : α)
  let s5 := (1.0 : α) / (252.0 : α)
  let s6 := (1.0 : α) / (240.0 : α)
  let s7 := (1.0 : α) / (132.0 : α)
  result - (r * (s3 - (r * (s4 - (r * (s5 - (r * (s6 - (r * s7)))))))))

/-- gamma.rs:396–411 — what follows the recurrence loop `while z < 12 { result −= 1/z; z += 1 }` -/
def digammaOut : LoopR α (α × α) → α
  | .ret v => v
  | .hang => panicV
  | .done (result, z) =>
    firstMatch [⟨"z ≥ 12: asymptotic series", (digammaC : α) ≤ z, digammaAsymptotic result z⟩] result

/-- gamma.rs:374–412 — one level of `digamma`; `rec` is the recursive call -/
def digammaSpec (rec : α → α) (x : α) : α :=
  firstMatch
    [ ⟨"x == −inf ∨ NaN", ((x == (RFun.negInf : α)) = true) ∨ (RFun.isNaN x = true), (RFun.nan : α)⟩,
      ⟨"pole: x ≤ 0 ∧ x integral (ulps)", (x ≤ (0.0 : α)) ∧ ((RFun.ulpsEq (RFun.floor x) x) = true),
        (RFun.negInf : α)⟩,
      ⟨"x < 0: reflection ψ(1−x) + π/tan(−πx)", x < (0.0 : α),
        (rec ((1.0 : α) - x)) + ((RFun.pi : α) / (RFun.tan ((-(RFun.pi : α)) * x)))⟩,
      ⟨"x ≤ 1e-6: expansion at 0", x ≤ (digammaS : α), digammaSmall x⟩ ]
    (digammaOut (F.gamma.digamma.loop1 loopFuel (digammaC : α) (0.0 : α) x))

/-- gamma.rs:425 — the bisection-like search stops when the step `i` is no longer `> 1e-15` -/
def invDigammaTol : α := 1e-15

def invDigammaOut : LoopR α (α × α) → α
  | .ret v => v
  | .hang => panicV
  | .done (y, _) => y

/-- gamma.rs:415–431 -/
def invDigammaSpec (x : α) : α :=
  firstMatch
    [ ⟨"NaN", RFun.isNaN x = true, (RFun.nan : α)⟩,
      ⟨"x == −inf", (x == (RFun.negInf : α)) = true, (0.0 : α)⟩,
      ⟨"x == +inf", (x == (RFun.inf : α)) = true, (RFun.inf : α)⟩ ]
    -- start `y = exp x`, step `i = 1`, halve `i` after each `y += i·signum(x − ψ(y))`
    (invDigammaOut (F.gamma.inv_digamma.loop1 loopFuel x (RFun.exp x) (1.0 : α)))

/-- gamma.rs:437–443 -/
def signumSpec (x : α) : α :=
  firstMatch [⟨"x == 0", (x == (0.0 : α)) = true, (0.0 : α)⟩] (RFun.signum x)

/-! ## src/function/beta.rs -/

/-- beta.rs:58–66 -/
def lnBetaSpec (a b : α) : Except BetaFuncError α :=
  firstMatch
    [ ⟨"a ≤ 0", a ≤ (0.0 : α), .error BetaFuncError.ANotGreaterThanZero⟩,
      ⟨"b ≤ 0", b ≤ (0.0 : α), .error BetaFuncError.BNotGreaterThanZero⟩ ]
    (.ok (((F.gamma.ln_gamma a) + (F.gamma.ln_gamma b)) - (F.gamma.ln_gamma (a + b))))

/-- beta.rs:151–158 — the prefactor `bt = x^a (1−x)^b / B(a,b)`; exactly `0` at both ends -/
def betaRegFront (a b x : α) : α :=
  firstMatch
    [ ⟨"x == 0 ∨ x ≈ 1 (ulps)", ((x == (0.0 : α)) = true) ∨ ((RFun.ulpsEq x (1.0 : α)) = true), (0.0 : α)⟩ ]
    (RFun.exp (((((F.gamma.ln_gamma (a + b)) - (F.gamma.ln_gamma a)) - (F.gamma.ln_gamma b))
      + (a * (RFun.ln x))) + (b * (RFun.ln ((1.0 : α) - x)))))

/-- beta.rs:159 — symmetry switch: use `1 − I_{1−x}(b,a)` when `x ≥ (a + 1)/(a + b + 2)` -/
def betaRegSymm (a b x : α) : Bool := decide (((a + (1.0 : α)) / ((a + b) + (2.0 : α))) ≤ x)

/-- beta.rs:160 — convergence tolerance of the continued fraction: `F64_PREC = 2^-53` -/
def betaRegEps : α := R.prec.F64_PREC
/-- beta.rs:161 — floor for the Lentz denominators: `f64::MIN_POSITIVE / eps` -/
def betaRegFpmin : α := (RFun.minPositive : α) / (R.prec.F64_PREC (α := α))
/-- beta.rs:185 — `for m in 1..141`: at most 140 iterations -/
def betaRegIters : List Int := rangeList (1 : Int) (141 : Int)

/-- beta.rs:179–181, 191–193, … — Lentz guard against a vanishing denominator -/
def lentzFloor (fpmin v : α) : α := if (RFun.abs v) < fpmin then fpmin else v

/-- beta.rs:219–233 — the value returned on convergence AND after the 140th iteration -/
def betaRegOut (symm : Bool) (bt h a : α) : Except BetaFuncError α :=
  if symm = true then .ok ((1.0 : α) - ((bt * h) / a)) else .ok ((bt * h) / a)

/-- beta.rs:186–217 — one iteration (even step then odd step) on the state `(d, c, h)`;
    returns the new state and `del` -/
def betaRegStep (fpmin a b qab qam qap x : α) (m : Int) (s : α × α × α) : (α × α × α) × α :=
  let m := (RFun.ofInt m : α)
  let m2 := m * (2.0 : α)
  let aa := ((m * (b - m)) * x) / ((qam + m2) * (a + m2))
  let d := lentzFloor fpmin ((1.0 : α) + (aa * s.1))
  let c := lentzFloor fpmin ((1.0 : α) + (aa / s.2.1))
  let d := (1.0 : α) / d
  let h := (s.2.2 * d) * c
  let aa := (((-(a + m)) * (qab + m)) * x) / ((a + m2) * (qap + m2))
  let d := lentzFloor fpmin ((1.0 : α) + (aa * d))
  let c := lentzFloor fpmin ((1.0 : α) + (aa / c))
  let d := (1.0 : α) / d
  let del := d * c
  ((d, c, h * del), del)

/-- beta.rs:173–233 — the continued fraction, AFTER the symmetry swap has renamed `(a, b, x)` -/
def betaRegCf (symm : Bool) (bt a b x : α) : Except BetaFuncError α :=
  let qab := a + b
  let qap := a + (1.0 : α)
  let qam := a - (1.0 : α)
  let d := (1.0 : α) / lentzFloor betaRegFpmin ((1.0 : α) - ((qab * x) / qap))
  match F.beta.checked_beta_reg.loop1 betaRegIters a b bt betaRegEps betaRegFpmin qab qam qap symm x
      d (1.0 : α) d with
  | .ret v => v
  | .hang => panicV
  | .done (_, _, h) => betaRegOut symm bt h a

/-- beta.rs:138–234 — `checked_beta_reg a b x` -/
def betaRegSpec (a b x : α) : Except BetaFuncError α :=
  firstMatch
    [ ⟨"a ≤ 0", a ≤ (0.0 : α), .error BetaFuncError.ANotGreaterThanZero⟩,
      ⟨"b ≤ 0", b ≤ (0.0 : α), .error BetaFuncError.BNotGreaterThanZero⟩,
      ⟨"x ∉ [0,1]", ¬ (((0.0 : α) ≤ x) ∧ (x ≤ (1.0 : α))), .error BetaFuncError.XOutOfRange⟩,
      ⟨"x ≥ (a+1)/(a+b+2): swap", betaRegSymm a b x = true,
        betaRegCf true (betaRegFront a b x) b a ((1.0 : α) - x)⟩ ]
    (betaRegCf false (betaRegFront a b x) a b x)

/-! ## src/function/factorial.rs -/

/-- factorial.rs:9 — last index of the factorial table (`170! < f64::MAX < 171!`) -/
def maxFactorial : Int := 170

/-- factorial.rs:18–23 — table lookup, `+inf` beyond the table -/
def factorialSpec (x : Int) : α :=
  match listGet? (F.factorial.FCACHE (α := α)) x with
  | some fac => fac          -- "x ≤ 170"
  | none => (RFun.inf : α)   -- "x > 170"

/-- factorial.rs:29–34 — `ln` of the table entry, `ln_gamma(x + 1)` beyond the table -/
def lnFactorialSpec (x : Int) : α :=
  match listGet? (F.factorial.FCACHE (α := α)) x with
  | some fac => RFun.ln fac
  | none => F.gamma.ln_gamma ((RFun.ofInt x : α) + (1.0 : α))

/-- factorial.rs:42–49 -/
def binomialSpec (n k : Int) : α :=
  firstMatch [⟨"k > n", n < k, (0.0 : α)⟩]
    (RFun.floor ((0.5 : α) + (RFun.exp (((F.factorial.ln_factorial (α := α) n)
      - (F.factorial.ln_factorial (α := α) k)) - (F.factorial.ln_factorial (α := α) (usub n k))))))

/-- factorial.rs:56–62 -/
def lnBinomialSpec (n k : Int) : α :=
  firstMatch [⟨"k > n", n < k, (RFun.negInf : α)⟩]
    (((F.factorial.ln_factorial (α := α) n) - (F.factorial.ln_factorial (α := α) k))
      - (F.factorial.ln_factorial (α := α) (usub n k)))

/-- factorial.rs:76–86 — `Σ nᵢ` and `ln n! − Σ ln nᵢ!` in one fold; `None` unless `Σ nᵢ = n` -/
def multinomialSpec (n : Int) (ni : List Int) : Option α :=
  let sum := ni.foldl (· + ·) (0 : Int)
  let ret := ni.foldl (fun r x => r - F.factorial.ln_factorial (α := α) x) (F.factorial.ln_factorial (α := α) n)
  firstMatch [⟨"Σ nᵢ = n", sum = n, some (RFun.floor ((0.5 : α) + (RFun.exp ret)))⟩] none

/-! ## src/function/harmonic.rs -/

/-- harmonic.rs:13–18 -/
def harmonicSpec (t : Int) : α :=
  firstMatch [⟨"t = 0", t = 0, (1.0 : α)⟩]
    ((RFun.c_EULER_MASCHERONI : α) + (F.gamma.digamma ((RFun.ofInt t : α) + (1.0 : α))))

/-- harmonic.rs:26–31 -/
def genHarmonicSpec (n : Int) (m : α) : α :=
  firstMatch [⟨"n = 0", n = 0, (1.0 : α)⟩]
    (List.foldl (fun acc x => acc + (RFun.pow ((RFun.ofInt x : α) + (1.0 : α)) (-m))) (0.0 : α)
      (rangeList (0 : Int) n))

/-! ## src/function/logistic.rs -/

/-- logistic.rs:5–7 — no branch at all: `1 / (exp(−p) + 1)` for every `p` -/
def logisticSpec (p : α) : α := (1.0 : α) / ((RFun.exp (-p)) + (1.0 : α))

/-- logistic.rs:19–25 -/
def logitSpec (p : α) : Option α :=
  firstMatch [⟨"0 ≤ p ≤ 1", ((0.0 : α) ≤ p) ∧ (p ≤ (1.0 : α)), some (RFun.ln (p / ((1.0 : α) - p)))⟩] none

/-! ## src/function/exponential.rs — generalised exponential integral Eₙ(x) -/

/-- exponential.rs:28 — relative tolerance of both iterations -/
def expIntEps : α := 0.00000000000000001
/-- exponential.rs:29, 46, 65 — `for i in 1..max_iter + 1`, `max_iter = 100` -/
def expIntIters : List Int := rangeList (1 : Int) ((100 : Int) + (1 : Int))
/-- exponential.rs:31 — start value of Lentz's `c` is `1 / 1e-100` -/
def expIntNearMin : α := 1e-100


/-- exponential.rs:47–52 — one step `i` of the modified Lentz continued fraction on `(b, d, c, h)`:
    `a = −i(n − 1 + i)`, `b += 2`, `d = 1/(a·d + b)`, `c = b + a/c`, `del = c·d`, `h *= del` -/
def expIntCfStep (nf64 : α) (i : Int) (s : α × α × α × α) : (α × α × α × α) × α :=
  let a := ((-(1.0 : α)) * (RFun.ofInt i : α)) * ((nf64 - (1.0 : α)) + (RFun.ofInt i : α))
  let b := s.1 + (2.0 : α)
  let d := (1.0 : α) / ((a * s.2.1) + b)
  let c := b + (a / s.2.2.1)
  let del := c * d
  ((b, d, c, s.2.2.2 * del), del)

/-- exponential.rs:70–73 — `ψ(n) = −γ + Σ_{ii = 1}^{n−1} 1/ii`, summed left to right -/
def expIntPsi (n : Int) : α :=
  List.foldl (fun psi ii => psi + ((1.0 : α) / (RFun.ofInt ii : α)))
    ((-(1.0 : α)) * (RFun.c_EULER_MASCHERONI : α)) (rangeList (1 : Int) n)

/-- exponential.rs:67–76 — term `i` of the power series, given the updated `factorial = (−x)^i / i!` -/
def expIntSeriesDel (n : Int) (nf64 x factorial : α) (i : Int) : α :=
  firstMatch
    [ ⟨"i ≠ n − 1", i ≠ usub n (1 : Int), (-factorial) / (((RFun.ofInt i : α) - nf64) + (1.0 : α))⟩ ]
    (factorial * (((-(1.0 : α)) * (RFun.ln x)) + expIntPsi n))   -- "i = n − 1: the logarithmic term"

def expIntCfOut : LoopR (Option α) (α × α × α × α) → Option α
  | .ret v => v
  | .hang => panicV
  | .done (_, _, _, _) => none   -- "no convergence within 100 iterations"

def expIntSeriesOut : LoopR (Option α) (α × α) → Option α
  | .ret v => v
  | .hang => panicV
  | .done (_, _) => none

/-- exponential.rs:27–84 -/
def expIntSpec (x : α) (n : Int) : Option α :=
  let nf64 := (RFun.ofInt n : α)
  firstMatch
    [ ⟨"n = 0: exp(−x)/x", n = (0 : Int), some ((RFun.exp ((-(1.0 : α)) * x)) / x)⟩,
      ⟨"x == 0: 1/(n−1)", (x == (0.0 : α)) = true, some ((1.0 : α) / (nf64 - (1.0 : α)))⟩,
      ⟨"x > 1: Lentz continued fraction", (1.0 : α) < x,
        expIntCfOut (F.exponential.integral.loop1 expIntIters expIntEps nf64 x
          (x + nf64) ((1.0 : α) / (x + nf64)) ((1.0 : α) / expIntNearMin) ((1.0 : α) / (x + nf64)))⟩ ]
    -- otherwise (x ≤ 1): power series; first term depends on n = 1
    (expIntSeriesOut (F.exponential.integral.loop3 expIntIters expIntEps n nf64 x (1.0 : α)
      (firstMatch [⟨"n ≠ 1", (usub n (1 : Int)) ≠ (0 : Int), (1.0 : α) / (nf64 - (1.0 : α))⟩]
        (((-(1.0 : α)) * (RFun.ln x)) - (RFun.c_EULER_MASCHERONI : α)))))

end generic

/-! ## src/function/beta.rs:264–425 — `inv_beta_reg` (AS 64 / AS 109 start value + damped Newton)

  The translator does not cover this function (labelled breaks); its model is the HAND-written
  `Statrs.Gen.FHand.F.beta.inv_beta_reg` over IEEE doubles, tied to the Rust code by the bit-for-bit
  correspondence check.  The table below is therefore a table of the hand model. -/
namespace InvBetaReg
open Statrs.Gen.FHand

/-- beta.rs:303 — `FPU = 1e-30 = 10^SAE`, `SAE = −30` -/
def fpu : Float := 1e-30
def sae : Int := -30
/-- beta.rs:357 — the start value is clamped into `[0.0001, 0.9999]` -/
def clampLo : Float := 0.0001
def clampHi : Float := 0.9999

/-- beta.rs:326–327 — Hastings' rational approximation of the normal quantile at `p = √(−ln x²)` -/
def hastings (p : Float) : Float := p - (2.30753 + 0.27061 * p) / (1.0 + (0.99229 + 0.04481 * p) * p)

/-- beta.rs:336–342 — `1 < a ∧ 1 < b`: Carter's approximation (AS 109) -/
def startCarter (a b q : Float) : Float :=
  let r := (q * q - 3.0) / 6.0
  let s := 1.0 / (2.0 * a - 1.0)
  let t := 1.0 / (2.0 * b - 1.0)
  let h := 2.0 / (s + t)
  let w := q * Float.sqrt (h + r) / h - (t - s) * (r + 5.0 / 6.0 - 2.0 / (3.0 * h))
  a / (a + b * Float.exp (2.0 * w))

/-- beta.rs:344–354 — otherwise: Wilson–Hilferty `χ²` approximation `t = 2b(1 − 1/(9b) + q√(1/(9b)))³`
    with its two fall-backs -/
def startWilsonHilferty (a b x q lnBeta : Float) : Float :=
  let t0 := 1.0 / (9.0 * b)
  let t := 2.0 * b * Float.pow (1.0 - t0 + q * Float.sqrt t0) 3.0
  let t' := 2.0 * (2.0 * a + b - 1.0) / t
  firstMatch
    [ ⟨"χ² ≤ 0", t ≤ 0.0, 1.0 - Float.exp ((Float.log ((1.0 - x) * b) + lnBeta) / b)⟩,
      ⟨"(4a + 2b − 2)/χ² ≤ 1", t' ≤ 1.0, Float.exp ((Float.log (x * a) + lnBeta) / a)⟩ ]
    (1.0 - 2.0 / (t' + 1.0))

/-- beta.rs:326–357 — clamped start value -/
def start (a b x lnBeta : Float) : Float :=
  let q := hastings (Float.sqrt (-(Float.log (x * x))))
  fclamp
    (firstMatch [⟨"1 < a ∧ 1 < b: Carter", (1.0 < a && 1.0 < b) = true, startCarter a b q⟩]
      (startWilsonHilferty a b x q lnBeta))
    clampLo clampHi

/-- beta.rs:361–362 — accuracy target `10^e`, `e = (−5/a² − 1/x^0.2 − 13) as i32`, floored at `FPU` -/
def acu (a x : Float) : Float :=
  let e : Int := RFun.toI32 (-5.0 / a / a - 1.0 / Float.pow x 0.2 - 13.0 : Float)
  if e > sae then Float.powi 10.0 e else fpu

/-- beta.rs:264–425 — `inv_beta_reg a b x`; the Newton iteration `invOuter` starts from
    `(p, qprev, sq, prev) = (start, 0, 1, 1)` -/
def spec (a b x : Float) : Float :=
  let lnBeta := Gen.F.beta.ln_beta (α := Float) a b
  firstMatch
    [ ⟨"x == 0", (x == 0.0) = true, 0.0⟩,
      ⟨"x == 1", (x == 1.0) = true, 1.0⟩,
      ⟨"0.5 < x: flip (a,b,x) → (b,a,1−x), answer 1 − p", (0.5 < x),
        1.0 - FHand.F.beta.invOuter b a (1.0 - x) lnBeta (acu b (1.0 - x)) fpu (start b a (1.0 - x) lnBeta) 0.0 1.0 1.0 5000⟩ ]
    (FHand.F.beta.invOuter a b x lnBeta (acu a x) fpu (start a b x lnBeta) 0.0 1.0 1.0 5000)

end InvBetaReg

end Statrs.Spec.FunctionBranches
