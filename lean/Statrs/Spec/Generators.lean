/-
  Statrs.Spec.Generators — the infinite sequence produced by a stateful `next`
  (`&mut self` methods are modelled as `σ → Option α × σ`).

  `stateN next s n` is the state after `n` calls, `out next s n` the value returned by call
  number `n` (0-based).  `takeN` is the carrier-generic copy of `Statrs.Model.Dispatch.iterN`
  (the function the driver uses to print the first `n` outputs); `takeN_eq_map_out` ties the two
  views together.  Import-free, carrier-generic.
-/
namespace Statrs.Spec.Generators

/-- state after `n` calls of `next` -/
def stateN {σ α : Type} (next : σ → Option α × σ) : σ → Nat → σ
  | s, 0 => s
  | s, n + 1 => stateN next (next s).2 n

/-- value returned by the `n`-th call (0-based) of `next` starting from `s` -/
def out {σ α : Type} (next : σ → Option α × σ) (s : σ) (n : Nat) : Option α :=
  (next (stateN next s n)).1

/-- first `n` outputs (same recursion as `Statrs.Model.Dispatch.iterN`, any carrier) -/
def takeN {σ α : Type} (next : σ → Option α × σ) : σ → Nat → List α
  | _, 0 => []
  | s, n + 1 =>
    match next s with
    | (some x, s') => x :: takeN next s' n
    | (none, _) => []

section
variable {σ α : Type} (next : σ → Option α × σ)

@[simp] theorem stateN_zero (s : σ) : stateN next s 0 = s := rfl
@[simp] theorem stateN_succ (s : σ) (n : Nat) : stateN next s (n + 1) = stateN next (next s).2 n := rfl
@[simp] theorem out_zero (s : σ) : out next s 0 = (next s).1 := rfl
@[simp] theorem out_succ (s : σ) (n : Nat) : out next s (n + 1) = out next (next s).2 n := rfl

/-- the other unfolding: one more call at the end -/
theorem stateN_succ' (s : σ) (n : Nat) : stateN next s (n + 1) = (next (stateN next s n)).2 := by
  induction n generalizing s with
  | zero => rfl
  | succ n ih => rw [stateN_succ, ih]; rfl

theorem stateN_add (s : σ) (m n : Nat) : stateN next s (m + n) = stateN next (stateN next s m) n := by
  induction m generalizing s with
  | zero => simp
  | succ m ih => rw [Nat.succ_add, stateN_succ, ih]; rfl

theorem out_add (s : σ) (m n : Nat) : out next s (m + n) = out next (stateN next s m) n := by
  unfold out; rw [stateN_add]

/-- a state predicate preserved by `next` holds along the whole run -/
theorem stateN_inv (P : σ → Prop) (hP : ∀ s, P s → P (next s).2) (s : σ) (h : P s) (n : Nat) :
    P (stateN next s n) := by
  induction n generalizing s with
  | zero => exact h
  | succ n ih => exact ih _ (hP s h)

/-- if `next` never returns `None`, the list of the first `n` outputs is `out 0, …, out (n-1)` -/
theorem takeN_eq_map_out (hsome : ∀ s, ∃ x, (next s).1 = some x) (s : σ) (n : Nat) :
    (takeN next s n).map some = (List.range n).map (out next s) := by
  induction n generalizing s with
  | zero => rfl
  | succ n ih =>
    obtain ⟨x, hx⟩ := hsome s
    rw [List.range_succ_eq_map, List.map_cons, List.map_map]
    have : takeN next s (n + 1) = x :: takeN next (next s).2 n := by
      show (match next s with
        | (some x, s') => x :: takeN next s' n
        | (none, _) => []) = _
      rcases hns : next s with ⟨o, s'⟩
      rw [hns] at hx
      simp only at hx
      subst hx
      rfl
    rw [this, List.map_cons, ih, out_zero, hx]
    rfl

theorem takeN_length (hsome : ∀ s, ∃ x, (next s).1 = some x) (s : σ) (n : Nat) :
    (takeN next s n).length = n := by
  have := congrArg List.length (takeN_eq_map_out next hsome s n)
  simpa using this

end
end Statrs.Spec.Generators
