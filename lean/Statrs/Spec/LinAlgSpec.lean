/-
  Premises about the list-of-lists linear algebra (`Statrs.Model.LA`, the model of the nalgebra
  routines) used by the C19 theorems whose names end in `_rel`.

  The model's `LA.determinant` / `LA.choleskyNew` / `LA.choleskyInverse` are concrete algorithms
  (closed forms / LU with partial pivoting, Cholesky–Banachiewicz, two triangular solves).  Their
  mathematical correctness over ℝ ("the value computed is `det Σ`", "a successful Cholesky
  factorisation means `Σ` is positive definite, so `det Σ > 0`", "the two triangular solves give
  `Σ⁻¹`") is NOT proved here; the facts the theorems need are taken as the explicit premises below,
  about the particular covariance/scale matrix at hand.
-/
import Statrs.Real.Simp
import Statrs.Model.Multivariate
import Statrs.Lemmas.Multivariate
import Mathlib.Tactic
import Mathlib.LinearAlgebra.Matrix.NonsingularInverse
namespace Statrs.Spec
open Statrs Statrs.Model

/-- The covariance (scale) matrix has a positive determinant, as computed by `LA.determinant`
    (in exact arithmetic this holds for every symmetric matrix on which `Cholesky::new`
    succeeds). -/
structure CovSpec (cov : List (List ℝ)) : Prop where
  det_pos : 0 < LA.determinant cov

/-- the `n × n` real matrix with the entries of a list-of-lists (out-of-range entries are `0`) -/
noncomputable def toMatrix (n : ℕ) (m : List (List ℝ)) : Matrix (Fin n) (Fin n) ℝ :=
  fun i j => LA.mget m i j

/-- the vector `Fin n → ℝ` with the entries of a list -/
def toVec (n : ℕ) (v : List ℝ) : Fin n → ℝ := fun i => v.getD i 0

/-- `LA.determinant cov` is the determinant of `cov`, and the stored `precision` is a left inverse
    of `cov` (hence its inverse) — what nalgebra's `determinant` and `Cholesky::inverse` compute
    in exact arithmetic. -/
structure MatrixSpec (n : ℕ) (cov precision : List (List ℝ)) : Prop where
  det_eq : LA.determinant cov = (toMatrix n cov).det
  inv_eq : toMatrix n precision * toMatrix n cov = 1

/-- The stored precision matrix is positive semi-definite for the quadratic form the code
    evaluates, `(P v) · v` computed by `LA.matvec` / `LA.dotx` (true for the inverse of a
    positive-definite matrix). -/
structure PSDSpec (n : ℕ) (precision : List (List ℝ)) : Prop where
  quad_nonneg : ∀ v : List ℝ, v.length = n → 0 ≤ LA.dotx (LA.matvec precision v) v

/-- non-vacuity: a non-negative 1×1 precision -/
theorem psdSpec_one (p : ℝ) (hp : 0 ≤ p) : PSDSpec 1 [[p]] := by
  refine ⟨fun v hv => ?_⟩
  match v, hv with
  | [a], _ =>
    rw [Statrs.Lemmas.Multivariate.matvec_one, Statrs.Lemmas.Multivariate.dotx_one]
    have := mul_nonneg hp (mul_self_nonneg a)
    linarith [this, show p * a * a = p * (a * a) by ring]

/-- non-vacuity: the 1×1 matrix `[[s]]`, `s > 0`, with the precision the model computes -/
theorem covSpec_one (s : ℝ) (hs : 0 < s) : CovSpec [[s]] :=
  ⟨by rw [Statrs.Lemmas.Multivariate.det_one]; exact hs⟩

/-- non-vacuity: the 2×2 identity -/
theorem covSpec_id2 : CovSpec [[1, 0], [0, 1]] :=
  ⟨by simp [LA.determinant, LA.mget]⟩

/-- non-vacuity: the 1×1 matrix `[[s]]`, `s > 0`, with the precision the model computes -/
theorem matrixSpec_one (s : ℝ) (hs : 0 < s) :
    MatrixSpec 1 [[s]] [[1 / Real.sqrt s / Real.sqrt s]] := by
  have hne : Real.sqrt s ≠ 0 := (Real.sqrt_pos.mpr hs).ne'
  have h := Real.mul_self_sqrt hs.le
  refine ⟨?_, ?_⟩
  · rw [Statrs.Lemmas.Multivariate.det_one, Matrix.det_unique]
    rfl
  · ext i j
    obtain rfl : i = 0 := Subsingleton.elim _ _
    obtain rfl : j = 0 := Subsingleton.elim _ _
    simp [Matrix.mul_apply, toMatrix, LA.mget]
    field_simp
    linarith

end Statrs.Spec
