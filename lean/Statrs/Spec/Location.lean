/-
  Statrs.Spec.Location — TEXTBOOK median / mode / support bounds (min, max) of the univariate
  families of statrs (the 27 families of `Statrs.Spec.Moments` + Categorical), written by hand over
  ℝ (integer-valued results over ℤ / ℕ) in the SAME parameterisation as the family's `pdf`/`pmf` in
  the generated model (rate vs scale etc.; Wikipedia / NIST forms).

  These are the reference side of the C08 "location pin" theorems (`Props/C08/LocationPins*.lean`):
  nothing here is copied from `Statrs/Gen`; every definition cites the standard reference form.

  Conventions.
  * `min` / `max` are the TIGHTEST bounds of the support (closure of the set where the density /
    mass is positive).  An end of a support that can be infinite has type `EReal` (`⊤ = +∞`,
    `⊥ = −∞`); `infEnd α e` says how a carrier `α` represents an infinite end (`RFun.inf`,
    `RFun.negInf`) — over ℝ those values are junk, so infinite ends are pinned for every carrier.
  * `mode : Option ℝ` is `none` where the reference gives no mode (`Option` is used exactly where
    statrs' `mode()` really can return `None`).  If every point of the support is a mode
    (Uniform, DiscreteUniform) the spec is the predicate `IsMode`; statrs' documented choice of one
    of them is a separate definition `modeConvention`.
  * A median that has no closed form is given as a predicate `IsMedian`; where statrs DOCUMENTS an
    approximation (χ² median, Binomial median `⌊np⌋`, Poisson median `max(0, ⌊λ + 1/3 − 0.02/λ⌋)`) the
    approximation gets its OWN definition (`medianApprox…`) with its cut-over — the two are never
    identified.  A family for which there is no closed form and statrs implements no `Median`
    (Beta, Chi, Erlang, FisherSnedecor, Gamma, Hypergeometric, InverseGamma, NegativeBinomial) has
    no median definition here.
  * Where several points qualify (a tie between two modes of a lattice family, the whole interval
    of medians of Bernoulli(1/2)) the choice made by the reference is stated in the docstring.
-/
import Statrs.Real.Simp
import Statrs.Gen.SF
import Mathlib.Tactic
import Mathlib.Data.EReal.Basic
import Mathlib.Analysis.SpecialFunctions.Pow.Real
import Mathlib.Analysis.SpecialFunctions.Log.Base
namespace Statrs.Spec.Location
open Statrs Statrs.Gen

noncomputable section

/-! ### Common -/

/-- How a carrier `α` represents an INFINITE end of a support: `f64::INFINITY` (`RFun.inf`) for
    `+∞`, `f64::NEG_INFINITY` (`RFun.negInf`) for `−∞`; a finite end is not an infinite end
    (`none`). -/
def infEnd (α : Type) [RFun α] (e : EReal) : Option α :=
  if e = ⊤ then some RFun.inf else if e = ⊥ then some RFun.negInf else none

/-- `u64::MAX = 2⁶⁴ − 1`: what statrs returns as `max()` of an unbounded ℕ-valued family (doc: "the
    maximum value in the domain … representable by a 64-bit integer").  It is NOT the textbook
    maximum (`+∞`). -/
def u64Max : ℤ := 2 ^ 64 - 1

/-! ### Bernoulli(p) — pmf P(1) = p, P(0) = 1 − p -/
namespace Bernoulli
/-- Bernoulli(p): median `0` if `p < 1/2`, `1` if `p > 1/2`; for `p = 1/2` every point of `[0,1]` is
    a median and the reference (Wikipedia, and statrs' doc comment) reports `1/2`. -/
def median (p : ℝ) : ℝ := if p < 1 / 2 then 0 else if p = 1 / 2 then 1 / 2 else 1
/-- what statrs computes instead (its Binomial approximation `⌊np⌋` at `n = 1`): `⌊p⌋`. -/
def medianFloor (p : ℝ) : ℤ := ⌊p⌋
/-- Bernoulli(p): mode `0` if `p < 1/2`, `1` if `p > 1/2`; at `p = 1/2` both are modes and the
    larger one is reported (statrs doc: `if p < 0.5 {0} else {1}`). -/
def mode (p : ℝ) : ℤ := if p < 1 / 2 then 0 else 1
/-- Bernoulli(p): smallest point of positive mass — `0` unless `p = 1`. -/
def min (p : ℝ) : ℤ := if p = 1 then 1 else 0
/-- Bernoulli(p): largest point of positive mass — `1` unless `p = 0`. -/
def max (p : ℝ) : ℤ := if p = 0 then 0 else 1
end Bernoulli

/-! ### Beta(a, b) — pdf x^{a−1}(1−x)^{b−1}/B(a,b) on [0,1] -/
namespace Beta
/-- Beta(a,b): mode `(a − 1)/(a + b − 2)` for `a, b > 1`; `0` for `a ≤ 1 < b`; `1` for `b ≤ 1 < a`
    (the density is monotone); for `a, b ≤ 1` the distribution is bimodal `{0, 1}` (`a, b < 1`) or
    every point is a mode (`a = b = 1`): no single mode, `none`.  (Wikipedia "Beta distribution".) -/
def mode (a b : ℝ) : Option ℝ :=
  if 1 < a ∧ 1 < b then some ((a - 1) / (a + b - 2))
  else if a ≤ 1 ∧ 1 < b then some 0
  else if 1 < a ∧ b ≤ 1 then some 1
  else none
/-- Beta(a,b): support `[0, 1]`. -/
def min : ℝ := 0
/-- Beta(a,b): support `[0, 1]`. -/
def max : ℝ := 1
/- median: `I_m(a,b) = 1/2`, no closed form; statrs implements no `Median` for Beta. -/
end Beta

/-! ### Binomial(n, p) — pmf C(n,k) p^k (1−p)^{n−k}, k = 0..n -/
namespace Binomial
/-- Binomial(n,p): probability mass `C(n,k) p^k (1−p)^{n−k}`. -/
def pmf (n : ℕ) (p : ℝ) (k : ℕ) : ℝ := (n.choose k : ℝ) * p ^ k * (1 - p) ^ (n - k)
/-- `m` is a median of Binomial(n,p): `P(X ≤ m) ≥ 1/2` and `P(X ≥ m) ≥ 1/2`.  There is no closed
    form; every median lies in `[⌊np⌋, ⌈np⌉]`. -/
def IsMedian (n : ℕ) (p : ℝ) (m : ℕ) : Prop :=
  1 / 2 ≤ ∑ k ∈ Finset.range (m + 1), pmf n p k ∧ 1 / 2 ≤ ∑ k ∈ Finset.Icc m n, pmf n p k
/-- statrs' documented formula `⌊np⌋`: the lower end of the interval `[⌊np⌋, ⌈np⌉]` that contains
    the medians.  An approximation, NOT always a median. -/
def medianApprox (n : ℤ) (p : ℝ) : ℤ := ⌊(n : ℝ) * p⌋
/-- Binomial(n,p): mode `⌊(n + 1)p⌋`, and `n` when `p = 1` (where `(n+1)p = n + 1` is outside the
    support); if `(n+1)p ∈ {1..n}` is an integer, `(n+1)p − 1` is a mode too and the larger one is
    reported.  (Wikipedia "Binomial distribution".) -/
def mode (n : ℤ) (p : ℝ) : ℤ := if p = 1 then n else ⌊((n : ℝ) + 1) * p⌋
/-- Binomial(n,p): smallest point of positive mass — `0` unless `p = 1` (point mass at `n`). -/
def min (n : ℤ) (p : ℝ) : ℤ := if p = 1 then n else 0
/-- Binomial(n,p): largest point of positive mass — `n` unless `p = 0` (point mass at `0`). -/
def max (n : ℤ) (p : ℝ) : ℤ := if p = 0 then 0 else n
end Binomial

/-! ### Categorical — given by its (unnormalised) cumulative table `c₀ ≤ c₁ ≤ … ≤ c_{K−1}`,
    `c_k = w₀ + … + w_k` for weights `w_i ≥ 0`;  `F(k) = c_k / c_{K−1}` -/
namespace Categorical
/-- total weight `c_{K−1}` (the last entry of the cumulative table). -/
def total (c : List ℝ) : ℝ := c.getLast?.getD 0
/-- Categorical: median `F⁻¹(1/2) = min {k : F(k) ≥ 1/2}` (generalised inverse of the cdf). -/
def median (c : List ℝ) : ℕ := c.findIdx (fun ck => decide (1 / 2 * total c ≤ ck))
/-- Categorical: smallest category of positive mass, `min {k : c_k > 0}`. -/
def min (c : List ℝ) : ℕ := c.findIdx (fun ck => decide (0 < ck))
/-- Categorical: largest category of positive mass `= min {k : c_k = c_{K−1}}` (the cumulative sum
    stops growing after it). -/
def max (c : List ℝ) : ℕ := c.findIdx (fun ck => decide (ck = total c))
/- mode: `argmax_k w_k`; statrs implements no `Mode` for Categorical. -/
end Categorical

/-! ### Cauchy(x₀, γ) — pdf 1/(πγ(1 + ((x−x₀)/γ)²)) -/
namespace Cauchy
/-- Cauchy(x₀,γ): median `x₀`. -/
def median (x0 : ℝ) : ℝ := x0
/-- Cauchy(x₀,γ): mode `x₀`. -/
def mode (x0 : ℝ) : ℝ := x0
/-- Cauchy: support `(−∞, ∞)`. -/
def min : EReal := ⊥
/-- Cauchy: support `(−∞, ∞)`. -/
def max : EReal := ⊤
end Cauchy

/-! ### Chi(k) — pdf 2^{1−k/2} x^{k−1} e^{−x²/2}/Γ(k/2), x > 0 -/
namespace Chi
/-- Chi(k): mode `√(k − 1)` for `k ≥ 1`. -/
def mode (k : ℝ) : ℝ := Real.sqrt (k - 1)
/-- Chi(k): support `[0, ∞)`. -/
def min : ℝ := 0
/-- Chi(k): support `[0, ∞)`. -/
def max : EReal := ⊤
/- median: `P(k/2, m²/2) = 1/2`, no closed form; statrs implements no `Median` for Chi. -/
end Chi

/-! ### ChiSquared(k) = Gamma(shape k/2, rate 1/2) -/
namespace ChiSquared
/-- `m` is the median of χ²(k): `P(k/2, m/2) = 1/2` (`P` the regularised lower incomplete gamma
    function, `SF.gamma_lr`).  There is no closed form. -/
def IsMedian [SF ℝ] (k m : ℝ) : Prop := SF.gamma_lr (k / 2) (m / 2) = 1 / 2
/-- the Wilson–Hilferty approximation `k(1 − 2/(9k))³` of the median (Wikipedia lists it as `≈`;
    it is the formula in statrs' doc comment). -/
def medianWilsonHilferty (k : ℝ) : ℝ := k * (1 - 2 / (9 * k)) ^ 3
/-- statrs, `k < 1`: "if k is small, calculate using expansion of formula":
    `k − 2/3 + 12/(81k) − 8/(729k²)` — for `k ≠ 0` exactly the expanded Wilson–Hilferty cube. -/
def medianApproxSmall (k : ℝ) : ℝ := k - 2 / 3 + 12 / (81 * k) - 8 / (729 * k ^ 2)
/-- statrs, `k ≥ 1`: "if k is large enough, median heads toward k − 2/3": the first two terms only. -/
def medianApproxLarge (k : ℝ) : ℝ := k - 2 / 3
/-- statrs' documented approximation WITH its cut-over at `k = 1` (`k < 1` small branch, `k ≥ 1`
    large branch).  An approximation, NOT the median. -/
def medianApprox (k : ℝ) : ℝ := if k < 1 then medianApproxSmall k else medianApproxLarge k
/-- χ²(k): mode `max(k − 2, 0)`. -/
def mode (k : ℝ) : ℝ := Max.max (k - 2) 0
/-- χ²(k): support `[0, ∞)`. -/
def min : ℝ := 0
/-- χ²(k): support `[0, ∞)`. -/
def max : EReal := ⊤
end ChiSquared

/-! ### Dirac(v) — point mass at v -/
namespace Dirac
/-- Dirac(v): median `v`. -/
def median (v : ℝ) : ℝ := v
/-- Dirac(v): mode `v`. -/
def mode (v : ℝ) : ℝ := v
/-- Dirac(v): support `{v}`. -/
def min (v : ℝ) : ℝ := v
/-- Dirac(v): support `{v}`. -/
def max (v : ℝ) : ℝ := v
end Dirac

/-! ### DiscreteUniform(a, b) — pmf 1/(b − a + 1) on {a..b} -/
namespace DiscreteUniform
/-- DiscreteUniform(a,b): median `(a + b)/2` (a half-integer when `a + b` is odd: then every point
    of `[(a+b−1)/2, (a+b+1)/2]` is a median and the midpoint is reported). -/
def median (a b : ℤ) : ℝ := ((a : ℝ) + b) / 2
/-- DiscreteUniform(a,b): the mode is "N/A" — every point of the support is a mode. -/
def IsMode (a b m : ℤ) : Prop := a ≤ m ∧ m ≤ b
/-- statrs' documented choice: "mode simply returns the middle element", `⌊(a + b)/2⌋`. -/
def modeConvention (a b : ℤ) : ℤ := ⌊((a : ℝ) + b) / 2⌋
/-- DiscreteUniform(a,b): support `{a..b}`. -/
def min (a : ℤ) : ℤ := a
/-- DiscreteUniform(a,b): support `{a..b}`. -/
def max (b : ℤ) : ℤ := b
end DiscreteUniform

/-! ### Erlang(k, λ) = Gamma(shape k ∈ ℕ⁺, rate λ) -/
namespace Erlang
/-- Erlang(k,λ): mode `(k − 1)/λ` (`k ≥ 1` always). -/
def mode (k l : ℝ) : ℝ := (k - 1) / l
/-- Erlang(k,λ): support `[0, ∞)`. -/
def min : ℝ := 0
/-- Erlang(k,λ): support `[0, ∞)`. -/
def max : EReal := ⊤
/- median: no closed form; statrs implements no `Median` for Erlang. -/
end Erlang

/-! ### Exp(rate λ) — pdf λ e^{−λx} -/
namespace Exp
/-- Exp(λ): median `ln 2/λ`. -/
def median (l : ℝ) : ℝ := Real.log 2 / l
/-- Exp(λ): mode `0`. -/
def mode : ℝ := 0
/-- Exp(λ): support `[0, ∞)`. -/
def min : ℝ := 0
/-- Exp(λ): support `[0, ∞)`. -/
def max : EReal := ⊤
end Exp

/-! ### FisherSnedecor(d₁, d₂) -/
namespace FisherSnedecor
/-- F(d₁,d₂): mode `((d₁ − 2)/d₁)·(d₂/(d₂ + 2))` for `d₁ > 2`; the reference (Wikipedia
    "F-distribution") gives no mode for `d₁ ≤ 2`. -/
def mode (d1 d2 : ℝ) : Option ℝ :=
  if 2 < d1 then some ((d1 - 2) / d1 * (d2 / (d2 + 2))) else none
/-- F(d₁,d₂): support `[0, ∞)`. -/
def min : ℝ := 0
/-- F(d₁,d₂): support `[0, ∞)`. -/
def max : EReal := ⊤
/- median: no closed form; statrs implements no `Median` for FisherSnedecor. -/
end FisherSnedecor

/-! ### Gamma(shape k, rate λ) — pdf λ^k x^{k−1} e^{−λx}/Γ(k) -/
namespace Gamma
/-- Gamma(shape k, rate λ): mode `(k − 1)/λ` for `k ≥ 1`, `0` for `k < 1` (Wikipedia "Gamma
    distribution"). -/
def mode (k l : ℝ) : ℝ := if 1 ≤ k then (k - 1) / l else 0
/-- Gamma: support `[0, ∞)`  (`(0, ∞)` up to closure). -/
def min : ℝ := 0
/-- Gamma: support `[0, ∞)`. -/
def max : EReal := ⊤
/- median: `P(k, λm) = 1/2`, no closed form; statrs implements no `Median` for Gamma. -/
end Gamma

/-! ### Geometric(p) — pmf (1−p)^{k−1} p, k = 1, 2, … -/
namespace Geometric
/-- the closed form `⌈−1/log₂(1 − p)⌉` (`0 < p < 1`; not unique if `−1/log₂(1 − p)` is an integer). -/
def medianFormula (p : ℝ) : ℤ := ⌈-1 / Real.logb 2 (1 - p)⌉
/-- Geometric(p) on {1,2,…}: median `⌈−1/log₂(1 − p)⌉`; `1` for `p = 1` (point mass at 1, where the
    closed form degenerates). -/
def median (p : ℝ) : ℤ := if p = 1 then 1 else medianFormula p
/-- Geometric(p): mode `1`. -/
def mode : ℤ := 1
/-- Geometric(p): support `{1, 2, …}`. -/
def min : ℤ := 1
/-- Geometric(p): support `{1, 2, …}` — unbounded, except the point mass at `1` for `p = 1`. -/
def max (p : ℝ) : EReal := if p = 1 then 1 else ⊤
/-- the value statrs' doc comment of `max()` states (`2^63 − 1`); the code returns `u64Max`. -/
def maxDocumented : ℤ := 2 ^ 63 - 1
end Geometric

/-! ### Gumbel(μ, β) — pdf (1/β) e^{−z − e^{−z}}, z = (x − μ)/β -/
namespace Gumbel
/-- Gumbel(μ,β): median `μ − β ln(ln 2)`. -/
def median (mu beta : ℝ) : ℝ := mu - beta * Real.log (Real.log 2)
/-- Gumbel(μ,β): mode `μ`. -/
def mode (mu : ℝ) : ℝ := mu
/-- Gumbel: support `(−∞, ∞)`. -/
def min : EReal := ⊥
/-- Gumbel: support `(−∞, ∞)`. -/
def max : EReal := ⊤
end Gumbel

/-! ### Hypergeometric(N, K, n) — pmf C(K,k)C(N−K,n−k)/C(N,n) -/
namespace Hypergeometric
/-- Hypergeometric(N,K,n): mode `⌊(n + 1)(K + 1)/(N + 2)⌋`. -/
def mode (N K n : ℤ) : ℤ := ⌊(((n : ℝ) + 1) * ((K : ℝ) + 1)) / ((N : ℝ) + 2)⌋
/-- Hypergeometric(N,K,n): support starts at `max(0, n + K − N)`. -/
def min (N K n : ℤ) : ℤ := Max.max 0 (n + K - N)
/-- Hypergeometric(N,K,n): support ends at `min(K, n)`. -/
def max (K n : ℤ) : ℤ := Min.min K n
/- median: no closed form; statrs implements no `Median` for Hypergeometric. -/
end Hypergeometric

/-! ### InverseGamma(shape α, rate/scale β) — pdf β^α x^{−α−1} e^{−β/x}/Γ(α) -/
namespace InverseGamma
/-- InverseGamma(α,β): mode `β/(α + 1)`. -/
def mode (a b : ℝ) : ℝ := b / (a + 1)
/-- InverseGamma: support `(0, ∞)`. -/
def min : ℝ := 0
/-- InverseGamma: support `(0, ∞)`. -/
def max : EReal := ⊤
/- median: no closed form; statrs implements no `Median` for InverseGamma. -/
end InverseGamma

/-! ### Laplace(μ, b) — pdf e^{−|x−μ|/b}/(2b) -/
namespace Laplace
/-- Laplace(μ,b): median `μ`. -/
def median (mu : ℝ) : ℝ := mu
/-- Laplace(μ,b): mode `μ`. -/
def mode (mu : ℝ) : ℝ := mu
/-- Laplace: support `(−∞, ∞)`. -/
def min : EReal := ⊥
/-- Laplace: support `(−∞, ∞)`. -/
def max : EReal := ⊤
end Laplace

/-! ### Levy(μ, c) — pdf √(c/2π) e^{−c/(2(x−μ))}/(x−μ)^{3/2} -/
namespace Levy
/-- Levy(μ,c): median `μ + c/(2 (erfc⁻¹(1/2))²)` (`erfc⁻¹ = SF.erfc_inv`). -/
def median [SF ℝ] (mu c : ℝ) : ℝ := mu + c / (2 * (SF.erfc_inv (1 / 2 : ℝ)) ^ 2)
/-- Levy(μ,c): mode `μ + c/3`. -/
def mode (mu c : ℝ) : ℝ := mu + c / 3
/-- Levy(μ,c): support `[μ, ∞)`. -/
def min (mu : ℝ) : ℝ := mu
/-- Levy(μ,c): support `[μ, ∞)`. -/
def max : EReal := ⊤
end Levy

/-! ### LogNormal(μ, σ) — pdf e^{−(ln x − μ)²/(2σ²)}/(xσ√(2π)) -/
namespace LogNormal
/-- LogNormal(μ,σ): median `e^μ`. -/
def median (mu : ℝ) : ℝ := Real.exp mu
/-- LogNormal(μ,σ): mode `e^{μ − σ²}`. -/
def mode (mu sigma : ℝ) : ℝ := Real.exp (mu - sigma ^ 2)
/-- LogNormal: support `(0, ∞)`. -/
def min : ℝ := 0
/-- LogNormal: support `(0, ∞)`. -/
def max : EReal := ⊤
end LogNormal

/-! ### NegativeBinomial(r, p) — pmf Γ(r+k)/(Γ(r)k!) p^r (1−p)^k, k = number of failures -/
namespace NegativeBinomial
/-- NegativeBinomial(r,p) (failures before the r-th success, success probability p):
    mode `⌊(r − 1)(1 − p)/p⌋` for `r > 1`, `0` for `r ≤ 1`. -/
def mode (r p : ℝ) : ℤ := if 1 < r then ⌊(r - 1) * (1 - p) / p⌋ else 0
/-- NegativeBinomial: support `{0, 1, 2, …}`. -/
def min : ℤ := 0
/-- NegativeBinomial: support `{0, 1, 2, …}` — unbounded, except the point mass at `0` for `p = 1`. -/
def max (p : ℝ) : EReal := if p = 1 then 0 else ⊤
/- median: no closed form; statrs implements no `Median` for NegativeBinomial. -/
end NegativeBinomial

/-! ### Normal(μ, σ) -/
namespace Normal
/-- Normal(μ,σ): median `μ`. -/
def median (mu : ℝ) : ℝ := mu
/-- Normal(μ,σ): mode `μ`. -/
def mode (mu : ℝ) : ℝ := mu
/-- Normal: support `(−∞, ∞)`. -/
def min : EReal := ⊥
/-- Normal: support `(−∞, ∞)`. -/
def max : EReal := ⊤
end Normal

/-! ### Pareto(scale x_m, shape α) — pdf α x_m^α / x^{α+1}, x ≥ x_m -/
namespace Pareto
/-- Pareto(x_m,α): median `x_m · 2^{1/α}`. -/
def median (xm a : ℝ) : ℝ := xm * (2 : ℝ) ^ (1 / a)
/-- Pareto(x_m,α): mode `x_m`. -/
def mode (xm : ℝ) : ℝ := xm
/-- Pareto(x_m,α): support `[x_m, ∞)`. -/
def min (xm : ℝ) : ℝ := xm
/-- Pareto(x_m,α): support `[x_m, ∞)`. -/
def max : EReal := ⊤
end Pareto

/-! ### Poisson(λ) — pmf e^{−λ} λ^k/k! -/
namespace Poisson
/-- Poisson(λ): probability mass `e^{−λ} λ^k/k!`. -/
def pmf (l : ℝ) (k : ℕ) : ℝ := Real.exp (-l) * l ^ k / (k.factorial : ℝ)
/-- `m` is a median of Poisson(λ): `P(X ≤ m) ≥ 1/2` and `P(X < m) ≤ 1/2`.  There is no closed form;
    `λ − ln 2 ≤ m < λ + 1/3`. -/
def IsMedian (l : ℝ) (m : ℕ) : Prop :=
  1 / 2 ≤ ∑ k ∈ Finset.range (m + 1), pmf l k ∧ ∑ k ∈ Finset.range m, pmf l k ≤ 1 / 2
/-- statrs' documented formula `max(0, ⌊λ + 1/3 − 0.02/λ⌋)` (Wikipedia: `≈ ⌊λ + 1/3 − 1/(50λ)⌋`,
    which goes negative for λ < 0.0554; the support starts at 0, so it is clamped there).
    An approximation: no claim that it is a median for every λ. -/
def medianApprox (l : ℝ) : ℤ := max 0 ⌊l + 1 / 3 - 1 / (50 * l)⌋
/-- Poisson(λ): mode `⌊λ⌋` (for integer λ also `λ − 1`; the larger one is reported). -/
def mode (l : ℝ) : ℤ := ⌊l⌋
/-- Poisson: support `{0, 1, 2, …}`. -/
def min : ℤ := 0
/-- Poisson: support `{0, 1, 2, …}` — unbounded. -/
def max : EReal := ⊤
/-- the value statrs' doc comment of `max()` states (`2^63 − 1`); the code returns `u64Max`. -/
def maxDocumented : ℤ := 2 ^ 63 - 1
end Poisson

/-! ### StudentsT(location μ, scale σ, freedom ν) -/
namespace StudentsT
/-- StudentsT(μ,σ,ν): median `μ`. -/
def median (mu : ℝ) : ℝ := mu
/-- StudentsT(μ,σ,ν): mode `μ`. -/
def mode (mu : ℝ) : ℝ := mu
/-- StudentsT: support `(−∞, ∞)`. -/
def min : EReal := ⊥
/-- StudentsT: support `(−∞, ∞)`. -/
def max : EReal := ⊤
end StudentsT

/-! ### Triangular(min a, max b, mode c) -/
namespace Triangular
/-- Triangular(a,b,c): median `a + √((b − a)(c − a)/2)` if `c ≥ (a + b)/2`, else
    `b − √((b − a)(b − c)/2)`. -/
def median (a b c : ℝ) : ℝ :=
  if (a + b) / 2 ≤ c then a + Real.sqrt ((b - a) * (c - a) / 2)
  else b - Real.sqrt ((b - a) * (b - c) / 2)
/-- Triangular(a,b,c): mode `c`. -/
def mode (c : ℝ) : ℝ := c
/-- Triangular(a,b,c): support `[a, b]`. -/
def min (a : ℝ) : ℝ := a
/-- Triangular(a,b,c): support `[a, b]`. -/
def max (b : ℝ) : ℝ := b
end Triangular

/-! ### Uniform(a, b) -/
namespace Uniform
/-- Uniform(a,b): median `(a + b)/2`. -/
def median (a b : ℝ) : ℝ := (a + b) / 2
/-- Uniform(a,b): the mode is "any value in `[a, b]`". -/
def IsMode (a b m : ℝ) : Prop := a ≤ m ∧ m ≤ b
/-- statrs' documented choice: "mode simply returns the middle element", `(a + b)/2`. -/
def modeConvention (a b : ℝ) : ℝ := (a + b) / 2
/-- Uniform(a,b): support `[a, b]`. -/
def min (a : ℝ) : ℝ := a
/-- Uniform(a,b): support `[a, b]`. -/
def max (b : ℝ) : ℝ := b
end Uniform

/-! ### Weibull(shape k, scale λ) — pdf (k/λ)(x/λ)^{k−1} e^{−(x/λ)^k} -/
namespace Weibull
/-- Weibull(k,λ): median `λ (ln 2)^{1/k}`. -/
def median (k l : ℝ) : ℝ := l * (Real.log 2) ^ (1 / k)
/-- the interior stationary point `λ((k − 1)/k)^{1/k}` of the density (meaningful for `k > 1`). -/
def modeFormula (k l : ℝ) : ℝ := l * ((k - 1) / k) ^ (1 / k)
/-- Weibull(k,λ): mode `λ((k − 1)/k)^{1/k}` for `k > 1`, `0` for `k ≤ 1` (Wikipedia "Weibull
    distribution"). -/
def mode (k l : ℝ) : ℝ := if 1 < k then modeFormula k l else 0
/-- Weibull: support `[0, ∞)`. -/
def min : ℝ := 0
/-- Weibull: support `[0, ∞)`. -/
def max : EReal := ⊤
end Weibull

end

end Statrs.Spec.Location
