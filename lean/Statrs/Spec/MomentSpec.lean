/-
  Spec definitions for C07 (moments): what it means for `variance()` and `std_dev()` of one
  object to be consistent.
-/
import Statrs.Real.Simp
import Mathlib.Tactic
namespace Statrs.Spec

/-- `variance()` / `std_dev()` of one object are consistent: defined together, `variance ≥ 0`,
    `std_dev ≥ 0` and `std_dev² = variance`. -/
def MomentsConsistent (var sd : Option ℝ) : Prop :=
  sd.isSome = var.isSome ∧ (∀ v, var = some v → 0 ≤ v) ∧
    (∀ s v, sd = some s → var = some v → 0 ≤ s ∧ s * s = v)

/-- the default `std_dev = variance.map sqrt` is consistent as soon as the variance is `≥ 0` -/
theorem consistent_of_default {var : Option ℝ} (hnn : ∀ v, var = some v → 0 ≤ v) :
    MomentsConsistent var (var.map (fun v => RFun.sqrt v)) := by
  refine ⟨by simp, hnn, ?_⟩
  intro s v hs hv
  subst hv
  simp only [Option.map_some, Option.some.injEq] at hs
  subst hs
  exact ⟨Real.sqrt_nonneg v, Real.mul_self_sqrt (hnn v rfl)⟩

theorem consistent_none : MomentsConsistent none none := by
  refine ⟨rfl, ?_, ?_⟩
  · intro v h; cases h
  · intro s v h; cases h

theorem consistent_some {v s : ℝ} (hs : 0 ≤ s) (hsv : s * s = v) :
    MomentsConsistent (some v) (some s) := by
  refine ⟨rfl, ?_, ?_⟩
  · intro v' h; cases h; rw [← hsv]; exact mul_self_nonneg s
  · intro s' v' h1 h2; cases h1; cases h2; exact ⟨hs, hsv⟩

end Statrs.Spec
