/-
  Statrs.Spec.Moments — TEXTBOOK closed forms of mean / variance / skewness / (differential or
  Shannon) entropy IN NATS for the 27 univariate families of statrs, written by hand over ℝ in the
  SAME parameterisation as the family's `pdf`/`pmf` in the generated model (rate vs scale etc.).

  These are the reference side of the C07 "formula pin" theorems (`Props/C07/FormulaPins*.lean`):
  nothing here is copied from `Statrs/Gen`; every definition cites the standard reference form.
  Γ, ln Γ, ψ (digamma), B, ln B are not all available in Mathlib, so they are taken as the values
  of the abstract special-function instance `SF ℝ` (`SF.gamma`, `SF.ln_gamma`, `SF.digamma`,
  `SF.beta`, `SF.ln_beta`); everything else (`Real.log`, `Real.exp`, `Real.sqrt`, `Real.pi`,
  `Real.eulerMascheroniConstant`) is Mathlib's true function.

  Conventions: a moment that does not exist has no definition here (the pin theorem then states
  `= none`); where the code uses a documented approximation (large-dof series of `Chi::mean`,
  Stirling-type series of `Poisson::entropy`, decimal literals in `Gumbel::skewness`,
  `Levy::entropy`) the approximation gets its OWN definition with the exact coefficients, next to
  the textbook one — the two are never identified.
-/
import Statrs.Real.Simp
import Statrs.Gen.SF
import Mathlib.Tactic
import Mathlib.NumberTheory.Harmonic.EulerMascheroni
import Mathlib.Analysis.SpecialFunctions.Pow.Real
namespace Statrs.Spec.Moments
open Statrs Statrs.Gen

noncomputable section

/-! ### Bernoulli(p) — pmf P(1) = p, P(0) = 1 − p -/
namespace Bernoulli
/-- Bernoulli(p): mean `p`. -/
def mean (p : ℝ) : ℝ := p
/-- Bernoulli(p): variance `p(1 − p)`. -/
def variance (p : ℝ) : ℝ := p * (1 - p)
/-- Bernoulli(p): skewness `(1 − 2p)/√(p(1 − p))`. -/
def skewness (p : ℝ) : ℝ := (1 - 2 * p) / Real.sqrt (p * (1 - p))
/-- Bernoulli(p): entropy `−p ln p − (1 − p) ln(1 − p)` nats (binary entropy function; `0 ln 0 = 0`,
    which is also `Real.log 0 = 0`). -/
def entropy (p : ℝ) : ℝ := -p * Real.log p - (1 - p) * Real.log (1 - p)
end Bernoulli

/-! ### Beta(a, b) — pdf x^{a−1}(1−x)^{b−1}/B(a,b) on [0,1] -/
namespace Beta
/-- Beta(a,b): mean `a/(a + b)`. -/
def mean (a b : ℝ) : ℝ := a / (a + b)
/-- Beta(a,b): variance `ab/((a + b)²(a + b + 1))`. -/
def variance (a b : ℝ) : ℝ := a * b / ((a + b) ^ 2 * (a + b + 1))
/-- Beta(a,b): skewness `2(b − a)√(a + b + 1)/((a + b + 2)√(ab))`. -/
def skewness (a b : ℝ) : ℝ :=
  2 * (b - a) * Real.sqrt (a + b + 1) / ((a + b + 2) * Real.sqrt (a * b))
/-- Beta(a,b): entropy `ln B(a,b) − (a−1)ψ(a) − (b−1)ψ(b) + (a+b−2)ψ(a+b)`. -/
def entropy [SF ℝ] (a b : ℝ) : ℝ :=
  SF.ln_beta a b - (a - 1) * SF.digamma a - (b - 1) * SF.digamma b
    + (a + b - 2) * SF.digamma (a + b)
end Beta

/-! ### Binomial(n, p) — pmf C(n,k) p^k (1−p)^{n−k}, k = 0..n -/
namespace Binomial
/-- Binomial(n,p): mean `np`. -/
def mean (n : ℤ) (p : ℝ) : ℝ := n * p
/-- Binomial(n,p): variance `np(1 − p)`. -/
def variance (n : ℤ) (p : ℝ) : ℝ := n * p * (1 - p)
/-- Binomial(n,p): skewness `(1 − 2p)/√(np(1 − p))`. -/
def skewness (n : ℤ) (p : ℝ) : ℝ := (1 - 2 * p) / Real.sqrt (n * p * (1 - p))
/-- Binomial(n,p): probability mass `C(n,k) p^k (1−p)^{n−k}` with the binomial coefficient taken
    as `exp (ln C(n,k))`, `ln C(n,k) = SF.ln_binomial n k`. -/
def pmf [SF ℝ] (n : ℕ) (p : ℝ) (k : ℕ) : ℝ :=
  Real.exp (SF.ln_binomial (n : ℤ) (k : ℤ)) * p ^ k * (1 - p) ^ (n - k)
/-- Binomial(n,p): Shannon entropy `−Σ_{k=0}^{n} P(k) ln P(k)` nats (there is no closed form);
    `0` for the degenerate `p ∈ {0, 1}` (point mass). -/
def entropy [SF ℝ] (n : ℕ) (p : ℝ) : ℝ :=
  if p = 0 ∨ p = 1 then 0
  else -∑ k ∈ Finset.range (n + 1), pmf n p k * Real.log (pmf n p k)
end Binomial

/-! ### Cauchy(x₀, γ) — pdf 1/(πγ(1 + ((x−x₀)/γ)²)) -/
namespace Cauchy
/-- Cauchy(x₀,γ): mean, variance, skewness undefined; entropy `ln(4πγ)`. -/
def entropy (γ : ℝ) : ℝ := Real.log (4 * Real.pi * γ)
end Cauchy

/-! ### Chi(k) — pdf 2^{1−k/2} x^{k−1} e^{−x²/2}/Γ(k/2), x > 0 -/
namespace Chi
/-- Chi(k): mean `μ = √2·Γ((k+1)/2)/Γ(k/2)` (Γ = `SF.gamma`). -/
def mean [SF ℝ] (k : ℝ) : ℝ := Real.sqrt 2 * SF.gamma ((k + 1) / 2) / SF.gamma (k / 2)
/-- Chi(k), large k: the asymptotic product form
    `μ ≈ √k / ((1 + 1/(4k))(1 + 1/(32k²))(1 − 3/(64k³)))`, whose expansion
    `√k(1 − 1/(4k) + 1/(32k²) + 5/(128k³) + O(k⁻⁴))` agrees with that of `√2Γ((k+1)/2)/Γ(k/2)`.
    statrs switches to it for `k > 300`.  It is an approximation, NOT the textbook value. -/
def meanAsymptotic (k : ℝ) : ℝ :=
  Real.sqrt k / ((1 + 1 / (4 * k)) * (1 + 1 / (32 * k ^ 2)) * (1 - 3 / (64 * k ^ 3)))
/-- Chi(k): variance `k − μ²` for a given value `μ` of the mean. -/
def varianceOf (k μ : ℝ) : ℝ := k - μ ^ 2
/-- Chi(k): variance `k − μ²`, `μ` the textbook mean. -/
def variance [SF ℝ] (k : ℝ) : ℝ := varianceOf k (mean k)
/-- Chi(k): skewness `μ(1 − 2σ²)/σ³` for given mean `μ` and standard deviation `σ`. -/
def skewnessOf (μ σ : ℝ) : ℝ := μ * (1 - 2 * σ ^ 2) / σ ^ 3
/-- Chi(k): skewness `μ(1 − 2σ²)/σ³`, `σ = √(k − μ²)`. -/
def skewness [SF ℝ] (k : ℝ) : ℝ := skewnessOf (mean k) (Real.sqrt (variance k))
/-- Chi(k): entropy `ln Γ(k/2) + (k − ln 2 − (k−1)ψ(k/2))/2`. -/
def entropy [SF ℝ] (k : ℝ) : ℝ :=
  SF.ln_gamma (k / 2) + (k - Real.log 2 - (k - 1) * SF.digamma (k / 2)) / 2
end Chi

/-! ### ChiSquared(k) = Gamma(shape k/2, rate 1/2) -/
namespace ChiSquared
/-- χ²(k): mean `k`. -/
def mean (k : ℝ) : ℝ := k
/-- χ²(k): variance `2k`. -/
def variance (k : ℝ) : ℝ := 2 * k
/-- χ²(k): skewness `√(8/k)`. -/
def skewness (k : ℝ) : ℝ := Real.sqrt (8 / k)
/-- χ²(k): entropy `k/2 + ln 2 + ln Γ(k/2) + (1 − k/2)ψ(k/2)`. -/
def entropy [SF ℝ] (k : ℝ) : ℝ :=
  k / 2 + Real.log 2 + SF.ln_gamma (k / 2) + (1 - k / 2) * SF.digamma (k / 2)
end ChiSquared

/-! ### Dirac(v) — point mass at v -/
namespace Dirac
/-- Dirac(v): mean `v`. -/
def mean (v : ℝ) : ℝ := v
/-- Dirac(v): variance `0`. -/
def variance : ℝ := 0
/-- Dirac(v): skewness is `0/0` (undefined) in the textbook; statrs' documented convention is `0`. -/
def skewness : ℝ := 0
/-- Dirac(v): (Shannon) entropy `0`. -/
def entropy : ℝ := 0
end Dirac

/-! ### DiscreteUniform(a, b) — pmf 1/(b − a + 1) on {a..b} -/
namespace DiscreteUniform
/-- DiscreteUniform(a,b): mean `(a + b)/2`. -/
def mean (a b : ℤ) : ℝ := ((a : ℝ) + b) / 2
/-- DiscreteUniform(a,b): variance `((b − a + 1)² − 1)/12`. -/
def variance (a b : ℤ) : ℝ := (((b : ℝ) - a + 1) ^ 2 - 1) / 12
/-- DiscreteUniform(a,b): skewness `0`. -/
def skewness : ℝ := 0
/-- DiscreteUniform(a,b): entropy `ln(b − a + 1)`. -/
def entropy (a b : ℤ) : ℝ := Real.log ((b : ℝ) - a + 1)
end DiscreteUniform

/-! ### Gamma(shape k, rate λ) — pdf λ^k x^{k−1} e^{−λx}/Γ(k) -/
namespace Gamma
/-- Gamma(shape k, rate λ): mean `k/λ`. -/
def mean (k l : ℝ) : ℝ := k / l
/-- Gamma(shape k, rate λ): variance `k/λ²`. -/
def variance (k l : ℝ) : ℝ := k / l ^ 2
/-- Gamma(shape k, rate λ): skewness `2/√k`. -/
def skewness (k : ℝ) : ℝ := 2 / Real.sqrt k
/-- Gamma(shape k, rate λ): entropy `k − ln λ + ln Γ(k) + (1 − k)ψ(k)`. -/
def entropy [SF ℝ] (k l : ℝ) : ℝ :=
  k - Real.log l + SF.ln_gamma k + (1 - k) * SF.digamma k
end Gamma

/-! ### Erlang(k, λ) = Gamma(shape k ∈ ℕ⁺, rate λ) -/
namespace Erlang
/-- Erlang(k,λ): mean `k/λ`. -/
def mean (k l : ℝ) : ℝ := k / l
/-- Erlang(k,λ): variance `k/λ²`. -/
def variance (k l : ℝ) : ℝ := k / l ^ 2
/-- Erlang(k,λ): skewness `2/√k`. -/
def skewness (k : ℝ) : ℝ := 2 / Real.sqrt k
/-- Erlang(k,λ): entropy `(1 − k)ψ(k) + ln Γ(k) − ln λ + k`  (= `(1−k)ψ(k) + ln(Γ(k)/λ) + k`). -/
def entropy [SF ℝ] (k l : ℝ) : ℝ :=
  (1 - k) * SF.digamma k + SF.ln_gamma k - Real.log l + k
end Erlang

/-! ### Exp(rate λ) — pdf λ e^{−λx} -/
namespace Exp
/-- Exp(λ): mean `1/λ`. -/
def mean (l : ℝ) : ℝ := 1 / l
/-- Exp(λ): variance `1/λ²`. -/
def variance (l : ℝ) : ℝ := 1 / l ^ 2
/-- Exp(λ): skewness `2`. -/
def skewness : ℝ := 2
/-- Exp(λ): entropy `1 − ln λ`. -/
def entropy (l : ℝ) : ℝ := 1 - Real.log l
end Exp

/-! ### FisherSnedecor(d₁, d₂) -/
namespace FisherSnedecor
/-- F(d₁,d₂): mean `d₂/(d₂ − 2)` for `d₂ > 2`. -/
def mean (d2 : ℝ) : ℝ := d2 / (d2 - 2)
/-- F(d₁,d₂): variance `2d₂²(d₁ + d₂ − 2)/(d₁(d₂ − 2)²(d₂ − 4))` for `d₂ > 4`. -/
def variance (d1 d2 : ℝ) : ℝ :=
  2 * d2 ^ 2 * (d1 + d2 - 2) / (d1 * (d2 - 2) ^ 2 * (d2 - 4))
/-- F(d₁,d₂): skewness `(2d₁ + d₂ − 2)√(8(d₂ − 4))/((d₂ − 6)√(d₁(d₁ + d₂ − 2)))` for `d₂ > 6`. -/
def skewness (d1 d2 : ℝ) : ℝ :=
  (2 * d1 + d2 - 2) * Real.sqrt (8 * (d2 - 4)) / ((d2 - 6) * Real.sqrt (d1 * (d1 + d2 - 2)))
/- entropy: finite in the textbook, not reported by statrs (`none`); no definition. -/
end FisherSnedecor

/-! ### Geometric(p) — pmf (1−p)^{k−1} p, k = 1, 2, … -/
namespace Geometric
/-- Geometric(p) on {1,2,…}: mean `1/p`. -/
def mean (p : ℝ) : ℝ := 1 / p
/-- Geometric(p): variance `(1 − p)/p²`. -/
def variance (p : ℝ) : ℝ := (1 - p) / p ^ 2
/-- Geometric(p): skewness `(2 − p)/√(1 − p)`. -/
def skewness (p : ℝ) : ℝ := (2 - p) / Real.sqrt (1 - p)
/-- Geometric(p): entropy `(−(1 − p) ln(1 − p) − p ln p)/p` NATS. -/
def entropy (p : ℝ) : ℝ := (-(1 - p) * Real.log (1 - p) - p * Real.log p) / p
/-- the same entropy in BITS: `(−(1 − p) log₂(1 − p) − p log₂ p)/p` (what statrs returns). -/
def entropyBits (p : ℝ) : ℝ := entropy p / Real.log 2
end Geometric

/-! ### Gumbel(μ, β) — pdf (1/β) e^{−z − e^{−z}}, z = (x − μ)/β -/
namespace Gumbel
/-- Gumbel(μ,β): mean `μ + γβ` (γ the Euler–Mascheroni constant). -/
def mean (mu beta : ℝ) : ℝ := mu + Real.eulerMascheroniConstant * beta
/-- Gumbel(μ,β): variance `π²β²/6`. -/
def variance (beta : ℝ) : ℝ := Real.pi ^ 2 * beta ^ 2 / 6
/-- Gumbel(μ,β): standard deviation `βπ/√6`. -/
def stdDev (beta : ℝ) : ℝ := beta * Real.pi / Real.sqrt 6
/-- Apéry's constant ζ(3) = Σ_{n≥1} 1/n³. -/
def zeta3 : ℝ := ∑' n : ℕ, 1 / ((n : ℝ) + 1) ^ 3
/-- Gumbel(μ,β): skewness `12√6 ζ(3)/π³` (≈ 1.1395470994…). -/
def skewness : ℝ := 12 * Real.sqrt 6 * zeta3 / Real.pi ^ 3
/-- the 6-digit decimal statrs returns instead of `12√6 ζ(3)/π³`. -/
def skewnessLiteral : ℝ := 113955 / 100000
/-- Gumbel(μ,β): entropy `ln β + γ + 1`. -/
def entropy (beta : ℝ) : ℝ := Real.log beta + Real.eulerMascheroniConstant + 1
end Gumbel

/-! ### Hypergeometric(N, K, n) — pmf C(K,k)C(N−K,n−k)/C(N,n) -/
namespace Hypergeometric
/-- Hypergeometric(N,K,n): mean `nK/N` (`N ≠ 0`). -/
def mean (N K n : ℤ) : ℝ := (n : ℝ) * K / N
/-- Hypergeometric(N,K,n): variance `n·(K/N)·((N − K)/N)·((N − n)/(N − 1))` (`N > 1`). -/
def variance (N K n : ℤ) : ℝ :=
  (n : ℝ) * ((K : ℝ) / N) * (((N : ℝ) - K) / N) * (((N : ℝ) - n) / ((N : ℝ) - 1))
/-- Hypergeometric(N,K,n): skewness
    `(N − 2K)√(N − 1)(N − 2n)/(√(nK(N − K)(N − n))·(N − 2))` (`N > 2`). -/
def skewness (N K n : ℤ) : ℝ :=
  ((N : ℝ) - 2 * K) * Real.sqrt ((N : ℝ) - 1) * ((N : ℝ) - 2 * n)
    / (Real.sqrt ((n : ℝ) * K * ((N : ℝ) - K) * ((N : ℝ) - n)) * ((N : ℝ) - 2))
/- entropy: no closed form; not reported by statrs (`none`). -/
end Hypergeometric

/-! ### InverseGamma(shape α, rate/scale β) — pdf β^α x^{−α−1} e^{−β/x}/Γ(α) -/
namespace InverseGamma
/-- InverseGamma(α,β): mean `β/(α − 1)` for `α > 1`. -/
def mean (a b : ℝ) : ℝ := b / (a - 1)
/-- InverseGamma(α,β): variance `β²/((α − 1)²(α − 2))` for `α > 2`. -/
def variance (a b : ℝ) : ℝ := b ^ 2 / ((a - 1) ^ 2 * (a - 2))
/-- InverseGamma(α,β): skewness `4√(α − 2)/(α − 3)` for `α > 3`. -/
def skewness (a : ℝ) : ℝ := 4 * Real.sqrt (a - 2) / (a - 3)
/-- InverseGamma(α,β): entropy `α + ln β + ln Γ(α) − (1 + α)ψ(α)`. -/
def entropy [SF ℝ] (a b : ℝ) : ℝ :=
  a + Real.log b + SF.ln_gamma a - (1 + a) * SF.digamma a
end InverseGamma

/-! ### Laplace(μ, b) — pdf e^{−|x−μ|/b}/(2b) -/
namespace Laplace
/-- Laplace(μ,b): mean `μ`. -/
def mean (mu : ℝ) : ℝ := mu
/-- Laplace(μ,b): variance `2b²`. -/
def variance (b : ℝ) : ℝ := 2 * b ^ 2
/-- Laplace(μ,b): skewness `0`. -/
def skewness : ℝ := 0
/-- Laplace(μ,b): entropy `ln(2be)`. -/
def entropy (b : ℝ) : ℝ := Real.log (2 * b * Real.exp 1)
end Laplace

/-! ### Levy(μ, c) — pdf √(c/2π) e^{−c/(2(x−μ))}/(x−μ)^{3/2} -/
namespace Levy
/-- Levy(μ,c): mean `+∞`, variance `+∞`, skewness undefined;
    entropy `(1 + 3γ + ln(16πc²))/2`. -/
def entropy (c : ℝ) : ℝ :=
  (1 + 3 * Real.eulerMascheroniConstant + Real.log (16 * Real.pi * c ^ 2)) / 2
/-- the c-free part `(1 + 3γ + ln 16π)/2` (≈ 3.3244828…) of the entropy. -/
def entropyConst : ℝ := (1 + 3 * Real.eulerMascheroniConstant + Real.log (16 * Real.pi)) / 2
/-- the decimal literal statrs uses for `(1 + 3γ + ln 16π)/2` (the `f64` nearest to it, written
    out exactly). -/
def entropyConstLiteral : ℝ := 3.32448280139688989720525569282472133636474609375
end Levy

/-! ### LogNormal(μ, σ) — pdf e^{−(ln x − μ)²/(2σ²)}/(xσ√(2π)) -/
namespace LogNormal
/-- LogNormal(μ,σ): mean `e^{μ + σ²/2}`. -/
def mean (mu sigma : ℝ) : ℝ := Real.exp (mu + sigma ^ 2 / 2)
/-- LogNormal(μ,σ): variance `(e^{σ²} − 1)e^{2μ + σ²}`. -/
def variance (mu sigma : ℝ) : ℝ := (Real.exp (sigma ^ 2) - 1) * Real.exp (2 * mu + sigma ^ 2)
/-- LogNormal(μ,σ): skewness `(e^{σ²} + 2)√(e^{σ²} − 1)`. -/
def skewness (sigma : ℝ) : ℝ := (Real.exp (sigma ^ 2) + 2) * Real.sqrt (Real.exp (sigma ^ 2) - 1)
/-- LogNormal(μ,σ): entropy `ln(σ e^{μ + 1/2} √(2π))`. -/
def entropy (mu sigma : ℝ) : ℝ :=
  Real.log (sigma * Real.exp (mu + 1 / 2) * Real.sqrt (2 * Real.pi))
end LogNormal

/-! ### NegativeBinomial(r, p) — pmf Γ(r+k)/(Γ(r)k!) p^r (1−p)^k, k = number of failures -/
namespace NegativeBinomial
/-- NegativeBinomial(r,p) (failures before the r-th success, success probability p):
    mean `r(1 − p)/p`. -/
def mean (r p : ℝ) : ℝ := r * (1 - p) / p
/-- NegativeBinomial(r,p): variance `r(1 − p)/p²`. -/
def variance (r p : ℝ) : ℝ := r * (1 - p) / p ^ 2
/-- NegativeBinomial(r,p): skewness `(2 − p)/√(r(1 − p))`. -/
def skewness (r p : ℝ) : ℝ := (2 - p) / Real.sqrt (r * (1 - p))
/- entropy: no closed form; not reported by statrs (`none`). -/
end NegativeBinomial

/-! ### Normal(μ, σ) -/
namespace Normal
/-- Normal(μ,σ): mean `μ`. -/
def mean (mu : ℝ) : ℝ := mu
/-- Normal(μ,σ): variance `σ²`. -/
def variance (sigma : ℝ) : ℝ := sigma ^ 2
/-- Normal(μ,σ): standard deviation `σ`. -/
def stdDev (sigma : ℝ) : ℝ := sigma
/-- Normal(μ,σ): skewness `0`. -/
def skewness : ℝ := 0
/-- Normal(μ,σ): entropy `½ ln(2πeσ²)`. -/
def entropy (sigma : ℝ) : ℝ := 1 / 2 * Real.log (2 * Real.pi * Real.exp 1 * sigma ^ 2)
end Normal

/-! ### Pareto(scale x_m, shape α) — pdf α x_m^α / x^{α+1}, x ≥ x_m -/
namespace Pareto
/-- Pareto(x_m,α): mean `αx_m/(α − 1)` for `α > 1`. -/
def mean (xm a : ℝ) : ℝ := a * xm / (a - 1)
/-- Pareto(x_m,α): variance `x_m²α/((α − 1)²(α − 2))` for `α > 2`. -/
def variance (xm a : ℝ) : ℝ := xm ^ 2 * a / ((a - 1) ^ 2 * (a - 2))
/-- Pareto(x_m,α): skewness `(2(1 + α)/(α − 3))√((α − 2)/α)` for `α > 3`. -/
def skewness (a : ℝ) : ℝ := 2 * (1 + a) / (a - 3) * Real.sqrt ((a - 2) / a)
/-- Pareto(x_m,α): entropy `ln(x_m/α) + 1/α + 1`  (= `ln((x_m/α)e^{1 + 1/α})`). -/
def entropy (xm a : ℝ) : ℝ := Real.log (xm / a) + 1 / a + 1
end Pareto

/-! ### Poisson(λ) — pmf e^{−λ} λ^k/k! -/
namespace Poisson
/-- Poisson(λ): mean `λ`. -/
def mean (l : ℝ) : ℝ := l
/-- Poisson(λ): variance `λ`. -/
def variance (l : ℝ) : ℝ := l
/-- Poisson(λ): skewness `1/√λ`. -/
def skewness (l : ℝ) : ℝ := 1 / Real.sqrt l
/-- Poisson(λ): probability mass `e^{−λ} λ^k/k!`. -/
def pmf (l : ℝ) (k : ℕ) : ℝ := Real.exp (-l) * l ^ k / (k.factorial : ℝ)
/-- Poisson(λ): Shannon entropy `−Σ_{k≥0} P(k) ln P(k)` nats
    (= `λ(1 − ln λ) + e^{−λ} Σ λ^k ln(k!)/k!`; no closed form). -/
def entropy (l : ℝ) : ℝ := -∑' k : ℕ, pmf l k * Real.log (pmf l k)
/-- Poisson(λ), large λ: the asymptotic series
    `½ ln(2πeλ) − 1/(12λ) − 1/(24λ²) − 19/(360λ³)` (+ O(λ⁻⁴)).  An approximation valid for large
    λ only; statrs uses it for every λ. -/
def entropyAsymptotic (l : ℝ) : ℝ :=
  1 / 2 * Real.log (2 * Real.pi * Real.exp 1 * l) - 1 / (12 * l) - 1 / (24 * l ^ 2)
    - 19 / (360 * l ^ 3)
end Poisson

/-! ### StudentsT(location μ, scale σ, freedom ν) -/
namespace StudentsT
/-- StudentsT(μ,σ,ν): mean `μ` for `ν > 1`. -/
def mean (mu : ℝ) : ℝ := mu
/-- StudentsT(μ,σ,ν): variance `σ²ν/(ν − 2)` for `ν > 2`. -/
def variance (sigma nu : ℝ) : ℝ := sigma ^ 2 * nu / (nu - 2)
/-- StudentsT(μ,σ,ν): skewness `0` for `ν > 3`. -/
def skewness : ℝ := 0
/-- standard Student t(ν): entropy
    `((ν+1)/2)(ψ((ν+1)/2) − ψ(ν/2)) + ln(√ν B(ν/2, 1/2))`. -/
def entropyStd [SF ℝ] (nu : ℝ) : ℝ :=
  (nu + 1) / 2 * (SF.digamma ((nu + 1) / 2) - SF.digamma (nu / 2))
    + Real.log (Real.sqrt nu * SF.beta (nu / 2) (1 / 2))
/-- StudentsT(μ,σ,ν): `Y = μ + σX` has density `f_X((y−μ)/σ)/σ`, so
    `h(Y) = h(X) + ln σ` — the scale ENTERS WITH A PLUS SIGN. -/
def entropy [SF ℝ] (sigma nu : ℝ) : ℝ := entropyStd nu + Real.log sigma
end StudentsT

/-! ### Triangular(min a, max b, mode c) -/
namespace Triangular
/-- Triangular(a,b,c): mean `(a + b + c)/3`. -/
def mean (a b c : ℝ) : ℝ := (a + b + c) / 3
/-- Triangular(a,b,c): variance `(a² + b² + c² − ab − ac − bc)/18`. -/
def variance (a b c : ℝ) : ℝ := (a ^ 2 + b ^ 2 + c ^ 2 - a * b - a * c - b * c) / 18
/-- Triangular(a,b,c): skewness
    `√2 (a + b − 2c)(2a − b − c)(a − 2b + c)/(5 (a² + b² + c² − ab − ac − bc)^{3/2})`. -/
def skewness (a b c : ℝ) : ℝ :=
  Real.sqrt 2 * (a + b - 2 * c) * (2 * a - b - c) * (a - 2 * b + c)
    / (5 * (a ^ 2 + b ^ 2 + c ^ 2 - a * b - a * c - b * c) ^ (3 / 2 : ℝ))
/-- Triangular(a,b,c): entropy `1/2 + ln((b − a)/2)`. -/
def entropy (a b : ℝ) : ℝ := 1 / 2 + Real.log ((b - a) / 2)
end Triangular

/-! ### Uniform(a, b) -/
namespace Uniform
/-- Uniform(a,b): mean `(a + b)/2`. -/
def mean (a b : ℝ) : ℝ := (a + b) / 2
/-- Uniform(a,b): variance `(b − a)²/12`. -/
def variance (a b : ℝ) : ℝ := (b - a) ^ 2 / 12
/-- Uniform(a,b): skewness `0`. -/
def skewness : ℝ := 0
/-- Uniform(a,b): entropy `ln(b − a)`. -/
def entropy (a b : ℝ) : ℝ := Real.log (b - a)
end Uniform

/-! ### Weibull(shape k, scale λ) — pdf (k/λ)(x/λ)^{k−1} e^{−(x/λ)^k} -/
namespace Weibull
/-- Weibull(k,λ): mean `λΓ(1 + 1/k)`. -/
def mean [SF ℝ] (k l : ℝ) : ℝ := l * SF.gamma (1 + 1 / k)
/-- Weibull(k,λ): variance `λ²Γ(1 + 2/k) − μ²`. -/
def variance [SF ℝ] (k l : ℝ) : ℝ := l ^ 2 * SF.gamma (1 + 2 / k) - (mean k l) ^ 2
/-- Weibull(k,λ): skewness `(λ³Γ(1 + 3/k) − 3μσ² − μ³)/σ³`, `σ = √variance`. -/
def skewness [SF ℝ] (k l : ℝ) : ℝ :=
  (l ^ 3 * SF.gamma (1 + 3 / k) - 3 * mean k l * Real.sqrt (variance k l) ^ 2 - (mean k l) ^ 3)
    / Real.sqrt (variance k l) ^ 3
/-- Weibull(k,λ): entropy `γ(1 − 1/k) + ln(λ/k) + 1`. -/
def entropy (k l : ℝ) : ℝ := Real.eulerMascheroniConstant * (1 - 1 / k) + Real.log (l / k) + 1
end Weibull

end

end Statrs.Spec.Moments
