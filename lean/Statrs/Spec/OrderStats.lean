/-
  Statrs.Spec.OrderStats — specification-side definitions for C14 (order statistics over ℝ):
  the sorted data, the k-th smallest element, the median and the R-8 quantile estimator
  (Hyndman–Fan type 8, the one documented for `OrderStatistics::quantile`).
-/
import Mathlib.Data.List.Sort
import Mathlib.Algebra.Order.Archimedean.Real.Basic
import Mathlib.Algebra.Order.Floor.Defs
import Mathlib.Algebra.Order.Floor.Ring
namespace Statrs.Spec.OrderStats

/-- the data in non-decreasing order -/
noncomputable def sorted (l : List ℝ) : List ℝ := l.insertionSort (· ≤ ·)

/-- the `k`-th smallest entry, `k` counted from 0 (junk `0` when `k ≥ |l|`) -/
noncomputable def kth (l : List ℝ) (k : ℕ) : ℝ := (sorted l).getD k 0

/-- the sample median: the middle entry, or the mean of the two middle entries -/
noncomputable def median (l : List ℝ) : ℝ :=
  if l.length % 2 = 1 then kth l (l.length / 2)
  else (kth l (l.length / 2 - 1) + kth l (l.length / 2)) / 2

/-- position `h = (n + 1/3)·τ + 1/3` of the R-8 estimator -/
noncomputable def r8pos (l : List ℝ) (tau : ℝ) : ℝ := ((l.length : ℝ) + 1 / 3) * tau + 1 / 3

/-- R-8 quantile: linear interpolation `s[⌊h⌋-1] + (h-⌊h⌋)(s[⌊h⌋]-s[⌊h⌋-1])` between the
    order statistics around `h` (1-based), clamped to the minimum for `⌊h⌋ ≤ 0` and to the
    maximum for `⌊h⌋ ≥ n` -/
noncomputable def quantileR8 (l : List ℝ) (tau : ℝ) : ℝ :=
  let h := r8pos l tau
  if ⌊h⌋ ≤ 0 then kth l 0
  else if (l.length : ℤ) ≤ ⌊h⌋ then kth l (l.length - 1)
  else kth l (⌊h⌋.toNat - 1) + (h - ⌊h⌋) * (kth l ⌊h⌋.toNat - kth l (⌊h⌋.toNat - 1))

end Statrs.Spec.OrderStats
