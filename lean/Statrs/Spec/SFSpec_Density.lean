/-
  Premises about the abstract special-function instance `SF ℝ` used by the density properties
  (C03/C04).  Over ℝ the distribution code sees `SF.gamma`, `SF.ln_gamma`, `SF.ln_binomial` only
  through the class, so every theorem that needs their meaning is stated relative to one of the
  structures below (theorem names end in `_rel`).
-/
import Statrs.Real.Simp
import Statrs.Gen.SF
import Mathlib.Analysis.SpecialFunctions.Gamma.Basic
namespace Statrs.Spec
open Statrs Statrs.Gen

/-- `SF.gamma` is Euler's Γ and `SF.ln_gamma` its logarithm, on the positive half-line. -/
structure GammaDensitySpec [SF ℝ] : Prop where
  gamma_eq : ∀ x : ℝ, 0 < x → (SF.gamma x : ℝ) = Real.Gamma x
  ln_gamma_eq : ∀ x : ℝ, 0 < x → (SF.ln_gamma x : ℝ) = Real.log (Real.Gamma x)

/-- `SF.ln_binomial 1 k` is `ln C(1,k) = 0` for `k = 0, 1` (all that Bernoulli needs). -/
structure LnBinomialOneSpec [SF ℝ] : Prop where
  ln_binomial_one_zero : (SF.ln_binomial 1 0 : ℝ) = 0
  ln_binomial_one_one : (SF.ln_binomial 1 1 : ℝ) = 0

/-- A concrete `SF ℝ` (true Γ, `ln Γ`, `ln C(n,k)`; everything else arbitrary) showing the premise
    structures are satisfiable.  Not an instance: theorems stay relative to an arbitrary `SF ℝ`. -/
@[reducible] noncomputable def sfWitness : SF ℝ where
  beta := fun _ _ => 0
  beta_inc := fun _ _ _ => 0
  beta_reg := fun _ _ _ => 0
  checked_beta := fun _ _ => default
  checked_beta_inc := fun _ _ _ => default
  checked_beta_reg := fun _ _ _ => default
  checked_ln_beta := fun _ _ => default
  inv_beta_reg := fun _ _ _ => 0
  ln_beta := fun _ _ => 0
  erf := fun _ => 0
  erf_inv := fun _ => 0
  erfc := fun _ => 0
  erfc_inv := fun _ => 0
  polynomial := fun _ _ => 0
  integral := fun _ _ => none
  binomial := fun n k => (Nat.choose n.toNat k.toNat : ℝ)
  checked_multinomial := fun _ _ => none
  factorial := fun n => (Nat.factorial n.toNat : ℝ)
  ln_binomial := fun n k => Real.log (Nat.choose n.toNat k.toNat : ℝ)
  ln_factorial := fun n => Real.log (Nat.factorial n.toNat : ℝ)
  multinomial := fun _ _ => 0
  checked_gamma_li := fun _ _ => default
  checked_gamma_lr := fun _ _ => default
  checked_gamma_ui := fun _ _ => default
  checked_gamma_ur := fun _ _ => default
  digamma := fun _ => 0
  gamma := Real.Gamma
  gamma_li := fun _ _ => 0
  gamma_lr := fun _ _ => 0
  gamma_ui := fun _ _ => 0
  gamma_ur := fun _ _ => 0
  inv_digamma := fun _ => 0
  ln_gamma := fun x => Real.log (Real.Gamma x)
  gen_harmonic := fun _ _ => 0
  harmonic := fun _ => 0
  checked_logit := fun _ => none
  logistic := fun _ => 0
  logit := fun _ => 0

/-- non-vacuity of the premise structures -/
theorem gammaDensitySpec_witness : @GammaDensitySpec sfWitness :=
  @GammaDensitySpec.mk sfWitness (fun _ _ => rfl) (fun _ _ => rfl)
theorem lnBinomialOneSpec_witness : @LnBinomialOneSpec sfWitness :=
  @LnBinomialOneSpec.mk sfWitness
    (show Real.log ((Nat.choose (1 : Int).toNat (0 : Int).toNat : ℕ) : ℝ) = 0 by simp)
    (show Real.log ((Nat.choose (1 : Int).toNat (1 : Int).toNat : ℕ) : ℝ) = 0 by simp)

end Statrs.Spec
