/-
  Premises about the abstract special-function instance `SF ℝ` used by the density properties
  (C03/C04).  Over ℝ the distribution code sees `SF.gamma`, `SF.ln_gamma`, `SF.ln_binomial` only
  through the class, so every theorem that needs their meaning is stated relative to one of the
  structures below (theorem names end in `_rel`).
-/
import Statrs.Real.Simp
import Statrs.Gen.SF
import Mathlib.Analysis.SpecialFunctions.Gamma.Basic
namespace Statrs.Spec
open Statrs Statrs.Gen

/-- `SF.gamma` is Euler's Γ and `SF.ln_gamma` its logarithm, on the positive half-line. -/
structure GammaDensitySpec [SF ℝ] : Prop where
  gamma_eq : ∀ x : ℝ, 0 < x → (SF.gamma x : ℝ) = Real.Gamma x
  ln_gamma_eq : ∀ x : ℝ, 0 < x → (SF.ln_gamma x : ℝ) = Real.log (Real.Gamma x)

/-- `SF.ln_binomial 1 k` is `ln C(1,k) = 0` for `k = 0, 1` (all that Bernoulli needs). -/
structure LnBinomialOneSpec [SF ℝ] : Prop where
  ln_binomial_one_zero : (SF.ln_binomial 1 0 : ℝ) = 0
  ln_binomial_one_one : (SF.ln_binomial 1 1 : ℝ) = 0

end Statrs.Spec
