/-
  Premises about the abstract special-function instance `SF ℝ` used by the entropy-as-integral
  theorems of C07 (`Props/C07/Entropy*.lean`): the generated entropy formulas of the Γ-families call
  `SF.digamma` (Gamma, Erlang, ChiSquared, InverseGamma, Beta, Chi, StudentsT) and `SF.ln_beta` (Beta);
  over ℝ both are abstract, so the theorems are stated relative to

    * `DigammaSpec`: `SF.digamma = ψ` on `(0,∞)`, where `ψ = Γ'/Γ` is the TRUE digamma function
      `Statrs.Lemmas.Transfer.psi = logDeriv Real.Gamma` (the function the code's `digamma` is proved
      to approximate within 1.25e-12 in `Props/C11/TransferDigamma*.lean`);
    * `LnBetaSpec`: `SF.ln_beta a b = ln (Γ(a)Γ(b)/Γ(a+b))` for `a, b > 0`.

  `sfWitnessDigamma` (true Γ, ln Γ, ψ, ln B) shows that they are satisfiable together with
  `GammaDensitySpec`; `Props/C07/EntropyWitness.lean` shows that the project-wide true instance
  `Spec.Witnesses.trueSF` satisfies them as well.
-/
import Statrs.Real.Simp
import Statrs.Gen.SF
import Statrs.Spec.SFSpec_Density
import Statrs.Lemmas.TransferDigamma
namespace Statrs.Spec
open Statrs Statrs.Gen

/-- `SF.digamma` is the true digamma function `ψ = Γ'/Γ` on the positive half-line (DLMF 5.2.2). -/
structure DigammaSpec [SF ℝ] : Prop where
  digamma_eq : ∀ x : ℝ, 0 < x → (SF.digamma x : ℝ) = Statrs.Lemmas.Transfer.psi x

/-- `SF.ln_beta a b = ln B(a,b) = ln (Γ(a)Γ(b)/Γ(a+b))` for `a, b > 0` (DLMF 5.12.1). -/
structure LnBetaSpec [SF ℝ] : Prop where
  ln_beta_eq : ∀ a b : ℝ, 0 < a → 0 < b →
    (SF.ln_beta a b : ℝ) = Real.log (Real.Gamma a * Real.Gamma b / Real.Gamma (a + b))

/-- A concrete `SF ℝ` with the true Γ, `ln Γ`, ψ, `B`, `ln B` (everything else as in `sfWitness`).
    Not an instance: theorems stay relative to an arbitrary `SF ℝ`. -/
@[reducible] noncomputable def sfWitnessDigamma : SF ℝ :=
  { sfWitness with
    digamma := Statrs.Lemmas.Transfer.psi
    beta := fun a b => Real.Gamma a * Real.Gamma b / Real.Gamma (a + b)
    ln_beta := fun a b => Real.log (Real.Gamma a * Real.Gamma b / Real.Gamma (a + b)) }

/-- non-vacuity of the premise structures (jointly with `GammaDensitySpec`) -/
theorem digammaSpec_witness : @DigammaSpec sfWitnessDigamma :=
  @DigammaSpec.mk sfWitnessDigamma (fun _ _ => rfl)
theorem lnBetaSpec_witness : @LnBetaSpec sfWitnessDigamma :=
  @LnBetaSpec.mk sfWitnessDigamma (fun _ _ _ _ => rfl)
theorem gammaDensitySpec_witnessDigamma : @GammaDensitySpec sfWitnessDigamma :=
  @GammaDensitySpec.mk sfWitnessDigamma (fun _ _ => rfl) (fun _ _ => rfl)

end Statrs.Spec
