/-
  Statrs.Spec.SFSpec_erfc — premises about the *abstract* error functions `SF.erfc`, `SF.erf`
  over ℝ, used by the `…_rel` theorems for Normal, LogNormal and Levy in
  `Props/C01/ClosedErfc.lean` and `Props/C02/ClosedErfc.lean`.

  The distribution code reaches erf/erfc only through the class `SF α`, so over ℝ they are
  uninterpreted (and Mathlib has no `erf`).  All premises are true of the mathematical
  erfc z = (2/√π) ∫_z^∞ e^{-t²} dt  and  erf = 1 − erfc;  nothing else is assumed.
  (No instance satisfying them is constructed here; see the brief.)
-/
import Statrs.Real.Simp
import Statrs.Gen.SF
namespace Statrs.Spec.Erfc
open Statrs Statrs.Gen

/-- Order/range/reflection facts about the complementary error function. -/
structure ErfcSpec [SF ℝ] : Prop where
  /-- erfc is nonincreasing -/
  erfc_anti : ∀ a b : ℝ, a ≤ b → (SF.erfc b : ℝ) ≤ SF.erfc a
  /-- `0 ≤ erfc z` -/
  erfc_nonneg : ∀ z : ℝ, 0 ≤ (SF.erfc z : ℝ)
  /-- `erfc z ≤ 2` -/
  erfc_le_two : ∀ z : ℝ, (SF.erfc z : ℝ) ≤ 2
  /-- reflection: `erfc (-z) = 2 - erfc z` -/
  erfc_neg : ∀ z : ℝ, (SF.erfc (-z) : ℝ) = 2 - SF.erfc z

/-- `ErfcSpec` plus the link between `SF.erf` and `SF.erfc` (only Levy's `sf` calls `SF.erf`). -/
structure ErfSpec [SF ℝ] : Prop extends ErfcSpec where
  /-- `erf z = 1 - erfc z` -/
  erf_eq : ∀ z : ℝ, (SF.erf z : ℝ) = 1 - SF.erfc z

/-- consequence of reflection + antitonicity: `erfc z ≤ 1` for `z ≥ 0` -/
theorem ErfcSpec.erfc_le_one_of_nonneg [SF ℝ] (S : ErfcSpec) {z : ℝ} (hz : 0 ≤ z) :
    (SF.erfc z : ℝ) ≤ 1 := by
  have h1 := S.erfc_anti (-z) z (by linarith)
  have h2 := S.erfc_neg z
  linarith

end Statrs.Spec.Erfc
