/-
  Statrs.Spec.SFSpec_incomplete — premises about the *abstract* special functions
  `SF.gamma_lr`, `SF.gamma_ur`, `SF.beta_reg` (regularised incomplete gamma / beta) over ℝ.

  The distribution code reaches these functions only through the class `SF α`, so over ℝ they
  are uninterpreted.  Each structure below lists exactly the classical facts the `…_rel` theorems
  in `Props/C01/Special.lean`, `Props/C02/Special.lean` (and `bernoulli_…_rel` in
  `Props/C02/Discrete.lean`) use; nothing else about the functions is assumed.

  All facts are true of the mathematical functions
    P(a,x) = γ(a,x)/Γ(a),  Q(a,x) = Γ(a,x)/Γ(a),  I_x(a,b) = B(x;a,b)/B(a,b):
    * P(a,·) is a cdf on (0,∞); Q = 1 − P;
    * P(a+1,x) = P(a,x) − x^a e^{−x}/Γ(a+1)                       (`GammaShiftSpec`)
    * I_·(a,b) is a cdf on [0,1];  I_{1−x}(b,a) = 1 − I_x(a,b);
    * I_x(a,b+1) = I_x(a,b) + x^a(1−x)^b/(b·B(a,b)),
      I_x(a+1,b) = I_x(a,b) − x^a(1−x)^b/(a·B(a,b))                (`BetaShiftSpec`)
    * I_x(1,1) = x                                                  (`BetaOneOneSpec`)
-/
import Statrs.Real.Simp
import Statrs.Gen.SF
import Mathlib.Analysis.SpecialFunctions.Exp
namespace Statrs.Spec.Incomplete
open Statrs Statrs.Gen

/-- Regularised lower/upper incomplete gamma, shape `a > 0`, argument `x > 0`. -/
structure GammaSpec [SF ℝ] : Prop where
  /-- `0 ≤ P(a,x)` -/
  lr_nonneg : ∀ a x : ℝ, 0 < a → 0 < x → 0 ≤ SF.gamma_lr a x
  /-- `P(a,x) ≤ 1` -/
  lr_le_one : ∀ a x : ℝ, 0 < a → 0 < x → SF.gamma_lr a x ≤ 1
  /-- `P(a,·)` is nondecreasing on `(0,∞)` -/
  lr_mono : ∀ a x y : ℝ, 0 < a → 0 < x → x ≤ y → SF.gamma_lr a x ≤ SF.gamma_lr a y
  /-- `Q(a,x) = 1 − P(a,x)` -/
  ur_eq : ∀ a x : ℝ, 0 < a → 0 < x → SF.gamma_ur a x = 1 - SF.gamma_lr a x

/-- Shape-lattice fact used by Poisson (`cdf k = Q(k+1, λ)`): raising the shape by one lowers `P`. -/
structure GammaShiftSpec [SF ℝ] : Prop where
  /-- `P(a+1,x) ≤ P(a,x)` -/
  lr_shift : ∀ a x : ℝ, 0 < a → 0 < x → SF.gamma_lr (a + 1) x ≤ SF.gamma_lr a x

/-- Regularised incomplete beta, `a, b > 0`, argument in the closed interval `[0,1]`. -/
structure BetaSpec [SF ℝ] : Prop where
  /-- `0 ≤ I_x(a,b)` -/
  nonneg : ∀ a b x : ℝ, 0 < a → 0 < b → 0 ≤ x → x ≤ 1 → 0 ≤ SF.beta_reg a b x
  /-- `I_x(a,b) ≤ 1` -/
  le_one : ∀ a b x : ℝ, 0 < a → 0 < b → 0 ≤ x → x ≤ 1 → SF.beta_reg a b x ≤ 1
  /-- `I_·(a,b)` is nondecreasing on `[0,1]` -/
  mono : ∀ a b x y : ℝ, 0 < a → 0 < b → 0 ≤ x → x ≤ y → y ≤ 1 →
    SF.beta_reg a b x ≤ SF.beta_reg a b y
  /-- `I_0(a,b) = 0` -/
  at_zero : ∀ a b : ℝ, 0 < a → 0 < b → SF.beta_reg a b 0 = 0
  /-- `I_1(a,b) = 1` -/
  at_one : ∀ a b : ℝ, 0 < a → 0 < b → SF.beta_reg a b 1 = 1
  /-- `I_{1−x}(b,a) = 1 − I_x(a,b)` -/
  symm : ∀ a b x : ℝ, 0 < a → 0 < b → 0 ≤ x → x ≤ 1 →
    SF.beta_reg b a (1 - x) = 1 - SF.beta_reg a b x

/-- Parameter-lattice facts used by Binomial (`cdf k = I_{1−p}(n−k, k+1)`) and NegativeBinomial
    (`cdf k = I_p(r, k+1)`). -/
structure BetaShiftSpec [SF ℝ] : Prop where
  /-- `I_x(a,b) ≤ I_x(a,b+1)` -/
  mono_b : ∀ a b x : ℝ, 0 < a → 0 < b → 0 ≤ x → x ≤ 1 →
    SF.beta_reg a b x ≤ SF.beta_reg a (b + 1) x
  /-- `I_x(a+1,b) ≤ I_x(a,b)` -/
  anti_a : ∀ a b x : ℝ, 0 < a → 0 < b → 0 ≤ x → x ≤ 1 →
    SF.beta_reg (a + 1) b x ≤ SF.beta_reg a b x

/-- `I_x(1,1) = x`: needed because `Bernoulli::sf` delegates to `Binomial::sf` (n = 1), i.e. to
    `beta_reg(1, 1, p)`, while `Bernoulli::cdf` is the closed form `1 − p`. -/
structure BetaOneOneSpec [SF ℝ] : Prop where
  one_one : ∀ x : ℝ, 0 ≤ x → x ≤ 1 → SF.beta_reg 1 1 x = x

/-! ### joint satisfiability

  A toy instance (`P(a,x) = 1 − e^{−x}`, `I_x(a,b) = x`, everything else junk) satisfies all five
  structures at once, so the premises are consistent and the `…_rel` theorems are not vacuous.
  (The toy is not the real function; it only shows the list of assumed facts has a model.) -/

/-- a throw-away `SF ℝ` used only for the consistency check below -/
@[reducible] noncomputable def toySF : SF ℝ where
  beta := fun _ _ => 0
  beta_inc := fun _ _ _ => 0
  beta_reg := fun _ _ x => x
  checked_beta := fun _ _ => .ok 0
  checked_beta_inc := fun _ _ _ => .ok 0
  checked_beta_reg := fun _ _ x => .ok x
  checked_ln_beta := fun _ _ => .ok 0
  inv_beta_reg := fun _ _ x => x
  ln_beta := fun _ _ => 0
  erf := fun _ => 0
  erf_inv := fun _ => 0
  erfc := fun _ => 0
  erfc_inv := fun _ => 0
  polynomial := fun _ _ => 0
  integral := fun _ _ => none
  binomial := fun _ _ => 0
  checked_multinomial := fun _ _ => none
  factorial := fun _ => 0
  ln_binomial := fun _ _ => 0
  ln_factorial := fun _ => 0
  multinomial := fun _ _ => 0
  checked_gamma_li := fun _ _ => .ok 0
  checked_gamma_lr := fun _ x => .ok (1 - Real.exp (-x))
  checked_gamma_ui := fun _ _ => .ok 0
  checked_gamma_ur := fun _ x => .ok (Real.exp (-x))
  digamma := fun _ => 0
  gamma := fun _ => 0
  gamma_li := fun _ _ => 0
  gamma_lr := fun _ x => 1 - Real.exp (-x)
  gamma_ui := fun _ _ => 0
  gamma_ur := fun _ x => Real.exp (-x)
  inv_digamma := fun _ => 0
  ln_gamma := fun _ => 0
  gen_harmonic := fun _ _ => 0
  harmonic := fun _ => 0
  checked_logit := fun _ => none
  logistic := fun _ => 0
  logit := fun _ => 0

theorem specs_consistent :
    ∃ inst : SF ℝ, @GammaSpec inst ∧ @GammaShiftSpec inst ∧ @BetaSpec inst ∧ @BetaShiftSpec inst ∧
      @BetaOneOneSpec inst := by
  refine ⟨toySF, @GammaSpec.mk toySF ?_ ?_ ?_ ?_, @GammaShiftSpec.mk toySF ?_,
    @BetaSpec.mk toySF ?_ ?_ ?_ ?_ ?_ ?_, @BetaShiftSpec.mk toySF ?_ ?_, @BetaOneOneSpec.mk toySF ?_⟩
  · intro a x _ hx
    show 0 ≤ 1 - Real.exp (-x)
    have : Real.exp (-x) ≤ 1 := Real.exp_le_one_iff.mpr (by linarith)
    linarith
  · intro a x _ _
    show 1 - Real.exp (-x) ≤ 1
    have := Real.exp_pos (-x); linarith
  · intro a x y _ _ hxy
    show 1 - Real.exp (-x) ≤ 1 - Real.exp (-y)
    have : Real.exp (-y) ≤ Real.exp (-x) := Real.exp_le_exp.mpr (by linarith)
    linarith
  · intro a x _ _
    show Real.exp (-x) = 1 - (1 - Real.exp (-x))
    ring
  · intro a x _ _; exact le_rfl
  · intro a b x _ _ h0 _; exact h0
  · intro a b x _ _ _ h1; exact h1
  · intro a b x y _ _ _ hxy _; exact hxy
  · intro a b _ _; rfl
  · intro a b _ _; rfl
  · intro a b x _ _ _ _; rfl
  · intro a b x _ _ _ _; exact le_rfl
  · intro a b x _ _ _ _; exact le_rfl
  · intro x _ _; rfl

end Statrs.Spec.Incomplete
