/-
  Statrs.Spec.SFSpec_medianMore — satisfiability witness for `Spec.Sampling.ErfcInvSpec`
  (the premise of `levy_cdf_median_rel` in C08/MedianMore and of the Levy sampler theorems in C06).
  The toy instance (`erfc z = 1 - z`, `erfc_inv u = 1 - u`) is not the real function; it only shows
  that the three assumed facts have a model, so the `…_rel` theorems are not vacuous.
-/
import Statrs.Spec.SFSpec_Density
import Statrs.Spec.SFSpec_sampling
import Mathlib.Tactic.Linarith
namespace Statrs.Spec.MedianMore
open Statrs Statrs.Gen

/-- a throw-away `SF ℝ` with `erfc z = 1 - z` and `erfc_inv u = 1 - u` -/
@[reducible] noncomputable def erfcInvToy : SF ℝ :=
  { Statrs.Spec.sfWitness with erfc := fun z => 1 - z, erfc_inv := fun u => 1 - u }

/-- `ErfcInvSpec` is satisfiable: on `(0,1)` the map `u ↦ 1 - u` is positive, strictly decreasing,
    and a right inverse of `z ↦ 1 - z` -/
theorem erfcInvSpec_witness : @Statrs.Spec.Sampling.ErfcInvSpec erfcInvToy :=
  @Statrs.Spec.Sampling.ErfcInvSpec.mk erfcInvToy
    (fun u _ h1 => by show (0:ℝ) < 1 - u; linarith)
    (fun u _ _ => by show (1:ℝ) - (1 - u) = u; ring)
    (fun u v _ huv _ => by show (1:ℝ) - v < 1 - u; linarith)

end Statrs.Spec.MedianMore
