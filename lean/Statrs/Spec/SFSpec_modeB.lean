/-
  Statrs.Spec.SFSpec_modeB — premise about the abstract Euler beta function `SF.beta` used by the
  FisherSnedecor mode theorem (`Props/C08/ModeSF_B.lean`): the normalising constant
  `B(d1/2, d2/2)` is positive.  True of the mathematical `B(a,b) = Γ(a)Γ(b)/Γ(a+b)`; nothing else
  is assumed.
-/
import Statrs.Spec.SFSpec_Density
namespace Statrs.Spec.ModeB
open Statrs Statrs.Gen

/-- `B(a,b) > 0` for `a, b > 0` -/
structure BetaFnPosSpec [SF ℝ] : Prop where
  beta_pos : ∀ a b : ℝ, 0 < a → 0 < b → 0 < (SF.beta a b : ℝ)

/-- a concrete `SF ℝ` with the true `B(a,b) = Γ(a)Γ(b)/Γ(a+b)` (and the true Γ of `sfWitness`) -/
@[reducible] noncomputable def betaWitness : SF ℝ :=
  { Statrs.Spec.sfWitness with beta := fun a b => Real.Gamma a * Real.Gamma b / Real.Gamma (a + b) }

/-- the premise is satisfiable -/
theorem betaFnPosSpec_witness : @BetaFnPosSpec betaWitness :=
  @BetaFnPosSpec.mk betaWitness (fun a b ha hb => by
    show 0 < Real.Gamma a * Real.Gamma b / Real.Gamma (a + b)
    have := Real.Gamma_pos_of_pos ha
    have := Real.Gamma_pos_of_pos hb
    have := Real.Gamma_pos_of_pos (add_pos ha hb)
    positivity)

/-- the same instance also satisfies `GammaDensitySpec` (so both premises hold jointly) -/
theorem gammaDensitySpec_betaWitness : @Statrs.Spec.GammaDensitySpec betaWitness :=
  @Statrs.Spec.GammaDensitySpec.mk betaWitness (fun _ _ => rfl) (fun _ _ => rfl)

end Statrs.Spec.ModeB
