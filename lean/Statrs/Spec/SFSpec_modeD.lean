/-
  Statrs.Spec.ModeD — premise about the abstract `SF ℝ` used by the mode property (C08) of the
  Poisson family: the one-step recurrence of `ln_factorial` on the `u64` range.  Nothing else
  about `ln_factorial` is assumed (no value at 0, no link with `Real.Gamma`): the mode argument
  only compares consecutive pmf values.
-/
import Statrs.Spec.SFSpec_Density
import Mathlib.Analysis.SpecialFunctions.Log.Basic
import Mathlib.Data.Nat.Factorial.Basic
namespace Statrs.Spec.ModeD
open Statrs Statrs.Gen

/-- `ln (k+1)! = ln k! + ln (k+1)` for every `u64` argument `k ≥ 0`. -/
structure LnFactorialStepSpec [SF ℝ] : Prop where
  ln_factorial_succ : ∀ k : ℤ, 0 ≤ k →
    (SF.ln_factorial (k + 1) : ℝ) = SF.ln_factorial k + Real.log ((k : ℝ) + 1)

/-- satisfiable: the witness instance of `SFSpec_Density` has `ln_factorial n = log (n.toNat)!` -/
theorem lnFactorialStepSpec_witness : @LnFactorialStepSpec Statrs.Spec.sfWitness := by
  refine @LnFactorialStepSpec.mk Statrs.Spec.sfWitness ?_
  intro k hk
  show Real.log ((Nat.factorial (k + 1).toNat : ℕ) : ℝ)
    = Real.log ((Nat.factorial k.toNat : ℕ) : ℝ) + Real.log ((k : ℝ) + 1)
  obtain ⟨m, rfl⟩ := Int.eq_ofNat_of_zero_le hk
  have h1 : ((m : ℤ) + 1).toNat = m + 1 := by omega
  have h2 : ((m : ℤ)).toNat = m := by omega
  rw [h1, h2, Nat.factorial_succ]
  push_cast
  have hf : ((m.factorial : ℕ) : ℝ) ≠ 0 := by exact_mod_cast Nat.factorial_ne_zero m
  have hm : ((m : ℝ) + 1) ≠ 0 := by positivity
  rw [Real.log_mul hm hf]
  ring

end Statrs.Spec.ModeD
