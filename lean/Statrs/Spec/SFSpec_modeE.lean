/-
  Premise about the abstract special-function instance `SF ℝ` used by the mode property (C08) of
  the Hypergeometric family: `SF.binomial n k` is the binomial coefficient `C(n, k)` for ALL
  naturals `n, k` — including `k > n`, where the Rust `factorial::binomial` returns `0.0`
  (`if k > n { 0.0 }`), the same value as Mathlib's `Nat.choose`.
-/
import Statrs.Real.Simp
import Statrs.Gen.SF
import Statrs.Spec.SFSpec_Density
namespace Statrs.Spec.ModeE
open Statrs Statrs.Gen

/-- `SF.binomial` is the binomial coefficient on all of `ℕ × ℕ` (`0` above the triangle). -/
structure BinomialChooseSpec [SF ℝ] : Prop where
  binomial_eq : ∀ n k : ℕ, (SF.binomial (n : ℤ) (k : ℤ) : ℝ) = (n.choose k : ℝ)

/-- the premise is satisfiable: the witness instance of `SFSpec_Density` has `binomial = choose` -/
theorem binomialChooseSpec_witness : @BinomialChooseSpec Statrs.Spec.sfWitness := by
  refine @BinomialChooseSpec.mk Statrs.Spec.sfWitness ?_
  intro n k
  show ((Nat.choose (n : ℤ).toNat (k : ℤ).toNat : ℕ) : ℝ) = _
  simp

end Statrs.Spec.ModeE
