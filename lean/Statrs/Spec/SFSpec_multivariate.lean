/-
  Premises about the abstract special-function instance `SF ℝ` used by the C19 theorems on
  `Multinomial` (names ending in `_rel`): the multinomial coefficient and `ln C(n,k)`.
  (`SF.gamma`/`SF.ln_gamma` premises are reused from `Spec.GammaDensitySpec`.)
-/
import Statrs.Real.Simp
import Statrs.Gen.SF
import Mathlib.Data.Nat.Choose.Multinomial
import Mathlib.Analysis.SpecialFunctions.Log.Basic
namespace Statrs.Spec
open Statrs Statrs.Gen

/-- `SF.multinomial n [k₁,…,k_m]` with `n = Σ kᵢ` is the multinomial coefficient
    `n! / (k₁! ⋯ k_m!)` (Mathlib's `List.multinomial`), and `SF.ln_binomial n k = ln C(n,k)`
    for `k ≤ n`.  In exact arithmetic `factorial::multinomial` computes
    `⌊½ + exp(ln n! - Σ ln kᵢ!)⌋`, which is this integer. -/
structure MultinomialSpec [SF ℝ] : Prop where
  multinomial_eq : ∀ k : List ℕ,
    (SF.multinomial ((k.sum : ℕ) : ℤ) (k.map (fun (i : ℕ) => (i : ℤ))) : ℝ) = ((List.multinomial k : ℕ) : ℝ)
  ln_binomial_eq : ∀ n k : ℕ, k ≤ n →
    (SF.ln_binomial (n : ℤ) (k : ℤ) : ℝ) = Real.log ((Nat.choose n k : ℕ) : ℝ)

/-- A concrete `SF ℝ` satisfying `MultinomialSpec` (everything else arbitrary). -/
@[reducible] noncomputable def sfWitnessMultinomial : SF ℝ where
  beta := fun _ _ => 0
  beta_inc := fun _ _ _ => 0
  beta_reg := fun _ _ _ => 0
  checked_beta := fun _ _ => default
  checked_beta_inc := fun _ _ _ => default
  checked_beta_reg := fun _ _ _ => default
  checked_ln_beta := fun _ _ => default
  inv_beta_reg := fun _ _ _ => 0
  ln_beta := fun _ _ => 0
  erf := fun _ => 0
  erf_inv := fun _ => 0
  erfc := fun _ => 0
  erfc_inv := fun _ => 0
  polynomial := fun _ _ => 0
  integral := fun _ _ => none
  binomial := fun n k => (Nat.choose n.toNat k.toNat : ℝ)
  checked_multinomial := fun _ _ => none
  factorial := fun n => (Nat.factorial n.toNat : ℝ)
  ln_binomial := fun n k => Real.log (Nat.choose n.toNat k.toNat : ℝ)
  ln_factorial := fun n => Real.log (Nat.factorial n.toNat : ℝ)
  multinomial := fun _ x => ((List.multinomial (x.map Int.toNat) : ℕ) : ℝ)
  checked_gamma_li := fun _ _ => default
  checked_gamma_lr := fun _ _ => default
  checked_gamma_ui := fun _ _ => default
  checked_gamma_ur := fun _ _ => default
  digamma := fun _ => 0
  gamma := fun _ => 0
  gamma_li := fun _ _ => 0
  gamma_lr := fun _ _ => 0
  gamma_ui := fun _ _ => 0
  gamma_ur := fun _ _ => 0
  inv_digamma := fun _ => 0
  ln_gamma := fun _ => 0
  gen_harmonic := fun _ _ => 0
  harmonic := fun _ => 0
  checked_logit := fun _ => none
  logistic := fun _ => 0
  logit := fun _ => 0

/-- non-vacuity of `MultinomialSpec` -/
theorem multinomialSpec_witness : @MultinomialSpec sfWitnessMultinomial := by
  refine @MultinomialSpec.mk sfWitnessMultinomial (fun k => ?_) (fun n k _ => ?_)
  · show ((List.multinomial ((k.map (fun (i : ℕ) => (i : ℤ))).map Int.toNat) : ℕ) : ℝ) = _
    rw [List.map_map]
    have : (Int.toNat ∘ fun (i : ℕ) => (i : ℤ)) = id := by funext i; simp
    rw [this, List.map_id]
  · show Real.log ((Nat.choose (n : ℤ).toNat (k : ℤ).toNat : ℕ) : ℝ) = _
    simp

end Statrs.Spec
