/-
  Premises about the abstract special-function instance `SF ℝ` used by the `_rel` theorems of
  C10 (related distributions).  Each field is a classical identity of the true function at the
  few parameter values where two families meet.
-/
import Statrs.Real.Simp
import Statrs.Gen.SF
import Mathlib.Analysis.SpecialFunctions.Gamma.Basic
namespace Statrs.Spec
open Statrs Statrs.Gen

/-- Values of Γ, ln Γ, the regularised incomplete gamma/beta functions at the parameters where
    Exp = Gamma(1,·) = Weibull(1,·), Bernoulli = Binomial(·,1), Geometric = NegBin(1,·),
    Beta(1,1) = Uniform(0,1), F(2,2). -/
structure RelatedSpec [SF ℝ] : Prop where
  /-- Γ(1) = 1, Γ(2) = 1, Γ(3) = 2, Γ(4) = 6 -/
  gamma_one : SF.gamma (1 : ℝ) = 1
  gamma_two : SF.gamma (2 : ℝ) = 1
  gamma_three : SF.gamma (3 : ℝ) = 2
  gamma_four : SF.gamma (4 : ℝ) = 6
  /-- ln Γ(1) = 0 -/
  ln_gamma_one : SF.ln_gamma (1 : ℝ) = 0
  /-- P(1, x) = 1 − e^{−x} for x ≥ 0 -/
  gamma_lr_one : ∀ x : ℝ, 0 ≤ x → SF.gamma_lr (1 : ℝ) x = 1 - Real.exp (-x)
  /-- Q(1, x) = e^{−x} for x ≥ 0 -/
  gamma_ur_one : ∀ x : ℝ, 0 ≤ x → SF.gamma_ur (1 : ℝ) x = Real.exp (-x)
  /-- I_x(1, 1) = x on [0, 1] -/
  beta_reg_one_one : ∀ x : ℝ, 0 ≤ x → x ≤ 1 → SF.beta_reg (1 : ℝ) 1 x = x
  /-- ln B(1, 1) = 0 -/
  ln_beta_one_one : SF.ln_beta (1 : ℝ) 1 = 0
  /-- I⁻¹_p(1, 1) = p on [0, 1] -/
  inv_beta_reg_one_one : ∀ p : ℝ, 0 ≤ p → p ≤ 1 → SF.inv_beta_reg (1 : ℝ) 1 p = p
  /-- ln C(1, k) = 0 for k ∈ {0, 1} -/
  ln_binomial_one : ∀ k : Int, 0 ≤ k → k ≤ 1 → (SF.ln_binomial 1 k : ℝ) = 0

/-- The premises are satisfiable: an `SF ℝ` instance built from Mathlib's Γ and the closed forms. -/
@[instance_reducible] noncomputable def witnessSF : SF ℝ where
  beta := fun _ _ => 0
  beta_inc := fun _ _ _ => 0
  beta_reg := fun _ _ x => x
  checked_beta := fun _ _ => .ok 0
  checked_beta_inc := fun _ _ _ => .ok 0
  checked_beta_reg := fun _ _ _ => .ok 0
  checked_ln_beta := fun _ _ => .ok 0
  inv_beta_reg := fun _ _ p => p
  ln_beta := fun _ _ => 0
  erf := fun _ => 0
  erf_inv := fun _ => 0
  erfc := fun _ => 0
  erfc_inv := fun _ => 0
  polynomial := fun _ _ => 0
  integral := fun _ _ => none
  binomial := fun _ _ => 0
  checked_multinomial := fun _ _ => none
  factorial := fun _ => 0
  ln_binomial := fun _ _ => 0
  ln_factorial := fun _ => 0
  multinomial := fun _ _ => 0
  checked_gamma_li := fun _ _ => .ok 0
  checked_gamma_lr := fun _ _ => .ok 0
  checked_gamma_ui := fun _ _ => .ok 0
  checked_gamma_ur := fun _ _ => .ok 0
  digamma := fun _ => 0
  gamma := Real.Gamma
  gamma_li := fun _ _ => 0
  gamma_lr := fun _ x => 1 - Real.exp (-x)
  gamma_ui := fun _ _ => 0
  gamma_ur := fun _ x => Real.exp (-x)
  inv_digamma := fun _ => 0
  ln_gamma := fun x => Real.log (Real.Gamma x)
  gen_harmonic := fun _ _ => 0
  harmonic := fun _ => 0
  checked_logit := fun _ => none
  logistic := fun _ => 0
  logit := fun _ => 0

theorem relatedSpec_witness : @RelatedSpec witnessSF := by
  refine @RelatedSpec.mk witnessSF Real.Gamma_one ?_ ?_ ?_ ?_ (fun _ _ => rfl) (fun _ _ => rfl)
    (fun _ _ _ => rfl) rfl (fun _ _ _ => rfl) (fun _ _ _ => rfl)
  · show Real.Gamma 2 = 1
    simp
  · show Real.Gamma 3 = 2
    have := Real.Gamma_nat_eq_factorial 2
    norm_num [Nat.factorial] at this ⊢
  · show Real.Gamma 4 = 6
    have := Real.Gamma_nat_eq_factorial 3
    norm_num [Nat.factorial] at this ⊢
  · show Real.log (Real.Gamma 1) = 0
    rw [Real.Gamma_one, Real.log_one]

end Statrs.Spec
