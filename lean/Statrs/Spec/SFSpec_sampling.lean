/-
  Statrs.Spec.SFSpec_sampling — premise about the *abstract* `SF.erfc_inv` / `SF.erfc` over ℝ used
  by the Levy sampler theorems of `Props/C06/InverseTransform.lean` (`…_rel`).

  All fields are true of the mathematical erfc z = (2/√π) ∫_z^∞ e^{-t²} dt and its inverse on (0,1);
  nothing else is assumed (no instance satisfying them is constructed here; see the brief).
-/
import Statrs.Real.Simp
import Statrs.Gen.SF
namespace Statrs.Spec.Sampling
open Statrs Statrs.Gen

/-- `erfc_inv` is a positive right inverse of `erfc` on the open unit interval, strictly decreasing. -/
structure ErfcInvSpec [SF ℝ] : Prop where
  /-- `erfc_inv u > 0` for `0 < u < 1` -/
  inv_pos : ∀ u : ℝ, 0 < u → u < 1 → 0 < (SF.erfc_inv u : ℝ)
  /-- `erfc (erfc_inv u) = u` for `0 < u < 1` -/
  erfc_inv_right : ∀ u : ℝ, 0 < u → u < 1 → (SF.erfc (SF.erfc_inv u) : ℝ) = u
  /-- `erfc_inv` is strictly decreasing on `(0,1)` -/
  inv_anti : ∀ u v : ℝ, 0 < u → u < v → v < 1 → (SF.erfc_inv v : ℝ) < SF.erfc_inv u

end Statrs.Spec.Sampling
