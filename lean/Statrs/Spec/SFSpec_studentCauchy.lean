/-
  Premises about the abstract `SF ℝ` used by the StudentsT(l, s, 1) = Cauchy(l, s) `_rel`
  theorems of C10: values of ln Γ at 1 and ½ and the arcsine law I_x(½, ½) = (2/π)·arcsin √x.
-/
import Statrs.Spec.SFSpec_related
import Mathlib.Analysis.SpecialFunctions.Gamma.Beta
import Mathlib.Analysis.SpecialFunctions.Trigonometric.Arctan
namespace Statrs.Spec
open Statrs Statrs.Gen

structure StudentCauchySpec [SF ℝ] : Prop where
  /-- ln Γ(1) = 0 -/
  ln_gamma_one : SF.ln_gamma (1 : ℝ) = 0
  /-- ln Γ(½) = ln √π -/
  ln_gamma_half : SF.ln_gamma (1 / 2 : ℝ) = Real.log (Real.sqrt Real.pi)
  /-- arcsine law: I_x(½, ½) = (2/π)·arcsin √x on [0, 1] -/
  beta_reg_half_half : ∀ x : ℝ, 0 ≤ x → x ≤ 1 →
    SF.beta_reg (1 / 2 : ℝ) (1 / 2) x = 2 / Real.pi * Real.arcsin (Real.sqrt x)

/-- satisfiable: Mathlib's Γ for `ln_gamma`, the arcsine law for `beta_reg` -/
@[instance_reducible] noncomputable def witnessSF2 : SF ℝ :=
  { witnessSF with beta_reg := fun _ _ x => 2 / Real.pi * Real.arcsin (Real.sqrt x) }

theorem studentCauchySpec_witness : @StudentCauchySpec witnessSF2 := by
  refine @StudentCauchySpec.mk witnessSF2 ?_ ?_ (fun _ _ _ => rfl)
  · show Real.log (Real.Gamma 1) = 0
    rw [Real.Gamma_one, Real.log_one]
  · show Real.log (Real.Gamma (1 / 2)) = Real.log (Real.sqrt Real.pi)
    rw [Real.Gamma_one_half_eq]

end Statrs.Spec
