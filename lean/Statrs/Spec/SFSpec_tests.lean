/-
  Statrs.Spec.SFSpec_tests — premises about the abstract `SF ℝ` used by the hypothesis-test
  properties C16–C18, and satisfiability witnesses for the premise structures those `…_rel`
  theorems use (`LnBinomialSpec` here, `Spec.Erfc.ErfcSpec`; `Spec.Incomplete.BetaSpec` has its own
  consistency theorem `Spec.Incomplete.specs_consistent`).
-/
import Statrs.Spec.SFSpec_Density
import Statrs.Spec.SFSpec_erfc
import Mathlib.Analysis.SpecialFunctions.Log.Basic
import Mathlib.Data.Nat.Choose.Basic
namespace Statrs.Spec.TestsSF
open Statrs Statrs.Gen

/-- `exp (ln C(n,k)) = C(n,k)` on the triangle `0 ≤ k ≤ n`.
    (Outside the triangle the Rust function returns `−∞`, and the code relies on `exp(−∞) = 0`;
    that cannot be expressed over ℝ, so nothing is assumed there.) -/
structure LnBinomialSpec [SF ℝ] : Prop where
  exp_ln_binomial : ∀ n k : ℤ, 0 ≤ k → k ≤ n →
    Real.exp (SF.ln_binomial n k : ℝ) = (Nat.choose n.toNat k.toNat : ℝ)

/-- satisfiable: the witness instance of `SFSpec_Density` has `ln_binomial = log ∘ choose` -/
theorem lnBinomialSpec_witness : @LnBinomialSpec Statrs.Spec.sfWitness := by
  refine @LnBinomialSpec.mk Statrs.Spec.sfWitness ?_
  intro n k hk hkn
  show Real.exp (Real.log ((Nat.choose n.toNat k.toNat : ℕ) : ℝ)) = _
  have : 0 < Nat.choose n.toNat k.toNat := Nat.choose_pos (by omega)
  rw [Real.exp_log (by exact_mod_cast this)]

/-- a throw-away `SF ℝ` whose `erfc` is the constant `1` -/
@[reducible] noncomputable def erfcToy : SF ℝ := { Statrs.Spec.sfWitness with erfc := fun _ => 1 }

/-- `ErfcSpec` is satisfiable (the constant `1` is antitone, lies in `[0,2]`, and `1 = 2 − 1`);
    the toy is not the real function, it only shows the assumed facts have a model -/
theorem erfcSpec_witness : @Statrs.Spec.Erfc.ErfcSpec erfcToy :=
  @Statrs.Spec.Erfc.ErfcSpec.mk erfcToy (fun _ _ _ => le_refl (1:ℝ)) (fun _ => zero_le_one)
    (fun _ => by show (1:ℝ) ≤ 2; norm_num) (fun _ => by show (1:ℝ) = 2 - 1; norm_num)

end Statrs.Spec.TestsSF
