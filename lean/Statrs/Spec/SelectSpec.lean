/-
  Statrs.Spec.SelectSpec — the premise "the generated quickselect is correct on the data `l`",
  relative to which the wrapper theorems of C14 (`…_rel`) are stated.  It is a statement about
  ONE data set (every arrangement of it, every in-range rank), not about all buffers: the
  model's loops carry finite fuel, so the unrestricted statement would be false for very long
  inputs and a theorem relative to it vacuous.
-/
import Statrs.Real.Inst
import Statrs.Gen.S_slice_statistics
import Statrs.Spec.OrderStats
namespace Statrs.Spec
open Statrs Statrs.Gen Statrs.Spec.OrderStats

/-- for every arrangement `b` of the data `l` and every rank `0 ≤ k < |l|`, `select_inplace`
    returns the `k`-th smallest entry and leaves an arrangement of `l` in the buffer -/
structure SelectCorrectOn (l : List ℝ) : Prop where
  value : ∀ b : Data ℝ, b.f_0.Perm l → ∀ k : Int, 0 ≤ k → k < l.length →
    (Data.select_inplace b k).1 = kth l k.toNat
  perm : ∀ b : Data ℝ, b.f_0.Perm l → ∀ k : Int, 0 ≤ k → k < l.length →
    (Data.select_inplace b k).2.f_0.Perm l

end Statrs.Spec
