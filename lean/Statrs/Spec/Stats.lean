/-
  Statrs.Spec.Stats — textbook definitions of the descriptive statistics, over ℝ,
  as plain `List` sums (nothing streaming, nothing shared with the code under test).
-/
import Mathlib.Analysis.SpecialFunctions.Log.Basic
import Mathlib.Analysis.SpecialFunctions.Sqrt
import Mathlib.Algebra.BigOperators.Group.List.Basic
namespace Statrs.Spec.Stats

/-- arithmetic mean `(Σ x) / n` -/
noncomputable def mean (l : List ℝ) : ℝ := l.sum / l.length

/-- sum of squared deviations from the mean `Σ (x - x̄)²` -/
noncomputable def ssd (l : List ℝ) : ℝ := (l.map (fun x => (x - mean l) ^ 2)).sum

/-- unbiased sample variance `Σ (x - x̄)² / (n - 1)` -/
noncomputable def variance (l : List ℝ) : ℝ := ssd l / ((l.length : ℝ) - 1)

/-- population variance `Σ (x - x̄)² / n` -/
noncomputable def populationVariance (l : List ℝ) : ℝ := ssd l / (l.length : ℝ)

/-- sample standard deviation -/
noncomputable def stdDev (l : List ℝ) : ℝ := Real.sqrt (variance l)

/-- population standard deviation -/
noncomputable def populationStdDev (l : List ℝ) : ℝ := Real.sqrt (populationVariance l)

/-- sum of co-deviations `Σ (xᵢ - x̄)(yᵢ - ȳ)` over the paired samples -/
noncomputable def coSum (xs ys : List ℝ) : ℝ :=
  ((xs.zip ys).map (fun p => (p.1 - mean xs) * (p.2 - mean ys))).sum

/-- unbiased sample covariance `Σ (xᵢ - x̄)(yᵢ - ȳ) / (n - 1)` -/
noncomputable def covariance (xs ys : List ℝ) : ℝ := coSum xs ys / ((xs.length : ℝ) - 1)

/-- population covariance `Σ (xᵢ - x̄)(yᵢ - ȳ) / n` -/
noncomputable def populationCovariance (xs ys : List ℝ) : ℝ := coSum xs ys / (xs.length : ℝ)

/-- quadratic mean (RMS) `√(Σ x² / n)` -/
noncomputable def quadraticMean (l : List ℝ) : ℝ :=
  Real.sqrt ((l.map (fun x => x ^ 2)).sum / l.length)

/-- harmonic mean `n / Σ (1/x)` -/
noncomputable def harmonicMean (l : List ℝ) : ℝ := (l.length : ℝ) / (l.map (fun x => 1 / x)).sum

/-- geometric mean in log form `exp (Σ log x / n)` -/
noncomputable def geometricMean (l : List ℝ) : ℝ :=
  Real.exp ((l.map Real.log).sum / l.length)

end Statrs.Spec.Stats
