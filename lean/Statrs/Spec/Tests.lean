/-
  Statrs.Spec.Tests — textbook definitions of the hypothesis-test statistics (C16–C18), over ℝ,
  as plain `List`/`Finset` sums that share nothing with the code under test.
-/
import Statrs.Spec.Stats
import Mathlib.Analysis.SpecialFunctions.Pow.Real
import Mathlib.Algebra.BigOperators.Group.Finset.Basic
import Mathlib.Data.Nat.Choose.Basic
import Mathlib.Data.Finset.Powerset
namespace Statrs.Spec.Tests
open Statrs.Spec.Stats

/-! ### one-sample t-test -/

/-- `t = (x̄ − μ) / √(s² / n)` with `s²` the unbiased (n−1) sample variance -/
noncomputable def tStat (l : List ℝ) (μ : ℝ) : ℝ :=
  (mean l - μ) / Real.sqrt (variance l / (l.length : ℝ))

/-! ### D'Agostino skewness test -/

/-- `k`-th central sample moment `m_k = Σ (x − x̄)^k / n` (population normalisation) -/
noncomputable def centralMoment (k : ℕ) (l : List ℝ) : ℝ :=
  (l.map (fun x => (x - mean l) ^ k)).sum / (l.length : ℝ)

/-- sample skewness `√b₁ = m₃ / m₂^{3/2}` -/
noncomputable def rootB1 (l : List ℝ) : ℝ :=
  centralMoment 3 l / (centralMoment 2 l) ^ ((3 : ℝ) / 2)

/-- `Y = √b₁ · √((n+1)(n+3) / (6(n−2)))` -/
noncomputable def dagY (n b : ℝ) : ℝ := b * Real.sqrt ((n + 1) * (n + 3) / (6 * (n - 2)))

/-- `β₂(√b₁) = 3(n²+27n−70)(n+1)(n+3) / ((n−2)(n+5)(n+7)(n+9))` -/
noncomputable def dagBeta2 (n : ℝ) : ℝ :=
  3 * (n ^ 2 + 27 * n - 70) * (n + 1) * (n + 3) / ((n - 2) * (n + 5) * (n + 7) * (n + 9))

/-- `W² = −1 + √(2(β₂ − 1))` -/
noncomputable def dagW2 (n : ℝ) : ℝ := -1 + Real.sqrt (2 * (dagBeta2 n - 1))

/-- `δ = 1 / √(ln W)`, `W = √(W²)` -/
noncomputable def dagDelta (n : ℝ) : ℝ := 1 / Real.sqrt (Real.log (Real.sqrt (dagW2 n)))

/-- `α = √(2 / (W² − 1))` -/
noncomputable def dagAlpha (n : ℝ) : ℝ := Real.sqrt (2 / (dagW2 n - 1))

/-- `Z = δ · ln (Y/α + √((Y/α)² + 1))` (`= δ · asinh(Y/α)`) -/
noncomputable def dagZ (n y : ℝ) : ℝ :=
  dagDelta n * Real.log (y / dagAlpha n + Real.sqrt ((y / dagAlpha n) ^ 2 + 1))

/-- the textbook z-score of the skewness test for the sample `l` -/
noncomputable def skewZ (l : List ℝ) : ℝ := dagZ l.length (dagY l.length (rootB1 l))

/-! ### Pearson chi-square -/

/-- `χ² = Σ (Oᵢ − Eᵢ)² / Eᵢ` -/
noncomputable def chiSqStat (obs exp : List ℝ) : ℝ :=
  ((obs.zip exp).map (fun p => (p.1 - p.2) ^ 2 / p.2)).sum

/-- `χ²` against the uniform expectation `Eᵢ = N / n`, `N = Σ Oᵢ` -/
noncomputable def chiSqStatUniform (obs : List ℝ) : ℝ :=
  (obs.map (fun o => (o - obs.sum / obs.length) ^ 2 / (obs.sum / obs.length))).sum

/-! ### one-way ANOVA -/

/-- grand mean `ȳ` over all observations -/
noncomputable def grandMean (s : List (List ℝ)) : ℝ := mean s.flatten

/-- between-group (treatment) sum of squares `Σᵢ nᵢ (ȳᵢ − ȳ)²` -/
noncomputable def ssBetween (s : List (List ℝ)) : ℝ :=
  (s.map (fun g => (g.length : ℝ) * (mean g - grandMean s) ^ 2)).sum

/-- within-group (error) sum of squares `Σᵢ Σⱼ (yᵢⱼ − ȳᵢ)²` -/
noncomputable def ssWithin (s : List (List ℝ)) : ℝ := (s.map ssd).sum

/-- `F = (SST / (k−1)) / (SSE / (n−k))` -/
noncomputable def fStat (s : List (List ℝ)) : ℝ :=
  (ssBetween s / ((s.length : ℝ) - 1)) / (ssWithin s / ((s.flatten.length : ℝ) - (s.length : ℝ)))

/-! ### Fisher's exact test: the hypergeometric law of the top-left cell -/

/-- `P(X = i)` for `X ~ Hypergeometric(N, K, n)`: `C(K,i) C(N−K, n−i) / C(N,n)` -/
noncomputable def hyperPmf (N K n i : ℕ) : ℝ :=
  if i ≤ n then ((K.choose i * (N - K).choose (n - i) : ℕ) : ℝ) / (N.choose n : ℝ) else 0

/-- lower tail `P(X ≤ a)` -/
noncomputable def hyperLower (N K n a : ℕ) : ℝ :=
  ∑ i ∈ Finset.range (a + 1), hyperPmf N K n i

/-- upper tail `P(X ≥ a)` -/
noncomputable def hyperUpper (N K n a : ℕ) : ℝ :=
  ∑ i ∈ (Finset.range (n + 1)).filter (fun i => a ≤ i), hyperPmf N K n i

/-- sample cross-product (odds) ratio `a d / (b c)` of the table `[[a, b], [c, d]]` -/
noncomputable def oddsRatio (a b c d : ℤ) : ℝ := ((a : ℝ) * d) / ((b : ℝ) * c)

/-! ### Mann–Whitney: the exact permutation law of `U` -/

/-- `U` of a set `S` of ranks (1-based) of size `m`: `Σ S − m(m+1)/2` -/
def uOfRanks (S : Finset ℕ) : ℤ := (∑ r ∈ S, (r : ℤ)) - ((S.card * (S.card + 1) / 2 : ℕ) : ℤ)

/-- exact upper tail `P(U ≥ u)` of the U statistic of a sample of size `n1` among `n1 + n2`
    untied observations: every `n1`-subset of the ranks `1..n1+n2` is equally likely -/
noncomputable def mwuUpperTail (u : ℝ) (n1 n2 : ℕ) : ℝ :=
  ((((Finset.Icc 1 (n1 + n2)).powersetCard n1).filter (fun S => u ≤ ((uOfRanks S : ℤ) : ℝ))).card : ℝ)
    / ((n1 + n2).choose n1 : ℝ)

end Statrs.Spec.Tests
