/-
  Statrs.Spec.VectorDomain (to live beside Statrs/Spec/Domain.lean) — the DOCUMENTED and the
  IMPLEMENTED parameter domains of the vector / matrix constructors of statrs, transcribed from
  the doc comments in /repo/src/distribution/{categorical, multinomial, dirichlet,
  multivariate_normal, multivariate_students_t}.rs.  Conventions as in Statrs/Spec/Domain.lean:

    * `Dom.X.Domain args`     — the complement of the `# Errors` section of `X::new`;
    * `Dom.X.DomainImpl args` — the domain the code implements, where that differs;
    * `Dom.X.ErrDoc args e`   — the condition the doc comment of the error variant `e` states.

  Float entries range over `XR` (IEEE values without rounding); vectors are `List XR`, matrices
  row-major `List (List XR)` as in the hand model `Statrs/Model/Multivariate.lean`; entry `(i,j)`
  is `LA.mget m i j`.  "The sum of the elements" is the sum as the code accumulates it
  (`xsum`: `0.0`, then `+=` in order), compared with IEEE `==`.  Positive-definiteness has no
  meaning for matrices with non-real entries; the matrix constructors take "nalgebra's
  `Cholesky::new` succeeds" (`LA.choleskyNew … ≠ none`, the model of that routine) as the
  definition, and Statrs/Props/C09/Cholesky.lean proves that this IS positive-definiteness for
  real 1×1 and 2×2 matrices.
-/
import Statrs.Spec.Domain
import Statrs.Lemmas.C09Vector
namespace Statrs.Spec.Dom
open Statrs Statrs.Gen Statrs.Model Statrs.Spec Statrs.Spec.XR Statrs.Lemmas.C09Vector
open Classical

/-! ## Categorical — src/distribution/categorical.rs -/
namespace Categorical
def Domain (prob_mass : List XR) : Prop :=
  -- "Returns an error if `prob_mass` is empty,
  prob_mass ≠ [] ∧
  --  the sum of the elements in `prob_mass` is 0,
  ¬ (xsum prob_mass == z) = true ∧
  --  or any element is less than 0 or is `f64::NAN`"
  ∀ x ∈ prob_mass, ¬ x < z ∧ ¬ IsNaN x
def ErrDoc (prob_mass : List XR) : CategoricalError → Prop
  -- "The probability mass is empty."
  | .ProbMassEmpty => prob_mass = []
  -- "The probabilities sums up to zero."
  | .ProbMassSumZero => (xsum prob_mass == z) = true
  -- "The probability mass contains at least one element which is NaN or less than zero."
  | .ProbMassHasInvalidElements => ∃ x ∈ prob_mass, IsNaN x ∨ x < z
end Categorical

/-! ## Multinomial — src/distribution/multinomial.rs  (`n : u64` is unconstrained) -/
namespace Multinomial
/-- the `# Errors` section of `Multinomial::new` -/
def Domain (p : List XR) : Prop :=
  -- "Returns an error if `p` is empty,
  p ≠ [] ∧
  --  the sum of the elements in `p` is 0,
  ¬ (xsum p == z) = true ∧
  --  or any element in `p` is less than 0 or is `f64::NAN`"
  ∀ x ∈ p, ¬ x < z ∧ ¬ IsNaN x
/-- what the code implements: at least TWO probabilities (documented only on the error enum) -/
def DomainImpl (p : List XR) : Prop :=
  2 ≤ p.length ∧ (∀ x ∈ p, ¬ IsNaN x ∧ ¬ x < z) ∧ ¬ (xsum p == z) = true
def ErrDoc (p : List XR) : MultinomialError → Prop
  -- "Fewer than two probabilities."
  | .NotEnoughProbabilities => p.length < 2
  -- "The sum of all probabilities is zero."
  | .ProbabilitySumZero => (xsum p == z) = true
  -- "At least one probability is NaN, infinite or less than zero."
  | .ProbabilityInvalid => ∃ x ∈ p, IsNaN x ∨ IsInf x ∨ x < z
end Multinomial

/-! ## Dirichlet — src/distribution/dirichlet.rs -/
namespace Dirichlet
/-- the `# Errors` section of `Dirichlet::new` (infinite entries are not mentioned there) -/
def Domain (alpha : List XR) : Prop :=
  -- "Returns an error if any element `x` in alpha exist such that `x < = 0.0` or `x` is `NaN`,
  (∀ x ∈ alpha, ¬ x ≤ z ∧ ¬ IsNaN x) ∧
  --  or if the length of alpha is less than 2"
  ¬ alpha.length < 2
/-- what the code implements = the `# Error` section of `new_from_nalgebra`: "Returns an error if
    vector has length less than 2 or if any element of alpha is NOT finite positive" -/
def DomainImpl (alpha : List XR) : Prop :=
  ¬ alpha.length < 2 ∧ ∀ x ∈ alpha, IsFinite x ∧ z < x
def ErrDoc (alpha : List XR) : DirichletError → Prop
  -- "Alpha contains less than two elements."
  | .AlphaTooShort => alpha.length < 2
  -- "Alpha contains an element that is NaN, infinite, zero or less than zero."
  | .AlphaHasInvalidElements => ∃ x ∈ alpha, IsNaN x ∨ IsInf x ∨ x ≤ z
/-- first variant in declaration order whose documented condition holds -/
noncomputable def docErr (alpha : List XR) : DirichletError :=
  if ErrDoc alpha .AlphaTooShort then .AlphaTooShort else .AlphaHasInvalidElements

/-- the `# Errors` section of `Dirichlet::new_with_param(alpha, n)` -/
def ParamDomain (alpha : XR) (n : Int) : Prop :=
  -- "Returns an error if `alpha < = 0.0` or `alpha` is `NaN`,
  ¬ alpha ≤ z ∧ ¬ IsNaN alpha ∧
  --  or if `n < 2`"
  ¬ n < 2
/-- what `new_with_param` implements (through `new`) -/
def ParamDomainImpl (alpha : XR) (n : Int) : Prop :=
  ¬ n < 2 ∧ IsFinite alpha ∧ z < alpha
end Dirichlet

/-! ## MultivariateNormal — src/distribution/multivariate_normal.rs (`new_from_nalgebra`) -/
namespace MultivariateNormal
/-- What the code implements.  The `# Errors` section of `new`/`new_from_nalgebra` says only
    "Returns an error if the given covariance matrix is not symmetric or positive-definite"; the
    remaining clauses are documented on the variants of `MultivariateNormalError`. -/
def DomainImpl (mean : List XR) (cov : List (List XR)) : Prop :=
  -- MeanInvalid: "The mean vector contains a NaN."
  (∀ x ∈ mean, ¬ IsNaN x) ∧
  -- (always true of an `OMatrix<f64, D, D>`; a representation invariant of the list-of-rows model)
  LA.isSquare cov = true ∧
  -- CovInvalid: "The covariance matrix is asymmetric or contains a NaN."
  SymNoNaN cov.length cov ∧
  -- DimensionMismatch: "The amount of rows in the vector of means is not equal to the amount of
  -- rows in the covariance matrix."
  mean.length = cov.length ∧
  -- CholeskyFailed: "After all other validation, computing the Cholesky decomposition failed."
  LA.choleskyNew cov ≠ none
def ErrDoc (mean : List XR) (cov : List (List XR)) : MultivariateNormalError → Prop
  | .CovInvalid => ¬ SymNoNaN cov.length cov
  | .MeanInvalid => ∃ x ∈ mean, IsNaN x
  | .DimensionMismatch => mean.length ≠ cov.length
  | .CholeskyFailed => LA.choleskyNew cov = none
end MultivariateNormal

/-! ## MultivariateStudent — src/distribution/multivariate_students_t.rs (`new_from_nalgebra`) -/
namespace MultivariateStudent
/-- What the code implements.  (The `# Errors` section of `new` still names the variants
    `StatsError::BadParams` / `StatsError::ArgMustBePositive` of an enum that no longer exists;
    the clauses below are those of `MultivariateStudentError`.) -/
def DomainImpl (location : List XR) (scale : List (List XR)) (freedom : XR) : Prop :=
  -- LocationInvalid: "The location vector contains a NaN."
  (∀ x ∈ location, ¬ IsNaN x) ∧
  LA.isSquare scale = true ∧
  -- ScaleInvalid: "The scale matrix is asymmetric or contains a NaN."
  SymNoNaN scale.length scale ∧
  -- FreedomInvalid: "The degrees of freedom are NaN, zero or less than zero."
  (¬ IsNaN freedom ∧ ¬ freedom ≤ z) ∧
  -- DimensionMismatch
  location.length = scale.length ∧
  -- CholeskyFailed: "… This means that the scale matrix is not definite-positive."
  LA.choleskyNew scale ≠ none
def ErrDoc (location : List XR) (scale : List (List XR)) (freedom : XR) :
    MultivariateStudentError → Prop
  | .ScaleInvalid => ¬ SymNoNaN scale.length scale
  | .LocationInvalid => ∃ x ∈ location, IsNaN x
  | .FreedomInvalid => IsNaN freedom ∨ freedom ≤ z
  | .DimensionMismatch => location.length ≠ scale.length
  | .CholeskyFailed => LA.choleskyNew scale = none
end MultivariateStudent

end Statrs.Spec.Dom
