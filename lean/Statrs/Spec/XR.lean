/-
  Statrs.Spec.XR — "IEEE values without rounding": the carrier for statements about code that only
  *classifies* its float arguments (`is_nan`, `is_infinite`, `is_finite`, `<`, `<=`, `==`).

  `XR = {NaN, −∞} ∪ ℝ ∪ {+∞}` with IEEE-754 comparison semantics:
    * every ordered comparison and `==` involving NaN is false;
    * `−∞ < fin r < +∞`;
    * `isNaN`, `isInf`, `isFinite` as in IEEE.
  There is no signed zero and no rounding: `fin r` stands for any f64 whose exact value is `r`
  (so `+0.0` and `-0.0` are both `fin 0`, which is sound for `<`, `<=`, `==`, `is_*`).
  Arithmetic is the IEEE special-value algebra with exact results on finite operands
  (a zero divisor is treated as `+0`); transcendental functions are the real ones on `fin` and
  `nan` elsewhere — the constructors proved against this carrier need only `/ 2.0`.
-/
import Statrs.Real.Inst
import Mathlib.Tactic.NormNum
import Mathlib.Tactic.Linarith
namespace Statrs.Spec
open Statrs

/-- IEEE values without rounding. -/
inductive XR where
  | nan
  | ninf
  | fin (r : ℝ)
  | pinf

namespace XR

/-! ### classification (specification-level, `Prop`) -/

/-- the value is NaN -/
def IsNaN : XR → Prop
  | nan => True
  | _ => False

/-- the value is `+∞` or `−∞` -/
def IsInf : XR → Prop
  | ninf => True
  | pinf => True
  | _ => False

/-- the value is neither NaN nor infinite -/
def IsFinite : XR → Prop
  | fin _ => True
  | _ => False

@[simp] theorem isNaN_nan : IsNaN nan = True := rfl
@[simp] theorem isNaN_ninf : IsNaN ninf = False := rfl
@[simp] theorem isNaN_fin (r : ℝ) : IsNaN (fin r) = False := rfl
@[simp] theorem isNaN_pinf : IsNaN pinf = False := rfl
@[simp] theorem isInf_nan : IsInf nan = False := rfl
@[simp] theorem isInf_ninf : IsInf ninf = True := rfl
@[simp] theorem isInf_fin (r : ℝ) : IsInf (fin r) = False := rfl
@[simp] theorem isInf_pinf : IsInf pinf = True := rfl
@[simp] theorem isFinite_nan : IsFinite nan = False := rfl
@[simp] theorem isFinite_ninf : IsFinite ninf = False := rfl
@[simp] theorem isFinite_fin (r : ℝ) : IsFinite (fin r) = True := rfl
@[simp] theorem isFinite_pinf : IsFinite pinf = False := rfl

/-! ### IEEE comparisons -/

/-- IEEE `<` -/
protected def lt : XR → XR → Prop
  | ninf, fin _ => True
  | ninf, pinf => True
  | fin a, fin b => a < b
  | fin _, pinf => True
  | _, _ => False

/-- IEEE `<=` -/
protected def le : XR → XR → Prop
  | ninf, ninf => True
  | ninf, fin _ => True
  | ninf, pinf => True
  | fin a, fin b => a ≤ b
  | fin _, pinf => True
  | pinf, pinf => True
  | _, _ => False

/-- IEEE `==` -/
protected noncomputable def beq : XR → XR → Bool
  | ninf, ninf => true
  | fin a, fin b => decide (a = b)
  | pinf, pinf => true
  | _, _ => false

instance : LT XR := ⟨XR.lt⟩
instance : LE XR := ⟨XR.le⟩
noncomputable instance : BEq XR := ⟨XR.beq⟩
noncomputable instance : DecidableLT XR := fun _ _ => Classical.propDecidable _
noncomputable instance : DecidableLE XR := fun _ _ => Classical.propDecidable _
instance : Inhabited XR := ⟨nan⟩

-- `<`
@[simp] theorem nan_lt (x : XR) : (nan < x) = False := rfl
@[simp] theorem lt_nan (x : XR) : (x < nan) = False := by cases x <;> rfl
@[simp] theorem lt_ninf (x : XR) : (x < ninf) = False := by cases x <;> rfl
@[simp] theorem pinf_lt (x : XR) : (pinf < x) = False := by cases x <;> rfl
@[simp] theorem ninf_lt_fin (r : ℝ) : (ninf < fin r) = True := rfl
@[simp] theorem ninf_lt_pinf : (ninf < pinf) = True := rfl
@[simp] theorem fin_lt_pinf (r : ℝ) : (fin r < pinf) = True := rfl
@[simp] theorem fin_lt_fin (a b : ℝ) : (fin a < fin b) = (a < b) := rfl
-- `<=`
@[simp] theorem nan_le (x : XR) : (nan ≤ x) = False := rfl
@[simp] theorem le_nan (x : XR) : (x ≤ nan) = False := by cases x <;> rfl
@[simp] theorem ninf_le_ninf : (ninf ≤ ninf) = True := rfl
@[simp] theorem ninf_le_fin (r : ℝ) : (ninf ≤ fin r) = True := rfl
@[simp] theorem ninf_le_pinf : (ninf ≤ pinf) = True := rfl
@[simp] theorem fin_le_ninf (r : ℝ) : (fin r ≤ ninf) = False := rfl
@[simp] theorem fin_le_fin (a b : ℝ) : (fin a ≤ fin b) = (a ≤ b) := rfl
@[simp] theorem fin_le_pinf (r : ℝ) : (fin r ≤ pinf) = True := rfl
@[simp] theorem pinf_le_ninf : (pinf ≤ ninf) = False := rfl
@[simp] theorem pinf_le_fin (r : ℝ) : (pinf ≤ fin r) = False := rfl
@[simp] theorem pinf_le_pinf : (pinf ≤ pinf) = True := rfl
-- `==`
@[simp] theorem nan_beq (x : XR) : (nan == x) = false := rfl
@[simp] theorem beq_nan (x : XR) : (x == nan) = false := by cases x <;> rfl
@[simp] theorem ninf_beq_ninf : (ninf == ninf) = true := rfl
@[simp] theorem pinf_beq_pinf : (pinf == pinf) = true := rfl
@[simp] theorem ninf_beq_fin (r : ℝ) : (ninf == fin r) = false := rfl
@[simp] theorem ninf_beq_pinf : (ninf == pinf) = false := rfl
@[simp] theorem fin_beq_ninf (r : ℝ) : (fin r == ninf) = false := rfl
@[simp] theorem fin_beq_pinf (r : ℝ) : (fin r == pinf) = false := rfl
@[simp] theorem pinf_beq_ninf : (pinf == ninf) = false := rfl
@[simp] theorem pinf_beq_fin (r : ℝ) : (pinf == fin r) = false := rfl
@[simp] theorem fin_beq_fin (a b : ℝ) : ((fin a == fin b) = true) = (a = b) := by
  show (decide (a = b) = true) = (a = b)
  simp

/-! ### literals -/

/-- a decimal literal denotes its exact rational value -/
noncomputable instance : OfScientific XR :=
  ⟨fun m s e => fin (OfScientific.ofScientific m s e : ℝ)⟩

@[simp] theorem ofScientific_eq (m : Nat) (s : Bool) (e : Nat) :
    (OfScientific.ofScientific m s e : XR) = fin (OfScientific.ofScientific m s e : ℝ) := rfl

/-! ### arithmetic: IEEE special-value rules, exact on finite operands -/

protected def neg : XR → XR
  | nan => nan
  | ninf => pinf
  | fin r => fin (-r)
  | pinf => ninf

protected def add : XR → XR → XR
  | nan, _ => nan
  | _, nan => nan
  | ninf, pinf => nan
  | pinf, ninf => nan
  | ninf, _ => ninf
  | _, ninf => ninf
  | pinf, _ => pinf
  | _, pinf => pinf
  | fin a, fin b => fin (a + b)

/-- sign of an infinity times a finite factor (`∞ · 0 = NaN`) -/
protected noncomputable def scaleInf (pos : Bool) (r : ℝ) : XR :=
  if r = 0 then nan else if (0 < r) = pos then pinf else ninf

protected noncomputable def mul : XR → XR → XR
  | nan, _ => nan
  | _, nan => nan
  | fin a, fin b => fin (a * b)
  | pinf, fin b => XR.scaleInf true b
  | ninf, fin b => XR.scaleInf false b
  | fin a, pinf => XR.scaleInf true a
  | fin a, ninf => XR.scaleInf false a
  | pinf, pinf => pinf
  | ninf, ninf => pinf
  | pinf, ninf => ninf
  | ninf, pinf => ninf

/-- division; a finite zero divisor is read as `+0` -/
protected noncomputable def div : XR → XR → XR
  | nan, _ => nan
  | _, nan => nan
  | fin a, fin b =>
      if b = 0 then (if a = 0 then nan else if 0 < a then pinf else ninf) else fin (a / b)
  | fin _, pinf => fin 0
  | fin _, ninf => fin 0
  | pinf, fin b => if 0 ≤ b then pinf else ninf
  | ninf, fin b => if 0 ≤ b then ninf else pinf
  | pinf, pinf => nan
  | pinf, ninf => nan
  | ninf, pinf => nan
  | ninf, ninf => nan

instance : Neg XR := ⟨XR.neg⟩
instance : Add XR := ⟨XR.add⟩
instance : Sub XR := ⟨fun a b => XR.add a (XR.neg b)⟩
noncomputable instance : Mul XR := ⟨XR.mul⟩
noncomputable instance : Div XR := ⟨XR.div⟩

@[simp] theorem neg_nan : -nan = nan := rfl
@[simp] theorem neg_ninf : -ninf = pinf := rfl
@[simp] theorem neg_pinf : -pinf = ninf := rfl
@[simp] theorem neg_fin (r : ℝ) : -(fin r) = fin (-r) := rfl
@[simp] theorem fin_add_fin (a b : ℝ) : fin a + fin b = fin (a + b) := rfl
@[simp] theorem fin_sub_fin (a b : ℝ) : fin a - fin b = fin (a - b) := by
  show XR.add (fin a) (XR.neg (fin b)) = _
  simp [XR.add, XR.neg, sub_eq_add_neg]
@[simp] theorem fin_mul_fin (a b : ℝ) : fin a * fin b = fin (a * b) := rfl
@[simp] theorem nan_div (x : XR) : nan / x = nan := rfl
theorem fin_div_fin (a b : ℝ) (hb : b ≠ 0) : fin a / fin b = fin (a / b) := by
  show XR.div (fin a) (fin b) = _
  simp [XR.div, hb]
theorem pinf_div_fin (b : ℝ) (hb : 0 ≤ b) : pinf / fin b = pinf := by
  show XR.div pinf (fin b) = _
  simp [XR.div, hb]
theorem ninf_div_fin (b : ℝ) (hb : 0 ≤ b) : ninf / fin b = ninf := by
  show XR.div ninf (fin b) = _
  simp [XR.div, hb]

/-! ### the non-field operations -/

/-- a real function, NaN outside the finite values -/
def lift (f : ℝ → ℝ) : XR → XR
  | fin r => fin (f r)
  | _ => nan

def lift₂ (f : ℝ → ℝ → ℝ) : XR → XR → XR
  | fin a, fin b => fin (f a b)
  | _, _ => nan

/-- saturating float-to-integer conversion into `[lo, hi]` (NaN ↦ 0) -/
noncomputable def toIntSat (lo hi : Int) (trunc : ℝ → Int) : XR → Int
  | nan => 0
  | ninf => lo
  | pinf => hi
  | fin r => max lo (min hi (trunc r))

noncomputable instance instRFunXR : RFun XR where
  exp := lift RFun.exp
  ln := lift RFun.ln
  log10 := lift RFun.log10
  log2 := lift RFun.log2
  exp2 := lift RFun.exp2
  sqrt := lift RFun.sqrt
  sin := lift RFun.sin
  cos := lift RFun.cos
  tan := lift RFun.tan
  atan := lift RFun.atan
  floor := lift RFun.floor
  ceil := lift RFun.ceil
  round := lift RFun.round
  abs := lift RFun.abs
  signum := lift RFun.signum
  ln1p := lift RFun.ln1p
  expm1 := lift RFun.expm1
  recip := lift RFun.recip
  pow := lift₂ RFun.pow
  powi := fun x n => lift (fun r => RFun.powi r n) x
  logb := lift₂ RFun.logb
  fmin := lift₂ RFun.fmin
  fmax := lift₂ RFun.fmax
  fmod := lift₂ RFun.fmod
  isNaN := fun x => match x with | nan => true | _ => false
  isInf := fun x => match x with | ninf => true | pinf => true | _ => false
  isFinite := fun x => match x with | fin _ => true | _ => false
  nan := nan
  inf := pinf
  negInf := ninf
  maxVal := fin ((2 - 2⁻¹ ^ 52) * 2 ^ 1023)
  minVal := fin (-((2 - 2⁻¹ ^ 52) * 2 ^ 1023))
  minPositive := fin (2⁻¹ ^ 1022)
  epsilon := fin (2⁻¹ ^ 52)
  ofInt := fun n => fin (n : ℝ)
  toU64 := toIntSat 0 u64Max (fun r => ⌊r⌋)
  toI64 := toIntSat i64Min i64Max (fun r => RFun.toI64 r)
  toI32 := toIntSat i32Min i32Max (fun r => RFun.toI32 r)
  toU32 := toIntSat 0 4294967295 (fun r => ⌊r⌋)
  ulpsEq := fun x y => x == y
  pi := fin RFun.pi
  tau := fin RFun.tau
  e := fin RFun.e
  ln2 := fin RFun.ln2
  ln10 := fin RFun.ln10
  sqrt2 := fin RFun.sqrt2
  frac1Sqrt2 := fin RFun.frac1Sqrt2
  fracPi2 := fin RFun.fracPi2
  c_SQRT_2PI := fin RFun.c_SQRT_2PI
  c_LN_PI := fin RFun.c_LN_PI
  c_LN_SQRT_2PI := fin RFun.c_LN_SQRT_2PI
  c_LN_SQRT_2PIE := fin RFun.c_LN_SQRT_2PIE
  c_LN_2_SQRT_E_OVER_PI := fin RFun.c_LN_2_SQRT_E_OVER_PI
  c_TWO_SQRT_E_OVER_PI := fin RFun.c_TWO_SQRT_E_OVER_PI
  c_EULER_MASCHERONI := fin RFun.c_EULER_MASCHERONI
  sumZero := fin 0

@[simp] theorem rfun_isNaN_nan : RFun.isNaN nan = true := rfl
@[simp] theorem rfun_isNaN_ninf : RFun.isNaN ninf = false := rfl
@[simp] theorem rfun_isNaN_fin (r : ℝ) : RFun.isNaN (fin r) = false := rfl
@[simp] theorem rfun_isNaN_pinf : RFun.isNaN pinf = false := rfl
@[simp] theorem rfun_isInf_nan : RFun.isInf nan = false := rfl
@[simp] theorem rfun_isInf_ninf : RFun.isInf ninf = true := rfl
@[simp] theorem rfun_isInf_fin (r : ℝ) : RFun.isInf (fin r) = false := rfl
@[simp] theorem rfun_isInf_pinf : RFun.isInf pinf = true := rfl
@[simp] theorem rfun_isFinite_nan : RFun.isFinite nan = false := rfl
@[simp] theorem rfun_isFinite_ninf : RFun.isFinite ninf = false := rfl
@[simp] theorem rfun_isFinite_fin (r : ℝ) : RFun.isFinite (fin r) = true := rfl
@[simp] theorem rfun_isFinite_pinf : RFun.isFinite pinf = false := rfl
@[simp] theorem rfun_ofInt (n : Int) : (RFun.ofInt n : XR) = fin (n : ℝ) := rfl
@[simp] theorem rfun_inf : (RFun.inf : XR) = pinf := rfl
@[simp] theorem rfun_negInf : (RFun.negInf : XR) = ninf := rfl
@[simp] theorem rfun_nan : (RFun.nan : XR) = nan := rfl

/-- the Bool classifiers of the model agree with the specification-level predicates -/
theorem rfun_isNaN_iff (x : XR) : RFun.isNaN x = true ↔ IsNaN x := by cases x <;> simp
theorem rfun_isInf_iff (x : XR) : RFun.isInf x = true ↔ IsInf x := by cases x <;> simp
theorem rfun_isFinite_iff (x : XR) : RFun.isFinite x = true ↔ IsFinite x := by cases x <;> simp

/-- `(n as f64) as u64 = n` on the exact carrier, for `n` in the `u64` range -/
theorem toU64_ofInt (n : Int) (h0 : 0 ≤ n) (h1 : n ≤ u64Max) :
    RFun.toU64 (RFun.ofInt n : XR) = n := by
  show max 0 (min u64Max ⌊(n : ℝ)⌋) = n
  rw [Int.floor_intCast]
  omega

/-! ### sanity: the IEEE facts the carrier is meant to have -/

example : ¬ (nan < nan) ∧ ¬ (nan ≤ nan) ∧ (nan == nan) = false := by simp
example (r : ℝ) : ninf < fin r ∧ fin r < pinf ∧ ninf < pinf := by simp
example : ((0.0 : XR) ≤ (1.5 : XR)) := by simp; norm_num
example : (pinf : XR) / (2.0 : XR) = pinf := by
  rw [ofScientific_eq, pinf_div_fin]; norm_num

end XR
end Statrs.Spec
