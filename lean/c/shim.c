#include <math.h>
#include <lean/lean.h>
LEAN_EXPORT double statrs_log1p(double x) { return log1p(x); }
LEAN_EXPORT double statrs_expm1(double x) { return expm1(x); }
LEAN_EXPORT double statrs_fmod(double x, double y) { return fmod(x, y); }
#include <string.h>
#include <stdint.h>
/* raw bit pattern (Lean's Float.toBits canonicalises NaN) */
LEAN_EXPORT uint64_t statrs_rawbits(double x) { uint64_t u; memcpy(&u, &x, 8); return u; }
LEAN_EXPORT double statrs_ofrawbits(uint64_t u) { double x; memcpy(&x, &u, 8); return x; }
