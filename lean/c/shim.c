#include <math.h>
#include <lean/lean.h>
LEAN_EXPORT double statrs_log1p(double x) { return log1p(x); }
LEAN_EXPORT double statrs_expm1(double x) { return expm1(x); }
LEAN_EXPORT double statrs_fmod(double x, double y) { return fmod(x, y); }
