import Lake
open Lake DSL

package statrs where
  -- no dependencies: Mathlib is on the toolchain's own search path

@[default_target]
lean_lib Statrs where
  -- everything except `Statrs/Draft/**` (staging area for theorem files that are still being written: a module
  -- there is reachable as `lake build Statrs.Draft.X` but is not part of `lake build Statrs`)
  globs := #[.one `Statrs.Basic, .submodules `Statrs.Audit, .submodules `Statrs.Driver, .submodules `Statrs.Gen,
             .submodules `Statrs.Inst, .submodules `Statrs.Lemmas, .submodules `Statrs.Model, .submodules `Statrs.Props,
             .submodules `Statrs.Real, .submodules `Statrs.Spec]

target shim.o pkg : System.FilePath := do
  let oFile := pkg.buildDir / "c" / "shim.o"
  let srcJob ← inputTextFile <| pkg.dir / "c" / "shim.c"
  let flags := #["-I", (← getLeanIncludeDir).toString, "-fPIC", "-O1"]
  buildO oFile srcJob flags #[] "cc"

extern_lib libshim pkg := do
  let o ← shim.o.fetch
  buildStaticLib (pkg.staticLibDir / nameToStaticLib "shim") #[o]

lean_exe driver where
  root := `Driver

/-- staging area (not a default target) -/
lean_lib StatrsDraft where
  roots := #[`Statrs.Draft]
  globs := #[.submodules `Statrs.Draft]

/-- definitions of a regenerated model that differ from the reference model, and their equations (written by modeleq.py
    during a check run; not a default target, not tracked) -/
lean_lib StatrsGenNew where
  roots := #[`Statrs.GenNew]
  globs := #[.submodules `Statrs.GenNew]
