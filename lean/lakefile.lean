import Lake
open Lake DSL

package statrs where
  -- no dependencies: Mathlib is on the toolchain's own search path

@[default_target]
lean_lib Statrs where
  globs := #[.submodules `Statrs]

target shim.o pkg : System.FilePath := do
  let oFile := pkg.buildDir / "c" / "shim.o"
  let srcJob ← inputTextFile <| pkg.dir / "c" / "shim.c"
  let flags := #["-I", (← getLeanIncludeDir).toString, "-fPIC", "-O1"]
  buildO oFile srcJob flags #[] "cc"

extern_lib libshim pkg := do
  let o ← shim.o.fetch
  buildStaticLib (pkg.staticLibDir / nameToStaticLib "shim") #[o]

lean_exe driver where
  root := `Driver
