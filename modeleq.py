"""modeleq — machine-checked equivalence of a regenerated model with the reference model.

Why: a harmless rewrite of /repo/src (a new `let`, renamed locals, an extracted helper, `if !c {a} else {b}` turned
round, a literal replaced by a `const`) changes the text of the generated Lean model, and the theorems — written
against the model's previous shape — may stop elaborating although nothing they say has changed.  Before the theorem
modules are rebuilt, `try_equivalence()` therefore tries to PROVE IN LEAN that every changed generated definition is
equal, as a function on every carrier, to the definition of the reference model (the generated model of the committed
tree, stored as text under lean/GenRef/).  If all of these equations are accepted by the kernel, the theorems are
checked against the reference model, and they hold of the new model by rewriting with the equations: the property
is still proved, and the correspondence still runs the (new) implementation against the (equal) model.
If any equation fails — which is what happens for every change of behaviour — the new model is put in place and the
check proceeds as before (broken obligations, boosted search).

Soundness of the scheme: let M be the reference model and M' the regenerated one.  `GenNew/<file>.lean` contains exactly
the definitions of M' whose text differs from M (plus new ones), in namespace `Statrs.GenNew`, opened over `Statrs.Gen`:
inside it an unqualified callee resolves to the GenNew version when that callee changed too, and to the reference
version otherwise.  Every equation `@Statrs.GenNew.f = @Statrs.Gen.f` is stated for all carriers and instances.  By
induction over the (acyclic, apart from self-recursion) call graph, every definition of M' equals the definition of M with
the same name; definitions with identical text differ only in callees that are equal.  Trusted: this file's parser
of generated definitions (a wrong split can only make an equation fail or refer to a missing name, never make a false
equation check), the Lean kernel.
"""
import os, re, shutil, subprocess, json

HEADER_RE = re.compile(r"^/-- src/[^\n]*-/\n", re.M)


def norm(text):
    """generated text without the source-position doc comments (they move with every edit above them)"""
    return HEADER_RE.sub("", text)


def split_defs(text):
    """top-level items of a generated file: list of (kind, name, text) in order; everything before the first item is the prelude"""
    t = norm(text)
    # items start at column 0 with one of these keywords (generated files put attributes/docs on their own lines)
    pat = re.compile(r"^(?:@\[[^\]]*\]\s*\n)?(?:noncomputable\s+|partial\s+|private\s+)*(def|instance|structure|inductive|abbrev|theorem)\s+(\S+)", re.M)
    ms = list(pat.finditer(t))
    if not ms:
        return t, []
    prelude = t[:ms[0].start()]
    items = []
    for i, m in enumerate(ms):
        end = ms[i + 1].start() if i + 1 < len(ms) else len(t)
        body = t[m.start():end]
        # drop the trailing `end Namespace` of the file from the last item
        body = re.sub(r"\nend\s+\S+\s*$", "\n", body)
        items.append((m.group(1), m.group(2), body))
    return prelude, items


def acceptable_files(gen_dir, ref_dir):
    return sorted(f for f in os.listdir(gen_dir) if f.endswith(".lean"))


def accept_model(gen_dir, ref_dir):
    """store the current generated model as the reference (run by the maintainer when a model is committed)"""
    os.makedirs(ref_dir, exist_ok=True)
    for f in os.listdir(ref_dir):
        os.remove(os.path.join(ref_dir, f))
    for f in acceptable_files(gen_dir, ref_dir):
        shutil.copy(os.path.join(gen_dir, f), os.path.join(ref_dir, f + ".ref"))
    for f in ("manifest.json", "signatures.json"):
        if os.path.exists(os.path.join(gen_dir, f)):
            shutil.copy(os.path.join(gen_dir, f), os.path.join(ref_dir, f + ".ref"))



# ---------------------------------------------------------------- auxiliary lemmas for list-recursive loops
def _top_groups(h):
    """balanced top-level bracket groups of a header: list of (open_char, inner_text, start, end)"""
    out, i, n = [], 0, len(h)
    pairs = {"(": ")", "[": "]", "{": "}"}
    while i < n:
        c = h[i]
        if c in pairs:
            depth, j = 1, i + 1
            while j < n and depth:
                if h[j] in pairs:
                    depth += 1
                elif h[j] in pairs.values():
                    depth -= 1
                j += 1
            out.append((c, h[i + 1:j - 1], i, j))
            i = j
        else:
            i += 1
    return out


def _two_terms(t):
    """split `R S` (each an atom or a bracketed term) — the arguments of `LoopR`"""
    t = t.strip()
    terms = []
    while t:
        if t[0] == "(":
            g = _top_groups(t)[0]
            terms.append(t[:g[3]])
            t = t[g[3]:].strip()
        else:
            m = re.match(r"\S+", t)
            terms.append(m.group(0))
            t = t[m.end():].strip()
    return terms


def list_loop_aux(name, body):
    """For a translator-made list loop without early exit
         def NAME {implicit} [inst] (l_ : List β) (params…) : LoopR ρ σ := match l_ with | [] => LoopR.done S | x_ :: l_ => … (NAME l_ params')
       the text of (a) `NAME.mq_step`, one round of the loop, defined SEMANTICALLY as the loop run on the singleton list (no
       parsing of the loop body), and (b) `NAME.mq_fold : NAME l_ params = LoopR.done (List.foldl (NAME.mq_step consts) S l_)`,
       proved by induction on the list.  None when the definition does not have that shape (then nothing is emitted; a wrong
       guess can only produce a lemma that fails to check)."""
    m = re.match(r"(?:@\[[^\]]*\]\s*\n)?(?:noncomputable\s+)?def\s+(\S+)\s+(.*?)\s*:=\s*\n\s*match l_ with\n\s*\| \[\] => LoopR\.done ([^\n]*)\n", body, re.S)
    if not m or m.group(1) != name:
        return None
    header, done = m.group(2), m.group(3).strip()
    rest = body[m.end():]
    if "LoopR." in rest or "\n" in header:      # early return / break / nested hang: not a fold
        return None
    groups = _top_groups(header)
    # return type: after the `:` that stands outside every bracket
    colon = None
    for i, c in enumerate(header):
        if c == ":" and not any(g[2] < i < g[3] for g in groups):
            colon = i
            break
    if colon is None:
        return None
    groups = [g for g in groups if g[3] <= colon]
    expl = [g for g in groups if g[0] == "("]
    if not expl:
        return None
    ret = header[colon + 1:].strip()
    if not ret.startswith("LoopR "):
        return None
    rs = _two_terms(ret[len("LoopR "):])
    if len(rs) != 2:
        return None
    sigma = rs[1]
    binders = []
    for g in expl:
        mm = re.match(r"\s*(\S+)\s*:\s*(.*)$", g[1], re.S)
        if not mm:
            return None
        binders.append((mm.group(1), mm.group(2).strip()))
    if binders[0][0] != "l_":
        return None
    ml = re.match(r"List\s+(.*)$", binders[0][1])
    if not ml:
        return None
    beta = ml.group(1)
    implicit = header[:expl[0][2]].strip()
    if done == "()":
        state = []
    elif done.startswith("("):
        state = [x.strip() for x in done[1:-1].split(",")]
    else:
        state = [done]
    pnames = [b[0] for b in binders[1:]]
    if any(not re.match(r"^[A-Za-z_][A-Za-z_0-9']*$", x) for x in state) or any(x not in pnames for x in state) or len(set(state)) != len(state):
        return None
    consts = [b for b in binders[1:] if b[0] not in state]
    alpha = " (α := α)" if re.search(r"\{α : Type\}", implicit) else ""
    k = len(state)
    def comp(i):
        if k == 1:
            return "s_"
        return "s_" + ".2" * i + (".1" if i < k - 1 else "")
    call_args = " ".join(comp(state.index(b)) if b in state else b for b in pnames)
    cb = " ".join(f"({n} : {t})" for n, t in consts)
    cn = " ".join(n for n, _ in consts)
    ab = " ".join(f"({n} : {t})" for n, t in binders)
    an = " ".join(n for n, _ in binders)
    stup = "()" if k == 0 else (state[0] if k == 1 else "(" + ", ".join(state) + ")")
    gen = ("generalizing " + " ".join(state)) if state else ""
    ihargs = " ".join("_" for _ in state)
    txt = (f"def {name}.mq_step {implicit} {cb} (s_ : {sigma}) (x_ : {beta}) : {sigma} :=\n"
           f"  match {name}{alpha} [x_] {call_args} with\n  | LoopR.done s' => s'\n  | _ => s_\n"
           f"theorem {name}.mq_fold {implicit} {ab} :\n"
           f"    {name}{alpha} {an} = LoopR.done (List.foldl ({name}.mq_step{alpha} {cn}) {stup} l_) := by\n"
           f"  induction l_ {gen} with\n  | nil => rfl\n  | cons x l ih => first | exact ih {ihargs} | (simp only [List.foldl_cons]; exact ih {ihargs})\n")
    return txt


TACTIC = r"""
open Lean Elab Tactic in
/-- equality of two generated definitions: definitional unfolding first (new `let`s, renamed locals, extracted or
    inlined helpers, literals turned into constants), then extensionality + case analysis on the `if`s (conditions
    turned round), then the fold lemmas of the list loops (explicit `for` loop ↔ iterator chain; `MQ_FOLD` is the list of
    the `….mq_fold` lemmas emitted for this run), then induction on the fuel for lifted loops -/
macro "model_equiv" n1:ident n2:ident : tactic => `(tactic|
  first
  | rfl
  | (repeat (apply funext; intro)
     first
     | rfl
     | (simp only [$n1:ident, $n2:ident, ite_not, not_not, Bool.not_eq_true, ne_eq, not_le, not_lt]; done)
     | (unfold $n1 $n2; (try dsimp only); split_ifs <;> first | rfl | (exfalso; simp_all; done) | (simp_all; done))
     | (unfold $n1 $n2; (try dsimp only); (repeat' split <;> first | rfl | (exfalso; simp_all; done) | (simp_all; done)); done)
     | (unfold $n1 $n2; simp only [MQ_FOLD]; rfl)
     | (unfold $n1 $n2; simp only [MQ_FOLD]; (repeat' split <;> first | rfl | (exfalso; simp_all; done) | (simp_all; done)); done)
     | (simp only [$n1:ident, $n2:ident, MQ_FOLD, ite_not, not_not, Bool.not_eq_true, ne_eq, not_le, not_lt]
        first | done | rfl | ((repeat' split <;> first | rfl | (exfalso; simp_all; done) | (simp_all; done)); done)))
  | (intros; funext; intros
     rename_i fuel _
     induction fuel <;> simp_all [$n1:ident, $n2:ident]))
"""

# rewriting lemmas that bring iterator chains to one `List.foldl` (all in core / Statrs.Basic)
FOLD_SIMP = ["List.foldl_map", "List.map_id'", "List.map_id_fun'", "List.map_map", "Statrs.fsum", "Statrs.fprod", "List.foldl_cons", "List.foldl_nil"]


def _tokens(text):
    return set(re.findall(r"[A-Za-z_][A-Za-z_0-9.']*", text))


def _sig(body):
    """signature text of a definition (binders and type, up to the first `:=` that ends a line)"""
    m = re.search(r":=[ \t]*\n", body)
    return re.sub(r"\s+", " ", body[:m.start()] if m else body)


def try_equivalence(lean_dir, gen_dir, ref_dir, log, timeout=1500):
    """Returns dict(status=..., changed=[names], proved=[names], failed=[names], files=[...]).
    status: 'unchanged' | 'comments-only' | 'equivalent' | 'not-equivalent' | 'not-attempted:<why>'.
    On 'comments-only' and 'equivalent' the reference text has been restored into Gen/ (so nothing that was built
    against it needs rebuilding); on the other outcomes Gen/ holds the regenerated model."""
    res = {"status": "unchanged", "changed": [], "proved": [], "failed": [], "files": []}
    if not os.path.isdir(ref_dir):
        res["status"] = "not-attempted:no reference model"
        return res
    new_dir = os.path.join(lean_dir, "Statrs", "GenNew")
    shutil.rmtree(new_dir, ignore_errors=True)
    changed_files, comment_only = [], []
    gen_files = acceptable_files(gen_dir, ref_dir)
    ref_files = sorted(f[:-4] for f in os.listdir(ref_dir) if f.endswith(".lean.ref"))
    if gen_files != ref_files:
        res["status"] = "not-attempted:set of generated files changed"
        return res
    texts = {}
    for f in gen_files:
        new = open(os.path.join(gen_dir, f)).read()
        ref = open(os.path.join(ref_dir, f + ".ref")).read()
        texts[f] = (new, ref)
        if new == ref:
            continue
        if norm(new) == norm(ref):
            comment_only.append(f)
        else:
            changed_files.append(f)
    if not changed_files:
        for f in comment_only:
            open(os.path.join(gen_dir, f), "w").write(texts[f][1])
        res["status"] = "comments-only" if comment_only else "unchanged"
        res["files"] = comment_only
        return res
    structural = {"Types.lean", "SF.lean", "SFFloat.lean"}
    if structural & set(changed_files):
        res["status"] = "not-attempted:" + ",".join(sorted(structural & set(changed_files))) + " changed"
        return res
    os.makedirs(new_dir, exist_ok=True)
    eqs = []
    mods = []
    files = {}          # file -> (prelude, [changed def texts], [aux texts of GenNew loops], [aux texts of reference loops])
    fold_new, fold_ref = [], []
    changed_names, all_new_items = set(), []
    sig_changed = []    # loop helpers whose type changed: no equation can be stated for them (see below)
    for f in gen_files:
        if f in ("All.lean", "Dispatch.lean") or f not in changed_files:
            if f.endswith(".lean") and f not in ("All.lean", "Dispatch.lean"):
                all_new_items.extend(split_defs(texts[f][0])[1])
            continue
        new, ref = texts[f]
        pre_n, items_n = split_defs(new)
        pre_r, items_r = split_defs(ref)
        all_new_items.extend(items_n)
        refmap = {n: b for (_, n, b) in items_r}
        out, aux_n, aux_r = [], [], []
        for kind, name, body in items_n:
            if name in refmap and refmap[name] == body:
                continue
            if kind != "def":
                res["status"] = f"not-attempted:{kind} {name} changed in {f}"
                shutil.rmtree(new_dir, ignore_errors=True)
                return res
            out.append(body)
            changed_names.add(name)
            a = list_loop_aux(name, body)
            if a:
                aux_n.append(a)
                fold_new.append(f"Statrs.GenNew.{name}.mq_fold")
            if name in refmap:
                if re.search(r"\.loop\d+$", name) and _sig(refmap[name]) != _sig(body):
                    sig_changed.append(name)
                else:
                    eqs.append(name)
        # list loops of the reference model that the changed definitions used (rewrite in the other direction: loop → iterator chain)
        for kind, name, body in items_r:
            if kind == "def" and re.search(r"\.loop\d+$", name) and re.sub(r"\.loop\d+$", "", name) in changed_names:
                a = list_loop_aux(name, body)
                if a:
                    aux_r.append(a)
                    fold_ref.append(f"Statrs.Gen.{name}.mq_fold")
        removed = [n for (_, n, _) in items_r if n not in {n2 for (_, n2, _) in items_n}]
        res.setdefault("removed", []).extend(removed)
        pre = pre_n.replace("-- GENERATED", "-- definitions of the regenerated model that differ from the reference model (modeleq.py); GENERATED")
        pre = re.sub(r"^namespace\s+Statrs\.Gen\s*$", "namespace Statrs.GenNew\nopen Statrs.Gen", pre, flags=re.M)
        if "namespace Statrs.GenNew" not in pre:
            res["status"] = f"not-attempted:unexpected prelude in {f}"
            shutil.rmtree(new_dir, ignore_errors=True)
            return res
        # the changed file may use definitions of its own reference version and of everything it imported
        pre = pre.replace("set_option", f"import Statrs.Gen.{f[:-5]}\nset_option", 1)
        files[f] = (pre, out, aux_n, aux_r)
        mods.append("Statrs.GenNew." + f[:-5])
    # A lifted loop `f.loopK` whose TYPE changed (e.g. `while` ↔ `for`: fuel loop ↔ list loop) cannot be equated with the
    # reference loop of that name.  It is a private helper of `f`: the scheme stays sound if every definition of the new
    # model that mentions it is itself a changed definition (so it either gets its own equation, proved with whatever
    # the helper now is, or is such a helper again).  Otherwise: no attempt.
    for h in sig_changed:
        users = [n for (_, n, b) in all_new_items if n != h and h in _tokens(b)]
        bad = [n for n in users if n not in changed_names]
        if bad:
            res["status"] = f"not-attempted:type of {h} changed and {bad[0]} (unchanged text) uses it"
            shutil.rmtree(new_dir, ignore_errors=True)
            return res
    res["changed"] = eqs
    res["files"] = changed_files
    res["helpers_without_equation"] = sig_changed

    def write(with_aux):
        for f, (pre, out, aux_n, aux_r) in files.items():
            txt = pre + "".join(out)
            if with_aux and aux_n:
                txt += "\n-- fold lemmas of the list loops (modeleq.py)\n" + "\n".join(aux_n)
            txt += "\nend Statrs.GenNew\n"
            if with_aux and aux_r:
                txt += "\nnamespace Statrs.Gen\nopen Statrs\n" + "\n".join(aux_r) + "\nend Statrs.Gen\n"
            open(os.path.join(new_dir, f), "w").write(txt)
        folds = (fold_new + fold_ref) if with_aux else []
        tac = TACTIC.replace("MQ_FOLD", ", ".join(folds + FOLD_SIMP))
        with open(os.path.join(new_dir, "Equiv.lean"), "w") as fh:
            fh.write("import Mathlib.Tactic\nimport Statrs.Gen.All\n" + "".join(f"import {m}\n" for m in mods))
            fh.write("set_option maxRecDepth 8192\nset_option linter.unusedVariables false\nset_option linter.unusedTactic false\nset_option linter.unreachableTactic false\nset_option linter.unusedSimpArgs false\nnamespace Statrs.GenNew.Equiv\nopen Statrs\n")
            fh.write(tac)
            for i, n in enumerate(eqs):
                fh.write(f"theorem eq_{i} : @Statrs.GenNew.{n} = @Statrs.Gen.{n} := by\n  model_equiv Statrs.GenNew.{n} Statrs.Gen.{n}\n")
            fh.write("end Statrs.GenNew.Equiv\n")

    def build():
        try:
            p = subprocess.run(["lake", "build", "Statrs.GenNew.Equiv"], cwd=lean_dir, capture_output=True, text=True, timeout=timeout)
            return p.returncode == 0, p.stdout + p.stderr
        except subprocess.TimeoutExpired:
            return False, "timeout"

    # restore the reference text so that the equations are about the model the theorems were built against
    for f in changed_files + comment_only:
        open(os.path.join(gen_dir, f), "w").write(texts[f][1])
    has_aux = bool(fold_new or fold_ref)
    write(has_aux)
    ok, out = build()
    if not ok and has_aux and not re.search(r"GenNew/Equiv\.lean:\d+", out):
        # an auxiliary lemma (not an equation) failed: fall back to the run without auxiliary lemmas
        res["aux_failed"] = "\n".join(l for l in out.splitlines() if "error" in l)[:1500]
        write(False)
        ok, out = build()
    if ok and not re.search(r"\bsorry\b", out):
        res["status"] = "equivalent"
        res["proved"] = eqs
        res["aux"] = fold_new + fold_ref if has_aux else []
        return res
    res["failed"] = eqs
    res["log"] = "\n".join(l for l in out.splitlines() if "error" in l)[:3000]
    res["status"] = "not-equivalent"
    for f in changed_files + comment_only:
        open(os.path.join(gen_dir, f), "w").write(texts[f][0])
    shutil.rmtree(new_dir, ignore_errors=True)
    return res
