"""modeleq — machine-checked equivalence of a regenerated model with the reference model.

Why: a harmless rewrite of /repo/src (a new `let`, renamed locals, an extracted helper, `if !c {a} else {b}` turned
round, a literal replaced by a `const`) changes the text of the generated Lean model, and the theorems — written
against the model's previous shape — may stop elaborating although nothing they say has changed.  Before the theorem
modules are rebuilt, `try_equivalence()` therefore tries to PROVE IN LEAN that every changed generated definition is
equal, as a function on every carrier, to the definition of the reference model (the generated model of the committed
tree, stored as text under lean/GenRef/).  If all of these equations are accepted by the kernel, the theorems are
checked against the reference model, and they hold of the new model by rewriting with the equations: the property
is still proved, and the correspondence still runs the (new) implementation against the (equal) model.
If any equation fails — which is what happens for every change of behaviour — the new model is put in place and the
check proceeds as before (broken obligations, boosted search).

Soundness of the scheme: let M be the reference model and M' the regenerated one.  `GenNew/<file>.lean` contains exactly
the definitions of M' whose text differs from M (plus new ones), in namespace `Statrs.GenNew`, opened over `Statrs.Gen`:
inside it an unqualified callee resolves to the GenNew version when that callee changed too, and to the reference
version otherwise.  Every equation `@Statrs.GenNew.f = @Statrs.Gen.f` is stated for all carriers and instances.  By
induction over the (acyclic, apart from self-recursion) call graph, every definition of M' equals the definition of M with
the same name; definitions with identical text differ only in callees that are equal.  Trusted: this file's parser
of generated definitions (a wrong split can only make an equation fail or refer to a missing name, never make a false
equation check), the Lean kernel.
"""
import os, re, shutil, subprocess, json

HEADER_RE = re.compile(r"^/-- src/[^\n]*-/\n", re.M)


def norm(text):
    """generated text without the source-position doc comments (they move with every edit above them)"""
    return HEADER_RE.sub("", text)


def split_defs(text):
    """top-level items of a generated file: list of (kind, name, text) in order; everything before the first item is the prelude"""
    t = norm(text)
    # items start at column 0 with one of these keywords (generated files put attributes/docs on their own lines)
    pat = re.compile(r"^(?:@\[[^\]]*\]\s*\n)?(?:noncomputable\s+|partial\s+|private\s+)*(def|instance|structure|inductive|abbrev|theorem)\s+(\S+)", re.M)
    ms = list(pat.finditer(t))
    if not ms:
        return t, []
    prelude = t[:ms[0].start()]
    items = []
    for i, m in enumerate(ms):
        end = ms[i + 1].start() if i + 1 < len(ms) else len(t)
        body = t[m.start():end]
        # drop the trailing `end Namespace` of the file from the last item
        body = re.sub(r"\nend\s+\S+\s*$", "\n", body)
        items.append((m.group(1), m.group(2), body))
    return prelude, items


def acceptable_files(gen_dir, ref_dir):
    return sorted(f for f in os.listdir(gen_dir) if f.endswith(".lean"))


def accept_model(gen_dir, ref_dir):
    """store the current generated model as the reference (run by the maintainer when a model is committed)"""
    os.makedirs(ref_dir, exist_ok=True)
    for f in os.listdir(ref_dir):
        os.remove(os.path.join(ref_dir, f))
    for f in acceptable_files(gen_dir, ref_dir):
        shutil.copy(os.path.join(gen_dir, f), os.path.join(ref_dir, f + ".ref"))
    for f in ("manifest.json", "signatures.json"):
        if os.path.exists(os.path.join(gen_dir, f)):
            shutil.copy(os.path.join(gen_dir, f), os.path.join(ref_dir, f + ".ref"))


TACTIC = r"""
open Lean Elab Tactic in
/-- equality of two generated definitions: definitional unfolding first (new `let`s, renamed locals, extracted or
    inlined helpers, literals turned into constants), then extensionality + case analysis on the `if`s (conditions
    turned round), then induction on the fuel for lifted loops -/
macro "model_equiv" n1:ident n2:ident : tactic => `(tactic|
  first
  | rfl
  | (repeat (apply funext; intro)
     first
     | rfl
     | (simp only [$n1:ident, $n2:ident, ite_not, not_not, Bool.not_eq_true, ne_eq, not_le, not_lt]; done)
     | (unfold $n1 $n2; (try dsimp only); split_ifs <;> first | rfl | (exfalso; simp_all; done) | (simp_all; done))
     | (unfold $n1 $n2; (try dsimp only); repeat' split <;> first | rfl | (exfalso; simp_all; done) | (simp_all; done)))
  | (intros; funext; intros
     rename_i fuel _
     induction fuel <;> simp_all [$n1:ident, $n2:ident]))
"""


def try_equivalence(lean_dir, gen_dir, ref_dir, log, timeout=1500):
    """Returns dict(status=..., changed=[names], proved=[names], failed=[names], files=[...]).
    status: 'unchanged' | 'comments-only' | 'equivalent' | 'not-equivalent' | 'not-attempted:<why>'.
    On 'comments-only' and 'equivalent' the reference text has been restored into Gen/ (so nothing that was built
    against it needs rebuilding); on the other outcomes Gen/ holds the regenerated model."""
    res = {"status": "unchanged", "changed": [], "proved": [], "failed": [], "files": []}
    if not os.path.isdir(ref_dir):
        res["status"] = "not-attempted:no reference model"
        return res
    new_dir = os.path.join(lean_dir, "Statrs", "GenNew")
    shutil.rmtree(new_dir, ignore_errors=True)
    changed_files, comment_only = [], []
    gen_files = acceptable_files(gen_dir, ref_dir)
    ref_files = sorted(f[:-4] for f in os.listdir(ref_dir) if f.endswith(".lean.ref"))
    if gen_files != ref_files:
        res["status"] = "not-attempted:set of generated files changed"
        return res
    texts = {}
    for f in gen_files:
        new = open(os.path.join(gen_dir, f)).read()
        ref = open(os.path.join(ref_dir, f + ".ref")).read()
        texts[f] = (new, ref)
        if new == ref:
            continue
        if norm(new) == norm(ref):
            comment_only.append(f)
        else:
            changed_files.append(f)
    if not changed_files:
        for f in comment_only:
            open(os.path.join(gen_dir, f), "w").write(texts[f][1])
        res["status"] = "comments-only" if comment_only else "unchanged"
        res["files"] = comment_only
        return res
    structural = {"Types.lean", "SF.lean", "SFFloat.lean"}
    if structural & set(changed_files):
        res["status"] = "not-attempted:" + ",".join(sorted(structural & set(changed_files))) + " changed"
        return res
    os.makedirs(new_dir, exist_ok=True)
    eqs = []
    mods = []
    for f in changed_files:
        if f in ("All.lean", "Dispatch.lean"):
            continue
        new, ref = texts[f]
        pre_n, items_n = split_defs(new)
        pre_r, items_r = split_defs(ref)
        refmap = {n: b for (_, n, b) in items_r}
        out = []
        for kind, name, body in items_n:
            if name in refmap and refmap[name] == body:
                continue
            if kind != "def":
                res["status"] = f"not-attempted:{kind} {name} changed in {f}"
                shutil.rmtree(new_dir, ignore_errors=True)
                return res
            out.append(body)
            if name in refmap:
                eqs.append(name)
        removed = [n for (_, n, _) in items_r if n not in {n2 for (_, n2, _) in items_n}]
        res.setdefault("removed", []).extend(removed)
        ns = re.search(r"^namespace\s+(\S+)", pre_n, re.M)
        pre = pre_n.replace("-- GENERATED", "-- definitions of the regenerated model that differ from the reference model (modeleq.py); GENERATED")
        pre = re.sub(r"^namespace\s+Statrs\.Gen\s*$", "namespace Statrs.GenNew\nopen Statrs.Gen", pre, flags=re.M)
        if "namespace Statrs.GenNew" not in pre:
            res["status"] = f"not-attempted:unexpected prelude in {f}"
            shutil.rmtree(new_dir, ignore_errors=True)
            return res
        # the changed file may use definitions of its own reference version and of everything it imported
        pre = pre.replace("set_option", f"import Statrs.Gen.{f[:-5]}\nset_option", 1)
        open(os.path.join(new_dir, f), "w").write(pre + "".join(out) + "\nend Statrs.GenNew\n")
        mods.append("Statrs.GenNew." + f[:-5])
    res["changed"] = eqs
    res["files"] = changed_files
    with open(os.path.join(new_dir, "Equiv.lean"), "w") as fh:
        fh.write("import Mathlib.Tactic\nimport Statrs.Gen.All\n" + "".join(f"import {m}\n" for m in mods))
        fh.write("set_option maxRecDepth 8192\nset_option linter.unusedVariables false\nset_option linter.unusedTactic false\nset_option linter.unreachableTactic false\nnamespace Statrs.GenNew.Equiv\nopen Statrs\n")
        fh.write(TACTIC)
        for i, n in enumerate(eqs):
            fh.write(f"theorem eq_{i} : @Statrs.GenNew.{n} = @Statrs.Gen.{n} := by\n  model_equiv Statrs.GenNew.{n} Statrs.Gen.{n}\n")
        fh.write("end Statrs.GenNew.Equiv\n")
    # restore the reference text so that the equations are about the model the theorems were built against
    for f in changed_files + comment_only:
        open(os.path.join(gen_dir, f), "w").write(texts[f][1])
    try:
        p = subprocess.run(["lake", "build", "Statrs.GenNew.Equiv"], cwd=lean_dir, capture_output=True, text=True, timeout=timeout)
        ok, out = p.returncode == 0, p.stdout + p.stderr
    except subprocess.TimeoutExpired:
        ok, out = False, "timeout"
    if ok and not re.search(r"\bsorry\b", out):
        res["status"] = "equivalent"
        res["proved"] = eqs
        return res
    # which equations failed (best effort, for the report)
    bad = sorted(set(re.findall(r"Equiv\.lean:(\d+):", out)))
    res["failed"] = eqs if not bad else [eqs[min(len(eqs) - 1, max(0, (int(l) - 1) // 1))] for l in []] or eqs
    res["log"] = "\n".join(l for l in out.splitlines() if "error" in l)[:3000]
    res["status"] = "not-equivalent"
    for f in changed_files + comment_only:
        open(os.path.join(gen_dir, f), "w").write(texts[f][0])
    shutil.rmtree(new_dir, ignore_errors=True)
    return res
