use statrs::distribution::*;
use statrs::statistics::*;
use statrs::stats_tests::*;
use std::panic::catch_unwind;
struct Step(Vec<f64>);
impl Min<u64> for Step { fn min(&self)->u64{0} }
impl Max<u64> for Step { fn max(&self)->u64{self.0.len() as u64 -1} }
impl DiscreteCDF<u64,f64> for Step { fn cdf(&self,x:u64)->f64{ *self.0.get(x as usize).unwrap_or(&1.0) } }
struct Fixed(f64);
impl rand::RngCore for Fixed { fn next_u32(&mut self)->u32{(self.next_u64()>>32) as u32} fn next_u64(&mut self)->u64{ ((self.0*(1u64<<53) as f64) as u64)<<11 } fn fill_bytes(&mut self,d:&mut [u8]){for b in d{*b=0}} fn try_fill_bytes(&mut self,d:&mut [u8])->Result<(),rand::Error>{self.fill_bytes(d);Ok(())} }
fn main(){
    std::panic::set_hook(Box::new(|_|{}));
    let s=Step(vec![0.0,0.5,0.5,1.0]);
    println!("default disc inverse_cdf(0.5) on [0,.5,.5,1] = {:?} (minimal k is 1)", catch_unwind(||s.inverse_cdf(0.5)));
    println!("DiscreteUniform(1,MAX).mean panics: {}", catch_unwind(||DiscreteUniform::new(1,i64::MAX).unwrap().mean()).is_err());
    println!("Geometric pmf x=2^31 panics: {}", catch_unwind(||Geometric::new(0.5).unwrap().pmf(1u64<<31)).is_err());
    let g=Geometric::new(0.5).unwrap(); let x=(1u64<<31)+5; println!("Geometric pmf/ln_pmf at 2^31+5: {:e} vs exp(ln_pmf)={:e}", g.pmf(x), g.ln_pmf(x).exp());
    println!("ks identical samples asymptotic: spawn+timeout");
    let h=std::thread::spawn(||{ use statrs::stats_tests::ks_test::*; ks_twosample(vec![1.0,2.0,3.0],vec![1.0,2.0,3.0],KSTwoSampleAlternativeMethod::TwoSidedAsymptotic,NaNPolicy::Error) });
    std::thread::sleep(std::time::Duration::from_secs(2)); println!("  finished after 2s: {}", h.is_finished());
    let f=FisherSnedecor::new(200.0,200.0).unwrap(); println!("F(200,200).pdf(1.0)={}", f.pdf(1.0));
    println!("Gumbel skewness {:?}", Gumbel::new(0.0,1.0).unwrap().skewness());
    println!("gamma(170.0)={:e}", statrs::function::gamma::gamma(170.0));
    println!("Gamma(0.5,1).inverse_cdf(1e-3)={}", Gamma::new(0.5,1.0).unwrap().inverse_cdf(1e-3));
    println!("Categorical::new([inf,1]) ok? {}", Categorical::new(&[f64::INFINITY,1.0]).is_ok()); std::process::exit(0);
}
