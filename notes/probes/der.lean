import Mathlib.Analysis.SpecialFunctions.Trigonometric.ArctanDeriv
import Mathlib.Analysis.SpecialFunctions.ExpDeriv
import Mathlib.Tactic

open Real

-- ℝ readings of the generated Cauchy.cdf / pdf and Gumbel.cdf / pdf
noncomputable def cauchyCdf (l s x : ℝ) : ℝ := (1 / π) * arctan ((x - l) / s) + 0.5
noncomputable def cauchyPdf (l s x : ℝ) : ℝ := 1 / (π * s * (1 + ((x - l) / s) * ((x - l) / s)))

theorem cauchy_deriv (l s x : ℝ) (hs : 0 < s) : HasDerivAt (cauchyCdf l s) (cauchyPdf l s x) x := by
  unfold cauchyCdf cauchyPdf
  have h1 : HasDerivAt (fun x => (x - l) / s) (1 / s) x := by
    simpa using ((hasDerivAt_id x).sub_const l).div_const s
  have h2 := (h1.arctan).const_mul (1 / π) |>.add_const (0.5:ℝ)
  refine h2.congr_deriv ?_
  have hpi : π ≠ 0 := pi_ne_zero
  have hs' : s ≠ 0 := hs.ne'
  have hq : (1 + ((x - l) / s) ^ 2) ≠ 0 := by positivity
  field_simp

noncomputable def gumbelCdf (l s x : ℝ) : ℝ := exp (-(exp (-(x - l) / s)))
noncomputable def gumbelPdf (l s x : ℝ) : ℝ :=
  (1 / s) * exp (-(x - l) / s) * exp (-(exp (-(x - l) / s)))

theorem gumbel_deriv (l s x : ℝ) (hs : 0 < s) : HasDerivAt (gumbelCdf l s) (gumbelPdf l s x) x := by
  unfold gumbelCdf gumbelPdf
  have h1 : HasDerivAt (fun x => -(x - l) / s) (-1 / s) x := by
    simpa using (((hasDerivAt_id x).sub_const l).neg).div_const s
  have h2 := (h1.exp).neg.exp
  convert h2 using 1
  · ext y; simp [neg_div]
  · simp only [Pi.neg_apply]; ring

#print axioms cauchy_deriv
#print axioms gumbel_deriv
