open Float.Model

namespace UF
theorem lt_iff (a b : UnpackedFloat) : a.lt b = true ↔ a.compare b = some .lt := by
  simp [UnpackedFloat.lt]
theorem le_iff (a b : UnpackedFloat) : a.le b = true ↔ (a.compare b = some .lt ∨ a.compare b = some .eq) := by
  unfold UnpackedFloat.le
  cases h : a.compare b with
  | none => simp
  | some o => cases o <;> simp [Ordering.isLE]
theorem compare_nan_left (b : UnpackedFloat) : UnpackedFloat.compare .notANumber b = none := by
  cases b <;> rfl
theorem compare_nan_right (a : UnpackedFloat) : UnpackedFloat.compare a .notANumber = none := by
  cases a with
  | infinity s => cases s <;> rfl
  | notANumber => rfl
  | zero s => rfl
  | finite s m e h => cases s <;> rfl
theorem compare_some (a b : UnpackedFloat) (ha : a.isNaN = false) (hb : b.isNaN = false) :
    ∃ o, a.compare b = some o := by
  cases a with
  | notANumber => simp [UnpackedFloat.isNaN] at ha
  | infinity s => cases b with
    | notANumber => simp [UnpackedFloat.isNaN] at hb
    | infinity s' => exact ⟨_, rfl⟩
    | zero s' => cases s <;> exact ⟨_, rfl⟩
    | finite s' m e h => cases s <;> exact ⟨_, rfl⟩
  | zero s => cases b with
    | notANumber => simp [UnpackedFloat.isNaN] at hb
    | infinity s' => cases s' <;> exact ⟨_, rfl⟩
    | zero s' => exact ⟨_, rfl⟩
    | finite s' m e h => cases s' <;> exact ⟨_, rfl⟩
  | finite s m e h => cases b with
    | notANumber => simp [UnpackedFloat.isNaN] at hb
    | infinity s' => cases s' <;> cases s <;> exact ⟨_, rfl⟩
    | zero s' => cases s <;> exact ⟨_, rfl⟩
    | finite s' m' e' h' => cases s <;> cases s' <;> exact ⟨_, rfl⟩
end UF

namespace Float
theorem lt_def (a b : Float) : a < b ↔ a.toModel.unpack.lt b.toModel.unpack = true := by
  show a.lt b = true ↔ _
  simp only [Float.lt, LT.lt, Float.Model.lt]; exact decide_eq_true_iff
theorem le_def (a b : Float) : a ≤ b ↔ a.toModel.unpack.le b.toModel.unpack = true := by
  show a.le b = true ↔ _
  simp only [Float.le, LE.le, Float.Model.le]; exact decide_eq_true_iff
theorem lt_imp_le (a b : Float) (h : a < b) : a ≤ b := by
  rw [lt_def, UF.lt_iff] at h; rw [le_def, UF.le_iff]; exact Or.inl h
theorem not_le_of_nan (a b : Float) (h : a.isNaN = true) : ¬ a ≤ b := by
  rw [le_def, UF.le_iff]
  have : a.toModel.unpack = .notANumber := by
    have : a.toModel.unpack.isNaN = true := h
    cases hu : a.toModel.unpack <;> simp_all [UnpackedFloat.isNaN]
  rw [this, UF.compare_nan_left]; simp
theorem total_of_not_nan (a b : Float) (ha : a.isNaN = false) (hb : b.isNaN = false) :
    a ≤ b ∨ b < a := by
  sorry
theorem nan_unpack (a : Float) : a.isNaN = false → a.toModel.unpack.isNaN = false := fun h => h
end Float
#print axioms Float.lt_imp_le
#print axioms Float.not_le_of_nan
#print axioms UF.compare_some
