class RFun (α : Type) where
  exp : α → α
  ln : α → α
  isNaN : α → Bool
  isInf : α → Bool
  negInf : α

section
variable {α : Type} [Add α] [Sub α] [Mul α] [Div α] [Neg α] [LT α] [LE α]
  [DecidableLT α] [DecidableLE α] [OfScientific α] [RFun α]

structure Uniform (α : Type) where
  min : α
  max : α

def Uniform.cdf (self : Uniform α) (x : α) : α :=
  if x ≤ self.min then 0.0
  else if self.max ≤ x then 1.0
  else (x - self.min) / (self.max - self.min)
def Uniform.sf (self : Uniform α) (x : α) : α :=
  if x ≤ self.min then 1.0
  else if self.max ≤ x then 0.0
  else (self.max - x) / (self.max - self.min)

structure Exp (α : Type) where
  rate : α
def Exp.cdf (self : Exp α) (x : α) : α :=
  if x < 0.0 then 0.0 else 1.0 - RFun.exp (-self.rate * x)
def Exp.ln_pdf (self : Exp α) (x : α) : α :=
  if x < 0.0 then RFun.negInf else RFun.ln self.rate - self.rate * x

theorem Exp.ln_pdf_below (d : Exp α) (x : α) (h : x < 0.0) : d.ln_pdf x = RFun.negInf := by
  simp [Exp.ln_pdf, h]
end

instance : RFun Float where
  exp := Float.exp
  ln := Float.log
  isNaN := Float.isNaN
  isInf := Float.isInf
  negInf := -(1.0/0.0)

#eval (Uniform.cdf (α := Float) ⟨0.0, 2.0⟩ 0.5)
#eval (Exp.cdf (α := Float) ⟨1.5⟩ 0.5)
