def xs : List Float := [0.3,1.7,1e-5,123.456,-2.5,0.999999,7.25e-3, 50.5]
def main : IO Unit := do
  for x in xs do
    IO.println s!"{x} exp={x.exp.toBits} ln={x.abs.log.toBits} pow={(Float.pow x.abs 1.7).toBits} atan={x.atan.toBits} tan={x.tan.toBits} sin={x.sin.toBits} sqrt={x.abs.sqrt.toBits}"
