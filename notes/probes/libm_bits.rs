fn main(){
    let xs=[0.3f64,1.7,1e-5,123.456,-2.5,0.999999,7.25e-3, 50.5];
    for &x in &xs{
        println!("{} exp={} ln={} pow={} atan={} tan={} sin={} ln1p={} expm1={} powi={} sqrt={}",
          x, x.exp().to_bits(), x.abs().ln().to_bits(), x.abs().powf(1.7).to_bits(), x.atan().to_bits(), x.tan().to_bits(), x.sin().to_bits(), (x.abs()).ln_1p().to_bits(), x.exp_m1().to_bits(), x.powi(7).to_bits(), x.abs().sqrt().to_bits());
    }
}
