import gen
import Mathlib.Analysis.SpecialFunctions.Log.Basic
import Mathlib.Probability.Distributions.Exponential
import Mathlib.Tactic.Linarith
import Mathlib.Tactic.FieldSimp
import Mathlib.Tactic.Ring
import Mathlib.Tactic.NormNum

noncomputable instance instRFunReal : RFun ℝ where
  exp := Real.exp
  ln := Real.log
  isNaN := fun _ => false
  isInf := fun _ => false
  negInf := 0

theorem Uniform.cdf_add_sf (d : Uniform ℝ) (x : ℝ) (h : d.min < d.max) : d.cdf x + d.sf x = 1 := by
  unfold Uniform.cdf Uniform.sf
  have hne : d.max - d.min ≠ 0 := by linarith [h]
  split_ifs <;> norm_num
  rw [← add_div]; rw [div_eq_one_iff_eq hne]; ring

open ProbabilityTheory in
theorem Exp.cdf_eq_mathlib (d : Exp ℝ) (x : ℝ) (h : 0 < d.rate) :
    d.cdf x = ProbabilityTheory.cdf (expMeasure d.rate) x := by
  rw [cdf_expMeasure_eq h]
  unfold Exp.cdf
  split_ifs with h1 h2 h2
  · norm_num at h1; linarith
  · norm_num
  · norm_num at h1 ⊢; simp [RFun.exp]
  · norm_num at h1; linarith

#print axioms Uniform.cdf_add_sf
#print axioms Exp.cdf_eq_mathlib
