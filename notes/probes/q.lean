#eval (1/3 : Rat) + 1/6
#check @Rat.floor
#eval (Rat.floor (7/2 : Rat))
def dy (bits : UInt64) : Rat :=
  let f := Float.ofBits bits
  let (m, e) := f.frExp  -- m in [0.5,1)
  let mi : Int := (m.scaleB 53).toInt64.toInt
  if e - 53 ≥ 0 then (mi * (2:Int)^(e-53).toNat : Int) else (mi : Rat) / ((2:Nat)^(53-e).toNat : Nat)
#eval dy (0.1 : Float).toBits
#eval dy (123.456 : Float).toBits
