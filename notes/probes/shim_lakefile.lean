import Lake
open Lake DSL

package lk

lean_lib Lk

target shim.o pkg : System.FilePath := do
  let oFile := pkg.buildDir / "c" / "shim.o"
  let srcJob ← inputTextFile <| pkg.dir / "c" / "shim.c"
  let flags := #["-I", (← getLeanIncludeDir).toString, "-fPIC", "-O1"]
  buildO oFile srcJob flags #[] "cc"

extern_lib libshim pkg := do
  let o ← shim.o.fetch
  buildStaticLib (pkg.staticLibDir / nameToStaticLib "shim") #[o]

@[default_target]
lean_exe drv where
  root := `Main
