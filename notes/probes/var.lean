import Mathlib.Algebra.BigOperators.Group.List.Basic
import Mathlib.Algebra.Order.Field.Basic
import Mathlib.Tactic.FieldSimp
import Mathlib.Tactic.Ring
import Mathlib.Tactic.Linarith
import Mathlib.Data.Real.Basic
import Mathlib.Data.List.Induction

-- model of the loop body of iter_statistics::variance (state: i, sum, variance)
structure VS (α : Type) where
  i : α
  sum : α
  m2 : α

variable {α : Type} [Field α]

def vstep (s : VS α) (x : α) : VS α :=
  let i := s.i + 1
  let sum := s.sum + x
  let diff := i * x - sum
  ⟨i, sum, s.m2 + diff * diff / (i * (i - 1))⟩

def vrun (x0 : α) (xs : List α) : VS α := xs.foldl vstep ⟨1, x0, 0⟩

-- textbook: sum of squared deviations from the mean
def ssd (l : List α) : α := (l.map (fun x => (x - l.sum / l.length) ^ 2)).sum

-- alternative closed form: Σx² - (Σx)²/n
theorem ssd_eq [CharZero α] (l : List α) (h : l ≠ []) :
    ssd l = (l.map (· ^ 2)).sum - l.sum ^ 2 / l.length := by
  have hn : (l.length : α) ≠ 0 := by
    simp [List.length_eq_zero_iff, h]
  unfold ssd
  induction l with
  | nil => exact absurd rfl h
  | cons a t ih => sorry

theorem vrun_inv [CharZero α] (x0 : α) (xs : List α) :
    let s := vrun x0 xs
    s.i = (xs.length + 1 : ℕ) ∧ s.sum = x0 + xs.sum ∧
    s.m2 = ((x0 :: xs).map (· ^ 2)).sum - (x0 + xs.sum) ^ 2 / (xs.length + 1 : ℕ) := by
  induction xs using List.reverseRecOn with
  | nil => simp [vrun]
  | append_singleton xs x ih =>
    obtain ⟨h1, h2, h3⟩ := ih
    simp only [vrun, List.foldl_append, List.foldl_cons, List.foldl_nil] at *
    refine ⟨?_, ?_, ?_⟩
    · simp [vstep, h1]
    · simp [vstep, h2]; ring
    · simp only [vstep, h1, h2, h3]
      have hn : ((xs.length : α) + 1) ≠ 0 := by exact_mod_cast Nat.succ_ne_zero xs.length
      have hn2 : ((xs.length : α) + 1 + 1) ≠ 0 := by exact_mod_cast Nat.succ_ne_zero (xs.length+1)
      simp
      push_cast
      field_simp
      ring
