"""Per-property configuration of ./check (what to build, which model functions to pin, which search to run)."""

DIST_NOTE = "float rounding / overflow behaviour of the closed forms is outside the ℝ theorems (covered by correspondence + search only)"
SF_NOTE = "special-function algorithms (erf, incomplete gamma/beta, ln_gamma) are modelled, not verified against the true functions: theorems about families that use them are relative to explicit SFSpec premises"

XR_NOTE = "IEEE special values are covered by the exact-value carrier XR (nan | -inf | finite real | +inf); rounding is not modelled there"

PROPS = {
    "C09": {
        "corr_filters": ["::new", "::standard", "::default", "::shape", "::rate", "::scale", "::location", "::freedom", "::p", "::n",
                         "::min", "::max", "::mean", "::std_dev", "::population", "::successes", "::draws", "::shape_a", "::shape_b",
                         "::freedom_1", "::freedom_2", "::mu", "::c", "::r", "::lambda", "::mode", "::variance"],
        "hand_suites": ["categorical", "multivariate"],
        "not_covered": [XR_NOTE, "vector/matrix constructors are proved about hand models (Model/Multivariate.lean, Model/CategoricalModel.lean) tied by correspondence, not about translated code",
                        "Cholesky success = positive definiteness is proved for 1x1 and 2x2 matrices only; for n >= 3 the domain clause is the model predicate LA.choleskyNew ≠ none"],
        "assumptions": ["documented domains transcribed by hand from the `# Errors` doc sections into Statrs/Spec/Domain.lean"],
    },
    "C01": {
        "corr_filters": ["::cdf", "::min", "::max"],
        "hand_suites": ["empirical", "categorical"],
        "also_search": [("C15", "Empirical")],
        "also_props": ["C10/StudentsT", "C15/Observations"],
        "not_covered": [DIST_NOTE, SF_NOTE, "range/monotonicity of the incomplete gamma/beta/erf algorithms in floating point"],
        "assumptions": ["Real-number semantics for theorems; IEEE semantics only through the bit-level correspondence"],
    },
    "C02": {
        "corr_filters": ["::sf", "::cdf"],
        "hand_suites": ["empirical", "categorical"],
        "also_search": [("C15", "Empirical")],
        "also_props": ["C10/StudentsT", "C15/Observations"],
        "not_covered": [DIST_NOTE, SF_NOTE, "agreement of the two independent continued fractions gamma_lr / gamma_ur in floating point"],
        "assumptions": ["Real-number semantics for theorems; IEEE semantics only through the bit-level correspondence"],
    },
    "C03": {
        "corr_filters": ["::pdf", "::pmf", "::cdf"],
        "also_props": ["C10/StudentsT", "C10/Delegation"],
        "hand_suites": ["categorical"],
        "not_covered": [DIST_NOTE, SF_NOTE, "C03 derivative/integral theorems for families whose cdf is an incomplete gamma/beta/erf (search only)",
                        "finiteness / overflow of closed-form densities (Float-only)"],
        "assumptions": ["Real-number semantics for theorems; IEEE semantics only through the bit-level correspondence and the Float counterexample theorems"],
    },
    "C04": {
        "corr_filters": ["::ln_pdf", "::ln_pmf", "::pdf", "::pmf"],
        "also_props": ["C10/StudentsT", "C10/Delegation"],
        "hand_suites": ["categorical"],
        "not_covered": [DIST_NOTE, "underflow regions ('may be finite but not +inf/NaN')", "multivariate log-densities (see C19)"],
        "assumptions": ["Real.log 0 = 0 over ℝ: statements are restricted to points with positive density; off-support behaviour is covered by the ∀α guard lemmas"],
    },
    "C05": {
        "corr_filters": ["::inverse_cdf", "::cdf", "crate::distribution::internal"],
        "also_props": ["C10/StudentsT", "C10/LocScaleNormalCauchy", "C10/LocScaleLaplaceGumbelLevy", "C10/LocScaleUniformTriangular"],
        "hand_suites": ["inv_beta_reg", "categorical"],
        "not_covered": [DIST_NOTE, SF_NOTE, "convergence/accuracy of the iterative inverses (Gamma Newton steps, inv_beta_reg AS 109): pin + search only"],
        "assumptions": [],
    },
    "C07": {
        "corr_filters": ["::mean", "::variance", "::std_dev", "::entropy", "::skewness"],
        "hand_suites": ["categorical"],
        "not_covered": [DIST_NOTE, "moment integrals of non-elementary densities and all entropy/skewness integrals: formula level only, tied to the density by the search"],
        "assumptions": [],
    },
    "C08": {
        "corr_filters": ["::median", "::mode", "::min", "::max"],
        "hand_suites": ["categorical"],
        "not_covered": [DIST_NOTE, "modes/medians of special-function families (search only)", "documented-approximation medians (40%-60% band): search only"],
        "assumptions": [],
    },
    "C10": {
        "corr_filters": ["ChiSquared::", "Gamma::", "Erlang::", "Exp::", "Weibull::", "Bernoulli::", "Binomial::", "Beta::", "Uniform::", "StudentsT::",
                         "Cauchy::", "Normal::", "Chi::", "LogNormal::", "InverseGamma::", "FisherSnedecor::", "Geometric::", "NegativeBinomial::", "Dirac::",
                         "Laplace::", "Gumbel::", "Levy::", "Triangular::"],
        "not_covered": [DIST_NOTE, "agreement of two different special-function algorithms in floating point (gamma_lr vs exp, beta_reg vs atan): search only"],
        "assumptions": [],
    },
    "C11": {
        "corr_filters": ["crate::function"],
        "hand_suites": ["inv_beta_reg"],
        "not_covered": ["accuracy of gamma/ln_gamma/digamma/erf/erfc/incomplete gamma/beta and their inverses against the TRUE functions: Mathlib has no erf or incomplete gamma/beta, so this part is decided by the reference-table search only, never claimed as proved",
                        "positivity of the Lanczos sum; binomial for n > 170"],
        "assumptions": ["special-function models are pinned bit-for-bit to the code by the correspondence; their coefficient tables are regenerated from the source"],
    },
    "C12": {
        "corr_filters": ["crate::function", "::new", "Hypergeometric::", "DiscreteUniform::", "Geometric::", "i64::", "i32::", "u64::", "u32::", "f64::"],
        "hand_suites": ["empirical", "categorical"],
        "also_search": [("C15", "Empirical")],
        "also_props": ["C15/Observations"],
        "not_covered": ["termination of convergence-tested floating-point loops (incomplete gamma series/continued fraction, Kolmogorov series, inv_beta_reg) and of rejection samplers: they terminate because of rounding, which the ℝ model does not carry — watchdog only",
                        "integer overflow of + and * is not modelled (unsigned subtraction and division by zero are)"],
        "assumptions": ["harness built with overflow-checks = true; every call under catch_unwind and a watchdog"],
    },
    "C13": {
        "corr_filters": [],
        "hand_suites": ["stats"],
        "not_covered": ["the rounding-error bound itself (backward error of the streaming updates in IEEE arithmetic): measured by the exact-rational oracle in the search, not proved",
                        "geometric/harmonic mean zero-entry and negative-entry rules that depend on ln 0 / 1/0 in IEEE arithmetic"],
        "assumptions": [],
    },
    "C20": {
        "corr_filters": ["i64::", "i32::", "u64::", "u32::", "f64::", "crate::function::evaluate", "crate::prec", "crate::generate"],
        "hand_suites": ["generators"],
        "not_covered": ["float modulus: rounding of r + d in the sign-mismatch branch (over ℝ the guard s == d is dead; in floats it keeps the result inside [0,d)) is exercised by the search only", "Horner rounding bound (Float-only)", "generator phase accumulation error in floating point"],
        "assumptions": [],
    },
    "C14": {
        "corr_filters": [],
        "hand_suites": ["order", "ranktests"],
        "not_covered": ["full functional correctness of quickselect (partition invariant) unless Props/C14/SelectCorrect.lean proves it: otherwise it rests on the exhaustive weak-ordering correspondence + sort oracle, labelled as a test",
                        "Data::ranks is hand-modelled (Model/RankTests.lean, stable insertion sort) and tied by the ranktests correspondence; sort_by's algorithm itself is not modelled"],
        "assumptions": ["slice sort_by is modelled by a stable merge sort where it occurs"],
    },
    "C15": {
        "corr_filters": [],
        "hand_suites": ["empirical"],
        "not_covered": ["rounding of the running moments ('up to rounding proportional to the largest magnitude ever inserted'): measured by the exact multiset oracle in the search"],
        "assumptions": ["hand model Statrs/Model/Empirical.lean (BTreeMap as a sorted association list) pinned bit-for-bit to the code by the correspondence"],
    },
    "C16": {
        "corr_filters": ["crate::stats_tests::fisher", "Hypergeometric::"],
        "hand_suites": ["ranktests"],
        "also_props": ["C18/RankTests", "C17/RankTests"],
        "not_covered": ["two-sided Fisher: bounds massLE(p) ≤ v ≤ massLE(p/EPSILON) and the exact branch structure are proved relative to UnimodalPmfSpec (strict unimodality of the hypergeometric pmf is a premise, proved only for a witness table); the KS lattice DP (Schroer-Trenkler) and the Marsaglia-Tsang-Wang matrix power are hand-modelled and tied by the ranktests correspondence, but no theorem relates them to the exact null probability", "floating-point accuracy of the hypergeometric masses"],
        "assumptions": [],
    },
    "C17": {
        "corr_filters": ["crate::stats_tests", "StudentsT::cdf", "Normal::cdf", "ChiSquared::sf", "FisherSnedecor::sf"],
        "hand_suites": ["ranktests"],
        "not_covered": ["accuracy of the reference distributions' cdfs (C01/C11 territory)", "mannwhitneyu / ks top-level functions are hand-modelled (Model/RankTests.lean) and tied by the ranktests correspondence; rankdata_mwu is private and observed only through mannwhitneyu"],
        "assumptions": [],
    },
    "C18": {
        "corr_filters": ["crate::stats_tests"],
        "hand_suites": ["ranktests"],
        "not_covered": ["invariance up to rounding in floats (tolerances are search-side)", "termination of the Kolmogorov series"],
        "assumptions": [],
    },
    "C06": {
        "corr_filters": [],
        "hand_suites": ["samplers"],
        "not_covered": ["the output law of rejection samplers (ziggurat, Marsaglia-Tsang gamma, Poisson PTRS) and Cholesky-based samplers; goodness of fit is statistics, not a theorem", "termination of rejection loops (probability-1 only)"],
        "assumptions": ["hand models Statrs/Model/{Rng,Samplers}.lean with rand 0.8's word->value conversions, pinned bit-for-bit to the code by the scripted-RNG correspondence"],
    },
    "C19": {
        "corr_filters": [],
        "hand_suites": ["multivariate"],
        "not_covered": ["normalisation and moment integrals of MVN/MVT/Dirichlet densities (cubature in the search only)", "entropy integrals (formula level only)",
                        "correctness of the modelled nalgebra routines (LU determinant, Cholesky, inverse) as det / positive-definiteness / inverse in general dimension: explicit premises (CovSpec, PSDSpec, MatrixSpec)"],
        "assumptions": ["hand model Statrs/Model/Multivariate.lean incl. list-of-lists versions of nalgebra 0.33 dotx/gemv/LU/Cholesky, pinned bit-for-bit to the code by the correspondence"],
    },
}
