"""Per-property configuration of ./check (what to build, which model functions to pin, which search to run)."""

DIST_NOTE = "float rounding / overflow behaviour of the closed forms is outside the ℝ theorems (covered by correspondence + search only)"
SF_NOTE = "special-function algorithms (erf, incomplete gamma/beta, ln_gamma) are modelled, not verified against the true functions: theorems about families that use them are relative to explicit SFSpec premises"

PROPS = {
    "C01": {
        "corr_filters": ["::cdf", "::min", "::max"],
        "not_covered": [DIST_NOTE, SF_NOTE, "range/monotonicity of the incomplete gamma/beta/erf algorithms in floating point"],
        "assumptions": ["Real-number semantics for theorems; IEEE semantics only through the bit-level correspondence"],
    },
    "C02": {
        "corr_filters": ["::sf", "::cdf"],
        "not_covered": [DIST_NOTE, SF_NOTE, "agreement of the two independent continued fractions gamma_lr / gamma_ur in floating point"],
        "assumptions": ["Real-number semantics for theorems; IEEE semantics only through the bit-level correspondence"],
    },
}
